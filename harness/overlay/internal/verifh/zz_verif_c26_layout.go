//go:build verif

package verifh

// C26: generated file-system layouts (a sandbox root with hostile symlink arrangements inside,
// a canary tree outside), hostile path spellings, and outside-the-root snapshots.
// Shared by internal/util/zz_verif_c26_test.go and internal/server/admin/zz_verif_c26e_test.go.

import (
	"crypto/sha256"
	"encoding/hex"
	"fmt"
	"io/fs"
	"math/rand"
	"os"
	"path/filepath"
	"sort"
	"strings"
	"syscall"
	"time"
)

type C26Entry struct {
	Path   string // physical absolute path
	Kind   byte   // 'D', 'F', 'L'
	Target string // for links
}

type C26Layout struct {
	Base     string // symlink-free scratch directory holding everything
	Root     string // the configured sandbox root (may be a symlink, may not exist)
	PhysRoot string // where the root physically is (== Root unless Root is a symlink)
	Variant  int    // 0 plain root, 1 root is a symlink to realroot, 2 root does not exist
	Entries  []C26Entry
	Dirs     []string // physical directories inside the root (including PhysRoot)
	Links    []string // symlinks inside the root
	Dangling bool     // some link inside the root is dangling towards the outside
}

var c26Counter int

var c26Names = []string{"a", "b", "c", "d", "e", "f", "dir", "lnk", "x.json", "t.txt"}

// C26Canary is the content token of every pre-existing file outside the root; variant selects
// a different outside world (for the non-interference oracle).
func C26Canary(world int) string { return fmt.Sprintf("CANARY-%d-c26-7f3a9", world) }

// C26NewLayout builds a layout under parent. world selects the content of the OUTSIDE tree only:
// the inside of the root is identical for equal (r state, variant) and different worlds.
func C26NewLayout(r *rand.Rand, parent string, world int) *C26Layout {
	// fixed-length names: twin layouts must have link targets of equal length
	c26Counter++
	base := filepath.Join(parent, fmt.Sprintf("c26-%07d", c26Counter))

	if err := os.Mkdir(base, 0o700); err != nil {
		panic(err)
	}

	base, _ = filepath.EvalSymlinks(base)
	l := &C26Layout{Base: base}
	l.add('D', base, "")

	out := filepath.Join(base, "outside")
	l.mkdir(out)
	l.mkdir(filepath.Join(base, "cwd"))

	if world == 0 {
		l.file(filepath.Join(out, "canary.txt"), C26Canary(0)+strings.Repeat("x", 7000))
		l.file(filepath.Join(out, "canary.json"), `{"secret":"`+C26Canary(0)+`"}`)
		l.mkdir(filepath.Join(out, "sub"))
		l.file(filepath.Join(out, "sub", "kname-w0-5511"), C26Canary(0))
	} else {
		// a different world: other contents, sizes and names; canary.json absent
		l.file(filepath.Join(out, "canary.txt"), C26Canary(1))
		l.mkdir(filepath.Join(out, "sub"))
		l.file(filepath.Join(out, "sub", "kname-w1-9090"), "")
		l.file(filepath.Join(out, "sub", "more-w1"), C26Canary(1))
	}

	l.Variant = []int{0, 0, 0, 1, 1, 2}[r.Intn(6)]
	// a sibling that shares the root's name as a string prefix ("/sandbox-evil" against "/sandbox")
	evil := filepath.Join(base, []string{"root", "rootlink", "noroot"}[l.Variant]) + "-evil"
	l.mkdir(evil)
	l.file(filepath.Join(evil, "x"), C26Canary(world))

	switch l.Variant {
	case 0:
		l.Root = filepath.Join(base, "root")
		l.PhysRoot = l.Root
		l.mkdir(l.Root)
	case 1:
		l.Root = filepath.Join(base, "rootlink")
		l.PhysRoot = filepath.Join(base, "realroot")
		l.mkdir(l.PhysRoot)
		l.link(l.Root, []string{l.PhysRoot, "realroot", "./realroot/", "../" + filepath.Base(base) + "/realroot"}[r.Intn(4)])
	default:
		l.Root = filepath.Join(base, "noroot")
		l.PhysRoot = l.Root

		return l
	}

	l.Dirs = []string{l.PhysRoot}
	n := 3 + r.Intn(10)

	for i := 0; i < n; i++ {
		parent := l.Dirs[r.Intn(len(l.Dirs))]
		p := filepath.Join(parent, c26Names[r.Intn(len(c26Names))])

		if _, err := os.Lstat(p); err == nil {
			continue
		}

		switch k := r.Intn(20); {
		case k < 6:
			l.mkdir(p)
			l.Dirs = append(l.Dirs, p)
		case k < 10:
			l.file(p, fmt.Sprintf(`{"inside":%d}`, i))
		default:
			l.link(p, l.target(r, parent))
			l.Links = append(l.Links, p)
		}
	}

	for _, p := range l.Links {
		if _, err := os.Stat(p); err != nil {
			if t, _ := os.Readlink(p); strings.Contains(t, "outside") {
				l.Dangling = true
			}
		}
	}

	return l
}

// C26AddListing plants, for the directory-listing oracle, symlinks that are ENTRIES of one directory
// inside the root (an existing one, possibly the root itself, or a fresh sub-directory) and lead
// outside it: to existing files and directories (absolute / relative / through a chain of inside
// links), to names that exist in one outside world only, plus generated hostile targets and
// harmless controls (a regular file, a sub-directory, links that stay inside). The path ARGUMENT of a
// listing call names the directory, which is inside; only the entries lead out. The inside of the
// root stays identical for twin layouts (same r state). Returns the physical directory ("" when
// the root does not exist).
func (l *C26Layout) C26AddListing(r *rand.Rand) string {
	if len(l.Dirs) == 0 {
		return ""
	}

	host := l.Dirs[r.Intn(len(l.Dirs))]

	if r.Intn(3) > 0 {
		if p := filepath.Join(host, []string{"lst", "e", "dir", "f"}[r.Intn(4)]); !c26Exists(p) {
			l.mkdir(p)
			l.Dirs = append(l.Dirs, p)
			host = p
		}
	}

	rel, _ := filepath.Rel(l.PhysRoot, host)
	depth := 0

	if rel != "." {
		depth = len(strings.Split(rel, "/"))
	}

	up := strings.Repeat("../", depth+1) // from host up to Base
	evil := filepath.Base(l.Root) + "-evil"
	files := []string{"outside/canary.txt", "outside/canary.json", evil + "/x", "outside/sub/kname-w0-5511", "outside/sub/more-w1"}
	dirs := []string{"outside", "outside/sub", "cwd", evil, "."}
	n := 0

	name := func() string {
		for {
			n++

			if p := filepath.Join(host, fmt.Sprintf("%s%d", []string{"k", "m", "z"}[r.Intn(3)], n)); !c26Exists(p) {
				return p
			}
		}
	}

	spell := func(o string) string {
		if r.Intn(2) == 0 {
			return filepath.Join(l.Base, o)
		}

		return up + o
	}

	plant := func(target string) string {
		p := name()
		l.link(p, target)
		l.Links = append(l.Links, p)

		return p
	}

	// guaranteed: an existing outside file and an existing outside directory (canary.txt and the
	// directories exist in every world), then a random mix
	first := plant(spell(files[0]))
	plant(spell(dirs[r.Intn(len(dirs))]))

	for i, k := 0, 2+r.Intn(5); i < k; i++ {
		switch r.Intn(6) {
		case 0:
			plant(spell(files[r.Intn(len(files))]))
		case 1:
			plant(spell(dirs[r.Intn(len(dirs))]))
		case 2:
			plant(filepath.Base(first)) // chain: entry -> sibling entry -> outside
			first = plant(spell(append(files, dirs...)[r.Intn(len(files)+len(dirs))]))
		case 3:
			plant(l.target(r, host)) // generated hostile shapes (dangling, loops, through-and-out, ...)
		case 4:
			// controls: entries that stay inside
			l.file(name(), fmt.Sprintf(`{"inside":"%d"}`, i))
			p := name()
			l.mkdir(p)
			l.Dirs = append(l.Dirs, p)
		default:
			plant([]string{".", "..", l.PhysRoot, filepath.Base(first)}[r.Intn(4)])
		}
	}

	return host
}

// C26MutateOutside changes the world OUTSIDE the root in place (the inside is untouched): every
// pre-existing outside file gets another size, mode and modification time, names appear and
// disappear, a directory becomes a file, dangling link targets come alive, directories get other
// modes and times. A listing taken inside the root before and after must be identical.
func (l *C26Layout) C26MutateOutside() {
	out := filepath.Join(l.Base, "outside")
	evil := l.Root + "-evil"
	old := time.Unix(1_000_000_000, 0)

	for _, p := range []string{filepath.Join(out, "canary.txt"), filepath.Join(evil, "x")} {
		_ = os.WriteFile(p, []byte(C26Canary(0)+"-mutated-"+strings.Repeat("m", 333)), 0o600)
		_ = os.Chmod(p, 0o600)
		_ = os.Chtimes(p, old, old)
	}

	if p := filepath.Join(out, "canary.json"); c26Exists(p) {
		_ = os.Remove(p)
	} else {
		_ = os.WriteFile(p, []byte(`{"secret":"`+C26Canary(0)+`-mutated"}`), 0o644)
	}

	_ = os.RemoveAll(filepath.Join(out, "sub"))
	_ = os.WriteFile(filepath.Join(out, "sub"), []byte(C26Canary(0)+"-was-a-directory"), 0o644)
	_ = os.WriteFile(filepath.Join(out, "newfile"), []byte(C26Canary(0)+"-new"), 0o644)
	_ = os.Mkdir(filepath.Join(out, "nodir"), 0o755)
	_ = os.WriteFile(filepath.Join(out, "nodir", "x"), []byte(C26Canary(0)+"-new"), 0o644)

	for _, p := range []string{out, evil, filepath.Join(l.Base, "cwd")} {
		_ = os.Chmod(p, 0o710)
		_ = os.Chtimes(p, old, old)
	}
}

func c26Exists(p string) bool {
	_, err := os.Lstat(p)

	return err == nil
}

func (l *C26Layout) add(k byte, p, t string) { l.Entries = append(l.Entries, C26Entry{p, k, t}) }

func (l *C26Layout) mkdir(p string) {
	if err := os.Mkdir(p, 0o755); err != nil {
		panic(err)
	}

	l.add('D', p, "")
}

func (l *C26Layout) file(p, content string) {
	if err := os.WriteFile(p, []byte(content), 0o641); err != nil {
		panic(err)
	}

	l.add('F', p, "")
}

func (l *C26Layout) link(p, target string) {
	if err := os.Symlink(target, p); err != nil {
		panic(err)
	}

	l.add('L', p, target)
}

// target picks a hostile symlink target for a link created in directory parent.
func (l *C26Layout) target(r *rand.Rand, parent string) string {
	rel, _ := filepath.Rel(l.PhysRoot, parent)
	depth := 0

	if rel != "." {
		depth = len(strings.Split(rel, "/"))
	}

	up := strings.Repeat("../", depth+1) // from parent up to Base
	outs := []string{"outside", "outside/canary.txt", "outside/canary.json", "outside/sub", "outside/newfile",
		"outside/nodir/x", "outside/sub/newer.json", "cwd", ""}
	o := outs[r.Intn(len(outs))]

	var t string

	switch r.Intn(14) {
	case 0, 1:
		t = up + o // relative escape
	case 2, 3:
		t = filepath.Join(l.Base, o) // absolute escape
	case 4:
		t = c26Names[r.Intn(len(c26Names))] // sibling (maybe dangling, maybe itself: a loop)
	case 5:
		t = "../" + c26Names[r.Intn(len(c26Names))]
	case 6:
		t = []string{".", "..", "/", l.Root, l.PhysRoot, l.Base}[r.Intn(6)]
	case 7:
		if len(l.Links) > 0 {
			t = l.Links[r.Intn(len(l.Links))] // chain (absolute)
		} else {
			t = "nothere/deeper"
		}
	case 8:
		if len(l.Links) > 0 {
			t, _ = filepath.Rel(parent, l.Links[r.Intn(len(l.Links))]) // chain (relative)
		} else {
			t = "nothere"
		}
	case 9:
		t = filepath.Join(l.Root, c26Names[r.Intn(len(c26Names))], c26Names[r.Intn(len(c26Names))])
	case 10:
		t = strings.Repeat("../", depth+1+len(strings.Split(l.Base, "/"))+r.Intn(3)) + "nx-c26-" + o
	case 11:
		t = l.Dirs[r.Intn(len(l.Dirs))] + "/../../" + o // through an inside directory and out again
	case 12:
		t = "a/../../" + strings.Repeat("../", depth) + o // ".." after a (maybe missing) component
	default:
		t = up + "./" + "/" + o + "/" // spelling noise
	}

	if t == "" {
		t = "."
	}

	return t
}

// Line is the model's description of the layout: every ancestor of Base is a directory, then the entries.
func (l *C26Layout) Line() string {
	var b strings.Builder

	for p := filepath.Dir(l.Base); p != "/"; p = filepath.Dir(p) {
		b.WriteString("D" + p + ";")
	}

	for _, e := range l.Entries {
		b.WriteByte(e.Kind)
		b.WriteString(e.Path)

		if e.Kind == 'L' {
			b.WriteString(">" + e.Target)
		}

		b.WriteByte(';')
	}

	return b.String()
}

// C26Path generates one hostile spelling of a path for the layout.
func (l *C26Layout) C26Path(r *rand.Rand) string {
	seg := func() string {
		switch k := r.Intn(16); {
		case k < 6:
			return c26Names[r.Intn(len(c26Names))]
		case k < 9:
			return ".."
		case k == 9:
			return "."
		case k == 10:
			return ""
		case k == 11 && len(l.Links) > 0:
			return filepath.Base(l.Links[r.Intn(len(l.Links))])
		case k == 12:
			return []string{"outside", "canary.txt", "canary.json", "sub", "newfile", "cwd"}[r.Intn(6)]
		case k == 13:
			return []string{"..x", "...", "a b", "é世", "a\x00b", strings.Repeat("n", 300), "..a", "-"}[r.Intn(8)]
		default:
			return c26Names[r.Intn(4)]
		}
	}

	relp := func(n int) string {
		parts := make([]string, n)
		for i := range parts {
			parts[i] = seg()
		}

		return strings.Join(parts, "/")
	}

	inside := func() string { // a path of an existing entry inside the root, relative to the root
		var in []string

		for _, e := range l.Entries {
			if strings.HasPrefix(e.Path, l.PhysRoot+"/") {
				in = append(in, strings.TrimPrefix(e.Path, l.PhysRoot+"/"))
			}
		}

		if len(in) == 0 {
			return "a"
		}

		return in[r.Intn(len(in))]
	}

	tails := []string{"", "/", "/canary.txt", "/canary.json", "/sub/newer.json", "/..", "/../outside/canary.txt", "/new.json", "/a/b",
		"/../..", "/.", "//", "/newdir/deeper"}
	up := strings.Repeat("../", 1+r.Intn(4))

	switch r.Intn(17) {
	case 16:
		return l.Root + "-evil/x"
	case 0, 1, 2:
		return relp(1 + r.Intn(5))
	case 3:
		return "/" + relp(1+r.Intn(4))
	case 4, 5, 6:
		return inside() + tails[r.Intn(len(tails))]
	case 7:
		return l.Root + "/" + inside() + tails[r.Intn(len(tails))] // already-absolute inside spelling
	case 8:
		return filepath.Join(l.Base, "outside") + tails[r.Intn(len(tails))] // absolute outside
	case 9:
		return up + "outside" + tails[r.Intn(len(tails))]
	case 10:
		return l.Root + []string{"-evil/x", "/../outside/canary.txt", "/..", "", "/", "/./", "//a", "x"}[r.Intn(8)]
	case 11:
		return l.PhysRoot + "/" + relp(1+r.Intn(3))
	case 12:
		return inside() + "/" + relp(1+r.Intn(3))
	case 13:
		return []string{"", ".", "..", "/", "//", "./", "../", "/..", "...", "~", "~/x", "/etc/passwd", "/tmp", l.Base, l.Base + "/cwd/x"}[r.Intn(15)]
	case 14:
		return "./" + inside() + "/../" + relp(1+r.Intn(2))
	default:
		return relp(1+r.Intn(2)) + "/" + up + "outside/" + []string{"canary.txt", "canary.json", "sub", "pwn.json"}[r.Intn(4)]
	}
}

// C26Snapshot describes everything under Base that is physically OUTSIDE the sandbox root
// (names, types, modes, sizes, content hashes, link targets). Paths are relative to Base.
func (l *C26Layout) C26Snapshot() string {
	var rows []string

	_ = filepath.WalkDir(l.Base, func(p string, d fs.DirEntry, err error) error {
		if err != nil {
			rows = append(rows, "ERR "+p)

			return nil
		}

		if p == l.PhysRoot {
			if d.IsDir() {
				return filepath.SkipDir
			}

			return nil // (SkipDir on a non-directory would skip its siblings)
		}

		if p == l.Root {
			return nil // the configured root entry itself (a symlink in variant 1) belongs to the sandbox
		}

		rel, _ := filepath.Rel(l.Base, p)
		info, _ := d.Info()

		switch {
		case info == nil:
			rows = append(rows, "? "+rel)
		case info.Mode()&fs.ModeSymlink != 0:
			t, _ := os.Readlink(p)
			rows = append(rows, "L "+rel+" -> "+t)
		case info.IsDir():
			rows = append(rows, fmt.Sprintf("D %s %o u%d", rel, info.Mode().Perm(), c26UID(info)))
		default:
			b, _ := os.ReadFile(p)
			h := sha256.Sum256(b)
			rows = append(rows, fmt.Sprintf("F %s %o u%d %d %s", rel, info.Mode().Perm(), c26UID(info), len(b), hex.EncodeToString(h[:6])))
		}

		return nil
	})

	sort.Strings(rows)

	return strings.Join(rows, "\n")
}

func c26UID(info fs.FileInfo) uint32 {
	if st, ok := info.Sys().(*syscall.Stat_t); ok {
		return st.Uid
	}

	return 0
}

// C26Diff returns the first differing row of two snapshots.
func C26Diff(a, b string) string {
	as, bs := strings.Split(a, "\n"), strings.Split(b, "\n")
	seen := map[string]bool{}

	for _, x := range as {
		seen[x] = true
	}

	for _, x := range bs {
		if !seen[x] {
			return "+" + x
		}

		delete(seen, x)
	}

	for _, x := range as {
		if seen[x] {
			return "-" + x
		}
	}

	return ""
}

// C26PhysWithin reports whether the physical path p is the physical root or below it.
func (l *C26Layout) C26PhysWithin(p string) bool {
	return p == l.PhysRoot || strings.HasPrefix(p, l.PhysRoot+"/")
}
