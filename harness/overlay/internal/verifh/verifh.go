//go:build verif

// Package verifh holds the helpers shared by the /verif correspondence harnesses
// (zz_verif_*_test.go overlay files). It is copied into a scratch copy of the repository
// at check time and never lives in /repo.
package verifh

import (
	"encoding/hex"
	"encoding/json"
	"math/rand"
	"os"
	"path/filepath"
	"strconv"
	"sync"
)

// Seed is VERIF_SEED (default 1); every random choice of a harness derives from it.
func Seed() int64 {
	if v, err := strconv.ParseInt(os.Getenv("VERIF_SEED"), 10, 64); err == nil {
		return v
	}

	return 1
}

// Rand returns a PRNG derived from the seed and a per-stream salt.
func Rand(salt int64) *rand.Rand {
	return rand.New(rand.NewSource(Seed()*1000003 + salt))
}

// Thorough reports whether the thorough tier was requested.
func Thorough() bool { return os.Getenv("VERIF_TIER") == "thorough" }

// N picks the case count for the tier; VERIF_CASES overrides both.
func N(quick, thorough int) int {
	if v, err := strconv.Atoi(os.Getenv("VERIF_CASES")); err == nil && v > 0 {
		return v
	}

	if Thorough() {
		return thorough
	}

	return quick
}

// Hex encodes a string for the line protocol; "-" is the empty string.
func Hex(s string) string {
	if s == "" {
		return "-"
	}

	return hex.EncodeToString([]byte(s))
}

// UnHex is the inverse of Hex.
func UnHex(s string) string {
	if s == "-" {
		return ""
	}

	b, _ := hex.DecodeString(s)

	return string(b)
}

// Writer appends JSON lines to a file under VERIF_OUT.
type Writer struct {
	mu sync.Mutex
	f  *os.File
	e  *json.Encoder
}

// Out opens (truncating) a result file in the directory named by VERIF_OUT.
func Out(name string) *Writer {
	dir := os.Getenv("VERIF_OUT")
	if dir == "" {
		dir = os.TempDir()
	}

	f, err := os.Create(filepath.Join(dir, name))
	if err != nil {
		panic(err)
	}

	e := json.NewEncoder(f)
	e.SetEscapeHTML(false)

	return &Writer{f: f, e: e}
}

// Write appends one JSON value as a line.
func (w *Writer) Write(v any) {
	w.mu.Lock()
	defer w.mu.Unlock()

	if err := w.e.Encode(v); err != nil {
		panic(err)
	}
}

// Close flushes the file.
func (w *Writer) Close() { _ = w.f.Close() }

// Case is one correspondence line: the protocol input, the implementation's answer,
// and an optional description.
type Case struct {
	In   string `json:"in"`
	Impl string `json:"impl"`
	Desc string `json:"desc,omitempty"`
}

// Failure is a direct-oracle failure observed on the implementation.
type Failure struct {
	Class string `json:"class"`
	What  string `json:"what"`
	Input string `json:"input"`
	Got   string `json:"got,omitempty"`
	Want  string `json:"want,omitempty"`
}

// Stats is a bag of named counters written at the end of a harness run.
type Stats struct {
	mu sync.Mutex
	M  map[string]int `json:"counters"`
	S  []any          `json:"samples"`
}

func NewStats() *Stats { return &Stats{M: map[string]int{}} }

func (s *Stats) Inc(k string) { s.Add(k, 1) }

func (s *Stats) Add(k string, n int) {
	s.mu.Lock()
	s.M[k] += n
	s.mu.Unlock()
}

// Sample keeps up to 8 sample cases for the evidence file.
func (s *Stats) Sample(v any) {
	s.mu.Lock()
	if len(s.S) < 8 {
		s.S = append(s.S, v)
	}
	s.mu.Unlock()
}

// Get and Set read and write one counter under the lock (goroutines of a harness may be counting meanwhile).
func (s *Stats) Get(k string) int {
	s.mu.Lock()
	defer s.mu.Unlock()

	return s.M[k]
}

func (s *Stats) Set(k string, n int) {
	s.mu.Lock()
	s.M[k] = n
	s.mu.Unlock()
}

func (s *Stats) Save(name string) {
	w := Out(name)

	// the encoder iterates the map: keep counters that other goroutines are still adding to out of its way
	s.mu.Lock()
	w.Write(s)
	s.mu.Unlock()
	w.Close()
}

// ReplayInput returns the content of the replay file named by VERIF_REPLAY ("" if none).
func ReplayInput() []byte {
	p := os.Getenv("VERIF_REPLAY")
	if p == "" {
		return nil
	}

	b, _ := os.ReadFile(p)

	return b
}
