//go:build verif

package caches

// C28 correspondence harness and direct oracle.
//
//   - stream "seq": histories of add/find/del/purge/purgel/purgeall/setexp/sweep/adv over up to 3 cache
//     classes, 6 look-alike keys and a small MaxCacheSize, run on the REAL package inside a
//     testing/synctest bubble (the `expire` sweeper goroutines run on the bubble's fake clock).
//     After every operation the result, the evictions reported to the listener and the whole
//     package state (cacheList, expirationThreadRunning, OnPurge count) are written as one
//     correspondence line; the Lean model (egodriver C28) must produce the same line.
//   - direct oracle (no model): a ledger "key -> value, last touch, lifetime" kept from the
//     operations issued and the evictions observed; it checks every Find/Delete result, Size,
//     the capacity bound, that each delete/expiry is reported exactly once, that no entry is
//     evicted before its deadline (deadline = last touch + the lifetime most recently set with
//     SetExpiration, purges notwithstanding) and that no expired entry survives a sweep / a
//     full scan interval.
//   - stream "conc": a sequential prefix, then several goroutines issue operations at once;
//     results, invocation/response stamps and the final state go to the model, which searches
//     for a linearisation (validation).  With VERIF_C28_MODE=race only this stream, the
//     hammer stream and a PurgeAll stress run (meant for `go test -race`); VERIF_C28_MODE=hammer
//     runs the hammer stream alone (to measure its hit rate).
//   - stream "hammer": bursts of real parallelism on ONE or two keys of one class: writer
//     goroutines loop over a short add/del/find/sweep program while many reader goroutines
//     call Find on the same keys (tight, runtime.Gosched or busy-spin spacing).  Model-free
//     oracle: with a single writer every one of its results, Size and the eviction reports are
//     determined (readers only refresh deadlines), so the sequential ledger checks each of its
//     operations; with several writers the operations carry invocation/response stamps.  After
//     every burst, once all goroutines have joined (quiescent point): a key whose last
//     completed write was a Delete/sweep must not be found, a key whose Add(v) happened after
//     every other write must return v (in general: the final state is the effect of a write
//     that no other write on that key follows in real time), Size equals the number of keys
//     found, and no key is reported to the listener more often than it was stored.
//   - lock discipline: every function of the package that touches a package-level map which
//     is written at run time does so with cacheLock held (checked on the source with go/ast).

import (
	"encoding/json"
	"fmt"
	"go/ast"
	"go/parser"
	"go/token"
	"math/rand"
	"os"
	"runtime"
	"sort"
	"strconv"
	"strings"
	"sync"
	"sync/atomic"
	"testing"
	"testing/synctest"
	"time"

	"github.com/tucats/ego/internal/cli/settings"
	"github.com/tucats/ego/internal/defs"
	"github.com/tucats/ego/internal/verifh"
)

type c28K struct{ A int }

// logical keys 0..5: distinct Go map keys that all "look like 1"
var c28Keys = []any{"1", 1, int64(1), uint8(1), c28K{1}, [1]int{1}}

const c28NClasses = 3

var c28Durations = []struct {
	text string
	secs int
	ok   bool
}{
	{"1h", 3600, true}, {"90s", 90, true}, {"1m30s", 90, true}, {"1.5m", 90, true}, {"60s", 60, true},
	{"61s", 61, true}, {"59s", 59, true}, {"1s", 1, true}, {"0s", 0, true}, {"0", 0, true},
	{"-5s", -5, true}, {"-1m", -60, true}, {"2m", 120, true}, {"10m", 600, true}, {"45s", 45, true},
	{"30s", 30, true}, {"3s", 3, true}, {"121s", 121, true}, {"+5s", 5, true}, {".5m", 30, true},
	{"", 0, false}, {"abc", 0, false}, {"1", 0, false}, {"5 s", 0, false}, {"1d", 0, false}, {"s", 0, false},
}

var c28Advances = []int{0, 1, 2, 5, 29, 30, 31, 44, 45, 46, 59, 60, 61, 89, 90, 91, 119, 120, 121, 180, 600, 3599, 3600, 3601}

type c28Op struct {
	kind    string // add find del purge purgel purgeall setexp sweep adv
	c, k, v int
	d       int    // adv seconds / setexp seconds
	text    string // setexp duration text
	ok      bool   // setexp: text is a valid duration
}

func (o c28Op) line() string {
	switch o.kind {
	case "add":
		return fmt.Sprintf("add %d %d %d", o.c, o.k, o.v)
	case "find", "del":
		return fmt.Sprintf("%s %d %d", o.kind, o.c, o.k)
	case "purge", "purgel", "sweep":
		return fmt.Sprintf("%s %d", o.kind, o.c)
	case "setexp":
		if !o.ok {
			return fmt.Sprintf("setexp %d bad", o.c)
		}

		return fmt.Sprintf("setexp %d %d", o.c, o.d)
	case "adv":
		return fmt.Sprintf("adv %d", o.d)
	}

	return o.kind
}

// text form used for failure inputs / replay: like line() but setexp carries the Go duration text
func (o c28Op) input() string {
	if o.kind == "setexp" {
		return fmt.Sprintf("setexp %d %q", o.c, o.text)
	}

	return o.line()
}

type c28History struct {
	max     int
	viaConf bool // MaxCacheSize arrives through the ego.server.cache.maxsize setting
	ops     []c28Op
}

func (h c28History) input() string {
	parts := make([]string, len(h.ops))
	for i, o := range h.ops {
		parts[i] = o.input()
	}

	return fmt.Sprintf("max=%d|%s", h.max, strings.Join(parts, ";"))
}

func c28Parse(s string) (c28History, error) {
	h := c28History{}

	head, body, found := strings.Cut(s, "|")
	if !found || !strings.HasPrefix(head, "max=") {
		return h, fmt.Errorf("bad history %q", s)
	}

	h.max, _ = strconv.Atoi(strings.TrimPrefix(head, "max="))

	for _, part := range strings.Split(body, ";") {
		f := strings.Fields(strings.TrimSpace(part))
		if len(f) == 0 {
			continue
		}

		n := func(i int) int {
			if i < len(f) {
				v, _ := strconv.Atoi(f[i])

				return v
			}

			return 0
		}

		o := c28Op{kind: f[0]}

		switch f[0] {
		case "add":
			o.c, o.k, o.v = n(1), n(2), n(3)
		case "find", "del":
			o.c, o.k = n(1), n(2)
		case "purge", "purgel", "sweep":
			o.c = n(1)
		case "adv":
			o.d = n(1)
		case "purgeall":
		case "setexp":
			o.c = n(1)
			text := strings.TrimSpace(strings.TrimPrefix(strings.TrimSpace(part), "setexp "+f[1]))

			if u, err := strconv.Unquote(text); err == nil {
				text = u
			}

			o.text = text
			found := false

			for _, d := range c28Durations {
				if d.text == text {
					o.d, o.ok, found = d.secs, d.ok, true
				}
			}

			if !found {
				return h, fmt.Errorf("duration %q is not in the table", text)
			}
		default:
			return h, fmt.Errorf("bad op %q", part)
		}

		h.ops = append(h.ops, o)
	}

	return h, nil
}

// corpus of nasty histories; they run first
var c28Corpus = []string{
	// the design-round witness: a configured lifetime must survive a purge
	`max=2|setexp 0 "1h";add 0 1 7;purge 0;add 0 1 8;adv 600;find 0 1`,
	`max=2|setexp 0 "10m";add 0 1 7;purgel 0;add 0 1 8;adv 121;find 0 1;sweep 0;find 0 1`,
	`max=3|setexp 1 "2m";purgeall;add 1 0 1;adv 119;find 1 0;adv 121;find 1 0`,
	`max=2|add 0 0 1;setexp 0 "1h";add 0 1 2;purge 0;setexp 0 "abc";add 0 0 3;adv 180;find 0 0;find 0 1`,
	// capacity: replace at capacity is allowed, a new key is not; delete frees a slot
	`max=2|add 0 0 1;add 0 1 2;add 0 2 3;find 0 2;add 0 1 9;find 0 1;del 0 0;add 0 2 3;find 0 2;find 0 0`,
	`max=1|add 0 0 1;add 0 0 2;add 0 1 3;find 0 0;find 0 1;del 0 0;del 0 0;add 0 1 3;find 0 1`,
	`max=0|add 0 0 1;find 0 0;setexp 0 "1s";add 0 0 1;find 0 0;del 0 0`,
	// expired but not yet swept is still found, and the hit revives it
	`max=3|add 0 0 5;adv 59;find 0 0;adv 59;find 0 0;adv 59;sweep 0;find 0 0;adv 121;find 0 0`,
	// sweep exactly at the deadline keeps the entry (After is strict)
	`max=3|add 0 0 5;adv 60;find 0 1;sweep 0;adv 1;sweep 0;find 0 0`,
	`max=3|add 0 0 5;add 0 1 6;adv 30;find 0 1;adv 30;adv 30;adv 30;find 0 0;find 0 1`,
	// sweeping a cache that does not exist clears the running flag: two sweepers afterwards
	`max=3|add 0 0 1;purge 0;sweep 0;add 0 0 2;adv 61;add 0 1 3;adv 60;find 0 0;find 0 1;adv 200`,
	`max=3|sweep 0;sweep 1;add 1 0 1;sweep 1;purgel 1;adv 60;add 1 0 2;adv 59;sweep 1;adv 2`,
	// negative / zero lifetimes
	`max=3|setexp 0 "-5s";add 0 0 1;find 0 0;sweep 0;find 0 0;setexp 0 "0s";add 0 0 2;sweep 0;adv 1;sweep 0`,
	`max=3|add 0 0 1;setexp 0 "-1m";find 0 0;sweep 0;find 0 0`,
	// delete, purge, re-add; nil value (0)
	`max=3|add 0 0 0;find 0 0;del 0 0;find 0 0;add 0 0 4;purge 0;find 0 0;del 0 0;add 0 0 0;purgel 0;find 0 0`,
	`max=3|add 0 0 1;add 1 0 2;add 2 0 3;purgeall;find 0 0;find 1 0;find 2 0;adv 61;add 1 0 2;purgeall;purgeall`,
	// lifetime change affects later touches only
	`max=3|add 0 0 1;setexp 0 "1h";adv 61;find 0 0;add 0 1 2;adv 61;find 0 0;find 0 1;adv 3601;find 0 1`,
	`max=3|setexp 0 "3s";add 0 0 1;setexp 0 "1h";adv 61;find 0 0;add 0 0 1;adv 600;find 0 0`,
	`max=3|setexp 2 "abc";setexp 2 "";add 2 5 1;adv 121;find 2 5`,
}

type c28Ev struct {
	c, k, v int
	t       int
}

type c28Run struct {
	t       *testing.T
	base    int
	start   time.Time
	mu      sync.Mutex
	events  []c28Ev
	hooks   atomic.Int64
	keyOf   map[any]int
	badTime bool
}

func (r *c28Run) secs(d time.Duration) int {
	if d%time.Second != 0 {
		r.badTime = true
	}

	return int(d / time.Second)
}

func (r *c28Run) onEvict(id int, key any, value any) {
	v := 0
	if value != nil {
		v, _ = value.(int)
	}

	k, known := r.keyOf[key]
	if !known {
		k = 99
	}

	r.mu.Lock()
	r.events = append(r.events, c28Ev{c: id - r.base, k: k, v: v, t: r.secs(time.Since(r.start))})
	r.mu.Unlock()
}

func (r *c28Run) taken() []c28Ev {
	r.mu.Lock()
	defer r.mu.Unlock()

	e := r.events
	r.events = nil

	return e
}

func c28ShowEv(evs []c28Ev) string {
	s := make([]string, len(evs))
	sorted := append([]c28Ev{}, evs...)
	sort.Slice(sorted, func(i, j int) bool {
		a, b := sorted[i], sorted[j]
		if a.c != b.c {
			return a.c < b.c
		}

		if a.k != b.k {
			return a.k < b.k
		}

		return a.v < b.v
	})

	for i, e := range sorted {
		s[i] = fmt.Sprintf("%d.%d.%d", e.c, e.k, e.v)
	}

	return strings.Join(s, ",")
}

func c28Val(v int) any {
	if v == 0 {
		return nil
	}

	return v
}

// dump reads the package state directly (in-package test)
func (r *c28Run) dump() string {
	cacheLock.RLock()
	defer cacheLock.RUnlock()

	parts := []string{fmt.Sprintf("t=%d", r.secs(time.Since(r.start)))}

	running := []string{}

	for i := 0; i < c28NClasses; i++ {
		if expirationThreadRunning[r.base+i] {
			running = append(running, strconv.Itoa(i))
		}
	}

	parts = append(parts, "run="+strings.Join(running, "."), fmt.Sprintf("hk=%d", r.hooks.Load()))

	for i := 0; i < c28NClasses; i++ {
		ca, found := cacheList[r.base+i]
		if !found {
			continue
		}

		items := []string{}
		ks := []int{}
		byKey := map[int]Item{}

		for key, item := range ca.Items {
			k, known := r.keyOf[key]
			if !known {
				k = 99
			}

			ks = append(ks, k)
			byKey[k] = item
		}

		sort.Ints(ks)

		for _, k := range ks {
			v := 0
			if byKey[k].Data != nil {
				v, _ = byKey[k].Data.(int)
			}

			items = append(items, fmt.Sprintf("%d=%d@%d", k, v, r.secs(byKey[k].Expires.Sub(r.start))))
		}

		parts = append(parts, fmt.Sprintf("C%d:%d:%d:%s", i, ca.MaxSize, r.secs(ca.Expiration), strings.Join(items, ",")))
	}

	return strings.Join(parts, ";")
}

// exec runs one operation on the real package and returns what the caller observes
func (r *c28Run) exec(o c28Op) string {
	id := r.base + o.c

	switch o.kind {
	case "add":
		Add(id, c28Keys[o.k], c28Val(o.v))
	case "find":
		v, ok := Find(id, c28Keys[o.k])
		if !ok {
			return "miss"
		}

		if v == nil {
			return "hit0"
		}

		return fmt.Sprintf("hit%d", v)
	case "del":
		if Delete(id, c28Keys[o.k]) {
			return "1"
		}

		return "0"
	case "purge":
		Purge(id)
	case "purgel":
		PurgeLocal(id)
	case "purgeall":
		PurgeAll()
	case "setexp":
		if SetExpiration(id, o.text) == nil {
			return "1"
		}

		return "0"
	case "sweep":
		if sweepExpired(id) {
			return "1"
		}

		return "0"
	case "adv":
		time.Sleep(time.Duration(o.d) * time.Second)
	}

	return "-"
}

// ---------------------------------------------------------------- the ledger oracle

type c28Entry struct {
	val, touch, life int
	afterPurge       bool // touched while the class had a configured lifetime and a purge since it was set
}

type c28Oracle struct {
	max         int
	life        map[int]int
	purgedSince map[int]bool // a purge of the class happened after its last successful SetExpiration
	m           map[[2]int]*c28Entry
	fails       []verifh.Failure
	input       string
	note        string // where in a run the oracle is (prefixed to What)
}

func newC28Oracle(h c28History) *c28Oracle {
	return &c28Oracle{max: h.max, life: map[int]int{}, purgedSince: map[int]bool{}, m: map[[2]int]*c28Entry{}, input: h.input()}
}

func (o *c28Oracle) fail(class, what, got, want string) {
	// only the first failure of a history: later ones may be consequences of it
	if len(o.fails) < 1 {
		o.fails = append(o.fails, verifh.Failure{Class: class, What: o.note + what, Input: o.input, Got: got, Want: want})
	}
}

func (o *c28Oracle) lifeOf(c int) int {
	if d, found := o.life[c]; found {
		return d
	}

	return 60 // the documented default: "expireTime … 60s"
}

func (o *c28Oracle) count(c int) int {
	n := 0

	for key := range o.m {
		if key[0] == c {
			n++
		}
	}

	return n
}

func (o *c28Oracle) afterPurge(c int) bool {
	_, configured := o.life[c]

	return configured && o.purgedSince[c]
}

// deadline failures of an entry touched after "SetExpiration … Purge" get their own class
func (e *c28Entry) class(otherwise string) string {
	if e.afterPurge {
		return "lifetime-lost-after-purge"
	}

	return otherwise
}

func (o *c28Oracle) entry(c, v, t int) *c28Entry {
	return &c28Entry{val: v, touch: t, life: o.lifeOf(c), afterPurge: o.afterPurge(c)}
}

// step digests operation number i: its result, the time it ran at, the evictions reported during it
func (o *c28Oracle) step(i int, op c28Op, res string, t int, evs []c28Ev, sizes []int) {
	at := fmt.Sprintf("op %d (%s) at t=%d", i, op.input(), t)
	key := [2]int{op.c, op.k}

	// evictions: which ones are legitimate during this operation
	expectNoEv := true

	switch op.kind {
	case "del":
		expectNoEv = false
		e, present := o.m[key]

		if (res == "1") != present {
			o.fail("delete-result", at+": Delete reported "+res, res, fmt.Sprint(present))
		}

		if present {
			if len(evs) != 1 || evs[0].c != op.c || evs[0].k != op.k || evs[0].v != e.val {
				o.fail("delete-not-reported-once", at+": a successful Delete must reach the eviction listener exactly once", c28ShowEv(evs), fmt.Sprintf("%d.%d.%d", op.c, op.k, e.val))
			}
		} else if len(evs) != 0 {
			o.fail("phantom-eviction", at+": eviction reported for a key that was not stored", c28ShowEv(evs), "")
		}

		delete(o.m, key)
	case "sweep", "adv":
		expectNoEv = false

		for _, ev := range evs {
			k2 := [2]int{ev.c, ev.k}
			e, present := o.m[k2]

			switch {
			case op.kind == "sweep" && ev.c != op.c:
				o.fail("phantom-eviction", at+": sweep of one class evicted from another", c28ShowEv(evs), "")
			case !present || e.val != ev.v:
				o.fail("phantom-eviction", at+fmt.Sprintf(": eviction %d.%d.%d reported for an entry that is not stored (reported twice?)", ev.c, ev.k, ev.v), c28ShowEv(evs), "")
			case !(ev.t > e.touch+e.life):
				o.fail(e.class("premature-expiry"), at+fmt.Sprintf(": entry %d.%d evicted at t=%d, before its deadline %d+%d", ev.c, ev.k, ev.t, e.touch, e.life),
					fmt.Sprintf("evicted at %d", ev.t), fmt.Sprintf("not before %d", e.touch+e.life+1))
			}

			delete(o.m, k2)
		}

		for k2, e := range o.m {
			if op.kind == "sweep" && k2[0] == op.c && t > e.touch+e.life {
				o.fail(e.class("expired-entry-not-evicted"), at+fmt.Sprintf(": entry %d.%d (deadline %d) survived a sweep", k2[0], k2[1], e.touch+e.life), "", "")
				delete(o.m, k2)
			}

			// a sweeper wakes in every window of one scan interval that starts after the touch
			if op.kind == "adv" && t >= max(e.touch+e.life, e.touch)+60 {
				o.fail(e.class("expired-entry-outlived-scan"), at+fmt.Sprintf(": entry %d.%d (deadline %d) outlived a full scan interval", k2[0], k2[1], e.touch+e.life), "", "")
				delete(o.m, k2)
			}
		}
	}

	if expectNoEv && len(evs) != 0 {
		o.fail("phantom-eviction", at+": eviction reported by an operation that removes nothing by expiry or deletion", c28ShowEv(evs), "")

		for _, ev := range evs {
			delete(o.m, [2]int{ev.c, ev.k})
		}
	}

	switch op.kind {
	case "add":
		_, present := o.m[key]
		if present || o.count(op.c) < o.max {
			o.m[key] = o.entry(op.c, op.v, t)
		}
	case "find":
		e, present := o.m[key]

		switch {
		case res == "miss" && present:
			o.fail("entry-vanished", at+": stored entry is gone although it was not deleted, purged or reported as expired", res, fmt.Sprintf("hit%d", e.val))
			delete(o.m, key)
		case res != "miss" && !present:
			o.fail("value-after-removal", at+": Find returned a value for a key that was deleted, purged, evicted or never stored", res, "miss")

			v, _ := strconv.Atoi(strings.TrimPrefix(res, "hit"))
			o.m[key] = o.entry(op.c, v, t)
		case present && res != fmt.Sprintf("hit%d", e.val):
			o.fail("stale-value", at+": Find did not return the value most recently stored", res, fmt.Sprintf("hit%d", e.val))
		}

		if e, present := o.m[key]; present {
			e.touch, e.life, e.afterPurge = t, o.lifeOf(op.c), o.afterPurge(op.c)
		}
	case "purge", "purgel":
		for k2 := range o.m {
			if k2[0] == op.c {
				delete(o.m, k2)
			}
		}

		o.purgedSince[op.c] = true
	case "purgeall":
		o.m = map[[2]int]*c28Entry{}

		for c := 0; c < c28NClasses; c++ {
			o.purgedSince[c] = true
		}
	case "setexp":
		if (res == "1") != op.ok {
			o.fail("setexp-result", at+": SetExpiration accepted/rejected the duration wrongly", res, fmt.Sprint(op.ok))
		}

		if op.ok {
			o.life[op.c] = op.d
			o.purgedSince[op.c] = false
		}
	}

	for c, n := range sizes {
		if n > o.max {
			o.fail("over-capacity", at+fmt.Sprintf(": class %d holds %d entries, limit %d", c, n, o.max), strconv.Itoa(n), strconv.Itoa(o.max))
		}

		if n != o.count(c) {
			o.fail("size-mismatch", at+fmt.Sprintf(": Size(class %d)", c), strconv.Itoa(n), strconv.Itoa(o.count(c)))
		}
	}
}

// ---------------------------------------------------------------- running histories

var c28HistoryNo atomic.Int64

func c28Setup(t *testing.T, h c28History) *c28Run {
	r := &c28Run{t: t, base: 100000 + 8*int(c28HistoryNo.Add(1)), start: time.Now(), keyOf: map[any]int{}}
	for i, k := range c28Keys {
		r.keyOf[k] = i
	}

	if h.viaConf {
		MaxCacheSize = 1000

		settings.Set(defs.ServerMaxCacheSizeSetting, strconv.Itoa(h.max))
	} else {
		settings.Set(defs.ServerMaxCacheSizeSetting, "")

		MaxCacheSize = h.max
	}

	SetOnEvict(r.onEvict)

	OnPurge = func(int) { r.hooks.Add(1) }

	return r
}

// teardown leaves no cache and no sweeper goroutine behind (a bubble must end with none)
func (r *c28Run) teardown() {
	for i := 0; i < c28NClasses; i++ {
		PurgeLocal(r.base + i)

		// whatever a (broken) purge left behind goes by hand, so that the sweepers can return
		cacheLock.Lock()
		delete(cacheList, r.base+i)
		cacheLock.Unlock()
	}

	time.Sleep(61 * time.Second)
	synctest.Wait()
	SetOnEvict(nil)

	OnPurge = nil
}

type c28Result struct {
	lines   []verifh.Case
	fails   []verifh.Failure
	hits    int
	evicts  int
	rejects int
	purges  int
}

func c28RunSequential(t *testing.T, h c28History) c28Result {
	var out c28Result

	synctest.Test(t, func(t *testing.T) {
		r := c28Setup(t, h)
		oracle := newC28Oracle(h)

		cacheLock.RLock()
		leftover := len(cacheList)
		cacheLock.RUnlock()

		if leftover != 0 {
			oracle.fail("harness-leftover-cache", "cacheList is not empty at the start of a history", strconv.Itoa(leftover), "0")
		}

		out.lines = append(out.lines, verifh.Case{In: fmt.Sprintf("reset %d", h.max), Impl: "ok", Desc: fmt.Sprintf("history %d: %s", r.base, h.input())})

		for i, op := range h.ops {
			before := 0
			if op.kind == "add" {
				before = Size(r.base + op.c)
			}

			res := r.exec(op)
			synctest.Wait()

			evs := r.taken()
			now := r.secs(time.Since(r.start))
			sizes := make([]int, c28NClasses)

			for c := range sizes {
				sizes[c] = Size(r.base + c)
			}

			out.lines = append(out.lines, verifh.Case{In: op.line(), Impl: res + ";ev=" + c28ShowEv(evs) + ";" + r.dump(),
				Desc: fmt.Sprintf("op %d of history %d (see its reset line)", i, r.base)})

			oracle.step(i, op, res, now, evs, sizes)

			out.evicts += len(evs)

			switch {
			case op.kind == "find" && res != "miss":
				out.hits++
			case op.kind == "add" && before >= h.max && Size(r.base+op.c) == before:
				out.rejects++
			case strings.HasPrefix(op.kind, "purge"):
				out.purges++
			}
		}

		// closing probe: every key of every class against the ledger
		for c := 0; c < c28NClasses; c++ {
			for k := range c28Keys {
				op := c28Op{kind: "find", c: c, k: k}
				res := r.exec(op)
				oracle.step(len(h.ops), op, res, r.secs(time.Since(r.start)), r.taken(), nil)
			}
		}

		if r.badTime {
			oracle.fail("harness-fractional-time", "a time was not a whole number of seconds", "", "")
		}

		out.fails = oracle.fails

		r.teardown()
	})

	return out
}

func c28GenOp(r *rand.Rand, nKeys int) c28Op {
	c := r.Intn(c28NClasses)
	if r.Intn(3) > 0 {
		c = 0 // most of the traffic on one class
	}

	k := r.Intn(nKeys)
	x := r.Intn(100)

	switch {
	case x < 30:
		return c28Op{kind: "add", c: c, k: k, v: r.Intn(4)}
	case x < 50:
		return c28Op{kind: "find", c: c, k: k}
	case x < 59:
		return c28Op{kind: "del", c: c, k: k}
	case x < 65:
		return c28Op{kind: "purge", c: c}
	case x < 69:
		return c28Op{kind: "purgel", c: c}
	case x < 71:
		return c28Op{kind: "purgeall"}
	case x < 80:
		d := c28Durations[r.Intn(len(c28Durations))]

		return c28Op{kind: "setexp", c: c, d: d.secs, text: d.text, ok: d.ok}
	case x < 88:
		return c28Op{kind: "sweep", c: c}
	default:
		return c28Op{kind: "adv", d: c28Advances[r.Intn(len(c28Advances))]}
	}
}

func c28GenHistory(r *rand.Rand) c28History {
	h := c28History{max: []int{1, 2, 2, 3, 3, 4, 0}[r.Intn(7)], viaConf: r.Intn(4) == 0}
	if h.max == 0 {
		h.viaConf = false // a setting of 0 means "keep the default"
	}

	nKeys := 2 + r.Intn(len(c28Keys)-1)
	n := 4 + r.Intn(36)

	for i := 0; i < n; i++ {
		h.ops = append(h.ops, c28GenOp(r, nKeys))
	}

	return h
}

// ---------------------------------------------------------------- concurrent histories

type c28COp struct {
	op        c28Op
	res       string
	inv, resp int64
}

func c28Dotted(o c28Op) string { return strings.ReplaceAll(o.line(), " ", ".") }

func c28RunConcurrent(t *testing.T, r0 *rand.Rand) (verifh.Case, []verifh.Failure, string) {
	h := c28History{max: 1 + r0.Intn(3)}
	nKeys := 2 + r0.Intn(3)

	for i, n := 0, r0.Intn(9); i < n; i++ {
		op := c28GenOp(r0, nKeys)
		if op.kind == "purgeall" {
			continue
		}

		h.ops = append(h.ops, op)
	}

	nThreads := 2 + r0.Intn(3)
	perThread := 3
	if nThreads == 2 {
		perThread = 2 + r0.Intn(4)
	}

	threads := make([][]c28COp, nThreads)

	for g := range threads {
		for i := 0; i < perThread; i++ {
			op := c28GenOp(r0, nKeys)
			for op.kind == "purgeall" || op.kind == "adv" {
				op = c28GenOp(r0, nKeys)
			}

			if r0.Intn(2) == 0 {
				op.c = 0
			}

			threads[g] = append(threads[g], c28COp{op: op})
		}
	}

	var (
		line  verifh.Case
		fails []verifh.Failure
	)

	input := h.input()
	for g := range threads {
		parts := []string{}
		for _, co := range threads[g] {
			parts = append(parts, co.op.input())
		}

		input += fmt.Sprintf(" || T%d: %s", g, strings.Join(parts, ";"))
	}

	synctest.Test(t, func(t *testing.T) {
		r := c28Setup(t, h)

		for _, op := range h.ops {
			r.exec(op)
			synctest.Wait()
		}

		r.taken()

		present := map[[2]int]bool{}

		cacheLock.RLock()
		for c := 0; c < c28NClasses; c++ {
			if ca, found := cacheList[r.base+c]; found {
				for key := range ca.Items {
					present[[2]int{c, r.keyOf[key]}] = true
				}
			}
		}
		cacheLock.RUnlock()

		var (
			stamp atomic.Int64
			wg    sync.WaitGroup
		)

		gate := make(chan struct{})

		for g := range threads {
			wg.Add(1)

			go func(ops []c28COp) {
				defer wg.Done()

				<-gate

				for i := range ops {
					ops[i].inv = stamp.Add(1)
					ops[i].res = r.exec(ops[i].op)
					ops[i].resp = stamp.Add(1)
				}
			}(threads[g])
		}

		close(gate)
		wg.Wait()
		synctest.Wait()

		evs := r.taken()
		final := "ev=" + c28ShowEv(evs) + ";" + r.dump()

		var b strings.Builder

		fmt.Fprintf(&b, "lin %d P", h.max)

		for _, op := range h.ops {
			b.WriteString(" " + c28Dotted(op))
		}

		adds := map[[2]int]int{}

		for g := range threads {
			b.WriteString(" T")

			for _, co := range threads[g] {
				fmt.Fprintf(&b, " %s:%s:%d:%d", c28Dotted(co.op), co.res, co.inv, co.resp)

				if co.op.kind == "add" {
					adds[[2]int{co.op.c, co.op.k}]++
				}
			}
		}

		b.WriteString(" F " + final)

		line = verifh.Case{In: b.String(), Impl: "lin-ok", Desc: input}

		// model-free checks on the concurrent run
		reports := map[[2]int]int{}
		for _, ev := range evs {
			reports[[2]int{ev.c, ev.k}]++
		}

		for key, n := range reports {
			budget := adds[key]
			if present[key] {
				budget++
			}

			if n > budget {
				fails = append(fails, verifh.Failure{Class: "concurrent-duplicate-eviction", What: fmt.Sprintf("entry %d.%d reported %d times but stored at most %d times", key[0], key[1], n, budget), Input: input, Got: c28ShowEv(evs)})
			}
		}

		for c := 0; c < c28NClasses; c++ {
			size := Size(r.base + c)
			if size > h.max {
				fails = append(fails, verifh.Failure{Class: "over-capacity", What: fmt.Sprintf("class %d holds %d entries after a concurrent run, limit %d", c, size, h.max), Input: input})
			}

			hits := 0

			for k := range c28Keys {
				if _, ok := Find(r.base+c, c28Keys[k]); ok {
					hits++
				}
			}

			if hits != size {
				fails = append(fails, verifh.Failure{Class: "size-mismatch", What: fmt.Sprintf("class %d: Size=%d but %d keys are found", c, size, hits), Input: input})
			}
		}

		if r.badTime {
			fails = append(fails, verifh.Failure{Class: "harness-fractional-time", What: "a time was not a whole number of seconds", Input: input})
		}

		r.teardown()
	})

	return line, fails, input
}

// PurgeAll / Add / SetExpiration at once on fresh classes: food for the race detector
func c28Stress(t *testing.T, rounds int) {
	synctest.Test(t, func(t *testing.T) {
		h := c28History{max: 3}
		r := c28Setup(t, h)

		var wg sync.WaitGroup

		ids := []int{}
		for i := 0; i < rounds; i++ {
			ids = append(ids, 50000000+int(c28HistoryNo.Add(1)))
		}

		// several readers hitting the same keys: a hit rewrites the entry, so Find needs the write lock
		hot := 50000000 + int(c28HistoryNo.Add(1))
		for k := range c28Keys {
			Add(hot, c28Keys[k], k)
		}

		for g := 0; g < 4; g++ {
			wg.Add(1)

			go func() {
				defer wg.Done()

				for i := 0; i < rounds; i++ {
					Find(hot, c28Keys[i%len(c28Keys)])
					Size(hot)
				}
			}()
		}

		wg.Wait()

		work := []func(){
			func() {
				for range ids {
					PurgeAll()
				}
			},
			func() {
				for _, id := range ids {
					Add(id, "k", 1)
					Find(id, "k")
				}
			},
			func() {
				for _, id := range ids {
					_ = SetExpiration(id, "1h")

					Delete(id, "k")
					Size(id)
				}
			},
		}

		for _, w := range work {
			wg.Add(1)

			go func() {
				defer wg.Done()

				w()
			}()
		}

		wg.Wait()
		PurgeAll()
		r.teardown()
	})
}

// ---------------------------------------------------------------- hammer bursts (parallel, one hot key)

type c28Burst struct {
	max     int
	prefix  []c28Op   // sequential, before the goroutines start (lifetime set-up)
	writers [][]c28Op // one looping program per writer goroutine
	rounds  int       // how often each writer runs its program
	readers int       // goroutines calling Find until the writers are done
	rkeys   []int     // keys (class 0) the readers cycle through
	spread  string    // spacing between reader calls: tight | gosched | spin (busy loop of random length < 400) | spin4k | spin40k
}

func c28OpList(ops []c28Op) string {
	parts := make([]string, len(ops))
	for i, o := range ops {
		parts[i] = o.input()
	}

	return strings.Join(parts, ";")
}

func (b c28Burst) input() string {
	s := c28History{max: b.max, ops: b.prefix}.input()

	for _, w := range b.writers {
		s += fmt.Sprintf(" || W x%d: %s", b.rounds, c28OpList(w))
	}

	finds := make([]c28Op, len(b.rkeys))
	for i, k := range b.rkeys {
		finds[i] = c28Op{kind: "find", k: k}
	}

	return s + fmt.Sprintf(" || R x%d: %s (%s)", b.readers, c28OpList(finds), b.spread)
}

func c28IsBurst(s string) bool { return strings.Contains(s, " || W x") }

func c28ParseBurst(s string) (c28Burst, error) {
	b := c28Burst{}
	parts := strings.Split(s, " || ")

	h, err := c28Parse(parts[0])
	if err != nil {
		return b, err
	}

	b.max, b.prefix = h.max, h.ops

	for _, part := range parts[1:] {
		head, body, found := strings.Cut(part, ": ")
		if !found || len(head) < 4 {
			return b, fmt.Errorf("bad burst section %q", part)
		}

		n, err := strconv.Atoi(head[3:])
		if err != nil {
			return b, fmt.Errorf("bad burst section %q", part)
		}

		switch head[:3] {
		case "W x":
			p, err := c28Parse("max=0|" + body)
			if err != nil {
				return b, err
			}

			b.rounds = n
			b.writers = append(b.writers, p.ops)
		case "R x":
			b.readers = n
			b.spread = "tight"

			if i := strings.LastIndex(body, " ("); i >= 0 && strings.HasSuffix(body, ")") {
				b.spread = body[i+2 : len(body)-1]
				body = body[:i]
			}

			p, err := c28Parse("max=0|" + body)
			if err != nil {
				return b, err
			}

			for _, o := range p.ops {
				b.rkeys = append(b.rkeys, o.k)
			}
		default:
			return b, fmt.Errorf("bad burst section %q", part)
		}
	}

	if len(b.writers) == 0 || b.rounds < 1 || len(b.rkeys) == 0 {
		return b, fmt.Errorf("bad burst %q", s)
	}

	return b, nil
}

func c28GenBurst(r0 *rand.Rand) c28Burst {
	b := c28Burst{rounds: verifh.N(40, 300) + r0.Intn(verifh.N(40, 300)), readers: 2 + r0.Intn(5)}
	b.spread = []string{"tight", "gosched", "spin", "spin4k", "spin40k"}[r0.Intn(5)]

	// one hot key mostly; sometimes a second one, so that capacity takes part
	hot := []int{r0.Intn(len(c28Keys))}
	if r0.Intn(4) == 0 {
		hot = append(hot, (hot[0]+1+r0.Intn(len(c28Keys)-1))%len(c28Keys))
	}

	b.rkeys = hot

	// a positive lifetime (nothing expires: the bubble's clock stands still during a burst) or a
	// negative one (every entry is expired at once and a sweep works like a delete of the class)
	life := []string{"1h", "1h", "-5s", ""}[r0.Intn(4)]
	for _, d := range c28Durations {
		if d.text == life && d.ok {
			b.prefix = append(b.prefix, c28Op{kind: "setexp", d: d.secs, text: d.text, ok: true})
		}
	}

	nWriters := 1
	if r0.Intn(3) == 0 {
		nWriters = 2 + r0.Intn(2)
	}

	if nWriters == 1 {
		b.max = 1 + r0.Intn(3)
	} else {
		b.max = len(hot) + r0.Intn(2) // several writers: every Add is accepted
	}

	for w := 0; w < nWriters; w++ {
		for {
			prog := []c28Op{}
			adds, removes := 0, 0

			for i, n := 0, 2+r0.Intn(6); i < n; i++ {
				k := hot[0]
				if r0.Intn(3) == 0 {
					k = hot[r0.Intn(len(hot))]
				}

				switch x := r0.Intn(100); {
				case x < 35:
					prog = append(prog, c28Op{kind: "add", k: k, v: r0.Intn(4)})
					if k == hot[0] {
						adds++
					}
				case x < 60:
					prog = append(prog, c28Op{kind: "del", k: k})
					if k == hot[0] {
						removes++
					}
				case x < 88 || life != "-5s":
					prog = append(prog, c28Op{kind: "find", k: k})
				default:
					prog = append(prog, c28Op{kind: "sweep"})
					removes++
				}
			}

			if adds > 0 && removes > 0 {
				b.writers = append(b.writers, prog)

				break
			}
		}
	}

	return b
}

// the last write of one writer goroutine on one key
type c28LastWrite struct {
	op        c28Op
	present   bool // effect: the key holds op.v afterwards
	inv, resp int64
}

var c28Sink atomic.Int64

const c28BurstBudget = 600000

func c28RunBurst(t *testing.T, b c28Burst) (fails []verifh.Failure, writerOps int, readerFinds int64) {
	input := b.input()

	synctest.Test(t, func(t *testing.T) {
		h := c28History{max: b.max, ops: b.prefix}
		r := c28Setup(t, h)
		oracle := newC28Oracle(h)
		oracle.input = input

		sizes := func() []int {
			s := make([]int, c28NClasses)
			for c := range s {
				s[c] = Size(r.base + c)
			}

			return s
		}

		sweepRemoves := false

		for i, op := range b.prefix {
			res := r.exec(op)
			synctest.Wait()
			oracle.step(i, op, res, 0, r.taken(), sizes())

			if op.kind == "setexp" && op.ok && op.c == 0 {
				sweepRemoves = op.d < 0
			}
		}

		var (
			stop    atomic.Bool
			stamp   atomic.Int64
			finds   atomic.Int64
			readers sync.WaitGroup
			writers sync.WaitGroup
		)

		spinMax := map[string]int{"spin": 400, "spin4k": 4000, "spin40k": 40000}[b.spread] + 1
		single := len(b.writers) == 1
		gate := make(chan struct{})
		last := make([]map[int]c28LastWrite, len(b.writers))
		adds := make([]map[int]int, len(b.writers))

		for g := 0; g < b.readers; g++ {
			readers.Add(1)

			go func(g int) {
				defer readers.Done()

				rnd := rand.New(rand.NewSource(int64(g)))
				n := int64(0)

				<-gate

				for i := g; !stop.Load(); i++ {
					Find(r.base, c28Keys[b.rkeys[i%len(b.rkeys)]])

					if n++; n%256 == 0 {
						finds.Add(256)
					}

					switch b.spread {
					case "gosched":
						if i%3 != 0 {
							runtime.Gosched()
						}
					case "spin", "spin4k", "spin40k":
						x := 0
						for j, m := 0, rnd.Intn(spinMax); j < m; j++ {
							x += j
						}

						c28Sink.Add(int64(x & 1))
					}
				}

				finds.Add(n % 256)
			}(g)
		}

		for w := range b.writers {
			last[w] = map[int]c28LastWrite{}
			adds[w] = map[int]int{}

			writers.Add(1)

			go func(w int, prog []c28Op) {
				defer writers.Done()

				<-gate

				n := len(b.prefix)

				// the writers are one among many contenders for the lock: a burst also ends when the
				// readers have made c28BurstBudget calls (bounds the cost on a loaded machine)
				for round := 0; round < b.rounds && finds.Load() < c28BurstBudget; round++ {
					for _, op := range prog {
						inv := stamp.Add(1)
						res := r.exec(op)
						resp := stamp.Add(1)

						if single {
							// one writer: readers change no value, so each result is determined
							oracle.note = fmt.Sprintf("burst, writer round %d: ", round)
							oracle.step(n, op, res, 0, r.taken(), sizes())

							if len(oracle.fails) > 0 {
								return
							}
						}

						n++

						switch {
						case op.kind == "add":
							adds[w][op.k]++
							last[w][op.k] = c28LastWrite{op: op, present: true, inv: inv, resp: resp}
						case op.kind == "del":
							last[w][op.k] = c28LastWrite{op: op, inv: inv, resp: resp}
						case op.kind == "sweep" && sweepRemoves:
							for _, k := range b.rkeys {
								last[w][k] = c28LastWrite{op: op, inv: inv, resp: resp}
							}
						}

						if round%2 == 1 {
							runtime.Gosched()
						}
					}
				}
			}(w, b.writers[w])
		}

		close(gate)
		writers.Wait()
		stop.Store(true)
		readers.Wait()
		synctest.Wait()

		readerFinds = finds.Load()
		writerOps = int(stamp.Load() / 2)

		// ---- quiescent point: every goroutine has joined
		if single {
			if len(oracle.fails) == 0 {
				oracle.note = "quiescent point after the burst (all goroutines joined): "
				oracle.step(writerOps+len(b.prefix), c28Op{kind: "find", k: b.rkeys[0]}, r.exec(c28Op{kind: "find", k: b.rkeys[0]}), 0, r.taken(), sizes())

				for c := 0; c < c28NClasses; c++ {
					for k := range c28Keys {
						op := c28Op{kind: "find", c: c, k: k}
						oracle.step(writerOps+len(b.prefix), op, r.exec(op), 0, r.taken(), nil)
					}
				}
			}

			fails = oracle.fails
		} else {
			fail := func(class, what, got, want string) {
				if len(fails) == 0 {
					fails = append(fails, verifh.Failure{Class: class, What: "quiescent point after the burst (all goroutines joined): " + what, Input: input, Got: got, Want: want})
				}
			}

			evs := r.taken()
			reports := map[int]int{}

			for _, ev := range evs {
				if ev.c != 0 {
					fail("phantom-eviction", "eviction reported for a class nobody wrote to", c28ShowEv(evs), "")
				}

				reports[ev.k]++
			}

			hits := 0

			for k := range c28Keys {
				res := r.exec(c28Op{kind: "find", k: k})
				if res != "miss" {
					hits++
				}

				// the final state is the effect of a write that no other write on the key follows in real time
				cands := []c28LastWrite{}
				stored := 0

				for w := range last {
					stored += adds[w][k]

					lw, wrote := last[w][k]
					if !wrote {
						continue
					}

					final := true

					for w2 := range last {
						if l2, wrote2 := last[w2][k]; wrote2 && w2 != w && l2.inv > lw.resp {
							final = false
						}
					}

					if final {
						cands = append(cands, lw)
					}
				}

				want := []string{}
				allowed, anyPresent, anyAbsent := false, false, false

				for _, c := range cands {
					exp := "miss"
					if c.present {
						exp = fmt.Sprintf("hit%d", c.op.v)
						anyPresent = true
					} else {
						anyAbsent = true
					}

					want = append(want, fmt.Sprintf("%s (after %s)", exp, c.op.input()))
					allowed = allowed || exp == res
				}

				if len(cands) == 0 {
					want = []string{"miss"}
					allowed = res == "miss"
					anyAbsent = true
				}

				at := fmt.Sprintf("find 0 %d", k)

				switch {
				case allowed:
				case res != "miss" && !anyPresent:
					fail("value-after-removal", at+": the last completed write(s) on the key removed it, yet Find returns a value", res, strings.Join(want, " | "))
				case res == "miss" && !anyAbsent:
					fail("entry-vanished", at+": the last completed write(s) on the key stored a value, yet it is gone", res, strings.Join(want, " | "))
				default:
					fail("stale-value", at+": Find returns a value that is not the effect of any write that could be last", res, strings.Join(want, " | "))
				}

				if reports[k] > stored {
					fail("concurrent-duplicate-eviction", fmt.Sprintf("entry 0.%d reported %d times but stored only %d times", k, reports[k], stored), c28ShowEv(evs), "")
				}
			}

			if size := Size(r.base); size != hits || size > b.max {
				fail("size-mismatch", fmt.Sprintf("class 0: Size=%d, %d keys are found, limit %d", size, hits, b.max), strconv.Itoa(size), strconv.Itoa(hits))
			}
		}

		if r.badTime {
			fails = append(fails, verifh.Failure{Class: "harness-fractional-time", What: "a time was not a whole number of seconds", Input: input})
		}

		r.teardown()
	})

	return fails, writerOps, readerFinds
}

// ---------------------------------------------------------------- lock discipline (source level)

type c28Lock struct {
	guarded  map[string]bool
	funcs    map[string]*ast.FuncDecl
	unlocked map[string][]string // function -> guarded accesses made without the lock
	calls    map[string][]bool   // callee -> was the lock held at each call site
	cur      string
}

func c28IsLockCall(e ast.Expr) (acquire bool, release bool) {
	call, ok := e.(*ast.CallExpr)
	if !ok {
		return false, false
	}

	sel, ok := call.Fun.(*ast.SelectorExpr)
	if !ok {
		return false, false
	}

	if x, ok := sel.X.(*ast.Ident); !ok || x.Name != "cacheLock" {
		return false, false
	}

	switch sel.Sel.Name {
	case "Lock", "RLock":
		return true, false
	case "Unlock", "RUnlock":
		return false, true
	}

	return false, false
}

func (l *c28Lock) scan(n ast.Node, held bool) {
	if n == nil {
		return
	}

	ast.Inspect(n, func(x ast.Node) bool {
		switch v := x.(type) {
		case *ast.FuncLit:
			// a closure may run on another goroutine / later: the lock is not assumed
			l.block(v.Body.List, false)

			return false
		case *ast.Ident:
			if l.guarded[v.Name] && !held {
				l.unlocked[l.cur] = append(l.unlocked[l.cur], v.Name)
			}
		case *ast.CallExpr:
			if id, ok := v.Fun.(*ast.Ident); ok {
				if _, known := l.funcs[id.Name]; known {
					l.calls[id.Name] = append(l.calls[id.Name], held)
				}
			}
		}

		return true
	})
}

// block walks a statement list; it returns whether the lock is held afterwards and whether
// the list always leaves the function
func (l *c28Lock) block(stmts []ast.Stmt, held bool) (bool, bool) {
	for _, s := range stmts {
		switch v := s.(type) {
		case *ast.ExprStmt:
			if acq, rel := c28IsLockCall(v.X); acq {
				held = true
			} else if rel {
				held = false
			} else {
				l.scan(v, held)
			}
		case *ast.DeferStmt:
			if _, rel := c28IsLockCall(v.Call); !rel {
				l.scan(v.Call, false)
			}
		case *ast.GoStmt:
			for _, a := range v.Call.Args {
				l.scan(a, held)
			}

			if lit, ok := v.Call.Fun.(*ast.FuncLit); ok {
				l.block(lit.Body.List, false)
			} else if id, ok := v.Call.Fun.(*ast.Ident); ok {
				if _, known := l.funcs[id.Name]; known {
					l.calls[id.Name] = append(l.calls[id.Name], false)
				}
			}
		case *ast.ReturnStmt:
			l.scan(v, held)

			return held, true
		case *ast.BlockStmt:
			h, term := l.block(v.List, held)
			if term {
				return h, true
			}

			held = h
		case *ast.IfStmt:
			l.scan(v.Init, held)
			l.scan(v.Cond, held)

			after := held
			h1, t1 := l.block(v.Body.List, held)

			if !t1 {
				after = after && h1
			}

			allLeave := t1

			switch e := v.Else.(type) {
			case nil:
				allLeave = false
			case *ast.BlockStmt:
				h2, t2 := l.block(e.List, held)
				if !t2 {
					after = after && h2
				}

				allLeave = allLeave && t2
			default:
				h2, t2 := l.block([]ast.Stmt{e}, held)
				if !t2 {
					after = after && h2
				}

				allLeave = allLeave && t2
			}

			if allLeave {
				return after, true
			}

			held = after
		case *ast.ForStmt:
			l.scan(v.Init, held)
			l.scan(v.Cond, held)
			l.scan(v.Post, held)

			h, _ := l.block(v.Body.List, held)
			held = held && h
		case *ast.RangeStmt:
			l.scan(v.X, held)

			h, _ := l.block(v.Body.List, held)
			held = held && h
		default:
			l.scan(s, held)
		}
	}

	return held, false
}

func c28LockDiscipline() ([]verifh.Failure, int) {
	fset := token.NewFileSet()

	pkgs, err := parser.ParseDir(fset, ".", func(fi os.FileInfo) bool { return !strings.HasSuffix(fi.Name(), "_test.go") }, 0)
	if err != nil || pkgs["caches"] == nil {
		return []verifh.Failure{{Class: "lock-discipline-unreadable", What: fmt.Sprint("cannot parse the package: ", err)}}, 0
	}

	l := &c28Lock{guarded: map[string]bool{}, funcs: map[string]*ast.FuncDecl{}, unlocked: map[string][]string{}, calls: map[string][]bool{}}
	maps := map[string]bool{}

	for _, f := range pkgs["caches"].Files {
		for _, d := range f.Decls {
			switch v := d.(type) {
			case *ast.FuncDecl:
				if v.Recv == nil && v.Body != nil {
					l.funcs[v.Name.Name] = v
				}
			case *ast.GenDecl:
				if v.Tok != token.VAR {
					continue
				}

				for _, sp := range v.Specs {
					vs := sp.(*ast.ValueSpec)
					isMap := false

					if _, ok := vs.Type.(*ast.MapType); ok {
						isMap = true
					}

					for _, val := range vs.Values {
						if cl, ok := val.(*ast.CompositeLit); ok {
							if _, ok := cl.Type.(*ast.MapType); ok {
								isMap = true
							}
						}
					}

					if isMap {
						for _, n := range vs.Names {
							maps[n.Name] = true
						}
					}
				}
			}
		}
	}

	// guarded = package-level maps that some function writes (m[k] = …, delete(m, k), m = …)
	for _, fn := range l.funcs {
		ast.Inspect(fn.Body, func(x ast.Node) bool {
			switch v := x.(type) {
			case *ast.AssignStmt:
				for _, lhs := range v.Lhs {
					if ix, ok := lhs.(*ast.IndexExpr); ok {
						lhs = ix.X
					}

					if id, ok := lhs.(*ast.Ident); ok && maps[id.Name] && v.Tok != token.DEFINE {
						l.guarded[id.Name] = true
					}
				}
			case *ast.CallExpr:
				if id, ok := v.Fun.(*ast.Ident); ok && id.Name == "delete" && len(v.Args) == 2 {
					if m, ok := v.Args[0].(*ast.Ident); ok && maps[m.Name] {
						l.guarded[m.Name] = true
					}
				}
			}

			return true
		})
	}

	for name, fn := range l.funcs {
		l.cur = name
		l.block(fn.Body.List, false)
	}

	var fails []verifh.Failure

	names := []string{}
	for name := range l.unlocked {
		names = append(names, name)
	}

	sort.Strings(names)

	for _, name := range names {
		sites := l.calls[name]
		allHeld := len(sites) > 0

		for _, h := range sites {
			allHeld = allHeld && h
		}

		if allHeld {
			continue // only ever called with the lock held (newCache)
		}

		fails = append(fails, verifh.Failure{Class: "unlocked-map-access", What: "function " + name + " reads or writes a shared cache map without holding cacheLock",
			Input: "func " + name, Got: strings.Join(l.unlocked[name], ",")})
	}

	if !l.guarded["cacheList"] {
		fails = append(fails, verifh.Failure{Class: "lock-discipline-unreadable", What: "cacheList was not recognised as a shared map", Input: "cacheList"})
	}

	return fails, len(l.funcs)
}

// ---------------------------------------------------------------- the test

func TestVerifC28(t *testing.T) {
	mode := os.Getenv("VERIF_C28_MODE")
	prefix := "c28_"

	if mode == "race" {
		prefix = "c28r_"
	}

	if mode == "hammer" {
		prefix = "c28h_" // only the hammer stream (for measuring its hit rate)
	}

	cases := verifh.Out(prefix + "cases.jsonl")
	fails := verifh.Out(prefix + "failures.jsonl")
	stats := verifh.NewStats()

	defer func() {
		cases.Close()
		fails.Close()
		stats.Save(prefix + "stats.json")
	}()

	Active(true)

	nConc := verifh.N(400, 12000)
	nBurst := verifh.N(32, 500)
	bursts := []c28Burst{}

	if mode == "race" {
		nConc = verifh.N(150, 3000)
		nBurst = verifh.N(8, 100)

		c28Stress(t, verifh.N(200, 2000))
		stats.Inc("stress")
	} else if mode == "hammer" {
		nConc = 0
	} else {
		scanSecs, _ := time.ParseDuration(scanTime)
		lifeSecs, _ := time.ParseDuration(expireTime)
		cases.Write(verifh.Case{In: "consts", Impl: fmt.Sprintf("%d %d", int(scanSecs/time.Second), int(lifeSecs/time.Second)), Desc: "scanTime, expireTime"})

		lockFails, nFuncs := c28LockDiscipline()
		for _, f := range lockFails {
			fails.Write(f)
		}

		stats.Add("lock.functions", nFuncs)

		histories := []c28History{}

		if rp := verifh.ReplayInput(); rp != nil {
			var v struct {
				Failures []struct {
					Input string `json:"input"`
				} `json:"failures"`
			}

			if json.Unmarshal(rp, &v) == nil {
				for _, f := range v.Failures {
					if c28IsBurst(f.Input) {
						if b, err := c28ParseBurst(f.Input); err == nil {
							for i := 0; i < 5; i++ {
								bursts = append(bursts, b)
							}

							stats.Inc("replayed")
						}

						continue
					}

					if h, err := c28Parse(strings.SplitN(f.Input, " || ", 2)[0]); err == nil {
						histories = append(histories, h)

						stats.Inc("replayed")
					}
				}
			}
		}

		for _, s := range c28Corpus {
			h, err := c28Parse(s)
			if err != nil {
				t.Fatal(err)
			}

			histories = append(histories, h)
		}

		r := verifh.Rand(28)
		n := verifh.N(2500, 40000)

		for i := 0; i < n; i++ {
			histories = append(histories, c28GenHistory(r))
		}

		seen := map[string]bool{}

		for i, h := range histories {
			res := c28RunSequential(t, h)

			for _, l := range res.lines {
				cases.Write(l)
			}

			for _, f := range res.fails {
				fails.Write(f)
			}

			stats.Inc("seq.histories")
			stats.Add("seq.ops", len(h.ops))
			stats.Add("seq.hits", res.hits)
			stats.Add("seq.evictions", res.evicts)
			stats.Add("seq.capacity_rejects", res.rejects)

			// non-trivial: the history saw a hit, an eviction and (a purge or a capacity rejection)
			if res.hits > 0 && res.evicts > 0 && (res.purges > 0 || res.rejects > 0) {
				if in := h.input(); !seen[in] {
					seen[in] = true

					stats.Inc("distinct_nontrivial")

					if i >= len(c28Corpus) {
						stats.Sample(in)
					}
				}
			}
		}
	}

	rc := verifh.Rand(2800)

	for i := 0; i < nConc; i++ {
		line, fs, input := c28RunConcurrent(t, rc)
		cases.Write(line)

		for _, f := range fs {
			fails.Write(f)
		}

		stats.Inc("conc.histories")

		if i < 2 {
			stats.Sample(input)
		}
	}

	rb := verifh.Rand(2828)

	for i := 0; i < nBurst; i++ {
		bursts = append(bursts, c28GenBurst(rb))
	}

	for i, b := range bursts {
		fs, wops, rfinds := c28RunBurst(t, b)

		for _, f := range fs {
			fails.Write(f)
		}

		stats.Inc("hammer.bursts")
		stats.Add("hammer.writer_ops", wops)
		stats.Add("hammer.reader_finds", int(rfinds))

		if len(b.writers) > 1 {
			stats.Inc("hammer.multi_writer_bursts")
		}

		if i >= len(bursts)-2 {
			stats.Sample(b.input())
		}
	}
}
