//go:build verif

package auth

import (
	"fmt"
	"math/rand"
	"sort"
	"strings"
	"testing"

	"github.com/tucats/ego/internal/cli/settings"
	"github.com/tucats/ego/internal/defs"
	"github.com/tucats/ego/internal/verifh"
	"golang.org/x/crypto/bcrypt"
)

type c25Store struct {
	kind   string
	svc    userIOService
	reopen func() (userIOService, error) // nil for the in-memory store
}

type c25Env struct {
	t        *testing.T
	r        *rand.Rand
	cases    *verifh.Writer
	fails    *verifh.Writer
	stats    *verifh.Stats
	c12left  int // budget of cost-12 bcrypt operations (each ~0.3 s CPU)
	seenNT   map[string]bool
	nfail    int
	plainOn  bool
	shaSeen  map[string]string
	attempts int

	bmLookedUpOnly bool // protocol field bm is computed for the looked-up record only (the only one the model reads)
}

func (e *c25Env) fail(class, what, input, got, want string) {
	e.nfail++
	if e.nfail <= 200 {
		e.fails.Write(verifh.Failure{Class: class, What: what, Input: input, Got: got, Want: want})
	}
}

var c25On = []string{"true", "TRUE", "yes", "1", "t", "y", "True"}
var c25Off = []string{"false", "", "no", "0", "off", "garbage", "FALSE", "2"}

func (e *c25Env) setPlain(on bool) {
	e.plainOn = on
	if on {
		settings.SetDefault(defs.PlaintextPasswordSetting, c25On[e.r.Intn(len(c25On))])
	} else {
		settings.SetDefault(defs.PlaintextPasswordSetting, c25Off[e.r.Intn(len(c25Off))])
	}
}

func c25Snapshot(svc userIOService) []c25Snap {
	m := svc.ListUsers(false)
	out := make([]c25Snap, 0, len(m))

	for k, u := range m {
		out = append(out, c25Snap{key: k, name: u.Name, id: u.ID.String(), password: u.Password,
			perms: append([]string{}, u.Permissions...)})
	}

	sort.Slice(out, func(i, j int) bool { return out[i].key < out[j].key })

	return out
}

func c25IsBcryptShape(s string) bool {
	return len(s) >= 4 && s[0] == '$' && s[1] == '2' && (s[2] == 'a' || s[2] == 'b' || s[2] == 'y') && s[3] == '$'
}

func c25SameSnap(a, b c25Snap) bool {
	return a.key == b.key && a.name == b.name && a.id == b.id && a.password == b.password &&
		strings.Join(a.perms, "\x01") == strings.Join(b.perms, "\x01") && len(a.perms) == len(b.perms)
}

// c25Diff describes which records changed: "<hexkey>:bcrypt" = only the password changed, to a bcrypt-shaped value.
func c25Diff(before, after []c25Snap) (string, []string) {
	bm := map[string]c25Snap{}
	am := map[string]c25Snap{}
	keys := map[string]bool{}

	for _, s := range before {
		bm[s.key] = s
		keys[s.key] = true
	}

	for _, s := range after {
		am[s.key] = s
		keys[s.key] = true
	}

	ks := []string{}
	for k := range keys {
		ks = append(ks, k)
	}

	sort.Strings(ks)

	out := []string{}
	upgraded := []string{}

	for _, k := range ks {
		b, inB := bm[k]
		a, inA := am[k]

		if inA && inB && c25SameSnap(a, b) {
			continue
		}

		kind := ":other"

		if inA && inB {
			b2 := b
			b2.password = a.password

			if c25SameSnap(a, b2) && c25IsBcryptShape(a.password) && !c25IsBcryptShape(b.password) {
				kind = ":bcrypt"
				upgraded = append(upgraded, k)
			}
		}

		out = append(out, verifh.Hex(k)+kind)
	}

	if len(out) == 0 {
		return "none", nil
	}

	return strings.Join(out, ","), upgraded
}

func c25Inner(s string) string {
	if len(s) >= 2 {
		return s[1 : len(s)-1]
	}

	return ""
}

// attempt runs one login attempt against the live store, emits the correspondence case, applies the oracle.
// target is the harness record the attempt is aimed at (nil: unknown user); users is the harness's own registry.
func (e *c25Env) attempt(st *c25Store, users map[string]*c25User, user, pass, desc string) (accepted bool) {
	e.attempts++

	before := c25Snapshot(st.svc)
	lower := strings.ToLower(user)
	rehash := "ok"

	if len(pass) > 72 {
		rehash = "err"
	}

	var sb strings.Builder

	plain := "0"
	if e.plainOn {
		plain = "1"
	}

	fmt.Fprintf(&sb, "v %s %s %s %s %s %s %d", plain, verifh.Hex(user), verifh.Hex(lower), verifh.Hex(pass),
		verifh.Hex(c25Sha(pass)), rehash, len(before))

	for _, s := range before {
		bm := "0"

		if cost, err := bcrypt.Cost([]byte(s.password)); err == nil && (cost > bcrypt.MinCost || e.bmLookedUpOnly) {
			// expensive stored hash (or a phase with thousands of attempts): consult the library only for the
			// record the spec says is looked up
			if s.key == lower && pass != "" {
				if cost >= 10 {
					e.c12left--
				}

				if bcrypt.CompareHashAndPassword([]byte(s.password), []byte(pass)) == nil {
					bm = "1"
				}
			}
		} else if bcrypt.CompareHashAndPassword([]byte(s.password), []byte(pass)) == nil {
			bm = "1"
		}

		fmt.Fprintf(&sb, " %s %s %s %s %d", verifh.Hex(s.key), verifh.Hex(s.password), bm,
			verifh.Hex(c25Sha(c25Inner(s.password))), len(s.perms))

		for _, p := range s.perms {
			sb.WriteString(" " + verifh.Hex(p))
		}

		if s.key != s.name {
			e.fail("store-key-name", "a record is stored under a key different from its Name", desc, s.key, s.name)
		}
	}

	accepted = ValidatePassword(0, user, pass)

	after := c25Snapshot(st.svc)
	diff, upgraded := c25Diff(before, after)
	acc := "0"

	if accepted {
		acc = "1"
	}

	e.cases.Write(verifh.Case{In: sb.String(), Impl: acc + " " + diff, Desc: st.kind + " " + desc})
	e.oracle(st, users, before, after, user, pass, accepted, diff, upgraded, desc)

	return accepted
}
