//go:build verif

package auth

// C31 three-way differential harness: the REAL file-backed store (temp JSON file), the REAL
// database-backed store (temp SQLite file) and -- through the case lines -- the Lean model.
//
// Every epoch starts from nothing (fresh temp files, purged AuthCache), opens both stores with the
// same default user and runs one random history of
//   write / delete / read / list / grant / revoke / has / perms / flush / reopen / evict / setuser / deluser
// over a handful of hostile names. Each operation is applied to both stores.
//
// Direct oracle (independent of the model):
//   * agreement: the canonical answers of the two stores are equal for every operation;
//   * persistence: for each store, ListUsers before Close and after New…Service are equal, or differ
//     exactly by a freshly created default user;
//   * SetUser stores a hash that verifies the plaintext.
// Correspondence: one case line per operation, Impl = "<file answer> | <db answer>"; the driver runs
// the file model and the database model on the same line.
//
// Canonical form: strings hex-encoded; a map answer sorted by key; nil and empty permission lists
// identified ("_"); Passkeys compacted (the file store re-indents them); the random uuid / bcrypt
// hash of a default user created by New…Service and of SetUser are replaced by the tokens
// dfltid#k / dfltpw#k (k = number of default users this store has created) and nid#n / bc#n
// (n = sequence number of the setuser operation).

import (
	"bytes"
	"crypto/sha256"
	"encoding/json"
	"fmt"
	"math/rand"
	"os"
	"path/filepath"
	"sort"
	"strings"
	"testing"
	"time"

	"github.com/google/uuid"
	"github.com/tucats/ego/internal/caches"
	"github.com/tucats/ego/internal/cli/settings"
	"github.com/tucats/ego/internal/defs"
	egoerrors "github.com/tucats/ego/internal/errors"
	"github.com/tucats/ego/internal/language/data"
	"github.com/tucats/ego/internal/language/symbols"
	"github.com/tucats/ego/internal/verifh"
	"golang.org/x/crypto/bcrypt"
)

const c31Dflt = "admin"

var c31Time = map[string]time.Duration{}

type c31Store struct {
	tag   string
	isDB  bool
	path  string
	svc   userIOService
	alias map[string]string
	dflts int
}

func (s *c31Store) open(dflt string) error {
	var err error

	if s.isDB {
		s.svc, err = NewDatabaseService(s.path, dflt, "pw")
	} else {
		s.svc, err = NewFileService(s.path, dflt, "pw")
	}

	return err
}

func c31Perms(p []string) string {
	if len(p) == 0 {
		return "_"
	}

	h := make([]string, len(p))
	for i, x := range p {
		h[i] = verifh.Hex(x)
	}

	return strings.Join(h, ",")
}

func c31Compact(raw json.RawMessage) string {
	if len(raw) == 0 {
		return ""
	}

	var b bytes.Buffer
	if err := json.Compact(&b, raw); err != nil {
		return string(raw)
	}

	return b.String()
}

func (s *c31Store) tok(v string) string {
	if a, ok := s.alias[v]; ok {
		return a
	}

	return v
}

// canonical record: name id pw perms tok keys
func (s *c31Store) rec(u defs.User) string {
	return strings.Join([]string{verifh.Hex(u.Name), verifh.Hex(s.tok(u.ID.String())), verifh.Hex(s.tok(u.Password)),
		c31Perms(u.Permissions), verifh.Hex(u.LastTokenAt), verifh.Hex(c31Compact(u.Passkeys))}, " ")
}

// canonical map answer, sorted by key
func (s *c31Store) listing(mask bool) string {
	m := s.svc.ListUsers(mask)
	keys := make([]string, 0, len(m))

	for k := range m {
		keys = append(keys, k)
	}

	sort.Strings(keys)

	var b strings.Builder

	fmt.Fprintf(&b, "users %d", len(keys))

	for _, k := range keys {
		b.WriteString(" ; " + verifh.Hex(k) + " " + s.rec(m[k]))
	}

	return b.String()
}

func (s *c31Store) snap() map[string]string {
	r := map[string]string{}
	for k, v := range s.svc.ListUsers(false) {
		r[k] = s.rec(v)
	}

	return r
}

func c31Err(err error) string {
	if err == nil {
		return "ok"
	}

	return "err"
}

type c31Op struct {
	kind   string
	name   string
	perm   string
	user   defs.User
	mask   bool
	pw     *string  // setuser: plaintext password
	perms  []string // setuser: permissions (nil = absent)
	hasPrm bool
	seq    int
}

func c31Line(op c31Op) string {
	h := verifh.Hex

	switch op.kind {
	case "new", "reopen":
		return op.kind + " " + h(op.name)
	case "write":
		u := op.user
		return strings.Join([]string{"write", h(u.Name), h(u.ID.String()), h(u.Password), c31Perms(u.Permissions), h(u.LastTokenAt), h(c31Compact(u.Passkeys))}, " ")
	case "delete", "read", "perms", "evict", "deluser":
		return op.kind + " " + h(op.name)
	case "list":
		if op.mask {
			return "list 1"
		}

		return "list 0"
	case "grant", "revoke", "has":
		return op.kind + " " + h(op.name) + " " + h(op.perm)
	case "flush":
		return "flush"
	case "setuser":
		pw, pm := "~", "~"
		if op.pw != nil {
			pw = h(fmt.Sprintf("bc#%d", op.seq))
		}

		if op.hasPrm {
			pm = c31Perms(op.perms)
		}

		return "setuser " + h(op.name) + " " + pw + " " + pm + " " + h(fmt.Sprintf("nid#%d", op.seq))
	}

	panic("c31: bad op " + op.kind)
}

func c31CloneUser(u defs.User) defs.User {
	if u.Permissions != nil {
		u.Permissions = append([]string{}, u.Permissions...)
	}

	if u.Passkeys != nil {
		u.Passkeys = append(json.RawMessage{}, u.Passkeys...)
	}

	return u
}

// apply runs one operation on one store and returns the canonical answer. `extra` reports a
// direct-oracle failure local to this store (persistence, hash) as class + text.
func (s *c31Store) apply(op c31Op) (ans string, extraClass string, extra string) {
	switch op.kind {
	case "new", "reopen":
		var before map[string]string

		if op.kind == "reopen" {
			before = s.snap()

			if err := s.svc.Close(); err != nil {
				return "err", "", ""
			}
		} else {
			before = map[string]string{}
		}

		if err := s.open(op.name); err != nil {
			return "err", "persistence", s.tag + ": New…Service failed on its own file: " + err.Error()
		}

		// learn the random id / hash of a default user created by the open
		raw := s.svc.ListUsers(false)
		if u, ok := raw[op.name]; ok {
			if _, had := before[op.name]; !had {
				s.dflts++
				s.alias[u.ID.String()] = fmt.Sprintf("dfltid#%d", s.dflts)
				s.alias[u.Password] = fmt.Sprintf("dfltpw#%d", s.dflts)
			}
		}

		after := s.snap()
		fresh := (defs.User{Name: op.name, Permissions: []string{defs.RootPermission, defs.LogonPermission}})
		freshRec := strings.Join([]string{verifh.Hex(op.name), verifh.Hex(fmt.Sprintf("dfltid#%d", s.dflts)), verifh.Hex(fmt.Sprintf("dfltpw#%d", s.dflts)),
			c31Perms(fresh.Permissions), "-", "-"}, " ")

		for k, v := range before {
			if after[k] != v {
				return "ok", "persistence", fmt.Sprintf("%s: user %q before reopen [%s] after [%s]", s.tag, k, v, after[k])
			}
		}

		for k, v := range after {
			if _, had := before[k]; !had && !(k == op.name && v == freshRec) {
				return "ok", "persistence", fmt.Sprintf("%s: user %q appeared at reopen [%s]", s.tag, k, v)
			}
		}

		return "ok", "", ""

	case "write":
		return c31Err(s.svc.WriteUser(0, c31CloneUser(op.user))), "", ""

	case "delete":
		return c31Err(s.svc.DeleteUser(0, op.name)), "", ""

	case "read":
		u, err := s.svc.ReadUser(0, op.name, true)
		if err != nil {
			return "notfound", "", ""
		}

		return "user " + s.rec(u), "", ""

	case "list":
		return s.listing(op.mask), "", ""

	case "grant", "revoke":
		AuthService = s.svc

		err := setPermission(0, op.name, op.perm, op.kind == "grant")
		if err == nil {
			return "ok", "", ""
		}

		if egoerrors.Equals(err, egoerrors.ErrNoSuchUser) {
			return "nosuchuser", "", ""
		}

		return "err", "", ""

	case "has":
		AuthService = s.svc

		if GetPermission(0, op.name, op.perm) {
			return "true", "", ""
		}

		return "false", "", ""

	case "perms":
		AuthService = s.svc

		return "perms " + c31Perms(append([]string{}, GetPermissions(0, op.name)...)), "", ""

	case "flush":
		return c31Err(s.svc.Flush()), "", ""

	case "evict":
		caches.Delete(caches.AuthCache, op.name)

		return "ok", "", ""

	case "setuser":
		AuthService = s.svc
		key := strings.ToLower(op.name)
		_, had := s.svc.ListUsers(false)[key]

		m := data.NewMap(data.StringType, data.InterfaceType)
		_, _ = m.Set("name", op.name)

		if op.pw != nil {
			_, _ = m.Set("password", *op.pw)
		}

		if op.hasPrm {
			l := make([]any, len(op.perms))
			for i, p := range op.perms {
				l[i] = p
			}

			_, _ = m.Set("permissions", l)
		}

		_, err := SetUser(symbols.NewSymbolTable("c31"), data.NewList(m))
		if err != nil {
			return "err", "", ""
		}

		u, ok := s.svc.ListUsers(false)[key]
		if ok {
			if !had {
				s.alias[u.ID.String()] = fmt.Sprintf("nid#%d", op.seq)
			}

			if op.pw != nil {
				if bcrypt.CompareHashAndPassword([]byte(u.Password), []byte(*op.pw)) != nil {
					return "ok", "setuser-hash", s.tag + ": stored hash does not verify the password given to SetUser"
				}

				s.alias[u.Password] = fmt.Sprintf("bc#%d", op.seq)
			}
		}

		return "ok", "", ""

	case "deluser":
		AuthService = s.svc

		v, err := DeleteUser(symbols.NewSymbolTable("c31"), data.NewList(op.name))
		if err != nil {
			return "err", "", ""
		}

		if b, _ := v.(bool); b {
			return "true", "", ""
		}

		return "false", "", ""
	}

	panic("c31: bad op " + op.kind)
}

func (s *c31Store) has(name string) bool {
	_, ok := s.svc.ListUsers(false)[name]

	return ok
}

var c31Names = [][]string{
	{"bob", "Bob", "BOB", "bob "},
	{"", " ", "  "},
	{"O'Brien", "o'brien", `x"y`, `a\b`},
	{"日本", "日本語", "🙂"},
	{"élan", "ÉLAN", "Élan"},
	{"Дмитрий", "дмитрий"},
	{"a\x00b", "a", "a\x00"},
	{"1e3", "1000", "0x10", "NULL", "null"},
	{"x; drop table credentials;--", "%", "_", "x' or '1'='1"},
	{"line\nbreak", "tab\there", "// comment", "# hash"},
	{strings.Repeat("long", 80), strings.Repeat("long", 80) + "!"},
	{"admin", "Admin", "ADMIN"},
}

var c31PermPool = []string{"logon", "LOGON", "Logon", "root", "ego.root", "ego.logon", "EGO.ROOT", "", ".", "a,b", `"q"`,
	"<x>&", "日本", "é", "É", "д", "Д", "x y", "%", "table_read", "Table_Read", "null", "[]", `\`}

var c31PwPool = []string{"", "h1", "h2", "$2a$12$abcdefghijklmnopqrstuuO3vN2uZb5G6WQ1yqvK1f0oVbYx9eK2", "**********", "********",
	`p"q\`, "пароль", "null", "pw with space ", "\x00", "<&>"}

var c31TokPool = []string{"", "", "2026-01-01T00:00:00Z", "not a time", "0", "日"}

var c31KeyPool = []string{"", "", "[]", `[{"id":"AQ"}]`, `[ {"a" : 1} ,  {"b":"x y"} ]`, `{"k":[1,2,{"z":null}]}`, `"s p a c e"`, "null"}

var c31IDPool = []uuid.UUID{uuid.Nil, uuid.MustParse("11111111-1111-4111-8111-111111111111"), uuid.MustParse("22222222-2222-4222-8222-222222222222"),
	uuid.MustParse("ffffffff-ffff-4fff-bfff-ffffffffffff")}

func c31Pick(r *rand.Rand, l []string) string { return l[r.Intn(len(l))] }

type c31Gen struct {
	r        *rand.Rand
	names    []string
	seq      int
	bcryptN  int
	maxBc    int
	dropDflt bool
}

func (g *c31Gen) name() string {
	if g.r.Intn(12) == 0 {
		return c31Dflt
	}

	return c31Pick(g.r, g.names)
}

func (g *c31Gen) victim() string {
	n := c31Pick(g.r, g.names)
	if g.dropDflt && g.r.Intn(6) == 0 {
		return c31Dflt
	}

	// outside the epochs that mean to, never remove the default user (DeleteUser lower-cases its argument)
	if strings.ToLower(n) == c31Dflt {
		return "bob"
	}

	return n
}

func (g *c31Gen) permList() []string {
	switch g.r.Intn(6) {
	case 0:
		return nil
	case 1:
		return []string{}
	}

	n := 1 + g.r.Intn(4)
	l := make([]string, n)

	for i := range l {
		l[i] = c31Pick(g.r, c31PermPool)
	}

	return l
}

func (g *c31Gen) user() defs.User {
	u := defs.User{Name: g.name(), Password: c31Pick(g.r, c31PwPool), Permissions: g.permList(), LastTokenAt: c31Pick(g.r, c31TokPool)}
	if g.r.Intn(3) == 0 {
		var b [16]byte

		g.r.Read(b[:])
		u.ID, _ = uuid.FromBytes(b[:])
	} else {
		u.ID = c31IDPool[g.r.Intn(len(c31IDPool))]
	}

	if k := c31Pick(g.r, c31KeyPool); k != "" {
		u.Passkeys = json.RawMessage(k)
	} else if g.r.Intn(2) == 0 {
		u.Passkeys = json.RawMessage{}
	}

	return u
}

func (g *c31Gen) next() c31Op {
	g.seq++
	x := g.r.Intn(100)

	switch {
	case x < 24:
		return c31Op{kind: "write", user: g.user()}
	case x < 32:
		return c31Op{kind: "delete", name: g.victim()}
	case x < 44:
		return c31Op{kind: "read", name: g.name()}
	case x < 52:
		return c31Op{kind: "list", mask: g.r.Intn(2) == 0}
	case x < 62:
		return c31Op{kind: "grant", name: g.name(), perm: c31Pick(g.r, c31PermPool)}
	case x < 70:
		return c31Op{kind: "revoke", name: g.name(), perm: c31Pick(g.r, c31PermPool)}
	case x < 75:
		return c31Op{kind: "has", name: g.name(), perm: c31Pick(g.r, c31PermPool)}
	case x < 80:
		return c31Op{kind: "perms", name: g.name()}
	case x < 85:
		return c31Op{kind: "flush"}
	case x < 89:
		return c31Op{kind: "reopen", name: c31Dflt}
	case x < 93:
		return c31Op{kind: "evict", name: g.name()}
	case x < 97:
		op := c31Op{kind: "setuser", name: g.name(), seq: g.seq}
		if g.bcryptN < g.maxBc && g.r.Intn(2) == 0 {
			g.bcryptN++
			p := c31Pick(g.r, []string{"secret", "", "пароль", "p w"})
			op.pw = &p
		}

		if g.r.Intn(3) > 0 {
			op.hasPrm = true
			op.perms = g.permList()

			if op.perms == nil {
				op.perms = []string{}
			}
		}

		return op
	default:
		return c31Op{kind: "deluser", name: g.victim()}
	}
}

type c31Run struct {
	t        *testing.T
	cases    *verifh.Writer
	fails    *verifh.Writer
	stats    *verifh.Stats
	distinct map[[32]byte]bool
}

// epoch runs one history from nothing; `fixed` (if non-nil) is a scripted history.
func (c *c31Run) epoch(r *rand.Rand, nops int, fixed []c31Op, keyed, dropDflt, model bool, class string) {
	dir := c.t.TempDir()
	scheme := "sqlite3://"

	if r.Intn(3) == 0 {
		scheme = "sqlite://"
	}

	fs := &c31Store{tag: "file", path: filepath.Join(dir, "users.json"), alias: map[string]string{}}
	db := &c31Store{tag: "db", isDB: true, path: scheme + filepath.Join(dir, "users.db"), alias: map[string]string{}}

	caches.PurgeLocal(caches.AuthCache)

	if keyed {
		settings.Set(defs.LogonUserdataKeySetting, "c31 key "+fmt.Sprint(r.Intn(1000)))
		defer settings.Set(defs.LogonUserdataKeySetting, "")
	}

	g := &c31Gen{r: r, dropDflt: dropDflt}
	if r.Intn(3) == 0 {
		g.maxBc = verifh.N(1, 2) // every SetUser with a password costs four bcrypt runs
	}

	fam := c31Names[r.Intn(len(c31Names))]
	g.names = append(g.names, fam...)
	g.names = append(g.names, c31Pick(r, c31Names[r.Intn(len(c31Names))]))

	var (
		hist             []string
		mutations        int
		reopened         bool
		nontrivial       bool
		dfltAbsentReopen bool
	)

	defer func() {
		for _, s := range []*c31Store{fs, db} {
			if s.svc != nil {
				_ = s.svc.Close()
			}
		}

		AuthService = nil
	}()

	for i := 0; ; i++ {
		var op c31Op

		switch {
		case i == 0:
			op = c31Op{kind: "new", name: c31Dflt}
		case fixed != nil:
			if i-1 >= len(fixed) {
				op.kind = ""
			} else {
				op = fixed[i-1]
			}
		case i > nops:
			op.kind = ""
		default:
			op = g.next()
		}

		if op.kind == "" {
			break
		}

		line := c31Line(op)
		hist = append(hist, line)

		if op.kind == "reopen" && (!fs.has(op.name) || !db.has(op.name)) {
			dfltAbsentReopen = true
		}

		t0 := time.Now()
		fa, fc, fx := fs.apply(op)
		t1 := time.Now()
		da, dc, dx := db.apply(op)
		c31Time["f_"+op.kind] += t1.Sub(t0)
		c31Time["d_"+op.kind] += time.Since(t1)

		c.stats.Inc("op_" + op.kind)
		c.stats.Inc("ops")

		if model {
			c.cases.Write(verifh.Case{In: line, Impl: fa + " | " + da})
		}

		switch op.kind {
		case "write", "delete", "grant", "revoke", "setuser", "deluser":
			mutations++
		case "reopen":
			if mutations >= 3 {
				reopened = true
			}
		case "read", "list", "has", "perms":
			if reopened {
				nontrivial = true
			}
		}

		cls, what := "", ""

		switch {
		case fx != "":
			cls, what = fc, fx
		case dx != "":
			cls, what = dc, dx
		case fa != da:
			cls, what = "stores-disagree", "the file-backed and the database-backed user store answer differently to `"+op.kind+"`"
			if op.kind == "list" && op.mask {
				cls = "list-mask"
			}
		}

		if cls != "" {
			if class != "" {
				cls = class
			} else if keyed && (cls == "persistence" || reopened || op.kind == "reopen") {
				cls = "userdata-key-reopen"
			} else if dfltAbsentReopen {
				cls = "reopen-default-user"
			}

			c.fails.Write(verifh.Failure{Class: cls, What: what, Input: strings.Join(hist, "\n"), Got: "file: " + fa, Want: "db:   " + da})
			c.stats.Inc("fail_" + cls)

			break
		}
	}

	c.stats.Inc("epochs")

	if nontrivial {
		h := sha256.Sum256([]byte(strings.Join(hist, "\n")))
		if !c.distinct[h] {
			c.distinct[h] = true
			c.stats.Inc("distinct_nontrivial")

			if len(hist) > 12 {
				hist = hist[:12]
			}

			c.stats.Sample(hist)
		}
	}
}

func c31U(name, pw string, perms []string) defs.User {
	return defs.User{Name: name, ID: c31IDPool[1], Password: pw, Permissions: perms}
}

// fixed corpus: the nasty histories run first.
func c31Corpus() [][]c31Op {
	ro := c31Op{kind: "reopen", name: c31Dflt}
	w := func(u defs.User) c31Op { return c31Op{kind: "write", user: u} }
	rd := func(n string) c31Op { return c31Op{kind: "read", name: n} }
	pw := "secret"

	return [][]c31Op{
		// masked listing
		{w(c31U("bob", "h", []string{"a"})), {kind: "list", mask: true}, {kind: "list"}},
		// empty vs nil permission list across a reopen, then setPermission
		{w(c31U("sp", "h", []string{})), w(c31U("np", "h", nil)), ro, {kind: "grant", name: "sp", perm: "Foo"}, {kind: "grant", name: "np", perm: "Foo"},
			{kind: "perms", name: "sp"}, {kind: "perms", name: "np"}, ro, {kind: "list"}},
		// case variants are distinct users; permission names fold
		{w(c31U("bob", "h1", []string{"A", "a", "B"})), w(c31U("Bob", "h2", nil)), {kind: "revoke", name: "bob", perm: "a"}, {kind: "has", name: "bob", perm: "A"},
			{kind: "has", name: "BOB", perm: "a"}, {kind: "delete", name: "BOB"}, {kind: "delete", name: "Bob"}, rd("bob"), rd("Bob"), ro, {kind: "list"}},
		// update keeps / replaces, delete then re-create, evictions
		{w(c31U("u", "h1", []string{"x"})), rd("u"), w(c31U("u", "h2", []string{"y"})), {kind: "evict", name: "u"}, rd("u"), {kind: "delete", name: "u"}, rd("u"),
			w(c31U("u", "h3", nil)), {kind: "flush"}, ro, rd("u"), {kind: "evict", name: "u"}, {kind: "delete", name: "u"}, ro, rd("u"), {kind: "list"}},
		// SetUser: lower-cased name, keep vs replace password and permissions
		{{kind: "setuser", name: "Carol", pw: &pw, hasPrm: true, perms: []string{"logon", ".", "X"}, seq: 1001}, rd("carol"), rd("Carol"),
			{kind: "setuser", name: "CAROL", hasPrm: true, perms: []string{}, seq: 1002}, rd("carol"),
			{kind: "setuser", name: "carol", hasPrm: true, perms: []string{"y"}, seq: 1003}, rd("carol"), ro, rd("carol"),
			{kind: "deluser", name: "CaRoL"}, {kind: "deluser", name: "carol"}, rd("carol"), {kind: "list"}},
		// everything deleted, then reopen: both stores re-create the default user
		{w(c31U("z", "h", nil)), {kind: "delete", name: "z"}, {kind: "delete", name: c31Dflt}, {kind: "list"}, ro, {kind: "list"}, ro, {kind: "list"}},
		// quoting and odd names
		{w(c31U("O'Brien", `p"q\`, []string{`"q"`, "<x>&", ""})), w(c31U("", "", []string{""})), w(c31U("a\x00b", "\x00", nil)), w(c31U("// comment", "# x", []string{"//"})),
			w(c31U("line\nbreak", "a\nb", []string{"#\n#"})), ro, {kind: "list"}, rd(""), rd("a\x00b"), rd("a"), {kind: "grant", name: "", perm: ""}, {kind: "revoke", name: "", perm: ""}, ro, {kind: "list"}},
	}
}

func TestVerifC31(t *testing.T) {
	c := &c31Run{t: t, cases: verifh.Out("c31_cases.jsonl"), fails: verifh.Out("c31_failures.jsonl"), stats: verifh.NewStats(), distinct: map[[32]byte]bool{}}

	defer c.cases.Close()
	defer c.fails.Close()
	defer c.stats.Save("c31_stats.json")

	_ = os.Setenv("EGO_QUIET", "1")

	r := verifh.Rand(31)

	for _, h := range c31Corpus() {
		c.epoch(r, 0, h, false, false, true, "")
	}

	// the default user deleted before a reopen: the two stores follow different policies (known finding)
	ro := c31Op{kind: "reopen", name: c31Dflt}
	c.epoch(r, 0, []c31Op{{kind: "write", user: c31U("bob", "h", nil)}, {kind: "delete", name: c31Dflt}, ro, {kind: "read", name: c31Dflt}, {kind: "list"}}, false, true, true, "")

	// names that are not valid UTF-8 (oracle only: the model's strings are Unicode)
	bad := []c31Op{{kind: "write", user: c31U("bad\xff", "h", nil)}, {kind: "write", user: c31U("bad\xfe", "h", []string{"p\xff"})}, {kind: "list"}, ro,
		{kind: "read", name: "bad\xff"}, {kind: "list"}}
	c.epoch(r, 0, bad, false, false, false, "invalid-utf8")

	// the file store with ego.logon.userdata.key set (encrypted file)
	kg := &c31Gen{r: r, names: []string{"bob", "Bob", "日本", ""}}
	keyed := []c31Op{{kind: "write", user: kg.user()}, {kind: "write", user: kg.user()}, {kind: "write", user: kg.user()}, ro, {kind: "list"},
		{kind: "read", name: "bob"}, {kind: "write", user: kg.user()}, {kind: "delete", name: kg.name()}, ro, {kind: "list", mask: true}, {kind: "read", name: "Bob"}}
	c.epoch(r, 0, keyed, true, false, true, "")

	// every epoch costs two bcrypt runs (the default user of each store), so: few, long histories
	n := verifh.N(8, 70)
	for e := 0; e < n; e++ {
		c.epoch(r, 60+r.Intn(verifh.N(120, 240)), nil, false, e%7 == 3, true, "")
	}

	if os.Getenv("VERIF_C31_TIMES") != "" {
		for k, v := range c31Time {
			fmt.Println("time", k, v)
		}
	}
}
