//go:build verif

package auth

import (
	"os"
	"path/filepath"
	"testing"

	"github.com/google/uuid"
	"github.com/tucats/ego/internal/defs"
	"github.com/tucats/ego/internal/verifh"
)

func (e *c25Env) reset(st *c25Store) {
	AuthService = st.svc

	for k := range st.svc.ListUsers(true) {
		_ = st.svc.DeleteUser(0, k)
	}

	if n := len(st.svc.ListUsers(true)); n != 0 {
		e.t.Fatalf("store %s not empty after reset (%d)", st.kind, n)
	}
}

func (e *c25Env) install(st *c25Store, list []*c25User) map[string]*c25User {
	users := map[string]*c25User{}

	for _, u := range list {
		users[u.key] = u

		if err := st.svc.WriteUser(0, defs.User{Name: u.key, ID: uuid.New(), Password: u.cred, Permissions: u.perms}); err != nil {
			e.t.Fatalf("WriteUser(%q) on %s: %v", u.key, st.kind, err)
		}
	}

	_ = st.svc.Flush()

	return users
}

type c25Pending struct{ user, pass, desc string }

// try runs one attempt under the cost-12 budget; it returns false when the attempt was skipped.
func (e *c25Env) try(st *c25Store, users map[string]*c25User, p c25Pending) (rec *c25User, upgradedNow, ran bool) {
	rec, _, _, _, _, willUpgrade := e.expect(users, p.user, p.pass)
	cost := 0

	if rec != nil && rec.upgraded {
		cost = 2
	}

	if willUpgrade {
		cost = 2
	}

	if willUpgrade && e.c12left < 7 {
		cost = 7 // do not start an upgrade whose follow-up attempts could not be afforded
	}

	if cost > 0 && e.c12left < cost {
		e.stats.Inc("skipped_cost12_budget")

		return rec, false, false
	}

	was := rec != nil && rec.upgraded

	if cost > 0 {
		e.c12left-- // the implementation's own cost-12 operation (the harness's are counted where they happen)
	}

	e.attempt(st, users, p.user, p.pass, p.desc)

	return rec, rec != nil && rec.upgraded && !was, true
}

func (e *c25Env) followUps(rec *c25User) []c25Pending {
	q := []c25Pending{{c25Spelling(e.r, rec.key), rec.t, "after-upgrade right"}}
	c := c25Candidates(e.r, rec, nil)
	q = append(q, c25Pending{rec.key, c[e.r.Intn(len(c))], "after-upgrade variant"})

	if e.r.Intn(2) == 0 {
		q = append(q, c25Pending{rec.key, rec.t + "\x00" + rec.t, "after-upgrade key-equivalent"})
	}

	return q
}

func (e *c25Env) persisted(st *c25Store, users map[string]*c25User) {
	if st.reopen == nil {
		return
	}

	svc2, err := st.reopen()
	if err != nil {
		e.t.Fatalf("reopen %s: %v", st.kind, err)
	}

	now := map[string]c25Snap{}
	for _, s := range c25Snapshot(st.svc) {
		now[s.key] = s
	}

	disk := map[string]c25Snap{}
	for _, s := range c25Snapshot(svc2) {
		disk[s.key] = s
	}

	for k, u := range users {
		d, ok := disk[k]
		if !ok {
			e.fail("not-persisted", "a user is missing from the reopened store", st.kind+" "+verifh.Hex(k), "absent", "present")

			continue
		}

		if u.upgraded && !c25SameSnap(d, now[k]) {
			e.fail("not-persisted", "the upgraded credential in the reopened store differs from the live one", st.kind+" "+verifh.Hex(k),
				d.password, now[k].password)
		}
	}

	e.stats.Inc("reopen_checks")

	if st.kind == "sqlite" {
		_ = svc2.Close()
	}
}

func (e *c25Env) scenario(st *c25Store) {
	r := e.r
	e.reset(st)

	names := append([]string{}, c25Names...)
	r.Shuffle(len(names), func(i, j int) { names[i], names[j] = names[j], names[i] })

	n := 1 + r.Intn(5)
	list := []*c25User{}

	for i := 0; i < n; i++ {
		format := []string{"bcrypt", "bcrypt", "bcrypt", "sha", "sha", "sha", "plain", "plain", "plain", "junk"}[r.Intn(10)]
		list = append(list, c25MakeUser(r, names[i], format))
	}

	if r.Intn(6) == 0 { // a record stored under a mixed-case key can never be looked up
		list = append(list, c25MakeUser(r, []string{"Mallory", "ROOT", "aDMIN2"}[r.Intn(3)], "sha"))
	}

	users := e.install(st, list)
	e.setPlain(r.Intn(2) == 0)

	queue := []c25Pending{}
	nAtt := 6 + r.Intn(8)

	for a := 0; a < nAtt || len(queue) > 0; a++ {
		var p c25Pending

		if len(queue) > 0 {
			p, queue = queue[0], queue[1:]
		} else {
			if r.Intn(10) == 0 {
				e.setPlain(!e.plainOn)
			}

			u := list[r.Intn(len(list))]
			p.user = c25Spelling(r, u.key)

			switch k := r.Intn(20); {
			case k == 0:
				p.user = []string{"nobody", "", "alicex", " "}[r.Intn(4)]
				p.pass, p.desc = u.t, "unknown user"
			case k < 10 && u.t != "":
				p.pass, p.desc = u.t, "true password"
			default:
				c := c25Candidates(r, u, list)
				p.pass, p.desc = c[r.Intn(len(c))], "variant"
			}
		}

		rec, upgradedNow, _ := e.try(st, users, p)
		if upgradedNow {
			queue = append(queue, e.followUps(rec)...)

			if rec.format == "plain" && r.Intn(2) == 0 {
				e.setPlain(false) // the upgraded credential no longer depends on the plaintext setting
			}
		}
	}

	if r.Intn(3) == 0 {
		e.persisted(st, users)
	}
}

func TestVerifC25(t *testing.T) {
	saved := AuthService
	defer func() { AuthService = saved }()

	dir, err := os.MkdirTemp("/dev/shm", "verif-c25-")
	if err != nil {
		dir = t.TempDir()
	} else {
		defer os.RemoveAll(dir)
	}

	e := &c25Env{t: t, r: verifh.Rand(25), cases: verifh.Out("c25_cases.jsonl"), fails: verifh.Out("c25_failures.jsonl"),
		stats: verifh.NewStats(), seenNT: map[string]bool{}, shaSeen: map[string]string{}}
	defer e.cases.Close()
	defer e.fails.Close()

	e.probes()

	jsonPath := filepath.Join(dir, "users.json")
	dbURL := "sqlite3://" + filepath.Join(dir, "users.db")

	mem, err := NewFileService("memory", defs.DefaultAdminUsername, defs.DefaultAdminPassword)
	if err != nil {
		t.Fatal(err)
	}

	file, err := NewFileService(jsonPath, defs.DefaultAdminUsername, defs.DefaultAdminPassword)
	if err != nil {
		t.Fatal(err)
	}

	db, err := NewDatabaseService(dbURL, "", "")
	if err != nil {
		t.Fatal(err)
	}

	stores := []*c25Store{
		{kind: "memory", svc: mem},
		{kind: "file", svc: file, reopen: func() (userIOService, error) { return NewFileService(jsonPath, "", "") }},
		{kind: "sqlite", svc: db, reopen: func() (userIOService, error) { return NewDatabaseService(dbURL, "", "") }},
	}

	// fixed corpus first (all stores in the thorough tier, one store chosen by the seed in the quick tier)
	e.c12left = 60
	for i, st := range stores {
		if verifh.Thorough() || int(verifh.Seed()%3+3)%3 == i {
			e.corpus(st)
		}
	}

	// delimiter corpus: every format x passwords made of the formats' own delimiters x stripped/added candidates
	e.delim(stores)

	nScen := verifh.N(150, 1200)

	// cost-12 bcrypt operations are rationed evenly over the run (token bucket), so upgrades happen on every store
	budget := verifh.N(80, 500)
	if os.Getenv("VERIF_CASES") != "" {
		budget = 8 + nScen/2
	}

	e.c12left = 8

	for sc := 0; sc < nScen; sc++ {
		if (sc+1)*budget/nScen > sc*budget/nScen {
			e.c12left += (sc+1)*budget/nScen - sc*budget/nScen
		}

		e.scenario(stores[sc%len(stores)])
	}

	_ = db.Close()

	e.stats.Add("attempts", e.attempts)
	e.stats.Add("failures", e.nfail)
	e.stats.Add("cost12_budget_left", e.c12left)
	e.stats.Save("c25_stats.json")

	if e.nfail > 0 {
		t.Logf("C25: %d oracle failures (see c25_failures.jsonl)", e.nfail)
	}
}
