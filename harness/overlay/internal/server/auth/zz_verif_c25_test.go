//go:build verif

package auth

// C25 correspondence harness and direct oracle for ValidatePassword.
//
// Scenarios: a user store (in-memory file service, on-disk JSON file service, SQLite database service — set up
// the way the repo's own tests do) is populated with 1..5 users whose credentials are stored in each format
// (bcrypt $2a$/$2b$/$2y$ generated at MinCost, bare SHA-256 hex, {quoted} plaintext, junk), then a history of
// login attempts runs with the plaintext setting on/off (and flipping).  For every attempt
//   * the REAL ValidatePassword is called; the store is snapshotted before and after;
//   * a protocol line carrying the store snapshot and the outputs of the real primitives (crypto/sha256,
//     x/crypto/bcrypt, strings.ToLower — none of ego's code) goes to the Lean model (correspondence);
//   * the direct oracle is the harness's own record of each user's true password / format / permissions:
//     accept iff candidate == true password (byte for byte) etc.; the store may change only by the documented
//     upgrade of that user's credential to a bcrypt hash that verifies the TRUE password at cost 12.
// The hypotheses the proofs make about bcrypt/SHA-256 are probed on the real library (c25_probes.jsonl);
// candidates that differ from the true password but share its effective bcrypt key (72-byte truncation, NUL
// key cycling) are counted as limits of the trusted base, not judged by the oracle.

import (
	"crypto/sha256"
	"encoding/hex"
	"math/rand"
	"strings"
	"unicode"

	"golang.org/x/crypto/bcrypt"
)

type c25User struct {
	key      string // name the record is stored under
	format   string // bcrypt | sha | plain | junk
	t        string // true password ("" for junk: nothing may be accepted)
	cred     string // stored credential at provisioning time
	perms    []string
	grants   bool // harness's own label: a logon/root permission was given
	upgraded bool // harness expectation: the credential has been upgraded to bcrypt
}

type c25Snap struct {
	key, name, id, password string
	perms                   []string
}

func c25Sha(s string) string {
	h := sha256.Sum256([]byte(s))

	return hex.EncodeToString(h[:])
}

// c25Key is the effective Blowfish key of a bcrypt password: the first 72 bytes of the cyclic repetition of
// password+NUL.  Two passwords with the same key are indistinguishable to bcrypt (validated by the probes).
func c25Key(p string) string {
	k := []byte(p + "\x00")
	out := make([]byte, 72)

	for i := range out {
		out[i] = k[i%len(k)]
	}

	return string(out)
}

func c25Letters(r *rand.Rand, n int) string {
	const al = "abcdefghijklmnopqrstuvwxyzABCDEFGHIJKLMNOPQRSTUVWXYZ0123456789!@# _-"

	b := make([]byte, n)
	for i := range b {
		b[i] = al[r.Intn(len(al))]
	}

	return string(b)
}

var c25FixedPw = []string{
	"secret", "Pa55word!", "x", " lead", "trail ", "in side", "p\u00e4ssw\u00f6rd", "\u5bc6\u7801", "\u00e9clair", "e\u0301clair", "MiXeD",
	"ab\x00cd", "ab\x00ab", "\xff\xfeZ", "{braced}", "}", "{", "$2a$04$abcdefghijklmnopqrstuu", "PASSWORD", "password",
	"\u212a", "tab\there", "new\nline", "quote'\"", "0",
	"s3cret}", "{s3cret", "{{x}}", "}x{", "{}", "}}", "in{si}de", "$2y$", "{$2a$04$abc}",
}

// c25Password draws a true password; maxLen 72 for the bcrypt format (GenerateFromPassword refuses longer).
func c25Password(r *rand.Rand, maxLen int) string {
	for {
		var p string

		switch r.Intn(10) {
		case 0, 1, 2:
			p = c25FixedPw[r.Intn(len(c25FixedPw))]
		case 3:
			p = c25Letters(r, []int{70, 71, 72, 73, 74, 100, 144}[r.Intn(7)])
		case 4:
			p = c25Sha(c25Letters(r, 4)) // a password that looks like a stored SHA-256 value
		case 5:
			p = c25Letters(r, 1+r.Intn(3)) + "\x00" + c25Letters(r, 1+r.Intn(3))
		case 6:
			p = []string{" ", "\t", "  ", "\n"}[r.Intn(4)] + c25Letters(r, 1+r.Intn(8)) + []string{" ", "", "\t", "\r\n"}[r.Intn(4)]
		default:
			p = c25Letters(r, 1+r.Intn(20))
		}

		if p != "" && len(p) <= maxLen {
			return p
		}
	}
}

func c25SwapCase(s string) string {
	return strings.Map(func(c rune) rune {
		if unicode.IsUpper(c) {
			return unicode.ToLower(c)
		}

		return unicode.ToUpper(c)
	}, s)
}

// c25Candidates lists hostile variants of the true password t (none equal to t unless noted by the caller).
func c25Candidates(r *rand.Rand, u *c25User, others []*c25User) []string {
	t := u.t
	c := []string{"", strings.ToUpper(t), strings.ToLower(t), c25SwapCase(t), t + " ", " " + t, t + t, t + "\x00",
		t + "\x00" + t, t + "x", u.cred, c25Sha(t), "{" + t + "}", strings.TrimSpace(t), c25Letters(r, 1+r.Intn(12)),
		strings.ToUpper(c25Sha(t)), "\x00" + t, t + "\x00\x00",
		strings.Trim(t, "{}"), strings.Trim(u.cred, "{}"), "{" + t, t + "}", strings.TrimPrefix(t, "{"), strings.TrimSuffix(t, "}")}

	if len(t) > 0 {
		c = append(c, t[:len(t)-1], t[1:], t+t[len(t)-1:])
	}

	if len(t) > 72 {
		c = append(c, t[:72], t[:71])
	}

	if len(t) >= 70 {
		c = append(c, t+c25Letters(r, 1+r.Intn(3)), t[:len(t)-1]+"\x00")
	}

	if len(u.cred) >= 2 {
		c = append(c, u.cred[1:len(u.cred)-1])
	}

	for _, o := range others {
		if o != u {
			c = append(c, o.t, o.cred)
		}
	}

	if i := strings.IndexByte(t, 0); i >= 0 {
		c = append(c, t[:i], t[i+1:], strings.ReplaceAll(t, "\x00", ""))
	}

	switch t {
	case "\u00e9clair":
		c = append(c, "e\u0301clair")
	case "e\u0301clair":
		c = append(c, "\u00e9clair")
	case "\u212a":
		c = append(c, "K", "k")
	}

	return c
}

var c25Names = []string{"alice", "bob", "carol.k", "x", "o'brien", "user name", "ünï", "名前", "a\"b", "sam;drop--", "%", "null",
	"admin", "k9", "_", "a b c", "straße", "i"}

type c25Perm struct {
	p      string
	grants bool
}

var c25Perms = []c25Perm{
	{"ego.logon", true}, {"ego.root", true}, {"EGO.LOGON", true}, {"Ego.Root", true}, {"eGo.LoGoN", true},
	{"ego.logon ", false}, {" ego.root", false}, {"ego.logo", false}, {"ego.roott", false}, {"logon", false},
	{"root", false}, {"ego.admin", false}, {"ego.table.read", false}, {"", false}, {"ego_root", false},
	{"ego.logon\x00", false}, {"EGO.LOGON.", false}, {"ego.server.admin", false}, {"ego.code", false},
}

func c25GenPerms(r *rand.Rand) ([]string, bool) {
	var (
		out    = []string{}
		grants bool
	)

	n := r.Intn(4)
	if n == 0 && r.Intn(2) == 0 {
		n = 1
	}

	for i := 0; i < n; i++ {
		var p c25Perm
		if r.Intn(2) == 0 {
			p = c25Perms[r.Intn(5)]
		} else {
			p = c25Perms[r.Intn(len(c25Perms))]
		}

		out = append(out, p.p)
		grants = grants || p.grants
	}

	return out, grants
}

var c25Junk = []string{"", "{", "}", "{}", "$2a$junk", "$2a$", "$2b$04$short", "plainbare", "$2x$04$abcdefghijklmnopqrstuuabcdefghijklmnopqrstuvwxyz01234",
	"$1$abc", "{unterminated", "unopened}", "e3b0c44298fc1c149afbf4c8996fb92427ae41e4649b934ca495991b7852b855", "$2", "deadbeef"}

// c25MakeUser provisions a credential for a fresh true password in the requested format.
func c25MakeUser(r *rand.Rand, key, format string) *c25User {
	u := &c25User{key: key, format: format}
	u.perms, u.grants = c25GenPerms(r)

	switch format {
	case "bcrypt":
		u.t = c25Password(r, 72)
		h, err := bcrypt.GenerateFromPassword([]byte(u.t), bcrypt.MinCost)

		if err != nil {
			panic(err)
		}

		// the three prefixes ego recognises; the library accepts any minor version letter
		u.cred = []string{"$2a$", "$2b$", "$2y$"}[r.Intn(3)] + string(h[4:])
	case "sha":
		u.t = c25Password(r, 200)
		u.cred = c25Sha(u.t)
	case "plain":
		u.t = c25Password(r, 200)
		u.cred = "{" + u.t + "}"
	default:
		switch r.Intn(4) {
		case 0:
			u.cred = strings.ToUpper(c25Sha(c25Letters(r, 5))) // upper-case hex is not a supported format
		case 1:
			u.cred = c25Letters(r, 1+r.Intn(8)) // bare plaintext without braces
		default:
			u.cred = c25Junk[r.Intn(len(c25Junk))]
		}
	}

	return u
}

func c25Spelling(r *rand.Rand, name string) string {
	switch r.Intn(8) {
	case 0:
		return strings.ToUpper(name)
	case 1:
		return strings.Title(name) //nolint
	case 2:
		b := []rune(name)
		for i := range b {
			if r.Intn(2) == 0 {
				b[i] = unicode.ToUpper(b[i])
			}
		}

		return string(b)
	case 3:
		return name + []string{" ", "x", "\x00", "."}[r.Intn(4)]
	default:
		return name
	}
}
