//go:build verif

package auth

import (
	"strings"

	"golang.org/x/crypto/bcrypt"
)

func c25Bcrypt(t, prefix string) string {
	h, err := bcrypt.GenerateFromPassword([]byte(t), bcrypt.MinCost)
	if err != nil {
		panic(err)
	}

	return prefix + string(h[4:])
}

// corpus is the fixed list of nasty cases that runs before the random scenarios.
func (e *c25Env) corpus(st *c25Store) {
	e.reset(st)

	long100 := strings.Repeat("Long-Password_", 8)[:100]
	long72 := strings.Repeat("0123456789abcdefgh", 4)
	list := []*c25User{
		{key: "alice", format: "sha", t: "Secret1", cred: c25Sha("Secret1"), perms: []string{"ego.logon"}, grants: true},
		{key: "bob", format: "plain", t: "Secret1", cred: "{Secret1}", perms: []string{"tables", "Ego.Root"}, grants: true},
		{key: "carol", format: "sha", t: " zork ", cred: c25Sha(" zork "), perms: []string{"employees", "ego.logonx"}, grants: false},
		{key: "dave", format: "bcrypt", t: "quidditch", cred: c25Bcrypt("quidditch", "$2y$"), perms: []string{"EGO.LOGON"}, grants: true},
		{key: "erin", format: "junk", cred: "{}", perms: []string{"ego.root"}, grants: true},
		{key: "frank", format: "sha", t: long100, cred: c25Sha(long100), perms: []string{"ego.logon"}, grants: true},
		{key: "gina", format: "bcrypt", t: long72, cred: c25Bcrypt(long72, "$2b$"), perms: []string{"ego.root"}, grants: true},
		{key: "heidi", format: "plain", t: "p}{q", cred: "{p}{q}", perms: []string{}, grants: false},
		{key: "ivan", format: "junk", cred: strings.ToUpper(c25Sha("ivan")), perms: []string{"ego.logon"}, grants: true},
		{key: "judy", format: "bcrypt", t: "nul\x00in", cred: c25Bcrypt("nul\x00in", "$2a$"), perms: []string{"ego.logon"}, grants: true},
		{key: "Mallory", format: "sha", t: "m", cred: c25Sha("m"), perms: []string{"ego.root"}, grants: true},
		{key: "nopw", format: "junk", cred: "", perms: []string{"ego.root"}, grants: true},
		{key: "kate", format: "junk", cred: "{unterminated", perms: []string{"ego.root"}, grants: true},
		{key: "leo", format: "junk", cred: "unopened}", perms: []string{"ego.root"}, grants: true},
		{key: "nina", format: "junk", cred: c25Sha(""), perms: []string{"ego.root"}, grants: true},
		{key: "x2", format: "junk", cred: "$2x$" + c25Bcrypt("x2pw", "$2a$")[4:], perms: []string{"ego.root"}, grants: true},
	}
	users := e.install(st, list)

	type step struct {
		plain      bool
		user, pass string
	}

	steps := []step{
		{false, "ALICE", "secret1"}, {false, "alice", c25Sha("Secret1")}, {false, "alice", ""}, {false, "", "Secret1"},
		{false, "Alice", "Secret1"}, // upgrade alice
		{false, "alice", "Secret1"}, {false, "alice", "Secret1\x00Secret1"}, {false, "alice", "secret1"}, {false, "alice", "Secret1 "},
		{false, "bob", "Secret1"}, {true, "bob", "{Secret1}"}, {true, "bob", "secret1"},
		{true, "BOB", "Secret1"}, // upgrade bob (plaintext on)
		{false, "bob", "Secret1"}, {false, "bob", "{Secret1}"},
		{false, "carol", "zork"},
		{false, "carol", " zork "}, // right password, no logon/root: rejected, but the credential is upgraded
		{false, "carol", " zork "},
		{false, "dave", "quidditch"}, {false, "dave", "Quidditch"}, {false, "DAVE", "quidditch"}, {false, "dave", users["dave"].cred},
		{true, "erin", "{}"}, {true, "erin", "x"}, {true, "erin", c25Sha("")},
		{false, "frank", long100}, {false, "frank", long100[:72]}, {false, "frank", long100 + "x"}, {false, "frank", long100},
		{false, "gina", long72}, {false, "gina", long72 + "x"}, {false, "gina", long72[:71]},
		{false, "heidi", "p}{q"}, {true, "heidi", "p}{q"}, {true, "heidi", "p"},
		{true, "ivan", "ivan"}, {false, "judy", "nul\x00in"}, {false, "judy", "nul"}, {false, "judy", "nul\x00in\x00nul\x00in"},
		{false, "Mallory", "m"}, {false, "mallory", "m"}, {false, "MALLORY", "m"},
		{true, "kate", "unterminate"}, {true, "kate", "unterminated"}, {true, "leo", "nopened"}, {true, "leo", "unopened"},
		{false, "nina", ""}, {true, "nina", c25Sha("")},
		{true, "nopw", "x"}, {true, "x2", "x2pw"}, {false, "nobody", "Secret1"}, {false, "alice ", "Secret1"},
	}

	for _, s := range steps {
		if s.plain != e.plainOn || e.attempts == 0 {
			e.setPlain(s.plain)
		}

		e.try(st, users, c25Pending{s.user, s.pass, "corpus"})
	}

	e.persisted(st, users)
}
