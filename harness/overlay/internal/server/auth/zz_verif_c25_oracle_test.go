//go:build verif

package auth

import (
	"fmt"
	"strings"

	"github.com/tucats/ego/internal/verifh"
	"golang.org/x/crypto/bcrypt"
)

// c25Legacy reports whether the record's CURRENT stored format is a legacy one (by the harness's own bookkeeping).
func (u *c25User) legacy() bool {
	return !u.upgraded && (u.format == "sha" || u.format == "plain")
}

func (u *c25User) isBcryptNow() bool { return u.upgraded || u.format == "bcrypt" }

// expectation derived ONLY from the harness's registry (true password, format, permission label, plaintext setting)
func (e *c25Env) expect(users map[string]*c25User, user, pass string) (rec *c25User, match, gate, want, tbLimit, willUpgrade bool) {
	if user == "" || pass == "" {
		return nil, false, false, false, false, false
	}

	rec = users[strings.ToLower(user)] // "the user exists (case-insensitively)": lookup under the lower-cased name
	if rec == nil {
		return nil, false, false, false, false, false
	}

	if rec.t != "" && pass != rec.t && rec.isBcryptNow() && c25Key(pass) == c25Key(rec.t) {
		return rec, false, false, false, true, false
	}

	match = rec.t != "" && rec.format != "junk" && pass == rec.t
	gate = rec.format != "plain" || rec.upgraded || e.plainOn
	want = match && gate && rec.grants
	willUpgrade = match && gate && rec.legacy() && len(pass) <= 72

	return rec, match, gate, want, false, willUpgrade
}

func (e *c25Env) oracle(st *c25Store, users map[string]*c25User, before, after []c25Snap, user, pass string,
	accepted bool, diff string, upgraded []string, desc string) {
	input := fmt.Sprintf("store=%s plaintext=%v user=%s pass=%s [%s]", st.kind, e.plainOn, verifh.Hex(user), verifh.Hex(pass), desc)
	rec, match, gate, want, tbLimit, willUpgrade := e.expect(users, user, pass)

	if rec != nil {
		input += fmt.Sprintf(" record{key=%s format=%s upgraded=%v true=%s grants=%v perms=%q cred=%s}", verifh.Hex(rec.key),
			rec.format, rec.upgraded, verifh.Hex(rec.t), rec.grants, rec.perms, verifh.Hex(rec.cred))

		k := rec.format + "|" + rec.cred + "|" + pass + "|" + fmt.Sprint(e.plainOn, rec.upgraded, rec.grants)
		if pass != "" && !e.seenNT[k] {
			e.seenNT[k] = true
			e.stats.Inc("distinct_nontrivial")
		}
	}

	if tbLimit {
		// bcrypt cannot tell this candidate from the true password: outside the proofs' hypothesis, reported, not judged
		e.stats.Inc("tb_limit_candidates")

		if accepted {
			e.stats.Inc("tb_limit_accepted")
		}

		if diff != "none" {
			e.fail("unexpected-store-write", "the store changed on a bcrypt-format login", input, diff, "none")
		}

		return
	}

	e.stats.Inc(fmt.Sprintf("want_%v", want))

	switch {
	case accepted && !want && (user == "" || pass == ""):
		e.fail("empty-accepted", "an empty user name or password authenticated", input, "accept", "reject")
	case accepted && !want && rec == nil:
		e.fail("unknown-user-accepted", "a user that does not exist authenticated", input, "accept", "reject")
	case accepted && !want && !match:
		e.fail("wrong-password-accepted", "a password different from the user's true password authenticated", input, "accept", "reject")
	case accepted && !want && !gate:
		e.fail("plaintext-disabled-accepted", "a {quoted} plaintext credential authenticated with plaintext disabled", input, "accept", "reject")
	case accepted && !want:
		e.fail("no-permission-accepted", "a user holding neither logon nor root authenticated", input, "accept", "reject")
	case !accepted && want && rec.upgraded:
		e.fail("rejected-after-upgrade", "the true password is rejected after the credential was upgraded to bcrypt", input, "reject", "accept")
	case !accepted && want:
		e.fail("right-password-rejected", "existing user, true password, logon/root held: rejected", input, "reject", "accept")
	}

	wantDiff := "none"
	if willUpgrade {
		wantDiff = verifh.Hex(rec.key) + ":bcrypt"
	}

	if diff != wantDiff {
		if diff == "none" {
			e.stats.Inc("upgrade_missing") // allowed by the property (retried next login); the model flags it
		} else {
			e.fail("unexpected-store-write", "a login changed the store other than by upgrading that user's legacy credential", input, diff, wantDiff)
		}
	}

	for _, k := range upgraded {
		if rec == nil || k != rec.key || !willUpgrade {
			continue
		}

		rec.upgraded = true
		e.stats.Inc("upgrades_" + rec.format)

		for _, s := range after {
			if s.key != k {
				continue
			}

			e.c12left--

			cost, _ := bcrypt.Cost([]byte(s.password))
			if cost != 12 || bcrypt.CompareHashAndPassword([]byte(s.password), []byte(rec.t)) != nil {
				e.fail("upgrade-wrong-hash", "the upgraded credential is not a cost-12 bcrypt hash of the user's true password",
					input, s.password, "bcrypt(true password), cost 12")
			}
		}
	}
}

// probes checks the hypotheses PrimsOK makes, on the real libraries, and records where they fail.
func (e *c25Env) probes() {
	w := verifh.Out("c25_probes.jsonl")
	defer w.Close()

	type probe struct {
		Probe string `json:"probe"`
		P     string `json:"p"`
		Q     string `json:"q"`
		Holds bool   `json:"hypothesis_holds"`
		Note  string `json:"note"`
	}

	long72 := c25Letters(e.r, 72)
	long71 := c25Letters(e.r, 71)
	short := c25Letters(e.r, 1+e.r.Intn(6))
	pairs := []struct{ name, p, q, note string }{
		{"bcrypt-72-truncation", long72, long72 + "x", "bytes after the 72nd are ignored by Blowfish key expansion"},
		{"bcrypt-72-truncation", long71, long71 + "\x00zz", "the key is password+NUL cut at 72 bytes"},
		{"bcrypt-nul-cycle", short, short + "\x00" + short, "the key password+NUL is repeated cyclically"},
		{"bcrypt-nul-cycle", "a", "a\x00a\x00a", "the key password+NUL is repeated cyclically"},
		{"bcrypt-trailing-nul", "ab", "ab\x00", ""},
		{"bcrypt-case", "Secret", "secret", ""},
		{"bcrypt-prefix", "Secret1", "Secret", ""},
		{"bcrypt-space", "Secret", "Secret ", ""},
		{"bcrypt-inner-nul", "ab\x00cd", "ab", "a C implementation would stop at the NUL; Go's does not"},
		{"bcrypt-inner-nul", "ab\x00cd", "ab\x00ce", ""},
	}

	for i := 0; i < 40; i++ {
		p, q := c25Password(e.r, 72), c25Password(e.r, 100)
		if p != q {
			pairs = append(pairs, struct{ name, p, q, note string }{"bcrypt-random-pair", p, q, ""})
		}
	}

	for _, pr := range pairs {
		h, err := bcrypt.GenerateFromPassword([]byte(pr.p), bcrypt.MinCost)
		if err != nil {
			continue
		}

		self := bcrypt.CompareHashAndPassword(h, []byte(pr.p)) == nil
		other := bcrypt.CompareHashAndPassword(h, []byte(pr.q)) == nil
		holds := self && !other

		if !holds {
			e.stats.Inc("probe_limit_" + pr.name)
		}

		e.stats.Inc("probes")

		if !holds || !strings.HasPrefix(pr.name, "bcrypt-random") {
			w.Write(probe{pr.name, verifh.Hex(pr.p), verifh.Hex(pr.q), holds, pr.note})
		}

		// the harness's exemption predicate must be exactly the library's collision relation
		if other != (c25Key(pr.p) == c25Key(pr.q)) || !self {
			e.fail("harness-keyeq", "the harness's effective-key predicate disagrees with x/crypto/bcrypt", verifh.Hex(pr.p)+" "+verifh.Hex(pr.q),
				fmt.Sprint(other), fmt.Sprint(c25Key(pr.p) == c25Key(pr.q)))
		}
	}

	_, err := bcrypt.GenerateFromPassword([]byte(long72+"x"), bcrypt.MinCost)
	w.Write(probe{"bcrypt-hash-refuses-73-bytes", verifh.Hex(long72 + "x"), "-", err != nil, "HashPassword fails, so such a password is never upgraded"})
}
