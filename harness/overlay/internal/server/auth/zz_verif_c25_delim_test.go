//go:build verif

package auth

// Delimiter corpus: stored credentials of EVERY format (bcrypt at several costs and prefixes, bare SHA-256 hex,
// {quoted} plaintext under both plaintext settings, junk) provisioned for passwords that contain the formats' own
// delimiter characters at the edges and inside ('{' '}' '$2a$' 64 hex digits), attacked with candidates that are
// the true password / the stored text with delimiters stripped or added.  The oracle is the ordinary one
// (e.oracle): accept iff the candidate IS the password the credential was created for - before the upgrade
// write-back, and after it (the stored credential after a login still accepts exactly that password).

import (
	"fmt"
	"strings"

	"github.com/tucats/ego/internal/verifh"
	"golang.org/x/crypto/bcrypt"
)

// c25DelimPw lists passwords built from the delimiters of the stored formats.
func c25DelimPw() []string {
	hex64 := c25Sha("hex-looking")
	bc := "$2a$04$N9qo8uLOickgx2ZMRZoMyeIjZAgcfl7p92ldGxad68LJZdL17lhWy" // a password shaped like a bcrypt hash (60 bytes)

	return []string{
		"s3cret}", "{s3cret", "{s3cret}", "{{x}}", "}x{", "{", "}", "{}", "}{", "in{si}de", "}}", "{{", "{a}}", "{{a}",
		"{ }", "} {", "{}{}", "a{", "}a", "{a", "a}",
		bc, "$2a$", "$2y$x", "{" + bc + "}", "$2b$04$" + strings.Repeat("{", 8), "{$2a$}", bc[4:], "$" + bc,
		hex64, "{" + hex64 + "}", strings.ToUpper(hex64), hex64[:63], hex64 + "}", "{" + hex64,
	}
}

func c25BcryptCost(t, prefix string, cost int) string {
	h, err := bcrypt.GenerateFromPassword([]byte(t), cost)
	if err != nil {
		panic(err)
	}

	return prefix + string(h[4:])
}

// c25DelimCandidates lists candidates derived from the true password t and the stored text by stripping / adding
// the delimiters of every format.  None of them equals t, so none may ever be accepted.
func c25DelimCandidates(u *c25User) []string {
	t, cr := u.t, u.cred
	both := func(s string) string { return strings.TrimSuffix(strings.TrimPrefix(s, "{"), "}") }
	noBrace := func(s string) string { return strings.ReplaceAll(strings.ReplaceAll(s, "{", ""), "}", "") }

	raw := []string{
		cr, c25Inner(cr), "{" + cr + "}", strings.Trim(cr, "{}"), both(cr), noBrace(cr), c25Sha(cr), c25Sha(c25Inner(cr)),
		"{}", "{", "}", c25Sha(""),
	}

	if t != "" {
		raw = append(raw,
			"{"+t+"}", "{"+t, t+"}", "}"+t, t+"{", "{{"+t+"}}", "{"+t+"}}", "{{"+t+"}",
			strings.Trim(t, "{}"), strings.TrimLeft(t, "{}"), strings.TrimRight(t, "{}"), strings.TrimLeft(t, "{"),
			strings.TrimRight(t, "}"), strings.TrimPrefix(t, "{"), strings.TrimSuffix(t, "}"), both(t), both(both(t)),
			c25Inner(t), t[1:], t[:len(t)-1], noBrace(t), strings.Trim(t, "{} "),
			c25Sha(t), "{"+c25Sha(t)+"}", c25Sha(both(t)), c25Sha(strings.Trim(t, "{}")), c25Sha("{"+t+"}"),
			strings.ToUpper(t), strings.ToLower(t))

		for _, p := range []string{"$2a$", "$2b$", "$2y$", "$"} {
			raw = append(raw, strings.TrimPrefix(t, p), p+t)
		}
	}

	seen := map[string]bool{t: true}
	out := []string{}

	for _, c := range raw {
		if !seen[c] {
			seen[c] = true
			out = append(out, c)
		}
	}

	return out
}

// delimUsers builds the registry: every delimiter password in every format; the junk records carry delimiter-only
// stored texts that are no credential at all.
func c25DelimUsers() []*c25User {
	permSets := []struct {
		p      []string
		grants bool
	}{{[]string{"ego.logon"}, true}, {[]string{"ego.root"}, true}, {[]string{"x", "EGO.Logon"}, true}, {[]string{"tables"}, false}}
	list := []*c25User{}
	add := func(format, t, cred string) {
		ps := permSets[len(list)%len(permSets)]
		list = append(list, &c25User{key: fmt.Sprintf("d%d", len(list)), format: format, t: t, cred: cred, perms: ps.p, grants: ps.grants})
	}

	for i, t := range c25DelimPw() {
		add("plain", t, "{"+t+"}")
		add("sha", t, c25Sha(t))
		add("bcrypt", t, c25BcryptCost(t, []string{"$2a$", "$2b$", "$2y$"}[i%3], []int{4, 5, 4, 6}[(i/3)%4]))
	}

	for _, j := range []string{"{}", "}{", "{{", "}}", "{", "}", "{$2a$", "$2a$}", "{" + c25Sha("j")} {
		add("junk", "", j)
	}

	return list
}

// delim runs the delimiter corpus, its groups of records dealt round-robin over the stores.  All wrong candidates
// run first, against the credential as provisioned (cheap: SHA-256 / low-cost bcrypt; {quoted} records under both
// plaintext settings); then the true password (one cost-12 upgrade per legacy record, rationed by e.c12left over the
// groups; the records that get their turn rotate with the seed); then the true password and stripped/added
// variants against the upgraded credential.
func (e *c25Env) delim(stores []*c25Store) {
	all := c25DelimUsers()
	rot := int(verifh.Seed()%int64(len(all))+int64(len(all))) % len(all)
	all = append(all[rot:], all[:rot]...)

	const group = 8 // small stores keep the protocol lines (one store snapshot per attempt) short

	nGroups := (len(all) + group - 1) / group
	budget := verifh.N(8, 300) // quick: two upgrades (6 cost-12 operations each, follow-ups included)
	e.c12left = 7
	e.bmLookedUpOnly = true

	defer func() { e.bmLookedUpOnly = false }()

	for g := 0; g < nGroups; g++ {
		e.c12left += (g+1)*budget/nGroups - g*budget/nGroups

		st := stores[(g+rot)%len(stores)]
		list := all[g*group : min((g+1)*group, len(all))]

		e.reset(st)
		users := e.install(st, list)
		failed := map[*c25User]bool{} // a record with an oracle failure is not attacked further (its state is unknown)
		run := func(u *c25User, pass, desc string) bool {
			if failed[u] {
				return false
			}

			nfail := e.nfail

			defer func() {
				if e.nfail > nfail {
					failed[u] = true
					e.stats.Inc("delim_records_failed")
				}
			}()

			name := u.key
			if e.r.Intn(3) == 0 {
				name = strings.ToUpper(name)
			}

			_, up, ran := e.try(st, users, c25Pending{name, pass, "delim " + desc})
			if ran {
				e.stats.Inc("delim_attempts")
			}

			if up {
				e.stats.Inc("delim_upgrades")
			}

			return up
		}

		for _, on := range []bool{true, false} {
			e.setPlain(on)

			for i, u := range list {
				if u.format != "plain" && on != ((i+g+rot)%2 == 0) {
					continue // the setting is irrelevant to the other formats: one pass, under alternating settings
				}

				c := c25DelimCandidates(u)
				if u.format == "bcrypt" && !verifh.Thorough() { // cost 5, 6 comparisons are milliseconds each
					e.r.Shuffle(len(c), func(i, j int) { c[i], c[j] = c[j], c[i] })
					c = c[:min(len(c), 6)]
				}

				for _, p := range c {
					run(u, p, "variant")
				}
			}
		}

		for _, u := range list {
			if u.t == "" {
				continue
			}

			if u.format == "plain" {
				e.setPlain(false)
				run(u, u.t, "true password, plaintext off") // refused, nothing written
				e.setPlain(true)
			} else if e.r.Intn(2) == 0 {
				e.setPlain(!e.plainOn)
			}

			run(u, u.t, "true password")

			if !u.upgraded {
				continue
			}

			// the upgraded credential no longer depends on the plaintext setting and accepts exactly the true password
			if e.r.Intn(2) == 0 {
				e.setPlain(!e.plainOn)
			}

			run(u, u.t, "after-upgrade right")

			c := c25DelimCandidates(u)
			for i, n := 0, verifh.N(1, 3); i < n && len(c) > 0; i++ {
				k := e.r.Intn(len(c))
				run(u, c[k], "after-upgrade variant")
				c = append(c[:k], c[k+1:]...)
			}
		}

		e.persisted(st, users)
	}
}
