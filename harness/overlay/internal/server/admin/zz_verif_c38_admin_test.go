//go:build verif

package admin

// C38 entry-point harness: the admin dashboard's ?lang= / ?language= value through the real
// resolveDashboardLanguage (ui.go; its result is injected as <html lang> and <meta name="ego-lang">, from
// where dashboard-core.js sends it back as Accept-Language on every API call). Replays the header sample
// the i18n harness exported against the reference answer computed there.
// Direct oracle: the injected language is the reference answer ("" = let the browser decide) - always a
// shipped language or "".

import (
	"bufio"
	"encoding/json"
	"fmt"
	"net/http"
	"net/url"
	"os"
	"path/filepath"
	"testing"

	"github.com/tucats/ego/internal/i18n"
	"github.com/tucats/ego/internal/verifh"
)

func TestVerifC38Admin(t *testing.T) {
	f, err := os.Open(filepath.Join(os.Getenv("VERIF_OUT"), "c38_headers.jsonl"))
	if err != nil {
		t.Fatalf("header sample of the i18n harness missing: %v", err)
	}
	defer f.Close()

	fails := verifh.Out("c38_failures_admin.jsonl")
	stats := verifh.NewStats()

	defer func() {
		fails.Close()
		stats.Save("c38_stats_admin.json")
	}()

	shipped := map[string]bool{}
	for _, l := range i18n.SupportedLanguages() {
		shipped[l] = true
	}

	sc := bufio.NewScanner(f)
	sc.Buffer(make([]byte, 1<<20), 1<<24)

	for sc.Scan() {
		var h struct {
			H, Want, Stream string
		}

		if err := json.Unmarshal(sc.Bytes(), &h); err != nil {
			t.Fatalf("c38_headers.jsonl: %v", err)
		}

		value := verifh.UnHex(h.H)

		for _, param := range []string{"lang", "language"} {
			raw := "/admin?" + url.Values{param: {value}, "x": {"1"}}.Encode()

			u, err := url.ParseRequestURI(raw)
			if err != nil {
				t.Fatalf("%q: %v", raw, err)
			}

			got := resolveDashboardLanguage(&http.Request{Method: http.MethodGet, URL: u, Header: http.Header{}})

			stats.Inc("admin_params")

			if got != h.Want || !(shipped[got] || got == "") {
				fails.Write(verifh.Failure{Class: "negotiate-dashboard-language", What: "the language injected into the dashboard page (html lang / ego-lang) is not the documented match of the ?" + param + "= value",
					Input: "request=" + raw + " " + param + "(hex)=" + h.H + " " + param + "=" + fmt.Sprintf("%q", value), Got: fmt.Sprintf("%q", got), Want: fmt.Sprintf("%q", h.Want)})
				stats.Inc("failures")
			}
		}
	}

	if stats.M["admin_params"] == 0 {
		t.Fatal("no values replayed")
	}
}
