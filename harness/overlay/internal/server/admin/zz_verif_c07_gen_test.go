//go:build verif

package admin

// Generators for the C07 search: a fixed corpus of nasty texts, the repository's own
// tests/ programs, token-level mutations of those, byte noise, line feeding, and a small
// grammar of programs whose statements aim at the partial operations of the VM
// (indexing, slicing, nil, conversions, calls, defer/recover, goroutine-free).

import (
	"fmt"
	"math/rand"
	"os"
	"path/filepath"
	"sort"
	"strings"
	"testing"
	"unicode"

	"github.com/tucats/ego/internal/verifh"
)

// c07Lex: a deliberately simple lexer (words, numbers, strings, runs of space, single
// punctuation) so that mutations act on tokens and the text can be re-joined exactly.
func c07Lex(s string) []string {
	var out []string

	rs := []rune(s)
	for i := 0; i < len(rs); {
		j := i + 1

		switch c := rs[i]; {
		case unicode.IsLetter(c) || c == '_':
			for j < len(rs) && (unicode.IsLetter(rs[j]) || unicode.IsDigit(rs[j]) || rs[j] == '_') {
				j++
			}
		case unicode.IsDigit(c):
			for j < len(rs) && (unicode.IsDigit(rs[j]) || rs[j] == '.' || rs[j] == 'x' || rs[j] == 'e') {
				j++
			}
		case unicode.IsSpace(c):
			for j < len(rs) && unicode.IsSpace(rs[j]) {
				j++
			}
		case c == '"' || c == '`':
			for j < len(rs) && rs[j] != c && rs[j] != '\n' {
				if rs[j] == '\\' && c == '"' {
					j++
				}

				j++
			}

			if j < len(rs) {
				j++
			}

			if j > len(rs) {
				j = len(rs)
			}
		}

		out = append(out, string(rs[i:j]))
		i = j
	}

	return out
}

var c07Pool = []string{
	"{", "}", "(", ")", "[", "]", ",", ";", ":=", "=", ".", "...", ":", "func", "return", "defer", "go", "try", "catch",
	"@", "&", "*", "!", "-", "-1", "0", "99999999999999999999", "1e999", "\"\"", "`x`", "nil", "[]int{", "map[string]", "struct{",
	"interface{}", "type", "var", "const", "for", "range", "if", "else", "switch", "case", "default", "break", "continue",
	"import", "package", "main", "<-", "chan", "make", "len", "append", "@test", "@assert", "@line", "@error", "@type", "@global",
	"@template", "@pass", "@fail", "@file", "@entrypoint", "@extensions", "@localization", "@symbols", "@packages", "@call", "@wait",
	"?", "|", "||", "&&", "<<", ">>", "++", "--", "+=", "->", "::", "#", "$", "\\", "'", "\"", "`", "\x00", "\xff", "\n", "\t",
	"int", "string", "float64", "bool", "byte", "any", "error", "true", "false", "print", "call", "exit", "panic", "recover()",
	"fmt.Println(", "strings.", "a[", "a[1:", "x.(", ".(type)", "[:]", "[-1]", "{}", "()", "[]", "func(){", "}()", "*&", "&&&",
}

func c07Join(toks []string) string { return strings.Join(toks, "") }

// c07MutateTokens applies 1..4 token-level edits.
func c07MutateTokens(r *rand.Rand, toks []string, other []string) string {
	t := append([]string(nil), toks...)
	if len(t) == 0 {
		t = []string{"x"}
	}

	// positions of non-space tokens
	pick := func() int {
		for k := 0; k < 8; k++ {
			i := r.Intn(len(t))
			if strings.TrimSpace(t[i]) != "" {
				return i
			}
		}

		return r.Intn(len(t))
	}

	n := 1 + r.Intn(4)
	for e := 0; e < n && len(t) > 0; e++ {
		i := pick()

		switch r.Intn(10) {
		case 0: // delete
			t = append(t[:i], t[i+1:]...)
		case 1: // duplicate
			t = append(t[:i+1], append([]string{t[i]}, t[i+1:]...)...)
		case 2: // swap with another
			j := pick()
			t[i], t[j] = t[j], t[i]
		case 3, 4: // replace with a pool token
			t[i] = c07Pool[r.Intn(len(c07Pool))]
		case 5: // insert a pool token
			t = append(t[:i+1], append([]string{" " + c07Pool[r.Intn(len(c07Pool))] + " "}, t[i+1:]...)...)
		case 6: // truncate (partially parsed statement at end of text)
			t = t[:i+1]
		case 7: // delete a run
			j := i + 1 + r.Intn(6)
			if j > len(t) {
				j = len(t)
			}

			t = append(t[:i], t[j:]...)
		case 8: // splice a run from another program
			if len(other) > 0 {
				a := r.Intn(len(other))
				b := a + 1 + r.Intn(12)

				if b > len(other) {
					b = len(other)
				}

				t = append(t[:i+1], append(append([]string(nil), other[a:b]...), t[i+1:]...)...)
			}
		case 9: // bracket run
			br := []string{"(", "[", "{", ")", "]", "}"}[r.Intn(6)]
			t[i] = strings.Repeat(br, 1+r.Intn(40))
		}
	}

	return c07Join(t)
}

func c07MutateBytes(r *rand.Rand, s string) string {
	b := []byte(s)
	noise := []byte{0, 0xff, 0xfe, 0x80, '\n', '\r', '"', '`', '\\', '\'', '{', '}', '(', ')', '[', ']', '@', '/', '*', ';', '.', ' ', 0xc3, 0xe2, 0xf0}

	n := 1 + r.Intn(6)
	for e := 0; e < n; e++ {
		if len(b) == 0 {
			b = append(b, noise[r.Intn(len(noise))])

			continue
		}

		i := r.Intn(len(b))

		switch r.Intn(4) {
		case 0:
			b[i] = noise[r.Intn(len(noise))]
		case 1:
			b = append(b[:i], append([]byte{noise[r.Intn(len(noise))]}, b[i:]...)...)
		case 2:
			b = append(b[:i], b[i+1:]...)
		case 3:
			b = b[:i]
		}
	}

	return string(b)
}

// c07NonTrivial: the stated rule for distinct_nontrivial — at least 4 tokens of which one
// is a bracket/brace and one is a word.
func c07NonTrivial(src string) bool {
	toks := c07Lex(src)
	n, br, w := 0, false, false

	for _, t := range toks {
		if strings.TrimSpace(t) == "" {
			continue
		}

		n++

		if strings.ContainsAny(t, "{}()[]") {
			br = true
		}

		if c := []rune(t)[0]; unicode.IsLetter(c) {
			w = true
		}
	}

	return n >= 4 && br && w
}

func c07Corpus(t *testing.T) (names []string, texts []string) {
	root := c07Root
	if st, err := os.Stat(root); err != nil || !st.IsDir() {
		t.Fatalf("tests/ corpus not found at %s", root)
	}

	_ = filepath.Walk(root, func(p string, info os.FileInfo, err error) error {
		if err == nil && !info.IsDir() && strings.HasSuffix(p, ".ego") && info.Size() < 20000 {
			names = append(names, p)
		}

		return nil
	})

	sort.Strings(names)

	for _, n := range names {
		b, _ := os.ReadFile(n)
		texts = append(texts, string(b))
	}

	return names, texts
}

var _ = fmt.Sprint
var _ = verifh.Hex
