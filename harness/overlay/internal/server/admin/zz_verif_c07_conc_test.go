//go:build verif

package admin

// Concurrent Ego programs for the C07 search: goroutines (`go`), channels and sync. A Go panic in
// a goroutine started by `go` is recovered by nobody (bytecode.GoRoutine) and kills the process, so
// what the native channel does to a sender or receiver that is PARKED when another goroutine
// closes the channel — or that loses the race between the IsOpen test and the native send — must
// come back as an Ego error. The programs below park senders on full channels and receivers on
// empty ones and close from elsewhere, close twice from two goroutines, close while a mutex is
// held, race unsynchronised sends with a close, and use closed and nil channels.
//
// Every generated program has a backstop goroutine that closes the channel after a few
// milliseconds: nothing stays parked, no case ends as an abandoned (unstoppable) goroutine.
// Programs whose goroutines may outlive the main flow are followed by a short settle pause
// (c07Settle) and are kept as candidates (c07Cur.Prev) should the process die a little later.

import (
	"fmt"
	"math/rand"
	"strings"
	"time"
)

const c07Settle = 25 * time.Millisecond

func c07Ms(n int) string { return fmt.Sprintf("time.Sleep(time.ParseDuration(\"%dms\"))", n) }

// c07Full: the main flow waits until the buffer of ch holds n values (the senders are then one
// statement away from parking) and a little longer — independent of how slowly the goroutines start
func c07Full(n int) string {
	return fmt.Sprintf("for len(ch) < %d { %s }; %s", n, c07Ms(1), c07Ms(6))
}

var c07Conc = []string{
	// a sender parked on a full channel while the main flow closes it
	"ch := make(chan, 1); go func() { ch <- 1; ch <- 2 }(); " + c07Full(1) + "; close(ch); " + c07Ms(8) + "; fmt.Println(\"alive\")",
	// the same with a named function, three values
	"ch := make(chan, 1)\nfunc snd(c chan) { c <- 1; c <- 2; c <- 3 }\ngo snd(ch)\n" + c07Full(1) + "\nclose(ch)\n" + c07Ms(8) + "\nfmt.Println(\"alive\")",
	// three parked senders, buffer of two
	"ch := make(chan, 2); for i := 0; i < 3; i++ { go func() { ch <- 1; ch <- 2; ch <- 3 }() }; " + c07Full(2) + "; close(ch); " + c07Ms(8),
	// the parked sender expects an Ego error it can catch
	"ch := make(chan, 1); go func() { try { ch <- 1; ch <- 2 } catch(e) { fmt.Println(\"caught\", e) } }(); " + c07Full(1) + "; close(ch); " + c07Ms(8),
	// a parked receiver while the main flow closes
	"ch := make(chan, 1); go func() { x := <-ch; fmt.Println(x) }(); " + c07Ms(6) + "; close(ch); " + c07Ms(6),
	"ch := make(chan, 1); go func() { v, ok := <-ch; fmt.Println(v, ok) }(); go func() { for v := range ch { fmt.Println(v) } }(); " + c07Ms(6) + "; close(ch); " + c07Ms(6),
	// the textbook pipeline
	"ch := make(chan, 1); go func() { for v := range ch { fmt.Println(v) } }(); ch <- 1; ch <- 2; close(ch); " + c07Ms(6),
	"func snd(c chan) { defer close(c); c <- 1; c <- 2; c <- 3 }\nch := make(chan, 1)\ngo snd(ch)\nfor v := range ch { fmt.Println(v) }",
	// close from two goroutines and the main flow
	"ch := make(chan, 1); go func() { close(ch) }(); go func() { close(ch) }(); " + c07Ms(5) + "; close(ch)",
	"ch := make(chan, 1); go func() { try { close(ch) } catch(e) {} }(); go func() { try { close(ch) } catch(e) {} }(); try { close(ch) } catch(e) {}; " + c07Ms(5),
	// the MAIN flow is parked (send, then receive) while a goroutine closes
	"ch := make(chan, 1); go func() { " + c07Ms(6) + "; close(ch) }(); ch <- 1; ch <- 2; ch <- 3",
	"ch := make(chan, 1); go func() { " + c07Ms(6) + "; close(ch) }(); x := <-ch; fmt.Println(x)",
	"ch := make(chan, 1); go func() { " + c07Ms(6) + "; close(ch) }(); try { for i := 0; i < 9; i++ { ch <- i } } catch(e) { fmt.Println(e) }",
	// parked while holding a mutex another goroutine wants
	"import \"sync\"; var mu sync.Mutex; ch := make(chan, 1); go func() { mu.Lock(); try { ch <- 1; ch <- 2 } catch(e) {}; mu.Unlock() }(); " + c07Full(1) + "; close(ch); mu.Lock(); mu.Unlock(); " + c07Ms(4),
	// unsynchronised: close races a stream of sends and a range
	"ch := make(chan, 2); go func() { for i := 0; i < 300; i++ { ch <- i } }(); go func() { for v := range ch { } }(); " + c07Ms(1) + "; close(ch); " + c07Ms(10),
	"ch := make(chan, 1); for k := 0; k < 4; k++ { go func() { for i := 0; i < 50; i++ { ch <- i } }() }; go func() { for v := range ch { } }(); close(ch); " + c07Ms(10),
	// closed and nil channels
	"ch := make(chan, 2); ch <- 1; close(ch); x := <-ch; v, ok := <-ch; fmt.Println(x, v, ok, len(ch)); ch <- 2",
	"ch := make(chan, 1); close(ch); close(ch)",
	"ch := make(chan, 1); close(ch); for v := range ch { fmt.Println(v) }; go func() { ch <- 1 }(); " + c07Ms(4),
	"var ch chan; n := len(ch); close(ch); x := <-ch; fmt.Println(n, x)",
	"var ch chan; go func() { close(ch) }(); go func() { x := <-ch }(); " + c07Ms(4),
	"ch := make(chan, 0); go func() { ch <- 1; ch <- 2 }(); " + c07Full(1) + "; close(ch); " + c07Ms(5),
	"ch := make(chan, -3); go func() { ch <- 1; ch <- 2 }(); " + c07Full(1) + "; close(ch); " + c07Ms(5),
	// goroutines still parked when the program ends, then @wait
	"ch := make(chan, 1); go func() { ch <- 1; ch <- 2 }(); " + c07Full(1) + "; close(ch); @wait",
}

// c07GenConc builds one concurrent program: a channel, a backstop closer, 1..4 goroutines
// (senders that overrun the buffer, receivers, closers; closures or named functions; bare or
// inside try/catch) and a main flow that sleeps, sends, receives, closes.
func c07GenConc(r *rand.Rand) string {
	var b strings.Builder

	pick := func(xs []string) string { return xs[r.Intn(len(xs))] }
	nap := func(max int) string { return c07Ms(r.Intn(max + 1)) }

	b.WriteString("import \"sync\"\nvar mu sync.Mutex\ntotal := 0\n")
	b.WriteString("ch := make(chan, " + pick([]string{"1", "1", "2", "3"}) + ")\n")
	b.WriteString("go func() { " + c07Ms(12+r.Intn(4)) + "; try { close(ch) } catch(e) {} }()\n")

	body := func(c string, closure bool) string {
		k := fmt.Sprint(2 + r.Intn(6))

		switch r.Intn(9) {
		case 0, 1:
			return "for i := 0; i < " + k + "; i++ { " + c + " <- i }"
		case 2:
			return c + " <- 1; " + c + " <- 2; " + c + " <- 3"
		case 3:
			return "try { for i := 0; i < " + k + "; i++ { " + c + " <- i } } catch(e) { }"
		case 4:
			if closure {
				return "for v := range " + c + " { mu.Lock(); total = total + v; mu.Unlock() }"
			}

			return "for v := range " + c + " { }"
		case 5:
			return "x := <-" + c + "; y := <-" + c
		case 6:
			return "for { v, ok := <-" + c + "; if !ok { break } }"
		case 7:
			return nap(8) + "; close(" + c + ")"
		}

		return "defer close(" + c + "); " + c + " <- 7; " + c + " <- 8"
	}

	for a, n := 0, 1+r.Intn(4); a < n; a++ {
		pre := ""
		if r.Intn(3) == 0 {
			pre = nap(5) + "; "
		}

		if r.Intn(3) == 0 {
			fmt.Fprintf(&b, "func w%d(c chan) { %s%s }\ngo w%d(ch)\n", a, pre, body("c", false), a)
		} else {
			b.WriteString("go func() { " + pre + body("ch", true) + " }()\n")
		}
	}

	for a, n := 0, 1+r.Intn(5); a < n; a++ {
		switch r.Intn(8) {
		case 0, 1, 2:
			b.WriteString(nap(7) + "\n")
		case 3:
			b.WriteString("close(ch)\n")
		case 4:
			b.WriteString("try { close(ch) } catch(e) { }\n")
		case 5:
			b.WriteString("ch <- " + fmt.Sprint(100+a) + "\n")
		case 6:
			b.WriteString(pick([]string{"x := <-ch", "v, ok := <-ch", "try { x := <-ch } catch(e) { }"}) + "\n")
		case 7:
			b.WriteString("n := len(ch)\n")
		}
	}

	b.WriteString(c07Ms(18) + "\nmu.Lock(); fmt.Println(total); mu.Unlock()\n")

	return b.String()
}
