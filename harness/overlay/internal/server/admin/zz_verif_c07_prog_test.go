//go:build verif

package admin

import (
	"fmt"
	"math/rand"
	"strings"
	"testing"

	"github.com/tucats/ego/internal/verifh"
)

// fixed corpus of nasty texts; runs first in every mode
var c07Nasty = []string{
	"package macros\nfunc Empty() string { return \"\" }\npackage main\nimport \"macros\"\nx := 1 + @Empty()", "import \"macros\"\nx := @Author(a b)", "import \"macros\"\nx := @Author(", "import \"macros\"\n@Author",
	"x := make([]string, 9223372036854775807)", "x := make([]byte, 9223372036854775807)", "x := make(chan int, 9223372036854775807)",
	"x := @Nope()", "x := 1 + @", "@Empty", "import \"macros\"\nx := @Author()",
	"", " ", "\n", ";", "}", "{", "(", ")", "]", "[", "@", "@test", "@test \"", "@assert", "@line", "@line 1", "@line -1 ; x",
	"func", "func(", "func main() {", "func main() { return", "func f(a ...", "func (x", "func (x *", "type", "type T", "type T struct {",
	"type T struct { a int", "type T interface {", "var", "var x", "var x =", "var x []", "const", "const (", "import", "import \"",
	"package", "package main\nfunc main() { main() }", "x :=", "x := [", "x := []int{", "x := []int{1,2,3}[", "x := []int{1,2,3}[5]",
	"x := []int{1,2,3}; x[-1] = 1", "x := []int{1,2,3}; y := x[2:1]", "x := []int{1,2,3}; y := x[:9]", "x := \"abc\"; y := x[5]", "x := \"abc\"[2:1]",
	"x := make([]int, -1)", "x := make([]byte, -1)", "x := make([]int, 1, 0)", "var a []int; a[0] = 1", "var m map[string]int; m[\"a\"] = 1",
	"var p *int; *p = 1", "var p *int; x := *p", "x := nil; x.y = 1", "x := nil; x()", "x := 1; x()", "x := 1; x.y", "x := 1; x[0]",
	"x := 1 / 0", "x := 1 % 0", "x := 1.0 / 0", "x := 1 << 99", "x := 1 << -1", "x := -9223372036854775808 / -1", "x := int(\"a\")",
	"x := any(1); y := x.(string)", "x := any(nil); y := x.(int)", "x.(type)", "switch x.(type) {", "switch {", "switch x { case", "for", "for {",
	"for i := range", "for i := range 5 {", "for i, v := range nil { }", "for ;; {", "if", "if x {", "if true { } else", "else", "case 1:", "default:",
	"break", "continue", "return", "return 1, 2", "defer", "defer func() {", "defer x", "go", "go func() {", "try", "try {", "try { } catch",
	"try { x := 1/0 } catch (e) { y := e.z }", "catch", "panic(", "panic(nil)", "panic(1)", "recover()", "defer recover()",
	"func f() { defer func() { recover() }(); panic(1) }; f()", "func f() int { defer func() { recover() }(); var a []int; return a[3] }; x := f()",
	"func f() (a, b int) { return }; x := f()", "func f() (int, int) { return 1 }; a, b := f()", "func f(a int) {}; f()", "func f() {}; f(1,2,3)",
	"func f(a ...int) {}; f([]int{1}...)", "func f(a ...int) {}; f(1, []int{1}...)", "x, y := 1", "x, y = 1, 2, 3", "_ = 1", "_ := 1", "1 = 2",
	"a.b.c.d = 1", "a[1][2][3] = 1", "*x = 1", "&1", "x := &[]int{1}[5]", "x := struct{}{}; x.a = 1", "type T struct{ a int }; x := T{b: 1}",
	"type T struct{ a int }; x := T{1,2,3}", "type T struct{ T }", "type T T", "type T []T; x := T{}", "type T map[T]T", "x := map[string]int{\"a\":}",
	"x := map[[]int]int{}", "x := []int{1,2,3}; delete(x, 7)", "x := []int{}; x = append(x[:0], x[1:]...)", "len()", "len(1,2)", "append()", "append(1)",
	"make()", "make(int)", "make([]int)", "make(chan int, -1)", "close(nil)", "var c chan int; close(c)", "c := make(chan int); close(c); close(c)",
	"fmt.Println(", "fmt.Printf(\"%d %s %v %[3]d %*d\", 1)", "fmt.Sprintf(\"%!\")", "fmt.Sscanf(\"\", \"%d\")", "strings.Repeat(\"a\", -1)",
	"strings.Index()", "strings.Split(nil)", "strings.Substring(\"abc\", 5, 2)", "strings.Left(\"abc\", -1)", "strings.Right(\"abc\", 99)",
	"strings.Format()", "strings.Template(", "strings.Chars(1)", "strings.Ints(\"a\")", "strings.Tokenize(", "strings.Truncate(\"abc\", -1)",
	"math.Sqrt(-1)", "math.Max()", "math.Factor(0)", "math.Primes(-1)", "math.Random(0)", "math.Random(-5)", "sort.Ints(nil)", "sort.Slice(1, 2)",
	"sort.Slice([]int{3,1}, func(i, j int) bool { return [] })", "sort.Slice([]int{3,1,2}, func(i, j int) bool { var a []int; return a[i] < 1 })",
	"json.Unmarshal(nil, nil)", "json.Marshal(func(){})", "json.UnmarshalString(\"{\", nil)", "json.Parse(\"[1,2\", \"[9]\")", "json.Parse(\"{}\", \"..[\")",
	"reflect.Type(nil)", "reflect.Members(1)", "reflect.DeepCopy(nil)", "time.Parse(\"\", \"\")", "time.Now().Format(1)", "time.Duration(\"x\")",
	"strconv.Itoa(\"a\")", "strconv.Atoi(1)", "strconv.FormatInt(1, 99)", "strconv.FormatInt(1, 1)", "strconv.Quote(1)", "os.Args[99]", "os.Exit",
	"errors.New()", "errors.New(nil).Error()", "var e error; e.Error()", "var e error; x := e.Is(e)", "uuid.Parse(\"x\")", "base64.Decode(\"!\")",
	"cipher.Decrypt(\"\", \"\")", "cipher.Hash(nil)", "filepath.Join()", "io.Open(\"/nonexistent\")", "tables.New()", "tables.New(\"a\").AddRow()",
	"t := tables.New(\"a\", \"b\"); t.AddRow(1); t.Sort(\"z\"); t.Print(\"x\")", "x := tables.New(\"a\"); x.Get(5, \"a\")", "exec.Command()",
	"profile.Get(1)", "i18n.T()", "runtime.Stack()", "util.Memory().x", "util.Symbols(", "util.Mode(1,2)", "sync.WaitGroup{}.Done()",
	"var wg sync.WaitGroup; wg.Done()", "var mu sync.Mutex; mu.Unlock()", "x := new(int); *x = \"a\"", "x := new(nil)", "x := []int{1}; x = x[1:][0:]",
	"x := [3]int{1,2,3,4}", "x := [...]int{1}", "x := [-1]int{}", "x := [1 << 62]int{}", "var x [9999999999]int", "x := 1; x++ ++", "x := \"a\"; x++", "x--",
	"x := []int{1,2,3}; for i := range x { x = x[:0]; y := x[i] }", "x := []any{}; x = append(x, x); fmt.Println(x)", 
	"type T struct{ p *T }; a := T{}; a.p = &a; fmt.Println(a)", "type T struct{ a int }; func (t T) String() string { return t.String() }",
	"func (t *T) m() {}", "func (t T) m() {}; T{}.m()", "func (T) m() {}", "func (t) m() {}", "func f() { f := 1; f() }; f()", "x := func() {}; x = nil; x()",
	"@global x 1", "@type strict; x := 1; x = \"a\"", "@type dynamic; x := 1; x = \"a\"; x.y", "@type foo", "@extensions false; print 1", "@entrypoint nope",
	"@template t \"{{.\"", "@error \"x\"", "@fail", "@fail \"x\"", "@pass", "@assert false", "@assert", "@test \"a\" { @assert 1 == 2 }", "@call x", "@wait",
	"@localization { \"en\": { \"a\": } }", "@symbols", "@packages", "@file \"x\" ; @line 0", "@handler", "@authenticated", "@json { }", "@text", "@status 999", "@response",
	"print", "print 1,", "print x[", "call", "call f", "exit", "exit \"a\"", "1 ? 2", "x := true ? 1 :", "x := 1 ? 2 : 3", "x := {", "x := { \"a\": 1, }", "x := [1, 2",
	"x := [1, \"a\", nil][7]", "x := {a: 1}.b", "x := -", "x := !", "x := - -", "x := !!!!!!!!!!!!!!!!!!!!!!!1", "x := 1 +", "x := (1 +", "x := 1 + (", "x := ((((((((((1",
	"x := 1))))))))))", "x := a.b(", "x := a.(", "x := a.b.", "x := .5.", "x := 1..2", "x := 0x", "x := 0b2", "x := 1e", "x := 'ab'", "x := '", "x := \"", "x := `",
	"x := \"\\", "x := \"\\x\"", "x := \"\\u12\"", "/*", "/* /* */ */", "//", "x := 1 /* ", "#!/bin/ego\nx := 1", "\xef\xbb\xbfx := 1", "x\x00y", "\xff\xfe", "x := \"\xff\"; y := x[0:1]",
	"x := \"héllo\"; y := x[1:2]; z := x[2]", "for _, c := range \"\xff\xfeab\" { fmt.Println(c) }", "x := []byte(\"abc\"); x[5] = 1", "x := []byte(\"abc\")[1:9]", "x := string([]byte{255})[3]",
	"x := []byte{1,2,3}; delete(x, 1)", "x := []byte{}; x = append(x, 300)", "x := []byte{}; x = append(x, \"a\")", "x := []int{1,2,3}; x = append(x, \"a\")", "x := []string{}; x[0:0][0]",
	"a := []int{1,2,3}; b := a[1:]; c := b[5:]", "a := []int{1,2,3}; i := -1; b := a[i:]", "a := []int{1,2,3}; i := 9223372036854775807; b := a[i]", "a := []int{1}; b := a[9223372036854775807+1]",
	"a := \"abc\"; b := a[-9223372036854775808:]", "a := [][]int{{1},{}}; b := a[1][0]", "a := map[string][]int{}; b := a[\"x\"][0]", "a := map[string]map[string]int{}; a[\"x\"][\"y\"] = 1",
	"type T struct{ a []int }; var t T; t.a[0] = 1", "type T struct{ m map[string]int }; var t T; t.m[\"a\"] = 1", "type T struct{ f func() }; var t T; t.f()", "var f func(); f()",
	"type I interface{ m() }; var i I; i.m()", "type I interface{ m() }; type T struct{}; var i I = T{}; i.m()", "func f() []int { return nil }; x := f()[0]", "func f() (int, int) { return 1, 2 }; x := f()[0]",
	"func f() {}; x := f()", "func f() {}; x := f() + 1", "func f() int {}; x := f()", "func f() int { return }; x := f()", "func f() int { return \"a\" }; x := f()", "x := func() int { return 1 }()()",
	"func f(n int) int { return f(n+1) }; f(0)", "func f(n int) int { if n == 0 { return 0 }; return f(n-1) }; f(100000)", "var f func(int) int; f = func(n int) int { return f(n) }; f(1)",
	"for { }", "for { x := make([]int, 1000000) ; _ = x }", "x := \"a\"; for { x = x + x }", "x := []int{}; for { x = append(x, 1) }", "c := make(chan int); <-c", "c := make(chan int); c <- 1",
	"var wg sync.WaitGroup; wg.Add(1); wg.Wait()", "var mu sync.Mutex; mu.Lock(); mu.Lock()", "time.Sleep(\"1h\")", "select {}", "go func() { panic(1) }(); time.Sleep(\"50ms\")",
	"go func() { var a []int; a[1] = 1 }(); time.Sleep(\"50ms\")", "go func() { var p *int; *p = 1 }(); time.Sleep(\"50ms\")", "go nope(); time.Sleep(\"20ms\")", "go 1", "go func(){}", "defer 1", "defer func(){}",
	"func f() { defer func() { var a []int; a[1] = 1 }(); }; f()", "func f() { defer func() { panic(2) }(); panic(1) }; f()", "func f() { defer recover(); panic(1) }; f()",
}

// texts that end in a timeout nobody can interrupt (compiler loop / native sleep); they are the
// "timeout" outcome of the property, cost a spinning goroutine each, and so run in one mode only
var c07Hangs = []string{"import (", "time.Sleep(1000000000000)", "func f() { defer f(); }; f()"}

// debugger commands (mode "debug")
var c07DebugCmds = []string{
	"// foo", "/* x */", "print \"\"", "print", "print x", "print x[", "print z[5]", "print z[-1]", "show", "show symbols", "show line", "show breaks",
	"show calls", "show calls 99999", "show calls -1", "show source", "show source -1:5", "show source 5:1", "show source 999", "show scope", "show foo",
	"break", "break at", "break at -1", "break at 2", "break at 99999", "break at x:y", "break when", "break when x ==", "break when z[9] == 1", "break clear",
	"break clear at 2", "break load", "break save", "set", "set x", "set x =", "set x = z[7]", "set nope = 1", "set z[9] = 1", "step", "step over", "step into",
	"step return", "step 5", "continue", "go", "run", "help", "help foo", "exit", "quit", ";", "}", "{", "\"", "`", "@", "call", "call f(", "x := []int{}[1]",
	"print x; print y", ".", "...", "1", "-", "s", "c", "b", "p", "\x00", "\xff", "print fmt.Sprintf(\"%d\")", "print func() {}", "print z[1:0]",
}

var c07Root string

// c07GenProgram builds a mostly-valid program out of statements that aim at partial operations.
func c07GenProgram(r *rand.Rand) string {
	var b strings.Builder

	ints := []string{"0", "1", "2", "3", "-1", "5", "99", "n", "i", "len(a)", "len(a)-1", "len(a)+1", "-n", "9223372036854775807", "n*n", "i-3"}
	pick := func(xs []string) string { return xs[r.Intn(len(xs))] }

	b.WriteString("n := " + pick([]string{"0", "1", "3", "-2", "7"}) + "\ni := " + pick([]string{"0", "2", "-1", "4"}) + "\n")
	b.WriteString("a := " + pick([]string{"[]int{1,2,3}", "[]int{}", "[]string{\"a\",\"b\"}", "[]byte(\"hey\")", "[]any{1,\"a\",nil,[]int{1}}", "[][]int{{1,2},{}}", "make([]int, n)"}) + "\n")
	b.WriteString("s := " + pick([]string{"\"\"", "\"abc\"", "\"h\xc3\xa9llo\"", "\"\\xff\\xfe\"", "strings.Repeat(\"ab\", 3)"}) + "\n")
	b.WriteString("m := " + pick([]string{"map[string]int{}", "map[string]int{\"a\":1}", "map[string]any{\"a\":[]int{1}, \"b\":nil}", "map[int][]int{1:{1}}"}) + "\n")
	b.WriteString("type T struct { a int; b []int; p *T; f func(int) int; m map[string]int }\nvar t T\nvar q *T\nvar e error\nvar z any\n")

	stmts := []func() string{
		func() string { return "x := a[" + pick(ints) + "]" },
		func() string { return "a[" + pick(ints) + "] = " + pick([]string{"1", "\"x\"", "nil", "a", "1.5", "byte(300)"}) },
		func() string { return "y := a[" + pick(ints) + ":" + pick(ints) + "]" },
		func() string { return "y := a[" + pick(ints) + ":]" },
		func() string { return "y := a[:" + pick(ints) + "]" },
		func() string { return "c := s[" + pick(ints) + "]" },
		func() string { return "c := s[" + pick(ints) + ":" + pick(ints) + "]" },
		func() string { return "a = append(a, " + pick([]string{"1", "\"x\"", "a...", "nil", "a", "s"}) + ")" },
		func() string { return "a = append(a[:" + pick(ints) + "], a[" + pick(ints) + ":]...)" },
		func() string { return "delete(a, " + pick(ints) + ")" },
		func() string { return "delete(m, " + pick([]string{"\"a\"", "1", "nil", "a"}) + ")" },
		func() string { return "v := m[" + pick([]string{"\"a\"", "\"zz\"", "1", "nil", "a"}) + "]" },
		func() string { return "m[" + pick([]string{"\"a\"", "\"zz\"", "1", "nil"}) + "] = " + pick([]string{"1", "\"x\"", "nil", "a"}) },
		func() string { return "v, ok := m[\"a\"][" + pick(ints) + "]" },
		func() string { return "t." + pick([]string{"a", "b", "p", "f", "m", "zz"}) + " = " + pick([]string{"1", "nil", "a", "&t", "t", "func(k int) int { return a[k] }"}) },
		func() string { return "w := t." + pick([]string{"b[" + pick(ints) + "]", "p.a", "p.p.p", "f(" + pick(ints) + ")", "m[\"a\"]", "zz", "a.b"}) },
		func() string { return "w := q." + pick([]string{"a", "p", "b[0]", "f(1)"}) },
		func() string { return "q = " + pick([]string{"&t", "nil", "t.p", "new(T)"}) },
		func() string { return "*q = " + pick([]string{"t", "nil", "1", "T{}"}) },
		func() string { return "z = " + pick([]string{"1", "\"a\"", "nil", "a", "t", "&t", "m", "e", "func() {}"}) },
		func() string { return "u := z.(" + pick([]string{"int", "string", "[]int", "T", "*T", "error", "map[string]int", "func()"}) + ")" },
		func() string { return "u, ok := z.(" + pick([]string{"int", "string", "T", "*T"}) + ")" },
		func() string { return "switch k := z.(type) { case int: w := k + 1; case string: w := k[" + pick(ints) + "]; default: w := k }" },
		func() string { return "d := " + pick(ints) + " " + pick([]string{"/", "%", "<<", ">>", "*", "-", "&"}) + " " + pick(ints) },
		func() string { return "d := " + pick([]string{"int", "string", "float64", "bool", "byte", "int32", "[]byte", "[]int", "T"}) + "(" + pick([]string{"n", "s", "a", "z", "nil", "1.5", "\"12x\"", "t"}) + ")" },
		func() string { return "g := func(k int) int { return a[k] }; h := g(" + pick(ints) + ")" },
		func() string { return "func() { defer func() { r := recover(); z = r }(); w := a[" + pick(ints) + "] }()" },
		func() string { return "try { w := a[" + pick(ints) + "] } catch(err) { z = err }" },
		func() string { return "for j := range " + pick([]string{"a", "s", "m", "n", "z", "nil", "t"}) + " { w := a[j] }" },
		func() string { return "for j, v := range a { a = a[:" + pick(ints) + "]; w := v }" },
		func() string { return "for j := 0; j < " + pick(ints) + " && j < 50; j++ { a = append(a, j) }" },
		func() string { return "e = errors.New(" + pick([]string{"\"x\"", "s", "nil", "1"}) + ")" },
		func() string { return "w := e." + pick([]string{"Error()", "Is(e)", "Unwrap()", "x"}) },
		func() string { return "w := fmt.Sprintf(" + pick([]string{"\"%d\"", "\"%s %v\"", "\"%[2]d\"", "\"%*d\"", "s", "\"%T %#v %q\""}) + ", " + pick([]string{"a", "z", "t", "m", "nil", "q", "e"}) + ")" },
		func() string { return "w := strings." + pick([]string{"Substring(s, " + pick(ints) + ", " + pick(ints) + ")", "Left(s, " + pick(ints) + ")", "Right(s, " + pick(ints) + ")", "Repeat(s, " + pick([]string{"0", "-1", "3", "n"}) + ")", "Split(s, s)", "Index(s, z)", "Chars(s)[" + pick(ints) + "]", "Truncate(s, " + pick(ints) + ")", "Fields(s)[" + pick(ints) + "]"}) },
		func() string { return "w := " + pick([]string{"len", "cap", "sizeof", "typeof", "reflect.Type", "reflect.Members", "json.Marshal", "sort.Ints", "strconv.Itoa", "math.Abs"}) + "(" + pick([]string{"a", "s", "m", "z", "nil", "t", "q", "n", "e"}) + ")" },
		func() string { return "sort.Slice(a, func(x, y int) bool { return a[x" + pick([]string{"", "+1", "-1", "*9"}) + "] < a[y] })" },
		func() string { return "a = make(" + pick([]string{"[]int", "[]byte", "[]string", "[]any", "[][]int"}) + ", " + pick(ints) + ")" },
		func() string { return "return " + pick([]string{"", "1", "a[9]", "1, 2"}) },
		func() string { return pick([]string{"break", "continue", "fallthrough", "goto x", "x:", "{", "}", "}}", "((", "defer", "@line " + pick(ints)}) },
	}

	n := 2 + r.Intn(10)
	for k := 0; k < n; k++ {
		b.WriteString(stmts[r.Intn(len(stmts))]())
		b.WriteString("\n")
	}

	body := b.String()

	switch r.Intn(4) {
	case 0:
		return "func main() {\n" + body + "}\n"
	case 1:
		return "func run() int {\n" + body + "return 0\n}\nx0 := run()\n"
	}

	return body
}

func c07Drive(t *testing.T, run func(mode, kind, src string), stats *verifh.Stats) {
	modes := []string{"admin", "test", "console"}

	if rp := verifh.ReplayInput(); len(rp) > 0 {
		for _, m := range append(modes, "tok") {
			run(m, "replay", string(rp))
		}

		for level := 1; level <= 3; level++ {
			for _, m := range modes {
				run(c07At(m, level), "replay", string(rp))
			}
		}

		return
	}

	// constant expressions at every optimizer level (own PRNG streams: the cases below are the same as before)
	for i, src := range c07ConstNasty {
		for level := 0; level <= 3; level++ {
			run(c07At("admin", level), "constnasty", src)
		}

		run("test@2", "constnasty", src)
		run(c07At([]string{"test", "console"}[i%2], []int{0, 1, 3}[i%3]), "constnasty", src)
	}

	rk := verifh.Rand(79)

	for i, n := 0, verifh.N(300, 20000); i < n; i++ {
		run(c07At(modes[rk.Intn(len(modes))], i%4), "constgen", c07GenConst(rk))
	}

	// the fixed corpus once more with the optimizer on
	for i, src := range c07Nasty {
		run(c07At(modes[i%2], []int{2, 2, 1, 3}[i%4]), "nasty", src)
	}

	rl := verifh.Rand(78) // optimizer level of the second run of a generated case
	again := func(mode, kind, src string) {
		if mode != "tok" && mode != "debug" && rl.Intn(3) == 0 {
			run(c07At(mode, 1+rl.Intn(3)), kind, src)
		}
	}

	for _, src := range c07Nasty {
		for _, m := range modes {
			run(m, "nasty", src)
		}

		run("tok", "nasty", src)
	}

	for _, cmd := range c07DebugCmds {
		run("debug", "debugcmd", cmd)
	}

	// concurrent programs (own PRNG stream: the cases below are the same as before)
	for _, src := range c07Conc {
		run("admin", "conc", src)
		run("test", "conc", src)
	}

	rc := verifh.Rand(77)

	for i, n := 0, verifh.N(30, 1500); i < n; i++ {
		run(modes[rc.Intn(2)], "concgen", c07GenConc(rc))
	}

	for _, src := range c07Hangs {
		run("admin", "hang", src)
	}

	_, texts := c07Corpus(t)
	lexed := make([][]string, len(texts))

	for i, s := range texts {
		lexed[i] = c07Lex(s)
	}

	stats.Add("corpus_files", len(texts))

	r := verifh.Rand(7)
	n := verifh.N(300, 12000)

	for i := 0; i < n; i++ {
		mode := modes[r.Intn(len(modes))]

		switch k := r.Intn(10); {
		case k < 4: // token-level mutation of a tests/ program
			j := r.Intn(len(texts))
			src := c07MutateTokens(r, lexed[j], lexed[r.Intn(len(texts))])

			if mode == "console" {
				mode = "test"
			}

			run(mode, "tokmut", src)
			again(mode, "tokmut", src)
		case k < 7: // generated program, possibly token-mutated
			src := c07GenProgram(r)
			kind := "gen"

			if r.Intn(3) == 0 {
				src = c07MutateTokens(r, c07Lex(src), lexed[r.Intn(len(texts))])
				kind = "genmut"
			}

			run(mode, kind, src)
			again(mode, kind, src)
		case k < 8: // byte noise on a tests/ program or nasty text
			src := c07Nasty[r.Intn(len(c07Nasty))]
			if r.Intn(2) == 0 {
				src = texts[r.Intn(len(texts))]
			}

			src = c07MutateBytes(r, src)
			run("tok", "bytes", src)

			if mode == "console" {
				mode = "admin"
			}

			run(mode, "bytes", src)
		case k < 9: // nasty snippets glued together, line feeding
			var parts []string
			for q := 0; q < 1+r.Intn(4); q++ {
				parts = append(parts, c07Nasty[r.Intn(len(c07Nasty))])
			}

			glued := strings.Join(parts, []string{"\n", "; ", " ", "\n}\n"}[r.Intn(4)])
			run(mode, "glue", glued)
			again(mode, "glue", glued)
		default: // deep nesting, or a debugger command script
			if r.Intn(2) == 0 {
				var cmds []string
				for q := 0; q < 1+r.Intn(5); q++ {
					c := c07DebugCmds[r.Intn(len(c07DebugCmds))]
					if r.Intn(3) == 0 {
						c = c07MutateTokens(r, c07Lex(c), lexed[r.Intn(len(texts))])
					}

					cmds = append(cmds, strings.ReplaceAll(c, "\n", " "))
				}

				run("debug", "debugscript", strings.Join(cmds, "\n"))

				continue
			}

			d := 1 + r.Intn(400)
			open := []string{"(", "[", "{", "func() {", "if true {", "[]int{", "-", "!", "a[", "f(", "&", "*", "x.("}[r.Intn(13)]
			run(mode, "nest", "x := "+strings.Repeat(open, d)+"1")
		}
	}

	_ = fmt.Sprint
}
