//go:build verif

package admin

// C21 correspondence harness and direct oracle: native bearer tokens are honoured exactly
// while valid.
//
// Every history runs inside a testing/synctest bubble (virtual clock: token expiry, the 60 s
// cache TTL and the 60 s cache sweepers are all driven by the history) against the REAL
//   tokens.New / cipher.NewToken, tokens.Validate, tokens.Unwrap, cipher.Validate,
//   cipher.Extract, (*router.Session).Authenticate,
//   admin.TokenRevokeHandler / TokenDeleteHandler / TokenFlushHandler (or tokens.Blacklist /
//   Delete / Flush directly), admin/caches.PurgeCacheHandler (or caches.Purge),
// with the blacklist and the credentials in SQLite files, as the server sets them up.
//
//   * stream "hist": fixed corpus + random histories over 3–4 tokens (own key / foreign key /
//     unnamed / unknown user; lifetimes around the cache TTL; advances that land exactly on
//     expiry and on sweeper wake-ups; small cache capacity).
//   * stream "mut": one long history presenting single-byte mutations of a valid token string
//     (every position; all non-hex bytes; byte-changing hex digits; case flips that leave the
//     bytes alone), plus deletions / insertions / truncations.
//
// Oracle (independent of the Lean model): the harness keeps, per issued token, (issued with
// the current key?, expiry, name class) and the set of revoked ids; a presentation must be
// accepted iff own key ∧ bytes unaltered ∧ now ≤ expiry ∧ id not revoked (router: ∧ name ≠ "").
// "Unaltered" is decided with encoding/hex on the presented text, not by the code under test.

import (
	"bytes"
	"encoding/hex"
	"encoding/json"
	"fmt"
	"hash/fnv"
	"math/rand"
	"net/http"
	"net/http/httptest"
	"os"
	"path/filepath"
	"strconv"
	"strings"
	"testing"
	"testing/synctest"
	"time"

	"github.com/google/uuid"
	"github.com/tucats/ego/internal/caches"
	"github.com/tucats/ego/internal/cli/settings"
	"github.com/tucats/ego/internal/defs"
	"github.com/tucats/ego/internal/errors"
	"github.com/tucats/ego/internal/language/data"
	"github.com/tucats/ego/internal/language/symbols"
	"github.com/tucats/ego/internal/language/tokens"
	"github.com/tucats/ego/internal/router"
	"github.com/tucats/ego/internal/runtime/cipher"
	admcaches "github.com/tucats/ego/internal/server/admin/caches"
	"github.com/tucats/ego/internal/server/auth"
	"github.com/tucats/ego/internal/util"
	"github.com/tucats/ego/internal/verifh"
)

const (
	c21Key      = "c21-current-token-key-0123456789abcdefghijklmnopqrstuvwxyz"
	c21OtherKey = "c21-some-other-servers-key-9876543210zyxwvutsrqponmlkjihgfedcba"
	c21Instance = "aaaaaaaa-aaaa-aaaa-aaaa-aaaaaaaaaaaa"
)

var c21Users = []string{"", "alice", "bob"} // model user numbers 0,1,2 ("alice" exists in the credentials DB)

type c21Tok struct {
	base  int
	text  string // as issued (lowercase hex)
	raw   []byte // hex-decoded
	cur   bool
	id    int    // model id
	uuid  string // real TokenID
	exp   int    // virtual seconds
	user  int
	known bool // content could be read back
}

type c21Run struct {
	t      *testing.T
	r      *rand.Rand
	cases  *verifh.Writer
	fails  *verifh.Writer
	stats  *verifh.Stats
	t0     time.Time
	toks   []*c21Tok
	ids    map[string]int // uuid → model id
	nextID int
	// oracle
	revoked map[int]bool
	// bookkeeping for coverage
	hist     []string
	everRev  map[int]bool
	cachedR  map[string]bool // token texts accepted through the router since the last purge of TokenCache
	nontriv  int
	distinct map[uint64]bool
	symtab   *symbols.SymbolTable
}

func (h *c21Run) now() int { return int(time.Since(h.t0) / time.Second) }

func (h *c21Run) sizes() string {
	return fmt.Sprintf(" %d %d %d", caches.Size(caches.TokenCache), caches.Size(caches.BlacklistCache), caches.Size(caches.AuthCache))
}

func (h *c21Run) emit(in, impl string) {
	h.hist = append(h.hist, in)
	h.cases.Write(verifh.Case{In: in, Impl: impl + h.sizes()})
	h.stats.Inc("lines")
}

func (h *c21Run) failure(class, what, got, want string) {
	h.stats.Inc("oracle_failures")
	in := h.hist
	if len(in) > 60 { // the mutation history: its head and the failing presentation
		in = append(append([]string{}, in[:2]...), "…")
		in = append(in, h.hist[len(h.hist)-3:]...)
	}

	h.fails.Write(verifh.Failure{Class: class, What: what, Input: strings.Join(in, " ; "), Got: got, Want: want})
}

func (h *c21Run) session() *router.Session {
	return &router.Session{ID: 1, URLParts: map[string]any{}, Parameters: map[string][]string{}}
}

// ---------------------------------------------------------------- operations

func (h *c21Run) begin(maxSize int) {
	settings.Set(defs.ServerMaxCacheSizeSetting, strconv.Itoa(maxSize))

	if _, err := tokens.Flush(); err != nil {
		h.t.Fatalf("flush at start: %v", err)
	}

	h.t0 = time.Now()
	h.toks = nil
	h.ids = map[string]int{}
	h.nextID = 1
	h.revoked = map[int]bool{}
	h.everRev = map[int]bool{}
	h.cachedR = map[string]bool{}
	h.hist = nil
	h.nontriv = 0
	h.emit(fmt.Sprintf("cfg %d", maxSize), "ok")
}

// end purges the caches and lets the sweeper goroutines notice and exit (they must not
// outlive the bubble).
func (h *c21Run) end() {
	caches.PurgeAll()
	caches.Purge(caches.TokenCache)
	caches.Purge(caches.BlacklistCache)
	caches.Purge(caches.AuthCache)
	time.Sleep(125 * time.Second)
	synctest.Wait()

	hh := fnv.New64a()
	for _, l := range h.hist {
		hh.Write([]byte(l))
		hh.Write([]byte{'\n'})
	}

	h.stats.Inc("histories")

	if h.nontriv > 0 && !h.distinct[hh.Sum64()] {
		h.distinct[hh.Sum64()] = true
		h.stats.Inc("distinct_nontrivial")

		if len(h.hist) < 40 {
			h.stats.Sample(strings.Join(h.hist, " ; "))
		}
	}
}

// issue creates a token with the real code. cur=false: the server of another key issued it.
func (h *c21Run) issue(cur bool, user int, ttl string, viaCipher bool) *c21Tok {
	key := c21Key
	if !cur {
		key = c21OtherKey
		os.Setenv("EGO_SERVER_TOKEN_KEY", key)
	}

	var (
		text string
		err  error
	)

	if viaCipher {
		h.symtab.SetAlways(defs.InstanceUUIDVariable, c21Instance)

		var v any

		v, err = cipher.NewToken(h.symtab, data.NewList(c21Users[user], "payload", ttl))
		if l, ok := v.(data.List); ok && err == nil {
			text = data.String(l.Get(0))
		}
	} else {
		text, err = tokens.New(c21Users[user], "payload", ttl, c21Instance, 0)
	}

	os.Setenv("EGO_SERVER_TOKEN_KEY", c21Key)

	if err != nil || text == "" {
		h.t.Fatalf("issue failed: %v", err)
	}

	tk := &c21Tok{base: len(h.toks) + 1, text: text, cur: cur, user: user}
	tk.raw, _ = hex.DecodeString(text)

	// read the content back with the harness's own decoding (no cache is touched)
	if plain, derr := util.Decrypt(string(tk.raw), key); derr == nil {
		var c tokens.Token
		if json.Unmarshal([]byte(plain), &c) == nil {
			tk.known = true
			tk.uuid = c.TokenID.String()
			d := c.Expires.Sub(h.t0)
			if d%time.Second != 0 {
				h.t.Fatalf("expiry not on a whole second: %v", d)
			}

			tk.exp = int(d / time.Second)
		}
	}

	if !tk.known {
		h.t.Fatalf("cannot read back the issued token")
	}

	tk.id = h.nextID
	h.nextID++
	h.ids[tk.uuid] = tk.id
	h.toks = append(h.toks, tk)

	c := 0
	if cur {
		c = 1
	}

	h.emit(fmt.Sprintf("issue %d %d %d %d %d", tk.base, c, tk.id, tk.exp, tk.user), "ok")
	h.stats.Inc("op_issue")

	return tk
}

// idOf gives the uuid for a model id; ids ≥ 90 are ids no token carries.
func (h *c21Run) uuidOf(id int) string {
	for _, tk := range h.toks {
		if tk.id == id {
			return tk.uuid
		}
	}

	return fmt.Sprintf("00000000-0000-0000-0000-%012d", id)
}

func (h *c21Run) blacklist(id int, viaHandler bool) {
	u := h.uuidOf(id)
	res := "ok"

	if viaHandler {
		body, _ := json.Marshal([]string{u})
		req := httptest.NewRequest(http.MethodPost, "/admin/tokens/revoke", bytes.NewReader(body))
		w := httptest.NewRecorder()

		switch st := TokenRevokeHandler(h.session(), w, req); st {
		case http.StatusOK:
		case http.StatusInternalServerError:
			res = "err"
		default:
			res = fmt.Sprintf("status%d", st)
		}
	} else if err := tokens.Blacklist(u); err != nil {
		res = "err"
	}

	want := "ok"
	if h.revoked[id] {
		want = "err"
	}

	h.revoked[id] = true
	h.everRev[id] = true
	h.cachedR = map[string]bool{}
	h.emit(fmt.Sprintf("bl %d", id), res)
	h.stats.Inc("op_blacklist")

	if res != want {
		h.failure("admin-op-result", "revoke of an id answered "+res, res, want)
	}
}

func (h *c21Run) unblacklist(id int, viaHandler bool) {
	u := h.uuidOf(id)
	res := "ok"

	if viaHandler {
		s := h.session()
		s.URLParts["id"] = u
		req := httptest.NewRequest(http.MethodDelete, "/admin/tokens/"+u, nil)
		w := httptest.NewRecorder()

		switch st := TokenDeleteHandler(s, w, req); st {
		case http.StatusOK:
		case http.StatusNotFound:
			res = "notfound"
		default:
			res = fmt.Sprintf("status%d", st)
		}
	} else if err := tokens.Delete(u); err != nil {
		if errors.Equal(err, errors.ErrNotFound) {
			res = "notfound"
		} else {
			res = "err"
		}
	}

	want := "notfound"
	if h.revoked[id] {
		want = "ok"
	}

	delete(h.revoked, id)
	h.emit(fmt.Sprintf("del %d", id), res)
	h.stats.Inc("op_unblacklist")

	if res != want {
		h.failure("admin-op-result", "delete-from-blacklist answered "+res, res, want)
	}
}

func (h *c21Run) flush(viaHandler bool) {
	n := -1

	if viaHandler {
		req := httptest.NewRequest(http.MethodPost, "/admin/tokens/flush", nil)
		w := httptest.NewRecorder()

		if st := TokenFlushHandler(h.session(), w, req); st == http.StatusOK {
			var resp defs.DBRowCount
			if json.Unmarshal(w.Body.Bytes(), &resp) == nil {
				n = resp.Count
			}
		}
	} else if c, err := tokens.Flush(); err == nil {
		n = c
	}

	want := len(h.revoked)
	h.revoked = map[int]bool{}
	h.emit("flush", fmt.Sprintf("n%d", n))
	h.stats.Inc("op_flush")

	if n != want {
		h.failure("admin-op-result", "flush reported a wrong row count", strconv.Itoa(n), strconv.Itoa(want))
	}
}

func (h *c21Run) purge(which string, viaHandler bool) {
	if viaHandler {
		s := h.session()

		switch which {
		case "tokens":
			s.Parameters["class"] = []string{"Tokens"}
		case "blacklist":
			s.Parameters["class"] = []string{"blacklist"}
		case "auth":
			s.Parameters["class"] = []string{"permissions"}
		}

		req := httptest.NewRequest(http.MethodDelete, "/admin/caches", nil)
		w := httptest.NewRecorder()

		if st := admcaches.PurgeCacheHandler(s, w, req); st != http.StatusOK {
			h.t.Fatalf("purge handler status %d", st)
		}
	} else {
		switch which {
		case "tokens":
			caches.Purge(caches.TokenCache)
		case "blacklist":
			caches.Purge(caches.BlacklistCache)
		case "auth":
			caches.Purge(caches.AuthCache)
		default:
			caches.PurgeAll()
		}
	}

	if which == "tokens" || which == "all" {
		h.cachedR = map[string]bool{}
	}

	h.emit("purge "+which, "ok")
	h.stats.Inc("op_purge")
}

func (h *c21Run) advance(d int) {
	time.Sleep(time.Duration(d) * time.Second)
	synctest.Wait()
	h.emit(fmt.Sprintf("adv %d", d), "ok")
	h.stats.Inc("op_advance")
}

func c21Classify(err error) string {
	switch {
	case err == nil:
		return "accepted"
	case errors.Equal(err, errors.ErrExpiredToken):
		return "expired"
	case errors.Equal(err, errors.ErrBlacklisted):
		return "blacklisted"
	default:
		return "invalid"
	}
}

// present runs one validation of the text through the chosen path and returns the
// implementation's verdict in the protocol's vocabulary.
func (h *c21Run) present(path string, text string) string {
	switch path {
	case "v":
		ok, err := tokens.Validate(text, 0)
		if ok {
			if err != nil {
				return "accepted-with-error"
			}

			return "accepted"
		}

		if err == nil {
			return "rejected-without-error"
		}

		return c21Classify(err)

	case "u":
		tk, err := tokens.Unwrap(text, 0)
		if err == nil && tk == nil {
			return "nil-without-error"
		}

		return c21Classify(err)

	case "cv":
		v, err := cipher.Validate(h.symtab, data.NewList(text))
		if b, ok := v.(bool); ok && err == nil {
			if b {
				return "accepted"
			}

			return "rejected"
		}

		return "bad-result"

	case "cx":
		_, err := cipher.Extract(h.symtab, data.NewList(text))

		return c21Classify(err)

	default:
		req := httptest.NewRequest(http.MethodGet, "/services/x", nil)
		// the scheme is case-insensitive and the token is trimmed by the router
		scheme := []string{"Bearer ", "bearer ", "BEARER ", "Bearer   "}[h.r.Intn(4)]
		tail := []string{"", "", " ", "\t"}[h.r.Intn(4)]
		req.Header.Set("Authorization", scheme+text+tail)

		s := h.session().Authenticate(req)
		if s.Authenticated {
			return "accepted"
		}

		return "denied"
	}
}

// validate presents (a variant of) token tk. alt = 0: the bytes are those issued.
func (h *c21Run) validate(path string, tk *c21Tok, text string, alt, enc int) {
	// In an Authorization header the token is what remains after the scheme once surrounding
	// white space is dropped (router/auth.go trims it, as HTTP allows): classify that text.
	if path == "r" && alt != 0 {
		m := tk.classify(strings.TrimSpace(text), alt-1)
		alt, enc = m.alt, m.enc
	}

	now := h.now()
	got := h.present(path, text)
	in := fmt.Sprintf("val %s %d %d %d", path, tk.base, alt, enc)
	h.emit(in, got)
	h.stats.Inc("op_validate")
	h.stats.Inc("validate_" + path)

	revoked := h.revoked[tk.id]
	want := tk.cur && alt == 0 && now <= tk.exp && !revoked && (path != "r" || tk.user != 0)
	accepted := got == "accepted"

	// coverage: what makes this presentation interesting
	if alt == 0 && tk.cur {
		switch {
		case h.everRev[tk.id]:
			h.nontriv++
			h.stats.Inc("validate_after_revocation_history")
		case path == "r" && h.cachedR[text]:
			h.nontriv++
			h.stats.Inc("validate_router_cached")
		case now >= tk.exp-1 && now <= tk.exp+1:
			h.nontriv++
			h.stats.Inc("validate_at_expiry_edge")
		}
	}

	if path == "r" && accepted {
		h.cachedR[text] = true
	}

	if accepted == want {
		return
	}

	class := "reject-valid"
	what := "a valid, unexpired, unrevoked token of this server was rejected"

	if accepted {
		switch {
		case alt != 0:
			class, what = "accept-altered", "an altered token string was accepted"
		case !tk.cur:
			class, what = "accept-foreign-key", "a token issued under another key was accepted"
		case revoked:
			class, what = "accept-revoked", "a token whose id is on the revocation list was accepted"
		case now > tk.exp:
			class, what = "accept-expired", "an expired token was accepted"
		default:
			class, what = "accept-unnamed", "the router authenticated a token without a user name"
		}
	}

	h.failure(class, fmt.Sprintf("%s (path %s, now=%d, expires=%d)", what, path, now, tk.exp), got, map[bool]string{true: "accepted", false: "not accepted"}[want])
}

// ---------------------------------------------------------------- text variants

// caseVariant returns a re-encoding of the same bytes: enc 1 = upper case, 2 = alternating,
// 3 = only the first letter digit upper-cased.
func c21CaseVariant(text string, enc int) string {
	switch enc {
	case 1:
		return strings.ToUpper(text)
	case 2:
		b := []byte(text)
		for i := range b {
			if i%2 == 0 {
				b[i] = strings.ToUpper(string(b[i]))[0]
			}
		}

		return string(b)
	case 3:
		b := []byte(text)
		for i := range b {
			if b[i] >= 'a' && b[i] <= 'f' {
				b[i] -= 32

				break
			}
		}

		return string(b)
	}

	return text
}

// c21Mutation describes one altered presentation of tk.
type c21Mutation struct {
	text string
	alt  int
	enc  int
}

// classify decides with encoding/hex whether the text still carries the issued bytes.
func (tk *c21Tok) classify(text string, code int) c21Mutation {
	if b, err := hex.DecodeString(text); err == nil && bytes.Equal(b, tk.raw) {
		if text == tk.text {
			return c21Mutation{text, 0, 0}
		}

		return c21Mutation{text, 0, 1000 + code}
	}

	return c21Mutation{text, 1 + code, 0}
}

func (tk *c21Tok) subst(pos int, b byte) c21Mutation {
	x := []byte(tk.text)
	x[pos] = b

	return tk.classify(string(x), pos*256+int(b))
}

func (tk *c21Tok) structural(kind, pos int) c21Mutation {
	t := tk.text
	n := len(t)
	code := 1000000 + kind*10000 + pos

	switch kind {
	case 0: // delete one character
		return tk.classify(t[:pos]+t[pos+1:], code)
	case 1: // delete one byte (two digits)
		p := pos &^ 1
		return tk.classify(t[:p]+t[p+2:], code)
	case 2: // insert a byte
		p := pos &^ 1
		return tk.classify(t[:p]+"00"+t[p:], code)
	case 3: // append
		return tk.classify(t+[]string{"00", "0", " ", "ff", "\n"}[pos%5], code)
	case 4: // truncate to a prefix
		return tk.classify(t[:pos%n], code)
	case 5: // swap two adjacent bytes
		p := pos &^ 1
		if p+4 > n {
			p = n - 4
		}

		return tk.classify(t[:p]+t[p+2:p+4]+t[p:p+2]+t[p+4:], code)
	default: // duplicate the token
		return tk.classify(t+t, code)
	}
}

// ---------------------------------------------------------------- generators

var c21TTLs = []string{"45s", "60s", "90s", "150s", "10m", "1h"}
var c21Steps = []int{1, 1, 2, 29, 30, 31, 59, 60, 61, 62, 119, 120, 121, 181, 400}
var c21Paths = []string{"r", "r", "r", "r", "v", "u", "cv", "cx"}

func (h *c21Run) randomTok() *c21Tok { return h.toks[h.r.Intn(len(h.toks))] }

func (h *c21Run) randomID() int {
	if h.r.Intn(8) == 0 {
		return 90 + h.r.Intn(3)
	}

	return h.randomTok().id
}

func (h *c21Run) randomHistory(shard string) {
	r := h.r
	maxSize := 1000

	switch r.Intn(6) {
	case 0:
		maxSize = 1
	case 1:
		maxSize = 2
	}

	h.begin(maxSize)
	defer h.end()

	n := 2 + r.Intn(2)
	for i := 0; i < n; i++ {
		cur := r.Intn(6) != 0
		user := []int{1, 1, 1, 2, 2, 0}[r.Intn(6)]
		h.issue(cur, user, c21TTLs[r.Intn(len(c21TTLs))], r.Intn(4) == 0)
	}

	steps := 18 + r.Intn(22)
	for i := 0; i < steps; i++ {
		switch k := r.Intn(100); {
		case k < 48:
			tk := h.randomTok()
			h.validate(c21Paths[r.Intn(len(c21Paths))], tk, tk.text, 0, 0)
		case k < 53:
			tk := h.randomTok()
			enc := 1 + r.Intn(3)
			h.validate(c21Paths[r.Intn(len(c21Paths))], tk, c21CaseVariant(tk.text, enc), 0, enc)
		case k < 58:
			tk := h.randomTok()

			var m c21Mutation
			if r.Intn(2) == 0 {
				m = tk.subst(r.Intn(len(tk.text)), "0123456789abcdefABCDEF gz/\x00"[r.Intn(27)])
			} else {
				m = tk.structural(r.Intn(7), r.Intn(len(tk.text)))
			}

			h.validate(c21Paths[r.Intn(len(c21Paths))], tk, m.text, m.alt, m.enc)
		case k < 68:
			h.blacklist(h.randomID(), r.Intn(2) == 0)
		case k < 76:
			h.unblacklist(h.randomID(), r.Intn(2) == 0)
		case k < 79:
			h.flush(r.Intn(2) == 0)
		case k < 85:
			h.purge([]string{"tokens", "blacklist", "auth", "all"}[r.Intn(4)], r.Intn(2) == 0)
		case k < 97:
			d := c21Steps[r.Intn(len(c21Steps))]

			// land exactly on, or one second after, some token's expiry
			if r.Intn(3) == 0 {
				tk := h.randomTok()
				if rem := tk.exp - h.now(); rem > 0 && rem <= 700 {
					d = rem + r.Intn(2)
				}
			}

			h.advance(d)
		default:
			if len(h.toks) < 4 {
				h.issue(r.Intn(5) != 0, []int{1, 2, 0}[r.Intn(3)], c21TTLs[r.Intn(len(c21TTLs))], false)
			}
		}
	}
}

// corpus: fixed histories that run first. Each is a little program over (path, token#) steps.
func (h *c21Run) corpus(i int) bool {

	switch i {
	case 0: // revoke a token that the router has cached; un-revoke; flush
		h.begin(1000)
		a := h.issue(true, 1, "10m", false)
		h.validate("r", a, a.text, 0, 0)
		h.validate("r", a, a.text, 0, 0)
		h.blacklist(a.id, true)
		h.validate("r", a, a.text, 0, 0)
		h.validate("v", a, a.text, 0, 0)
		h.validate("cx", a, a.text, 0, 0)
		h.unblacklist(a.id, true)
		h.validate("r", a, a.text, 0, 0)
		h.validate("cv", a, a.text, 0, 0)
		h.blacklist(a.id, false)
		h.blacklist(a.id, true)
		h.validate("u", a, a.text, 0, 0)
		h.flush(true)
		h.validate("r", a, a.text, 0, 0)
		h.validate("u", a, a.text, 0, 0)
	case 1: // expiry edge with a cached token; sweeps
		h.begin(1000)
		a := h.issue(true, 1, "90s", true)
		h.validate("r", a, a.text, 0, 0)
		h.advance(59)
		h.validate("r", a, a.text, 0, 0)
		h.advance(31)
		h.validate("r", a, a.text, 0, 0)
		h.validate("v", a, a.text, 0, 0)
		h.advance(1)
		h.validate("r", a, a.text, 0, 0)
		h.validate("v", a, a.text, 0, 0)
		h.validate("cx", a, a.text, 0, 0)
		h.advance(120)
		h.validate("r", a, a.text, 0, 0)
	case 2: // negative blacklist answer cached, then revoke; positive answer cached, then un-revoke
		h.begin(1000)
		a := h.issue(true, 2, "1h", false)
		b := h.issue(true, 1, "1h", false)
		h.validate("v", a, a.text, 0, 0)
		h.validate("v", b, b.text, 0, 0)
		h.blacklist(a.id, false)
		h.validate("v", a, a.text, 0, 0)
		h.validate("r", b, b.text, 0, 0)
		h.validate("v", a, a.text, 0, 0)
		h.unblacklist(a.id, false)
		h.validate("v", a, a.text, 0, 0)
		h.validate("r", a, a.text, 0, 0)
		h.advance(61)
		h.blacklist(b.id, true)
		h.validate("r", b, b.text, 0, 0)
		h.validate("r", a, a.text, 0, 0)
		h.purge("all", true)
		h.validate("r", b, b.text, 0, 0)
		h.unblacklist(90, true)
		h.blacklist(90, true)
		h.flush(false)
		h.validate("r", b, b.text, 0, 0)
	case 3: // foreign key, unnamed token, case variants, altered strings
		h.begin(1000)
		a := h.issue(false, 1, "10m", false)
		b := h.issue(true, 0, "10m", false)
		c := h.issue(true, 1, "10m", false)

		for _, p := range []string{"r", "v", "u", "cv", "cx"} {
			h.validate(p, a, a.text, 0, 0)
			h.validate(p, b, b.text, 0, 0)
		}

		for enc := 1; enc <= 3; enc++ {
			h.validate("r", c, c21CaseVariant(c.text, enc), 0, enc)
			h.validate("v", c, c21CaseVariant(c.text, enc), 0, enc)
		}

		h.blacklist(c.id, true)

		for enc := 0; enc <= 3; enc++ {
			h.validate("r", c, c21CaseVariant(c.text, enc), 0, enc)
		}

		h.unblacklist(c.id, true)
		m := c.subst(len(c.text)-1, c.text[len(c.text)-1]^1)
		h.validate("r", c, m.text, m.alt, m.enc)
		h.validate("r", c, c.text, 0, 0)
		h.validate("r", c, m.text, m.alt, m.enc)
	case 4: // tiny cache: capacity 1
		h.begin(1)
		a := h.issue(true, 1, "10m", false)
		b := h.issue(true, 1, "10m", false)
		h.validate("r", a, a.text, 0, 0)
		h.validate("r", b, b.text, 0, 0)
		h.validate("r", a, a.text, 0, 0)
		h.blacklist(b.id, true)
		h.validate("r", b, b.text, 0, 0)
		h.validate("r", a, a.text, 0, 0)
		h.validate("r", b, b.text, 0, 0)
		h.blacklist(a.id, true)
		h.validate("r", a, a.text, 0, 0)
		h.unblacklist(b.id, true)
		h.validate("r", b, b.text, 0, 0)
		h.advance(61)
		h.validate("r", b, b.text, 0, 0)
		h.validate("r", a, a.text, 0, 0)
	case 5: // sweeper phase: purge, re-create before and after the sweeper's wake-up
		h.begin(1000)
		a := h.issue(true, 1, "1h", false)
		h.validate("r", a, a.text, 0, 0)
		h.advance(30)
		h.purge("tokens", false)
		h.validate("r", a, a.text, 0, 0)
		h.advance(30)
		h.validate("v", a, a.text, 0, 0)
		h.advance(60)
		h.advance(1)
		h.purge("blacklist", true)
		h.advance(60)
		h.validate("r", a, a.text, 0, 0)
		h.advance(121)
		h.validate("r", a, a.text, 0, 0)
		h.blacklist(a.id, true)
		h.advance(200)
		h.validate("r", a, a.text, 0, 0)
	default:
		return false
	}

	h.end()

	return true
}

// mutations presents altered versions of one valid token. Positions are dealt to shards.
func (h *c21Run) mutations(shard, shards int) {
	h.begin(1000)
	defer h.end()

	tk := h.issue(true, 1, "1h", false)
	r := h.r
	n := len(tk.text)
	paths := []string{"v", "u", "r", "cx", "cv"}
	seen := 0

	// the original is valid on every path
	for _, p := range paths {
		h.validate(p, tk, tk.text, 0, 0)
	}

	do := func(m c21Mutation) {
		seen++
		h.validate(paths[seen%len(paths)], tk, m.text, m.alt, m.enc)

		if m.alt != 0 {
			if _, err := hex.DecodeString(m.text); err == nil {
				h.stats.Inc("mut_reaches_decrypt")
			} else {
				h.stats.Inc("mut_not_hex")
			}
		} else {
			h.stats.Inc("mut_same_bytes")
		}

		h.nontriv++
	}

	hexDigits := "0123456789abcdef"
	// how many byte-changing hex substitutions per position (each costs a key derivation)
	perPos := c21N(0, 2)
	sampled := c21N(64, 0)
	nonHexStride := c21N(3, 1)

	for pos := 0; pos < n; pos++ {
		if pos%shards != shard {
			continue
		}

		orig := tk.text[pos]

		// every byte value that is not a hex digit (cheap: fails in hex.DecodeString)
		for b := 0; b < 256; b++ {
			c := byte(b)
			isHex := (c >= '0' && c <= '9') || (c >= 'a' && c <= 'f') || (c >= 'A' && c <= 'F')

			if isHex || (b+pos)%nonHexStride != 0 {
				continue
			}

			do(tk.subst(pos, c))
		}

		// the framing bytes (magic, first salt byte) get every other hex digit
		k := perPos
		if pos < 10 && verifh.Thorough() {
			k = 15
		}

		if pos < 8 && !verifh.Thorough() {
			k = 2
		}

		used := map[byte]bool{orig: true}

		for j := 0; j < k; j++ {
			var c byte

			switch j {
			case 0:
				c = hexDigits[(strings.IndexByte(hexDigits, orig)^1)&15] // lowest bit flipped
			default:
				c = hexDigits[r.Intn(16)]
				for tries := 0; used[c] && tries < 40; tries++ {
					c = hexDigits[r.Intn(16)]
				}
			}

			if used[c] {
				continue
			}

			used[c] = true
			do(tk.subst(pos, c))
		}

		// a case flip leaves the bytes alone: must still be accepted
		if orig >= 'a' && orig <= 'f' && (verifh.Thorough() || pos%16 == shard%16) {
			do(tk.subst(pos, orig-32))
		}
	}

	// quick tier: a sample of positions for byte-changing hex substitutions
	for j := 0; j < sampled; j++ {
		if j%shards != shard {
			continue
		}

		pos := r.Intn(n)
		if j < 24 {
			pos = []int{8, 9, 38, 39, 40, 41, 62, 63, 64, 65, n - 34, n - 33, n - 32, n - 31, n - 2, n - 1, n / 2, n/2 + 1, 10, 11, 100, 101, 200, 300}[j]
		}

		c := hexDigits[r.Intn(16)]
		for c == tk.text[pos] {
			c = hexDigits[r.Intn(16)]
		}

		do(tk.subst(pos, c))
	}

	// structural changes
	for kind := 0; kind < 7; kind++ {
		for j := 0; j < c21N(6, 40); j++ {
			if j%shards != shard {
				continue
			}

			do(tk.structural(kind, r.Intn(n)))
		}
	}

	// and the original still validates at the end (nothing above poisoned a cache)
	for _, p := range paths {
		h.validate(p, tk, tk.text, 0, 0)
	}

	h.blacklist(tk.id, true)

	for _, p := range paths {
		h.validate(p, tk, tk.text, 0, 0)
		h.validate(p, tk, strings.ToUpper(tk.text), 0, 1)
	}
}

// c21N picks by tier only (VERIF_CASES scales the number of random histories, nothing else).
func c21N(quick, thorough int) int {
	if verifh.Thorough() {
		return thorough
	}

	return quick
}

// ---------------------------------------------------------------- entry point

func TestVerifC21(t *testing.T) {
	shard, shards := 0, 1
	if s := os.Getenv("VERIF_SHARD"); s != "" {
		fmt.Sscanf(s, "%d/%d", &shard, &shards)
	}

	suffix := fmt.Sprintf(".%d", shard)
	os.Setenv("EGO_SERVER_TOKEN_KEY", c21Key)
	settings.Set(defs.ServerAuthoritySetting, "")

	// SQLite files for the blacklist and the credentials (user "alice" exists), opened outside
	// the bubbles: database/sql keeps a goroutine per open database.
	dir := t.TempDir()
	if err := tokens.SetDatabasePath("sqlite3://" + filepath.Join(dir, "blacklist.db")); err != nil {
		t.Fatalf("blacklist database: %v", err)
	}

	svc, err := auth.NewDatabaseService("sqlite3://"+filepath.Join(dir, "users.db"), "alice", uuid.NewString())
	if err != nil {
		t.Fatalf("credentials database: %v", err)
	}

	auth.AuthService = svc

	h := &c21Run{
		t:        t,
		cases:    verifh.Out("c21_cases" + suffix + ".jsonl"),
		fails:    verifh.Out("c21_failures" + suffix + ".jsonl"),
		stats:    verifh.NewStats(),
		distinct: map[uint64]bool{},
		symtab:   symbols.NewSymbolTable("c21"),
	}

	defer h.cases.Close()
	defer h.fails.Close()
	defer h.stats.Save("c21_stats" + suffix + ".json")

	bubble := func(f func()) {
		synctest.Test(t, func(t *testing.T) {
			h.t = t
			f()
		})
	}

	// fixed corpus first (dealt to shards)
	for i := 0; ; i++ {
		more := true

		if i%shards == shard {
			h.r = verifh.Rand(int64(7000 + i))
			bubble(func() { more = h.corpus(i) })
		} else if i > 5 {
			more = false
		}

		if !more {
			break
		}
	}

	// random histories
	nh := verifh.N(12, 80)
	for i := 0; i < nh; i++ {
		if i%shards != shard {
			continue
		}

		h.r = verifh.Rand(int64(21000 + i))
		bubble(func() { h.randomHistory(suffix) })
	}

	// single-byte mutations
	h.r = verifh.Rand(int64(99000 + shard))
	bubble(func() { h.mutations(shard, shards) })
}
