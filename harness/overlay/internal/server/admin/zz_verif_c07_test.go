//go:build verif

package admin

// C07 search harness (FUZZING, reported as such): compile+run of hostile source texts
// in-process through the real entry points, under recover(), a per-case deadline
// (delivered the way a user would: SIGINT, which every running bytecode context
// traps) and a heap watchdog.
//
//	mode "admin"   executeAdminEgo (the POST /admin/run worker), sandboxed, fresh scope
//	mode "console" executeAdminEgo console=true: the text fed line by line into one
//	               persistent symbol table (REPL-style line feeding)
//	mode "test"    the `ego test` pipeline (compiler in test mode + interactive), sandboxed
//	mode "tok"     tokenizer.New only (byte noise is cheap here)
//	mode "<m>@<n>" mode <m> at optimizer level <n> (ego run --optimize <n>; the default is 0): constant
//	               expressions are then evaluated by the optimizer while the program is compiled
//	mode "debug"   executeAdminDebug (the /admin/run debug worker): the text's lines are debugger
//	               commands for a fixed program; the debugger runs in its own goroutine
//
// Oracle (model free): the case ends with output, an Ego error or a timeout. A recovered
// Go panic is a failure whose class is  panic:<top ego function>:<panic kind>.
// The case about to run is written to c07_current.json first, so that an unrecoverable
// runtime fatal (stack overflow, panic in a goroutine started by `go`) still leaves the
// failing input behind for checks/C07.py.

import (
	"encoding/json"
	"fmt"
	"os"
	"os/signal"
	"path/filepath"
	"regexp"
	"runtime"
	"runtime/debug"
	"strconv"
	"strings"
	"syscall"
	"testing"
	"time"

	"github.com/tucats/ego/internal/caches"
	"github.com/tucats/ego/internal/cli/settings"
	"github.com/tucats/ego/internal/defs"
	"github.com/tucats/ego/internal/language/bytecode"
	"github.com/tucats/ego/internal/language/compiler"
	"github.com/tucats/ego/internal/language/symbols"
	"github.com/tucats/ego/internal/language/tokenizer"
	"github.com/tucats/ego/internal/router"
	"github.com/tucats/ego/internal/verifh"
)

type c07Result struct {
	outcome string // "ok" | "error" | "panic"
	panicV  string
	stack   string
}

var c07TestTable *symbols.SymbolTable

func c07RunTestMode(src string) error {
	if c07TestTable == nil {
		c07TestTable = symbols.NewRootSymbolTable("c07-test")
		compiler.AddStandard(c07TestTable)
		_ = compiler.New("auto").SetTestMode(true).AutoImport(true, c07TestTable)
	}

	s := symbols.NewChildSymbolTable("c07-case", c07TestTable)
	s.SetAlways("_testcount", 0)
	s.SetAlways("_testfailcount", 0)

	comp := compiler.New("c07.ego").SetTestMode(true)
	for _, p := range compiler.GetAutoImportedPackages() {
		_ = comp.DefineGlobalSymbol(p)
	}

	comp.SetInteractive(true)

	b, err := comp.Compile("c07.ego", tokenizer.New(src, true))
	if err != nil {
		return err
	}

	ctx := bytecode.NewContext(s, b)
	ctx.EnableConsoleOutput(false)
	ctx.Sandboxed(true)

	return ctx.Run()
}

var c07Session = 0

func c07Exec(mode, src string) (err error) {
	sess := &router.Session{ID: 7, User: "c07", Admin: false}

	// "admin@2" = mode admin at optimizer level 2; every case sets its level (default 0)
	mode, level := c07SplitMode(mode)
	c07SetLevel(level)

	switch mode {
	case "admin":
		_, err = executeAdminEgo(sess, src, false, false, "c07-editor")
	case "console":
		c07Session++
		uuid := fmt.Sprintf("c07-console-%d", c07Session%8)

		for _, line := range strings.Split(src, "\n") {
			if strings.TrimSpace(line) == "" {
				continue
			}

			if _, e := executeAdminEgo(sess, line, true, false, uuid); e != nil {
				err = e
			}
		}
	case "debug":
		// the /admin/run debug worker: a fixed program under the debugger, the text's lines as commands
		c07Session++
		uuid := fmt.Sprintf("c07-debug-%d", c07Session)
		r := executeAdminDebug(7, "c07", "x := 1\ny := x + 1\nfmt.Println(y)\nz := []int{x, y}\n", "", false, uuid)

		for _, line := range strings.Split(src, "\n") {
			if !r.DebugWaiting {
				break
			}

			if line != "" {
				r = executeAdminDebug(7, "c07", "", line, false, uuid)
			}
		}

		if r.DebugWaiting {
			executeAdminDebug(7, "c07", "", "exit", false, uuid)
		}

		caches.Delete(caches.DebugSessionCache, uuid)
		caches.Delete(caches.SymbolTableCache, uuid)

		if r.Error != "" {
			err = fmt.Errorf("debug error")
		}
	case "test":
		err = c07RunTestMode(src)
	case "tok":
		t := tokenizer.New(src, true)
		_ = t.GetTokens(0, t.Len()+3, true)
		_ = t.GetSource()

		t2 := tokenizer.New(src, false)
		_ = t2.Remainder()
	}

	return err
}

// c07One runs one case in its own goroutine with a deadline.
func c07One(mode, src string, deadline time.Duration) (res c07Result, timedOut, abandoned bool) {
	done := make(chan c07Result, 1)

	go func() {
		defer func() {
			if r := recover(); r != nil {
				done <- c07Result{outcome: "panic", panicV: fmt.Sprint(r), stack: string(debug.Stack())}
			}
		}()

		if err := c07Exec(mode, src); err != nil {
			done <- c07Result{outcome: "error"}
		} else {
			done <- c07Result{outcome: "ok"}
		}
	}()

	timer := time.NewTimer(deadline)
	defer timer.Stop()

	select {
	case res = <-done:
		return res, false, false
	case <-timer.C:
	}

	// interrupt the way a user does; repeat because nested contexts start later
	for i := 0; i < 40; i++ {
		_ = syscall.Kill(os.Getpid(), syscall.SIGINT)

		select {
		case res = <-done:
			return res, true, false
		case <-time.After(50 * time.Millisecond):
		}
	}

	return c07Result{outcome: "timeout"}, true, true
}

var c07FrameRE = regexp.MustCompile(`(?m)^(github\.com/tucats/ego/.+)\([^()]*\)$`)

// c07Class: stable id from the first ego frame below the panic and the kind of panic.
func c07Class(panicV, stack string) (cls, fn, kind string) {
	kind = "other"

	switch {
	case strings.Contains(panicV, "index out of range"):
		kind = "index"
	case strings.Contains(panicV, "slice bounds out of range"):
		kind = "slice"
	case strings.Contains(panicV, "nil pointer dereference"), strings.Contains(panicV, "nil map"):
		kind = "nil"
	case strings.Contains(panicV, "interface conversion"):
		kind = "conversion"
	case strings.Contains(panicV, "makeslice"), strings.Contains(panicV, "out of memory"):
		kind = "alloc"
	case strings.Contains(panicV, "divide by zero"):
		kind = "divide"
	case strings.Contains(panicV, "reflect"):
		kind = "reflect"
	case strings.Contains(panicV, "closed channel"), strings.Contains(panicV, "nil channel"):
		kind = "chan"
	case strings.Contains(panicV, "sync: "):
		kind = "sync"
	}

	// skip everything up to the runtime "panic(" frame, then the first ego frame
	if i := strings.Index(stack, "\npanic("); i >= 0 {
		stack = stack[i:]
	}

	fn = "unknown"

	for _, m := range c07FrameRE.FindAllStringSubmatch(stack, -1) {
		f := strings.TrimPrefix(m[1], "github.com/tucats/ego/")
		if strings.Contains(f, "c07") || strings.Contains(f, "verifh") {
			continue
		}

		fn = strings.TrimSuffix(f, ".func1")

		break
	}

	return "panic:" + fn + ":" + kind, fn, kind
}

func c07Setup(t *testing.T) string {
	out := os.Getenv("VERIF_OUT")
	if out == "" {
		out = t.TempDir()
	}

	wd, _ := os.Getwd()
	c07Root = filepath.Join(wd, "..", "..", "..", "tests")

	sandbox := filepath.Join(out, "sandbox")
	_ = os.MkdirAll(sandbox, 0o755)
	settings.SetDefault(defs.SandboxPathSetting, sandbox)
	settings.SetDefault(defs.ExtensionsEnabledSetting, defs.True)
	_ = os.Chdir(sandbox)

	// keep SIGINT from ever killing the harness: one permanent subscriber
	keep := make(chan os.Signal, 8)
	signal.Notify(keep, os.Interrupt)

	go func() {
		for range keep {
		}
	}()

	if null, err := os.OpenFile(os.DevNull, os.O_WRONLY, 0); err == nil {
		os.Stdout = null
	}

	debug.SetMemoryLimit(3 << 30)

	return out
}

func TestVerifC07Child(t *testing.T) {
	if os.Getenv("C07_CHILD") == "" {
		t.Skip("only run as a child of TestVerifC07")
	}

	out := c07Setup(t)

	if p := os.Getenv("C07_CONFIRM"); p != "" {
		var cur c07Cur

		b, _ := os.ReadFile(p)
		if json.Unmarshal(b, &cur) != nil {
			t.Fatalf("bad confirm file")
		}

		if mb, err := strconv.Atoi(os.Getenv("C07_MAXSTACK")); err == nil && mb > 0 {
			debug.SetMaxStack(mb << 20)
		}

		res, timedOut, abandoned := c07One(cur.Mode, verifh.UnHex(cur.Hex), 200*time.Second)

		time.Sleep(8 * c07Settle) // goroutines the program left behind get their chance to kill the process
		fmt.Fprintf(os.Stderr, "C07-CONFIRM outcome=%s timedOut=%v abandoned=%v %s\n", res.outcome, timedOut, abandoned, res.panicV)

		return
	}

	from, _ := strconv.Atoi(os.Getenv("C07_FROM"))
	serial := os.Getenv("C07_SERIAL")

	debug.SetMaxStack(256 << 20)

	fails := verifh.Out("c07_failures." + serial + ".jsonl")
	slow := verifh.Out("c07_slow." + serial + ".jsonl")
	aband, _ := os.Create(filepath.Join(out, "c07_abandoned."+serial+".jsonl"))
	stats := verifh.NewStats()
	cur := filepath.Join(out, "c07_current.json")
	seenClass := map[string]int{}

	save := func() {
		for cls, n := range seenClass {
			stats.Set("class."+cls, n)
		}

		stats.Save("c07_stats." + serial + ".json")
	}

	defer func() {
		fails.Close()
		slow.Close()
		_ = aband.Close()
		save()
		_ = os.Remove(cur)
	}()

	// heap watchdog: a case that allocates without bound is interrupted like a timeout
	stop := make(chan struct{})
	defer close(stop)

	go func() {
		var m runtime.MemStats

		for {
			select {
			case <-stop:
				return
			case <-time.After(250 * time.Millisecond):
			}

			runtime.ReadMemStats(&m)

			if m.HeapAlloc > 2<<30 {
				stats.Inc("heap_watchdog_interrupts")
				_ = syscall.Kill(os.Getpid(), syscall.SIGINT)
			}
		}
	}()

	seenInput := map[string]bool{}
	abandonedTotal := 0
	deadline := 2 * time.Second
	index := -1
	resumeAt := -1

	var prevConc []c07Cur

	runCase := func(mode, kind, src string) {
		index++
		if index < from {
			return
		}

		// too many goroutines that nobody can stop (they burn CPU): hand over to a fresh child
		if abandonedTotal >= 12 {
			if resumeAt < 0 {
				resumeAt = index
				_ = os.WriteFile(filepath.Join(out, "c07_resume."+serial), []byte(strconv.Itoa(index)), 0o644)
			}

			return
		}

		this := c07Cur{Index: index, Mode: mode, Kind: kind, Hex: verifh.Hex(src)}
		line, _ := json.Marshal(c07Cur{Index: index, Mode: mode, Kind: kind, Hex: this.Hex, Prev: prevConc})
		_ = os.WriteFile(cur+".tmp", line, 0o644) // atomically: the child may die at any moment
		_ = os.Rename(cur+".tmp", cur)

		t0 := time.Now()
		res, timedOut, abandoned := c07One(mode, src, deadline)

		if strings.HasPrefix(kind, "conc") {
			// goroutines of the program may outlive its main flow: give them time to finish (or to
			// kill the process) while this case is still the one on record, and remember the case
			time.Sleep(c07Settle)

			if prevConc = append(prevConc, this); len(prevConc) > 3 {
				prevConc = prevConc[1:]
			}
		}

		if el := time.Since(t0); el > 500*time.Millisecond || abandoned {
			slow.Write(map[string]any{"mode": mode, "kind": kind, "ms": el.Milliseconds(), "abandoned": abandoned, "timedOut": timedOut, "input": c07Head(src)})
		}

		stats.Inc("cases")
		stats.Inc("mode." + mode)
		stats.Inc("gen." + kind)
		stats.Inc("outcome." + res.outcome)

		if timedOut {
			stats.Inc("timeouts")
		}

		if abandoned {
			abandonedTotal++

			stats.Inc("abandoned_goroutines")
			_, _ = aband.Write(append(line, '\n'))
			_ = aband.Sync()
		}

		key := mode + "\x00" + src
		if !seenInput[key] {
			seenInput[key] = true

			if c07NonTrivial(src) {
				n := stats.Get("distinct_nontrivial")
				stats.Inc("distinct_nontrivial")

				if res.outcome == "ok" {
					stats.Inc("distinct_nontrivial_ran_ok")
				}

				if n%97 == 0 {
					stats.Sample(map[string]string{"mode": mode, "generator": kind, "outcome": res.outcome, "input": c07Head(src)})
				}
			}
		}

		if res.outcome == "panic" {
			cls, fn, pk := c07Class(res.panicV, res.stack)
			seenClass[cls]++

			if seenClass[cls] <= 3 {
				fails.Write(verifh.Failure{Class: cls, What: "Go panic (" + pk + ") escaped from " + fn + " while handling source text [mode " + mode + ", generator " + kind + "]",
					Input: src, Got: res.panicV + "\n" + c07Trim(res.stack), Want: "program output, an Ego error, or a timeout"})
			}
		}

		if stats.Get("cases")%200 == 0 {
			save()
		}
	}

	c07Drive(t, runCase, stats)
}

func c07Head(s string) string {
	if len(s) > 300 {
		return s[:300]
	}

	return s
}

func c07Trim(stack string) string {
	if i := strings.Index(stack, "\npanic("); i >= 0 {
		stack = stack[i+1:]
	}

	lines := strings.Split(stack, "\n")
	if len(lines) > 14 {
		lines = lines[:14]
	}

	return strings.Join(lines, "\n")
}
