//go:build verif

package admin

// C26 end-to-end oracle (needs no model): generated Ego programs are compiled and run by the
// server's own sandboxed "run code" path (executeAdminEgo with a non-admin session =>
// bytecode.Context.Sandboxed(true)) with the sandbox root set to a generated layout (hostile
// symlinks inside, a canary tree outside). Each program calls one file-touching runtime function
// with a hostile path. Oracles, per program:
//   * WRITE side: a snapshot of everything physically outside the root (names, types, modes, owners,
//     sizes, content hashes, link targets; includes the process working directory) is unchanged;
//     the working directory afterwards is inside the root (os.Chdir).
//   * READ side (non-interference): the same program is run in a twin layout whose INSIDE is
//     identical and whose OUTSIDE differs (other contents, sizes, names, missing files); the two
//     outputs must be equal after replacing the scratch prefix. Any dependence of a sandboxed
//     program's output on the outside world is a read/list/stat leak. Canary tokens must also never
//     appear in the output.
//   * LISTING side (directed, first on every layout): directories INSIDE the root whose ENTRIES are
//     symlinks leading outside (files, directories, chains, names that exist in one world only) are
//     listed by every runtime function that returns metadata or content of directory entries
//     (io.ReadDir: name, type, mode, size, modification time; io.Expand where its walk is finite), and
//     the entries themselves are handed to os.Stat / io.ReadDir / os.ReadFile / os.Open. No returned
//     field may depend on anything outside the root: equal output in the twin layout (times aside),
//     and equal output, times included, in the SAME layout before and after the outside world is
//     changed in place (other sizes, modes, times, types; targets removed / created).

import (
	"fmt"
	"math/rand"
	"os"
	"path/filepath"
	"regexp"
	"strconv"
	"strings"
	"testing"

	"github.com/tucats/ego/internal/cli/settings"
	"github.com/tucats/ego/internal/defs"
	"github.com/tucats/ego/internal/router"
	"github.com/tucats/ego/internal/util"
	"github.com/tucats/ego/internal/verifh"
)

type c26Prog struct {
	fn   string // the Ego function under test
	code string // %P = quoted path literal, %X = quoted second string
	last bool   // leaves non-reproducible names inside the root: run last, output not compared
}

var c26Progs = []c26Prog{
	{"os.ReadFile", `b, e := os.ReadFile(%P); fmt.Println("R", string(b), e)`, false},
	{"os.WriteFile", `e := os.WriteFile(%P, "EGO-W", 0o644); fmt.Println("W", e)`, false},
	{"os.Stat", `i, e := os.Stat(%P); if e == nil { fmt.Println("S", i.Name, i.Size, i.Mode, i.IsDir) } else { fmt.Println("S", e) }`, false},
	{"os.Chmod", `e := os.Chmod(%P, 0o700); fmt.Println("C", e)`, false},
	{"os.Mkdir", `e := os.Mkdir(%P, 0o755); fmt.Println("MK", e)`, false},
	{"os.MkdirAll", `e := os.MkdirAll(%P, 0o755); fmt.Println("MA", e)`, false},
	{"os.Open", `f, e := os.Open(%P); if e == nil { b := make([]byte, 40); n, e2 := f.Read(b); fmt.Println("O", n, string(b), e2); f.Close() } else { fmt.Println("O", e) }`, false},
	{"os.Create", `f, e := os.Create(%P); if e == nil { f.WriteString("EGO-C"); f.Close() }; fmt.Println("CR", e)`, false},
	{"os.Chdir", `e := os.Chdir(%P); fmt.Println("CD", e)`, false},
	{"os.Chown", `e := os.Chown(%P, 12345, 12345); fmt.Println("CO", e)`, false},
	{"os.Remove", `e := os.Remove(%P); fmt.Println("RM", e)`, false},
	{"os.RemoveAll", `e := os.RemoveAll(%P); fmt.Println("RA", e)`, false},
	{"io.Open", `f, e := io.Open(%P, "create"); if e == nil { f.WriteString("EGO-IO"); f.Close() }; fmt.Println("IOC", e)`, false},
	{"io.Open", `f, e := io.Open(%P, "append"); if e == nil { f.WriteString("EGO-IA"); f.Close() }; fmt.Println("IOA", e)`, false},
	{"io.Open", `f, e := io.Open(%P, "read"); if e == nil { s, e2 := f.ReadString(); fmt.Println("IOR", s, e2); f.Close() } else { fmt.Println("IOR", e) }`, false},
	{"io.ReadDir", `d, e := io.ReadDir(%P); fmt.Println("RD", e); for _, x := range d { fmt.Println(x.Name, x.IsDirectory, x.Mode, x.Size) }`, false},
	{"io.Expand", `l, e := io.Expand(%P, %X); fmt.Println("EX", l, e)`, false},
	{"io.Expand", `l, e := io.Expand(%P); fmt.Println("EX1", l, e)`, false},
	{"json.ReadFile", `v, e := json.ReadFile(%P); fmt.Println("JR", v, e)`, false},
	{"json.WriteFile", `e := json.WriteFile(%P, "EGO-J"); fmt.Println("JW", e)`, false},
	{"filepath.Abs", `s, e := filepath.Abs(%P); fmt.Println("AB", s, e)`, false},
	{"sql.Open", `d, e := sql.Open("sqlite3", %P); fmt.Println("SQ", e == nil); if e == nil { d.Close() }`, true},
	{"os.CreateTemp", `f, e := os.CreateTemp(%P, "ct*"); fmt.Println("CT", e == nil); if e == nil { f.Close() }`, true},
}

// Listing programs. %P = quoted path, %T = a time expression's layout argument. The modification
// time is printed as one trailing " T=<stamp>" token so that it can be dropped for the twin
// comparison (the twins' insides are created at different instants).
const c26Stamp = `"2006-01-02T15:04:05.000000000"`

var c26ListDir = []c26Prog{
	{"io.ReadDir", `d, e := io.ReadDir(%P); fmt.Println("RD", e, len(d)); for _, x := range d { fmt.Println(x.Name, x.IsDirectory, x.Mode, x.Size, "T=" + x.Modified.Format(%T)) }`, false},
	{"io.Expand", `l, e := io.Expand(%P); fmt.Println("EX1", l, e)`, false},
	{"io.Expand", `l, e := io.Expand(%P, ".json"); fmt.Println("EX", l, e)`, false},
}

var c26ListChild = []c26Prog{
	{"os.Stat", `i, e := os.Stat(%P); if e == nil { fmt.Println("S", i.Name, i.Size, i.Mode, i.IsDir, "T=" + i.ModTime.Format(%T)) } else { fmt.Println("S", e) }`, false},
	{"io.ReadDir", `d, e := io.ReadDir(%P); fmt.Println("RD", e, len(d)); for _, x := range d { fmt.Println(x.Name, x.IsDirectory, x.Mode, x.Size, "T=" + x.Modified.Format(%T)) }`, false},
	{"os.ReadFile", `b, e := os.ReadFile(%P); fmt.Println("R", len(b), string(b), e)`, false},
	{"os.Open", `f, e := os.Open(%P); if e == nil { b := make([]byte, 40); n, e2 := f.Read(b); fmt.Println("O", n, string(b), e2); f.Close() } else { fmt.Println("O", e) }`, false},
}

var c26StampRE = regexp.MustCompile(` T=\S+`)

// c26EscapingEntries counts the entries of the physical directory dir that are symlinks the kernel
// resolves to something that exists outside the root (measured, for the coverage counters).
func c26EscapingEntries(l *verifh.C26Layout, dir string) (links []string, escaping int) {
	ents, _ := os.ReadDir(dir)

	for _, e := range ents {
		if e.Type()&os.ModeSymlink == 0 {
			continue
		}

		links = append(links, e.Name())

		if p, err := filepath.EvalSymlinks(filepath.Join(dir, e.Name())); err == nil && !l.C26PhysWithin(p) {
			escaping++
		}
	}

	return links, escaping
}

// c26Ext builds the hostile second argument of io.Expand: the extension is appended to the
// (already confined) path, so it can finish a directory name and climb out again.
func c26Ext(r *rand.Rand, l *verifh.C26Layout, p *string) string {
	switch r.Intn(10) {
	case 0:
		return ""
	case 1:
		return ".json"
	case 2:
		return "/../outside/canary.json"
	case 3:
		return "/canary.txt"
	case 4, 5, 6, 7, 8:
		// split an existing inside directory name between the path and the extension
		if len(l.Dirs) > 1 {
			d := l.Dirs[1+r.Intn(len(l.Dirs)-1)]
			rel, _ := filepath.Rel(l.PhysRoot, d)
			up := strings.Repeat("../", strings.Count(rel, "/")+2)
			*p = rel[:len(rel)-1]

			return rel[len(rel)-1:] + "/" + up + []string{"outside/canary.json", "outside/canary.json", "outside/sub/kname-w0-5511", "outside/sub", "outside/canary.txt"}[r.Intn(5)]
		}

		return ".txt"
	default:
		return "/../../outside/canary.txt"
	}
}

// c26ExpandSafe: io.Expand recurses through every directory entry, re-confining each child path;
// a symlink to an ancestor directory, or one that escapes / dangles and is therefore clamped back to
// the root, makes that recursion endless (a denial of service, not a containment question), so
// io.Expand is only exercised where its walk is finite.
func c26ExpandSafe(l *verifh.C26Layout, path string) bool {
	q := util.SandboxJoin(l.Root, path)
	safe := true

	_ = filepath.WalkDir(q, func(p string, d os.DirEntry, err error) error {
		if err != nil {
			return nil
		}

		if li, e := os.Lstat(p); e == nil && li.Mode()&os.ModeSymlink != 0 {
			// a link is harmless for the walk only if it leads to a regular file inside the root;
			// anything else (directory, dangling, loop, outside => clamped to the root) can cycle
			r, e := filepath.EvalSymlinks(p)
			fi, e2 := os.Stat(p)

			if e != nil || e2 != nil || fi.IsDir() || !l.C26PhysWithin(r) {
				safe = false
			}
		}

		return nil
	})

	return safe
}

func c26Class(fn string) string {
	if fn == "sql.Open" {
		return "sql-open-sqlite-path" // known finding: deterministic predicate = the function called
	}

	return "escape:" + fn
}

func TestVerifC26E2E(t *testing.T) {
	fails := verifh.Out("c26e_failures.jsonl")
	stats := verifh.NewStats()

	defer func() { fails.Close(); stats.Save("c26e_stats.json") }()

	home, _ := os.Getwd()
	defer os.Chdir(home)

	scratch := os.Getenv("VERIF_OUT")
	sess := &router.Session{ID: 26, User: "c26", Admin: false}
	r := verifh.Rand(2602)
	nLay := verifh.N(30, 250)
	perLay := 26
	distinct := map[string]bool{}

	run := func(l *verifh.C26Layout, code string) string {
		settings.SetDefault(defs.SandboxPathSetting, l.Root)
		_ = os.Chdir(filepath.Join(l.Base, "cwd"))

		out, err := executeAdminEgo(sess, code, false, false, "c26-session")
		if err != nil {
			out += "\nERR " + err.Error()
		}

		return strings.ReplaceAll(out, l.Base, "<BASE>")
	}

	for li := 0; li < nLay; li++ {
		seed := r.Int63()
		la := verifh.C26NewLayout(rand.New(rand.NewSource(seed)), scratch, 0)
		lb := verifh.C26NewLayout(rand.New(rand.NewSource(seed)), scratch, 1)
		stats.Inc(fmt.Sprintf("layout_variant_%d", la.Variant))

		// ---- directed listing phase (on the pristine layout) ----
		type listRun struct {
			pg         c26Prog
			path, in   string
			codeA      string
			outA, outB string
		}

		var lruns []listRun

		hostA, hostB := la.C26AddListing(rand.New(rand.NewSource(seed+1))), lb.C26AddListing(rand.New(rand.NewSource(seed+1)))

		if hostA != "" && strings.TrimPrefix(hostA, la.Base) == strings.TrimPrefix(hostB, lb.Base) {
			// the planted directory, plus up to two more inside directories that hold symlinks
			ldirs := []string{hostA}

			for _, i := range r.Perm(len(la.Dirs)) {
				if d := la.Dirs[i]; d != hostA && len(ldirs) < 3 {
					if lk, _ := c26EscapingEntries(la, d); len(lk) > 0 {
						ldirs = append(ldirs, d)
					}
				}
			}

			spell := func(rel string) string {
				switch r.Intn(4) {
				case 0:
					return "/" + rel
				case 1:
					return la.Root + "/" + rel
				case 2:
					return "./" + rel + "/"
				default:
					return rel
				}
			}

			add := func(pg c26Prog, path string) {
				mk := func(l *verifh.C26Layout) string {
					c := strings.ReplaceAll(pg.code, "%P", strconv.Quote(strings.ReplaceAll(path, la.Base, l.Base)))

					return strings.ReplaceAll(c, "%T", c26Stamp)
				}

				lruns = append(lruns, listRun{pg: pg, path: path, codeA: mk(la), outA: run(la, mk(la)), outB: run(lb, mk(lb)),
					in: fmt.Sprintf("fn=%s program=%q layout=%q root=%q", pg.fn, mk(la), la.Line(), la.Root)})
			}

			for di, d := range ldirs {
				rel, _ := filepath.Rel(la.PhysRoot, d)
				links, esc := c26EscapingEntries(la, d)
				stats.Inc("listing_dirs")
				stats.Add("listing_entries_links", len(links))
				stats.Add("listing_entries_escaping", esc)

				for _, pg := range c26ListDir {
					if pg.fn == "io.Expand" && !(c26ExpandSafe(la, rel) && c26ExpandSafe(lb, rel)) {
						stats.Inc("expand_skipped_cyclic")

						continue
					}

					add(pg, spell(rel))
				}

				// the entries themselves as path arguments (clamped by the helper when they lead out)
				r.Shuffle(len(links), func(i, j int) { links[i], links[j] = links[j], links[i] })

				for i, name := range links {
					if i >= 3-di {
						break
					}

					add(c26ListChild[r.Intn(len(c26ListChild))], spell(filepath.Join(rel, name)))
				}
			}

			// same layout, another outside world
			la.C26MutateOutside()

			for _, x := range lruns {
				out2 := run(la, x.codeA)

				stats.Inc("programs")
				stats.Inc("listing_programs")
				stats.Inc("fn:" + x.pg.fn)
				stats.Sample(map[string]string{"program": x.codeA, "root": la.Root, "output": x.outA})

				switch {
				case strings.Contains(x.outA+out2, "CANARY-") || strings.Contains(x.outA+out2, "kname-w") || strings.Contains(x.outA+out2, "more-w1"):
					fails.Write(verifh.Failure{Class: c26Class(x.pg.fn), What: "a sandboxed program printed canary data that exists only outside the root",
						Input: x.in, Got: x.outA + "\n-- after the outside changed --\n" + out2})
				case c26StampRE.ReplaceAllString(x.outA, "") != c26StampRE.ReplaceAllString(x.outB, ""):
					fails.Write(verifh.Failure{Class: c26Class(x.pg.fn), What: "a listing taken inside the root depends on the world outside it (entry metadata / names leak; twin layout with another outside world)",
						Input: x.in, Got: x.outA, Want: x.outB})
				case x.outA != out2:
					fails.Write(verifh.Failure{Class: c26Class(x.pg.fn), What: "a listing taken inside the root changed when only the world outside it was changed (entry metadata / names leak; sizes, modes, times, types and existence of outside link targets were altered in place)",
						Input: x.in, Got: out2, Want: x.outA})
				}
			}
		} else if hostA != "" {
			t.Fatalf("twin layouts diverged: %s / %s", hostA, hostB)
		}

		snapA, snapB := la.C26Snapshot(), lb.C26Snapshot()

		// program list: every function at least once per two layouts, "last" programs at the end
		var progs []c26Prog

		for i := 0; i < perLay; i++ {
			if p := c26Progs[r.Intn(len(c26Progs))]; !p.last {
				progs = append(progs, p)
			}
		}

		for _, p := range c26Progs {
			if p.last {
				progs = append(progs, p, p)
			}
		}

		for _, pg := range progs {
			path := la.C26Path(r)
			if r.Intn(4) == 0 {
				// paths that name something real outside the root: absolutely, or relative to the
				// working directory (which is OUTSIDE the root: an unconfined relative name lands there)
				path = []string{filepath.Join(la.Base, "outside/canary.json"), "../outside/canary.json", "../outside/sub", filepath.Join(la.Base, "outside/sub"),
					"../outside/canary.txt", filepath.Join(la.Base, "outside/canary.txt"), "../outside/made.json", "here.json", "../outside/sub/kname-w0-5511"}[r.Intn(9)]
			}
			if strings.ContainsAny(path, "\x00") || (pg.fn == "os.ReadFile" && filepath.Clean(path) == ".") {
				path = "../outside/canary.json" // (os.ReadFile(".") reads the console)
			}

			ext := ""
			if strings.Contains(pg.code, "%X") {
				ext = c26Ext(r, la, &path)
			}

			if pg.fn == "io.Expand" && !(c26ExpandSafe(la, path) && c26ExpandSafe(lb, strings.ReplaceAll(path, la.Base, lb.Base))) {
				stats.Inc("expand_skipped_cyclic")

				continue
			}

			mk := func(l *verifh.C26Layout) string {
				p := strings.ReplaceAll(path, la.Base, l.Base)
				c := strings.ReplaceAll(pg.code, "%P", strconv.Quote(p))

				return strings.ReplaceAll(c, "%X", strconv.Quote(ext))
			}

			outA := run(la, mk(la))
			wd, _ := os.Getwd()
			wd, _ = filepath.EvalSymlinks(wd)
			outB := run(lb, mk(lb))
			in := fmt.Sprintf("fn=%s program=%q layout=%q root=%q", pg.fn, mk(la), la.Line(), la.Root)

			stats.Inc("programs")
			stats.Inc("fn:" + pg.fn)

			if k := pg.fn + "\x00" + path + "\x00" + ext; !distinct[k] && (strings.Contains(path, "..") || strings.HasPrefix(path, "/") || len(la.Links) > 0) {
				distinct[k] = true
				stats.Inc("distinct_nontrivial")
			}

			stats.Sample(map[string]string{"program": mk(la), "root": la.Root, "output": outA})

			if strings.Contains(outA, "CANARY-") || (strings.Contains(outA, "kname-w") && !strings.Contains(mk(la), "kname-w")) {
				fails.Write(verifh.Failure{Class: c26Class(pg.fn), What: "a sandboxed program printed canary data that exists only outside the root",
					Input: in, Got: outA})
			} else if !pg.last && outA != outB {
				fails.Write(verifh.Failure{Class: c26Class(pg.fn), What: "the output of a sandboxed program depends on the world outside the root (read/list/stat leak)",
					Input: in, Got: outA, Want: outB})
			}

			if wd != filepath.Join(la.Base, "cwd") && !la.C26PhysWithin(wd) {
				fails.Write(verifh.Failure{Class: c26Class(pg.fn), What: "the working directory left the sandbox root", Input: in, Got: wd})
			}

			for _, x := range []struct {
				l    *verifh.C26Layout
				snap *string
			}{{la, &snapA}, {lb, &snapB}} {
				if after := x.l.C26Snapshot(); after != *x.snap {
					fails.Write(verifh.Failure{Class: c26Class(pg.fn), What: "a sandboxed program changed the tree outside the root",
						Input: in, Got: verifh.C26Diff(*x.snap, after), Want: "outside tree unchanged"})
					*x.snap = after
				}
			}
		}

		_ = os.Chdir(home)
		_ = os.RemoveAll(la.Base)
		_ = os.RemoveAll(lb.Base)
	}

	settings.SetDefault(defs.SandboxPathSetting, "")
}
