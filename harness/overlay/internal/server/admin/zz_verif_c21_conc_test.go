//go:build verif

package admin

// C21, concurrent stream: validations of a token overlapping a change of the revocation list.
//
// The sequential streams (zz_verif_c21_test.go) cannot see a lookup that writes a stale answer
// back into BlacklistCache after a revocation change has invalidated the caches. This stream
// runs REAL goroutines in real time (no synctest bubble: SQLite's busy handler sleeps in the
// kernel) against the same real functions, with the blacklist in an SQLite file opened the way
// the server opens it (WAL, busy timeout on every pooled connection):
//
//   * "parked" rounds: the harness holds the database's write lock from a connection of its own
//     (as any other writer to the credentials database would) while one or more validations of a
//     revoked token X are started; they find the active row and wait to record the attempt in
//     the row's audit fields. Then a change (Delete / Flush, directly or through the REST
//     handlers, optionally preceded by cache purges) is started, the lock is released, and
//     everything is joined. The waiting validations have by then backed off to SQLite's 100 ms
//     polling step while the change polls every 1–2 ms, so the change normally commits first.
//     Whether a validation is parked is observed hook-free from runtime.Stack (with a plain
//     sleep as fall-back); that only widens the window — it is not part of the oracle.
//   * "free" micro-rounds: one validation that must miss the cache and one change
//     (Blacklist or Delete) of the same id released together, no lock held by the harness.
//   * "storm" rounds: several validators looping over several tokens, a purger, and one changer
//     goroutine per token applying a random list of changes.
//
// Oracle (model-free, at the quiescent point only): after ALL goroutines of a round have joined,
// the harness knows each token's revocation state from the changes it applied (per token they are
// applied by one goroutine, in order) and reads the rows back over its own connection; both must
// agree, and every fresh validation of X — repeated, on several paths — must give: revoked ⇒
// rejected, not revoked ⇒ accepted. Verdicts obtained DURING the overlap are not judged (either
// order is a valid linearisation).
//
//   * "logpark" rounds (router path vs. Blacklist): the router writes an accepted token into its
//     own TokenCache AFTER tokens.Unwrap has consulted the revocation list; Blacklist purges
//     TokenCache. The only thing between the lookup and the write-back is the AUTH log line
//     "auth.decrypted", so the harness switches the AUTH logger on and lets the log go to a pipe
//     that is full (a slow log consumer): the router validation parks in that write (observed from
//     runtime.Stack), Blacklist(X) runs to completion, then the pipe is drained. Class
//     conc-router-cache-after-purge = router reader ∧ Blacklist changer ∧ the tokens-level reads
//     are right ∧ the router accepts at the quiescent point.

import (
	"context"
	"database/sql"
	"fmt"
	"net/http"
	"net/http/httptest"
	"os"
	"path/filepath"
	"runtime"
	"strings"
	"sync"
	"testing"
	"time"

	"github.com/google/uuid"
	"github.com/tucats/ego/internal/caches"
	"github.com/tucats/ego/internal/cli/settings"
	"github.com/tucats/ego/internal/cli/ui"
	"github.com/tucats/ego/internal/defs"
	"github.com/tucats/ego/internal/errors"
	"github.com/tucats/ego/internal/language/data"
	"github.com/tucats/ego/internal/language/symbols"
	"github.com/tucats/ego/internal/language/tokens"
	"github.com/tucats/ego/internal/router"
	"github.com/tucats/ego/internal/runtime/cipher"
	"github.com/tucats/ego/internal/server/auth"
	"github.com/tucats/ego/internal/verifh"
)

const c21Pragma = "?_pragma=busy_timeout(20000)"

type c21CTok struct {
	n       int // number in the protocol lines
	text    string
	tok     *tokens.Token
	uuid    string
	revoked bool // the harness's own record of the revocation list
}

type c21Conc struct {
	t      *testing.T
	fails  *verifh.Writer
	stats  *verifh.Stats
	side   *sql.Conn
	symtab *symbols.SymbolTable
	toks   []*c21CTok
	nfail  int
	round  int
	log    []string // protocol lines of the current round
	logMu  sync.Mutex
	argon  time.Duration // measured cost of one tokens.Unwrap (one Argon2 derivation)
	// facts about the current round (the class of a failure is a predicate on these)
	routerReader bool // a router-path validation ran concurrently
	blChanger    bool // a Blacklist ran concurrently
}

func (c *c21Conc) line(format string, a ...any) {
	c.logMu.Lock()
	c.log = append(c.log, fmt.Sprintf(format, a...))
	c.logMu.Unlock()
}

func (c *c21Conc) failure(class, what, got, want string) {
	c.stats.Inc("oracle_failures")
	c.nfail++

	if c.nfail > 6 {
		return
	}

	c.logMu.Lock()
	in := strings.Join(c.log, " ; ")
	c.logMu.Unlock()
	c.fails.Write(verifh.Failure{Class: class, What: what, Input: in, Got: got, Want: want})
}

func c21Err(err error) string {
	if err == nil {
		return "nil"
	}

	return c21Classify(err)
}

// ---------------------------------------------------------------- validation paths

// check presents token tk on one path; true = accepted (not revoked).
func (c *c21Conc) check(path string, tk *c21CTok) (accepted bool, detail string) {
	switch path {
	case "ib":
		rev, err := tokens.IsBlacklisted(*tk.tok)

		return !rev && err == nil, fmt.Sprintf("IsBlacklisted=(%v,%s)", rev, c21Err(err))
	case "id":
		rev, err := tokens.IsIDBlacklisted(tk.uuid)

		return !rev && err == nil, fmt.Sprintf("IsIDBlacklisted=(%v,%s)", rev, c21Err(err))
	case "v":
		ok, err := tokens.Validate(tk.text, 0)

		return ok && err == nil, fmt.Sprintf("Validate=(%v,%s)", ok, c21Err(err))
	case "u":
		t, err := tokens.Unwrap(tk.text, 0)

		return t != nil && err == nil, "Unwrap=" + c21Err(err)
	case "cv":
		v, err := cipher.Validate(c.symtab, data.NewList(tk.text))
		b, _ := v.(bool)

		return b && err == nil, fmt.Sprintf("cipher.Validate=(%v,%s)", v, c21Err(err))
	default: // "r"
		req := httptest.NewRequest(http.MethodGet, "/services/x", nil)
		req.Header.Set("Authorization", "Bearer "+tk.text)
		s := (&router.Session{ID: 1, URLParts: map[string]any{}, Parameters: map[string][]string{}}).Authenticate(req)

		return s.Authenticated, fmt.Sprintf("router.Authenticated=%v", s.Authenticated)
	}
}

// ---------------------------------------------------------------- changes

// apply runs one change of the revocation list / caches and returns the expected state of tk
// afterwards. It is called from the single changer goroutine of tk (or sequentially).
func (c *c21Conc) apply(op string, tk *c21CTok, revoked bool) bool {
	c.stats.Inc("conc_op_" + op)

	switch op {
	case "bl": // revoking an id that is already listed is refused (and changes nothing)
		if err := tokens.Blacklist(tk.uuid); err != nil && !revoked {
			c.t.Errorf("Blacklist: %v", err)
		}

		return true
	case "blh":
		body := strings.NewReader(`["` + tk.uuid + `"]`)
		req := httptest.NewRequest(http.MethodPost, "/admin/tokens/revoke", body)

		if st := TokenRevokeHandler(c.session(), httptest.NewRecorder(), req); st != http.StatusOK && !revoked {
			c.t.Errorf("revoke handler status %d", st)
		}

		return true
	case "del":
		if err := tokens.Delete(tk.uuid); err != nil && !errors.Equal(err, errors.ErrNotFound) {
			c.t.Errorf("Delete: %v", err)
		}

		return false
	case "delh":
		s := c.session()
		s.URLParts["id"] = tk.uuid
		req := httptest.NewRequest(http.MethodDelete, "/admin/tokens/"+tk.uuid, nil)

		if st := TokenDeleteHandler(s, httptest.NewRecorder(), req); st != http.StatusOK && st != http.StatusNotFound {
			c.t.Errorf("delete handler status %d", st)
		}

		return false
	case "flush":
		if _, err := tokens.Flush(); err != nil {
			c.t.Errorf("Flush: %v", err)
		}

		return false
	case "flushh":
		req := httptest.NewRequest(http.MethodPost, "/admin/tokens/flush", nil)
		if st := TokenFlushHandler(c.session(), httptest.NewRecorder(), req); st != http.StatusOK {
			c.t.Errorf("flush handler status %d", st)
		}

		return false
	case "purgebl":
		caches.Purge(caches.BlacklistCache)
	case "purgeall":
		caches.PurgeAll()
	}

	return revoked
}

func (c *c21Conc) session() *router.Session {
	return &router.Session{ID: 1, URLParts: map[string]any{}, Parameters: map[string][]string{}}
}

// rows counts the active rows for tk over the harness's own connection.
func (c *c21Conc) rows(tk *c21CTok) int {
	n := -1
	if err := c.side.QueryRowContext(context.Background(), "SELECT COUNT(*) FROM blacklist WHERE id = ?", tk.uuid).Scan(&n); err != nil {
		c.t.Fatalf("reading the blacklist table: %v", err)
	}

	return n
}

// quiescent is the oracle: nothing else is running.
func (c *c21Conc) quiescent(tk *c21CTok, paths []string) {
	c.stats.Inc("conc_quiescent_points")

	if n := c.rows(tk); (n > 0) != tk.revoked {
		c.line("rows %d = %d", tk.n, n)
		c.failure("conc-lost-change", "after all changes had returned the table does not hold what they did",
			fmt.Sprintf("%d rows", n), fmt.Sprintf("revoked=%v", tk.revoked))

		return
	}

	for i, p := range paths {
		acc, detail := c.check(p, tk)
		c.stats.Inc("conc_quiescent_reads")

		if acc == !tk.revoked {
			continue
		}

		c.line("val %s %d", p, tk.n)

		// how persistent is it? (a stale cache entry is refreshed by every Find)
		again := 0
		rp := "ib"
		if p == "r" {
			rp = "r"
		}

		for k := 0; k < 3; k++ {
			if a, _ := c.check(rp, tk); a == acc {
				again++
			}
		}

		if tk.revoked && p == "r" && c.routerReader && c.blChanger {
			// the tokens-level reads before this one were right: the stale answer is the router's own cache
			_, inCache := caches.Find(caches.TokenCache, tk.text)
			c.failure("conc-router-cache-after-purge",
				fmt.Sprintf("quiescent point: every change has returned, the id IS on the revocation list (table row present, "+
					"IsBlacklisted=true), yet the router authenticates the token (read %d; %d of 3 further router validations "+
					"agree; token text in TokenCache: %v): a router validation that overlapped the Blacklist wrote the token "+
					"into TokenCache after the Blacklist had purged it", i+1, again, inCache),
				detail, "rejected")
		} else if tk.revoked {
			c.failure("conc-accept-revoked",
				fmt.Sprintf("quiescent point: every change has returned, the id IS on the revocation list (table row present), "+
					"yet the token is accepted (read %d on path %s; %d of 3 further lookups agree with the stale answer)", i+1, p, again),
				detail, "rejected")
		} else {
			c.failure("conc-reject-unrevoked",
				fmt.Sprintf("quiescent point: every change has returned, the id is NOT on the revocation list (no table row), "+
					"yet the token is refused (read %d on path %s; %d of 3 further lookups agree with the stale answer)", i+1, p, again),
				detail, "accepted")
		}

		return
	}
}

// ---------------------------------------------------------------- observing parked goroutines

var c21StackBuf = make([]byte, 4<<20)

// c21Goroutines counts goroutines whose stack mentions every one of the given substrings.
func c21Goroutines(all ...string) int {
	n := runtime.Stack(c21StackBuf, true)
	cnt := 0

	for _, g := range strings.Split(string(c21StackBuf[:n]), "\n\n") {
		ok := true
		for _, s := range all {
			if !strings.Contains(g, s) {
				ok = false

				break
			}
		}

		if ok {
			cnt++
		}
	}

	return cnt
}

// c21WaitFor polls until cond() or the deadline; reports whether cond() was seen.
func c21WaitFor(d time.Duration, cond func() bool) bool {
	end := time.Now().Add(d)
	for time.Now().Before(end) {
		if cond() {
			return true
		}

		time.Sleep(5 * time.Millisecond)
	}

	return false
}

func c21Join(t *testing.T, wg *sync.WaitGroup, what string) {
	done := make(chan struct{})

	go func() { wg.Wait(); close(done) }()

	select {
	case <-done:
	case <-time.After(120 * time.Second):
		buf := make([]byte, 1<<20)
		t.Fatalf("%s: goroutines did not finish:\n%s", what, buf[:runtime.Stack(buf, true)])
	}
}

// ---------------------------------------------------------------- rounds

func (c *c21Conc) begin(kind string) {
	c.round++
	c.logMu.Lock()
	c.log = []string{fmt.Sprintf("conc %s round %d", kind, c.round)}
	c.logMu.Unlock()
	c.stats.Inc("conc_rounds_" + kind)
	c.routerReader, c.blChanger = false, false
}

// parked: validations of revoked tk wait at their audit update behind the harness's write lock
// while `changes` (ending the revocation) arrive.
func (c *c21Conc) parked(tk *c21CTok, readers []string, changes []string) {
	c.begin("parked")
	ctx := context.Background()

	// revoked, and nothing cached (Blacklist purges; a purge is an admin operation too)
	if !tk.revoked {
		tk.revoked = c.apply("bl", tk, tk.revoked)
		c.line("bl %d", tk.n)
	} else {
		c.apply("purgebl", tk, true)
		c.line("purgebl")
	}

	if _, err := c.side.ExecContext(ctx, "BEGIN IMMEDIATE"); err != nil {
		c.t.Fatalf("BEGIN IMMEDIATE: %v", err)
	}

	c.line("hold-db-write-lock")

	var wg sync.WaitGroup

	for _, p := range readers {
		c.routerReader = c.routerReader || p == "r"
		wg.Add(1)

		go func() {
			defer wg.Done()
			c.check(p, tk)
		}()

		c.line("go val %s %d", p, tk.n)
	}

	// wait until a validation is inside the audit update, then until it has backed off
	if c21WaitFor(8*time.Second, func() bool { return c21Goroutines("tokens.Is", "ResHandle).Update") > 0 }) {
		c.stats.Inc("conc_parked_observed")
		c.line("(validation parked in its audit update)")
	} else {
		time.Sleep(300 * time.Millisecond)
	}

	time.Sleep(280 * time.Millisecond)

	wg.Add(1)

	after := tk.revoked

	go func() {
		defer wg.Done()

		for _, op := range changes {
			after = c.apply(op, tk, after)
		}
	}()

	c.line("go %s %d", strings.Join(changes, ","), tk.n)

	// the change has reached the revocation list's lock or the database
	c21WaitFor(2*time.Second, func() bool {
		return c21Goroutines("tokens.Delete(", "Mutex).Lock")+c21Goroutines("tokens.Flush(", "Mutex).Lock")+
			c21Goroutines("tokens.Delete(", "ResHandle).Delete")+c21Goroutines("tokens.Flush(", "ResHandle).Delete") > 0
	})
	time.Sleep(25 * time.Millisecond)

	if _, err := c.side.ExecContext(ctx, "ROLLBACK"); err != nil {
		c.t.Fatalf("ROLLBACK: %v", err)
	}

	c.line("release-db-write-lock")
	c21Join(c.t, &wg, "parked round")
	c.line("join")

	tk.revoked = after

	if containsFlush(changes) { // a flush clears every id
		for _, o := range c.toks {
			if o != tk {
				o.revoked = false
			}
		}
	}

	paths := []string{"ib", "ib", "id", "ib", "v"}
	if c.round%2 == 1 {
		paths = append(paths, "r")
	}

	c.quiescent(tk, paths)
}

func containsFlush(ops []string) bool {
	for _, o := range ops {
		if strings.HasPrefix(o, "flush") {
			return true
		}
	}

	return false
}

// c21FullPipe returns a pipe whose buffer is full: the next write to w blocks until r is read.
func c21FullPipe(t *testing.T) (r, w *os.File) {
	r, w, err := os.Pipe()
	if err != nil {
		t.Fatalf("pipe: %v", err)
	}

	filler := []byte(strings.Repeat(" ", 1023) + "\n")

	for {
		_ = w.SetWriteDeadline(time.Now().Add(30 * time.Millisecond))

		if _, err := w.Write(filler); err != nil {
			break
		}
	}

	_ = w.SetWriteDeadline(time.Time{})

	return r, w
}

// logpark: a router validation of un-revoked tk is parked at the log line between its revocation
// lookup and its TokenCache write-back while `change` (a Blacklist) runs to completion.
func (c *c21Conc) logpark(tk *c21CTok, change string) {
	c.begin("logpark")

	if tk.revoked {
		tk.revoked = c.apply("del", tk, true)
		c.line("del %d", tk.n)
	}

	caches.Purge(caches.TokenCache)
	c.line("purge tokens")

	pr, pw := c21FullPipe(c.t)
	stdout := os.Stdout
	os.Stdout = pw
	was := ui.IsActive(ui.AuthLogger)
	ui.Active(ui.AuthLogger, true)
	c.line("AUTH log on, log consumer stalled")

	c.routerReader, c.blChanger = true, true

	var wg sync.WaitGroup

	wg.Add(1)

	go func() {
		defer wg.Done()
		c.check("r", tk)
	}()

	c.line("go val r %d", tk.n)

	if c21WaitFor(20*time.Second, func() bool { return c21Goroutines("tokens.Unwrap(", "ui.WriteLogString") > 0 }) {
		c.stats.Inc("conc_logpark_observed")
		c.line("(validation parked at its log line, after the revocation lookup)")
	}

	// the revocation runs to completion while the validation is parked (should it log too, it
	// parks as well: then it is only started here and finishes once the consumer resumes)
	done := make(chan bool, 1)
	returned := false

	go func() { done <- c.apply(change, tk, false) }()

	select {
	case tk.revoked = <-done:
		returned = true

		c.line("%s %d (returned)", change, tk.n)
	case <-time.After(5 * time.Second):
		c.line("go %s %d", change, tk.n)
	}

	drained := make(chan struct{})

	go func() {
		buf := make([]byte, 65536)
		for {
			if _, err := pr.Read(buf); err != nil {
				close(drained)

				return
			}
		}
	}()

	c.line("log consumer resumes")
	c21Join(c.t, &wg, "logpark round")

	if !returned {
		select {
		case tk.revoked = <-done:
		case <-time.After(60 * time.Second):
			c.t.Fatalf("logpark: the revocation did not return")
		}
	}

	c.line("join")
	ui.Active(ui.AuthLogger, was)
	os.Stdout = stdout
	pw.Close()
	<-drained
	pr.Close()

	c.quiescent(tk, []string{"ib", "id", "r", "r"})
}

// measure: how often does the free-running form (no stalled log) hit? One round = un-revoked X,
// TokenCache purged, k router validations started, Blacklist(X) after a random share of the
// measured validation time; hit = the router accepts at the quiescent point.
func (c *c21Conc) measure(r interface{ Intn(int) int }, d time.Duration, withLog bool) {
	if withLog { // AUTH log on, written to /dev/null: the ordinary cost of a log line widens the window
		if f, err := os.OpenFile(os.DevNull, os.O_WRONLY, 0); err == nil {
			stdout := os.Stdout
			os.Stdout = f
			was := ui.IsActive(ui.AuthLogger)
			ui.Active(ui.AuthLogger, true)

			defer func() { ui.Active(ui.AuthLogger, was); os.Stdout = stdout; f.Close() }()
		}
	}

	rounds, hits := 0, 0
	tk := c.toks[0]

	for t0 := time.Now(); time.Since(t0) < d; rounds++ {
		if tk.revoked {
			tk.revoked = c.apply("del", tk, true)
		}

		caches.Purge(caches.TokenCache)
		caches.Purge(caches.BlacklistCache)

		var wg sync.WaitGroup

		for k := 0; k < 3; k++ {
			wg.Add(1)

			go func() { defer wg.Done(); c.check("r", tk) }()
		}

		time.Sleep(c.argon * time.Duration(60+r.Intn(120)) / 100)
		tk.revoked = c.apply("bl", tk, false)
		wg.Wait()

		if acc, _ := c.check("r", tk); acc {
			hits++
		}
	}

	c.t.Logf("MEASURE free-running router-vs-Blacklist (AUTH log on: %v): %d stale accepts in %d rounds (%v, Argon2 %v)",
		withLog, hits, rounds, d, c.argon.Round(time.Millisecond))
}

// free: one cache-missing validation and one change of the same id, released together.
func (c *c21Conc) free(tk *c21CTok, path, change string, spin int, delay time.Duration) {
	c.begin("free")

	// opposite state first, nothing cached
	switch change {
	case "bl":
		if tk.revoked {
			tk.revoked = c.apply("del", tk, true)
			c.line("del %d", tk.n)
		}
	default:
		if !tk.revoked {
			tk.revoked = c.apply("bl", tk, false)
			c.line("bl %d", tk.n)
		}
	}

	c.line("(%d revoked: %v)", tk.n, tk.revoked)
	caches.Purge(caches.BlacklistCache)
	c.line("purgebl")

	if path == "r" {
		caches.Purge(caches.TokenCache)
		c.line("purge tokens")
	}

	c.routerReader = path == "r"
	c.blChanger = strings.HasPrefix(change, "bl")

	var wg sync.WaitGroup

	start := make(chan struct{})
	after := tk.revoked

	wg.Add(2)

	go func() {
		defer wg.Done()
		<-start
		c.check(path, tk)
	}()

	go func() {
		defer wg.Done()
		<-start

		for i := 0; i < spin; i++ {
			runtime.Gosched()
		}

		time.Sleep(delay)

		after = c.apply(change, tk, after)
	}()

	c.line("go val %s %d || go %s %d (after %d yields, %v)", path, tk.n, change, tk.n, spin, delay.Round(time.Millisecond))
	close(start)
	c21Join(c.t, &wg, "free round")
	c.line("join")

	tk.revoked = after

	paths := []string{"ib", "id", "ib"}
	if path == "r" {
		paths = append(paths, "r")
	}

	c.quiescent(tk, paths)
}

// storm: validators looping over all tokens, a purger, one changer per token.
func (c *c21Conc) storm(r interface{ Intn(int) int }, onlyUnrevoke bool) {
	c.begin("storm")

	var (
		wg, cwg sync.WaitGroup
		stop    = make(chan struct{})
		after   = make([]bool, len(c.toks))
	)

	ops := []string{"bl", "del", "bl", "del", "blh", "delh", "purgebl"}
	if onlyUnrevoke {
		ops = []string{"del", "delh", "purgebl", "del"}

		for _, tk := range c.toks {
			if !tk.revoked {
				tk.revoked = c.apply("bl", tk, false)
				c.line("bl %d", tk.n)
			}
		}
	}

	for i, tk := range c.toks {
		after[i] = tk.revoked
		list := make([]string, 3+r.Intn(6))

		for k := range list {
			list[k] = ops[r.Intn(len(ops))]
		}

		c.line("go %s %d", strings.Join(list, ","), tk.n)
		c.blChanger = c.blChanger || strings.Contains(","+strings.Join(list, ","), ",bl")
		cwg.Add(1)

		go func() {
			defer cwg.Done()

			for _, op := range list {
				after[i] = c.apply(op, tk, after[i])
				runtime.Gosched()
			}
		}()
	}

	paths := []string{"ib", "id", "ib", "r"}
	c.routerReader = true

	for w, p := range paths {
		wg.Add(1)

		go func() {
			defer wg.Done()

			for k := 0; ; k++ {
				select {
				case <-stop:
					return
				default:
				}

				c.check(p, c.toks[(k+w)%len(c.toks)])
				c.stats.Inc("conc_storm_validations")

				if p == "r" { // one Argon2 derivation per miss: keep it rare
					time.Sleep(2 * time.Millisecond)
				}
			}
		}()
	}

	c.line("go loop val %s over all tokens", strings.Join(paths, ","))
	wg.Add(1)

	go func() { // cache purges force the validators back to the database
		defer wg.Done()

		for {
			select {
			case <-stop:
				return
			default:
			}

			caches.Purge(caches.BlacklistCache)
			time.Sleep(200 * time.Microsecond)
		}
	}()

	c.line("go loop purgebl")
	c21Join(c.t, &cwg, "storm changers")
	close(stop)
	c21Join(c.t, &wg, "storm validators")
	c.line("join")

	for i, tk := range c.toks {
		tk.revoked = after[i]
		c.quiescent(tk, []string{"ib", "id", "ib", "r"})
	}
}

// ---------------------------------------------------------------- entry point

func TestVerifC21Conc(t *testing.T) {
	tp := time.Now()
	os.Setenv("EGO_SERVER_TOKEN_KEY", c21Key)
	settings.Set(defs.ServerAuthoritySetting, "")

	dir := t.TempDir()
	if st, err := os.Stat("/dev/shm"); err == nil && st.IsDir() {
		if d, err := os.MkdirTemp("/dev/shm", "verif-c21-"); err == nil {
			dir = d

			defer os.RemoveAll(d)
		}
	}

	file := filepath.Join(dir, "blacklist.db")
	if err := tokens.SetDatabasePath("sqlite3://" + file + c21Pragma); err != nil {
		t.Fatalf("blacklist database: %v", err)
	}

	svc, err := auth.NewDatabaseService("sqlite3://"+filepath.Join(dir, "users.db"), "alice", uuid.NewString())
	if err != nil {
		t.Fatalf("credentials database: %v", err)
	}

	auth.AuthService = svc
	t.Logf("databases: %v", time.Since(tp).Round(time.Millisecond))

	side, err := sql.Open("sqlite", file+c21Pragma)
	if err != nil {
		t.Fatalf("second connection: %v", err)
	}

	defer side.Close()

	conn, err := side.Conn(context.Background())
	if err != nil {
		t.Fatalf("second connection: %v", err)
	}

	defer conn.Close()

	suffix := os.Getenv("VERIF_C21_SUFFIX") // "race" for the run under the race detector
	if suffix == "" {
		suffix = "conc"
	}

	c := &c21Conc{
		t:      t,
		fails:  verifh.Out("c21_failures." + suffix + ".jsonl"),
		stats:  verifh.NewStats(),
		side:   conn,
		symtab: symbols.NewSymbolTable("c21conc"),
	}

	defer c.fails.Close()
	defer c.stats.Save("c21_stats." + suffix + ".json")

	if _, err := tokens.Flush(); err != nil {
		t.Fatalf("flush at start: %v", err)
	}

	for i := 0; i < 3; i++ {
		text, err := tokens.New("alice", "payload", "1h", c21Instance, 0)
		if err != nil {
			t.Fatalf("issue: %v", err)
		}

		ta := time.Now()
		tok, err := tokens.Unwrap(text, 0)
		c.argon = time.Since(ta)

		if err != nil || tok == nil {
			t.Fatalf("a fresh token does not unwrap: %v", err)
		}

		c.toks = append(c.toks, &c21CTok{n: i + 1, text: text, tok: tok, uuid: tok.TokenID.String()})
	}

	r := verifh.Rand(21500)
	phase := func(name string) {
		t.Logf("%s: %v", name, time.Since(tp).Round(time.Millisecond))
		tp = time.Now()
	}

	phase("setup")

	// parked rounds: a fixed corpus first, then random ones
	type scen struct {
		readers []string
		changes []string
	}

	corpus := []scen{
		{[]string{"ib"}, []string{"del"}},
		{[]string{"v", "ib"}, []string{"delh"}},
		{[]string{"id", "r"}, []string{"flush"}},
		{[]string{"ib", "u"}, []string{"purgebl", "del"}},
	}

	rp := []string{"ib", "ib", "id", "v", "u", "cv", "r"}
	ch := [][]string{{"del"}, {"delh"}, {"flush"}, {"flushh"}, {"purgebl", "del"}, {"purgeall", "delh"}, {"del", "purgebl"}}

	for i := 0; i < c21N(1, 8); i++ {
		s := scen{changes: ch[r.Intn(len(ch))]}
		for k := 0; k <= r.Intn(3); k++ {
			s.readers = append(s.readers, rp[r.Intn(len(rp))])
		}

		corpus = append(corpus, s)
	}

	for i, s := range corpus {
		c.parked(c.toks[i%len(c.toks)], s.readers, s.changes)
	}

	phase("parked rounds")

	if v := os.Getenv("VERIF_C21_MEASURE"); v != "" { // experiment, not part of the check
		d, _ := time.ParseDuration(v)
		c.measure(r, d, false)
		c.measure(r, d, true)

		return
	}

	// the router's write-back against a revocation, parked at the log line in between
	for i := 0; i < c21N(2, 6); i++ {
		c.logpark(c.toks[i%len(c.toks)], "bl") // (the REST handler writes AUTH log lines of its own: free rounds and storms use it)
	}

	phase("logpark rounds")

	// free micro-rounds, bounded by count and by time
	budget := time.Duration(c21N(2500, 20000)) * time.Millisecond
	t0 := time.Now()
	fp := []string{"ib", "id"}

	for i := 0; i < c21N(1500, 20000) && time.Since(t0) < budget && c.nfail < 6; i++ {
		change := []string{"bl", "del", "bl", "delh", "bl", "flush"}[r.Intn(6)]

		c.free(c.toks[r.Intn(len(c.toks))], fp[r.Intn(2)], change, r.Intn(4), 0)

		if containsFlush([]string{change}) {
			for _, tk := range c.toks {
				tk.revoked = false
			}
		}
	}

	// the same with a router-path validation (one Argon2 derivation each) and a revocation arriving about when it ends
	for i := 0; i < c21N(8, 200) && c.nfail < 6; i++ {
		c.free(c.toks[r.Intn(len(c.toks))], "r", []string{"bl", "blh"}[r.Intn(2)], 0, c.argon*time.Duration(50+r.Intn(100))/100)
	}

	phase("free rounds")

	// storms
	for i := 0; i < c21N(3, 30) && c.nfail < 6; i++ {
		c.storm(r, i%3 == 2)
	}

	phase("storms")

	if c.stats.M["conc_quiescent_reads"] == 0 {
		t.Fatalf("the concurrent stream made no quiescent reads")
	}
}
