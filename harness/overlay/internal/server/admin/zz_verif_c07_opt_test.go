//go:build verif

package admin

// C07 search, optimizer dimension. The peephole optimizer (bytecode.ByteCode.Seal -> optimize)
// evaluates constant expressions AT COMPILE TIME, partly by its own Go arithmetic
// (tryConstantArithmetic) and partly by running the instructions in a scratch context
// (executeFragment). A partial Go operation there (integer / and % by zero, MinInt64 / -1,
// shifts, conversions, indexing) is a crash of the compiler, not an Ego error. The optimizer
// is off by default, so every mode of the search can carry a level: "admin@2" is mode admin
// with `ego run --optimize 2` (ego.compiler.optimize=2); level 3 also switches on what
// commands/run.go configureOptimizer switches on. The oracle is the one of all other cases.

import (
	"fmt"
	"math/rand"
	"strconv"
	"strings"

	"github.com/tucats/ego/internal/cli/settings"
	"github.com/tucats/ego/internal/defs"
)

var c07Level3Keys = []string{defs.RegistersSetting, defs.ConstFoldSetting, defs.GlobalCacheSetting}
var c07Level3Saved map[string]string

// c07SplitMode: "test@2" -> ("test", 2); a mode without a level is level 0 (the default).
func c07SplitMode(mode string) (string, int) {
	if i := strings.IndexByte(mode, '@'); i >= 0 {
		n, _ := strconv.Atoi(mode[i+1:])

		return mode[:i], n
	}

	return mode, 0
}

func c07At(mode string, level int) string {
	if level == 0 {
		return mode
	}

	return mode + "@" + strconv.Itoa(level)
}

// c07SetLevel does what commands/run.go configureOptimizer does for --optimize <level>.
func c07SetLevel(level int) {
	if c07Level3Saved == nil {
		c07Level3Saved = map[string]string{}

		for _, k := range c07Level3Keys {
			if settings.Exists(k) {
				c07Level3Saved[k] = settings.Get(k)
			}
		}
	}

	settings.SetDefault(defs.OptimizerSetting, strconv.Itoa(level))

	for _, k := range c07Level3Keys {
		if level > 2 {
			settings.SetDefault(k, "true")
		} else if v, ok := c07Level3Saved[k]; ok {
			settings.SetDefault(k, v)
		} else {
			settings.DeleteDefault(k)
		}
	}
}

// integer literals of every width the compiler distinguishes (int, int64, beyond int64), both signs
var c07IntLits = []string{
	"0", "1", "2", "3", "7", "10", "31", "32", "33", "63", "64", "65", "127", "128", "255", "256", "32767", "32768", "65535", "65536",
	"2147483647", "2147483648", "4294967295", "4294967296", "5000000000", "1099511627776", "4611686018427387904",
	"9223372036854775806", "9223372036854775807", "9223372036854775808", "18446744073709551615", "18446744073709551616",
	"99999999999999999999999", "0x7fffffff", "0x80000000", "0xffffffff", "0x100000000", "0x7fffffffffffffff", "0x8000000000000000",
	"0xffffffffffffffff", "0b11", "0o17", "1_000", "'a'", "'\\x00'",
}

var c07OtherLits = []string{
	"0.0", "-0.0", "1.5", "1e308", "1e309", "1e-320", "2.5e10", "9.3e18", "1e19", "\"abc\"", "\"\"", "\"h\xc3\xa9\"", "`x`", "true", "false", "nil", "1i", "0i",
}

var c07ConstOps = []string{"/", "/", "/", "%", "%", "%", "<<", "<<", ">>", ">>", "*", "+", "-", "&", "|", "^", "&^", "==", "<", ">=", "!=", "&&", "||"}

var c07ConvTypes = []string{"int", "int8", "int16", "int32", "int64", "uint", "uint8", "uint16", "uint32", "uint64", "byte", "float32", "float64", "string", "bool", "rune", "any", "complex128", "[]byte", "[]int"}

// fixed corpus: runs first, at every level, in the admin and the test pipeline
var c07ConstNasty = []string{
	"x := 1 / 0", "x := 1 % 0", "x := 5000000000 / 0", "x := 5000000000 % 0", "x := 9223372036854775807 / 0", "x := 0 / 0", "x := 1.0 / 0", "x := 1 / 0.0",
	"x := int64(7) / 0", "x := int64(7) % int64(0)", "x := int8(7) / int8(0)", "x := byte(7) % 0", "x := 7 / int64(0)", "x := 7 / (1 - 1)", "x := 5000000000 / (2 - 2)",
	"x := -9223372036854775808 / -1", "x := -9223372036854775808 % -1", "x := (-9223372036854775807 - 1) / -1", "x := (-9223372036854775807 - 1) % -1", "x := -2147483648 / -1",
	"x := int32(-2147483648) / int32(-1)", "x := int8(-128) / int8(-1)", "x := 9223372036854775807 + 1", "x := 9223372036854775807 * 9223372036854775807", "x := -9223372036854775808 - 1",
	"x := 1 << 63", "x := 1 << 64", "x := 1 << 99", "x := 1 << -1", "x := 1 >> -1", "x := 1 << 9223372036854775807", "x := 1 >> 9223372036854775807", "x := 1 << -9223372036854775808",
	"x := 5000000000 << 5000000000", "x := -1 >> 64", "x := 1 << 1.5", "x := 1.5 << 1", "x := \"a\" << 1", "x := 1 << \"a\"", "x := 1 << nil", "x := 1 << true",
	"x := int8(300)", "x := int8(-129)", "x := byte(-1)", "x := byte(256)", "x := int32(5000000000)", "x := int(1e19)", "x := int64(1e309)", "x := int(-1e19)", "x := uint64(-1)",
	"x := int(\"a\")", "x := int(\"\")", "x := int(\"99999999999999999999\")", "x := int(nil)", "x := bool(2)", "x := bool(\"x\")", "x := string(-1)", "x := string(1114112)",
	"x := string(9223372036854775807)", "x := float32(1e39)", "x := int(0.0/1.0)", "x := []byte(5)", "x := []int(\"a\")",
	"x := \"abc\"[5]", "x := \"abc\"[-1]", "x := \"abc\"[3]", "x := \"\"[0]", "x := \"abc\"[5000000000]", "x := \"abc\"[9223372036854775807]", "x := \"abc\"[1.5]", "x := \"abc\"[\"a\"]",
	"x := \"abc\"[2:1]", "x := \"abc\"[:9]", "x := \"abc\"[-1:]", "x := \"abc\"[1:5000000000]", "x := \"h\xc3\xa9\"[1:2]", "x := []int{1,2,3}[5]", "x := []int{1,2,3}[-1]", "x := []int{}[0]",
	"x := []int{1,2,3}[2:1]", "x := []int{1,2,3}[5000000000:]", "x := map[string]int{\"a\":1}[1]", "x := [3]int{1,2,3}[7 / 0]",
	"x := \"a\" + 1", "x := \"a\" - \"b\"", "x := \"a\" * 5000000000", "x := \"a\" * -1", "x := \"a\" / 0", "x := true + true", "x := true / false", "x := nil + nil", "x := nil / 0", "x := -\"a\"", "x := -nil", "x := !1", "x := !nil",
	"x := 1.5 ^ 2", "x := 2 ^ 1.5", "x := 2 ^ -1", "x := 2 ^ 5000000000", "x := 5000000000 ^ 2", "x := 0 ^ 0", "x := 2 ^ \"a\"", "x := int8(2) ^ 9", "x := 1i ^ 2",
	"x := 1i / 0", "x := 1i / 0i", "x := 1i % 1i", "x := 1i << 1",
	"const c = 0; x := 5000000000 / c", "const c = 5000000000 / 0", "const c = 1 << 99; x := c", "const c = 5000000000; const d = 0; x := c / d; y := c % d",
	"var x int64 = 5000000000 / 0", "var x int = 1 % 0", "var x byte = 1 / 0", "x := 1; x = 5000000000 / 0", "x := 1; x += 5000000000 / 0", "x := 1; x /= 0", "x := 5000000000; x %= 0", "x := 1; x <<= 99",
	"a := []int{1,2,3}; a[5000000000 / 0] = 1", "a := []int{1,2,3}; y := a[1 % 0]", "if 5000000000 / 0 == 1 { }", "for i := 5000000000 / 0; i < 1; i++ { }", "switch 5000000000 % 0 { case 1: }",
	"fmt.Println(5000000000 / 0)", "fmt.Println(7/2, 5000000000/2)\nx := 5000000000 / 0\nfmt.Println(x)", "func f() int { return 5000000000 / 0 }; x := f()", "f := func() int64 { return 5000000000 % 0 }; x := f()",
	"defer func() { x := 5000000000 / 0 }()", "try { x := 5000000000 / 0 } catch (e) { y := e }", "go func() { x := 1 }(); x := 5000000000 / 0", "x := []int{5000000000 / 0}", "x := map[int]int{1 / 0: 1}",
	"type T struct { a int }; t := T{a: 5000000000 / 0}", "x := -(5000000000) / -(0)", "x := 5000000000 / -0", "x := 5000000000 / +0", "x := 5000000000 / 0x0", "x := 5000000000 / '\\x00'", "x := 5000000000 / 0 / 0", "x := 0 % 0 % 0",
	"x := 2 * 3 + 5000000000 / 0 - 1", "x := (5000000000 / 0)", "x := len(\"abc\") / 0", "x := len(\"\") % len(\"\")", "x := 1.5 % 0", "x := 1.5 % 0.0", "x := 5000000000 % 1.5", "x := 1e308 * 10", "x := 1e308 * 1e308 / 0",
	"x := float32(1) / float32(0)", "x := int(1.0 / 0)", "x := int64(1.0 / 0.0)", "x := 1.0 / 0.0; y := int(x)", "x := byte(255) + byte(1)", "x := int8(127) + int8(1)", "x := int8(-128) - 1", "x := int32(2147483647) * int32(2)",
}

// c07GenConst builds a program of statements over literal operands only, so that everything in it is
// a candidate for compile-time evaluation; about half the programs are long enough (and have a range
// loop) for level 1, which optimizes only code over a size threshold.
func c07GenConst(r *rand.Rand) string {
	pick := func(xs []string) string { return xs[r.Intn(len(xs))] }

	var atom func(d int) string

	lit := func() string {
		s := pick(c07IntLits)

		switch k := r.Intn(12); {
		case k < 3:
			s = pick([]string{"0", "0", "-1", "1", "-0", "0x0", "00"}) // the operands partial operations care about
		case k == 3:
			s = pick(c07OtherLits)
		}

		switch r.Intn(8) {
		case 0:
			s = "-" + s
		case 1:
			s = "(-" + s + ")"
		}

		return s
	}

	atom = func(d int) string {
		switch k := r.Intn(14); {
		case k < 8 || d > 2:
			return lit()
		case k < 10:
			return pick(c07ConvTypes) + "(" + atom(d+1) + ")"
		case k < 12:
			return "(" + atom(d+1) + " " + pick(c07ConstOps) + " " + atom(d+1) + ")"
		case k == 12:
			return pick([]string{"\"abc\"", "\"\"", "\"h\xc3\xa9llo\"", "[]int{1,2,3}", "[]byte(\"ab\")", "[2]int{1,2}"}) + "[" + atom(d+1) + pick([]string{"", "", ":", ":" + lit()}) + "]"
		default:
			return pick([]string{"len(\"abc\")", "len(\"\")", "c0", "c1", "-" + atom(d+1), "!" + atom(d+1), "^" + atom(d+1)})
		}
	}

	expr := func() string {
		e := atom(0) + " " + pick(c07ConstOps) + " " + atom(0)

		for r.Intn(4) == 0 {
			e += " " + pick(c07ConstOps) + " " + atom(1)
		}

		return e
	}

	var b strings.Builder

	if r.Intn(3) == 0 {
		b.WriteString("const c0 = " + lit() + "\nconst c1 = " + pick([]string{lit(), expr()}) + "\n")
	} else {
		b.WriteString("c0 := " + lit() + "\nc1 := " + pick([]string{"0", "int64(0)", lit()}) + "\n")
	}

	b.WriteString("a := []int{1, 2, 3}\nacc := 0\n")

	if r.Intn(2) == 0 { // bulk for level 1: more than 50 instructions and a range loop
		b.WriteString("for _, v := range a { acc = acc + v * 2 + 1 }\n")

		for k := 0; k < 8; k++ {
			b.WriteString(fmt.Sprintf("p%d := %d + %d * 3\n", k, k, k+1))
		}
	}

	n := 1 + r.Intn(5)
	for k := 0; k < n; k++ {
		v := fmt.Sprintf("v%d", k)
		e := expr()

		switch r.Intn(16) {
		case 0:
			b.WriteString("var " + v + " " + pick(c07ConvTypes) + " = " + e)
		case 1:
			b.WriteString("const k" + v + " = " + e)
		case 2:
			b.WriteString("acc " + pick([]string{"+=", "-=", "*=", "/=", "%=", "<<=", ">>=", "&=", "="}) + " " + e)
		case 3:
			b.WriteString("if " + e + " == " + lit() + " { acc = 1 }")
		case 4:
			b.WriteString("fmt.Println(" + e + ", " + expr() + ")")
		case 5:
			b.WriteString("a[" + e + "] = " + expr())
		case 6:
			b.WriteString(v + " := a[" + e + "]")
		case 7:
			b.WriteString(v + " := func() " + pick([]string{"int", "int64", "any", "float64"}) + " { return " + e + " }()")
		case 8:
			b.WriteString("try { " + v + " := " + e + " } catch (err) { acc = 2 }")
		case 9:
			b.WriteString("for j := " + e + "; j < 2; j++ { acc = j }")
		case 10:
			b.WriteString(v + " := []any{" + e + ", " + expr() + "}")
		case 11:
			b.WriteString("switch " + e + " { case " + lit() + ": acc = 3 }")
		default:
			b.WriteString(v + " := " + e)
		}

		b.WriteString("\n")
	}

	body := b.String()

	switch r.Intn(6) {
	case 0:
		return "func main() {\n" + body + "}\n"
	case 1:
		return "func run() int {\n" + body + "return 0\n}\nx0 := run()\n"
	case 2:
		return "@compile " + pick([]string{"optimize=2", "optimize=1", "opt=2", "optimize=3", "optimize=0", "block optimize=2", "optimize=2 constfold=true", "optimize=-1", "optimize=99"}) + " {\n" + body + "}\n"
	}

	return body
}
