//go:build verif

package admin

// Parent/child split. TestVerifC07 (parent) never executes Ego code: it starts the same test
// binary again (TestVerifC07Child) to run the deterministic case list from an index on. A Go
// runtime fatal (stack overflow, unrecovered panic in a goroutine) kills only the child; the
// parent then re-runs the candidates (case in flight + abandoned cases) ONE PER PROCESS with
// the default 1 GB stack limit to attribute the fatal to an input, records the failure and
// restarts the child after the case in flight.

import (
	"encoding/json"
	"fmt"
	"os"
	"os/exec"
	"path/filepath"
	"strconv"
	"strings"
	"testing"
	"time"

	"github.com/tucats/ego/internal/verifh"
)

type c07Cur struct {
	Index int    `json:"index"`
	Mode  string `json:"mode"`
	Kind  string `json:"kind"`
	Hex   string `json:"hex"`
	// the concurrent programs run just before this case: their goroutines may still have been alive
	Prev []c07Cur `json:"prev,omitempty"`
}

// inputs known or suspected to end in a runtime fatal: never run in a batch child, always alone.
var c07FatalCandidates = []string{
	"m := map[string]any{}; m[\"m\"] = m; fmt.Println(m)",
	"x := []any{nil}; x[0] = x; fmt.Println(x)",
	"type T struct{ p any }; a := &T{}; a.p = a; fmt.Println(a)",
	"m := map[string]any{}; m[\"m\"] = m; s := fmt.Sprintf(\"%v\", m)",
	"m := map[string]any{}; m[\"m\"] = m; b := reflect.DeepCopy(m)",
	"m := map[string]any{}; m[\"m\"] = m; b, e := json.Marshal(m)",
	"m := map[string]any{}; m[\"m\"] = m; b := m == m",
	"x := []any{nil}; x[0] = x; b, e := json.Marshal(x)",
	"x := [:]", // found by the search: compileArrayRangeInitializer stepped back over "[" and parseArray recursed forever
	"for _, v := range [:x] { }",
}

// deep (finite) nesting: the recursive-descent compiler must survive it; thorough tier only
var c07DeepCandidates = []string{
	"x := " + strings.Repeat("(", 20000) + "1" + strings.Repeat(")", 20000),
	"x := " + strings.Repeat("[]any{", 8000) + strings.Repeat("}", 8000),
	"x := " + strings.Repeat("-", 30000) + "1",
	strings.Repeat("if true { ", 4000) + strings.Repeat("}", 4000),
	strings.Repeat("func() { ", 1500) + strings.Repeat("}() ", 1500),
}


func c07ClassifyFatal(stderr string) (cls, what string, fatal bool) {
	kind, i := "", -1

	if i = strings.Index(stderr, "fatal error: "); i >= 0 {
		line := stderr[i:]
		if j := strings.IndexByte(line, '\n'); j >= 0 {
			line = line[:j]
		}

		switch {
		case strings.Contains(line, "stack overflow"):
			kind = "stack-overflow"
		case strings.Contains(line, "out of memory"), strings.Contains(line, "cannot allocate"):
			kind = "out-of-memory"
		case strings.Contains(line, "concurrent map"):
			kind = "concurrent-map"
		case strings.Contains(line, "all goroutines are asleep"):
			kind = "deadlock"
		default:
			kind = "fatal"
		}

		what = line
	} else if i = strings.Index("\n"+stderr, "\npanic: "); i >= 0 {
		stderr = "\n" + stderr

		line := stderr[i+1:]
		if j := strings.IndexByte(line, '\n'); j >= 0 {
			line = line[:j]
		}

		_, _, k := c07Class(line, "")
		kind, what = "goroutine-panic-"+k, line
	} else {
		return "", "", false
	}

	// a stack overflow is named after the recursion: of the functions that occur at least half as
	// often as the most frequent one in the (truncated) trace, the alphabetically first; anything
	// else after the first ego frame
	fn, best, count := "unknown", 0, map[string]int{}

	// only the goroutine that died: the first goroutine block of the report
	trace := stderr[i:]
	if g := strings.Index(trace, "\ngoroutine "); g >= 0 {
		trace = trace[g+1:]
		if e := strings.Index(trace, "\n\ngoroutine "); e >= 0 {
			trace = trace[:e]
		}
	}

	for _, m := range c07FrameRE.FindAllStringSubmatch(trace, -1) {
		f := strings.TrimPrefix(m[1], "github.com/tucats/ego/")
		if strings.Contains(f, "c07") || strings.Contains(f, "verifh") {
			continue
		}

		if kind != "stack-overflow" {
			fn = f

			break
		}

		count[f]++
		if count[f] > best {
			best = count[f]
		}
	}

	if kind == "stack-overflow" {
		for f, n := range count {
			if 2*n >= best && (fn == "unknown" || f < fn) {
				fn = f
			}
		}
	}

	return "fatal:" + fn + ":" + kind, what, true
}

func c07Spawn(t *testing.T, out string, env []string, timeout time.Duration) (stderr string, exit int) {
	errFile := filepath.Join(out, "c07_child.err")
	f, _ := os.Create(errFile)

	cmd := exec.Command(os.Args[0], "-test.run", "^TestVerifC07Child$", "-test.timeout", fmt.Sprintf("%ds", int(timeout.Seconds())+30))
	cmd.Env = append(append(os.Environ(), "C07_CHILD=1"), env...)
	cmd.Stdout = nil
	cmd.Stderr = f

	err := cmd.Start()
	if err != nil {
		t.Fatalf("cannot start child: %v", err)
	}

	done := make(chan error, 1)
	go func() { done <- cmd.Wait() }()

	select {
	case err = <-done:
	case <-time.After(timeout + 60*time.Second):
		_ = cmd.Process.Kill()
		err = <-done
	}

	_ = f.Close()

	b, _ := os.ReadFile(errFile)
	if len(b) > 1<<20 {
		b = append(b[:1<<19], b[len(b)-(1<<19):]...)
	}

	if err != nil {
		exit = 1

		if ee, ok := err.(*exec.ExitError); ok {
			exit = ee.ExitCode()
		}
	}

	return string(b), exit
}

// c07Confirm runs one input alone (default stack limit) and reports whether the process died.
func c07Confirm(t *testing.T, out, mode, src string, stats *verifh.Stats, fails *verifh.Writer, kind string) bool {
	p := filepath.Join(out, "c07_confirm.json")
	b, _ := json.Marshal(c07Cur{Mode: mode, Kind: kind, Hex: verifh.Hex(src)})
	_ = os.WriteFile(p, b, 0o644)

	// first with a 64 MB stack limit (fast); a death there is re-checked with Go's default 1 GB
	// limit unless it falls in a class already listed as known (C07_KNOWN, set by checks/C07.py)
	stderr, exit := c07Spawn(t, out, []string{"C07_CONFIRM=" + p, "C07_MAXSTACK=64"}, 240*time.Second)
	stats.Inc("confirm_runs")

	// the death of a concurrent program depends on how its goroutines were scheduled: two more tries
	for try := 0; exit == 0 && strings.HasPrefix(kind, "conc") && try < 2; try++ {
		stderr, exit = c07Spawn(t, out, []string{"C07_CONFIRM=" + p, "C07_MAXSTACK=64"}, 240*time.Second)
		stats.Inc("confirm_runs")
	}

	if exit == 0 {
		return false
	}

	cls, what, fatal := c07ClassifyFatal(stderr)

	// a panic in a goroutine does not depend on the stack limit: the first death is the verdict
	stackBound := !fatal || strings.HasSuffix(cls, ":stack-overflow") || strings.HasSuffix(cls, ":out-of-memory") || strings.HasSuffix(cls, ":fatal")

	if stackBound && (!fatal || !strings.Contains(","+os.Getenv("C07_KNOWN")+",", ","+cls+",") || verifh.Thorough()) {
		stderr, exit = c07Spawn(t, out, []string{"C07_CONFIRM=" + p}, 240*time.Second)
		stats.Inc("confirm_runs_default_stack")

		if exit == 0 {
			stats.Inc("deep_recursion_survives_default_stack")

			return false
		}

		cls, what, fatal = c07ClassifyFatal(stderr)
	}
	if !fatal {
		cls, what = "fatal:unknown:child-exit-"+strconv.Itoa(exit), "child process exited with status "+strconv.Itoa(exit)
	}

	stats.Inc("fatal_confirmed")
	stats.Inc("class." + cls)
	fails.Write(verifh.Failure{Class: cls, What: "the host process dies with a Go runtime fatal (" + what + ") [mode " + mode + ", generator " + kind + "]",
		Input: c07Head(src), Got: c07Head(stderr), Want: "program output, an Ego error, or a timeout"})

	return true
}

func TestVerifC07(t *testing.T) {
	if os.Getenv("C07_CHILD") != "" {
		t.Skip("child process")
	}

	out := os.Getenv("VERIF_OUT")
	if out == "" {
		out = t.TempDir()
	}

	fails := verifh.Out("c07_failures.jsonl")
	stats := verifh.NewStats()

	defer func() {
		fails.Close()
		stats.Save("c07_stats.json")
	}()

	if len(verifh.ReplayInput()) == 0 {
		cands := c07FatalCandidates
		if verifh.Thorough() {
			cands = append(append([]string(nil), cands...), c07DeepCandidates...)
		} else {
			cands = append(cands[:1:1], cands[2:]...) // quick: one of the two known self-reference fatals
		}

		for _, src := range cands {
			c07Confirm(t, out, "admin", src, stats, fails, "fatal-candidate")
		}
	}

	from, serial := 0, 0

	for restarts := 0; restarts < 8; restarts++ {
		serial++
		_ = os.Remove(filepath.Join(out, "c07_current.json"))

		stderr, exit := c07Spawn(t, out, []string{"C07_FROM=" + strconv.Itoa(from), "C07_SERIAL=" + strconv.Itoa(serial)}, 3000*time.Second)

		c07Merge(out, serial, stats, fails)

		if exit == 0 {
			// a child that collected too many unstoppable goroutines asks for a fresh process
			b, err := os.ReadFile(filepath.Join(out, fmt.Sprintf("c07_resume.%d", serial)))
			if err != nil {
				return
			}

			from, _ = strconv.Atoi(string(b))
			restarts--

			if stats.Inc("child_handovers"); stats.Get("child_handovers") > 60 {
				return
			}

			continue
		}

		stats.Inc("child_deaths")

		var cur c07Cur

		b, err := os.ReadFile(filepath.Join(out, "c07_current.json"))
		if err != nil || json.Unmarshal(b, &cur) != nil {
			cls, what, _ := c07ClassifyFatal(stderr)
			fails.Write(verifh.Failure{Class: c07UnattributedClass(cls), What: "search child died before its first case: " + cls + " " + what, Got: c07Head(stderr)})

			return
		}

		// candidates: the case in flight and every case abandoned by this child
		cands := append([]c07Cur{cur}, cur.Prev...)

		if ab, err := os.ReadFile(filepath.Join(out, fmt.Sprintf("c07_abandoned.%d.jsonl", serial))); err == nil {
			for _, line := range strings.Split(string(ab), "\n") {
				var c c07Cur
				if json.Unmarshal([]byte(line), &c) == nil && c.Hex != "" {
					cands = append(cands, c)
				}
			}
		}

		confirmed := false

		for _, c := range cands {
			if c07Confirm(t, out, c.Mode, verifh.UnHex(c.Hex), stats, fails, c.Kind) {
				confirmed = true
			}
		}

		if !confirmed {
			cls, what, _ := c07ClassifyFatal(stderr)
			fails.Write(verifh.Failure{Class: c07UnattributedClass(cls), What: "search child died (" + cls + " " + what + ") and no single candidate reproduces it alone",
				Input: c07Head(verifh.UnHex(cur.Hex)), Got: c07Head(stderr)})
		}

		from = cur.Index + 1
	}
}

// c07Merge folds one child's stats and failures into the parent's files.
func c07Merge(out string, serial int, stats *verifh.Stats, fails *verifh.Writer) {
	var st struct {
		M map[string]int `json:"counters"`
		S []any          `json:"samples"`
	}

	if b, err := os.ReadFile(filepath.Join(out, fmt.Sprintf("c07_stats.%d.json", serial))); err == nil && json.Unmarshal(b, &st) == nil {
		for k, v := range st.M {
			stats.Add(k, v)
		}

		for _, s := range st.S {
			stats.Sample(s)
		}
	}

	if b, err := os.ReadFile(filepath.Join(out, fmt.Sprintf("c07_failures.%d.jsonl", serial))); err == nil {
		for _, line := range strings.Split(string(b), "\n") {
			var f verifh.Failure
			if json.Unmarshal([]byte(line), &f) == nil && f.Class != "" {
				fails.Write(f)
			}
		}
	}
}

// c07UnattributedClass is the class of a child death that no single candidate reproduces alone: the class is
// decided by the call site of the fatal error (the same id a confirmed input of that site gets), so that a listed
// finding of that site is recognised whichever program of the batch set it off; only a death whose stderr names
// no interpreter frame stays "fatal:unattributed".
func c07UnattributedClass(cls string) string {
	if strings.HasPrefix(cls, "fatal:") && strings.Count(cls, ":") >= 2 && !strings.Contains(cls, "unattributed") && !strings.Contains(cls, ":unknown:") {
		return cls
	}

	return "fatal:unattributed"
}
