//go:build verif

package cluster

// C29 correspondence harness and direct oracle: ONE real node (this process) and its peers as
// recording HTTP servers.
//
//   - The node is brought up by the real cluster.Initialize (table creation, own row, hook
//     registration). Every case then rewrites the shared `cluster` table and the node's
//     configuration (ClusterName, NodeID, systemDB, caches.OnPurge, caches.Active).
//   - stream "purge": caches.Purge / caches.PurgeLocal / caches.PurgeAll on the node; the real
//     path caches.purge → go OnPurge → BroadcastCacheFlush → ListActiveMembers → SendCacheFlush
//     posts to the peers, which record what they receive (and answer 200 / 500 / 401 / hang up;
//     some rows point at a dead port; in a few cases a peer HOLDS the request — for longer than the
//     sender's 5 s timeout, or several peers for a while each so that the holds add up to more than
//     5 s — before peers that joined later: those must still get their request). Rows for the node itself, for inactive / removed / oddly
//     spelled states and for other clusters point at LIVE recorders, so a request that must not
//     be sent is seen.
//   - stream "burst": the same cache is purged several times in a row while a peer ("gate") SITS on the
//     request the first purge sent it, so that the later purges are issued while the first broadcast
//     is still in progress (explicit gate, no sleeping: the harness waits until the first broadcast
//     is parked at the gated peer, issues the remaining purges, then opens the gate). Every purge
//     must be announced on its own: each active peer must RECEIVE a flush after each purge was issued
//     (the peers the first broadcast had already served may have reloaded the cache in between).
//   - every recorded request is then driven, unchanged (all headers and the body as sent), through
//     a real router.Router carrying the flush route exactly as commands/server.go declares it, into
//     the real FlushCacheHandler of the node acting as that peer: it must be answered 200 and the
//     cache must be gone. Stream "flush" adds hostile requests (Accept headers, tokens, bodies, hop
//     counts) through the same router. In both, any hook call or any request arriving at a peer is
//     a re-broadcast.
//
// Each step is written as a line for the Lean model (per-node functions purgeNode / purgeAllNode /
// flushHandler) and judged by a model-free oracle stated over the case specification.
// The N-node composition is NOT run here; it exists only in the Lean model.

import (
	"bytes"
	"database/sql"
	"encoding/json"
	"fmt"
	"io"
	"math/rand"
	"net"
	"net/http"
	"net/http/httptest"
	"os"
	"path/filepath"
	"reflect"
	"runtime"
	"sort"
	"strconv"
	"strings"
	"sync"
	"sync/atomic"
	"testing"
	"time"

	"github.com/tucats/ego/internal/caches"
	"github.com/tucats/ego/internal/cli/cli"
	"github.com/tucats/ego/internal/cli/settings"
	"github.com/tucats/ego/internal/defs"
	"github.com/tucats/ego/internal/router"
	"github.com/tucats/ego/internal/verifh"
)

// cluster names: index 0 = standalone (""); the others differ by case, trailing blank, prefix
var c29Names = []string{"", "alpha", "Alpha", "alpha ", "alphabet"}

// row states; only the exact string "active" is active
var c29States = []string{"active", "inactive", "removed", "Active", "ACTIVE", "", "active ", " active", "activ"}

var c29CacheIDs = []int{0, 1, 2, 3, 4, 5, 6, 7, 8, 9, 10, 11, 12, 77, -3, 1 << 31}

const c29Key = "verif-c29-token-key"

type c29Row struct {
	ID     int    `json:"id"`
	Name   int    `json:"name"`   // index into c29Names (1..)
	State  string `json:"state"`  // text of the state column
	Beh    string `json:"beh"`    // ok | 500 | 401 | hangup | dead | hold<ms> (answers 200 after <ms> milliseconds) | gate (sits on the request while a burst is being issued)
	Joined int    `json:"joined"` // ordering key for joined_at
}

type c29FlushSpec struct {
	Accept string `json:"accept"` // text of the Accept header ("" = no header)
	Tok    string `json:"tok"`    // good | other:<idx> | wrongkey | missing | bare | short | garbage
	Body   string `json:"body"`   // raw request body
	WF     bool   `json:"wf"`     // body decodes as a ClusterFlushRequest
	Cache  int    `json:"cache"`  // decoded cache_id (when WF)
	Hops   int    `json:"hops"`   // decoded hops (when WF)
	Class  string `json:"class"`  // body class (statistics)
}

type c29Op struct {
	Kind  string        `json:"kind"`        // purge | local | all | flip | flush | burst
	N     int           `json:"n,omitempty"` // burst: number of Purge calls of the same cache
	Cache int           `json:"cache,omitempty"`
	Row   int           `json:"row,omitempty"`   // flip: index into Rows; purge: Row%4 == 3 → the cache is NOT populated on the origin
	State string        `json:"state,omitempty"` // flip: new state text
	Flush *c29FlushSpec `json:"flush,omitempty"`
}

type c29Case struct {
	Self    int      `json:"self"`
	Cluster int      `json:"cluster"` // index into c29Names, 0 = standalone
	DB      bool     `json:"db"`
	Hook    bool     `json:"hook"`
	On      bool     `json:"on"`
	Rows    []c29Row `json:"rows"`
	Fill    []int    `json:"fill"`
	Ops     []c29Op  `json:"ops"`
	Replay  bool     `json:"replay"` // drive the recorded requests into FlushCacheHandler
}

type c29Rec struct {
	Peer int
	Meth string
	Path string
	Auth string
	CT   string
	Hdr  http.Header
	Body []byte
	Seq  int64 // arrival number at the peers (1, 2, …): orders arrivals against the moments purges were issued
}

// ---------------------------------------------------------------- recording peers

type c29Peer struct {
	idx  int
	srv  *httptest.Server
	port int
	beh  atomic.Value
}

var (
	c29mu    sync.Mutex
	c29recs  []c29Rec
	c29peers []*c29Peer
	c29dead  int           // a port nobody listens on
	c29seq   int64         // arrivals so far (under c29mu)
	c29gate  chan struct{} // non-nil while a burst is being issued: "gate" peers sit on their requests until it is closed

	c29HookStarted  atomic.Int64
	c29HookFinished atomic.Int64
	c29OrigHook     func(int)
	c29Slow         atomic.Bool // a hook that should have fired did not: stop waiting long
	c29SettleMicros atomic.Int64
	c29Router       *router.Router
)

func (p *c29Peer) ServeHTTP(w http.ResponseWriter, r *http.Request) {
	body, _ := io.ReadAll(r.Body)

	c29mu.Lock()
	c29seq++
	c29recs = append(c29recs, c29Rec{Peer: p.idx, Meth: r.Method, Path: r.URL.Path, Auth: r.Header.Get("Authorization"),
		CT: r.Header.Get("Content-Type"), Hdr: r.Header.Clone(), Body: body, Seq: c29seq})
	gate := c29gate
	c29mu.Unlock()

	beh := p.beh.Load().(string)

	if beh == "gate" {
		// the peer has the request (recorded above) and sits on it until the harness has issued the
		// rest of the burst — far inside the sender's 5 s; the cap only guards against a stuck harness
		if gate != nil {
			select {
			case <-gate:
			case <-r.Context().Done():
			case <-time.After(4 * time.Second):
			}
		}

		beh = "ok"
	}

	if ms, ok := c29HoldMs(beh); ok {
		// a slow peer: it has the request (recorded above) and sits on it. The real time is spent
		// here: the production code offers no way to shorten its 5 s timeout.
		select {
		case <-r.Context().Done(): // the sender gave up and closed the connection
		case <-time.After(time.Duration(ms) * time.Millisecond):
		}

		beh = "ok"
	}

	switch beh {
	case "500":
		w.WriteHeader(http.StatusInternalServerError)
	case "401":
		w.WriteHeader(http.StatusUnauthorized)
	case "hangup":
		if hj, ok := w.(http.Hijacker); ok {
			if conn, _, err := hj.Hijack(); err == nil {
				conn.Close()

				return
			}
		}

		w.WriteHeader(http.StatusBadGateway)
	default:
		w.Header().Set("Content-Type", "application/json")
		_, _ = w.Write([]byte(`{"status":200}`))
	}
}

func c29Take() []c29Rec {
	c29mu.Lock()
	defer c29mu.Unlock()

	r := c29recs
	c29recs = nil

	return r
}

// c29SeqNow: the number of requests that have arrived at the peers so far.
func c29SeqNow() int64 {
	c29mu.Lock()
	defer c29mu.Unlock()

	return c29seq
}

func c29SetGate(g chan struct{}) {
	c29mu.Lock()
	c29gate = g
	c29mu.Unlock()
}

// c29WaitParked waits (at most `limit`) until peer `idx` has recorded `want` requests since the last
// c29Take. It only SHAPES the interleaving (the next purge is issued while the broadcasts so far
// are parked at the gated peer); no verdict depends on whether it timed out.
func c29WaitParked(idx, want int, limit time.Duration) bool {
	deadline := time.Now().Add(limit)

	for {
		n := 0

		c29mu.Lock()
		for _, rc := range c29recs {
			if rc.Peer == idx {
				n++
			}
		}
		c29mu.Unlock()

		if n >= want {
			return true
		}

		if time.Now().After(deadline) {
			return false
		}

		time.Sleep(50 * time.Microsecond)
	}
}

// c29Hook wraps the hook that cluster.Initialize registered, so that the harness can tell when
// the asynchronous "go OnPurge(id)" has run to completion.
func c29Hook(id int) {
	c29HookStarted.Add(1)

	if c29OrigHook != nil {
		c29OrigHook(id)
	}

	c29HookFinished.Add(1)
}

// c29Settle waits until at least `expect` more hook calls (relative to base) have completed and
// no hook call is in progress, then gives an unexpected extra call a chance to show up.
func c29Settle(base int64, expect int) int {
	t0 := time.Now()

	defer func() { c29SettleMicros.Add(time.Since(t0).Microseconds()) }()

	limit := 5 * time.Second
	if c29Slow.Load() {
		limit = 30 * time.Millisecond
	}

	deadline := time.Now().Add(limit)

	for {
		for i := 0; i < 20; i++ {
			runtime.Gosched()
		}

		s, f := c29HookStarted.Load(), c29HookFinished.Load()
		if s == f && s >= base+int64(expect) {
			break
		}

		if time.Now().After(deadline) {
			if s == f {
				c29Slow.Store(true)

				break
			}

			deadline = time.Now().Add(limit) // a call is in progress: let it finish
		}

		time.Sleep(50 * time.Microsecond)
	}

	time.Sleep(200 * time.Microsecond)

	for i := 0; i < 20; i++ {
		runtime.Gosched()
	}

	for c29HookStarted.Load() != c29HookFinished.Load() {
		time.Sleep(50 * time.Microsecond)
	}

	return int(c29HookStarted.Load() - base)
}

// ---------------------------------------------------------------- helpers

// c29CachingActive observes whether the caches package currently stores anything at all.
func c29CachingActive() bool {
	const probe = 424242

	caches.Add(probe, "k", "v")

	ok := caches.Size(probe) > 0

	caches.PurgeLocal(probe)

	return ok
}

// c29HoldMs: behaviour "hold<ms>" = the peer answers 200 only after <ms> milliseconds.
func c29HoldMs(beh string) (int, bool) {
	if !strings.HasPrefix(beh, "hold") {
		return 0, false
	}

	ms, err := strconv.Atoi(beh[4:])

	return ms, err == nil && ms >= 0
}

func c29NodeName(id int) string { return "n" + strconv.Itoa(id) }

func c29NodeNum(s string) int {
	if strings.HasPrefix(s, "n") {
		if v, err := strconv.Atoi(s[1:]); err == nil && v >= 0 {
			return v
		}
	}

	return 999999
}

func c29b(b bool) string {
	if b {
		return "1"
	}

	return "0"
}

// c29Token returns the Authorization header a node of cluster `name` sends.
func c29Token(name string) string {
	saved := ClusterName
	ClusterName = name

	defer func() { ClusterName = saved }()

	return ClusterAuthHeader()
}

// c29TokIndex says which cluster's token an Authorization header carries ("-" if none).
func c29TokIndex(auth string) string {
	for i := 1; i < len(c29Names); i++ {
		if auth == c29Token(c29Names[i]) {
			return strconv.Itoa(i)
		}
	}

	return "-"
}

// c29AcceptOK maps a concrete Accept header to the model's alphabet: does the flush route
// (AcceptMedia(application/json)) admit it? Only used to WRITE the model's input; the oracle on
// recorded requests does not use it.
func c29AcceptOK(values []string) bool {
	for _, v := range values {
		switch strings.ToLower(v) {
		case "application/json", "application/text", "text/plain", "text/*", "text", "*/*":
			return true
		}

		if strings.Contains(v, "*/*") {
			return true
		}
	}

	return false
}

func c29ClusterField(idx int) string {
	if idx == 0 {
		return "-"
	}

	return strconv.Itoa(idx)
}

func (cs *c29Case) rowsField() string {
	if len(cs.Rows) == 0 {
		return "-"
	}

	// in join order (ORDER BY joined_at), with what each row's endpoint does
	rows := append([]c29Row(nil), cs.Rows...)
	sort.SliceStable(rows, func(i, j int) bool { return rows[i].Joined < rows[j].Joined })

	parts := make([]string, 0, len(rows))
	for _, r := range rows {
		parts = append(parts, fmt.Sprintf("%d:%d:%s:%s", r.ID, r.Name, c29b(r.State == "active"), r.Beh))
	}

	return strings.Join(parts, ",")
}

func (cs *c29Case) json() string {
	b, _ := json.Marshal(cs)

	return string(b)
}

type c29Msg struct {
	Dest, Cache, Sender, Hops int
	Acc                       bool // the Accept header is one the flush route admits
	Tok                       string
	Raw                       c29Rec
	OK                        bool // method, path and body were those of a flush request
}

type c29Env struct {
	t      *testing.T
	db     *sql.DB
	cases  *verifh.Writer
	fails  *verifh.Writer
	stats  *verifh.Stats
	seen   map[string]bool
	nfail  int
	rowOf  map[int]int  // peer index → row id of the current case
	added  map[int]bool // cache ids populated by the harness in the current case
	rowIdx map[int]int  // row id → index in cs.Rows
}

func (e *c29Env) fail(class, what string, cs *c29Case, got, want string) {
	e.nfail++
	e.stats.Inc("fail." + class)

	if e.nfail <= 200 {
		e.fails.Write(verifh.Failure{Class: class, What: what, Input: cs.json(), Got: got, Want: want})
	}
}

func (e *c29Env) emit(in, impl, desc string, nontrivial bool) {
	e.cases.Write(verifh.Case{In: in, Impl: impl, Desc: desc})
	e.stats.Inc("lines." + strings.SplitN(in, " ", 2)[0])

	if nontrivial && !e.seen[in] {
		e.seen[in] = true
		e.stats.Inc("distinct_nontrivial")
		e.stats.Sample(map[string]string{"in": in, "impl": impl})
	}
}

// install writes the case's table and configuration into the real package state.
func (e *c29Env) install(cs *c29Case) {
	t0 := time.Now()

	defer func() { e.stats.Add("us.install", int(time.Since(t0).Microseconds())) }()

	caches.Active(false)

	if cs.On {
		caches.Active(true)
	}

	tx, err := e.db.Begin()
	if err != nil {
		e.t.Fatalf("begin: %v", err)
	}

	if _, err := tx.Exec(`DELETE FROM cluster`); err != nil {
		e.t.Fatalf("delete: %v", err)
	}

	e.rowOf = map[int]int{}
	e.rowIdx = map[int]int{}
	base := time.Date(2026, 1, 1, 0, 0, 0, 0, time.UTC)

	for i, r := range cs.Rows {
		port := c29dead
		if r.Beh != "dead" {
			p := c29peers[i]
			p.beh.Store(r.Beh)
			port = p.port
			e.rowOf[i] = r.ID
		}

		e.rowIdx[r.ID] = i
		ts := base.Add(time.Duration(r.Joined) * time.Second).Format(time.RFC3339)

		if _, err := tx.Exec(`INSERT INTO cluster (name, node_id, host, port, scheme, joined_at, last_seen, state)
			VALUES ($1,$2,$3,$4,$5,$6,$7,$8)`, c29Names[r.Name], c29NodeName(r.ID), "127.0.0.1", port, "http", ts, ts, r.State); err != nil {
			e.t.Fatalf("insert: %v", err)
		}
	}

	if err := tx.Commit(); err != nil {
		e.t.Fatalf("commit: %v", err)
	}

	ClusterName = c29Names[cs.Cluster]
	NodeID = c29NodeName(cs.Self)

	if cs.DB {
		systemDB = e.db
	} else {
		systemDB = nil
	}

	if cs.Hook {
		caches.OnPurge = c29Hook
	} else {
		caches.OnPurge = nil
	}

	e.added = map[int]bool{}

	for _, id := range cs.Fill {
		e.add(id)
	}
}

func (e *c29Env) add(id int) {
	caches.Add(id, "k", "v") // no-op when caches are off
	e.added[id] = true
}

// decode turns the recorded requests into messages, by ascending destination.
func (e *c29Env) decode(recs []c29Rec) []c29Msg {
	out := make([]c29Msg, 0, len(recs))

	for _, rc := range recs {
		m := c29Msg{Dest: e.rowOf[rc.Peer], Raw: rc, Tok: c29TokIndex(rc.Auth), Acc: c29AcceptOK(rc.Hdr.Values("Accept"))}

		var req defs.ClusterFlushRequest

		dec := json.NewDecoder(bytes.NewReader(rc.Body))
		dec.DisallowUnknownFields()

		if err := dec.Decode(&req); err == nil && rc.Meth == http.MethodPost && rc.Path == "/services/cluster/flush" {
			m.OK = true
		}

		m.Cache, m.Sender, m.Hops = req.CacheID, c29NodeNum(req.SenderID), req.Hops
		out = append(out, m)
	}

	sort.SliceStable(out, func(i, j int) bool { return out[i].Dest < out[j].Dest })

	return out
}

func c29ShowMsgs(ms []c29Msg) string {
	if len(ms) == 0 {
		return "-"
	}

	parts := make([]string, 0, len(ms))
	for _, m := range ms {
		parts = append(parts, fmt.Sprintf("%d:%d:%d:%d:%s:%s", m.Dest, m.Cache, m.Sender, m.Hops, m.Tok, c29b(m.Acc)))
	}

	return strings.Join(parts, ",")
}

// expectedDest is the specification, stated over the case: the live peers that must receive a
// request when node cs.Self originates a purge (nil when the node must stay silent).
func (cs *c29Case) expectedDest(notify bool) (live []int, dead int, silent bool) {
	if !(cs.On && notify && cs.Hook && cs.Cluster != 0 && cs.DB) {
		return nil, 0, true
	}

	for _, r := range cs.Rows {
		if r.State == "active" && r.Name == cs.Cluster && r.ID != cs.Self {
			if r.Beh == "dead" {
				dead++
			} else {
				live = append(live, r.ID)
			}
		}
	}

	sort.Ints(live)

	return live, dead, false
}

// heldBefore: for how many milliseconds do the active peers that joined before peer d hold their requests
// (each capped by the sender's 5 s limit)? Decided on the case specification alone.
func (cs *c29Case) heldBefore(d int) int {
	var me *c29Row

	for i := range cs.Rows {
		if cs.Rows[i].ID == d {
			me = &cs.Rows[i]
		}
	}

	total := 0

	for _, r := range cs.Rows {
		if ms, ok := c29HoldMs(r.Beh); ok && me != nil && r.Joined < me.Joined && r.ID != cs.Self && r.ID != d &&
			r.State == "active" && r.Name == cs.Cluster {
			total += min(ms, 5000)
		}
	}

	return total
}

func (cs *c29Case) peerRows() int {
	n := 0

	for _, r := range cs.Rows {
		if r.ID != cs.Self {
			n++
		}
	}

	return n
}

// judgeEach applies the per-request part of the model-free oracle to the requests observed for
// purges of cache c (whom a request may go to, and what it must look like).
func (e *c29Env) judgeEach(cs *c29Case, c int, notify bool, ms []c29Msg) {
	_, _, silent := cs.expectedDest(notify)

	for _, m := range ms {

		row := cs.Rows[e.rowIdx[m.Dest]]

		switch {
		case silent:
			e.fail("sent-when-silent", "a node that must not broadcast (PurgeLocal / standalone / no hook / caches off / no database) sent a flush", cs, c29ShowMsgs(ms), "-")
		case m.Dest == cs.Self:
			e.fail("sent-to-self", "the origin sent a flush request to itself", cs, c29ShowMsgs(ms), "")
		case row.State != "active":
			e.fail("sent-to-inactive", "a flush request went to a member whose state is not 'active'", cs, c29ShowMsgs(ms), "")
		case row.Name != cs.Cluster:
			e.fail("sent-to-foreign-cluster", "a flush request went to a member of another cluster", cs, c29ShowMsgs(ms), "")
		}

		if !m.OK || m.Cache != c || m.Sender != cs.Self || m.Hops != 1 || m.Tok != strconv.Itoa(cs.Cluster) ||
			!strings.Contains(m.Raw.CT, "json") {
			e.fail("bad-flush-request", "a flush request is not POST /services/cluster/flush {cache_id, sender_id = origin, hops = 1} with the cluster token",
				cs, fmt.Sprintf("%s %s auth-of=%s body=%s", m.Raw.Meth, m.Raw.Path, m.Tok, m.Raw.Body), fmt.Sprintf("cache=%d sender=n%d hops=1", c, cs.Self))
		}
	}
}

// judge applies the model-free oracle to the requests observed for ONE purge of cache c.
func (e *c29Env) judge(cs *c29Case, c int, notify bool, ms []c29Msg) {
	live, _, silent := cs.expectedDest(notify)
	count := map[int]int{}

	for _, m := range ms {
		count[m.Dest]++
	}

	e.judgeEach(cs, c, notify, ms)

	if len(ms) > cs.peerRows() {
		e.fail("unbounded", "more flush requests than peers for one purge", cs, strconv.Itoa(len(ms)), "<= "+strconv.Itoa(cs.peerRows()))
	}

	if !silent {
		for _, d := range live {
			switch {
			case count[d] == 0 && cs.heldBefore(d) > 0:
				e.fail("peer-starved-by-slow-peer", fmt.Sprintf("an active peer whose endpoint is up received no flush request for a purge: peers that joined before it held "+
					"their requests for %d ms in total; the 5 s limit must apply to each peer separately, a slow peer must not cost the others their flush",
					cs.heldBefore(d)), cs, c29ShowMsgs(ms), fmt.Sprintf("one request to n%d", d))
			case count[d] == 0:
				e.fail("peer-skipped", "an active peer received no flush request for a purge", cs, c29ShowMsgs(ms), fmt.Sprintf("one request to n%d", d))
			case count[d] > 1:
				e.fail("duplicate-flush", "an active peer received more than one flush request for one purge", cs, c29ShowMsgs(ms), fmt.Sprintf("one request to n%d", d))
			}
		}
	}
}

// run executes one case on the real node.
func (e *c29Env) run(cs *c29Case) {
	e.install(cs)
	e.stats.Inc("cases")

	var recorded []c29Msg

	for i := range cs.Ops {
		op := &cs.Ops[i]

		switch op.Kind {
		case "flip":
			if op.Row < len(cs.Rows) {
				if _, err := e.db.Exec(`UPDATE cluster SET state = $1 WHERE node_id = $2`, op.State, c29NodeName(cs.Rows[op.Row].ID)); err != nil {
					e.t.Fatalf("flip: %v", err)
				}

				cs.Rows[op.Row].State = op.State
			}

		case "purge", "local":
			notify := op.Kind == "purge"
			c := op.Cache

			// the purged cache is populated on the origin only in some cases: the broadcast must
			// not depend on the origin having had anything to discard
			witness := c + 100000
			if op.Row%4 != 3 || op.Kind == "local" {
				e.add(c)
			}

			e.add(witness)

			_ = c29Take()
			base := c29HookStarted.Load()
			expectHook := 0

			if cs.On && notify && cs.Hook {
				expectHook = 1
			}

			if notify {
				caches.Purge(c)
			} else {
				caches.PurgeLocal(c)
			}

			fired := c29Settle(base, expectHook)
			ms := e.decode(c29Take())
			disc := c29CachingActive() && caches.Size(c) == 0

			live, _, silent := cs.expectedDest(notify)
			in := fmt.Sprintf("purge %d %s %s %s %s %s %d %s", cs.Self, c29ClusterField(cs.Cluster), c29b(cs.DB), c29b(cs.Hook),
				c29b(cs.On), c29b(notify), c, cs.rowsField())
			e.emit(in, fmt.Sprintf("disc=%s fire=%d msgs=%s", c29b(disc), fired, c29ShowMsgs(ms)), op.Kind,
				!silent && len(live) > 0 && len(live) < len(cs.Rows))

			e.judge(cs, c, notify, ms)

			if cs.On && !disc {
				e.fail("local-not-discarded", "the purged cache is still populated on the origin", cs, strconv.Itoa(caches.Size(c)), "0")
			}

			if cs.On && caches.Size(witness) != 1 {
				e.fail("collateral-purge", "a purge of one cache discarded another cache", cs, "", "")
			}

			if fired != expectHook {
				e.fail("hook-count", "OnPurge fired a different number of times than one per originated purge", cs, strconv.Itoa(fired), strconv.Itoa(expectHook))
			}

			e.stats.Add("requests", len(ms))
			recorded = append(recorded, ms...)

		case "burst":
			e.burst(cs, op, &recorded)

		case "all":
			ids := []int{}

			for id := range e.added {
				if caches.Size(id) > 0 {
					ids = append(ids, id)
				}
			}

			sort.Ints(ids)

			_ = c29Take()
			base := c29HookStarted.Load()
			expectHook := 0

			if cs.On && cs.Hook {
				expectHook = len(ids)
			}

			caches.PurgeAll()

			fired := c29Settle(base, expectHook)
			ms := e.decode(c29Take())
			sort.SliceStable(ms, func(i, j int) bool { return ms[i].Cache < ms[j].Cache })

			cf := "-"
			if len(ids) > 0 {
				parts := make([]string, len(ids))
				for k, id := range ids {
					parts[k] = strconv.Itoa(id)
				}

				cf = strings.Join(parts, ",")
			}

			live, _, silent := cs.expectedDest(true)
			in := fmt.Sprintf("purgeall %d %s %s %s %s %s %s", cs.Self, c29ClusterField(cs.Cluster), c29b(cs.DB), c29b(cs.Hook), c29b(cs.On), cf, cs.rowsField())
			e.emit(in, "msgs="+c29ShowMsgs(ms), "all", !silent && len(live) > 0 && len(ids) > 1)

			for _, id := range ids {
				var sub []c29Msg

				for _, m := range ms {
					if m.Cache == id {
						sub = append(sub, m)
					}
				}

				e.judge(cs, id, true, sub)

				if caches.Size(id) != 0 {
					e.fail("local-not-discarded", "PurgeAll left a cache populated", cs, strconv.Itoa(id), "")
				}
			}

			if len(ms) > len(ids)*cs.peerRows() {
				e.fail("unbounded", "PurgeAll sent more than caches × peers requests", cs, strconv.Itoa(len(ms)), "")
			}

			if fired != expectHook {
				e.fail("hook-count", "PurgeAll fired OnPurge a different number of times than one per cache", cs, strconv.Itoa(fired), strconv.Itoa(expectHook))
			}

			e.stats.Add("requests", len(ms))
			recorded = append(recorded, ms...)

		case "flush":
			f := op.Flush
			hdr := http.Header{}
			hdr.Set("Content-Type", "application/json")

			if f.Accept != "" {
				hdr.Set("Accept", f.Accept)
			}

			if a := c29AuthFor(cs, f.Tok); a != "" {
				hdr.Set("Authorization", a)
			}

			e.flush(cs, cs.Self, hdr, []byte(f.Body), c29TokField(cs, f.Tok), f.WF, f.Cache, f.Hops, "gen."+f.Class)
		}
	}

	// drive what the peers received into the real handler of the node acting as that peer
	if cs.Replay {
		for k, m := range recorded {
			if k >= 4 || !m.OK {
				break
			}

			NodeID = c29NodeName(m.Dest)

			e.flush(cs, m.Dest, m.Raw.Hdr, m.Raw.Body, m.Tok, true, m.Cache, m.Hops, "recorded")
		}

		NodeID = c29NodeName(cs.Self)
	}
}

// parkPeer: the peer (index into cs.Rows = index of its recorder) at which a broadcast of node cs.Self
// comes to rest while the gate is shut: the first destination in join order whose endpoint is a
// "gate" (-1 if the node broadcasts to no such peer). Decided on the case specification alone.
func (cs *c29Case) parkPeer() int {
	if _, _, silent := cs.expectedDest(true); silent {
		return -1
	}

	best := -1

	for i, r := range cs.Rows {
		if r.Beh == "gate" && r.State == "active" && r.Name == cs.Cluster && r.ID != cs.Self &&
			(best < 0 || r.Joined < cs.Rows[best].Joined) {
			best = i
		}
	}

	return best
}

// burst: op.N Purge calls of the same cache on the node; from the second on they are issued while
// the broadcast of the first is still in progress (parked at a peer that sits on its request), after
// the peers that broadcast has already served had time to reload the cache.
//
// Oracle (needs no model, holds for EVERY interleaving of the hook goroutines): for every purge j
// of the burst and every active peer d of the node whose endpoint is up, d RECEIVES a flush request
// for that cache after purge j was issued. (A request that arrived before the purge was issued
// cannot have made the peer discard what it loaded since.)
func (e *c29Env) burst(cs *c29Case, op *c29Op, recorded *[]c29Msg) {
	c, n := op.Cache, min(max(op.N, 2), 6)
	witness := c + 100000
	live, _, silent := cs.expectedDest(true)
	park := cs.parkPeer()

	e.add(witness)

	_ = c29Take()
	base := c29HookStarted.Load()
	expectHook := 0

	if cs.On && cs.Hook {
		expectHook = n
	}

	gate := make(chan struct{})
	c29SetGate(gate)

	marks := make([]int64, n)

	for j := 0; j < n; j++ {
		// the data changed again: whoever had discarded the cache has reloaded it by now (the
		// origin for real; Row%4 == 3: the origin never holds it — it must broadcast all the same)
		if op.Row%4 != 3 {
			e.add(c)
		}

		marks[j] = c29SeqNow()

		caches.Purge(c)

		if park >= 0 {
			limit := 20 * time.Millisecond
			if j == 0 && !c29Slow.Load() {
				limit = 5 * time.Second
			}

			if !c29WaitParked(park, j+1, limit) && j == 0 {
				c29Slow.Store(true)
			}
		}
	}

	close(gate)
	c29SetGate(nil)

	fired := c29Settle(base, expectHook)
	ms := e.decode(c29Take())
	disc := c29CachingActive() && caches.Size(c) == 0

	in := fmt.Sprintf("burst %d %s %s %s %s %d %d %s", cs.Self, c29ClusterField(cs.Cluster), c29b(cs.DB), c29b(cs.Hook),
		c29b(cs.On), c, n, cs.rowsField())
	e.emit(in, fmt.Sprintf("disc=%s fire=%d msgs=%s", c29b(disc), fired, c29ShowMsgs(ms)), "burst", !silent && park >= 0 && len(live) >= 2)

	if !silent && park >= 0 && len(live) >= 2 {
		e.stats.Inc("burst.parked")
	}

	e.judgeEach(cs, c, true, ms)

	if len(ms) > n*cs.peerRows() {
		e.fail("unbounded", "more flush requests than purges × peers for a burst of purges", cs, strconv.Itoa(len(ms)), "<= "+strconv.Itoa(n*cs.peerRows()))
	}

	arrivals := map[int][]int64{}
	for _, m := range ms {
		arrivals[m.Dest] = append(arrivals[m.Dest], m.Raw.Seq)
	}

	show := func() string {
		parts := []string{fmt.Sprintf("purges issued after arrival no. %v", marks)}
		for _, d := range live {
			sort.Slice(arrivals[d], func(i, j int) bool { return arrivals[d][i] < arrivals[d][j] })
			parts = append(parts, fmt.Sprintf("n%d received its requests as arrival no. %v", d, arrivals[d]))
		}

		return strings.Join(parts, "; ")
	}

	if !silent {
	judged:
		for _, d := range live {
			if len(arrivals[d]) > n {
				e.fail("duplicate-flush", "an active peer received more flush requests than there were purges", cs, show(), fmt.Sprintf("%d requests to n%d", n, d))
			}

			for j := 0; j < n; j++ {
				later := 0

				for _, sq := range arrivals[d] {
					if sq > marks[j] {
						later++
					}
				}

				if later == 0 {
					e.fail("overlapping-purge-not-announced", fmt.Sprintf("purge no. %d of %d purges of cache %d was issued while the broadcast of an earlier purge of that cache "+
						"was still in progress, and active peer n%d (endpoint up) received NO flush request after it was issued: whatever the peer loaded "+
						"since its last flush stays in its cache (every purge must reach every active peer)", j+1, n, c, d),
						cs, show(), fmt.Sprintf("a flush request for cache %d arriving at n%d after purge no. %d was issued", c, d, j+1))

					break judged
				}
			}
		}
	}

	if cs.On && !disc {
		e.fail("local-not-discarded", "the purged cache is still populated on the origin after a burst of purges", cs, strconv.Itoa(caches.Size(c)), "0")
	}

	if cs.On && caches.Size(witness) != 1 {
		e.fail("collateral-purge", "a purge of one cache discarded another cache", cs, "", "")
	}

	if fired != expectHook {
		e.fail("hook-count", "OnPurge fired a different number of times than one per originated purge (burst of purges of one cache)", cs, strconv.Itoa(fired), strconv.Itoa(expectHook))
	}

	e.stats.Add("requests", len(ms))
	*recorded = append(*recorded, ms...)
}

// c29AuthFor builds the Authorization header of a generated flush request.
func c29AuthFor(cs *c29Case, kind string) string {
	switch {
	case kind == "good":
		return c29Token(c29Names[cs.Cluster])
	case strings.HasPrefix(kind, "other:"):
		i, _ := strconv.Atoi(kind[6:])

		return c29Token(c29Names[i])
	case kind == "wrongkey":
		settings.Set(defs.ServerTokenKeySetting, c29Key+"-x")

		h := c29Token(c29Names[cs.Cluster])

		settings.Set(defs.ServerTokenKeySetting, c29Key)

		return h
	case kind == "bare":
		return "Bearer "
	case kind == "short":
		return "Bear"
	case kind == "garbage":
		return "Bearer cluster-0000000000000000000000000000000000000000000000000000000000000000"
	case kind == "truncated":
		h := c29Token(c29Names[cs.Cluster])

		return h[:len(h)-1]
	}

	return "" // missing
}

// c29TokField is the model's view of that header: the cluster whose token it is, or "-".
func c29TokField(cs *c29Case, kind string) string {
	switch {
	case kind == "good":
		return c29ClusterField(cs.Cluster) // the token of "" (standalone) is nobody's
	case strings.HasPrefix(kind, "other:"):
		return kind[6:]
	}

	return "-"
}

// flush drives one request through the real router into the real FlushCacheHandler and judges it.
func (e *c29Env) flush(cs *c29Case, self int, hdr http.Header, body []byte, tok string, wf bool, cache, hops int, desc string) {
	target, witness := cache, cache+100000

	if !wf {
		target = 0
	}

	e.add(target)
	e.add(witness)

	before := caches.Size(target)
	_ = c29Take()
	base := c29HookStarted.Load()

	req := httptest.NewRequest(http.MethodPost, "/services/cluster/flush", bytes.NewReader(body))

	for k, vs := range hdr {
		for _, v := range vs {
			req.Header.Add(k, v)
		}
	}

	acc := c29AcceptOK(req.Header.Values("Accept"))
	w := httptest.NewRecorder()
	c29Router.ServeHTTP(w, req)
	status := w.Code

	fired := c29Settle(base, 0)
	ms := e.decode(c29Take())
	disc := before > 0 && caches.Size(target) == 0

	if !wf {
		cache, hops = 0, 0
	}

	in := fmt.Sprintf("flush %d %s %s %s %s %s %s %s %d %d %s", self, c29ClusterField(cs.Cluster), c29b(cs.DB), c29b(cs.Hook), c29b(cs.On),
		c29b(acc), tok, c29b(wf), cache, hops, cs.rowsField())
	e.emit(in, fmt.Sprintf("status=%d disc=%s fire=%d msgs=%s", status, c29b(disc), fired, c29ShowMsgs(ms)), desc,
		status == http.StatusOK || !strings.HasSuffix(desc, ".std"))
	e.stats.Inc("flush." + desc)

	// model-free oracle
	if fired != 0 || len(ms) != 0 {
		e.fail("rebroadcast", "handling a received flush fired the broadcast hook or sent flush requests", cs,
			fmt.Sprintf("hook=%d requests=%s", fired, c29ShowMsgs(ms)), "hook=0 requests=-")
	}

	if desc == "recorded" {
		// a request the origin really sent for a purge, delivered to the active peer it was
		// addressed to (same cluster, caches on): the peer must discard that cache
		if status != http.StatusOK || !disc {
			e.fail("flush-refused-by-peer", "a flush request sent by SendCacheFlush for a purge was refused by the peer (router + FlushCacheHandler): the peer keeps its stale cache",
				cs, fmt.Sprintf("status=%d discarded=%v response=%s request-headers=%v body=%s", status, disc, strings.Join(strings.Fields(w.Body.String()), " "), hdr, body),
				"status=200 discarded=true")
		}
	} else {
		tokOK := cs.Cluster != 0 && tok == strconv.Itoa(cs.Cluster)

		switch {
		case !acc:
			if status != http.StatusBadRequest || disc {
				e.fail("unacceptable-flush", "a flush whose Accept header the route does not admit was not refused with 400", cs, fmt.Sprintf("status=%d disc=%v", status, disc), "400")
			}
		case !tokOK:
			if status != http.StatusUnauthorized || disc {
				e.fail("unauthenticated-flush", "a flush without the cluster's token was not refused with 401", cs, fmt.Sprintf("status=%d disc=%v", status, disc), "401")
			}
		case !wf:
			if status != http.StatusBadRequest || disc {
				e.fail("malformed-flush", "a flush with an undecodable body was not refused with 400", cs, fmt.Sprintf("status=%d disc=%v body=%q", status, disc, body), "400")
			}
		case hops > 4:
			if status != http.StatusOK || disc {
				e.fail("hop-limit-ignored", "a flush over the hop limit was applied or refused with an error", cs, fmt.Sprintf("status=%d disc=%v", status, disc), "200, not applied")
			}
		default:
			if status != http.StatusOK || (cs.On && !disc) {
				e.fail("flush-not-applied", "an authentic flush within the hop limit did not discard the cache", cs, fmt.Sprintf("status=%d disc=%v hops=%d", status, disc, hops), "200, cache discarded")
			}
		}
	}

	if cs.On && caches.Size(witness) != 1 {
		e.fail("collateral-purge", "a flush of one cache discarded another cache", cs, "", "")
	}
}

// ---------------------------------------------------------------- generators

func c29GenRows(r *rand.Rand, self, cluster int, maxRows int) []c29Row {
	home := cluster
	if home == 0 {
		home = 1
	}

	n := r.Intn(maxRows + 1)
	ids := r.Perm(14)
	rows := []c29Row{}

	if r.Intn(4) != 0 {
		st := "active"
		if r.Intn(6) == 0 {
			st = c29States[1+r.Intn(len(c29States)-1)]
		}

		rows = append(rows, c29Row{ID: self, Name: home, State: st, Beh: "ok"})
	}

	for _, id := range ids {
		if len(rows) >= n {
			break
		}

		if id == self {
			continue
		}

		row := c29Row{ID: id, Name: home, State: "active", Beh: "ok"}

		if r.Intn(10) < 3 {
			row.Name = 1 + r.Intn(len(c29Names)-1)
		}

		if r.Intn(100) < 40 {
			row.State = c29States[r.Intn(len(c29States))]
		}

		switch r.Intn(12) {
		case 0:
			row.Beh = "500"
		case 1:
			row.Beh = "401"
		case 2:
			row.Beh = "hangup"
		case 3:
			row.Beh = "dead"
		}

		rows = append(rows, row)
	}

	r.Shuffle(len(rows), func(i, j int) { rows[i], rows[j] = rows[j], rows[i] })

	for i, k := range r.Perm(len(rows)) {
		rows[i].Joined = k * 7
	}

	if len(rows) > len(c29peers) {
		rows = rows[:len(c29peers)]
	}

	return rows
}

func c29GenConfig(r *rand.Rand) c29Case {
	cs := c29Case{Self: r.Intn(14), Cluster: 1 + r.Intn(len(c29Names)-1), DB: true, Hook: true, On: true}

	if r.Intn(10) == 0 {
		cs.Cluster = 0
	}

	if r.Intn(14) == 0 {
		cs.DB = false
	}

	if r.Intn(14) == 0 {
		cs.Hook = false
	}

	if r.Intn(14) == 0 {
		cs.On = false
	}

	return cs
}

func c29GenPurgeCase(r *rand.Rand) c29Case {
	cs := c29GenConfig(r)
	cs.Rows = c29GenRows(r, cs.Self, cs.Cluster, 9)
	cs.Replay = true

	for i, n := 0, r.Intn(4); i < n; i++ {
		cs.Fill = append(cs.Fill, c29CacheIDs[r.Intn(len(c29CacheIDs))])
	}

	for i, n := 0, 1+r.Intn(3); i < n; i++ {
		c := c29CacheIDs[r.Intn(len(c29CacheIDs))]

		switch k := r.Intn(20); {
		case k < 12:
			cs.Ops = append(cs.Ops, c29Op{Kind: "purge", Cache: c, Row: r.Intn(8)})
		case k < 15:
			cs.Ops = append(cs.Ops, c29Op{Kind: "local", Cache: c})
		case k < 17:
			cs.Ops = append(cs.Ops, c29Op{Kind: "all"})
		default:
			if len(cs.Rows) > 0 {
				st := "active"
				if r.Intn(2) == 0 {
					st = c29States[r.Intn(len(c29States))]
				}

				cs.Ops = append(cs.Ops, c29Op{Kind: "flip", Row: r.Intn(len(cs.Rows)), State: st})
			}

			cs.Ops = append(cs.Ops, c29Op{Kind: "purge", Cache: c})
		}
	}

	return cs
}

// c29GenSlowCase: a random table in which one active peer of the node holds its request beyond the sender's
// timeout (or two hold it for 2.6 s each), at a random place in the join order; one purge. Costs ~5 s.
func c29GenSlowCase(r *rand.Rand) c29Case {
	cs := c29Case{Self: r.Intn(14), Cluster: 1 + r.Intn(len(c29Names)-1), DB: true, Hook: true, On: true, Replay: true}
	cs.Rows = c29GenRows(r, cs.Self, cs.Cluster, 6)

	for i := range cs.Rows {
		cs.Rows[i].Joined += 10 // room for rows that join first
	}

	free := []int{}

	for id := 0; id < 14; id++ {
		used := id == cs.Self

		for _, row := range cs.Rows {
			used = used || row.ID == id
		}

		if !used {
			free = append(free, id)
		}
	}

	// two healthy active peers and the slow one(s), placed anywhere in the join order
	extra := []string{"ok", "ok", "hold9000"}
	if r.Intn(3) == 0 {
		extra = []string{"ok", "ok", "hold2600", "hold2600"}
	}

	for k, beh := range extra {
		if len(cs.Rows) >= len(c29peers) || k >= len(free) {
			break
		}

		cs.Rows = append(cs.Rows, c29Row{ID: free[k], Name: cs.Cluster, State: "active", Beh: beh})
	}

	for i, k := range r.Perm(len(cs.Rows)) {
		cs.Rows[i].Joined = k * 7
	}

	cs.Ops = []c29Op{{Kind: "purge", Cache: c29CacheIDs[r.Intn(len(c29CacheIDs))], Row: r.Intn(8)}}

	return cs
}

// c29GenBurstCase: a random table in which some rows (mostly active peers of the node, at random places in the
// join order; sometimes rows the node does not broadcast to) point at an endpoint that sits on its request while
// the burst is issued; 2-4 purges of one cache per burst, sometimes preceded by a state flip or a plain purge.
func c29GenBurstCase(r *rand.Rand) c29Case {
	cs := c29GenConfig(r)
	cs.Rows = c29GenRows(r, cs.Self, cs.Cluster, 7)
	cs.Replay = true

	home := max(cs.Cluster, 1)
	cand := []int{}

	for i, row := range cs.Rows {
		if row.ID != cs.Self {
			cand = append(cand, i)
		}
	}

	r.Shuffle(len(cand), func(i, j int) { cand[i], cand[j] = cand[j], cand[i] })

	gates := 1 + r.Intn(2)
	if r.Intn(6) == 0 {
		gates = 0
	}

	for k := 0; k < gates && k < len(cand); k++ {
		row := &cs.Rows[cand[k]]
		row.Beh = "gate"

		if r.Intn(4) != 0 {
			row.State, row.Name = "active", home
		}
	}

	for i, nb := 0, 1+r.Intn(2); i < nb; i++ {
		c := c29CacheIDs[r.Intn(len(c29CacheIDs))]

		switch r.Intn(6) {
		case 0:
			if len(cs.Rows) > 0 {
				cs.Ops = append(cs.Ops, c29Op{Kind: "flip", Row: r.Intn(len(cs.Rows)), State: c29States[r.Intn(3)]})
			}
		case 1:
			cs.Ops = append(cs.Ops, c29Op{Kind: "purge", Cache: c, Row: r.Intn(8)})
		}

		cs.Ops = append(cs.Ops, c29Op{Kind: "burst", Cache: c, N: 2 + r.Intn(3), Row: r.Intn(8)})
	}

	return cs
}

var c29HopValues = []int{-7, -1, 0, 1, 1, 1, 2, 3, 4, 4, 5, 5, 6, 100, 1 << 40}

func c29GenFlushSpec(r *rand.Rand, cs *c29Case) *c29FlushSpec {
	f := &c29FlushSpec{Tok: "good", Accept: "application/json"}

	if r.Intn(5) == 0 {
		f.Accept = []string{"", "", "*/*", "APPLICATION/JSON", "text/html", "text/*;q=0.5, */*;q=0.1", "application/xml", "text/plain"}[r.Intn(8)]
	}

	switch r.Intn(14) {
	case 0:
		f.Tok = "other:" + strconv.Itoa(1+r.Intn(len(c29Names)-1))
	case 1:
		f.Tok = "wrongkey"
	case 2:
		f.Tok = []string{"missing", "bare", "short", "garbage", "truncated"}[r.Intn(5)]
	}

	c := c29CacheIDs[r.Intn(len(c29CacheIDs))]
	h := c29HopValues[r.Intn(len(c29HopValues))]
	sender := c29NodeName(r.Intn(14))
	f.WF, f.Cache, f.Hops = true, c, h

	switch k := r.Intn(24); {
	case k < 10:
		f.Class = "std"
		f.Body = fmt.Sprintf(`{"cache_id":%d,"sender_id":%q,"hops":%d}`, c, sender, h)
	case k == 10:
		f.Class = "nohops"
		f.Body = fmt.Sprintf(`{"cache_id":%d,"sender_id":"old-build"}`, c)
		f.Hops = 0
	case k == 11:
		f.Class = "extra"
		f.Body = fmt.Sprintf("{ \"x\" : [1,{\"hops\":9}],\n\t\"hops\" : %d , \"sender_id\":\"é\\u0000\", \"cache_id\" : %d, \"y\":null }", h, c)
	case k == 12:
		f.Class = "empty-object"
		f.Body, f.Cache, f.Hops = []string{`{}`, `null`, ` {"sender_id":"x"} `}[r.Intn(3)], 0, 0
	case k == 13:
		f.Class = "trailing"
		f.Body = fmt.Sprintf(`{"cache_id":%d,"hops":%d} trailing {"hops":9}`, c, h)
	case k == 14:
		f.Class = "dupkey"
		f.Body = fmt.Sprintf(`{"cache_id":99,"hops":9,"cache_id":%d,"hops":%d}`, c, h)
	case k == 15:
		f.Class = "keycase"
		f.Body = fmt.Sprintf(`{"CACHE_ID":%d,"Hops":%d,"Sender_Id":"n1"}`, c, h)
	case k == 16:
		f.Class = "nullfield"
		f.Body = fmt.Sprintf(`{"cache_id":null,"hops":%d}`, h)
		f.Cache = 0
	default:
		f.Class = "malformed"
		f.WF, f.Cache, f.Hops = false, 0, 0
		f.Body = []string{``, `{`, `[1,2]`, `"text"`, `{"cache_id":"5","hops":1}`, `{"cache_id":1,"hops":1.5}`, `{"cache_id":1e2,"hops":1}`,
			`{"cache_id":1,"hops":99999999999999999999}`, `{"cache_id":1,"hops":"1"}`, `{"cache_id":1,"hops":1`, `cache_id=1&hops=1`, `7`,
			`{"cache_id":true}`, "\x00", `{"sender_id":5,"cache_id":1,"hops":1}`}[r.Intn(15)]
	}

	return f
}

func c29GenFlushCase(r *rand.Rand) c29Case {
	cs := c29GenConfig(r)
	cs.Rows = c29GenRows(r, cs.Self, cs.Cluster, 5)

	for i, n := 0, 1+r.Intn(4); i < n; i++ {
		cs.Ops = append(cs.Ops, c29Op{Kind: "flush", Flush: c29GenFlushSpec(r, &cs)})
	}

	return cs
}

func c29Corpus() []c29Case {
	act := func(id, name int, beh string, j int) c29Row {
		return c29Row{ID: id, Name: name, State: "active", Beh: beh, Joined: j}
	}

	full := c29Case{Self: 0, Cluster: 1, DB: true, Hook: true, On: true, Replay: true}
	out := []c29Case{}

	// a cluster of one: only the node's own row
	c := full
	c.Rows = []c29Row{act(0, 1, "ok", 0)}
	c.Ops = []c29Op{{Kind: "purge", Cache: 1}}
	out = append(out, c)

	// two nodes, the loop of CLUSTER-1
	c = full
	c.Rows = []c29Row{act(0, 1, "ok", 0), act(1, 1, "ok", 1)}
	c.Ops = []c29Op{{Kind: "purge", Cache: 1}, {Kind: "purge", Cache: 1, Row: 3}, {Kind: "local", Cache: 1}}
	out = append(out, c)

	// five nodes, all active; the node's own row in the middle of the join order
	c = full
	c.Self = 3
	c.Rows = []c29Row{act(1, 1, "ok", 0), act(2, 1, "ok", 1), act(3, 1, "ok", 2), act(4, 1, "ok", 3), act(5, 1, "ok", 4)}
	c.Fill = []int{0, 2, 5}
	c.Ops = []c29Op{{Kind: "purge", Cache: 5}, {Kind: "all"}}
	out = append(out, c)

	// failing peers first in join order must not stop the broadcast
	c = full
	c.Rows = []c29Row{act(1, 1, "500", 0), act(2, 1, "dead", 1), act(3, 1, "hangup", 2), act(4, 1, "401", 3), act(5, 1, "ok", 4), act(0, 1, "ok", 5)}
	c.Ops = []c29Op{{Kind: "purge", Cache: 3}}
	out = append(out, c)

	// a SLOW peer first in join order: it takes the request and does not answer within the sender's 5 s.
	// The limit is per peer: everybody after it (an erroring one, a dead one, healthy ones) still gets
	// exactly one request. (~5 s of real time: the production timeout cannot be shortened.)
	c = full
	c.Self = 2
	c.Rows = []c29Row{act(1, 1, "hold9000", 0), act(2, 1, "ok", 1), act(3, 1, "ok", 2), act(4, 1, "500", 3), act(5, 1, "dead", 4), act(6, 1, "ok", 5),
		act(7, 2, "ok", 6), {ID: 8, Name: 1, State: "inactive", Beh: "ok", Joined: 7}, act(9, 1, "ok", 8)}
	c.Ops = []c29Op{{Kind: "purge", Cache: 5}}
	out = append(out, c)

	// three peers that each answer well within the limit, but whose delays add up to more than 5 s,
	// before the healthy ones (~5.3 s of real time)
	c = full
	c.Rows = []c29Row{act(0, 1, "ok", 0), act(1, 1, "hold1750", 1), act(2, 1, "hold1750", 2), act(3, 1, "hold1750", 3), act(4, 1, "ok", 4), act(5, 1, "ok", 5)}
	c.Ops = []c29Op{{Kind: "purge", Cache: 7}}
	out = append(out, c)

	// OVERLAPPING purges of one cache. A fast peer, then a peer that sits on its request, then a fast peer:
	// the first purge's broadcast serves n1 and comes to rest at n2; the second purge is issued then
	// (n1 may have reloaded the cache in between): n1, n2 and n3 must each be told about it as well.
	c = full
	c.Rows = []c29Row{act(0, 1, "ok", 0), act(1, 1, "ok", 1), act(2, 1, "gate", 2), act(3, 1, "ok", 3)}
	c.Ops = []c29Op{{Kind: "burst", Cache: 1, N: 2}}
	out = append(out, c)

	// the sitting peer first in join order, three purges, the cache absent on the origin; then the same
	// again (nothing of the first burst may linger), then an ordinary purge
	c = full
	c.Self = 4
	c.Rows = []c29Row{act(2, 1, "gate", 0), act(4, 1, "ok", 1), act(1, 1, "ok", 2), act(3, 1, "500", 3), act(5, 1, "dead", 4), act(6, 1, "ok", 5),
		{ID: 7, Name: 1, State: "inactive", Beh: "ok", Joined: 6}, act(8, 2, "ok", 7)}
	c.Ops = []c29Op{{Kind: "burst", Cache: 5, N: 3, Row: 3}, {Kind: "burst", Cache: 5, N: 2}, {Kind: "purge", Cache: 5}}
	out = append(out, c)

	// two sitting peers among failing ones, four purges; a burst of another cache; PurgeAll afterwards
	c = full
	c.Rows = []c29Row{act(1, 1, "hangup", 0), act(2, 1, "ok", 1), act(3, 1, "gate", 2), act(0, 1, "ok", 3), act(4, 1, "401", 4), act(5, 1, "gate", 5), act(6, 1, "ok", 6)}
	c.Fill = []int{2, 9}
	c.Ops = []c29Op{{Kind: "burst", Cache: 9, N: 4}, {Kind: "burst", Cache: 2, N: 2}, {Kind: "all"}}
	out = append(out, c)

	// no sitting peer (purges back to back, whatever interleaving results); the sitting peer inactive / in another
	// cluster; and nodes that must stay silent
	c = full
	c.Rows = []c29Row{act(0, 1, "ok", 0), act(1, 1, "ok", 1), act(2, 1, "ok", 2)}
	c.Ops = []c29Op{{Kind: "burst", Cache: 3, N: 4}}
	out = append(out, c)

	c = full
	c.Rows = []c29Row{act(0, 1, "ok", 0), {ID: 1, Name: 1, State: "removed", Beh: "gate", Joined: 1}, act(2, 2, "gate", 2), act(3, 1, "ok", 3)}
	c.Ops = []c29Op{{Kind: "burst", Cache: 3, N: 2}, {Kind: "flip", Row: 1, State: "active"}, {Kind: "burst", Cache: 3, N: 2}}
	out = append(out, c)

	for k := 0; k < 3; k++ {
		c = full
		c.Rows = []c29Row{act(0, 1, "ok", 0), act(1, 1, "gate", 1), act(2, 1, "ok", 2)}
		c.Ops = []c29Op{{Kind: "burst", Cache: 2, N: 2}}

		switch k {
		case 0:
			c.Cluster = 0
		case 1:
			c.Hook = false
		case 2:
			c.On = false
		}

		out = append(out, c)
	}

	// inactive, removed, oddly spelled and foreign rows; own row marked removed
	c = full
	c.Rows = []c29Row{{ID: 0, Name: 1, State: "removed", Beh: "ok"}, {ID: 1, Name: 1, State: "inactive", Beh: "ok", Joined: 1},
		{ID: 2, Name: 1, State: "removed", Beh: "ok", Joined: 2}, {ID: 3, Name: 1, State: "Active", Beh: "ok", Joined: 3},
		{ID: 4, Name: 1, State: "active ", Beh: "ok", Joined: 4}, act(5, 2, "ok", 5), act(6, 3, "ok", 6), act(7, 4, "ok", 7), act(8, 1, "ok", 8)}
	c.Ops = []c29Op{{Kind: "purge", Cache: 0}, {Kind: "flip", Row: 1, State: "active"}, {Kind: "purge", Cache: 0},
		{Kind: "flip", Row: 8, State: "inactive"}, {Kind: "purge", Cache: 0}}
	out = append(out, c)

	// standalone, no hook, caches off, no database
	for k := 0; k < 4; k++ {
		c = full
		c.Rows = []c29Row{act(0, 1, "ok", 0), act(1, 1, "ok", 1), act(2, 1, "ok", 2)}
		c.Ops = []c29Op{{Kind: "purge", Cache: 2}, {Kind: "all"}}
		c.Fill = []int{1, 2}

		switch k {
		case 0:
			c.Cluster = 0
		case 1:
			c.Hook = false
		case 2:
			c.On = false
		case 3:
			c.DB = false
		}

		out = append(out, c)
	}

	// the handler: every hop count around the limit, old builds, hostile tokens and bodies
	c = full
	c.Replay = false
	c.Self = 1
	c.Rows = []c29Row{act(0, 1, "ok", 0), act(1, 1, "ok", 1), act(2, 1, "ok", 2)}

	for _, h := range []int{-1, 0, 1, 2, 3, 4, 5, 6, 1000} {
		c.Ops = append(c.Ops, c29Op{Kind: "flush", Flush: &c29FlushSpec{Accept: "application/json", Tok: "good", WF: true, Cache: 1, Hops: h, Class: "std",
			Body: fmt.Sprintf(`{"cache_id":1,"sender_id":"n0","hops":%d}`, h)}})
	}

	for _, tk := range []string{"other:2", "other:3", "other:4", "wrongkey", "missing", "bare", "short", "garbage", "truncated"} {
		c.Ops = append(c.Ops, c29Op{Kind: "flush", Flush: &c29FlushSpec{Accept: "*/*", Tok: tk, WF: true, Cache: 1, Hops: 1, Class: "std",
			Body: `{"cache_id":1,"sender_id":"n0","hops":1}`}})
	}

	c.Ops = append(c.Ops, c29Op{Kind: "flush", Flush: &c29FlushSpec{Accept: "application/json", Tok: "good", WF: true, Cache: 4, Hops: 0, Class: "nohops",
		Body: `{"cache_id":4,"sender_id":"old-peer"}`}})
	c.Ops = append(c.Ops, c29Op{Kind: "flush", Flush: &c29FlushSpec{Accept: "application/json", Tok: "good", WF: false, Class: "malformed", Body: `{"cache_id":`}})

	for _, ac := range []string{"", "text/html", "*/*", "APPLICATION/JSON"} {
		c.Ops = append(c.Ops, c29Op{Kind: "flush", Flush: &c29FlushSpec{Accept: ac, Tok: "good", WF: true, Cache: 1, Hops: 1, Class: "accept",
			Body: `{"cache_id":1,"sender_id":"n0","hops":1}`}})
	}
	out = append(out, c)

	return out
}

// ---------------------------------------------------------------- the test

func TestVerifC29(t *testing.T) {
	e := &c29Env{t: t, cases: verifh.Out("c29_cases.jsonl"), fails: verifh.Out("c29_failures.jsonl"), stats: verifh.NewStats(),
		seen: map[string]bool{}}

	defer func() {
		e.cases.Close()
		e.fails.Close()
		e.stats.Save("c29_stats.json")
	}()

	dir := os.Getenv("VERIF_OUT")
	if dir == "" {
		dir = t.TempDir()
	}

	dbdir := filepath.Join(dir, "c29db")
	_ = os.RemoveAll(dbdir)

	if err := os.MkdirAll(dbdir, 0o755); err != nil {
		t.Fatal(err)
	}

	settings.Set(defs.ServerTokenKeySetting, c29Key)

	// the node comes up through the real Initialize
	defs.InstanceID = "n0"
	ctx := &cli.Context{Grammar: []cli.Option{
		{LongName: "cluster", OptionType: cli.StringType, Found: true, Value: c29Names[1]},
		{LongName: "users", OptionType: cli.StringType, Found: true, Value: "sqlite://" + filepath.Join(dbdir, "system.db")},
		{LongName: "port", OptionType: cli.IntType, Found: true, Value: 1},
		{LongName: "not-secure", OptionType: cli.BooleanType, Found: true, Value: true},
	}}

	if err := Initialize(ctx); err != nil {
		t.Fatalf("cluster.Initialize: %v", err)
	}

	boot := &c29Case{Self: 0, Cluster: 1, DB: true, Hook: true, On: true}

	if ClusterName != c29Names[1] || NodeID != "n0" || systemDB == nil {
		e.fail("initialize", "cluster.Initialize did not put the node in cluster mode", boot, fmt.Sprintf("%q %q %v", ClusterName, NodeID, systemDB != nil), "")
		t.Fatalf("Initialize left the node standalone")
	}

	if caches.OnPurge == nil || reflect.ValueOf(caches.OnPurge).Pointer() != reflect.ValueOf(BroadcastCacheFlush).Pointer() {
		e.fail("hook-not-registered", "cluster.Initialize did not register BroadcastCacheFlush as caches.OnPurge: a purge on this node reaches no peer", boot, "", "caches.OnPurge = BroadcastCacheFlush")
	}

	var state string
	if err := systemDB.QueryRow(`SELECT state FROM cluster WHERE node_id = 'n0' AND name = $1`, c29Names[1]).Scan(&state); err != nil || state != "active" {
		e.fail("initialize", "cluster.Initialize did not register the node as an active member", boot, state, "active")
	}

	e.db = systemDB
	c29OrigHook = caches.OnPurge

	// the receiving side: a real router with the flush route as commands/server.go declares it
	// (checks/C29.py verifies that declaration in the tree under test on every run)
	c29Router = router.NewRouter("c29-peer")
	c29Router.New(defs.ServicesClusterFlushPath, FlushCacheHandler, http.MethodPost).
		Class(router.AdminRequestCounter).
		AcceptMedia(defs.JSONMediaType)

	// recording peers
	for i := 0; i < 10; i++ {
		p := &c29Peer{idx: i}
		p.beh.Store("ok")
		p.srv = httptest.NewServer(p)
		p.port = p.srv.Listener.Addr().(*net.TCPAddr).Port
		c29peers = append(c29peers, p)
	}

	l, err := net.Listen("tcp", "127.0.0.1:0")
	if err != nil {
		t.Fatal(err)
	}

	c29dead = l.Addr().(*net.TCPAddr).Port
	l.Close()

	defer func() {
		for _, p := range c29peers {
			p.srv.Close()
		}
	}()

	globalBase := c29HookStarted.Load()

	// replay of a failing input
	if rp := verifh.ReplayInput(); len(rp) > 0 {
		var v struct {
			Failures []struct {
				Input string `json:"input"`
			} `json:"failures"`
		}

		if json.Unmarshal(rp, &v) == nil {
			for _, f := range v.Failures {
				var cs c29Case
				if json.Unmarshal([]byte(f.Input), &cs) == nil && len(cs.Ops) > 0 {
					e.run(&cs)
				}
			}
		}

		return
	}

	for _, cs := range c29Corpus() {
		cs := cs
		e.run(&cs)
		e.stats.Inc("corpus")
	}

	rp := verifh.Rand(29)
	for i, n := 0, verifh.N(400, 5000); i < n; i++ {
		cs := c29GenPurgeCase(rp)
		e.run(&cs)
	}

	// overlapping purges of one cache (a peer sits on its request while the rest of the burst is issued)
	rb := verifh.Rand(29029)
	for i, n := 0, verifh.N(60, 800); i < n; i++ {
		cs := c29GenBurstCase(rb)
		e.run(&cs)
		e.stats.Inc("burstcases")
	}

	// slow peers at random places (real seconds each: thorough tier only; the corpus has the two fixed ones)
	rs := verifh.Rand(292929)
	nslow := 0
	if verifh.Thorough() {
		nslow = 2 // not verifh.N: VERIF_CASES must not multiply cases that cost 5 s each
	}

	for i := 0; i < nslow; i++ {
		cs := c29GenSlowCase(rs)
		e.run(&cs)
		e.stats.Inc("slowcases")
	}

	rf := verifh.Rand(2929)
	for i, n := 0, verifh.N(600, 7000); i < n; i++ {
		cs := c29GenFlushCase(rf)
		e.run(&cs)
	}

	// nothing may fire late: after a grace period the number of hook calls is still the number the
	// per-case accounting saw
	seenHooks := c29HookStarted.Load() - globalBase
	time.Sleep(300 * time.Millisecond)

	if late := c29HookStarted.Load() - globalBase - seenHooks; late != 0 {
		e.fail("rebroadcast", "broadcast hook calls arrived after their case was judged", boot, strconv.FormatInt(late, 10), "0")
	}

	if late := c29Take(); len(late) != 0 {
		e.fail("rebroadcast", "flush requests arrived at peers after their case was judged", boot, strconv.Itoa(len(late)), "0")
	}

	e.stats.Add("failures", e.nfail)
	e.stats.Add("us.settle", int(c29SettleMicros.Load()))
}
