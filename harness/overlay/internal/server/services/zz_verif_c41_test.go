//go:build verif

package services

// C41 — child-process services answer like in-process services.
//
// The harness runs the REAL ServiceHandler three times per case on the same service program and the
// same request: in-process (ego.server.child.services=false), via the socket ("pipe") transport and via
// the file transport.  The child is the real ego binary ($VERIF_EGO, built from the same tree), started by
// the real callChildServices through os.Args[0].
//
//   oracle (model-free): the three HTTP responses (status, canonical header map minus Date, body bytes) are
//     equal.  Echo services answer a JSON object with one key per request field, so a difference is
//     attributed to the field that differs; the failure class is a deterministic function of the case.
//     The same oracle runs a family of SIZED cases (c41SizeCorpus, c41GenSizeCase): bodies, header values and query
//     values of 0 B to several MiB in both directions, a case being a short document ("data" repeated "rep" times).
//   correspondence: the file transport is run with "retain", so the request JSON and the response JSON the
//     real code wrote are read back and compared with the Lean model's encode/decode (egodriver C41).

import (
	"bytes"
	"crypto/sha256"
	"encoding/hex"
	"encoding/json"
	"fmt"
	"math/rand"
	"net/http"
	"net/http/httptest"
	"net/url"
	"os"
	"os/exec"
	"path/filepath"
	"sort"
	"strconv"
	"strings"
	"testing"
	"time"
	"unicode/utf8"

	"github.com/tucats/ego/internal/cli/settings"
	"github.com/tucats/ego/internal/defs"
	"github.com/tucats/ego/internal/router"
	"github.com/tucats/ego/internal/verifh"
)

// ---------------------------------------------------------------- case description

type c41Hdr struct {
	Op  string `json:"op"` // add | set | del
	K   string `json:"k"`
	V   string `json:"v"`
	Rep int    `json:"rep,omitempty"` // > 0: the value is V repeated Rep times (built by the service at run time)
}

func (h c41Hdr) val() string {
	if h.Rep > 0 {
		return strings.Repeat(h.V, h.Rep)
	}

	return h.V
}

// c41Big is a request header line / query parameter whose value is V repeated Rep times: a case stays a short
// document (the failing input of a size-dependent difference is readable) while the payload has any size.
type c41Big struct {
	K   string `json:"k"`
	V   string `json:"v"`
	Rep int    `json:"rep"`
}

type c41Svc struct {
	Kind   string   `json:"kind"`             // gen | lib | raw
	File   string   `json:"file,omitempty"`   // lib: path below lib/services
	Raw    string   `json:"raw,omitempty"`    // raw: program text
	Echo   []string `json:"echo,omitempty"`   // gen: request fields echoed in the JSON body
	Status int      `json:"status,omitempty"` // gen: WriteHeader argument (0 = none)
	Hdrs   []c41Hdr `json:"hdrs,omitempty"`   // gen: response header operations in order
	Body   string   `json:"body,omitempty"`   // gen: echo | text | bytes | none
	Data   string   `json:"data,omitempty"`   // gen: hex payload for text/bytes
	Rep    int      `json:"rep,omitempty"`    // gen: > 0: the payload is Data repeated Rep times (strings.Repeat in the service)
	Err    string   `json:"err,omitempty"`    // gen: "" | runtime | exit | compile | missing | print
	ErrPos string   `json:"errpos,omitempty"` // before | after (the response was written)
}

type c41Req struct {
	Method  string         `json:"method"`
	Pattern string         `json:"pattern"` // route pattern = session.Path
	URL     string         `json:"url"`     // request target (path?query)
	Parts   map[string]any `json:"parts"`
	Headers [][2]string    `json:"headers"`
	Body    string         `json:"body"`               // hex
	BodyRep int            `json:"bodyrep,omitempty"`  // > 0: the body is Body repeated BodyRep times
	BigHdrs []c41Big       `json:"bighdrs,omitempty"`  // further header lines, after Headers
	BigQry  []c41Big       `json:"bigquery,omitempty"` // further query parameters, appended to URL (k and v URL-safe)
	User    string         `json:"user"`
	Auth    bool           `json:"auth"`
	Admin   bool           `json:"admin"`
	Token   string         `json:"token"`
	Perms   []string       `json:"perms"`
}

type c41Case struct {
	ID  int    `json:"id"`
	Svc c41Svc `json:"svc"`
	Req c41Req `json:"req"`
}

type c41Resp struct {
	Status  int                 `json:"status"`
	Headers map[string][]string `json:"headers"`
	Body    string              `json:"body"` // hex
}

// body, headers, target: the request as sent, with the repeated parts expanded.
func (q *c41Req) body() []byte {
	b, _ := hex.DecodeString(q.Body)
	if q.BodyRep > 0 {
		b = bytes.Repeat(b, q.BodyRep)
	}

	return b
}

func (q *c41Req) headers() [][2]string {
	hs := append([][2]string{}, q.Headers...)
	for _, h := range q.BigHdrs {
		hs = append(hs, [2]string{h.K, strings.Repeat(h.V, h.Rep)})
	}

	return hs
}

func (q *c41Req) target() string {
	t := q.URL

	for _, p := range q.BigQry {
		sep := "?"
		if strings.Contains(t, "?") {
			sep = "&"
		}

		t += sep + p.K + "=" + strings.Repeat(p.V, p.Rep)
	}

	return t
}

// echo fields: key in the JSON body → Ego expression
var c41Echo = map[string]string{
	"method":   "req.Method",
	"urlpath":  "req.URL.Path",
	"endpoint": "req.Endpoint",
	"params":   "req.Parameters",
	"headers":  "req.Headers",
	"body":     "req.Body",
	"bodylen":  "len(req.Body)",
	"parts":    "req.URL.Parts",
	"user":     "req.Username",
	"admin":    "req.IsAdmin",
	"auth":     "req.Authenticated",
	"authn":    "req.Authentication",
	"isjson":   "req.IsJSON",
	"istext":   "req.IsText",
	"perms":    "req.Permissions",
	"usersym":  "_user",
	"methsym":  "_method",
	"partsym":  "", // the first string-valued URL part, referenced as a bare symbol
}

var c41EchoOrder = []string{"method", "urlpath", "endpoint", "params", "headers", "body", "bodylen", "parts", "user",
	"admin", "auth", "authn", "isjson", "istext", "perms", "usersym", "methsym", "partsym"}

func c41EgoString(s string) string {
	// literals are restricted to what the generators produce: printable ASCII and valid UTF-8
	var buf bytes.Buffer

	e := json.NewEncoder(&buf)
	e.SetEscapeHTML(false)
	_ = e.Encode(s)

	return strings.TrimSuffix(buf.String(), "\n")
}

// c41EgoBytes renders bytes as an Ego byte array literal.
func c41EgoBytes(data []byte) string {
	parts := make([]string, len(data))
	for i, x := range data {
		parts[i] = fmt.Sprintf("%d", x)
	}

	return "[]byte{" + strings.Join(parts, ", ") + "}"
}

// c41EgoRepeat renders the Ego expression for a string expression repeated rep times (rep 0: as is).
func c41EgoRepeat(expr string, rep int) string {
	if rep > 0 {
		return fmt.Sprintf("strings.Repeat(%s, %d)", expr, rep)
	}

	return expr
}

func c41PartSym(c *c41Case) string {
	keys := make([]string, 0)

	for k, v := range c.Req.Parts {
		if _, ok := v.(string); ok {
			keys = append(keys, k)
		}
	}

	sort.Strings(keys)

	if len(keys) == 0 {
		return ""
	}

	return keys[0]
}

// c41Program renders a generated service as Ego source.
func c41Program(c *c41Case) string {
	s := c.Svc
	if s.Kind == "raw" {
		return s.Raw
	}

	var b strings.Builder

	b.WriteString("import \"http\"\n")

	repeats := s.Rep > 0
	for _, h := range s.Hdrs {
		repeats = repeats || h.Rep > 0
	}

	if repeats {
		b.WriteString("import \"strings\"\n")
	}

	b.WriteString("\nfunc handler(req http.Request, w *http.ResponseWriter) {\n")

	if s.Err == "compile" {
		b.WriteString("    this is not ) valid ego {{ syntax\n")
	}

	fail := func() {
		switch s.Err {
		case "runtime":
			b.WriteString("    zz := 0\n    yy := 10 / zz\n    fmt.Println(yy)\n")
		case "exit":
			b.WriteString("    os.Exit(3)\n")
		}
	}

	if s.ErrPos == "before" {
		fail()
	}

	if s.Body == "echo" {
		b.WriteString("    result := {\n")

		for _, k := range c41EchoOrder {
			for _, e := range s.Echo {
				if e != k {
					continue
				}

				expr := c41Echo[k]
				if k == "partsym" {
					expr = c41PartSym(c)
				}

				if expr != "" {
					fmt.Fprintf(&b, "        %s: %s,\n", k, expr)
				}
			}
		}

		b.WriteString("    }\n")
	}

	for _, h := range s.Hdrs {
		switch h.Op {
		case "del":
			fmt.Fprintf(&b, "    w.Header().Del(%s)\n", c41EgoString(h.K))
		case "set":
			fmt.Fprintf(&b, "    w.Header().Set(%s, %s)\n", c41EgoString(h.K), c41EgoRepeat(c41EgoString(h.V), h.Rep))
		default:
			fmt.Fprintf(&b, "    w.Header().Add(%s, %s)\n", c41EgoString(h.K), c41EgoRepeat(c41EgoString(h.V), h.Rep))
		}
	}

	if s.Status != 0 {
		fmt.Fprintf(&b, "    w.WriteHeader(%d)\n", s.Status)
	}

	data, _ := hex.DecodeString(s.Data)

	// a repeated payload is built by the service itself: the unit as a byte array literal (any bytes), repeated
	big := c41EgoRepeat("string("+c41EgoBytes(data)+")", s.Rep)

	switch {
	case s.Body == "echo":
		b.WriteString("    w.WriteJSON(result)\n")
	case s.Body == "text" && s.Rep > 0:
		fmt.Fprintf(&b, "    w.Write(%s)\n", big)
	case s.Body == "text":
		fmt.Fprintf(&b, "    w.Write(%s)\n", c41EgoString(string(data)))
	case s.Body == "bytes" && s.Rep > 0:
		fmt.Fprintf(&b, "    w.Write([]byte(%s))\n", big)
	case s.Body == "bytes":
		fmt.Fprintf(&b, "    w.Write(%s)\n", c41EgoBytes(data))
	case s.Body == "print" && s.Rep > 0:
		fmt.Fprintf(&b, "    fmt.Println(%s)\n", big)
	case s.Body == "print":
		fmt.Fprintf(&b, "    fmt.Println(%s)\n", c41EgoString(string(data)))
	}

	if s.ErrPos != "before" {
		fail()
	}

	b.WriteString("}\n")

	return b.String()
}

// ---------------------------------------------------------------- running one case

type c41Env struct {
	dir     string // scratch (service files, file-transport directory)
	libRoot string // <tree>/lib/services
	n       int
}

// c41Accepts mirrors router.ServeHTTP's Accept negotiation (internal/router/serve.go).
func c41Accepts(h http.Header) (text, js bool) {
	for _, a := range h["Accept"] {
		if strings.Contains(a, "*/*") {
			return true, true
		}

		if strings.Contains(strings.ToLower(a), "text") {
			text = true
		}

		if strings.Contains(strings.ToLower(a), "json") {
			js = true
		}
	}

	return text, js
}

// c41Run executes the case through the real ServiceHandler.  mode: inproc | pipe | file.
// For mode file it also returns the request and response JSON documents the real code exchanged.
func c41Run(env *c41Env, c *c41Case, file string, mode string) (resp c41Resp, reqDoc, respDoc []byte, err error) {
	defer func() {
		if r := recover(); r != nil {
			err = fmt.Errorf("panic: %v", r)
		}
	}()

	body := c.Req.body()

	u, perr := url.Parse(c.Req.target())
	if perr != nil {
		return resp, nil, nil, perr
	}

	r := httptest.NewRequest(c.Req.Method, "http://localhost"+c.Req.target(), bytes.NewReader(body))
	r.Header = http.Header{}

	for _, kv := range c.Req.headers() {
		// a Go HTTP server hands the handler canonical header names
		k := http.CanonicalHeaderKey(kv[0])
		r.Header[k] = append(r.Header[k], kv[1])
	}

	text, js := c41Accepts(r.Header)

	parts := map[string]any{}
	for k, v := range c.Req.Parts {
		parts[k] = v
	}

	session := &router.Session{
		Path:          c.Req.Pattern,
		URL:           u,
		Filename:      file,
		URLParts:      parts,
		Parameters:    map[string][]string(r.URL.Query()),
		Instance:      "verif-c41",
		ID:            1000 + c.ID,
		Token:         c.Req.Token,
		User:          c.Req.User,
		Permissions:   c.Req.Perms,
		Authenticated: c.Req.Auth,
		Admin:         c.Req.Admin,
		AcceptsJSON:   js,
		AcceptsText:   text,
		Language:      "en",
	}

	xdir := filepath.Join(env.dir, "x")

	// the transport mode was configured by c41SetMode before any worker started (the settings map is not
	// synchronised: nothing writes it while requests are in flight)
	if mode == "inproc" {
		// every request is the first request: a cached compilation unit (and its package-level state)
		// is a property of the server's cache (C42), not of the transport
		serviceCacheMutex.Lock()
		ServiceCache = map[string]*CachedCompilationUnit{}
		serviceCacheMutex.Unlock()
	}

	w := httptest.NewRecorder()
	status := ServiceHandler(session, w, r)

	res := w.Result()
	rb := w.Body.Bytes()

	resp = c41Resp{Status: res.StatusCode, Headers: map[string][]string{}, Body: hex.EncodeToString(rb)}
	if status != res.StatusCode {
		resp.Headers["!returned-status"] = []string{fmt.Sprint(status)}
	}

	for k, v := range res.Header {
		if k == "Date" {
			continue
		}

		resp.Headers[k] = v
	}

	if mode == "file" {
		rq := filepath.Join(xdir, fmt.Sprintf(defs.ChildRequestFileFormat, session.Instance, session.ID))
		rs := filepath.Join(xdir, fmt.Sprintf(defs.ChildResponseFileFormat, session.Instance, session.ID))
		reqDoc, _ = os.ReadFile(rq)
		respDoc, _ = os.ReadFile(rs)
		_ = os.Remove(rq)
		_ = os.Remove(rs)
	}

	return resp, reqDoc, respDoc, nil
}

// c41ServiceFile writes the program of the case and returns the file name handed to the router session.
func c41ServiceFile(env *c41Env, c *c41Case) string {
	switch {
	case c.Svc.Kind == "lib":
		return filepath.Join(env.libRoot, c.Svc.File)
	case c.Svc.Err == "missing":
		return filepath.Join(env.dir, "svc", "no-such-service.ego")
	}

	name := filepath.Join(env.dir, "svc", fmt.Sprintf("s%d.ego", c.ID))
	_ = os.WriteFile(name, []byte(c41Program(c)), 0o644)

	return name
}

// ---------------------------------------------------------------- generators

var c41HdrNames = []string{"Accept", "Content-Type", "X-Trace", "X-List", "User-Agent", "Cache-Control", "Authorization",
	"Cookie", "X-Forwarded-For", "Accept-Language", "Range", "Proxy-Authorization", "Set-Cookie", "x-lower", "Via"}

var c41HdrVals = []string{"application/json", "text/plain", "*/*", "a", "a, b", "", " lead", "x=1; y=2", "été",
	"Bearer abc", "application/vnd.ego.error+json", "text/html;q=0.8", "\xe9t\xe9", "q\"uote", "tab\there"}

var c41RespHdrNames = []string{"Content-Type", "X-One", "X-Multi", "Cache-Control", "content-type", "X-lower-Case",
	"Set-Cookie", "Location", "Etag", "X-Ego-Test", "Www-Authenticate", "Allow", "bad name"}

var c41Texts = []string{"", "hello", "{\"a\":1}", "line1\nline2\n", "été ☃ 𝄞", "<b>&amp;</b>", " x ", "  ", "\\u00e9 \\n",
	"\"quoted\"", "tab\tz"}

var c41Bins = [][]byte{{0xff}, {0xc3}, {0xc3, 0x28}, {0xe2, 0x82}, {0xed, 0xa0, 0x80}, {0xf4, 0x90, 0x80, 0x80}, {0xc0, 0x80},
	{0x00}, {0x89, 'P', 'N', 'G', 0x0d, 0x0a, 0x1a, 0x0a}, {0xef, 0xbf, 0xbd}, {'a', 0x80, 'b'}, {0xf0, 0x9f, 0x98, 0x80},
	{0xf0, 0x9f, 0x98}, {0xe0, 0x9f, 0xbf}, {0x7f, 0x1f, 0x01}}

func c41Pick[T any](rnd *rand.Rand, xs []T) T { return xs[rnd.Intn(len(xs))] }

func c41RandBytes(rnd *rand.Rand) []byte {
	switch rnd.Intn(6) {
	case 0:
		return []byte(c41Pick(rnd, c41Texts))
	case 1:
		return c41Pick(rnd, c41Bins)
	case 2:
		n := rnd.Intn(12)
		b := make([]byte, n)
		// hostile alphabet: UTF-8 lead/continuation bytes, boundaries of the accept ranges, ASCII
		al := []byte{0x00, 0x22, 0x5c, 0x41, 0x7f, 0x80, 0x8f, 0x90, 0x9f, 0xa0, 0xbf, 0xc0, 0xc1, 0xc2, 0xdf, 0xe0, 0xe1,
			0xec, 0xed, 0xee, 0xef, 0xf0, 0xf1, 0xf3, 0xf4, 0xf5, 0xff, 0x3c, 0x26}
		for i := range b {
			b[i] = c41Pick(rnd, al)
		}

		return b
	case 3:
		return append([]byte(c41Pick(rnd, c41Texts)), c41Pick(rnd, c41Bins)...)
	case 4:
		return append(append([]byte{}, c41Pick(rnd, c41Bins)...), []byte(c41Pick(rnd, c41Texts))...)
	}

	return []byte(fmt.Sprintf("{\"n\":%d,\"s\":%q}", rnd.Intn(1000), c41Pick(rnd, c41Texts)))
}

// c41AcceptVals: values of one Accept line.  Both handlers decide the default reply Content-Type by looking for
// "application/json" in every value of every Accept line; router.ServeHTTP (c41Accepts) looks for "json"/"text"/"*/*".
var c41AcceptJSON = []string{"application/json", "application/json;q=0.9", "application/json; charset=utf-8",
	"text/html, application/json;q=0.2", "application/xml;q=0.4,application/json"}

var c41AcceptOther = []string{"text/plain", "text/plain;q=0.5", "text/html;q=0.8", "application/xml;q=0.4", "*/*", "*/*;q=0.1",
	"image/png, image/*;q=0.5", "application/vnd.ego.error+json", "Application/JSON", "application/jso", "", "text/*"}

// c41GenAccept gives the Accept header of a request as separate lines, in the shapes: absent, one line, several
// lines with application/json on the first / on a later / on no line, with and without q-values.
func c41GenAccept(rnd *rand.Rand) [][2]string {
	n := rnd.Intn(4) // number of lines
	at := -1         // the line that carries application/json

	if n > 0 && rnd.Intn(4) != 0 {
		at = rnd.Intn(n)
		if n > 1 && rnd.Intn(2) == 0 {
			at = 1 + rnd.Intn(n-1) // later than the first line
		}
	}

	var hs [][2]string

	for i := 0; i < n; i++ {
		name := c41Pick(rnd, []string{"Accept", "Accept", "Accept", "accept", "ACCEPT"})

		switch {
		case i == at:
			hs = append(hs, [2]string{name, c41Pick(rnd, c41AcceptJSON)})
		case at >= 0 && rnd.Intn(6) == 0:
			hs = append(hs, [2]string{name, c41Pick(rnd, c41AcceptJSON)}) // json on more than one line
		default:
			hs = append(hs, [2]string{name, c41Pick(rnd, c41AcceptOther)})
		}
	}

	return hs
}

// c41HeaderShape measures what a request's headers exercise: the number of names with several values, the number
// of Accept lines and the index of the first Accept line containing "application/json" (-1 = none).
func c41HeaderShape(q *c41Req) (multi, acceptLines, jsonAt int) {
	hdr := http.Header{}
	for _, kv := range q.headers() {
		k := http.CanonicalHeaderKey(kv[0])
		hdr[k] = append(hdr[k], kv[1])
	}

	jsonAt = -1

	for k, v := range hdr {
		if len(v) > 1 {
			multi++
		}

		if k == "Accept" {
			acceptLines = len(v)

			for i, x := range v {
				if jsonAt < 0 && strings.Contains(x, defs.JSONMediaType) {
					jsonAt = i
				}
			}
		}
	}

	return multi, acceptLines, jsonAt
}

func c41GenReq(rnd *rand.Rand) c41Req {
	q := c41Req{Method: c41Pick(rnd, []string{"GET", "POST", "PUT", "DELETE", "PATCH"}), Parts: map[string]any{}}
	seg := c41Pick(rnd, []string{"alpha", "beta", "x1"})
	q.Pattern = "/services/" + seg
	path := "/services/" + seg
	q.Parts["services"] = true
	q.Parts[seg] = true

	for i, name := range []string{"name", "field"} {
		if rnd.Intn(3) == 0 {
			break
		}

		q.Pattern += "/{{" + name + "}}"

		if rnd.Intn(4) != 0 {
			v := c41Pick(rnd, []string{"tom", "42", "true", "a%20b", "%C3%A9", "%FF", "x.y", "false"})
			path += "/" + v
			uv, _ := url.PathUnescape(v)
			q.Parts[name] = uv
		} else {
			q.Parts[name] = ""
			if i == 0 && rnd.Intn(2) == 0 {
				q.Parts["extra"] = false // a static part of the pattern the request path does not reach
				q.Pattern += "/extra"
			}

			break
		}
	}

	var qs []string

	for n := rnd.Intn(4); n > 0; n-- {
		k := c41Pick(rnd, []string{"a", "b", "list", "%C3%A9", "%FF", "%FE", "x-y", ""})
		v := c41Pick(rnd, []string{"1", "", "a%20b", "%FF", "%E2%98%83", "x,y", "true"})
		if rnd.Intn(5) == 0 {
			qs = append(qs, k)
		} else {
			qs = append(qs, k+"="+v)
		}
	}

	q.URL = path
	if len(qs) > 0 {
		q.URL += "?" + strings.Join(qs, "&")
	}

	for n := rnd.Intn(5); n > 0; n-- {
		q.Headers = append(q.Headers, [2]string{c41Pick(rnd, c41HdrNames), c41Pick(rnd, c41HdrVals)})
	}

	// the Accept header the handlers themselves interpret, sent as 0-3 SEPARATE header lines
	if rnd.Intn(4) != 0 {
		q.Headers = append(q.Headers, c41GenAccept(rnd)...)
	}

	// any header may arrive as several lines (one name, several values, order kept): repeat some of the names
	// already present — also under another spelling of the same canonical name — with a further value
	for n, k := rnd.Intn(3), len(q.Headers); n > 0 && k > 0; n-- {
		name := q.Headers[rnd.Intn(k)][0]

		switch rnd.Intn(3) {
		case 0:
			name = strings.ToLower(name)
		case 1:
			name = strings.ToUpper(name)
		}

		q.Headers = append(q.Headers, [2]string{name, c41Pick(rnd, c41HdrVals)})
	}

	rnd.Shuffle(len(q.Headers), func(i, j int) { q.Headers[i], q.Headers[j] = q.Headers[j], q.Headers[i] })

	if q.Method != "GET" || rnd.Intn(4) == 0 {
		q.Body = hex.EncodeToString(c41RandBytes(rnd))
	}

	switch rnd.Intn(4) {
	case 0: // anonymous
	case 1:
		q.User, q.Auth = c41Pick(rnd, []string{"joe", "admin", "été", "a b"}), true
		q.Perms = []string{"ego.logon"}
	case 2:
		q.User, q.Auth, q.Admin = "admin", true, true
		q.Perms = []string{"ego.root", "ego.logon", "ego.table.admin"}
		q.Token = "tok-123"
	case 3:
		q.User = "mallory" // credentials offered but not accepted
	}

	return q
}

func c41GenSvc(rnd *rand.Rand) c41Svc {
	s := c41Svc{Kind: "gen", Body: "echo"}

	switch rnd.Intn(10) {
	case 0:
		s.Body = "text"
		s.Data = hex.EncodeToString([]byte(c41Pick(rnd, c41Texts)))
	case 1, 2:
		s.Body = "bytes"
		s.Data = hex.EncodeToString(c41RandBytes(rnd))
	case 3:
		s.Body = "none"
	case 4:
		s.Body = "print"
		s.Data = hex.EncodeToString([]byte(c41Pick(rnd, c41Texts)))
	}

	if s.Body == "echo" {
		n := 1 + rnd.Intn(6)
		for _, i := range rnd.Perm(len(c41EchoOrder))[:n] {
			s.Echo = append(s.Echo, c41EchoOrder[i])
		}

		sort.Strings(s.Echo)
	}

	s.Status = c41Pick(rnd, []int{0, 0, 200, 200, 200, 201, 204, 301, 400, 401, 403, 404, 409, 500, 503, 299, 600})

	for n := rnd.Intn(4); n > 0; n-- {
		op := c41Pick(rnd, []string{"add", "add", "add", "set", "del"})
		s.Hdrs = append(s.Hdrs, c41Hdr{Op: op, K: c41Pick(rnd, c41RespHdrNames),
			V: c41Pick(rnd, []string{"v1", "v2", "a, b", "", "application/json", "text/plain; charset=utf-8", "été", " sp "})})
	}

	switch rnd.Intn(12) {
	case 0:
		s.Err, s.ErrPos = "runtime", c41Pick(rnd, []string{"before", "after"})
	case 1:
		s.Err, s.ErrPos = "exit", c41Pick(rnd, []string{"before", "after"})
	case 2:
		s.Err = "compile"
	case 3:
		s.Err = "missing"
	}

	return s
}

// ---------------------------------------------------------------- the test

func c41Corpus() []c41Case {
	base := c41Req{Method: "GET", Pattern: "/services/alpha", URL: "/services/alpha", Parts: map[string]any{"services": true, "alpha": true}}
	all := append([]string{}, c41EchoOrder...)
	mk := func(s c41Svc, f func(q *c41Req)) c41Case {
		q := base
		q.Parts = map[string]any{"services": true, "alpha": true}
		if f != nil {
			f(&q)
		}

		return c41Case{Svc: s, Req: q}
	}
	echo := func(keys ...string) c41Svc { return c41Svc{Kind: "gen", Body: "echo", Echo: keys, Status: 200} }
	cs := []c41Case{
		mk(echo("method"), nil),
		mk(echo(all[:15]...), func(q *c41Req) {
			q.Method, q.URL, q.Body = "POST", "/services/alpha?a=1&a=2&b=", hex.EncodeToString([]byte("{\"k\":\"v\"}"))
			q.Headers = [][2]string{{"Accept", "application/json"}, {"X-Trace", "t1"}, {"X-Trace", "t2"}, {"Authorization", "Basic Zm9v"}}
			q.User, q.Auth, q.Admin, q.Perms = "admin", true, true, []string{"ego.root"}
		}),
	}

	for _, k := range all {
		k := k
		cs = append(cs, mk(echo(k), func(q *c41Req) {
			q.Pattern, q.URL = "/services/alpha/{{name}}", "/services/alpha/tom?x=%FF"
			q.Parts["name"] = "tom"
			q.Body = hex.EncodeToString([]byte{'a', 0xff, 'b'})
			q.Headers = [][2]string{{"X-Bin", "\xe9"}, {"Accept", "text/plain"}}
			q.User, q.Auth = "joe", true
		}))
	}

	for _, st := range []int{0, 200, 204, 400, 401, 404, 500, 600} {
		cs = append(cs, mk(c41Svc{Kind: "gen", Body: "none", Status: st}, nil))
		cs = append(cs, mk(c41Svc{Kind: "gen", Body: "text", Data: hex.EncodeToString([]byte("msg")), Status: st}, nil))
	}

	for _, b := range c41Bins {
		cs = append(cs, mk(c41Svc{Kind: "gen", Body: "bytes", Data: hex.EncodeToString(b), Status: 200}, nil))
	}

	hd := func(ops ...c41Hdr) c41Svc {
		return c41Svc{Kind: "gen", Body: "text", Data: hex.EncodeToString([]byte("h")), Status: 200, Hdrs: ops}
	}
	cs = append(cs,
		mk(hd(c41Hdr{"add", "X-One", "1", 0}), nil),
		mk(hd(c41Hdr{"add", "X-Multi", "1", 0}, c41Hdr{"add", "X-Multi", "2", 0}), nil),
		mk(hd(c41Hdr{"add", "Set-Cookie", "a=1", 0}, c41Hdr{"add", "Set-Cookie", "b=2", 0}), nil),
		mk(hd(c41Hdr{"set", "X-One", "1", 0}, c41Hdr{"set", "X-One", "2", 0}), nil),
		mk(hd(c41Hdr{"add", "X-One", "1", 0}, c41Hdr{"del", "X-One", "", 0}), nil),
		mk(hd(c41Hdr{"add", "content-type", "text/plain", 0}), nil),
		mk(hd(c41Hdr{"add", "Content-Type", "text/plain", 0}), func(q *c41Req) { q.Headers = [][2]string{{"Accept", "application/json"}} }),
		mk(hd(), func(q *c41Req) { q.Headers = [][2]string{{"Accept", "application/json"}} }),
		mk(hd(c41Hdr{"add", "X-V", "été", 0}), nil),
	)

	for _, e := range []string{"runtime", "exit"} {
		for _, p := range []string{"before", "after"} {
			cs = append(cs, mk(c41Svc{Kind: "gen", Body: "text", Data: hex.EncodeToString([]byte("t")), Status: 200, Err: e, ErrPos: p}, nil))
		}
	}

	for _, e := range []string{"compile", "missing"} {
		cs = append(cs, mk(c41Svc{Kind: "gen", Body: "text", Status: 200, Err: e}, nil))
		cs = append(cs, mk(c41Svc{Kind: "gen", Body: "text", Status: 200, Err: e}, func(q *c41Req) { q.Headers = [][2]string{{"Accept", "application/json"}} }))
	}

	cs = append(cs, mk(c41Svc{Kind: "gen", Body: "print", Data: hex.EncodeToString([]byte("printed")), Status: 200}, nil))

	return cs
}

// c41HeaderCorpus: requests whose headers arrive as SEVERAL lines of one name, for every header the handlers
// interpret themselves (Accept: the default reply Content-Type) and for headers they only forward to the service
// (all values, in order; sensitive names dropped).  The services either leave Content-Type alone — so the JSON-reply
// decision of each side is visible in the response headers — or set it, and echo what they were given.
// The first c41HeaderPinned cases run in every quick run.
const c41HeaderPinned = 4

func c41HeaderCorpus() []c41Case {
	parts := func() map[string]any { return map[string]any{"services": true, "alpha": true} }
	mk := func(s c41Svc, method string, body string, hs ...[2]string) c41Case {
		q := c41Req{Method: method, Pattern: "/services/alpha", URL: "/services/alpha", Parts: parts(), Headers: hs}
		if body != "" {
			q.Body = hex.EncodeToString([]byte(body))
		}

		return c41Case{Svc: s, Req: q}
	}
	text := func(status int, ops ...c41Hdr) c41Svc {
		return c41Svc{Kind: "gen", Body: "text", Data: hex.EncodeToString([]byte("{\"answer\": 42}")), Status: status, Hdrs: ops}
	}
	echo := func(keys ...string) c41Svc { return c41Svc{Kind: "gen", Body: "echo", Echo: keys, Status: 200} }
	a := func(v string) [2]string { return [2]string{"Accept", v} }

	return []c41Case{
		// --- pinned
		// json on a later line; other forwarded headers multi-valued too (and a sensitive one, dropped)
		mk(echo("headers", "isjson", "istext"), "GET", "", a("text/plain"), a("application/json"),
			[2]string{"X-List", "one"}, [2]string{"x-list", "two"}, [2]string{"X-List", "one"},
			[2]string{"Cookie", "a=1"}, [2]string{"Cookie", "b=2"}),
		// q-values, json on the third line, a service that writes text and no Content-Type
		mk(text(200), "GET", "", a("text/plain;q=0.5"), a("application/xml;q=0.4"), a("application/json;q=0.9")),
		// json on the first line only
		mk(text(201, c41Hdr{"add", "X-One", "1", 0}), "POST", "{}", a("application/json"), a("text/plain"),
			[2]string{"Content-Type", "application/json"}, [2]string{"Content-Type", "text/plain"}),
		// several lines, json on none of them ("json" in a vendor type and in another letter case is not application/json)
		mk(text(200), "GET", "", a("text/plain"), a("application/vnd.ego.error+json"), a("Application/JSON;q=0.8")),
		// --- the rest (all of them in a thorough run, two per quick run)
		// comma-separated lists on several lines, json at the end of the last line
		mk(text(200), "GET", "", a("text/plain, text/html"), a("application/xml, application/json;q=0.1")),
		// the service sets Content-Type itself: its value wins over the default on both sides
		mk(text(200, c41Hdr{"add", "Content-Type", "text/plain; charset=utf-8", 0}), "GET", "", a("text/html"), a("application/json")),
		// the service deletes Content-Type after the fact
		mk(text(200, c41Hdr{"del", "Content-Type", "", 0}), "GET", "", a("*/*;q=0.1"), a("application/json")),
		// differently spelled names of one header are one header; an empty line first
		mk(echo("headers", "isjson"), "PUT", "x", [2]string{"accept", ""}, [2]string{"ACCEPT", "application/json"},
			[2]string{"Accept-Language", "en"}, [2]string{"accept-language", "fr;q=0.5"}),
		// no body and an error status with a body, json later
		mk(c41Svc{Kind: "gen", Body: "none", Status: 204}, "DELETE", "", a("text/plain"), a("application/json")),
		mk(text(404), "GET", "", a("text/plain"), a("text/html"), a("application/json")),
		// json on two lines; forwarded multi-valued headers with a non-UTF-8 value and repeated Cache-Control / Via / Range
		mk(echo("headers"), "GET", "", a("application/json"), a("application/json;q=0.5"),
			[2]string{"Cache-Control", "no-cache"}, [2]string{"Cache-Control", "no-store"}, [2]string{"Via", "1.1 a"}, [2]string{"Via", "1.1 b"},
			[2]string{"Range", "bytes=0-1"}, [2]string{"Range", "bytes=5-"}, [2]string{"Authorization", "Basic Zm9v"}, [2]string{"Authorization", "Bearer t"}),
		mk(echo("headers"), "GET", "", a("text/plain"), a("\xe9"), a("application/json"), [2]string{"X-Bin", "ok"}, [2]string{"X-Bin", "\xe9"}),
		// a single line and no line at all, for contrast
		mk(text(200), "GET", "", a("text/plain, application/json")),
		mk(text(200), "GET", ""),
	}
}

// ---------------------------------------------------------------- sizes
//
// The transports carry a request and a response as ONE JSON document each (a file, or a line on a socket); the
// in-process path hands the same values over in memory.  Nothing in the property depends on how long a value is, so
// the same service must answer the same through every transport for bodies and header values of 0 bytes, 1 byte, a
// few KiB, either side of 64 KiB and of 1 MiB, and several MiB, whatever the content looks like: one long line, very
// many lines, bytes that JSON escapes (the encoded document is up to six times longer than the value), multi-byte
// runes, control bytes, and binary data.

// c41Units: the content of a sized payload is a unit repeated.  Except for the last two (binary, for response
// bodies) they are valid UTF-8, so no known finding class applies to them.
var c41Units = [][]byte{
	[]byte("x"),                            // one long line
	[]byte("line of text\n"),               // very many lines
	[]byte("a\r\n"),                        // CRLF line ends
	[]byte("{\"k\":\"v\\n\"}\n"),           // JSON lines: quotes and backslashes are escaped in transit
	[]byte("<&>\u2028\u2029"),              // escaped as \u00XX / \u202X by encoding/json
	[]byte("\x00\x01\x08\x0c\x1b\x1f\x7f"), // control bytes: \u00XX in transit
	[]byte("é☃𝄞"),                          // 2, 3 and 4 byte runes
	[]byte(" \t"),                          // white space only
	{0x89, 'P', 'N', 'G', 0x0d, 0x0a, 0x1a, 0x0a, 0x00, 0xff}, // binary
	{0xc3, 0x28, 0xa0, 0xa1, 0x0a},                            // invalid UTF-8 with line ends
}

const c41TextUnits = 8 // the first c41TextUnits units are valid UTF-8

func c41KiB(n int) int { return n << 10 }

// c41SizeLadder: the sizes every payload kind is tried at (thorough), and the ones the generator draws around.
func c41SizeLadder() []int {
	return []int{0, 1, 2, c41KiB(4) - 1, c41KiB(4), c41KiB(4) + 1, c41KiB(64) - 1, c41KiB(64), c41KiB(64) + 1, c41KiB(256),
		c41KiB(1024) - 1, c41KiB(1024), c41KiB(1024) + 1, c41KiB(3 * 1024), c41KiB(verifh.N(5*1024, 8*1024))}
}

// c41Sized gives Data/Rep (or V/Rep) for a payload of n bytes (rounded up to a whole number of units; n smaller than
// the unit: the unit's first n bytes when that is still valid text, else one unit).
func c41Sized(unit []byte, n int) (data []byte, rep int) {
	if len(unit) == 0 {
		return nil, 0
	}

	if n < len(unit) {
		if utf8.Valid(unit[:n]) || !utf8.Valid(unit) {
			return unit[:n], 0
		}

		return unit, 0
	}

	return unit, (n + len(unit) - 1) / len(unit)
}

func c41SizedSvc(kind string, unit []byte, n int, status int, ops ...c41Hdr) c41Svc {
	data, rep := c41Sized(unit, n)

	return c41Svc{Kind: "gen", Body: kind, Data: hex.EncodeToString(data), Rep: rep, Status: status, Hdrs: ops}
}

func c41SizedHdr(op, name string, unit []byte, n int) c41Hdr {
	data, rep := c41Sized(unit, n)

	return c41Hdr{Op: op, K: name, V: string(data), Rep: rep}
}

func c41SizedBig(name string, unit []byte, n int) c41Big {
	data, rep := c41Sized(unit, n)
	if rep == 0 {
		rep = 1
	}

	return c41Big{K: name, V: string(data), Rep: rep}
}

// c41SizedQry: a query value is a whole number of units (a unit may be a percent escape).
func c41SizedQry(name string, unit []byte, n int) c41Big {
	return c41Big{K: name, V: string(unit), Rep: 1 + n/len(unit)}
}

func (q *c41Req) setSizedBody(unit []byte, n int) {
	data, rep := c41Sized(unit, n)
	q.Body, q.BodyRep = hex.EncodeToString(data), rep
}

// The first c41SizePinned cases of the size corpus run in every quick run.
const c41SizePinned = 6

func c41SizeCorpus() []c41Case {
	mk := func(s c41Svc, method string, f func(q *c41Req)) c41Case {
		q := c41Req{Method: method, Pattern: "/services/alpha", URL: "/services/alpha", Parts: map[string]any{"services": true, "alpha": true}}
		if f != nil {
			f(&q)
		}

		return c41Case{Svc: s, Req: q}
	}
	echo := func(keys ...string) c41Svc { return c41Svc{Kind: "gen", Body: "echo", Echo: keys, Status: 200} }
	accept := func(v string) func(q *c41Req) {
		return func(q *c41Req) { q.Headers = [][2]string{{"Accept", v}} }
	}
	u := c41Units

	cs := []c41Case{
		// --- pinned
		// a response body of one long line, one byte over 64 KiB
		mk(c41SizedSvc("text", u[0], c41KiB(64)+1, 200, c41Hdr{"add", "Content-Type", "text/plain", 0}), "GET", accept("text/plain")),
		// a response body of several MiB, very many lines, bytes that are escaped in transit
		mk(c41SizedSvc("bytes", append(append([]byte{}, u[3]...), u[5]...), c41KiB(3*1024), 200), "GET", nil),
		// a request body just over 64 KiB, echoed (the response is as long) ...
		mk(echo("body", "bodylen", "method"), "POST", func(q *c41Req) {
			q.setSizedBody(u[3], c41KiB(64)+1)
			q.Headers = [][2]string{{"Content-Type", "application/json"}, {"Accept", "application/json"}}
		}),
		// ... and one of 1 MiB of which only the length comes back (the response is short)
		mk(echo("bodylen"), "PUT", func(q *c41Req) { q.setSizedBody(u[1], c41KiB(1024)) }),
		// a response header value of 64 KiB beside a short body
		mk(c41SizedSvc("text", []byte("short"), 5, 201, c41SizedHdr("add", "X-Big", u[0], c41KiB(64)), c41Hdr{"add", "X-One", "1", 0}), "GET", nil),
		// a request header value of just over 64 KiB and a query value of 4 KiB, echoed
		mk(echo("headers", "params"), "GET", func(q *c41Req) {
			q.Headers = [][2]string{{"Accept", "text/plain"}, {"X-Trace", "t"}}
			q.BigHdrs = []c41Big{c41SizedBig("X-Big", []byte("h, "), c41KiB(64)+1)}
			q.BigQry = []c41Big{c41SizedQry("big", []byte("q%20"), c41KiB(4))}
		}),
	}

	// --- the rest: every size of the ladder as a response body and as a request body, the unit changing with the size
	for i, n := range c41SizeLadder() {
		kind := []string{"text", "bytes"}[i%2]
		cs = append(cs, mk(c41SizedSvc(kind, u[i%len(u)], n, 200), "GET", nil))
		cs = append(cs, mk(echo("body", "bodylen"), "POST", func(q *c41Req) { q.setSizedBody(u[(i+3)%c41TextUnits], n) }))
	}

	cs = append(cs,
		// the reply is JSON (w.Write of a string marshals it when only JSON is accepted): a JSON string of 64 KiB / 1 MiB
		mk(c41SizedSvc("text", u[3], c41KiB(64), 200), "GET", accept("application/json")),
		mk(c41SizedSvc("text", u[4], c41KiB(1024), 200), "GET", accept("application/json")),
		// long bodies with other statuses
		mk(c41SizedSvc("text", u[1], c41KiB(64)+1, 404), "GET", nil),
		mk(c41SizedSvc("bytes", u[8], c41KiB(256), 500), "GET", accept("*/*")),
		mk(c41SizedSvc("bytes", u[6], c41KiB(1024)+1, 201), "DELETE", nil),
		// long header values: response (with a long body too; Set; two long headers), request (several lines of one name)
		mk(c41SizedSvc("text", u[1], c41KiB(64), 200, c41SizedHdr("add", "X-Big", u[7], c41KiB(4)+1)), "GET", nil),
		mk(c41SizedSvc("none", nil, 0, 204, c41SizedHdr("set", "Etag", u[0], c41KiB(1024))), "GET", nil),
		mk(c41SizedSvc("text", []byte("ok"), 2, 200, c41SizedHdr("add", "X-One", u[6], c41KiB(64)-1), c41SizedHdr("add", "Location", []byte("/a"), c41KiB(64)+1)), "GET", nil),
		mk(echo("headers", "isjson"), "GET", func(q *c41Req) {
			q.Headers = [][2]string{{"Accept", "application/json"}}
			q.BigHdrs = []c41Big{c41SizedBig("X-List", u[0], c41KiB(64)-1), c41SizedBig("x-list", u[6], c41KiB(4)), c41SizedBig("User-Agent", []byte("ua "), c41KiB(1024))}
		}),
		// the Accept header itself is long: application/json after 64 KiB of other media types
		mk(c41SizedSvc("text", []byte("{}"), 2, 200), "GET", func(q *c41Req) {
			q.BigHdrs = []c41Big{c41SizedBig("Accept", []byte("text/html;q=0.1, "), c41KiB(64))}
			q.Headers = [][2]string{{"Accept", "application/json"}}
		}),
		// long query values
		mk(echo("params", "urlpath"), "GET", func(q *c41Req) {
			q.URL = "/services/alpha?a=1"
			q.BigQry = []c41Big{c41SizedQry("big", []byte("%C3%A9"), c41KiB(64)), c41SizedQry("z", []byte("x"), c41KiB(64)+1)}
		}),
		// a long request body and a long response that is not its echo
		mk(c41SizedSvc("bytes", u[9], c41KiB(64)+1, 200), "PATCH", func(q *c41Req) { q.setSizedBody(u[5], c41KiB(256)) }),
		// a long text printed instead of written
		mk(c41SizedSvc("print", u[1], c41KiB(64)+1, 200), "GET", nil),
	)

	return cs
}

// c41GenSize draws a payload size: on, next to, or a few hundred bytes below a ladder size (a limit on the encoded
// document bites below the same limit on the value), or anywhere up to 2 MiB on a logarithmic scale.
func c41GenSize(rnd *rand.Rand) int {
	ladder := c41SizeLadder()
	n := c41Pick(rnd, ladder[3:])

	switch rnd.Intn(5) {
	case 0:
	case 1:
		n += rnd.Intn(19) - 9
	case 2:
		n -= rnd.Intn(600)
	case 3:
		n += rnd.Intn(600)
	default:
		n = 1 << uint(rnd.Intn(22))
		n += rnd.Intn(n)
	}

	if n < 0 {
		n = 0
	}

	return n
}

// c41GenSizeCase: a generated request and service in which one or two parts have a drawn size.
func c41GenSizeCase(rnd *rand.Rand) c41Case {
	q := c41GenReq(rnd)
	s := c41Svc{Kind: "gen", Body: "echo", Echo: []string{"bodylen", "method"}, Status: c41Pick(rnd, []int{0, 200, 200, 201, 404, 500})}
	unit := func(all bool) []byte {
		if all {
			return c41Pick(rnd, c41Units)
		}

		return c41Pick(rnd, c41Units[:c41TextUnits])
	}

	for n, parts := 1+rnd.Intn(2), rnd.Perm(5); n > 0; n-- {
		switch parts[n] {
		case 0: // response body
			s = c41SizedSvc(c41Pick(rnd, []string{"text", "bytes", "bytes"}), unit(true), c41GenSize(rnd), s.Status, s.Hdrs...)
		case 1: // request body, echoed or measured
			if q.Method == "GET" {
				q.Method = "POST"
			}

			q.setSizedBody(unit(false), c41GenSize(rnd))

			if s.Body == "echo" && rnd.Intn(2) == 0 {
				s.Echo = []string{"body", "bodylen"}
			}
		case 2: // response header
			s.Hdrs = append(s.Hdrs, c41SizedHdr(c41Pick(rnd, []string{"add", "set"}), c41Pick(rnd, []string{"X-Big", "Etag", "Location", "Content-Type"}),
				c41Pick(rnd, [][]byte{[]byte("v"), []byte("a, b; "), []byte("é"), []byte("\"q\" ")}), c41GenSize(rnd)))
		case 3: // request header, echoed
			q.BigHdrs = append(q.BigHdrs, c41SizedBig(c41Pick(rnd, []string{"X-Big", "x-trace", "User-Agent", "Accept", "Content-Type"}),
				c41Pick(rnd, [][]byte{[]byte("h"), []byte("a, b; "), []byte("☃"), []byte("text/plain, ")}), c41GenSize(rnd)))

			if s.Body == "echo" {
				s.Echo = append(s.Echo, "headers")
			}
		case 4: // query value, echoed
			q.BigQry = append(q.BigQry, c41SizedQry(c41Pick(rnd, []string{"big", "a", "list"}), c41Pick(rnd, [][]byte{[]byte("x"), []byte("%20"), []byte("%E2%98%83")}),
				c41GenSize(rnd)%(c41KiB(256))))

			if s.Body == "echo" {
				s.Echo = append(s.Echo, "params")
			}
		}
	}

	sort.Strings(s.Echo)

	return c41Case{Svc: s, Req: q}
}

func c41Setup(t *testing.T) *c41Env {
	ego := os.Getenv("VERIF_EGO")
	if ego == "" {
		t.Fatal("VERIF_EGO (path of the ego binary built from this tree) is not set")
	}

	base := "/dev/shm"
	if _, err := os.Stat(base); err != nil {
		base = os.TempDir()
	}

	dir, err := os.MkdirTemp(base, "verif-c41-")
	if err != nil {
		t.Fatal(err)
	}

	t.Cleanup(func() { _ = os.RemoveAll(dir) })

	for _, d := range []string{"svc", "x", "home"} {
		_ = os.MkdirAll(filepath.Join(dir, d), 0o755)
	}

	wd, _ := os.Getwd()
	root, _ := filepath.Abs(filepath.Join(wd, "..", "..", ".."))

	// the child is the real binary, found by callChildServices through os.Args[0]; it reads its
	// configuration from $HOME, which is an empty scratch directory (defaults on both sides)
	old := os.Args[0]
	os.Args[0] = ego

	t.Cleanup(func() { os.Args[0] = old })
	t.Setenv("HOME", filepath.Join(dir, "home"))
	t.Setenv("EGO_PATH", root)

	// parent and child share one configuration: the ego binary itself writes the default profile
	// (lib/defaults.json + the runtime path) under the scratch $HOME, the harness then loads that profile
	// ego.compiler.import=true is the shipped default (lib/defaults.json); with it off the two modes differ
	// by construction (runChildRequest imports every package up front, ServiceHandler does not)
	for _, kv := range []string{defs.EgoPathSetting + "=" + root, defs.AutoImportSetting + "=true"} {
		if out, err := exec.Command(ego, "config", "set", kv).CombinedOutput(); err != nil {
			t.Fatalf("ego config set %s: %v\n%s", kv, err, out)
		}
	}

	defs.InstanceID = "verif-c41" // the server id the session carries

	settings.ProfileDirectory = ".ego" // what main.go configures for the ego binary

	if err := settings.Load("ego", "default"); err != nil {
		t.Fatalf("settings.Load: %v", err)
	}

	if settings.Get(defs.EgoPathSetting) != root {
		t.Fatalf("profile not shared: %s=%q", defs.EgoPathSetting, settings.Get(defs.EgoPathSetting))
	}

	settings.Set(defs.ChildRunTimeoutSetting, "120s")

	return &c41Env{dir: dir, libRoot: filepath.Join(root, "lib", "services")}
}

// ---------------------------------------------------------------- oracle

func c41InvalidUTF8(s string) bool { return !utf8.ValidString(s) }

// c41Allowed lists, for one case, the response components that a KNOWN finding class lets differ between
// the in-process answer and a child answer.  It is a function of the case (and, for the folded header class,
// of the in-process answer), never of the child's answer.  Component names: "status", "body", "body.<key>",
// "hdr.<Canonical-Name>", "*" (everything).
func c41Allowed(c *c41Case, in c41Resp) map[string]string {
	al := map[string]string{}
	s, q := c.Svc, c.Req

	if s.Err != "" {
		al["*"] = "service-error-response"
		return al
	}

	inBody, _ := hex.DecodeString(in.Body)
	if (in.Status >= 400 || in.Status < 100) && len(inBody) == 0 {
		al["*"] = "error-status-empty-body"
		return al
	}

	if in.Status == http.StatusUnauthorized {
		al["hdr.Www-Authenticate"] = "status-401-realm-header"
	}

	for k, v := range in.Headers {
		if len(v) > 1 {
			al["hdr."+k] = "multi-valued-response-header"
		}

		for _, x := range v {
			if c41InvalidUTF8(x) {
				al["hdr."+k] = "non-utf8-string"
			}
		}
	}

	if c41InvalidUTF8(string(inBody)) {
		al["body"] = "non-utf8-string"
	}

	if c41InvalidUTF8(string(q.body())) {
		al["body.body"], al["body.bodylen"] = "non-utf8-string", "non-utf8-string"
	}

	for _, kv := range q.headers() {
		if c41InvalidUTF8(kv[1]) {
			al["body.headers"] = "non-utf8-string"
		}
	}

	if u, err := url.Parse(q.target()); err == nil {
		for k, vs := range u.Query() {
			if c41InvalidUTF8(k) || c41InvalidUTF8(strings.Join(vs, "")) {
				al["body.params"] = "non-utf8-string"
			}
		}
	}

	for _, v := range q.Parts {
		if sv, ok := v.(string); ok && c41InvalidUTF8(sv) {
			al["body.parts"], al["body.partsym"] = "non-utf8-string", "non-utf8-string"
		}
	}

	return al
}

// c41Diff names the components in which two responses differ.
func c41Diff(a, b c41Resp) []string {
	var d []string

	if a.Status != b.Status {
		d = append(d, "status")
	}

	names := map[string]bool{}
	for k := range a.Headers {
		names[k] = true
	}

	for k := range b.Headers {
		names[k] = true
	}

	for k := range names {
		if strings.Join(a.Headers[k], "\x00") != strings.Join(b.Headers[k], "\x00") || len(a.Headers[k]) != len(b.Headers[k]) {
			d = append(d, "hdr."+k)
		}
	}

	if a.Body != b.Body {
		ab, _ := hex.DecodeString(a.Body)
		bb, _ := hex.DecodeString(b.Body)

		var am, bm map[string]json.RawMessage

		if json.Unmarshal(ab, &am) == nil && json.Unmarshal(bb, &bm) == nil && len(am) > 0 && len(am) == len(bm) {
			n := 0

			for k, v := range am {
				if !bytes.Equal(v, bm[k]) {
					d = append(d, "body."+k)
					n++
				}
			}

			if n == 0 {
				d = append(d, "body")
			}
		} else {
			d = append(d, "body")
		}
	}

	sort.Strings(d)

	return d
}

// ---------------------------------------------------------------- line protocol (shared with Driver.lean)

func c41L(xs []string) string {
	if len(xs) == 0 {
		return "~"
	}

	h := make([]string, len(xs))
	for i, x := range xs {
		h[i] = verifh.Hex(x)
	}

	return strings.Join(h, ",")
}

func c41M(m map[string][]string) string {
	keys := make([]string, 0, len(m))
	for k := range m {
		keys = append(keys, k)
	}

	sort.Strings(keys)

	if len(keys) == 0 {
		return "~"
	}

	out := make([]string, len(keys))
	for i, k := range keys {
		out[i] = verifh.Hex(k) + "=" + c41L(m[k])
	}

	return strings.Join(out, ";")
}

func c41P(m map[string]any) string {
	keys := make([]string, 0, len(m))
	for k := range m {
		keys = append(keys, k)
	}

	sort.Strings(keys)

	if len(keys) == 0 {
		return "~"
	}

	out := make([]string, len(keys))

	for i, k := range keys {
		switch v := m[k].(type) {
		case bool:
			out[i] = verifh.Hex(k) + "=b0"
			if v {
				out[i] = verifh.Hex(k) + "=b1"
			}
		case string:
			out[i] = verifh.Hex(k) + "=s" + verifh.Hex(v)
		default:
			out[i] = verifh.Hex(k) + "=?"
		}
	}

	return strings.Join(out, ";")
}

func c41B(bs ...bool) string {
	r := ""

	for _, b := range bs {
		if b {
			r += "1"
		} else {
			r += "0"
		}
	}

	return r
}

// c41ReqLines: the model input (what the handler was given) and the canonical form of the request
// document the real callChildServices wrote.
func c41ReqLines(c *c41Case, doc []byte) (in, impl string) {
	q := c.Req
	hdr := http.Header{}

	for _, kv := range q.headers() {
		k := http.CanonicalHeaderKey(kv[0])
		hdr[k] = append(hdr[k], kv[1])
	}

	text, js := c41Accepts(hdr)
	u, _ := url.Parse("http://localhost" + q.target())
	body := q.body()
	in = strings.Join([]string{"req", fmt.Sprint(1000 + c.ID), verifh.Hex(q.Method), verifh.Hex(u.String()), verifh.Hex(q.Pattern),
		verifh.Hex(q.User), verifh.Hex(q.Token), c41B(q.Auth, q.Admin, js, text), c41M(u.Query()), c41P(q.Parts), c41M(hdr),
		c41L(q.Perms), verifh.Hex(string(body))}, " ")

	var d struct {
		Session       int                 `json:"session"`
		User          string              `json:"user"`
		Authenticated bool                `json:"authenticated"`
		Admin         bool                `json:"admin"`
		Bearer        bool                `json:"bearer"`
		JSON          bool                `json:"json"`
		Text          bool                `json:"text"`
		Parameters    map[string][]string `json:"parameters"`
		Method        string              `json:"method"`
		Path          string              `json:"path"`
		URL           string              `json:"url"`
		URLParts      map[string]any      `json:"urlparts"`
		Headers       map[string][]string `json:"headers"`
		Permissions   []string            `json:"permissions"`
		Body          string              `json:"body"`
	}

	if err := json.Unmarshal(doc, &d); err != nil {
		return in, "no-request-document"
	}

	impl = strings.Join([]string{fmt.Sprint(d.Session), verifh.Hex(d.Method), verifh.Hex(d.URL), verifh.Hex(d.Path), verifh.Hex(d.User),
		c41B(d.Authenticated, d.Admin, d.Bearer, d.JSON, d.Text), c41M(d.Parameters), c41P(d.URLParts), c41M(d.Headers),
		c41L(d.Permissions), verifh.Hex(d.Body)}, " ")

	return in, impl
}

// c41RespCanon renders an HTTP response; an ErrorResponse body is reduced to its status and message.
func c41RespCanon(r c41Resp) string {
	body, _ := hex.DecodeString(r.Body)

	var e struct {
		Server *struct{} `json:"server"`
		Status int       `json:"status"`
		Msg    *string   `json:"msg"`
	}

	b := verifh.Hex(string(body))
	if json.Unmarshal(body, &e) == nil && e.Server != nil && e.Msg != nil {
		b = fmt.Sprintf("err:%d:%s", e.Status, verifh.Hex(*e.Msg))
	}

	return fmt.Sprintf("%d %s %s", r.Status, c41M(r.Headers), b)
}

// c41SvcHeaders interprets the header operations of a generated service the way internal/runtime/http
// does (Set is bound to Add there), giving the `_headers` map the handler leaves behind.
func c41SvcHeaders(s c41Svc) map[string][]string {
	m := map[string][]string{}

	for _, h := range s.Hdrs {
		if h.Op == "del" {
			delete(m, h.K)
		} else {
			m[h.K] = append(m[h.K], h.val())
		}
	}

	return m
}

// ---------------------------------------------------------------- the test

func c41LibCases() []c41Case {
	mk := func(file, method, pattern, target string, parts map[string]any, f func(q *c41Req)) c41Case {
		q := c41Req{Method: method, Pattern: pattern, URL: target, Parts: parts}
		if f != nil {
			f(&q)
		}

		return c41Case{Svc: c41Svc{Kind: "lib", File: file}, Req: q}
	}
	ut := map[string]any{"services": true, "unit-test": true, "echo": true}
	js := func(q *c41Req) { q.Headers = [][2]string{{"Accept", "application/json"}} }
	body := func(q *c41Req) {
		q.Body = hex.EncodeToString([]byte("{\"name\":\"x\"}"))
		q.Headers = [][2]string{{"Content-Type", "application/json"}, {"Accept", "application/json"}}
	}

	return []c41Case{
		mk("hello.ego", "GET", "/services/hello", "/services/hello", map[string]any{"services": true, "hello": true}, nil),
		mk("up.ego", "GET", "/services/up", "/services/up", map[string]any{"services": true, "up": true}, js),
		mk("count.ego", "GET", "/services/count", "/services/count", map[string]any{"services": true, "count": true}, nil),
		mk("factor.ego", "GET", "/services/factor", "/services/factor?i=360", map[string]any{"services": true, "factor": true}, js),
		mk("sample.ego", "GET", "/services/sample/users/{{name}}/{{field}}", "/services/sample/users/tom/age",
			map[string]any{"services": true, "sample": true, "users": true, "name": "tom", "field": "age"}, js),
		mk("sample.ego", "GET", "/services/sample/users/{{name}}/{{field}}", "/services/sample/users",
			map[string]any{"services": true, "sample": true, "users": true, "name": "", "field": ""}, nil),
		mk("unit-test/echo-get.ego", "GET", "/services/unit-test/echo", "/services/unit-test/echo?name=bob&count=3", ut, js),
		mk("unit-test/echo-post.ego", "POST", "/services/unit-test/echo", "/services/unit-test/echo", ut, body),
		mk("unit-test/echo-put.ego", "PUT", "/services/unit-test/echo", "/services/unit-test/echo", ut, body),
		mk("unit-test/echo-patch.ego", "PATCH", "/services/unit-test/echo", "/services/unit-test/echo", ut, body),
		mk("unit-test/echo-delete.ego", "DELETE", "/services/unit-test/echo", "/services/unit-test/echo?id=9", ut, js),
		mk("unit-test/media.ego", "GET", "/services/unit-test/media", "/services/unit-test/media",
			map[string]any{"services": true, "unit-test": true, "media": true}, js),
		mk("unit-test/media.ego", "GET", "/services/unit-test/media", "/services/unit-test/media",
			map[string]any{"services": true, "unit-test": true, "media": true}, func(q *c41Req) { q.Headers = [][2]string{{"Accept", "text/plain"}} }),
		mk("unit-test/media.ego", "GET", "/services/unit-test/media", "/services/unit-test/media",
			map[string]any{"services": true, "unit-test": true, "media": true},
			func(q *c41Req) {
				q.Headers = [][2]string{{"Accept", "text/html;q=0.8"}, {"Accept", "application/json"}}
			}),
		mk("hello.ego", "GET", "/services/hello", "/services/hello", map[string]any{"services": true, "hello": true},
			func(q *c41Req) {
				q.Headers = [][2]string{{"Accept", "text/plain"}, {"Accept", "application/json;q=0.5"}}
			}),
		mk("unit-test/status.ego", "GET", "/services/unit-test/status/{{code}}", "/services/unit-test/status/404",
			map[string]any{"services": true, "unit-test": true, "status": true, "code": "404"}, nil),
		mk("unit-test/status.ego", "GET", "/services/unit-test/status/{{code}}", "/services/unit-test/status/abc",
			map[string]any{"services": true, "unit-test": true, "status": true, "code": "abc"}, nil),
		mk("unit-test/protected.ego", "GET", "/services/unit-test/protected", "/services/unit-test/protected",
			map[string]any{"services": true, "unit-test": true, "protected": true}, func(q *c41Req) { q.User, q.Auth = "joe", true }),
		mk("bogus-runtime.ego", "GET", "/services/bogus-runtime", "/services/bogus-runtime", map[string]any{"services": true}, nil),
		mk("bogus-compile.ego", "GET", "/services/bogus-compile", "/services/bogus-compile", map[string]any{"services": true}, nil),
	}
}

// c41MarkLib records which shipped samples fail by design, so that the error-response class applies.
func c41MarkLib(cs []c41Case) []c41Case {
	for i := range cs {
		switch cs[i].Svc.File {
		case "bogus-runtime.ego":
			cs[i].Svc.Err = "runtime"
		case "bogus-compile.ego":
			cs[i].Svc.Err = "compile"
		}
	}

	return cs
}

type c41Result struct {
	in, pipe, file c41Resp
	rq, rs         []byte
	err            [3]error
}

// c41SetMode configures the transport of a whole phase.  It runs on the test goroutine while no request is in
// flight: ServiceHandler → callChildServices → waitForTurn reads the (unsynchronised) settings concurrently.
func c41SetMode(env *c41Env, mode string) {
	switch mode {
	case "inproc":
		settings.Set(defs.ChildServicesSetting, "false")
	case "pipe":
		settings.Set(defs.ChildServicesSetting, "true")
		settings.Set(defs.ChildRequestDirSetting, defs.ChildServicesPipeMode)
	case "file":
		settings.Set(defs.ChildServicesSetting, "true")
		settings.Set(defs.ChildRequestDirSetting, filepath.Join(env.dir, "x"))
		settings.Set(defs.ChildRequestRetainSetting, "true")
	}
}

func c41Phase(env *c41Env, cases []c41Case, files []string, res []c41Result, mode string, workers int) {
	c41SetMode(env, mode)

	ch := make(chan int)
	done := make(chan bool)

	for w := 0; w < workers; w++ {
		go func() {
			for i := range ch {
				r, rq, rs, err := c41Run(env, &cases[i], files[i], mode)

				switch mode {
				case "inproc":
					res[i].in, res[i].err[0] = r, err
				case "pipe":
					res[i].pipe, res[i].err[1] = r, err
				default:
					res[i].file, res[i].rq, res[i].rs, res[i].err[2] = r, rq, rs, err
				}
			}

			done <- true
		}()
	}

	for i := range cases {
		ch <- i
	}

	close(ch)

	for w := 0; w < workers; w++ {
		<-done
	}
}

// c41ModelMax: the largest request / response (bytes of payload) that is also put through the Lean driver.
func c41ModelMax() int { return c41KiB(verifh.N(160, 600)) }

// c41Brief shortens a response for the failure record: a long body or header value is replaced by its length,
// SHA-256 and both ends (the input of the failure regenerates it in full).
func c41Brief(v any) any {
	r, ok := v.(c41Resp)
	if !ok {
		return v
	}

	short := func(s string, isHex bool) string {
		if len(s) <= 4096 {
			return s
		}

		raw := []byte(s)
		if isHex {
			raw, _ = hex.DecodeString(s)
		}

		return fmt.Sprintf("len=%d sha256=%x head=%x tail=%x", len(raw), sha256.Sum256(raw), raw[:48], raw[len(raw)-24:])
	}

	out := c41Resp{Status: r.Status, Headers: map[string][]string{}, Body: short(r.Body, true)}

	for k, vs := range r.Headers {
		for _, x := range vs {
			out.Headers[k] = append(out.Headers[k], short(x, false))
		}
	}

	return out
}

// c41ViaJSON is the reference for a Go string that travelled through encoding/json.
func c41ViaJSON(s string) string {
	b, _ := json.Marshal(s)

	var r string

	_ = json.Unmarshal(b, &r)

	return r
}

func TestVerifC41(t *testing.T) {
	env := c41Setup(t)
	rnd := verifh.Rand(41)
	corpus := c41Corpus()

	var cases []c41Case

	if verifh.Thorough() || os.Getenv("VERIF_CASES") != "" {
		cases = append(cases, corpus...)
	} else {
		cases = append(cases, corpus[:2]...)
		for _, i := range rnd.Perm(len(corpus) - 2)[:12] {
			cases = append(cases, corpus[2+i])
		}
	}

	hc := c41HeaderCorpus()
	if verifh.Thorough() || os.Getenv("VERIF_CASES") != "" {
		cases = append(cases, hc...)
	} else {
		cases = append(cases, hc[:c41HeaderPinned]...)
		for _, i := range rnd.Perm(len(hc) - c41HeaderPinned)[:2] {
			cases = append(cases, hc[c41HeaderPinned+i])
		}
	}

	lib := c41MarkLib(c41LibCases())
	if verifh.Thorough() || os.Getenv("VERIF_CASES") != "" {
		cases = append(cases, lib...)
	} else {
		for _, i := range rnd.Perm(len(lib))[:8] {
			cases = append(cases, lib[i])
		}
	}

	for n := verifh.N(10, 200); n > 0; n-- {
		cases = append(cases, c41Case{Svc: c41GenSvc(rnd), Req: c41GenReq(rnd)})
	}

	// sizes: the pinned cases and two generated ones in a quick run; the whole ladder and more generated ones otherwise
	// (a separate PRNG: the cases above are the ones they were before this family existed)
	srnd := verifh.Rand(4141)
	sc := c41SizeCorpus()

	if verifh.Thorough() || os.Getenv("VERIF_CASES") != "" {
		cases = append(cases, sc...)
	} else {
		cases = append(cases, sc[:c41SizePinned]...)
	}

	for n := verifh.N(2, 40); n > 0; n-- {
		cases = append(cases, c41GenSizeCase(srnd))
	}

	files := make([]string, len(cases))
	for i := range cases {
		cases[i].ID = i
		files[i] = c41ServiceFile(env, &cases[i])
	}

	res := make([]c41Result, len(cases))
	start := time.Now()
	workers := 8

	co, fo, st := verifh.Out("c41_cases.jsonl"), verifh.Out("c41_failures.jsonl"), verifh.NewStats()

	for _, ph := range []struct {
		mode    string
		workers int
	}{{"inproc", 1}, {"pipe", workers}, {"file", workers}} {
		t0 := time.Now()

		c41Phase(env, cases, files, res, ph.mode, ph.workers)
		st.Add("seconds_"+ph.mode, int(time.Since(t0).Seconds()))
	}

	distinct := map[string]bool{}

	for i := range cases {
		c := &cases[i]
		r := &res[i]
		cj, _ := json.Marshal(c)
		st.Add("evaluations", 3)

		key := c41Program(c) + "\x00" + c.Svc.File + "\x00" + string(cj[bytes.Index(cj, []byte(`"req"`)):])
		q := c.Req
		if !distinct[key] && (len(q.Headers)+len(q.BigHdrs) > 0 || strings.Contains(q.target(), "?") || q.Body != "" || strings.Contains(q.Pattern, "{{") || q.Auth) {
			st.Inc("distinct_nontrivial")
		}

		distinct[key] = true

		if i < 40 && i%6 == 1 {
			st.Sample(c)
		}

		// what the request's headers exercise (measured, reported in the coverage)
		if multi, lines, jsonAt := c41HeaderShape(&q); multi > 0 || lines > 0 {
			if multi > 0 {
				st.Inc("req_multi_valued_header")
			}

			switch {
			case lines > 1 && jsonAt > 0:
				st.Inc("accept_lines_json_later")
			case lines > 1 && jsonAt == 0:
				st.Inc("accept_lines_json_first")
			case lines > 1:
				st.Inc("accept_lines_json_absent")
			case lines == 1:
				st.Inc("accept_single_line")
			}
		}

		// what the case exercises in size (measured on what was sent and on the in-process answer)
		reqBodyLen, reqHdrLen, reqDocLen := len(q.body()), 0, len(q.body())+len(q.target())
		for _, kv := range q.headers() {
			reqHdrLen = max(reqHdrLen, len(kv[1]))
			reqDocLen += len(kv[0]) + len(kv[1])
		}

		respBodyLen, respHdrLen, respDocLen := len(r.in.Body)/2, 0, len(r.in.Body)/2
		for k, v := range r.in.Headers {
			respHdrLen = max(respHdrLen, len(strings.Join(v, ", ")))
			respDocLen += len(k) + len(strings.Join(v, ", "))
		}

		for _, m := range []struct {
			name string
			n    int
		}{{"req_body", reqBodyLen}, {"req_header", reqHdrLen}, {"resp_body", respBodyLen}, {"resp_header", respHdrLen}} {
			switch {
			case m.n >= c41KiB(1024):
				st.Inc("size_" + m.name + "_ge_1MiB")
			case m.n >= c41KiB(64):
				st.Inc("size_" + m.name + "_ge_64KiB")
			case m.n >= c41KiB(4):
				st.Inc("size_" + m.name + "_ge_4KiB")
			}
		}

		fail := func(class, what string, got, want any) {
			g, _ := json.Marshal(c41Brief(got))
			w, _ := json.Marshal(c41Brief(want))
			fo.Write(verifh.Failure{Class: class, What: what, Input: string(cj), Got: string(g), Want: string(w)})
			st.Inc("fail:" + class)
		}

		for k, e := range r.err {
			if e != nil {
				fail("harness-error", fmt.Sprintf("mode %d: %v", k, e), nil, nil)
			}
		}

		allowed := c41Allowed(c, r.in)
		seen := map[string]bool{}

		for _, m := range []struct {
			name string
			resp c41Resp
		}{{"pipe", r.pipe}, {"file", r.file}} {
			for _, comp := range c41Diff(r.in, m.resp) {
				if comp == "body.pid" && c.Svc.File == "up.ego" {
					continue // the process id of the process that ran the handler: differs by definition
				}

				class := allowed["*"]
				if class == "" {
					class = allowed[comp]
				}

				if class == "" && strings.HasPrefix(comp, "body.") {
					class = allowed["body"]
				}

				ok := class != ""

				switch {
				case ok && class == "multi-valued-response-header":
					h := strings.TrimPrefix(comp, "hdr.")
					ok = len(m.resp.Headers[h]) == 1 && m.resp.Headers[h][0] == c41ViaJSON(strings.Join(r.in.Headers[h], ", "))
				case ok && class == "non-utf8-string" && comp == "body":
					ib, _ := hex.DecodeString(r.in.Body)
					ok = m.resp.Body == hex.EncodeToString([]byte(c41ViaJSON(string(ib))))
				}

				if !ok {
					class = "unexpected-difference:" + strings.SplitN(comp, ".", 2)[0] + ":" + strings.TrimPrefix(comp, "hdr.")
				}

				if !seen[class] {
					seen[class] = true
					fail(class, fmt.Sprintf("%s transport answers differently from in-process execution in %s", m.name, comp), m.resp, r.in)
				}
			}
		}

		if d := c41Diff(r.pipe, r.file); len(d) > 0 && !(c.Svc.File == "up.ego" && len(d) == 1 && d[0] == "body.pid") {
			fail("transport-difference", "pipe and file transports answer differently in "+strings.Join(d, ","), r.file, r.pipe)
		}

		if len(seen) == 0 {
			st.Inc("agree")
		}

		// correspondence with the Lean model: the request document, then the response re-encoding
		// (the model walks byte lists: documents above c41ModelMax are left to the oracle above, and counted)
		if reqDocLen <= c41ModelMax() {
			in, impl := c41ReqLines(c, r.rq)
			co.Write(verifh.Case{In: in, Impl: impl, Desc: fmt.Sprintf("case %d request document", i)})
			st.Inc("req_lines")
		} else {
			st.Inc("req_lines_skipped_large")
		}

		// (an echo of request fields the transport altered is a different handler outcome, not a re-encoding)
		echoAltered := false

		for k := range allowed {
			echoAltered = echoAltered || (c.Svc.Body == "echo" && strings.HasPrefix(k, "body."))
		}

		// a 401 from a service that sets Www-Authenticate itself: the child's reply then carries two keys of one
		// canonical name ("Www-Authenticate" from the service, "WWW-Authenticate" added by runChildRequest) and the value
		// the parent keeps depends on Go's map iteration order in callChildServices — not a function of the input, so
		// there is no line to compare (the oracle's class status-401-realm-header covers the header)
		realmClash := false

		if c.Svc.Status == http.StatusUnauthorized {
			for k := range c41SvcHeaders(c.Svc) {
				realmClash = realmClash || http.CanonicalHeaderKey(k) == "Www-Authenticate"
			}
		}

		if realmClash {
			st.Inc("resp_skipped_401_realm_clash")
		}

		if c.Svc.Kind == "gen" && c.Svc.Err == "" && r.in.Status >= 100 && !echoAltered && !realmClash && reqDocLen+respDocLen > c41ModelMax() {
			st.Inc("resp_lines_skipped_large")
		} else if c.Svc.Kind == "gen" && c.Svc.Err == "" && r.in.Status >= 100 && !echoAltered && !realmClash {
			hdr := http.Header{}
			for _, kv := range q.headers() {
				hdr[http.CanonicalHeaderKey(kv[0])] = append(hdr[http.CanonicalHeaderKey(kv[0])], kv[1])
			}

			// the model is given the request headers as the handler received them (all values of each name) and
			// takes the JSON-reply decision of each side itself
			ib, _ := hex.DecodeString(r.in.Body)
			st.Inc("resp_lines")
			co.Write(verifh.Case{
				In: strings.Join([]string{"resp", c41M(hdr), fmt.Sprint(c.Svc.Status), c41M(c41SvcHeaders(c.Svc)), verifh.Hex(string(ib)),
					verifh.Hex(`Basic realm=` + strconv.Quote(router.Realm) + `, charset="UTF-8"`)}, " "),
				Impl: c41RespCanon(r.in) + " | " + c41RespCanon(r.file),
				Desc: fmt.Sprintf("case %d response", i)})
		}
	}

	st.Add("cases", len(cases))
	st.Add("seconds", int(time.Since(start).Seconds()))
	co.Close()
	fo.Close()
	st.Save("c41_stats.json")
}
