//go:build verif

package services

// C42 harness, part 2: concurrent batches through the real router + ServiceHandler.
//
// Oracles (model-free), per request of a batch of N requests with distinct markers served
// concurrently (GOMAXPROCS 1, 4, 16; warm and cold caches; flushes and failing requests mixed in):
//   (a) reference: status/body/X-C42 header equal c42Expect(service, request) — computed in Go
//       from the request alone;
//   (b) alone: equal to what the same request gets when it is served alone on a cold cache;
//   (c) no response contains the marker of another request of the batch.

import (
	"fmt"
	"os"
	"runtime"
	"strings"
	"sync"
	"testing"

	"github.com/tucats/ego/internal/cli/settings"
	"github.com/tucats/ego/internal/defs"
	"github.com/tucats/ego/internal/server/auth"
	"github.com/tucats/ego/internal/verifh"
)

type c42Run struct {
	t        *testing.T
	fails    *verifh.Writer
	cases    *verifh.Writer
	stats    *verifh.Stats
	nfail    int
	distinct map[string]bool
	class    string // when set: the class of every failure (decided by the service under test, see literals())
}

func (h *c42Run) fail(class, what, input, got, want string) {
	if h.class != "" {
		class = h.class
	}

	h.stats.Inc("failures." + class)

	// at most 15 reports per class (a known class must never use up the room of an unknown one)
	if h.nfail++; h.stats.M["failures."+class] <= 15 {
		h.fails.Write(verifh.Failure{Class: class, What: what, Input: input, Got: got, Want: want})
	}
}

// classify names the failing class from the fields that differ (a predicate on the two texts,
// not on any message).
func c42Classify(got, want string, others []string) string {
	for _, m := range others {
		if strings.Contains(got, m) {
			g, w := strings.Split(got, "|"), strings.Split(want, "|")
			only := len(g) == len(w)

			for i := 0; only && i < len(g); i++ {
				if g[i] != w[i] && !strings.HasPrefix(g[i], "v.") {
					only = false
				}
			}

			if only {
				return "url-part-variable-from-another-request"
			}

			return "response-contains-another-requests-data"
		}
	}

	return "response-differs-from-own-request"
}

type c42Answer struct {
	code int
	body string
	hdr  string
}

func (w *c42World) answer(q c42Req) c42Answer {
	code, body, hdr := w.serve(q)

	return c42Answer{code, strings.TrimSuffix(body, "\n"), hdr.Get("X-C42")}
}

// batch serves qs concurrently and checks the three oracles.
func (h *c42Run) batch(w *c42World, solo *c42World, qs []c42Req, procs int, tag string) {
	old := runtime.GOMAXPROCS(procs)
	defer runtime.GOMAXPROCS(old)

	got := make([]c42Answer, len(qs))
	start := make(chan struct{})

	var wg sync.WaitGroup

	for i := range qs {
		wg.Add(1)

		go func() {
			defer wg.Done()
			<-start

			got[i] = w.answer(qs[i])
		}()
	}

	close(start)
	wg.Wait()

	for i, q := range qs {
		s := w.Svcs[q.Svc]
		input := fmt.Sprintf("%s procs=%d batch=%d request[%d]: %s || service:\n%s", tag, procs, len(qs), i, q.describe(s), s.source())
		h.stats.Inc("requests.concurrent")
		h.distinct[s.pattern()+"|"+fmt.Sprint(len(qs))+"|"+fmt.Sprint(procs)+"|"+q.Method+fmt.Sprint(q.Fail, q.Mut != "", len(q.Body) > 0)] = true

		others := []string{}

		for j, o := range qs {
			if j != i {
				others = append(others, o.Marker)
			}
		}

		h.judge(w, solo, q, got[i], others, input, "concurrent")
	}
}

// judge applies the three oracles to the answer `got` of request q; others are the markers of the
// requests whose data must not show up in it (the rest of the batch, or the earlier requests of
// a serial sequence).
func (h *c42Run) judge(w *c42World, solo *c42World, q c42Req, got c42Answer, others []string, input, how string) {
	s := w.Svcs[q.Svc]

	if q.Fail {
		if got.code != 500 {
			h.fail("failing-request-not-500", "a request whose service divides by zero did not get 500", input, fmt.Sprint(got.code, " ", got.body), "500")
		}

		for _, m := range others {
			if strings.Contains(got.body, m) {
				h.fail("response-contains-another-requests-data", "error response contains another request's marker "+m, input, got.body, "")
			}
		}

		return
	}

	wc, wb := c42Expect(s, q)
	if got.code != wc || c42Head(got.body) != wb || got.hdr != q.A {
		h.fail(c42Classify(c42Head(got.body), wb, others), how+" response differs from the reference computed from the request alone",
			input, fmt.Sprintf("%d %s [X-C42=%s]", got.code, got.body, got.hdr), fmt.Sprintf("%d %s [X-C42=%s]", wc, wb, q.A))

		return
	}

	// (b) the same request alone on a cold cache (the twin service has its own cache key)
	serviceCacheMutex.Lock()
	delete(ServiceCache, solo.Svcs[q.Svc].pattern())
	serviceCacheMutex.Unlock()

	if alone := solo.answer(q); alone != got {
		h.fail(c42Classify(got.body, alone.body, others), how+" response differs from the response to the same request served alone",
			input, fmt.Sprintf("%d %s", got.code, got.body), fmt.Sprintf("%d %s", alone.code, alone.body))
	}

	h.stats.Inc("requests.compared-alone")
}

func TestVerifC42(t *testing.T) {
	sfx := os.Getenv("VERIF_C42_SUFFIX") // ".race" for the run under the race detector (about half the size)
	h := &c42Run{t: t, fails: verifh.Out("c42_failures" + sfx + ".jsonl"), cases: verifh.Out("c42_cases" + sfx + ".jsonl"),
		stats: verifh.NewStats(), distinct: map[string]bool{}}

	defer func() {
		h.stats.Add("distinct_nontrivial", len(h.distinct))
		h.fails.Close()
		h.cases.Close()
		h.stats.Save("c42_stats" + sfx + ".json")
	}()

	os.Unsetenv(defs.EgoPathEnv)
	settings.Set(defs.EgoPathSetting, t.TempDir())
	settings.Set(defs.ChildServicesSetting, "false")

	svc, err := auth.NewFileService("memory", "admin", "c42-password")
	if err != nil {
		t.Fatalf("user service: %v", err)
	}

	auth.AuthService = svc
	MaxCachedEntries = 20

	worlds := verifh.N(5, 24)

	h.literals(sfx) // first: its services are the smallest failing inputs

	if sfx == "" {
		h.histories()
	} else {
		worlds = (worlds + 1) / 2
	}

	seq := 0

	for wi := 0; wi < worlds; wi++ {
		r := verifh.Rand(int64(4200 + wi))
		svcs := []c42Svc{}

		for k := 0; k < 1+r.Intn(3); k++ {
			svcs = append(svcs, c42GenSvc(r, fmt.Sprintf("w%ds%d", wi, k)))
		}

		if wi == 0 { // fixed corpus: one and two URL parts, long loop, helper
			svcs = []c42Svc{{Name: "w0s0", Vars: []string{"item"}, Loops: 400, Mult: 7, Helper: true},
				{Name: "w0s1", Vars: []string{"id", "name"}, Lit: true, Loops: 60, Mult: 5, Sleep: true},
				{Name: "w0s2", Loops: 2500, Mult: 11}}
		}

		w, err := c42NewWorld(t.TempDir(), svcs)
		if err != nil {
			t.Fatalf("world: %v", err)
		}

		// the "alone" world serves twins of the same services (same program, own name, so own
		// cache key) under its own router; its cache entry is deleted before every use
		twins := []c42Svc{}

		for _, s := range svcs {
			s.Name += "alone"
			twins = append(twins, s)
		}

		solo, err := c42NewWorld(t.TempDir(), twins)
		if err != nil {
			t.Fatalf("solo world: %v", err)
		}

		for round := 0; round < verifh.N(6, 14); round++ {
			n := []int{2, 3, 8, 16, 32}[r.Intn(5)]
			procs := []int{1, 4, 16}[r.Intn(3)]
			qs := []c42Req{}

			for i := 0; i < n; i++ {
				seq++
				q := c42GenReq(r, svcs, r.Intn(len(svcs)), fmt.Sprintf("M%dq", seq))

				switch r.Intn(12) {
				case 0:
					q.Fail = true // runtime error: the handler deletes the cache entry
				case 1, 2:
					if len(q.Vals) > 0 {
						q.Mut = "MUT" + q.Marker // the service assigns to its URL-part variable
					}
				}

				qs = append(qs, q)
			}

			if r.Intn(3) == 0 {
				FlushServiceCache() // cold start: the first request of the route runs under the route lock
			}

			h.batch(w, solo, qs, procs, fmt.Sprintf("world=%d round=%d", wi, round))
			h.stats.Inc("batches")

			if len(h.stats.S) < 7 && (len(svcs[qs[0].Svc].Vars) > 0 || len(h.stats.S) == 0) {
				h.stats.Sample(map[string]any{"service": svcs[qs[0].Svc].pattern(), "batch": n, "gomaxprocs": procs, "first": qs[0].describe(svcs[qs[0].Svc])})
			}
		}

		// quiescent: whatever is cached now has served many requests; its constants must be those of a fresh compilation
		for _, s := range svcs {
			h.probe(w, s, fmt.Sprintf("world=%d after %d concurrent rounds || service:\n%s", wi, verifh.N(6, 14), s.source()))
		}
	}
}
