//go:build verif

package services

// C42 harness, part 3: serial histories for the correspondence with the Lean model.
//
// Each history takes a fresh endpoint (cold cache) and serves, one at a time through the real
// router + ServiceHandler, a generated sequence of requests (plain, assigning to the URL-part
// variable, failing at run time) and FlushServiceCache calls.  After every operation the line
//   seen=<URL-part variables the service code read> user=<_user it read> cache=<state of
//   ServiceCache[endpoint]: none | nil (entry without saved table) | URL-part symbols of the saved table>
// is recorded; the Lean driver replays the same operations on the model (begin, find, load, run,
// finish per request) and must print the same line.  The cache column is read from the real
// ServiceCache entry (in-package access), so the model's cache state is tied too.

import (
	"fmt"
	"strings"

	"github.com/tucats/ego/internal/defs"
	"github.com/tucats/ego/internal/language/data"
	"github.com/tucats/ego/internal/verifh"
)

func (h *c42Run) cacheColumn(s c42Svc) string {
	serviceCacheMutex.Lock()
	defer serviceCacheMutex.Unlock()

	e, ok := ServiceCache[s.pattern()]
	if !ok {
		return "cache=none"
	}

	if e.s == nil {
		return "cache=nil"
	}

	if len(s.Vars) == 0 {
		return "cache=-"
	}

	vals := []string{}

	for _, v := range s.Vars {
		x, found := e.s.Get(v)
		if !found {
			vals = append(vals, "UNSET")
		} else {
			vals = append(vals, verifh.Hex(data.String(x)))
		}
	}

	return "cache=" + strings.Join(vals, ",")
}

// cachedTableShape checks the assumption the model makes about the table saved in the cache: the
// only mergeable (non-"_") symbols that hold DATA are the URL parts of the route; everything else
// is a package, a type or a function. A new request-specific symbol without the "_" prefix
// (which Merge would hand to every later request) is reported here, whatever the services echo.
func (h *c42Run) cachedTableShape(s c42Svc, input string) {
	serviceCacheMutex.Lock()
	defer serviceCacheMutex.Unlock()

	e, ok := ServiceCache[s.pattern()]
	if !ok || e.s == nil {
		return
	}

	parts := map[string]bool{}

	for _, seg := range strings.Split(strings.Trim(s.pattern(), "/"), "/") {
		parts[strings.TrimSuffix(strings.TrimPrefix(seg, "{{"), "}}")] = true
	}

	for _, name := range e.s.Names() {
		if strings.HasPrefix(name, defs.ReadonlyVariablePrefix) || parts[name] {
			continue
		}

		h.stats.Inc("history.cached-symbols-checked")

		switch v, _ := e.s.Get(name); v.(type) {
		case string, bool, int, int32, int64, float64, byte, *data.Struct, *data.Map, *data.Array, []any, map[string]any:
			h.fail("cached-table-holds-request-data", "the symbol table saved in the service cache holds a mergeable data symbol that is not a URL part: "+name,
				input, fmt.Sprintf("%s = %v", name, data.String(v)), "only packages, types and functions")
		}
	}
}

// seenColumn extracts what the service code read from its own table: the v.<name> fields and _user.
func c42SeenColumn(s c42Svc, code int, body string) string {
	if code == 500 {
		return "seen=ERR"
	}

	fields := map[string]string{}

	for _, f := range strings.Split(body, "|") {
		if i := strings.Index(f, "="); i > 0 {
			fields[f[:i]] = f[i+1:]
		}
	}

	vals := []string{}
	for _, v := range s.Vars {
		vals = append(vals, verifh.Hex(fields["v."+v]))
	}

	col := "-"
	if len(vals) > 0 {
		col = strings.Join(vals, ",")
	}

	return "seen=" + col + " user=" + verifh.Hex(fields["_user"])
}

func (h *c42Run) histories() {
	n := verifh.N(14, 60)
	seq := 0

	for hi := 0; hi < n; hi++ {
		r := verifh.Rand(int64(4290000 + hi))
		s := c42GenSvc(r, fmt.Sprintf("h%d", hi))
		s.Loops, s.Sleep = 5, false

		if hi < 3 { // fixed corpus: one, two and zero URL parts
			s.Vars = [][]string{{"item"}, {"id", "name"}, {}}[hi]
		}

		caching := hi%5 != 4
		if caching {
			MaxCachedEntries = 20
		} else {
			MaxCachedEntries = 0
		}

		w, err := c42NewWorld(h.t.TempDir(), []c42Svc{s})
		if err != nil {
			h.t.Fatalf("history world: %v", err)
		}

		c := "0"
		if caching {
			c = "1"
		}

		prev := []string{}

		h.cases.Write(verifh.Case{In: "route " + c + " " + strings.Join(s.Vars, " "), Impl: "ok", Desc: s.pattern()})

		for step := 0; step < 4+r.Intn(9); step++ {
			if step > 0 && r.Intn(6) == 0 {
				FlushServiceCache()
				h.cases.Write(verifh.Case{In: "flush", Impl: h.cacheColumn(s), Desc: s.pattern()})
				h.stats.Inc("history.flush")

				continue
			}

			seq++
			q := c42GenReq(r, w.Svcs, 0, fmt.Sprintf("H%dq", seq))
			nw := 0
			wr := ""

			switch r.Intn(5) {
			case 0:
				q.Fail = true
			case 1, 2:
				if len(q.Vals) > 0 {
					q.Mut = "MUT" + q.Marker
					nw = 1
					wr = " " + s.Vars[0] + " " + verifh.Hex(q.Mut)
				}
			}

			code, body, _ := w.serve(q)
			body = strings.TrimSuffix(body, "\n")

			fl := "0"
			if q.Fail {
				fl = "1"
			}

			in := fmt.Sprintf("req %d %s %s %s %d%s", seq, verifh.Hex(q.User), q.Method, fl, nw, wr)
			for _, v := range q.Vals {
				in += " " + verifh.Hex(v)
			}

			h.cases.Write(verifh.Case{In: in, Impl: c42SeenColumn(s, code, body) + " " + h.cacheColumn(s), Desc: q.describe(s)})
			h.stats.Inc("history.requests")
			h.cachedTableShape(s, q.describe(s))
			h.distinct[fmt.Sprintf("hist|%d|%v|%v|%v|%v", len(s.Vars), caching, q.Fail, q.Mut != "", strings.SplitN(h.cacheColumn(s)+"=", "=", 3)[1] == "none")] = true

			// the direct oracle applies to serial service too
			if !q.Fail {
				wc, wb := c42Expect(s, q)
				if code != wc || c42Head(body) != wb {
					h.fail(c42Classify(c42Head(body), wb, prev), "response of a request served alone (warm cache) differs from the reference computed from the request",
						fmt.Sprintf("history=%d step=%d %s || service:\n%s", hi, step, q.describe(s), s.source()), fmt.Sprintf("%d %s", code, body), fmt.Sprintf("%d %s", wc, wb))
				}
			}

			prev = append(prev, q.Marker)
		}
	}

	MaxCachedEntries = 20
}
