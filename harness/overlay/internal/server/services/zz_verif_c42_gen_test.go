//go:build verif

package services

// C42 harness, part 1: generated stateless services, the requests sent to them, and the Go-side
// reference ("what this request must get back, computed from the request alone").

import (
	"encoding/json"
	"fmt"
	"math/rand"
	"net/http"
	"net/http/httptest"
	"net/url"
	"os"
	"path/filepath"
	"strings"

	"github.com/tucats/ego/internal/caches"
	"github.com/tucats/ego/internal/language/tokens"
	"github.com/tucats/ego/internal/router"
)

// c42Svc describes one generated service. Everything it answers is a function of the request.
type c42Svc struct {
	Name   string     // file name and first path segment after /services/c42/
	Vars   []string   // URL-part variable names, in path order
	Lit    bool       // a literal segment sits between the variable segments
	Loops  int        // iterations of the local accumulation loop
	Mult   int        // multiplier used in the loop
	Helper bool       // the loop lives in a helper function
	Sleep  bool       // the handler sleeps a little between reading and echoing its inputs
	Blocks []c42Block // values built from struct/map/array literals with optional members (zz_verif_c42_lit_test.go)
}

func (s c42Svc) pattern() string {
	p := "/services/c42/" + s.Name
	for i, v := range s.Vars {
		if i > 0 && s.Lit {
			p += "/lit"
		}

		p += "/{{" + v + "}}"
	}

	return p
}

// source renders the Ego program. Local names (acc, rep, box, hits, …) are the same in every
// service and request, so a shared table would show up as a wrong value.
func (s c42Svc) source() string {
	b := &strings.Builder{}
	fmt.Fprintf(b, "@endpoint path=%q parameter=\"a:string\",\"b:string\",\"fail:string\",\"mut:string\"\n\n", s.pattern())
	b.WriteString("import \"http\"\nimport \"fmt\"\nimport \"time\"\n")

	if len(s.Blocks) > 0 {
		b.WriteString("import \"json\"\n")
	}

	b.WriteString("\nvar hits = 0\n\n")

	for k, blk := range s.Blocks {
		b.WriteString(blk.top(k))
	}

	loop := fmt.Sprintf("    acc := seed\n    for i := 0; i < %d; i = i + 1 {\n        acc = (acc*%d + n + i) %% 1000003\n    }\n", s.Loops, s.Mult)
	if s.Helper {
		b.WriteString("func churn(seed int, n int) int {\n" + loop + "    return acc\n}\n\n")
	}

	b.WriteString("func handler(req http.Request, w *http.ResponseWriter) {\n")
	b.WriteString("    hits = hits + 1\n    a := \"\"\n    if len(req.Parameters[\"a\"]) > 0 {\n        a = fmt.Sprintf(\"%v\", req.Parameters[\"a\"][0])\n    }\n")
	b.WriteString("    bp := \"\"\n    if len(req.Parameters[\"b\"]) > 0 {\n        bp = fmt.Sprintf(\"%v\", req.Parameters[\"b\"][0])\n    }\n")
	b.WriteString("    body := req.Body\n    who := req.Username\n    box := map[string]string{}\n    box[\"a\"] = a\n    box[\"who\"] = who\n")
	b.WriteString("    out := \"\"\n")

	for _, v := range s.Vars {
		fmt.Fprintf(b, "    out = out + fmt.Sprintf(\"v.%s=%%v|p.%s=%%v|\", %s, req.URL.Parts[%q])\n", v, v, v, v)
	}

	b.WriteString("    seed := len(body)\n    n := len(a)\n")

	if s.Helper {
		b.WriteString("    acc := churn(seed, n)\n")
	} else {
		b.WriteString(loop)
	}

	if s.Sleep {
		b.WriteString("    nap, _ := time.ParseDuration(\"2ms\")\n    time.Sleep(nap)\n")
	}

	b.WriteString("    rep := \"\"\n    for j := 0; j < 3; j = j + 1 {\n        rep = rep + a\n    }\n")

	// the literal blocks run before the point where a failing request fails: what they build must
	// not outlive the request either way
	for k, blk := range s.Blocks {
		b.WriteString(blk.body(k))
	}
	b.WriteString("    if len(req.Parameters[\"fail\"]) > 0 {\n        zero := 0\n        acc = acc / zero\n    }\n")
	b.WriteString("    out = out + fmt.Sprintf(\"a=%s|b=%s|box=%s/%s|user=%s|_user=%s|body=%s|acc=%d|rep=%s|hits=%d|method=%s|auth=%v\", a, bp, box[\"a\"], box[\"who\"], who, _user, body, acc, rep, hits, req.Method, req.Authenticated)\n")

	// every block's value as JSON (compared with the reference), then, after "|#|", the same values
	// as the formatter prints them (compared only with the same request served alone)
	for k := range s.Blocks {
		fmt.Fprintf(b, "    j%d, _ := json.Marshal(L%d)\n    out = out + \"|L%d=\" + string(j%d)\n", k, k, k, k)
	}

	if len(s.Blocks) > 0 {
		b.WriteString("    out = out + \"|#\"\n")
	}

	for k := range s.Blocks {
		fmt.Fprintf(b, "    out = out + fmt.Sprintf(\"|F%d=%%v\", L%d)\n", k, k)
	}

	if len(s.Vars) > 0 {
		fmt.Fprintf(b, "    if len(req.Parameters[\"mut\"]) > 0 {\n        %s = fmt.Sprintf(\"%%v\", req.Parameters[\"mut\"][0])\n    }\n", s.Vars[0])
	}

	b.WriteString("    w.Header().Add(\"X-C42\", a)\n    w.WriteHeader(200 + n % 7)\n    w.Write(out)\n}\n")

	return b.String()
}

// c42Req is one request; Marker is unique within a run and is embedded in every input field.
type c42Req struct {
	Svc    int
	Marker string
	Vals   []string
	A, B   string
	User   string
	Body   string
	Method string
	Fail   bool
	Mut    string
}

func (q c42Req) describe(s c42Svc) string {
	return fmt.Sprintf("%s %s vals=%v a=%s b=%s user=%s body=%s fail=%v mut=%s", q.Method, s.pattern(), q.Vals, q.A, q.B, q.User, q.Body, q.Fail, q.Mut)
}

// c42Head is the part of a response body the reference describes: everything before the "|#"
// separator (after it the literal blocks are printed once more by Ego's own formatter, whose
// text the reference does not predict; that part is compared with the request served alone).
func c42Head(body string) string {
	if i := strings.Index(body, "|#"); i >= 0 {
		body = body[:i]
	}

	if !strings.Contains(body, "|L") {
		return body
	}

	// the L<k>=<json> fields: Ego's json.Marshal writes the keys of some objects sorted and of
	// others in insertion order; the reference is about the VALUE, so re-encode it canonically
	fields := strings.Split(body, "|")

	for i, f := range fields {
		j := strings.Index(f, "=")
		if j < 2 || f[0] != 'L' || f[1] < '0' || f[1] > '9' {
			continue
		}

		var v any

		if json.Unmarshal([]byte(f[j+1:]), &v) == nil {
			text, _ := json.Marshal(v)
			fields[i] = f[:j+1] + string(text)
		}
	}

	return strings.Join(fields, "|")
}

// c42Expect is the reference: the body (up to "|#") and status the service must produce for q (no fail).
func c42Expect(s c42Svc, q c42Req) (int, string) {
	out := ""
	for i, v := range s.Vars {
		out += fmt.Sprintf("v.%s=%s|p.%s=%s|", v, q.Vals[i], v, q.Vals[i])
	}

	acc := len(q.Body)
	n := len(q.A)

	for i := 0; i < s.Loops; i++ {
		acc = (acc*s.Mult + n + i) % 1000003
	}

	out += fmt.Sprintf("a=%s|b=%s|box=%s/%s|user=%s|_user=%s|body=%s|acc=%d|rep=%s|hits=1|method=%s|auth=true",
		q.A, q.B, q.A, q.User, q.User, q.User, q.Body, acc, q.A+q.A+q.A, q.Method)

	for k, blk := range s.Blocks {
		out += fmt.Sprintf("|L%d=%s", k, blk.expect(q))
	}

	return 200 + n%7, out
}

func c42GenSvc(r *rand.Rand, name string) c42Svc {
	names := []string{"item", "id", "name", "key", "user", "slug", "kind", "ref", "part", "value"} // none collides with a local of the handler
	nv := []int{1, 1, 2, 2, 0, 3}[r.Intn(6)]
	vars := []string{}

	for _, i := range r.Perm(len(names))[:nv] {
		vars = append(vars, names[i])
	}

	s := c42Svc{Name: name, Vars: vars, Lit: r.Intn(3) == 0, Loops: []int{0, 5, 60, 400, 2500}[r.Intn(5)],
		Mult: 3 + r.Intn(90), Helper: r.Intn(2) == 0, Sleep: r.Intn(4) == 0}

	for k := []int{0, 1, 1, 2, 3}[r.Intn(5)]; k > 0; k-- {
		s.Blocks = append(s.Blocks, c42GenBlock(r))
	}

	return s
}

func c42GenReq(r *rand.Rand, svcs []c42Svc, svc int, marker string) c42Req {
	pad := func(tag string) string { return tag + marker + strings.Repeat("x", r.Intn(9)) }
	q := c42Req{Svc: svc, Marker: marker, A: pad("A"), B: pad("B"), User: strings.ToLower("u" + marker),
		Body: pad("BODY"), Method: []string{"GET", "POST", "PUT", "POST"}[r.Intn(4)]}

	for range svcs[svc].Vars {
		q.Vals = append(q.Vals, pad("V"))
	}

	// the optional members of the literal blocks are set from the body and from b: leave each out
	// in a third of the requests, so that requests that set them are followed by requests that do not
	if r.Intn(3) == 0 || (q.Method == "GET" && r.Intn(2) == 0) {
		q.Body = ""
	}

	if r.Intn(3) == 0 {
		q.B = ""
	}

	return q
}

// c42World is a router serving generated services from a scratch directory.
type c42World struct {
	Dir  string
	Svcs []c42Svc
	R    *router.Router
}

func c42NewWorld(dir string, svcs []c42Svc) (*c42World, error) {
	root := filepath.Join(dir, "services", "c42")
	if err := os.MkdirAll(root, 0o755); err != nil {
		return nil, err
	}

	for _, s := range svcs {
		if err := os.WriteFile(filepath.Join(root, s.Name+".ego"), []byte(s.source()), 0o644); err != nil {
			return nil, err
		}
	}

	w := &c42World{Dir: dir, Svcs: svcs, R: router.NewRouter("c42")}

	return w, DefineLibHandlers(w.R, dir, "services")
}

func (w *c42World) url(q c42Req) string {
	s := w.Svcs[q.Svc]
	p := "/services/c42/" + s.Name

	for i, v := range q.Vals {
		if i > 0 && s.Lit {
			p += "/lit"
		}

		p += "/" + url.PathEscape(v)
	}

	qs := url.Values{}
	qs.Set("a", q.A)
	qs.Set("b", q.B)

	if q.Fail {
		qs.Set("fail", "1")
	}

	if q.Mut != "" {
		qs.Set("mut", q.Mut)
	}

	return p + "?" + qs.Encode()
}

// serve sends q through the real router and ServiceHandler, authenticated as q.User.
func (w *c42World) serve(q c42Req) (int, string, http.Header) {
	tok := "c42tok-" + q.User
	caches.Add(caches.TokenCache, tok, &tokens.Token{Name: q.User})

	// the token cache silently refuses new entries once it is full: do not let tokens pile up
	defer caches.Delete(caches.TokenCache, tok)

	req := httptest.NewRequest(q.Method, w.url(q), strings.NewReader(q.Body))
	req.Header.Set("Authorization", "Bearer "+tok)

	rec := httptest.NewRecorder()
	w.R.ServeHTTP(rec, req)

	return rec.Code, rec.Body.String(), rec.Header()
}
