//go:build verif

package services

// C42 harness, part 4: values built from LITERALS with optional members, and the constants of the
// cached bytecode.
//
// A literal in a service is compiled once and the compilation is shared by every request served
// from the service cache. A request builds its reply by starting from a literal (`{}`, `{who: a,
// opt: {}}`, `map[string]string{}`, `[]string{"-", "-"}`, a typed `Rec{}`, …) and adding members —
// some of them only when the request has a body / a `b` parameter. If what the literal yields is
// not private to the request, a later request that does NOT set an optional member answers with
// the member an earlier request left behind.
//
//   - c42Block: one such value inside a generated service (source + Go reference as JSON); the
//     world services of part 2 and the history services of part 3 carry 0-3 random blocks;
//   - literals(): one service per block kind plus mixed services, each served from ONE cached
//     compilation: a serial sequence in which requests that set every optional member are followed
//     by requests that set none / some (also after a request that fails at run time), then the
//     same mix concurrently; every answer is checked by the three oracles of part 2 (reference,
//     same request alone on a cold cache, no foreign marker);
//   - probe(): the constants embedded in the cached bytecode (operands of every instruction,
//     function bodies included) must still equal those of a fresh compilation of the same file.

import (
	"encoding/json"
	"fmt"
	"math/rand"
	"net/http"
	"path/filepath"
	"reflect"
	"sort"
	"strings"

	"github.com/tucats/ego/internal/language/bytecode"
	"github.com/tucats/ego/internal/language/data"
	"github.com/tucats/ego/internal/language/symbols"
	"github.com/tucats/ego/internal/router"
	"github.com/tucats/ego/internal/verifh"
)

const (
	c42KEmptyStruct   = iota // L := {}                       members added by name
	c42KNestedStruct         // L := {who: a, opt: {}}         optional members added to L.opt
	c42KEmptyMap             // L := map[string]string{}
	c42KPartialMap           // L := map[string]string{"kind": "fixed"}
	c42KEmptyArray           // L := []string{}                elements appended
	c42KPartialArray         // L := []string{"-", "-", "-"}   elements overwritten
	c42KStructsInLoop        // three `e := {}` of one literal, appended to []any{}
	c42KMapOfStruct          // map[string]any{} holding a struct built from {}
	c42KTypedStruct          // L := C42Rec<k>{}
	c42KHelperStruct         // L := mk<k>(a, body, bp), the helper starts from {}
	c42KCopiedStruct         // base := {} ; L := base ; base must stay empty
	c42KArgStruct            // L := grow<k>(C42Arg<k>{}, …): an empty typed literal passed as an argument
	c42Kinds                 // the kinds above are the ones c42GenBlock draws from

	// `{}` stored straight into a map / array element and then changed THROUGH the element. On the
	// code as found this writes into the constant of the compiled literal (known finding, see
	// c42ElementClass); these kinds only occur in dedicated services.
	c42KMapElement   = c42Kinds     // L := map[string]any{} ; L["r"] = {} ; L["r"].note = body
	c42KArrayElement = c42Kinds + 1 // L := []any{ {} } ; L[0].note = body
)

// c42ElementClass is the class of every failure of a service that consists of element blocks only.
const c42ElementClass = "empty-struct-literal-stored-in-element-is-the-compiled-constant"

func c42ElementOnly(s c42Svc) bool {
	for _, b := range s.Blocks {
		if b.Kind < c42Kinds {
			return false
		}
	}

	return len(s.Blocks) > 0
}

var c42KindNames = []string{"empty-struct", "nested-struct", "empty-map", "partial-map", "empty-array", "partial-array",
	"structs-in-loop", "map-of-struct", "typed-struct", "helper-struct", "copied-struct", "argument-struct",
	"map-element-struct", "array-element-struct"}

// c42Block is one value built from a literal. The optional members are "note" (the body, when the
// request has one) and "tag" (parameter b, when it is not empty).
type c42Block struct {
	Kind   int
	Var    bool // `var L any` + `L = <literal>` instead of `L := <literal>` (struct kinds)
	Always bool // an unconditional member ("who": parameter a) is set too
}

func c42GenBlock(r *rand.Rand) c42Block {
	return c42Block{Kind: r.Intn(c42Kinds), Var: r.Intn(3) == 0, Always: r.Intn(4) != 0}
}

func (b c42Block) name() string {
	return fmt.Sprintf("%s(var=%v,always=%v)", c42KindNames[b.Kind], b.Var, b.Always)
}

// top is what the block declares at package level of the service.
func (b c42Block) top(k int) string {
	switch b.Kind {
	case c42KTypedStruct:
		return fmt.Sprintf("type C42Rec%d struct {\n    who string\n    note string\n    tags []string\n}\n\n", k)

	case c42KHelperStruct:
		return fmt.Sprintf("func mk%d(pa string, pn string, pt string) any {\n    r := {}\n%s    if pn != \"\" {\n        r.note = pn\n    }\n    if pt != \"\" {\n        r.tag = pt\n    }\n    return r\n}\n\n",
			k, b.always("    r.who = pa\n"))

	case c42KArgStruct:
		return fmt.Sprintf("type C42Arg%d struct {\n    who string\n    note string\n    tag string\n}\n\n"+
			"func grow%d(r C42Arg%d, pa string, pn string, pt string) C42Arg%d {\n%s    if pn != \"\" {\n        r.note = pn\n    }\n    if pt != \"\" {\n        r.tag = pt\n    }\n    return r\n}\n\n",
			k, k, k, k, b.always("    r.who = pa\n"))
	}

	return ""
}

func (b c42Block) always(text string) string {
	if b.Always {
		return text
	}

	return ""
}

// decl renders `name := lit` or `var name any` + `name = lit`.
func (b c42Block) decl(name, lit string) string {
	if b.Var {
		return fmt.Sprintf("    var %s any\n    %s = %s\n", name, name, lit)
	}

	return fmt.Sprintf("    %s := %s\n", name, lit)
}

// body is the block's statements inside the handler; a, bp and body are the handler's locals.
func (b c42Block) body(k int) string {
	L := fmt.Sprintf("L%d", k)
	opt := func(note, tag string) string {
		return "    if body != \"\" {\n        " + note + "\n    }\n    if bp != \"\" {\n        " + tag + "\n    }\n"
	}

	switch b.Kind {
	case c42KEmptyStruct:
		return b.decl(L, "{}") + b.always("    "+L+".who = a\n") + opt(L+".note = body", L+".tag = bp")

	case c42KNestedStruct:
		return b.decl(L, "{who: a, opt: {}}") + b.always("    "+L+".opt.who = a\n") + opt(L+".opt.note = body", L+".opt.tag = bp")

	case c42KEmptyMap:
		return "    " + L + " := map[string]string{}\n" + b.always("    "+L+"[\"who\"] = a\n") + opt(L+"[\"note\"] = body", L+"[\"tag\"] = bp")

	case c42KPartialMap:
		return "    " + L + " := map[string]string{\"kind\": \"fixed\"}\n" + b.always("    "+L+"[\"who\"] = a\n") + opt(L+"[\"note\"] = body", L+"[\"tag\"] = bp")

	case c42KEmptyArray:
		return "    " + L + " := []string{}\n" + b.always("    "+L+" = append("+L+", a)\n") + opt(L+" = append("+L+", body)", L+" = append("+L+", bp)")

	case c42KPartialArray:
		return "    " + L + " := []string{\"-\", \"-\", \"-\"}\n" + b.always("    "+L+"[0] = a\n") + opt(L+"[1] = body", L+"[2] = bp")

	case c42KStructsInLoop:
		e := fmt.Sprintf("e%d", k)

		return "    " + L + " := []any{}\n    for i := 0; i < 3; i = i + 1 {\n" + strings.ReplaceAll(b.decl(e, "{}"), "    ", "        ") +
			"        " + e + ".i = i\n" + b.always("        "+e+".who = a\n") +
			"        if i == 0 && body != \"\" {\n            " + e + ".note = body\n        }\n" +
			"        if i == 1 && bp != \"\" {\n            " + e + ".tag = bp\n        }\n" +
			"        " + L + " = append(" + L + ", " + e + ")\n    }\n"

	case c42KMapOfStruct:
		in := fmt.Sprintf("in%d", k)

		return b.decl(in, "{}") + "    if body != \"\" {\n        " + in + ".note = body\n    }\n" +
			"    " + L + " := map[string]any{}\n" + b.always("    "+L+"[\"who\"] = a\n") + "    " + L + "[\"inner\"] = " + in + "\n" +
			"    if bp != \"\" {\n        " + L + "[\"tag\"] = bp\n    }\n"

	case c42KTypedStruct:
		return fmt.Sprintf("    %s := C42Rec%d{}\n", L, k) + b.always("    "+L+".who = a\n") + opt(L+".note = body", L+".tags = append("+L+".tags, bp)")

	case c42KHelperStruct:
		return b.decl(L, fmt.Sprintf("mk%d(a, body, bp)", k))

	case c42KCopiedStruct:
		base := fmt.Sprintf("base%d", k)
		cp := fmt.Sprintf("cp%d", k)

		return b.decl(base, "{}") + b.decl(cp, base) + b.always("    "+cp+".who = a\n") + opt(cp+".note = body", cp+".tag = bp") +
			"    " + L + " := map[string]any{}\n    " + L + "[\"base\"] = " + base + "\n    " + L + "[\"copy\"] = " + cp + "\n"

	case c42KArgStruct:
		return b.decl(L, fmt.Sprintf("grow%d(C42Arg%d{}, a, body, bp)", k, k))

	case c42KMapElement:
		return "    " + L + " := map[string]any{}\n    " + L + "[\"r\"] = {}\n" + b.always("    "+L+"[\"r\"].who = a\n") + opt(L+"[\"r\"].note = body", L+"[\"r\"].tag = bp")

	case c42KArrayElement:
		return "    " + L + " := []any{ {} }\n" + b.always("    "+L+"[0].who = a\n") + opt(L+"[0].note = body", L+"[0].tag = bp")
	}

	return ""
}

// expect is the block's value for request q as JSON (object keys sorted, as json.Marshal of Ego
// prints them too).
func (b c42Block) expect(q c42Req) string {
	members := func() map[string]any {
		m := map[string]any{}
		if b.Always {
			m["who"] = q.A
		}

		if q.Body != "" {
			m["note"] = q.Body
		}

		if q.B != "" {
			m["tag"] = q.B
		}

		return m
	}

	var v any

	switch b.Kind {
	case c42KEmptyStruct, c42KEmptyMap, c42KHelperStruct:
		v = members()

	case c42KArgStruct:
		m := map[string]any{"who": "", "note": q.Body, "tag": q.B}
		if b.Always {
			m["who"] = q.A
		}

		v = m

	case c42KMapElement:
		v = map[string]any{"r": members()}

	case c42KArrayElement:
		v = []any{members()}

	case c42KNestedStruct:
		v = map[string]any{"who": q.A, "opt": members()}

	case c42KPartialMap:
		m := members()
		m["kind"] = "fixed"
		v = m

	case c42KEmptyArray:
		a := []string{}
		if b.Always {
			a = append(a, q.A)
		}

		if q.Body != "" {
			a = append(a, q.Body)
		}

		if q.B != "" {
			a = append(a, q.B)
		}

		v = a

	case c42KPartialArray:
		a := []string{"-", "-", "-"}
		if b.Always {
			a[0] = q.A
		}

		if q.Body != "" {
			a[1] = q.Body
		}

		if q.B != "" {
			a[2] = q.B
		}

		v = a

	case c42KStructsInLoop:
		a := []any{}

		for i := 0; i < 3; i++ {
			e := map[string]any{"i": i}
			if b.Always {
				e["who"] = q.A
			}

			if i == 0 && q.Body != "" {
				e["note"] = q.Body
			}

			if i == 1 && q.B != "" {
				e["tag"] = q.B
			}

			a = append(a, e)
		}

		v = a

	case c42KMapOfStruct:
		in := map[string]any{}
		if q.Body != "" {
			in["note"] = q.Body
		}

		m := map[string]any{"inner": in}
		if b.Always {
			m["who"] = q.A
		}

		if q.B != "" {
			m["tag"] = q.B
		}

		v = m

	case c42KTypedStruct:
		m := map[string]any{"who": "", "note": q.Body, "tags": []string{}}
		if b.Always {
			m["who"] = q.A
		}

		if q.B != "" {
			m["tags"] = []string{q.B}
		}

		v = m

	case c42KCopiedStruct:
		v = map[string]any{"base": map[string]any{}, "copy": members()}
	}

	text, _ := json.Marshal(v)

	return string(text)
}

// ---------------------------------------------------------------------------------------------
// the constants of the cached bytecode

// c42Consts lists every instruction operand of code (and of every bytecode reachable through an
// operand) in a canonical text form: one line per instruction that has an operand.
func c42Consts(code *bytecode.ByteCode) []string {
	lines := []string{}
	seen := map[*bytecode.ByteCode]bool{}

	var value func(v any, depth int) string

	var walk func(path string, b *bytecode.ByteCode)

	value = func(v any, depth int) string {
		if depth > 8 {
			return "…"
		}

		switch x := v.(type) {
		case nil:
			return "nil"

		case *bytecode.ByteCode:
			if x == nil {
				return "bytecode(nil)"
			}

			walk(x.Name(), x)

			return "bytecode(" + x.Name() + ")"

		case data.Function:
			return "func{" + value(x.Value, depth+1) + "}"

		case *data.Struct:
			if x == nil {
				return "struct(nil)"
			}

			names := x.FieldNames(true)
			sort.Strings(names)

			parts := []string{}

			for _, n := range names {
				f, _ := x.Get(n)
				parts = append(parts, n+":"+value(f, depth+1))
			}

			return "struct{" + strings.Join(parts, ",") + "}"

		case *data.Map:
			if x == nil {
				return "map(nil)"
			}

			parts := []string{}

			for _, k := range x.Keys() {
				e, _, _ := x.Get(k)
				parts = append(parts, value(k, depth+1)+":"+value(e, depth+1))
			}

			sort.Strings(parts)

			return "map{" + strings.Join(parts, ",") + "}"

		case *data.Array:
			if x == nil {
				return "array(nil)"
			}

			parts := []string{}

			for i := 0; i < x.Len(); i++ {
				e, _ := x.Get(i)
				parts = append(parts, value(e, depth+1))
			}

			return "array[" + strings.Join(parts, ",") + "]"

		case []any:
			parts := []string{}
			for _, e := range x {
				parts = append(parts, value(e, depth+1))
			}

			return "list[" + strings.Join(parts, ",") + "]"

		case string:
			return fmt.Sprintf("%q", x)

		case bool, int, int8, int16, int32, int64, uint8, uint16, uint32, uint64, float32, float64:
			return fmt.Sprintf("%T(%v)", x, x)

		case *data.Type:
			if x == nil {
				return "type(nil)"
			}

			return "type(" + x.String() + ")"

		case fmt.Stringer:
			if rv := reflect.ValueOf(v); rv.Kind() != reflect.Ptr && rv.Kind() != reflect.Func && rv.Kind() != reflect.Map && rv.Kind() != reflect.Chan {
				return fmt.Sprintf("%T(%s)", v, x.String())
			}
		}

		// anything else is identified by its Go type only (no addresses, no unordered text)
		return fmt.Sprintf("%T", v)
	}

	walk = func(path string, b *bytecode.ByteCode) {
		if b == nil || seen[b] {
			return
		}

		seen[b] = true

		for pc, ins := range b.Opcodes() {
			if ins.Operand == nil {
				continue
			}

			op := strings.SplitN(ins.String(), " ", 2)[0]
			lines = append(lines, fmt.Sprintf("%s@%d %s %s", path, pc, op, value(ins.Operand, 0)))
		}
	}

	walk(code.Name(), code)
	sort.Strings(lines)

	return lines
}

// probe compares the constants of the cached compilation of service s with those of a fresh
// compilation of the same file. It runs at quiescent points only (no request in flight).
func (h *c42Run) probe(w *c42World, s c42Svc, input string) {
	serviceCacheMutex.Lock()
	e := ServiceCache[s.pattern()]
	serviceCacheMutex.Unlock()

	if e == nil || e.b == nil {
		h.stats.Inc("probe.no-cache-entry")

		return
	}

	file := filepath.Join(w.Dir, "services", "c42", s.Name+".ego")

	fresh, _, err := compileAndCacheService(&router.Session{ID: -42}, s.pattern(), file, symbols.NewRootSymbolTable("c42 probe"))
	if err != nil || fresh == nil {
		h.t.Fatalf("probe: fresh compilation of %s failed: %v", file, err)
	}

	got, want := c42Consts(e.b), c42Consts(fresh)
	h.stats.Inc("probe.compilations-compared")
	h.stats.Add("probe.constants-compared", len(want))

	if len(want) < 10 {
		h.t.Fatalf("probe: only %d constants found in a fresh compilation of %s", len(want), file)
	}

	for i := 0; i < len(got) || i < len(want); i++ {
		g, x := "<missing>", "<missing>"
		if i < len(got) {
			g = got[i]
		}

		if i < len(want) {
			x = want[i]
		}

		if g != x {
			h.fail("cached-bytecode-constant-changed-by-a-request",
				"a constant embedded in the cached bytecode of a service differs from the same constant in a fresh compilation of the same file after requests were served",
				input, g, x)

			return
		}
	}
}

// ---------------------------------------------------------------------------------------------
// the literal sequences

// c42LitReq makes a request with / without the two optional inputs.
func c42LitReq(r *rand.Rand, svcs []c42Svc, svc int, marker string, body, b, fail bool) c42Req {
	q := c42GenReq(r, svcs, svc, marker)
	q.Body, q.B, q.Fail = "", "", fail

	if body {
		q.Body = "BODY" + marker
	}

	if b {
		q.B = "B" + marker
	}

	if q.Method == http.MethodGet && body {
		q.Method = http.MethodPost
	}

	return q
}

func (h *c42Run) literals(sfx string) {
	r := verifh.Rand(4270000)
	svcs := []c42Svc{}

	// fixed corpus: every kind once with `:=` and an unconditional member, then every kind with the
	// other declaration form / only optional members; then services mixing several blocks
	for k := 0; k < c42Kinds; k++ {
		svcs = append(svcs, c42Svc{Name: fmt.Sprintf("lit%d", k), Loops: 5, Mult: 7, Blocks: []c42Block{{Kind: k, Always: true}}})
	}

	for k := 0; k < c42Kinds; k++ {
		s := c42Svc{Name: fmt.Sprintf("litv%d", k), Loops: 5, Mult: 3, Blocks: []c42Block{{Kind: k, Var: k%2 == 0, Always: false}}}
		if k%3 == 0 {
			s.Vars = []string{"item"}
		}

		svcs = append(svcs, s)
	}

	svcs = append(svcs, c42Svc{Name: "lite0", Loops: 5, Mult: 7, Blocks: []c42Block{{Kind: c42KMapElement, Always: true}}},
		c42Svc{Name: "lite1", Loops: 5, Mult: 7, Blocks: []c42Block{{Kind: c42KArrayElement}, {Kind: c42KMapElement}}})

	for k := 0; k < verifh.N(4, 16); k++ {
		s := c42GenSvc(r, fmt.Sprintf("litm%d", k))
		s.Loops, s.Sleep, s.Blocks = 5, k%2 == 0, nil

		for j := 0; j < 2+r.Intn(3); j++ {
			s.Blocks = append(s.Blocks, c42GenBlock(r))
		}

		svcs = append(svcs, s)
	}

	if sfx != "" { // under the race detector: every second service
		half := []c42Svc{}

		for i, s := range svcs {
			if i%2 == 0 {
				half = append(half, s)
			}
		}

		svcs = half
	}

	w, err := c42NewWorld(h.t.TempDir(), svcs)
	if err != nil {
		h.t.Fatalf("literal world: %v", err)
	}

	twins := []c42Svc{}

	for _, s := range svcs {
		s.Name += "alone"
		twins = append(twins, s)
	}

	solo, err := c42NewWorld(h.t.TempDir(), twins)
	if err != nil {
		h.t.Fatalf("literal solo world: %v", err)
	}

	FlushServiceCache()

	seq := 0

	defer func() { h.class = "" }()

	for si, s := range svcs {
		kinds := []string{}
		for _, b := range s.Blocks {
			kinds = append(kinds, b.name())
		}

		// the class of a failure is decided by the service it happens in
		h.class = ""
		if c42ElementOnly(s) {
			h.class = c42ElementClass
		}

		// (body, b, fail) of the serial sequence: the first request compiles the service; every
		// later one runs the same cached compilation
		plan := [][3]bool{{true, true, false}, {false, false, false}, {true, false, false}, {false, true, false},
			{false, false, false}, {true, true, false}, {false, false, false}}

		if si%2 == 1 { // the compiling request sets nothing; a failing request sets everything
			plan = [][3]bool{{false, false, false}, {true, true, false}, {false, false, false}, {true, true, true}, {false, false, false}}
		}

		for n := r.Intn(3); n > 0; n-- {
			plan = append(plan, [3]bool{r.Intn(2) == 0, r.Intn(2) == 0, false})
		}

		history := []string{}
		prev := []string{}

		for step, p := range plan {
			seq++
			q := c42LitReq(r, svcs, si, fmt.Sprintf("L%dq", seq), p[0], p[1], p[2])
			history = append(history, fmt.Sprintf("[%d] %s", step, q.describe(s)))
			input := fmt.Sprintf("literals service=%s blocks=%v; requests served one at a time from one cached compilation:\n%s\n(checked: request [%d]) || service:\n%s",
				s.Name, kinds, strings.Join(history, "\n"), step, s.source())

			h.judge(w, solo, q, w.answer(q), prev, input, "serial")
			h.stats.Inc("requests.literal-serial")
			h.distinct[fmt.Sprintf("lit|%v|%d|%v", kinds, step, p)] = true

			if step == 0 || p[2] {
				h.probe(w, s, input)
			}

			prev = append(prev, q.Marker)

			if p[2] { // the failing run removed the cache entry: the next request compiles again
				h.stats.Inc("literal.recompiled-after-failure")
			}
		}

		h.probe(w, s, fmt.Sprintf("literals service=%s blocks=%v; after the serial sequence:\n%s || service:\n%s", s.Name, kinds, strings.Join(history, "\n"), s.source()))

		// the same mix concurrently, on the compilation that is already cached
		qs := []c42Req{}

		for i := 0; i < []int{4, 8, 12}[r.Intn(3)]; i++ {
			seq++
			qs = append(qs, c42LitReq(r, svcs, si, fmt.Sprintf("L%dq", seq), i%3 == 0, i%4 == 1, false))
		}

		h.batch(w, solo, qs, []int{1, 4, 16}[si%3], fmt.Sprintf("literals service=%s blocks=%v warm cache", s.Name, kinds))
		h.stats.Inc("batches")
		h.probe(w, s, fmt.Sprintf("literals service=%s blocks=%v; after the serial sequence and a concurrent batch:\n%s || service:\n%s", s.Name, kinds, strings.Join(history, "\n"), s.source()))

		if len(h.stats.S) < 3 && si%5 == 0 {
			h.stats.Sample(map[string]any{"literal-service": s.Name, "blocks": kinds, "sequence": history})
		}
	}
}
