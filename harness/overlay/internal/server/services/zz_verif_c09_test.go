//go:build verif

// C09 — finished executions leave nothing running: correspondence + oracle harness.
//
// In ONE process it runs many executions of every kind (Ego programs through
// bytecode.Context.Run, service requests through ServiceHandler, child-process helpers
// runChildProcess / runChildViaPipe) with every exit path (normal, runtime error, Ego
// panic, Go panic unwinding through nested native frames, os.Exit, comparator callbacks
// that fail, user goroutines that finish, block for a while, or never finish) and
//
//   - ORACLE (model free): after a bounded settle loop, no goroutine that did not exist
//     before the execution is alive, apart from the user goroutines the program itself
//     left blocked; runtime.NumGoroutine() is back at its baseline; leaked goroutines
//     are named by their creator frame (runtime.Stack(all) diff).
//   - CORRESPONDENCE: at every probe point inside the program and at the end, the live
//     goroutines per `go` site (keyed by the "created by" function) are compared with
//     the Lean lifecycle model fed with the same history (egodriver C09).
package services

import (
	"fmt"
	"net/http"
	"net/http/httptest"
	"os"
	"os/exec"
	"os/signal"
	"path/filepath"
	"regexp"
	"runtime"
	"sort"
	"strings"
	"sync"
	"syscall"
	"testing"
	"time"

	"github.com/tucats/ego/internal/builtins"
	"github.com/tucats/ego/internal/defs"
	"github.com/tucats/ego/internal/language/bytecode"
	"github.com/tucats/ego/internal/language/compiler"
	"github.com/tucats/ego/internal/language/data"
	"github.com/tucats/ego/internal/language/symbols"
	"github.com/tucats/ego/internal/language/tokenizer"
	"github.com/tucats/ego/internal/router"
	egorest "github.com/tucats/ego/internal/runtime/rest"
	"github.com/tucats/ego/internal/verifh"
)

// When the test binary is re-executed by runChildViaPipe as the "child service" process,
// behave like `ego --service pipe`: run the real child side and exit.
func init() {
	if os.Getenv(defs.EgoChildPipeAddrEnv) != "" && os.Getenv("VERIF_C09_CHILD") != "" {
		switch os.Getenv("VERIF_C09_CHILD") {
		case "hang":
			time.Sleep(30 * time.Second)
		case "silent":
		default:
			_ = ChildServicePipe()
		}
		os.Exit(0)
	}
}

const c09pkg = "github.com/tucats/ego/internal/"

// site tokens of the Lean driver, by "created by" function
var c09creators = []struct{ tok, fn string }{
	{"run", c09pkg + "language/bytecode.(*Context).RunFromAddress"},
	{"go", c09pkg + "language/bytecode.goByteCode"},
	{"rest", c09pkg + "runtime/rest.Exchange"},
	{"pipe", c09pkg + "server/services.runChildViaPipe"},
	{"proc", c09pkg + "server/services.runChildProcess"},
}

type c09g struct {
	id      int
	state   string
	creator string
	top     string
}

var (
	c09hdr     = regexp.MustCompile(`^goroutine (\d+) \[([^\],]*)`)
	c09created = regexp.MustCompile(`^created by (.+?)(?: in goroutine \d+)?$`)
)

// c09snapshot parses runtime.Stack(all).
func c09snapshot() map[int]c09g {
	buf := make([]byte, 1<<20)
	for {
		n := runtime.Stack(buf, true)
		if n < len(buf) {
			buf = buf[:n]
			break
		}
		buf = make([]byte, 2*len(buf))
	}
	res := map[int]c09g{}
	for _, blk := range strings.Split(string(buf), "\n\n") {
		lines := strings.Split(strings.TrimSpace(blk), "\n")
		m := c09hdr.FindStringSubmatch(lines[0])
		if m == nil {
			continue
		}
		g := c09g{state: m[2]}
		fmt.Sscanf(m[1], "%d", &g.id)
		if len(lines) > 1 {
			g.top = strings.TrimSpace(lines[1])
			if i := strings.LastIndexByte(g.top, '('); i > 0 {
				g.top = g.top[:i]
			}
		}
		for _, l := range lines {
			if c := c09created.FindStringSubmatch(l); c != nil {
				g.creator = c[1]
			}
		}
		res[g.id] = g
	}
	return res
}

func c09interp(creator string) bool {
	return strings.HasPrefix(creator, c09pkg+"language/bytecode.") ||
		strings.HasPrefix(creator, c09pkg+"runtime/") ||
		strings.HasPrefix(creator, c09pkg+"server/services.")
}

func c09blocked(state string) bool {
	switch state {
	case "running", "runnable", "syscall", "waiting", "copystack", "preempted", "dead":
		return false
	}
	return true
}

// c09new returns the goroutines not in `before`, once the interpreter-created ones among
// them are quiescent (all blocked, same set twice in a row) — a model-free settle rule: a
// goroutine that was told to stop is runnable until it is gone, one that waits is blocked.
func c09new(before map[int]c09g) []c09g {
	var last string
	deadline := time.Now().Add(3 * time.Second)
	for i := 0; ; i++ {
		snap := c09snapshot()
		var fresh []c09g
		quiet := true
		var ids []string
		for id, g := range snap {
			if _, old := before[id]; old {
				continue
			}
			fresh = append(fresh, g)
			ids = append(ids, fmt.Sprint(id))
			// "running" is the goroutine taking the snapshot (a probing user goroutine is itself new)
			if g.state != "running" && !c09blocked(g.state) {
				quiet = false
			}
		}
		sort.Strings(ids)
		key := strings.Join(ids, ",")
		if (quiet && key == last) || time.Now().After(deadline) {
			sort.Slice(fresh, func(a, b int) bool { return fresh[a].id < fresh[b].id })
			return fresh
		}
		if quiet {
			last = key
		} else {
			last = "\x00"
		}
		runtime.Gosched()
		time.Sleep(time.Duration(20+10*i) * time.Microsecond)
	}
}

// c09counts renders per-site counts exactly like the Lean driver's showCounts.
func c09counts(gs []c09g) string {
	var parts []string
	for _, c := range c09creators {
		n := 0
		for _, g := range gs {
			if g.creator == c.fn {
				n++
			}
		}
		if n > 0 {
			parts = append(parts, fmt.Sprintf("%s=%d", c.tok, n))
		}
	}
	if len(parts) == 0 {
		return "-"
	}
	return strings.Join(parts, ",")
}

// per-case state shared with the native functions the generated programs call
var c09cur struct {
	mu     sync.Mutex
	before map[int]c09g
	obs    []string
	cnt    map[int]int
}

func c09probe(_ *symbols.SymbolTable, _ data.List) (any, error) {
	c09cur.mu.Lock()
	before := c09cur.before
	c09cur.mu.Unlock()
	o := c09counts(c09new(before))
	c09cur.mu.Lock()
	c09cur.obs = append(c09cur.obs, o)
	c09cur.mu.Unlock()
	return 0, nil
}

func c09count(_ *symbols.SymbolTable, args data.List) (any, error) {
	id, _ := data.Int(args.Get(0))
	c09cur.mu.Lock()
	c09cur.cnt[id]++
	k := c09cur.cnt[id]
	c09cur.mu.Unlock()
	return k, nil
}

func c09gopanic(_ *symbols.SymbolTable, _ data.List) (any, error) {
	panic("c09 native panic")
}

var _ = []any{http.MethodGet, httptest.NewRecorder, exec.Command, signal.Notify, filepath.Join, testing.Short,
	bytecode.NewContext, compiler.New, tokenizer.New, router.PathRoot, verifh.Seed}

// ---------------------------------------------------------------- generated histories

type c09node struct {
	kind      string     // probe | stmt | cb | go | gostuck | goerr | abort
	fnv       string     // cb: slice | stable | search
	n         int        // cb: array length / search range
	failAt    int        // cb: invocation number that raises a runtime error (0 = none)
	failFirst bool       // cb: fail before (true) or after (false) the body
	abort     string     // abort: error | panic | gopanic | exit
	during    []*c09node // go: what the launching thread does while the goroutine is alive
	kids      []*c09node // cb: comparator body; go/gostuck: the goroutine's own body
	id        int
}

// number of comparator calls Go's sort makes for a constant-false comparator (computed, not assumed)
func c09cmpCount(fnv string, n int) int {
	c := 0
	switch fnv {
	case "slice":
		sort.Slice(make([]any, n), func(i, j int) bool { c++; return false })
	case "stable":
		sort.SliceStable(make([]any, n), func(i, j int) bool { c++; return false })
	case "search":
		sort.Search(n, func(i int) bool { c++; return false })
	case "string":
		c = 1
	}
	return c
}

type c09gen struct {
	r      interface{ Intn(int) int }
	nextID int
	budget int // bound on the total number of comparator invocations × nesting
}

// gen builds a statement list. depth = callback nesting; inGo = inside a user goroutine's body or
// while one is alive (no aborts there); top = main body (Ego-level aborts allowed).
func (g *c09gen) gen(depth int, inGo bool, top bool, weight int) []*c09node {
	var out []*c09node
	n := 1 + g.r.Intn(3)
	for i := 0; i < n; i++ {
		g.nextID++
		id := g.nextID
		switch k := g.r.Intn(20); {
		case k < 5:
			out = append(out, &c09node{kind: "probe", id: id})
		case k < 7:
			out = append(out, &c09node{kind: "stmt", id: id})
		case k < 13 && depth < 3:
			fnv := []string{"slice", "slice", "stable", "search", "string"}[g.r.Intn(5)]
			sz := 2 + g.r.Intn(4)
			if fnv == "search" {
				sz = 1 + g.r.Intn(12)
			}
			calls := c09cmpCount(fnv, sz)
			if calls == 0 || weight*calls > g.budget {
				out = append(out, &c09node{kind: "probe", id: id})
				continue
			}
			nd := &c09node{kind: "cb", fnv: fnv, n: sz, id: id, failFirst: g.r.Intn(2) == 0}
			if g.r.Intn(3) == 0 {
				nd.failAt = 1 + g.r.Intn(calls*weight)
			}
			if g.r.Intn(3) > 0 {
				nd.kids = g.gen(depth+1, inGo, false, weight*calls)
			}
			out = append(out, nd)
		case k < 16 && weight <= 4:
			nd := &c09node{kind: "go", id: id}
			if g.r.Intn(2) == 0 {
				nd.during = g.gen(depth, true, false, weight)
			}
			if g.r.Intn(2) == 0 {
				nd.kids = g.gen(depth, true, false, weight)
			}
			out = append(out, nd)
		case k == 16 && weight == 1 && g.r.Intn(3) == 0:
			nd := &c09node{kind: "gostuck", id: id}
			if g.r.Intn(2) == 0 {
				nd.kids = g.gen(depth, true, false, weight)
			}
			out = append(out, nd)
		case k == 17 && !inGo && weight <= 6:
			kinds := []string{"gopanic"}
			if top {
				kinds = []string{"gopanic", "error", "panic", "exit", "goerr"}
			}
			a := kinds[g.r.Intn(len(kinds))]
			if a == "goerr" {
				out = append(out, &c09node{kind: "goerr", id: id})
			} else {
				out = append(out, &c09node{kind: "abort", abort: a, id: id})
			}
			return out // nothing runs after an abort
		default:
			out = append(out, &c09node{kind: "probe", id: id})
		}
	}
	return out
}

func c09hasAbort(ns []*c09node) bool {
	for _, n := range ns {
		if n.kind == "abort" || n.kind == "goerr" || c09hasAbort(n.kids) || c09hasAbort(n.during) {
			return true
		}
	}
	return false
}

// c09decls collects the package-level declarations (types with a String() method) of "string" callbacks.
var c09decls *strings.Builder

// render writes the Ego statements for a node list.
func c09render(b *strings.Builder, ns []*c09node, ind string) {
	for _, n := range ns {
		id := n.id
		if n.kind == "cb" && n.fnv == "string" {
			// fmt formats a value through its Ego String() method: one nested execution (runtime/fmt/print.go)
			var m strings.Builder
			fmt.Fprintf(&m, "type T%d struct {\n    v int\n}\nfunc (t T%d) String() string {\n    k%d := verifcount(%d)\n", id, id, id, id)
			fail := fmt.Sprintf("    if k%d == %d {\n        z%d := 0\n        z%d = 1 / z%d\n    }\n", id, n.failAt, id, id, id)
			if n.failAt == 0 {
				fail = ""
			}
			if n.failFirst {
				m.WriteString(fail)
			}
			c09render(&m, n.kids, "    ")
			if !n.failFirst {
				m.WriteString(fail)
			}
			m.WriteString("    return \"s\"\n}\n")
			c09decls.WriteString(m.String())
			fmt.Fprintf(b, "%stry {\n%s    x%d := T%d{v: %d}\n%s    s%d := fmt.Sprint(x%d)\n%s} catch {\n%s}\n", ind, ind, id, id, id, ind, id, id, ind, ind)
			continue
		}
		switch n.kind {
		case "probe":
			fmt.Fprintf(b, "%sverifprobe()\n", ind)
		case "stmt":
			fmt.Fprintf(b, "%sq%d := %d + 1\n%sq%d = q%d * 2\n", ind, id, id, ind, id, id)
		case "abort":
			switch n.abort {
			case "error":
				fmt.Fprintf(b, "%sz%d := 0\n%sz%d = 1 / z%d\n", ind, id, ind, id, id)
			case "panic":
				fmt.Fprintf(b, "%spanic(\"c09 user panic\")\n", ind)
			case "gopanic":
				fmt.Fprintf(b, "%sverifgopanic()\n", ind)
			case "exit":
				fmt.Fprintf(b, "%sos.Exit(3)\n", ind)
			}
		case "cb":
			fail := fmt.Sprintf("%s        if k%d == %d {\n%s            z%d := 0\n%s            z%d = 1 / z%d\n%s        }\n",
				ind, id, n.failAt, ind, id, ind, id, id, ind)
			if n.failAt == 0 {
				fail = ""
			}
			fmt.Fprintf(b, "%stry {\n", ind)
			switch n.fnv {
			case "slice", "stable":
				name := map[string]string{"slice": "Slice", "stable": "SliceStable"}[n.fnv]
				fmt.Fprintf(b, "%s    a%d := make([]int, %d)\n", ind, id, n.n)
				fmt.Fprintf(b, "%s    sort.%s(a%d, func(i int, j int) bool {\n", ind, name, id)
			case "search":
				fmt.Fprintf(b, "%s    r%d := sort.Search(%d, func(i int) bool {\n", ind, id, n.n)
			}
			fmt.Fprintf(b, "%s        k%d := verifcount(%d)\n", ind, id, id)
			if n.failFirst {
				b.WriteString(fail)
			}
			c09render(b, n.kids, ind+"        ")
			if !n.failFirst {
				b.WriteString(fail)
			}
			fmt.Fprintf(b, "%s        return false\n%s    })\n%s} catch {\n%s}\n", ind, ind, ind, ind)
		case "go":
			fmt.Fprintf(b, "%scs%d := make(chan, 1)\n%scr%d := make(chan, 1)\n%scd%d := make(chan, 1)\n", ind, id, ind, id, ind, id)
			fmt.Fprintf(b, "%sgo func(s chan, r chan, d chan) {\n%s    s <- 1\n%s    x%d := <-r\n", ind, ind, ind, id)
			c09render(b, n.kids, ind+"    ")
			fmt.Fprintf(b, "%s    d <- 1\n%s}(cs%d, cr%d, cd%d)\n%sy%d := <-cs%d\n", ind, ind, id, id, id, ind, id, id)
			c09render(b, n.during, ind)
			fmt.Fprintf(b, "%scr%d <- 1\n%sw%d := <-cd%d\n", ind, id, ind, id, id)
		case "gostuck":
			fmt.Fprintf(b, "%scs%d := make(chan, 1)\n%scn%d := make(chan, 1)\n", ind, id, ind, id)
			fmt.Fprintf(b, "%sgo func(s chan, never chan) {\n", ind)
			c09render(b, n.kids, ind+"    ")
			fmt.Fprintf(b, "%s    s <- 1\n%s    x%d := <-never\n%s}(cs%d, cn%d)\n%sy%d := <-cs%d\n", ind, ind, id, ind, id, id, ind, id, id)
		case "goerr":
			fmt.Fprintf(b, "%scs%d := make(chan, 1)\n", ind, id)
			fmt.Fprintf(b, "%sgo func(s chan) {\n%s    s <- 1\n%s    z%d := 0\n%s    z%d = 1 / z%d\n%s}(cs%d)\n%sy%d := <-cs%d\n",
				ind, ind, ind, id, ind, id, id, ind, id, ind, id, id)
		}
	}
}

// ---------------------------------------------------------------- history → model events

type c09emit struct {
	ev      []string
	open    int // frames of the launching thread that an abort must close
	cnt     map[int]int
	aborted bool
	stuck   int
	probes  int
	depth   int
	maxd    int
	rich    bool // non-trivial: nesting, goroutines or an abnormal exit
}

func (e *c09emit) add(s ...string) { e.ev = append(e.ev, s...) }

func (e *c09emit) list(ns []*c09node) {
	for _, n := range ns {
		if e.aborted {
			return
		}
		e.node(n)
	}
}

func (e *c09emit) node(n *c09node) {
	switch n.kind {
	case "probe":
		e.add("P")
		e.probes++
	case "abort":
		lab := map[string]string{"error": "e", "panic": "p", "gopanic": "p", "exit": "e"}[n.abort]
		for ; e.open > 0; e.open-- {
			e.add("X:" + lab)
		}
		e.aborted, e.rich = true, true
	case "cb":
		e.rich = true
		calls := c09cmpCount(n.fnv, n.n)
		for i := 0; i < calls && !e.aborted; i++ {
			e.cnt[n.id]++
			k := e.cnt[n.id]
			e.add("E", "S:run")
			e.open++
			e.depth++
			if e.depth > e.maxd {
				e.maxd = e.depth
			}
			if n.failFirst && k == n.failAt {
				e.add("X:e")
			} else {
				e.list(n.kids)
				if e.aborted {
					return
				}
				if k == n.failAt {
					e.add("X:e")
				} else {
					e.add("X:c")
				}
			}
			e.open--
			e.depth--
		}
	case "go":
		e.rich = true
		e.add("G", "E", "S:run")
		e.list(n.during)
		e.list(n.kids)
		e.add("X:n", "D")
	case "gostuck":
		e.rich = true
		e.add("G", "E", "S:run")
		e.list(n.kids)
		e.add("K")
		e.stuck++
	case "goerr":
		e.rich = true
		e.add("G", "E", "S:run", "X:e", "D")
	}
}

// c09events: the model history of one execution of `body` as the single top-level Run.
func c09events(body []*c09node) *c09emit {
	e := &c09emit{cnt: map[int]int{}}
	e.add("E", "S:run")
	e.open, e.depth, e.maxd = 1, 1, 1
	e.list(body)
	if !e.aborted {
		e.add("X:n")
	}
	return e
}

// ---------------------------------------------------------------- running one execution

var c09natives sync.Once

func c09setup() {
	c09natives.Do(func() {
		// builtins: compiler.AddStandard copies these into every program's and every service's symbol table
		for name, f := range map[string]any{"verifprobe": c09probe, "verifcount": c09count, "verifgopanic": c09gopanic} {
			builtins.FunctionDictionary[name] = builtins.FunctionDefinition{Name: name, MinArgCount: 0,
				MaxArgCount: builtins.Any, FunctionAddress: f}
			symbols.RootSymbolTable.SetAlways(name, f)
		}
	})
}

type c09result struct {
	err      error
	goPanic  bool
	compiled bool
	status   int
}

func c09progSource(body []*c09node) string {
	var b, d strings.Builder
	c09decls = &d
	c09render(&b, body, "    ")
	return "import \"sort\"\nimport \"os\"\nimport \"fmt\"\n" + d.String() + "func main() {\n" + b.String() + "}\n"
}

func c09compile(src string) (*bytecode.ByteCode, *symbols.SymbolTable, error) {
	s := symbols.NewSymbolTable("c09 program")
	c := compiler.New("c09").SetExtensionsEnabled(true)
	_ = c.AutoImport(true, s)
	compiler.AddStandard(s)
	bc, err := c.Compile("c09", tokenizer.New(src+"\n@entrypoint main", true))
	return bc, s, err
}

func c09runCode(bc *bytecode.ByteCode, s *symbols.SymbolTable) (res c09result) {
	res.compiled = true
	defer func() {
		if r := recover(); r != nil {
			res.goPanic = true
		}
	}()
	ctx := bytecode.NewContext(symbols.NewChildSymbolTable("c09 run", s), bc)
	ctx.EnableConsoleOutput(false)
	res.err = ctx.Run()
	return res
}

var c09svcSeq int

func c09runService(t *testing.T, dir string, body []*c09node) (res c09result, src string) {
	var b, d strings.Builder
	c09decls = &d
	c09render(&b, body, "    ")
	src = "import \"http\"\nimport \"sort\"\nimport \"os\"\nimport \"fmt\"\n" + d.String() +
		"func handler(req http.Request, w *http.ResponseWriter) {\n" + b.String() +
		"    w.WriteHeader(200)\n    w.Write([]byte(\"ok\"))\n}\n"
	c09svcSeq++
	name := filepath.Join(dir, fmt.Sprintf("svc%d.ego", c09svcSeq))
	if err := os.WriteFile(name, []byte(src), 0o644); err != nil {
		t.Fatal(err)
	}
	defer os.Remove(name)
	path := fmt.Sprintf("services/c09/svc%d", c09svcSeq)
	req := httptest.NewRequest(http.MethodGet, "/"+path, nil)
	req.Header.Set("Accept", "application/json")
	session := &router.Session{ID: 900 + c09svcSeq, Path: path, Filename: name, URLParts: map[string]any{}}
	w := httptest.NewRecorder()
	res.compiled = true
	defer func() {
		if r := recover(); r != nil {
			res.goPanic = true
		}
	}()
	res.status = ServiceHandler(session, w, req)
	if res.status != http.StatusOK {
		res.err = fmt.Errorf("status %d: %s", res.status, strings.TrimSpace(w.Body.String()))
	}
	return res, src
}

// ---------------------------------------------------------------- one case = one history

type c09h struct {
	t        *testing.T
	cases    *verifh.Writer
	fails    *verifh.Writer
	st       *verifh.Stats
	distinct map[string]bool
	foreign  map[string]int // leftover goroutines started outside the interpreter packages, by creator
	nfail    int
	ran      int
}

// run executes `do` as one case: snapshot, run, settle, oracle, correspondence line.
// exit is the intended top-level exit (n e p, or ? when it is not determined).
func (h *c09h) run(kind, exit, src string, events []string, stuck int, rich bool, reps int, do func()) {
	if h.nfail >= 12 {
		h.st.Inc("skipped_after_failures") // enough evidence; every further settle would wait for its deadline
		return
	}
	h.ran++
	before := c09snapshot()
	base := runtime.NumGoroutine()
	c09cur.mu.Lock()
	c09cur.before, c09cur.obs, c09cur.cnt = before, nil, map[int]int{}
	c09cur.mu.Unlock()

	for i := 0; i < reps; i++ {
		do()
	}

	fresh := c09new(before)
	after := runtime.NumGoroutine()
	c09cur.mu.Lock()
	obs := append([]string{}, c09cur.obs...)
	c09cur.mu.Unlock()
	obs = append(obs, c09counts(fresh))

	in := "run " + strings.Join(events, " ")
	h.cases.Write(verifh.Case{In: in, Impl: strings.Join(obs, " "), Desc: kind + "/" + exit})
	h.st.Inc("cases." + kind)
	h.st.Inc("exit." + exit)
	h.st.Add("executions", reps)
	h.st.Add("probes", len(obs)-1)
	if rich && !h.distinct[in] {
		h.distinct[in] = true
		h.st.Inc("distinct_nontrivial")
		if len(h.distinct)%97 == 1 {
			h.st.Sample(map[string]string{"kind": kind, "in": in, "impl": strings.Join(obs, " ")})
		}
	}

	// ---- oracle (no model): what is still alive that was not there before?
	nGo, nRun, firstForeign := 0, 0, 0
	var leaked []string
	for _, g := range fresh {
		switch {
		case g.creator == c09creators[1].fn:
			nGo++
		case g.creator == c09creators[0].fn:
			nRun++
		case c09interp(g.creator):
			leaked = append(leaked, fmt.Sprintf("#%d [%s] %s created by %s", g.id, g.state, g.top, g.creator))
		default:
			h.foreign[g.creator]++
			if h.foreign[g.creator] == 1 {
				firstForeign++ // a process-wide worker may appear once
			} else {
				leaked = append(leaked, fmt.Sprintf("#%d [%s] %s created by %s (again)", g.id, g.state, g.top, g.creator))
			}
		}
	}
	if nGo > stuck || nRun > stuck {
		for _, g := range fresh {
			if g.creator == c09creators[0].fn || g.creator == c09creators[1].fn {
				leaked = append(leaked, fmt.Sprintf("#%d [%s] %s created by %s", g.id, g.state, g.top, g.creator))
			}
		}
	}
	if delta := after - base; delta > 2*stuck+firstForeign && len(leaked) == 0 {
		leaked = append(leaked, fmt.Sprintf("runtime.NumGoroutine grew by %d (baseline %d, program left %d goroutines blocked)", delta, base, stuck))
	}
	if len(leaked) > 0 {
		h.nfail++
		if h.nfail <= 25 {
			sort.Strings(leaked)
			if len(leaked) > 12 {
				leaked = append(leaked[:12], fmt.Sprintf("… %d more", len(leaked)-12))
			}
			h.fails.Write(verifh.Failure{
				Class: "leak." + kind + "." + exit,
				What:  fmt.Sprintf("%d execution(s) of a %s ending `%s` left goroutines running", reps, kind, exit),
				Input: kind + " exit=" + exit + fmt.Sprintf(" reps=%d", reps) + "\n" + src,
				Got:   strings.Join(leaked, "\n"),
				Want:  fmt.Sprintf("no goroutine beyond the %d the program itself left blocked", 2*stuck),
			})
		}
	}
}

func c09exitOf(e *c09emit, body []*c09node) string {
	if !e.aborted {
		return "n"
	}
	last := e.ev[len(e.ev)-1]
	return strings.TrimPrefix(last, "X:")
}

func c09lastKind(ns []*c09node) string {
	if len(ns) == 0 {
		return ""
	}
	return ns[len(ns)-1].kind
}

func c09resetCounters() {
	c09cur.mu.Lock()
	c09cur.cnt = map[int]int{}
	c09cur.mu.Unlock()
}

func c09repeat(ev []string, n int) []string {
	var out []string
	for i := 0; i < n; i++ {
		out = append(out, ev...)
	}
	return out
}

// fixed corpus: the shapes of GORTNS-1 and of the exits named in the property, first.
func c09corpus() [][]*c09node {
	p := func() *c09node { return &c09node{kind: "probe"} }
	id := 1000
	cb := func(fnv string, n, failAt int, first bool, kids ...*c09node) *c09node {
		id++
		return &c09node{kind: "cb", fnv: fnv, n: n, failAt: failAt, failFirst: first, kids: kids, id: id}
	}
	ab := func(k string) *c09node { return &c09node{kind: "abort", abort: k} }
	gor := func(during, kids []*c09node) *c09node {
		id++
		return &c09node{kind: "go", during: during, kids: kids, id: id}
	}
	return [][]*c09node{
		{p()},
		{ab("error")}, {ab("panic")}, {ab("gopanic")}, {ab("exit")},
		{p(), cb("slice", 5, 0, false, p()), p()},
		{cb("slice", 6, 2, true, p())},
		{cb("stable", 4, 1, false, p()), p()},
		{cb("search", 9, 3, false), p()},
		{cb("string", 1, 0, false, p()), cb("string", 1, 1, true, p()), cb("string", 1, 1, false, cb("slice", 3, 0, false, p())), p()},
		{cb("slice", 3, 0, false, cb("slice", 3, 2, false, p())), p()},
		{cb("slice", 3, 0, false, cb("search", 4, 0, false, ab("gopanic")))},
		{cb("slice", 4, 0, false, p()), ab("panic")},
		{gor(nil, nil), p()},
		{gor([]*c09node{p(), cb("slice", 3, 1, true)}, []*c09node{p()}), p()},
		{gor([]*c09node{gor([]*c09node{p()}, nil)}, []*c09node{cb("slice", 3, 0, false, p())}), p()},
		{{kind: "gostuck", id: 1900}, p()},
		{{kind: "gostuck", id: 1901, kids: []*c09node{cb("slice", 2, 0, false, p())}}, p(), ab("error")},
		{{kind: "goerr", id: 1902}},
	}
}

func TestVerifC09(t *testing.T) {
	c09setup()
	// keep SIGINT harmless for the whole run and start os/signal's process-wide loop goroutine now
	sig := make(chan os.Signal, 1)
	signal.Notify(sig, os.Interrupt)
	defer signal.Stop(sig)

	h := &c09h{t: t, cases: verifh.Out("c09_cases.jsonl"), fails: verifh.Out("c09_failures.jsonl"),
		st: verifh.NewStats(), distinct: map[string]bool{}, foreign: map[string]int{}}
	defer h.cases.Close()
	defer h.fails.Close()
	defer h.st.Save("c09_stats.json")

	dir := t.TempDir()
	rnd := verifh.Rand(9)
	intent := 0

	prog := func(body []*c09node, reps int) {
		src := c09progSource(body)
		bc, s, err := c09compile(src)
		if err != nil {
			t.Fatalf("generated program does not compile: %v\n%s", err, src)
		}
		em := c09events(body)
		exit := c09exitOf(em, body)
		if c09lastKind(body) == "goerr" {
			exit = "?"
		}
		kind := "prog"
		if reps > 1 {
			kind = "repeat"
		}
		var res c09result
		ran := h.ran
		h.run(kind, exit, src, c09repeat(em.ev, reps), em.stuck*reps, em.rich || reps > 1, reps, func() {
			c09resetCounters()
			res = c09runCode(bc, s)
		})
		if h.ran > ran && exit != "?" && (exit == "n") != (res.err == nil && !res.goPanic) {
			intent++
			t.Logf("intent mismatch: exit=%s err=%v gopanic=%v\n%s", exit, res.err, res.goPanic, src)
		}
		if em.maxd > h.st.M["max_nesting"] {
			h.st.M["max_nesting"] = em.maxd
		}
	}
	service := func(body []*c09node, reps int) {
		em := c09events(body)
		exit := c09exitOf(em, body)
		if c09lastKind(body) == "goerr" {
			exit = "?"
		}
		var res c09result
		var src string
		ran := h.ran
		h.run("service", exit, "(service handler body)\n"+c09progSource(body), c09repeat(em.ev, reps), em.stuck*reps, true, reps, func() {
			c09resetCounters()
			res, src = c09runService(t, dir, body)
		})
		_ = src
		if h.ran > ran && exit != "?" && (exit == "n") != (res.err == nil && !res.goPanic) {
			intent++
			t.Logf("intent mismatch (service): exit=%s err=%v gopanic=%v\n%s", exit, res.err, res.goPanic, src)
		}
	}

	// warm-up: lazily started process-wide workers (os/signal loop, caches, …) start here
	prog([]*c09node{{kind: "probe"}}, 1)
	service([]*c09node{{kind: "probe"}}, 1)
	h.foreign = map[string]int{}

	for _, body := range c09corpus() {
		prog(body, 1)
		if !c09hasStuck(body) {
			prog(body, 25)
		}
		service(body, 1)
	}

	n := verifh.N(160, 1000)
	for i := 0; i < n; i++ {
		g := &c09gen{r: rnd, budget: 40}
		body := g.gen(0, false, true, 1)
		switch {
		case i%4 == 3:
			service(body, 1)
		case i%10 == 0 && !c09hasStuck(body):
			prog(body, 2+rnd.Intn(30))
		default:
			prog(body, 1)
		}
	}
	c09children(t, h, dir, rnd)
	c09rest(t, h)
	c09sigint(t, h)

	if intent > 0 {
		t.Errorf("%d generated programs did not end the way the generator intended (harness bug)", intent)
	}
	h.st.M["intent_mismatch"] = intent
	h.st.M["oracle_failures"] = h.nfail
}

func c09hasStuck(ns []*c09node) bool {
	for _, n := range ns {
		if n.kind == "gostuck" || c09hasStuck(n.kids) || c09hasStuck(n.during) {
			return true
		}
	}
	return false
}

// ---------------------------------------------------------------- child-process helpers

func c09children(t *testing.T, h *c09h, dir string, rnd interface{ Intn(int) int }) {
	type pc struct {
		name, script string
		timeout      time.Duration
		exit         string
		started      bool
	}
	procs := []pc{
		{"ok", "exit 0", 0, "n", true},
		{"ok-limit", "exit 0", 20 * time.Second, "n", true},
		{"fail", "echo boom >&2; exit 3", 0, "e", true},
		{"fail-limit", "exit 4", 20 * time.Second, "e", true},
		{"output", "i=0; while [ $i -lt 400 ]; do echo line-$i; echo err-$i >&2; i=$((i+1)); done", 20 * time.Second, "n", true},
		{"timeout", "exec sleep 30", 40 * time.Millisecond, "e", true},
		{"killed-self", "kill -9 $$", 20 * time.Second, "e", true},
	}
	n := 3
	if verifh.Thorough() {
		n = 12
	}
	for round := 0; round < n; round++ {
		for _, p := range procs {
			p := p
			reps := 1 + rnd.Intn(3)
			ev := []string{"E", "S:proc", "X:" + p.exit}
			h.run("childproc", p.exit, "runChildProcess(sh -c '"+p.script+"', timeout="+p.timeout.String()+")", c09repeat(ev, reps), 0, true, reps, func() {
				_, err := runChildProcess(exec.Command("/bin/sh", "-c", p.script), p.timeout)
				if (err == nil) != (p.exit == "n") {
					t.Errorf("runChildProcess %s: err=%v", p.name, err)
				}
			})
		}
		// a command that cannot start: the function returns before its go statement
		h.run("childproc", "e", "runChildProcess(/nonexistent/c09)", []string{"E", "X:e"}, 0, true, 1, func() {
			if _, err := runChildProcess(exec.Command("/nonexistent/c09"), time.Second); err == nil {
				t.Errorf("runChildProcess of a missing binary succeeded")
			}
		})
	}

	// the socket transport: the test binary re-executes itself as the child (see init above)
	svc := filepath.Join(dir, "child.ego")
	_ = os.WriteFile(svc, []byte("import \"http\"\nfunc handler(req http.Request, w *http.ResponseWriter) {\n    w.WriteHeader(200)\n    w.Write([]byte(\"ok\"))\n}\n"), 0o644)
	modes := []struct {
		mode    string
		timeout time.Duration
		exits   [2]string // runChildProcess, runChildViaPipe
	}{
		{"serve", 60 * time.Second, [2]string{"n", "?"}},
		{"silent", 60 * time.Second, [2]string{"n", "e"}},
		{"hang", 300 * time.Millisecond, [2]string{"e", "e"}},
	}
	for round := 0; round < n/3; round++ {
		for _, m := range modes {
			m := m
			os.Setenv("VERIF_C09_CHILD", m.mode)
			req := ChildServiceRequest{SessionID: 77, ServerID: "c09", Method: http.MethodGet,
				Path: "/services/c09/child", Filename: svc, AcceptsJSON: true}
			ev := []string{"E", "S:pipe", "E", "S:proc", "X:" + m.exits[0], "X:" + strings.Replace(m.exits[1], "?", "n", 1)}
			h.run("childpipe", m.exits[1], "runChildViaPipe child="+m.mode+" timeout="+m.timeout.String(), ev, 0, true, 1, func() {
				resp, _, err := runChildViaPipe(77, req, m.timeout)
				if m.exits[1] == "e" && err == nil {
					t.Errorf("runChildViaPipe child=%s: expected an error", m.mode)
				}
				if m.mode == "serve" {
					h.st.Inc(fmt.Sprintf("childpipe.serve.status.%d", resp.Status))
					if err != nil {
						h.st.Inc("childpipe.serve.err")
					}
				}
			})
			os.Unsetenv("VERIF_C09_CHILD")
		}
	}
}

// ---------------------------------------------------------------- rest.Exchange (CLI client path)

// The test server's handler runs the probe while Exchange is blocked in the request, so the
// progress goroutine of Exchange is observed alive (`rest=1`) and must be gone afterwards.
func c09rest(t *testing.T, h *c09h) {
	var delay time.Duration
	var status int
	srv := httptest.NewServer(http.HandlerFunc(func(w http.ResponseWriter, r *http.Request) {
		_, _ = c09probe(nil, data.NewList())
		time.Sleep(delay)
		if status < 0 { // drop the connection without answering
			if hj, ok := w.(http.Hijacker); ok {
				if conn, _, err := hj.Hijack(); err == nil {
					conn.Close()
					return
				}
			}
		}
		w.Header().Set("Connection", "close")
		w.Header().Set("Content-Type", "application/json")
		w.WriteHeader(status)
		_, _ = w.Write([]byte(`{"ok":true}`))
	}))
	defer srv.Close()
	defer symbols.RootSymbolTable.Delete(defs.UserCodeRunningVariable, true)

	type rc struct {
		name    string
		flag    any // value of the "user code running" variable; nil = not defined
		delay   time.Duration
		status  int
		url     string
		spawns  bool
		reached bool
		exit    string
	}
	cases := []rc{
		{"cli-ok", false, 0, 200, srv.URL + "/x", true, true, "n"},
		{"cli-500", false, 0, 500, srv.URL + "/x", true, true, "n"},
		{"cli-dropped", false, 0, -1, srv.URL + "/x", true, true, "e"},
		{"cli-refused", false, 0, 200, "http://127.0.0.1:1/x", true, false, "e"},
		{"usercode-ok", true, 0, 200, srv.URL + "/x", false, true, "n"},
		{"undefined-ok", nil, 0, 200, srv.URL + "/x", false, true, "n"},
	}
	if verifh.Thorough() {
		cases = append(cases, rc{"cli-slow", false, 1200 * time.Millisecond, 200, srv.URL + "/x", true, true, "n"})
	}
	rounds := 2
	if verifh.Thorough() {
		rounds = 6
	}
	for round := 0; round < rounds; round++ {
		for _, c := range cases {
			c := c
			if c.flag == nil {
				symbols.RootSymbolTable.Delete(defs.UserCodeRunningVariable, true)
			} else {
				symbols.RootSymbolTable.SetAlways(defs.UserCodeRunningVariable, c.flag)
			}
			delay, status = c.delay, c.status
			ev := []string{"E"}
			if c.spawns {
				ev = append(ev, "S:rest")
			}
			if c.reached {
				ev = append(ev, "P")
			}
			ev = append(ev, "X:"+c.exit)
			reps := 1 + round%3
			h.run("rest", c.exit, "rest.Exchange "+c.name+" GET "+c.url, c09repeat(ev, reps), 0, true, reps, func() {
				var out map[string]any
				err := egorest.Exchange(c.url, http.MethodGet, nil, &out, "c09")
				if (err == nil) != (c.exit == "n") {
					t.Errorf("rest.Exchange %s: err=%v", c.name, err)
				}
			})
		}
	}
}

// ---------------------------------------------------------------- Ctrl-C: the watcher's other exit

// A long-running program is interrupted by a real SIGINT: the watcher handles it and returns by
// itself; RunFromAddress then stops and closes `done` with nobody listening.
func c09sigint(t *testing.T, h *c09h) {
	src := "func main() {\n    for i := 0; i < 2000000000; i++ {\n    }\n}\n"
	bc, s, err := c09compile(src)
	if err != nil {
		t.Fatalf("sigint program: %v", err)
	}
	rounds := 2
	if verifh.Thorough() {
		rounds = 6
	}
	for k := 0; k < rounds; k++ {
		h.run("sigint", "?", src, []string{"E", "S:run", "X:n"}, 0, true, 1, func() {
			stop := make(chan struct{})
			var wg sync.WaitGroup
			wg.Add(1)
			go func() {
				defer wg.Done()
				for {
					select {
					case <-stop:
						return
					case <-time.After(15 * time.Millisecond):
						_ = syscall.Kill(os.Getpid(), syscall.SIGINT)
					}
				}
			}()
			start := time.Now()
			_ = c09runCode(bc, s)
			close(stop)
			wg.Wait()
			if time.Since(start) > 20*time.Second {
				t.Errorf("SIGINT did not stop the program")
			}
			h.st.Inc("sigint.runs")
		})
	}
}
