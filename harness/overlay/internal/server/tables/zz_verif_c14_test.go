//go:build verif

package tables

// C14 harness: table REST requests cannot inject SQL.
//
// A recording database/sql driver is put in place of modernc's "sqlite" driver (database/sql.drivers is a
// linkname-able variable), so every statement the handlers send to SQLite is captured at driver level.
//
//  * stream "gen": hostile inputs straight into the exported generators (WhereClause, ColumnList, SortList,
//    PagingClauses, FullName, StripQuotes, SQLEscape, FormSelectorDeleteQuery, FormUpdateQuery,
//    FormInsertQuery, formAbstract*); the text is compared with the Lean model (filters travel as the
//    token lists the real tokenizer produced).  The statement texts of the builders also go to c14_stmts.jsonl, so
//    that the lexing policy of checks/C14.py is a direct oracle for the identifier positions (row keys, payload
//    columns) whose hostile names the handlers refuse before a statement is built.
//  * stream "req": requests through the real handlers (ReadRows, DeleteRows, UpdateRows, InsertRows, their
//    abstract variants, scripting.Handler tasks) against a SQLite file that also holds a canary table.
//    Direct oracles, none of which uses the model: the canary table and the schema never change; no response
//    contains canary data; per SQLite's own EXPLAIN every executed statement opens only the addressed table;
//    rows returned / deleted / updated are exactly those an independent evaluator of the filter selects on the
//    harness's copy of the table (with paging), hostile row values are stored verbatim.  Every executed
//    statement is also written to c14_stmts.jsonl (lexed by the Lean SQLite-lexer model in checks/C14.py) and
//    compared with the model's text for the request.

import (
	"bytes"
	"context"
	"database/sql"
	"database/sql/driver"
	"encoding/json"
	"fmt"
	"math/rand"
	"net/http"
	"net/http/httptest"
	"net/url"
	"os"
	"path/filepath"
	"sort"
	"strconv"
	"strings"
	"sync"
	"testing"
	"unicode/utf8"
	_ "unsafe"

	"github.com/tucats/ego/internal/cli/settings"
	"github.com/tucats/ego/internal/defs"
	"github.com/tucats/ego/internal/dsns"
	"github.com/tucats/ego/internal/language/tokenizer"
	"github.com/tucats/ego/internal/router"
	"github.com/tucats/ego/internal/server/tables/parsing"
	"github.com/tucats/ego/internal/server/tables/scripting"
	egostrings "github.com/tucats/ego/internal/util/strings"
	"github.com/tucats/ego/internal/verifh"
)

// ---------------------------------------------------------------- recording driver

//go:linkname c14SQLDrivers database/sql.drivers
var c14SQLDrivers map[string]driver.Driver

type c14Driver struct{ inner driver.Driver }

var (
	c14Mu  sync.Mutex
	c14On  bool
	c14Log []string
)

func c14Rec(q string) {
	c14Mu.Lock()
	if c14On {
		c14Log = append(c14Log, q)
	}
	c14Mu.Unlock()
}

func (d *c14Driver) Open(name string) (driver.Conn, error) {
	c, err := d.inner.Open(name)
	if err != nil {
		return nil, err
	}

	return &c14Conn{c}, nil
}

type c14Conn struct{ driver.Conn }

func (c *c14Conn) Prepare(q string) (driver.Stmt, error) { c14Rec(q); return c.Conn.Prepare(q) }

func (c *c14Conn) PrepareContext(ctx context.Context, q string) (driver.Stmt, error) {
	c14Rec(q)

	return c.Conn.(driver.ConnPrepareContext).PrepareContext(ctx, q)
}

func (c *c14Conn) ExecContext(ctx context.Context, q string, a []driver.NamedValue) (driver.Result, error) {
	c14Rec(q)

	return c.Conn.(driver.ExecerContext).ExecContext(ctx, q, a)
}

func (c *c14Conn) QueryContext(ctx context.Context, q string, a []driver.NamedValue) (driver.Rows, error) {
	c14Rec(q)

	return c.Conn.(driver.QueryerContext).QueryContext(ctx, q, a)
}

func (c *c14Conn) BeginTx(ctx context.Context, o driver.TxOptions) (driver.Tx, error) {
	return c.Conn.(driver.ConnBeginTx).BeginTx(ctx, o)
}

func (c *c14Conn) Ping(ctx context.Context) error { return c.Conn.(driver.Pinger).Ping(ctx) }

func (c *c14Conn) ResetSession(ctx context.Context) error {
	if r, ok := c.Conn.(driver.SessionResetter); ok {
		return r.ResetSession(ctx)
	}

	return nil
}

func (c *c14Conn) IsValid() bool {
	if r, ok := c.Conn.(driver.Validator); ok {
		return r.IsValid()
	}

	return true
}

// ---------------------------------------------------------------- protocol encoding

// filters whose tokens break the tokenizer contract assumed by the theorems
var c14Contract []string

var c14Class = map[tokenizer.TokenClass]string{
	tokenizer.EndOfTokensClass: "e", tokenizer.IdentifierTokenClass: "i", tokenizer.TypeTokenClass: "t",
	tokenizer.StringTokenClass: "s", tokenizer.BooleanTokenClass: "b", tokenizer.IntegerTokenClass: "n",
	tokenizer.FloatTokenClass: "f", tokenizer.ComplexTokenClass: "c", tokenizer.ReservedTokenClass: "r",
	tokenizer.SpecialTokenClass: "p", tokenizer.ValueTokenClass: "v",
}

// c14Toks encodes the token list of one filter; ok=false when a spelling is not valid UTF-8 (the model is
// over Unicode scalar values) or a numeric token is not of the shape the model assumes.
func c14Toks(filter string) (string, bool) {
	tk := tokenizer.New(filter, true)
	if len(tk.Tokens) == 0 {
		return "-", true
	}

	parts := make([]string, 0, len(tk.Tokens))
	ok := true

	for _, t := range tk.Tokens {
		if !utf8.ValidString(t.Spelling()) {
			ok = false
		}

		// the tokenizer contract the theorems assume (TokOK): numeric and boolean tokens are spelled with
		// [0-9A-Za-z._+-], without "--", and neither start nor end with "-"
		if c := t.Class(); c == tokenizer.IntegerTokenClass || c == tokenizer.FloatTokenClass || c == tokenizer.BooleanTokenClass {
			sp := t.Spelling()
			bad := sp == "" || strings.Contains(sp, "--") || strings.HasPrefix(sp, "-") || strings.HasSuffix(sp, "-")

			for _, ch := range sp {
				if !(ch >= '0' && ch <= '9' || ch >= 'a' && ch <= 'z' || ch >= 'A' && ch <= 'Z' || strings.ContainsRune("._+-", ch)) {
					bad = true
				}
			}

			if bad {
				c14Contract = append(c14Contract, filter)
			}
		}

		parts = append(parts, c14Class[t.Class()]+":"+verifh.Hex(t.Spelling()))
	}

	return strings.Join(parts, ";"), ok
}

func c14Filters(filters []string) (string, bool) {
	if len(filters) == 0 {
		return "~", true
	}

	parts := make([]string, len(filters))
	ok := true

	for i, f := range filters {
		var o bool

		parts[i], o = c14Toks(f)
		ok = ok && o
	}

	return strings.Join(parts, "|"), ok
}

func c14List(present bool, v []string) string {
	if !present {
		return "~"
	}

	if len(v) == 0 {
		return "~"
	}

	parts := make([]string, len(v))
	for i, s := range v {
		parts[i] = verifh.Hex(s)
	}

	return strings.Join(parts, "|")
}

func c14Valid(ss ...string) bool {
	for _, s := range ss {
		if !utf8.ValidString(s) {
			return false
		}
	}

	return true
}

// paging fields as the model takes them: the Atoi result of a single value
func c14Int(present bool, v []string) string {
	if !present || len(v) != 1 {
		return "n"
	}

	i, err := egostrings.Atoi(v[0])
	if err != nil {
		return "n"
	}

	return strconv.Itoa(i)
}

func c14Start(present bool, v []string) string {
	if !present {
		return "a"
	}

	return c14Int(true, v)
}

func c14OkText(s string, err error) string {
	if err != nil {
		return "err"
	}

	return "ok " + verifh.Hex(s)
}

// ---------------------------------------------------------------- generators of hostile text

var c14Nasty = []string{
	"'", "''", "\"", "\"\"", ";", "--", "/*", "*/", ")", "(", " ", ",", ".", "~", "\\", "\n", "\t", " ", "%", "$1", "?",
	" OR 1=1", " ) OR 1=1 --", "' OR '1'='1", "a'", "'a", "bo'b", "x\"y", "\"x", "y\"", "a;b", "1;DROP TABLE canary",
	"(select secret from canary)", " UNION SELECT secret,n,n,n,n FROM canary --", "canary", "secret", "ı", "ſ", "é", "世",
	"count(*)", "count(*) as count", "count(*) from canary --", "COUNT(*)", "_row_id_", "name", "id", "nil", "NULL", "true",
	"1 OR 1=1", "1) OR 1=1 --", "0x10", "1e-5", "-", "+", "- -1", "\x00", "a.b", "\".\"",
}

var c14Alphabet = []rune("abAZ019_ '\"\";,-/*().~\\=<>|%\n\tıſé世$?:@")

// Names that already look like a delimited identifier: they begin AND end with a double quote, and what is between
// the two is not a well-formed identifier body (a lone inner quote closes the "identifier" early, live SQL follows,
// and a comment or another quoted name swallows the trailing quote).  A quoting helper that trusts the outer pair --
// or strips / adds quotes by looking only at the two ends -- copies such a name into the statement as SQL text.
// One list per identifier position, so that the live text is valid SQL at that position of the statement.
var c14DelimShapes = map[string][]string{
	"table": {
		`"canary" --"`, `"canary" /*"`, `"canary";--"`, `"canary"`, `"t1"`, `"t1" WHERE 1=1 --"`, `"t1" WHERE 1=1 OR ""="`,
		`"t1" NATURAL JOIN "canary"`, `"t1","canary"`, `"t1" SET "note"=(SELECT "secret" FROM "canary") --"`,
		`"t1" AS "x"`, `"canary" AS "t1"`, `"t1";DELETE FROM "canary";--"`, `"t1" UNION SELECT "secret","n","n","n","n" FROM "canary" --"`,
	},
	"column": {
		`"secret" FROM "canary" --"`, `"secret" AS "id" FROM "canary" --"`, `"id"||(SELECT "secret" FROM "canary") AS "id"`,
		`"id" FROM "t1" --"`, `"id" FROM "t1" /*"`, `"id"`, `"na""me"`, `"id" AS "x"`, `"secret" AS "id" FROM "canary";--"`,
		`"id" FROM "t1" UNION SELECT "secret" FROM "canary" --"`, `"id"+(SELECT max("n") FROM "canary") AS "id"`,
	},
	"sort": {
		`"age"*(SELECT "n" FROM "canary") --"`, `"age"*(SELECT CASE WHEN "secret" LIKE 'C%' THEN 1 ELSE -1 END FROM "canary") --"`,
		`"id" IN (SELECT "n" FROM "canary") COLLATE "binary"`, `"id";DELETE FROM "canary";--"`, `"id" LIMIT 0 --"`, `"id"`,
		`"id" DESC --"`, `"id" COLLATE "nocase"`, `"id"+(SELECT count(*) FROM "canary") /*"`,
	},
	"key": {
		`"note"=(SELECT "secret" FROM "canary") --"`, `"note"=(SELECT "secret" FROM "canary"),"name"`, `"note"=$1 WHERE 1=1 --"`,
		`"note"`, `"note"=(SELECT "secret" FROM "canary" LIMIT 1),"note"`, `"note") SELECT "secret" FROM "canary" --"`,
		`"note"=''||"name","name"`,
	},
}

var c14DelimPositions = []string{"table", "column", "sort", "key"}

// c14Delimited returns a name that begins and ends with a double quote around live SQL text for the position.
func c14Delimited(r *rand.Rand, pos string) string {
	shapes, ok := c14DelimShapes[pos]
	if !ok {
		pos = c14DelimPositions[r.Intn(len(c14DelimPositions))]
		shapes = c14DelimShapes[pos]
	}

	switch r.Intn(4) {
	case 0: // composed: a quoted head, live text, a tail that ends in a quote
		head := []string{`"id"`, `"name"`, `"note"`, `"t1"`, `"canary"`, `"secret"`, `""`, `"x"`}[r.Intn(8)]
		live := []string{"", " ", ";", " FROM \"canary\"", " OR 1=1", "=\"secret\"", "||\"secret\"", " WHERE 1=1", ")", "(", "*1", " IS NULL",
			" FROM canary", ";DROP TABLE canary", " UNION SELECT * FROM canary", " , ", "'"}[r.Intn(17)]
		tail := []string{` --"`, `--"`, ` /*"`, `;--"`, `"`, ` ""`, ` "x"`, ` AS "x"`, ` -- "`, "\n\""}[r.Intn(10)]

		return head + live + tail
	case 1: // an outer pair around arbitrary nasty text
		return `"` + c14Nasty[r.Intn(len(c14Nasty))] + c14Nasty[r.Intn(len(c14Nasty))] + `"`
	}

	return shapes[r.Intn(len(shapes))]
}

// c14Wrapped adds the outer pair of quotes that StripQuotes / FullName take off a table name again.
func c14Wrapped(r *rand.Rand, s string) string {
	if r.Intn(3) == 0 {
		return s
	}

	return `"` + s + `"`
}

func c14Hostile(r *rand.Rand) string {
	switch r.Intn(7) {
	case 3:
		return c14Delimited(r, "")
	case 0:
		return c14Nasty[r.Intn(len(c14Nasty))]
	case 1:
		return c14Nasty[r.Intn(len(c14Nasty))] + c14Nasty[r.Intn(len(c14Nasty))]
	case 2:
		return []string{"tom", "sue", "bo'b", "a'", "it's", "x;y", "q\"q", "--", " ) OR 1=1 --", "10", ""}[r.Intn(11)]
	}

	n := r.Intn(9)
	b := make([]rune, n)

	for i := range b {
		b[i] = c14Alphabet[r.Intn(len(c14Alphabet))]
	}

	return string(b)
}

// ---------------------------------------------------------------- filter expressions with a known meaning

type c14Expr struct {
	op   string     // EQ LT LE GT GE AND OR NOT ISNULL
	col  string     // comparison: column
	val  any        // comparison: int64, string, or c14Col
	args []*c14Expr // AND OR NOT
}

type c14Col string

type c14Row struct {
	id   int64
	name any // string or nil
	age  any // int64 or nil
	note any // string or nil
	rid  string
}

func (r c14Row) get(col string) any {
	switch col {
	case "id":
		return r.id
	case "name":
		return r.name
	case "age":
		return r.age
	case "note":
		return r.note
	}

	return r.rid
}

var (
	c14IntCols  = []string{"id", "age"}
	c14TextCols = []string{"name", "note"}
)

func c14GenExpr(r *rand.Rand, depth int) *c14Expr {
	if depth > 0 && r.Intn(3) == 0 {
		switch r.Intn(3) {
		case 0:
			return &c14Expr{op: "NOT", args: []*c14Expr{c14GenExpr(r, depth-1)}}
		default:
			n := 2 + r.Intn(2)
			e := &c14Expr{op: []string{"AND", "OR"}[r.Intn(2)]}

			for i := 0; i < n; i++ {
				e.args = append(e.args, c14GenExpr(r, depth-1))
			}

			return e
		}
	}

	ops := []string{"EQ", "EQ", "EQ", "LT", "LE", "GT", "GE"}
	op := ops[r.Intn(len(ops))]

	if r.Intn(3) == 0 {
		col := c14IntCols[r.Intn(2)]

		switch r.Intn(8) {
		case 0:
			return &c14Expr{op: op, col: col, val: c14Col(c14IntCols[r.Intn(2)])}
		case 1:
			if col == "age" {
				return &c14Expr{op: "ISNULL", col: col}
			}
		}

		return &c14Expr{op: op, col: col, val: int64(r.Intn(80) - 10)}
	}

	col := c14TextCols[r.Intn(2)]

	switch r.Intn(10) {
	case 0:
		return &c14Expr{op: op, col: col, val: c14Col(c14TextCols[r.Intn(2)])}
	case 1:
		return &c14Expr{op: "ISNULL", col: col}
	}

	return &c14Expr{op: op, col: col, val: c14Hostile(r)}
}

// c14Quote renders a string operand in one of the documented ways.
func c14Quote(r *rand.Rand, s string) string {
	switch {
	case r.Intn(4) == 0 && !strings.ContainsAny(s, "'\\\n") && s != "":
		return "'" + s + "'"
	case r.Intn(6) == 0 && !strings.ContainsAny(s, "`\r"):
		return "`" + s + "`"
	}

	return strconv.Quote(s)
}

func (e *c14Expr) render(r *rand.Rand) string {
	lower := func(s string) string {
		if r.Intn(4) == 0 {
			return strings.ToLower(s)
		}

		return s
	}

	switch e.op {
	case "AND", "OR", "NOT":
		parts := make([]string, len(e.args))
		for i, a := range e.args {
			parts[i] = a.render(r)
		}

		return lower(e.op) + "(" + strings.Join(parts, []string{",", ", ", " , "}[r.Intn(3)]) + ")"
	case "ISNULL":
		return lower("EQ") + "(" + e.col + ",.nil)"
	}

	var v string

	switch x := e.val.(type) {
	case int64:
		v = strconv.FormatInt(x, 10)
	case string:
		v = c14Quote(r, x)
	case c14Col:
		v = string(x)
	}

	return lower(e.op) + "(" + e.col + []string{",", ", "}[r.Intn(2)] + v + ")"
}

// three-valued evaluation: 1 true, 0 false, -1 unknown
func (e *c14Expr) eval(row c14Row) int {
	switch e.op {
	case "NOT":
		v := e.args[0].eval(row)
		if v < 0 {
			return -1
		}

		return 1 - v
	case "AND":
		res := 1

		for _, a := range e.args {
			switch a.eval(row) {
			case 0:
				return 0
			case -1:
				res = -1
			}
		}

		return res
	case "OR":
		res := 0

		for _, a := range e.args {
			switch a.eval(row) {
			case 1:
				return 1
			case -1:
				res = -1
			}
		}

		return res
	case "ISNULL":
		if row.get(e.col) == nil {
			return 1
		}

		return 0
	}

	left := row.get(e.col)
	right := e.val

	if c, ok := right.(c14Col); ok {
		right = row.get(string(c))
	}

	if left == nil || right == nil {
		return -1
	}

	var cmp int

	switch l := left.(type) {
	case int64:
		rv, ok := right.(int64)
		if !ok {
			return -2 // cross-type: not generated
		}

		switch {
		case l < rv:
			cmp = -1
		case l > rv:
			cmp = 1
		}
	case string:
		rv, ok := right.(string)
		if !ok {
			return -2
		}

		cmp = strings.Compare(l, rv)
	}

	var b bool

	switch e.op {
	case "EQ":
		b = cmp == 0
	case "LT":
		b = cmp < 0
	case "LE":
		b = cmp <= 0
	case "GT":
		b = cmp > 0
	case "GE":
		b = cmp >= 0
	}

	if b {
		return 1
	}

	return 0
}

// ---------------------------------------------------------------- the database under test

const c14Marker = "C4N4RY"

type c14Env struct {
	t      *testing.T
	h      *sql.DB
	rows   []c14Row // the harness's copy of t1 before the request
	cases  *verifh.Writer
	fails  *verifh.Writer
	stmts  *verifh.Writer
	stats  *verifh.Stats
	seen   map[string]bool
	canary string
	schema string
	capped map[string]int
}

func (e *c14Env) exec(q string, args ...any) {
	if _, err := e.h.Exec(q, args...); err != nil {
		e.t.Fatalf("harness sql %q: %v", q, err)
	}
}

func (e *c14Env) dump(q string) string {
	rows, err := e.h.Query(q)
	if err != nil {
		return "ERR " + err.Error()
	}
	defer rows.Close()

	cols, _ := rows.Columns()

	var b strings.Builder

	for rows.Next() {
		vals := make([]any, len(cols))
		ptrs := make([]any, len(cols))

		for i := range vals {
			ptrs[i] = &vals[i]
		}

		_ = rows.Scan(ptrs...)

		for _, v := range vals {
			fmt.Fprintf(&b, "%T:%v|", v, v)
		}

		b.WriteString("\n")
	}

	return b.String()
}

func (e *c14Env) reset(r *rand.Rand) {
	tx, err := e.h.Begin()
	if err != nil {
		e.t.Fatal(err)
	}

	defer func() {
		if err := tx.Commit(); err != nil {
			e.t.Fatal(err)
		}
	}()

	if _, err := tx.Exec(`DELETE FROM t1`); err != nil {
		e.t.Fatal(err)
	}

	base := []c14Row{
		{1, "tom", int64(30), "a", "r1"}, {2, "sue", int64(40), "b", "r2"}, {3, "bo'b", int64(50), nil, "r3"},
		{4, "a'", int64(-5), " ) OR 1=1 --", "r4"}, {5, "x;y", nil, "it's", "r5"}, {6, nil, int64(30), "q\"q", "r6"},
		{7, "--", int64(0), "", "r7"}, {8, "10", int64(10), "tom", "r8"}, {9, "", int64(65), "--", "r9"},
		{10, " ) OR 1=1 --", int64(7), "a'", "r10"},
	}

	e.rows = e.rows[:0]

	for _, row := range base {
		if r.Intn(5) == 0 {
			continue
		}

		if r.Intn(6) == 0 {
			row.name = c14Hostile(r)
		}

		if r.Intn(6) == 0 {
			row.note = c14Hostile(r)
		}

		e.rows = append(e.rows, row)

		if _, err := tx.Exec(`INSERT INTO t1 (id,name,age,note,_row_id_) VALUES (?,?,?,?,?)`, row.id, row.name, row.age, row.note, row.rid); err != nil {
			e.t.Fatal(err)
		}
	}
}

func (e *c14Env) current() []c14Row {
	rows, err := e.h.Query(`SELECT id,name,age,note,_row_id_ FROM t1 ORDER BY id, _row_id_`)
	if err != nil {
		e.t.Fatalf("read t1: %v", err)
	}
	defer rows.Close()

	var res []c14Row

	for rows.Next() {
		var (
			idv        any
			name, note sql.NullString
			agev       any
			age        sql.NullInt64
			rid        sql.NullString
		)

		if err := rows.Scan(&idv, &name, &agev, &note, &rid); err != nil {
			e.t.Fatalf("scan t1: %v", err)
		}

		// SQLite stores any type anywhere: a value of the wrong type shows up as a row that differs
		id, ok := idv.(int64)
		if !ok {
			id = -999
		}

		if v, ok := agev.(int64); ok {
			age = sql.NullInt64{Int64: v, Valid: true}
		} else if agev != nil {
			age = sql.NullInt64{Int64: -999, Valid: true}
		}

		row := c14Row{id: id, rid: rid.String}
		if name.Valid {
			row.name = name.String
		}

		if age.Valid {
			row.age = age.Int64
		}

		if note.Valid {
			row.note = note.String
		}

		res = append(res, row)
	}

	return res
}

func (e *c14Env) fail(class, what, input, got, want string) {
	e.stats.Inc("failures")
	e.fails.Write(verifh.Failure{Class: class, What: what, Input: input, Got: got, Want: want})
}

// failCapped reports at most two failures per key (the malformed streams: one defect accepted once is accepted
// in every shape that carries it); the rest is counted.
func (e *c14Env) failCapped(key, class, what, input, got, want string) {
	if e.capped == nil {
		e.capped = map[string]int{}
	}

	if e.capped[key]++; e.capped[key] > 2 {
		e.stats.Inc("failures_not_listed")

		return
	}

	e.fail(class, what, input, got, want)
}

func (e *c14Env) corr(in, impl, desc string) {
	e.stats.Inc("corr_lines")
	e.cases.Write(verifh.Case{In: in, Impl: impl, Desc: desc})
}

// touched returns the names of the tables and indexes the first statement of q opens, per EXPLAIN.
func (e *c14Env) touched(q string) ([]string, bool) {
	rows, err := e.h.Query("EXPLAIN " + q)
	if err != nil {
		return nil, false
	}
	defer rows.Close()

	pages := map[int64]bool{}

	for rows.Next() {
		var (
			addr, p1, p2, p3 sql.NullInt64
			opcode           string
			p4, p5, comment  any
		)

		if err := rows.Scan(&addr, &opcode, &p1, &p2, &p3, &p4, &p5, &comment); err != nil {
			return nil, false
		}

		if (opcode == "OpenRead" || opcode == "OpenWrite") && p3.Int64 == 0 {
			pages[p2.Int64] = true
		}
	}

	names := []string{}

	for p := range pages {
		var name string

		if p == 1 {
			name = "sqlite_master"
		} else if err := e.h.QueryRow(`SELECT tbl_name FROM sqlite_master WHERE rootpage = ?`, p).Scan(&name); err != nil {
			name = fmt.Sprintf("rootpage-%d", p)
		}

		names = append(names, name)
	}

	sort.Strings(names)

	return names, true
}

// ---------------------------------------------------------------- one request through the real handlers

type c14Req struct {
	Kind    string              `json:"kind"` // get getabs delete patch patchabs put putabs tx
	Table   string              `json:"table"`
	Query   map[string][]string `json:"query,omitempty"`
	Body    string              `json:"body,omitempty"`
	Ops     []defs.TXOperation  `json:"ops,omitempty"`
	Defect  string              `json:"defect,omitempty"` // the filter is malformed by construction: id of its structural defect
	expr    *c14Expr            // filter with a known meaning (nil: none, or hostile)
	hostile bool                // raw hostile filter text: only the safety oracles and the guard apply
	sortIDs bool                // sort=id with paging: the exact row list is checked
}

type c14Stmt struct {
	Req     string   `json:"req"`
	SQL     string   `json:"sql"`
	Table   string   `json:"table"`
	Bare    []string `json:"bare"` // identifiers the request may legitimately contribute as bare words
	Touched []string `json:"touched"`
}

func (rq *c14Req) String() string {
	b, _ := json.Marshal(rq)

	return string(b)
}

func (e *c14Env) serve(rq *c14Req) (status int, body []byte, log []string) {
	q := url.Values(rq.Query)
	u := "/dsns/d1/tables/" + url.PathEscape(rq.Table) + "/rows"

	if rq.Kind == "tx" {
		u = "/dsns/d1/@transaction"
	}

	if len(q) > 0 {
		u += "?" + q.Encode()
	}

	method := map[string]string{"get": "GET", "getabs": "GET", "delete": "DELETE", "patch": "PATCH", "patchabs": "PATCH",
		"put": "PUT", "putabs": "PUT", "tx": "POST"}[rq.Kind]
	payload := rq.Body

	if rq.Kind == "tx" {
		b, _ := json.Marshal(rq.Ops)
		payload = string(b)
	}

	req, err := http.NewRequest(method, u, bytes.NewReader([]byte(payload)))
	if err != nil {
		return -2, nil, nil
	}

	if strings.HasSuffix(rq.Kind, "abs") {
		req.Header.Set("Accept", defs.AbstractRowSetMediaType)
	}

	s := &router.Session{ID: 1, User: "admin", Admin: true, URLParts: map[string]any{"dsn": "d1", "table": rq.Table},
		Parameters: map[string][]string(q), URL: req.URL, Path: req.URL.Path}
	rr := httptest.NewRecorder()

	c14Mu.Lock()
	c14On, c14Log = true, nil
	c14Mu.Unlock()

	func() {
		defer func() {
			if p := recover(); p != nil {
				status = -1 // a panic in a handler is outside C14; the safety oracles still apply
			}
		}()

		switch rq.Kind {
		case "tx":
			status = scripting.Handler(s, rr, req)
		case "get", "getabs":
			status = ReadRows(s, rr, req)
		case "delete":
			status = DeleteRows(s, rr, req)
		case "patch", "patchabs":
			status = UpdateRows(s, rr, req)
		case "put", "putabs":
			status = InsertRows(s, rr, req)
		}
	}()

	c14Mu.Lock()
	c14On = false
	log = c14Log
	c14Mu.Unlock()

	return status, rr.Body.Bytes(), log
}

func c14IDs(rows []c14Row) string {
	ids := make([]string, len(rows))
	for i, r := range rows {
		ids[i] = strconv.FormatInt(r.id, 10)
	}

	return strings.Join(ids, ",")
}

// c14StripName is the table a request names: quotes removed, last component of a dotted name.
func c14StripName(s string) string {
	s = parsing.StripQuotes(s)
	if i := strings.LastIndex(s, "."); i >= 0 {
		s = s[i+1:]
	}

	return s
}

// run serves one request and applies every oracle.
func (e *c14Env) run(rq *c14Req) {
	input := rq.String()
	status, body, log := e.serve(rq)

	e.stats.Inc("requests")
	e.stats.Inc("kind_" + rq.Kind)

	if status == http.StatusOK {
		e.stats.Inc("status_200")
	} else if status == -1 {
		e.stats.Inc("handler_panics")
	} else {
		e.stats.Inc("status_rejected")
	}

	// O1: the canary table and the schema never change (no generated request addresses an existing table with a
	// schema-changing operation: the only one, the "drop" task, is given names that are not a table)
	schemaChanged := false

	if got := e.dump(`SELECT type,name,tbl_name,sql FROM sqlite_master ORDER BY name`); got != e.schema {
		e.fail("schema-modified", "a table REST request changed the database schema", input, got, e.schema)
		e.restoreSchema(input)

		schemaChanged = true
	}

	if got := e.dump(`SELECT * FROM canary ORDER BY n`); got != e.canary {
		if !schemaChanged {
			e.fail("canary-modified", "a table REST request changed a table it did not address", input, got, e.canary)
		}

		e.exec(`DELETE FROM canary`)
		e.seedCanary()
	}

	// O2: no canary data in any response
	if bytes.Contains(body, []byte(c14Marker)) && !strings.Contains(input, c14Marker) {
		e.fail("canary-leaked", "a response contains data of a table the request did not address", input, string(body), "")
	}

	// O3: per SQLite's EXPLAIN, every executed statement opens only the addressed table
	addressed := c14StripName(rq.Table)

	for _, q := range log {
		if strings.HasPrefix(q, "PRAGMA ") {
			continue
		}

		table := addressed
		bare := []string{}

		for _, v := range rq.Query["sort"] {
			for _, p := range strings.Split(strings.TrimPrefix(v, "~"), ",") {
				bare = append(bare, strings.TrimSpace(p))
			}
		}

		if rq.Kind == "tx" {
			table = ""

			for _, op := range rq.Ops {
				if op.Opcode == "drop" {
					bare = append(bare, "DROP", "TABLE") // the fixed words of the drop task's statement
				}
			}
		}

		names, ok := e.touched(q)
		if ok {
			for _, n := range names {
				allowed := n == table
				if rq.Kind == "tx" {
					allowed = false

					for _, op := range rq.Ops {
						if op.Opcode == "drop" {
							allowed = allowed || n == op.Table // the drop task takes the name as it is

							continue
						}

						if n == c14StripName(op.Table) {
							allowed = true
						}
					}
				}

				if !allowed {
					e.fail("other-table-touched", "an executed statement opens a table other than the addressed one (EXPLAIN)",
						input, q+" => "+strings.Join(names, ","), table)
				}
			}
		}

		e.stats.Inc("statements")
		e.stmts.Write(c14Stmt{Req: input, SQL: q, Table: table, Bare: bare, Touched: names})
	}

	if schemaChanged {
		return // the tables were rebuilt: the harness's copy of t1 no longer describes the database
	}

	// O5: a filter with a structural defect is never accepted
	if rq.Defect != "" && status == http.StatusOK {
		e.failCapped("H"+rq.Defect, "malformed-filter-accepted", "a handler accepted a filter with a structural defect ("+rq.Defect+")", input, string(body), "an error status")
	}

	if rq.Defect != "" {
		e.stats.Inc("malformed_requests")
	}

	e.meaning(rq, status, body, input)
	e.insertOracle(rq, status)
	e.correspond(rq, log)

	key := rq.Kind + "\x00" + rq.Table + "\x00" + fmt.Sprint(rq.Query) + "\x00" + rq.Body + fmt.Sprint(rq.Ops)
	if !e.seen[key] && (rq.hostile || strings.ContainsAny(key, "'\";-")) {
		e.seen[key] = true
		e.stats.Inc("distinct_nontrivial")

		if len(log) > 2 {
			e.stats.Sample(map[string]any{"request": rq, "status": status, "sql": log[len(log)-1]})
		}
	}
}

const (
	c14CreateT1     = `CREATE TABLE t1 (id INTEGER, name TEXT, age INTEGER, note TEXT, _row_id_ TEXT)`
	c14CreateCanary = `CREATE TABLE canary (secret TEXT, n INTEGER)`
)

// restoreSchema rebuilds the two tables after a request changed the schema, so that the run can go on and report
// further failing inputs; it gives up when the schema cannot be put back.
func (e *c14Env) restoreSchema(input string) {
	rows, err := e.h.Query(`SELECT type, name FROM sqlite_master WHERE name NOT LIKE 'sqlite_%'`)
	if err != nil {
		e.t.Fatalf("schema changed by %s; reading it: %v", input, err)
	}

	drops := []string{}

	for rows.Next() {
		var typ, name string

		if err := rows.Scan(&typ, &name); err != nil {
			e.t.Fatalf("schema changed by %s; reading it: %v", input, err)
		}

		drops = append(drops, "DROP "+strings.ToUpper(typ)+" IF EXISTS "+`"`+strings.ReplaceAll(name, `"`, `""`)+`"`)
	}

	rows.Close()

	for _, q := range drops {
		_, _ = e.h.Exec(q) // an index or trigger goes with its table: a second drop may find nothing
	}

	e.exec(c14CreateT1)
	e.exec(c14CreateCanary)
	e.seedCanary()

	if got := e.dump(`SELECT type,name,tbl_name,sql FROM sqlite_master ORDER BY name`); got != e.schema {
		e.t.Fatalf("schema changed by %s and could not be restored: %s", input, got)
	}
}

func (e *c14Env) seedCanary() {
	e.exec(`INSERT INTO canary VALUES ('` + c14Marker + `-1', 987654321), ('` + c14Marker + `-2', 987654322)`)
}

// expected rows of a filter with a known meaning
func (e *c14Env) matching(x *c14Expr) ([]c14Row, bool) {
	var res []c14Row

	for _, row := range e.rows {
		if x == nil {
			res = append(res, row)

			continue
		}

		switch x.eval(row) {
		case 1:
			res = append(res, row)
		case -2:
			return nil, false
		}
	}

	return res, true
}

// O4: rows returned / deleted / updated are exactly those the filter selects.
func (e *c14Env) meaning(rq *c14Req, status int, body []byte, input string) {
	after := e.current()

	if rq.hostile {
		// every hostile request carries the guard filter EQ(id,-424242): if it is accepted nothing may match
		if status != http.StatusOK {
			if c14IDs(after) != c14IDs(e.rows) || !c14SameRows(after, e.rows) {
				e.fail("rejected-but-changed", "a rejected request changed the table", input, c14IDs(after), c14IDs(e.rows))
			}

			return
		}

		var resp struct {
			Count int   `json:"count"`
			Rows  []any `json:"rows"`
		}

		_ = json.Unmarshal(body, &resp)

		if rq.Kind == "put" || rq.Kind == "putabs" {
			return
		}

		if rq.Kind == "tx" && len(rq.Ops) > 0 && rq.Ops[len(rq.Ops)-1].Opcode == "insert" {
			return
		}

		guarded := false

		for _, f := range rq.Query["filter"] {
			guarded = guarded || f == "EQ(id,-424242)"
		}

		for _, op := range rq.Ops {
			for _, f := range op.Filters {
				guarded = guarded || f == "EQ(id,-424242)"
			}
		}

		// an aggregate column returns one row whatever the filter selects
		aggregate := strings.Contains(strings.Join(rq.Query["columns"], ","), "count(")
		for _, op := range rq.Ops {
			aggregate = aggregate || strings.Contains(strings.Join(op.Columns, ","), "count(")
		}

		if guarded && (!c14SameRows(after, e.rows) || (!aggregate && (resp.Count != 0 || len(resp.Rows) != 0))) {
			e.fail("guard-bypassed", "a request whose filters include one that matches no row read or changed rows",
				input, fmt.Sprintf("count=%d rows=%d table=%s", resp.Count, len(resp.Rows), c14IDs(after)), "nothing")
		}

		return
	}

	want, ok := e.matching(rq.expr)
	if !ok {
		return
	}

	if status != http.StatusOK {
		e.stats.Inc("meaning_rejected")

		if !c14SameRows(after, e.rows) {
			e.fail("rejected-but-changed", "a rejected request changed the table", input, c14IDs(after), c14IDs(e.rows))
		}

		return
	}

	e.stats.Inc("meaning_checked")

	switch rq.Kind {
	case "get", "getabs", "tx":
		if rq.Kind == "tx" && rq.Ops[0].Opcode != "readrows" {
			break
		}

		got := []string{}

		if rq.Kind == "getabs" {
			var resp struct {
				Columns []struct{ Name string } `json:"columns"`
				Rows    [][]any                 `json:"rows"`
			}

			if err := json.Unmarshal(body, &resp); err != nil {
				return
			}

			idx := -1

			for i, c := range resp.Columns {
				if c.Name == "id" {
					idx = i
				}
			}

			if idx < 0 {
				return
			}

			for _, row := range resp.Rows {
				got = append(got, fmt.Sprint(row[idx]))
			}
		} else {
			var resp struct {
				Rows []map[string]any `json:"rows"`
			}

			if err := json.Unmarshal(body, &resp); err != nil {
				return
			}

			for _, row := range resp.Rows {
				if _, ok := row["id"]; !ok {
					return
				}

				got = append(got, fmt.Sprint(row["id"]))
			}
		}

		exp := []string{}
		for _, row := range want {
			exp = append(exp, strconv.FormatInt(row.id, 10))
		}

		if rq.sortIDs {
			// rows are sorted by the unique id: paging has an exact meaning
			limit, start := 1000, 0

			if v := rq.Query["limit"]; len(v) == 1 {
				if i, err := strconv.Atoi(v[0]); err == nil && i > 0 {
					limit = i
				}
			}

			if v := rq.Query["start"]; len(v) == 1 {
				if i, err := strconv.Atoi(v[0]); err == nil && i > 1 {
					start = i - 1
				}
			}

			if desc := strings.HasPrefix(rq.Query["sort"][0], "~"); desc {
				for i, j := 0, len(exp)-1; i < j; i, j = i+1, j-1 {
					exp[i], exp[j] = exp[j], exp[i]
				}
			}

			if start > len(exp) {
				start = len(exp)
			}

			exp = exp[start:]
			if len(exp) > limit {
				exp = exp[:limit]
			}
		} else {
			sort.Strings(got)
			sort.Strings(exp)
		}

		if strings.Join(got, ",") != strings.Join(exp, ",") {
			e.fail("filter-meaning", "rows returned differ from the rows the filter selects", input,
				strings.Join(got, ","), strings.Join(exp, ","))
		}

		if !c14SameRows(after, e.rows) {
			e.fail("read-changed-table", "a read request changed the table", input, c14IDs(after), c14IDs(e.rows))
		}

	case "delete":
		keep := []c14Row{}
		del := map[int64]bool{}

		for _, row := range want {
			del[row.id] = true
		}

		for _, row := range e.rows {
			if !del[row.id] {
				keep = append(keep, row)
			}
		}

		if !c14SameRows(after, keep) {
			e.fail("filter-meaning", "rows deleted differ from the rows the filter selects", input, c14IDs(after), c14IDs(keep))
		}

	case "patch", "patchabs":
		// the payload sets note to a marker value; exactly the selected rows must carry it
		var val any

		if rq.Kind == "patch" {
			var m map[string]any

			_ = json.Unmarshal([]byte(rq.Body), &m)
			val = m["note"]
		} else {
			var m struct{ Rows [][]any }

			_ = json.Unmarshal([]byte(rq.Body), &m)
			val = m.Rows[0][0]
		}

		upd := map[int64]bool{}
		for _, row := range want {
			upd[row.id] = true
		}

		exp := make([]c14Row, len(e.rows))
		copy(exp, e.rows)

		for i := range exp {
			if upd[exp[i].id] {
				exp[i].note = val
			}
		}

		if !c14SameRows(after, exp) {
			e.fail("filter-meaning", "rows updated differ from the rows the filter selects (or the value was not stored verbatim)",
				input, fmt.Sprint(after), fmt.Sprint(exp))
		}
	}

	if rq.Kind == "tx" {
		op := rq.Ops[0]

		switch op.Opcode {
		case "delete":
			keep := []c14Row{}
			del := map[int64]bool{}

			for _, row := range want {
				del[row.id] = true
			}

			for _, row := range e.rows {
				if !del[row.id] {
					keep = append(keep, row)
				}
			}

			if !c14SameRows(after, keep) {
				e.fail("filter-meaning", "rows deleted by a transaction task differ from the rows the filter selects", input, c14IDs(after), c14IDs(keep))
			}
		case "update":
			upd := map[int64]bool{}
			for _, row := range want {
				upd[row.id] = true
			}

			exp := make([]c14Row, len(e.rows))
			copy(exp, e.rows)

			for i := range exp {
				if upd[exp[i].id] {
					exp[i].note = op.Data["note"]
				}
			}

			if !c14SameRows(after, exp) {
				e.fail("filter-meaning", "rows updated by a transaction task differ from the rows the filter selects", input, fmt.Sprint(after), fmt.Sprint(exp))
			}
		}
	}
}

func c14SameRows(a, b []c14Row) bool {
	if len(a) != len(b) {
		return false
	}

	x := append([]c14Row{}, a...)
	y := append([]c14Row{}, b...)

	sort.Slice(x, func(i, j int) bool { return x[i].id < x[j].id })
	sort.Slice(y, func(i, j int) bool { return y[i].id < y[j].id })

	for i := range x {
		if x[i].id != y[i].id || x[i].name != y[i].name || x[i].age != y[i].age || x[i].note != y[i].note {
			return false
		}
	}

	return true
}

// correspond compares the statements the handler executed with the model's text for the request.
func (e *c14Env) correspond(rq *c14Req, log []string) {
	var stmts []string

	for _, q := range log {
		if !strings.HasPrefix(q, "PRAGMA ") {
			stmts = append(stmts, q)
		}
	}

	full, _ := parsing.FullName(defs.SqliteProvider, "admin", rq.Table)
	last := func(prefix string) (string, bool) {
		for i := len(stmts) - 1; i >= 0; i-- {
			if strings.HasPrefix(stmts[i], prefix) && !strings.HasSuffix(stmts[i], " WHERE 1=0") {
				return stmts[i], true
			}
		}

		return "", false
	}
	fl, okf := c14Filters(rq.Query["filter"])
	_, hasSort := rq.Query["sort"]
	_, hasLimit := rq.Query["limit"]
	_, hasStart := rq.Query["start"]
	paging := c14Int(hasLimit, rq.Query["limit"]) + " " + c14Start(hasStart, rq.Query["start"])
	cols := strings.Join(rq.Query["columns"], ",")

	if !okf || !c14Valid(rq.Table, cols, strings.Join(rq.Query["sort"], "")) {
		e.stats.Inc("corr_skipped_invalid_utf8")

		return
	}

	// column-metadata statements
	for _, q := range stmts {
		if strings.HasPrefix(q, "SELECT * FROM ") && strings.HasSuffix(q, " WHERE 1=0") && rq.Kind != "tx" && !strings.Contains(rq.Table, ".") {
			e.corr("meta "+verifh.Hex(full), "ok "+verifh.Hex(q), "metadata statement of "+rq.Kind)
		}
	}

	switch rq.Kind {
	case "get", "getabs":
		if q, ok := last("SELECT "); ok {
			c := cols
			if rq.Kind == "get" && cols != "" {
				found := false

				for _, n := range strings.Split(strings.ReplaceAll(cols, " ", ""), ",") {
					if n == defs.RowIDName {
						found = true
					}
				}

				if !found {
					c += "," + defs.RowIDName
				}
			}

			e.corr(fmt.Sprintf("seldel S %s %s %s %s %s", verifh.Hex(full), verifh.Hex(c), fl, c14List(hasSort, rq.Query["sort"]), paging),
				"ok "+verifh.Hex(q), "statement executed by "+rq.Kind)
		}
	case "delete":
		if q, ok := last("DELETE "); ok {
			e.corr(fmt.Sprintf("seldel D %s - %s ~ n a", verifh.Hex(full), fl), "ok "+verifh.Hex(q), "statement executed by DeleteRows")
		}
	case "patch":
		if q, ok := last("UPDATE "); ok && len(rq.Query["columns"]) == 0 {
			var m map[string]any

			if json.Unmarshal([]byte(rq.Body), &m) == nil {
				keys := []string{}
				rowid := "0"

				for k, v := range m {
					if k == defs.RowIDName {
						if fmt.Sprint(v) != "" {
							rowid = "1"
						}

						continue
					}

					keys = append(keys, k)
				}

				sort.Strings(keys)

				if c14Valid(keys...) {
					e.corr(fmt.Sprintf("update %s %s %s %s 0", verifh.Hex(rq.Table), c14List(true, keys), fl, rowid),
						"ok "+verifh.Hex(q), "statement executed by UpdateRows")
				}
			}
		}
	case "patchabs":
		if q, ok := last("UPDATE "); ok {
			var m struct {
				Columns []struct{ Name string }
				Rows    [][]any
			}

			if json.Unmarshal([]byte(rq.Body), &m) == nil && len(m.Rows) == 1 {
				items := []string{}
				rowid := "0"

				for i, c := range m.Columns {
					items = append(items, c.Name)

					if c.Name == defs.RowIDName && i < len(m.Rows[0]) && fmt.Sprint(m.Rows[0][i]) != "" {
						rowid = "1"
					}
				}

				if c14Valid(items...) {
					e.corr(fmt.Sprintf("absupd %s %s %s %s", verifh.Hex(rq.Table), c14List(true, items), fl, rowid),
						"ok "+verifh.Hex(q), "statement executed by UpdateAbstractRows")
				}
			}
		}
	case "put":
		if q, ok := last("INSERT "); ok {
			var m map[string]any

			if json.Unmarshal([]byte(rq.Body), &m) == nil {
				keys := []string{"id", "name", "age", "note", defs.RowIDName}

				for k := range m {
					if !strings.Contains("|id|name|age|note|"+defs.RowIDName+"|", "|"+k+"|") {
						keys = append(keys, k)
					}
				}

				sort.Strings(keys)

				if c14Valid(keys...) {
					e.corr(fmt.Sprintf("insert %s %s", verifh.Hex(rq.Table), c14List(true, keys)), verifh.Hex(q), "statement executed by InsertRows")
				}
			}
		}
	case "tx":
		op := rq.Ops[len(rq.Ops)-1]
		fl, okf := c14Filters(op.Filters)

		if !okf || !c14Valid(op.Table) || !c14Valid(op.Columns...) {
			return
		}

		for _, q := range stmts {
			if strings.HasPrefix(q, "SELECT * FROM ") && strings.HasSuffix(q, " WHERE 1=0") && !strings.Contains(op.Table, ".") {
				e.corr("meta "+verifh.Hex(op.Table), "ok "+verifh.Hex(q), "metadata statement of a transaction task")
			}
		}

		// the tasks build a URL around the table name to carry their paging parameters; the model
		// covers the names that leave that URL's query alone
		if fake, err := url.Parse("http://localhost/tables/" + op.Table + "/rows?limit=1"); err != nil || fake.RawQuery != "limit=1" || fake.Fragment != "" {
			e.stats.Inc("corr_skipped_task_url")

			return
		}

		switch op.Opcode {
		case "select", "readrows":
			if q, ok := last("SELECT "); ok {
				lim := "n"
				if op.Opcode == "select" {
					lim = "1"
				}

				e.corr(fmt.Sprintf("seldel S %s %s %s ~ %s a", verifh.Hex(op.Table), verifh.Hex(strings.Join(op.Columns, ",")), fl, lim),
					"ok "+verifh.Hex(q), "statement executed by task "+op.Opcode)
			}
		case "delete":
			if q, ok := last("DELETE "); ok {
				e.corr(fmt.Sprintf("seldel D %s - %s ~ n a", verifh.Hex(op.Table), fl), "ok "+verifh.Hex(q), "statement executed by task delete")
			}
		case "update":
			if q, ok := last("UPDATE "); ok && len(op.Columns) == 0 {
				keys := []string{}

				for k := range op.Data {
					if k != defs.RowIDName {
						keys = append(keys, k)
					}
				}

				sort.Strings(keys)

				if c14Valid(keys...) {
					e.corr(fmt.Sprintf("txupd %s %s %s", verifh.Hex(op.Table), c14List(true, keys), fl), "ok "+verifh.Hex(q), "statement executed by task update")
				}
			}
		}
	}
}

// ---------------------------------------------------------------- stream "gen": the generators themselves

func (e *c14Env) genStream(r *rand.Rand, n int) {
	hostileFilter := func() string {
		switch r.Intn(5) {
		case 0:
			return c14RawFilter(r)
		case 1:
			return c14Mutate(r, c14GenExpr(r, 2).render(r))
		}

		return c14GenExpr(r, 3).render(r)
	}

	for i := 0; i < n; i++ {
		nf := r.Intn(4)
		filters := make([]string, nf)

		for j := range filters {
			filters[j] = hostileFilter()
		}

		table := c14TableName(r)
		cols := c14Columns(r)
		q := url.Values{}

		if r.Intn(2) == 0 {
			q["sort"] = c14Sort(r)
		}

		if r.Intn(2) == 0 {
			q["limit"] = []string{c14Number(r)}
		}

		if r.Intn(2) == 0 {
			q["start"] = []string{c14Number(r)}
		}

		for _, f := range filters {
			q.Add("filter", f)
		}

		u := &url.URL{Scheme: "http", Host: "localhost", Path: "/tables/" + table + "/rows", RawQuery: q.Encode()}
		fl, okf := c14Filters(filters)
		_, hasSort := q["sort"]
		_, hasLimit := q["limit"]
		_, hasStart := q["start"]

		e.stats.Inc("gen_inputs")

		if okf {
			e.corr("where "+fl, c14OkText(parsing.WhereClause(filters)), "WhereClause")
		}

		if c14Valid(cols) {
			e.corr("cols "+verifh.Hex(cols), verifh.Hex(parsing.ColumnList(cols)), "ColumnList")
		}

		if c14Valid(q["sort"]...) {
			e.corr("sort "+c14List(hasSort, q["sort"]), verifh.Hex(parsing.SortList(u)), "SortList")
		}

		e.corr("page "+c14Int(hasLimit, q["limit"])+" "+c14Start(hasStart, q["start"]), verifh.Hex(parsing.PagingClauses(u)), "PagingClauses")

		if c14Valid(table) {
			full, _ := parsing.FullName(defs.SqliteProvider, "admin", table)
			e.corr("fullname "+verifh.Hex(table), verifh.Hex(full), "FullName")
			e.corr("strip "+verifh.Hex(table), verifh.Hex(parsing.StripQuotes(table)), "StripQuotes")

			esc, err := parsing.SQLEscape(table)
			e.corr("escape "+verifh.Hex(table), c14OkText(esc, err), "SQLEscape")

			esc, err = parsing.SQLEscape(full)
			e.corr("escape "+verifh.Hex(full), c14OkText(esc, err), "SQLEscape")
		}

		if okf && c14Valid(table, cols) && c14Valid(q["sort"]...) {
			// the statement builders' texts also go through the statement lexing policy (checks/C14.py: one statement,
			// no comment, no word outside the literals but the generators' vocabulary and the plain sort names):
			// the oracle for the positions whose hostile names the handlers refuse before they build a statement
			bare := []string{}

			for _, v := range q["sort"] {
				for _, p := range strings.Split(strings.TrimPrefix(v, "~"), ",") {
					bare = append(bare, strings.TrimSpace(p))
				}
			}

			lex := func(builder string, keys []string, text string, err error) {
				// a text with the syntax-error marker is never executed (every caller refuses it)
				if err != nil || strings.Contains(text, parsing.SyntaxErrorPrefix) {
					return
				}

				in, _ := json.Marshal(map[string]any{"builder": builder, "table": table, "columns": cols, "query": q, "keys": keys})
				e.stats.Inc("gen_statements")
				e.stmts.Write(c14Stmt{Req: string(in), SQL: text, Table: table, Bare: bare})
			}

			verb := []string{"SELECT", "DELETE"}[r.Intn(2)]
			s, err := parsing.FormSelectorDeleteQuery(u, filters, cols, table, "admin", verb, defs.SqliteProvider)
			lex("FormSelectorDeleteQuery "+verb, nil, s, err)
			e.corr(fmt.Sprintf("seldel %s %s %s %s %s %s %s", verb[:1], verifh.Hex(table), verifh.Hex(cols), fl, c14List(hasSort, q["sort"]),
				c14Int(hasLimit, q["limit"]), c14Start(hasStart, q["start"])), c14OkText(s, err), "FormSelectorDeleteQuery")

			// update / insert builders: item names are hostile; the column list makes every name known
			nk := r.Intn(4)
			items := map[string]any{}
			columns := []defs.DBColumn{}

			for j := 0; j < nk; j++ {
				k := c14Hostile(r)
				if r.Intn(4) == 0 {
					k = c14Delimited(r, "key")
				}

				if !c14Valid(k) {
					continue
				}

				items[k] = "v"
				columns = append(columns, defs.DBColumn{Name: k, Type: "string"})
			}

			rowid := "0"

			if r.Intn(3) == 0 {
				items[defs.RowIDName] = []any{"r1", "", 5}[r.Intn(3)]
			}

			if v, ok := items[defs.RowIDName]; ok && fmt.Sprint(v) != "" {
				rowid = "1"
			}

			keys := []string{}

			for k := range items {
				if k != defs.RowIDName {
					keys = append(keys, k)
				}
			}

			sort.Strings(keys)

			if !strings.ContainsAny(table, "/?#%") && table != "" {
				s, _, err := parsing.FormUpdateQuery(u, "admin", defs.SqliteProvider, columns, items)
				lex("FormUpdateQuery", keys, s, err)
				e.corr(fmt.Sprintf("update %s %s %s %s 0", verifh.Hex(table), c14List(true, keys), fl, rowid), c14OkText(s, err), "FormUpdateQuery")
			}

			all := append([]string{}, keys...)
			if _, ok := items[defs.RowIDName]; ok {
				all = append(all, defs.RowIDName)
				sort.Strings(all)
			}

			s, _, err = parsing.FormInsertQuery(table, "admin", defs.SqliteProvider, columns, items)
			lex("FormInsertQuery", all, s, err)

			if err == nil {
				e.corr(fmt.Sprintf("insert %s %s", verifh.Hex(table), c14List(true, all)), verifh.Hex(s), "FormInsertQuery")
			}

			full, _ := parsing.FullName(defs.SqliteProvider, "admin", table)
			vals := make([]any, len(all)+r.Intn(2))

			for j := range vals {
				vals[j] = "x"
			}

			s, _ = formAbstractInsertQuery(full, all, vals)
			lex("formAbstractInsertQuery", all, s, nil)
			e.corr(fmt.Sprintf("absins %s %s %d", verifh.Hex(table), c14List(true, all), len(vals)), verifh.Hex(s), "formAbstractInsertQuery")

			hasRow := "0"

			for j, k := range all {
				if k == defs.RowIDName && j < len(vals) {
					hasRow = "1"
				}
			}

			s, _, err = formAbstractUpdateQuery(u, full, all, vals)
			lex("formAbstractUpdateQuery", all, s, err)
			e.corr(fmt.Sprintf("absupd %s %s %s %s", verifh.Hex(table), c14List(true, all), fl, hasRow), c14OkText(s, err), "formAbstractUpdateQuery")
		}
	}
}

var c14Ops = []string{"EQ", "LT", "LE", "GT", "GE", "AND", "OR", "NOT", "HAS", "HASALL", "HASANY", "CONTAINS", "CONTAINSALL", "haſ", "contaınſ", "FAUX", "eq", "nıl"}

func c14RawFilter(r *rand.Rand) string {
	var b strings.Builder

	atoms := []string{"(", ")", ",", ".", "nil", ".nil", "-", "+", "--", "/*", "//", ";", "\n", " ", "'", "\"", "`", "1", "1.5e-3", "0x1p-2", "true", "false",
		"name", "id", "type", "make", "if", "func", "interface", "int", "string", "NULL", "-1", "- 1", "-\"1 OR 1=1\"", "-name", "+(1)", "5i", "@", "<=", "*", "a'b'c"}

	n := 1 + r.Intn(10)
	for i := 0; i < n; i++ {
		switch r.Intn(5) {
		case 0:
			b.WriteString(c14Ops[r.Intn(len(c14Ops))])
			b.WriteString("(")
		case 1:
			b.WriteString(strconv.Quote(c14Hostile(r)))
		case 2:
			b.WriteString(c14Hostile(r))
		default:
			b.WriteString(atoms[r.Intn(len(atoms))])
		}
	}

	return b.String()
}

func c14Mutate(r *rand.Rand, s string) string {
	rs := []rune(s)
	if len(rs) == 0 {
		return s
	}

	switch r.Intn(6) {
	case 0: // drop a character
		i := r.Intn(len(rs))

		return string(rs[:i]) + string(rs[i+1:])
	case 1: // insert a nasty fragment
		i := r.Intn(len(rs) + 1)

		return string(rs[:i]) + c14Nasty[r.Intn(len(c14Nasty))] + string(rs[i:])
	case 2: // trailing text
		return s + []string{" garbage", ")", " OR 1=1", ";DROP TABLE canary", ",", " --", "\nEQ(id,1)"}[r.Intn(7)]
	case 3: // signed operand
		return strings.Replace(s, ",", ",-", 1)
	case 4: // replace an operator
		return strings.Replace(s, "(", c14Ops[r.Intn(len(c14Ops))]+"(", 1)
	}

	i := r.Intn(len(rs))
	rs[i] = c14Alphabet[r.Intn(len(c14Alphabet))]

	return string(rs)
}

// ---------------------------------------------------------------- structurally malformed filters
//
// A filter that is malformed BY CONSTRUCTION: a well-formed expression of the documented grammar
// (OP(operand,...) with EQ LT LE GT GE taking two operands, NOT one, AND OR two or more) in which exactly one
// operand carries one structural defect -- an operator with too many / too few / no operands, a missing or an
// extra parenthesis, a dangling comma, a missing or unknown operator name, a sign before something that is not a
// number, a token that is no term, text after a complete operand.  The defective operand is placed at EVERY position
// of the operand lists around it (first, middle, last; followed by further well-formed operands or not), nested
// up to three levels, and the filter may begin with a quoted term that holds a backslash-quote (one token for the
// filter tokenizer; a closed literal followed by live SQL for SQLite, should the raw text ever reach a statement).
// Direct oracle (no model): no such filter is accepted by any builder or handler; and when one is, the statement
// goes through the same safety oracles as every other (guard filter, canary, lexing policy).

var c14Defects = []string{"not-extra", "not-none", "cmp-one", "cmp-three", "cmp-none", "list-one", "list-none", "no-close", "extra-close",
	"no-open", "comma-trail", "comma-lead", "comma-double", "no-op", "bad-op", "signed-term", "special-term", "stray-text", "has-nocomma"}

// c14QuotedTerm is a quoted term with a backslash-quote inside, followed (inside the term) by text that is live SQL
// for a reader that takes the backslash-quote as the end of the literal.
func c14QuotedTerm(r *rand.Rand) string {
	q := []string{"'", "'", "'", "\""}[r.Intn(4)]
	head := []string{"a", "", "x y", "tom"}[r.Intn(4)]
	live := []string{" OR 1=1) OR 1=1 /*", " OR 1=1 --", "); DELETE FROM canary /*", ") OR 1=1 /*", " OR 1=1) OR (" + q + q + "=" + q,
		") UNION SELECT secret,n,n,n,n FROM canary /*", ";DROP TABLE canary;--", " OR 1=1 /*", ""}[r.Intn(9)]

	return q + head + `\` + q + live + q
}

func c14BadOperand(r *rand.Rand, good func() string) (string, string) {
	cmp := []string{"EQ", "LT", "LE", "GT", "GE", "eq"}[r.Intn(6)]
	list := []string{"AND", "OR", "and", "or"}[r.Intn(4)]
	d := c14Defects[r.Intn(len(c14Defects))]
	g := good() // always OP(...)

	switch d {
	case "not-extra":
		s := "NOT(" + g

		for i, n := 0, 1+r.Intn(2); i < n; i++ {
			s += []string{",", ", "}[r.Intn(2)] + good()
		}

		return s + ")", d
	case "not-none":
		return "NOT()", d
	case "cmp-one":
		return cmp + "(" + []string{"id", "1", `"a"`, g}[r.Intn(4)] + ")", d
	case "cmp-three":
		return cmp + "(" + []string{"id,1,2", "name,\"a\",\"b\"", "id,1," + g, "id," + g + "," + good()}[r.Intn(4)] + ")", d
	case "cmp-none":
		return cmp + "()", d
	case "list-one":
		return list + "(" + g + ")", d
	case "list-none":
		return list + "()", d
	case "no-close":
		return g[:len(g)-1], d
	case "extra-close":
		return g + ")", d
	case "no-open":
		return strings.Replace(g, "(", " ", 1), d
	case "comma-trail":
		return g[:len(g)-1] + ",)", d
	case "comma-lead":
		return strings.Replace(g, "(", "(,", 1), d
	case "comma-double":
		return strings.Replace(g, ",", ",,", 1), d
	case "no-op":
		return "(" + []string{"id,1", g + "," + good(), g}[r.Intn(3)] + ")", d
	case "bad-op":
		return []string{"FAUX", "XOR", "IN", "LIKE", "NE"}[r.Intn(5)] + "(" + []string{"id,1", g + "," + good()}[r.Intn(2)] + ")", d
	case "signed-term":
		return []string{"-name", "+name", `-"1 OR 1=1"`, "-(1)", "- -1", "-true", `-"1) OR 1=1 --"`, "-'a'"}[r.Intn(8)], d
	case "special-term":
		return []string{"@", "*", "<=", "=", "(", ")", "1=1", "id=1", "1 OR 1=1", "name id", "1 1"}[r.Intn(11)], d
	case "stray-text":
		return g + []string{" OR 1=1", " garbage", " 1", " (", " " + good()}[r.Intn(5)], d
	}

	return []string{"HAS", "CONTAINS", "HASALL", "hasany"}[r.Intn(4)] + "(name" + []string{` "a")`, `,"a" "b")`, `,"a" x)`, `,"a",)`, `,,"a")`}[r.Intn(5)], "has-nocomma"
}

// c14Embed makes s one operand of a well-formed operator; in a list every position is taken in turn.
func c14Embed(r *rand.Rand, s string, good func() string) string {
	cmp := []string{"EQ", "LT", "LE", "GT", "GE"}[r.Intn(5)]
	sep := func() string { return []string{",", ", ", " , "}[r.Intn(3)] }

	switch r.Intn(10) {
	case 0:
		return []string{"NOT(", "not("}[r.Intn(2)] + s + ")"
	case 1:
		return cmp + "(" + s + sep() + []string{"1", `"a"`, "id"}[r.Intn(3)] + ")"
	case 2:
		return cmp + "(" + []string{"id", "name"}[r.Intn(2)] + sep() + s + ")"
	case 3: // the HAS family: the term, or a value with well-formed values before and / or after it
		w := [][2]string{{"", `,"a","b")`}, {"name,", `,"b")`}, {"name,", `,"b","c")`}, {`name,"a",`, ")"}, {`name,"a",`, `,"c")`}}[r.Intn(5)]

		return []string{"HAS", "CONTAINSALL", "hasany"}[r.Intn(3)] + "(" + w[0] + s + w[1]
	}

	n := 2 + r.Intn(3)
	p := r.Intn(n)
	parts := make([]string, n)

	for i := range parts {
		if parts[i] = s; i != p {
			parts[i] = good()
		}
	}

	out := []string{"AND", "OR", "and", "or"}[r.Intn(4)] + "("

	for i, part := range parts {
		if i > 0 {
			out += sep()
		}

		out += part
	}

	return out + ")"
}

func (e *c14Expr) hasNullMarker() bool {
	if v, ok := e.val.(string); ok && (v == "." || v == "nil") {
		return true
	}

	for _, a := range e.args {
		if a.hasNullMarker() {
			return true
		}
	}

	return false
}

// c14MalformedFilter returns a filter that is malformed by construction, and the id of its defect.
func c14MalformedFilter(r *rand.Rand) (string, string) {
	// the well-formed operands stay inside the grammar the oracle reasons about: the implementation reads a string
	// constant spelled "." as the NULL marker ".nil" and drops the token after it (EQ(name,".") is refused for a missing
	// parenthesis), and any token before one spelled "nil" -- the string "nil" too -- as NULL (EQ(name,,"nil") is accepted
	// as "name" = NULL): quirks of the filter's meaning, outside C14, by which a second defect repairs the first
	good := func() string {
		for {
			if x := c14GenExpr(r, 1); !x.hasNullMarker() {
				return x.render(r)
			}
		}
	}
	s, defect := c14BadOperand(r, good)

	for l := r.Intn(4); l > 0; l-- {
		s = c14Embed(r, s, good)
	}

	// a second defect that cannot cancel the first: one closing parenthesis fewer, anywhere, in a filter whose
	// parentheses balance so far (or lack one already) -- e.g. NOT(x, y without its own ")" among further operands
	if !strings.Contains("|extra-close|no-open|special-term|stray-text|", "|"+defect+"|") && r.Intn(3) == 0 {
		at := []int{}

		for i := range s {
			if s[i] == ')' {
				at = append(at, i)
			}
		}

		if len(at) > 0 {
			i := at[r.Intn(len(at))]
			s = s[:i] + s[i+1:]
			defect += "+no-close"
		}
	}

	// further clauses of the same filter: a quoted term with a backslash-quote first, well-formed clauses around
	if r.Intn(4) == 0 {
		s = good() + "," + s
	}

	if r.Intn(4) == 0 {
		s = s + "," + good()
	}

	if r.Intn(3) == 0 {
		s = c14QuotedTerm(r) + []string{",", ", "}[r.Intn(2)] + s
	}

	return s, defect
}

const c14Guard = "EQ(id,-424242)"

// malformedGen: the malformed filters straight into the builders.
func (e *c14Env) malformedGen(r *rand.Rand, n int) {
	e.reset(r)

	count := func(table string) int {
		var c int
		if err := e.h.QueryRow(`SELECT count(*) FROM ` + table).Scan(&c); err != nil {
			return -1
		}

		return c
	}

	for i := 0; i < n; i++ {
		f, defect := c14MalformedFilter(r)
		filters := []string{f}

		switch r.Intn(4) {
		case 0:
			filters = []string{c14Guard, f}
		case 1:
			filters = []string{f, c14Guard}
		case 2:
			filters = []string{c14Guard, f, c14GenExpr(r, 1).render(r)}
		}

		inb, _ := json.Marshal(map[string]any{"builder": "WhereClause", "filters": filters, "defect": defect})
		input := string(inb)

		e.stats.Inc("malformed_gen_inputs")
		e.stats.Inc("defect_" + defect)

		if !e.seen["m\x00"+f] {
			e.seen["m\x00"+f] = true
			e.stats.Inc("distinct_nontrivial")
		}

		where, err := parsing.WhereClause(filters)
		if err == nil {
			e.failCapped("W"+defect, "malformed-filter-accepted", "WhereClause accepted a filter with a structural defect ("+defect+")", input, where, "an error")
		}

		fl, okf := c14Filters(filters)
		if !okf {
			continue
		}

		e.corr("where "+fl, c14OkText(where, err), "WhereClause (malformed "+defect+")")

		u := &url.URL{Scheme: "http", Host: "localhost", Path: "/tables/t1/rows"}
		verb := []string{"SELECT", "DELETE"}[r.Intn(2)]
		s, err := parsing.FormSelectorDeleteQuery(u, filters, "", "t1", "admin", verb, defs.SqliteProvider)
		e.corr(fmt.Sprintf("seldel %s %s - %s ~ n a", verb[:1], verifh.Hex("t1"), fl), c14OkText(s, err), "FormSelectorDeleteQuery (malformed "+defect+")")

		if err != nil {
			continue
		}

		// accepted: the statement goes through the lexing policy, and is run on the database with the canary table
		inb, _ = json.Marshal(map[string]any{"builder": "FormSelectorDeleteQuery " + verb, "table": "t1", "filters": filters, "defect": defect})
		input = string(inb)

		e.failCapped("F"+defect, "malformed-filter-accepted", "FormSelectorDeleteQuery built a statement from a filter with a structural defect ("+defect+")", input, s, "an error")
		e.stats.Inc("gen_statements")
		e.stmts.Write(c14Stmt{Req: input, SQL: s, Table: "t1"})

		guarded := len(filters) > 1
		t1, canary := count("t1"), count("canary")

		tx, terr := e.h.Begin()
		if terr != nil {
			e.t.Fatal(terr)
		}

		matched := -1

		if verb == "DELETE" {
			if res, xerr := tx.Exec(s); xerr == nil {
				a, _ := res.RowsAffected()
				matched = int(a)
			}
		} else if rows, qerr := tx.Query(s); qerr == nil {
			for matched = 0; rows.Next(); matched++ {
			}

			rows.Close()
		}

		var t1After, canaryAfter int

		_ = tx.QueryRow(`SELECT count(*) FROM t1`).Scan(&t1After)
		_ = tx.QueryRow(`SELECT count(*) FROM canary`).Scan(&canaryAfter)
		_ = tx.Rollback()

		if got := e.dump(`SELECT type,name,tbl_name,sql FROM sqlite_master ORDER BY name`); got != e.schema {
			e.fail("schema-modified", "the statement built from a malformed filter changed the database schema", input, s, e.schema)
			e.restoreSchema(input)
			e.reset(r)

			continue
		}

		if canaryAfter != canary {
			e.failCapped("C"+defect, "canary-modified", "the statement built from a malformed filter changed a table it did not address", input, s,
				fmt.Sprintf("canary rows %d, got %d", canary, canaryAfter))
		}

		if guarded && (t1After != t1 || matched > 0) {
			e.failCapped("G"+defect, "guard-bypassed", "the statement built from filters that include one that matches no row read or changed rows", input, s,
				fmt.Sprintf("t1 rows %d -> %d, matched %d", t1, t1After, matched))
		}
	}
}

// malformedRequest: a request of every kind that takes a filter, with a malformed filter (or, one time in six, a
// well-formed one whose string operand is a quoted term with a backslash-quote) next to the guard filter.
func (e *c14Env) malformedRequest(r *rand.Rand) *c14Req {
	rq := &c14Req{Table: "t1", Query: map[string][]string{}, hostile: true}

	var f string

	if r.Intn(6) == 0 {
		head := []string{"EQ(name,", "OR(EQ(id,-1),EQ(note,", "NOT(GE(name,", ""}[r.Intn(4)]
		f = head + c14QuotedTerm(r) + strings.Repeat(")", strings.Count(head, "("))

		if r.Intn(3) == 0 {
			f += ",EQ(id,1)"
		}
	} else {
		f, rq.Defect = c14MalformedFilter(r)
	}

	filters := []string{c14Guard, f}
	if r.Intn(2) == 0 {
		filters = []string{f, c14Guard}
	}

	rq.Kind = []string{"get", "getabs", "delete", "patch", "patchabs", "tx"}[r.Intn(6)]

	switch rq.Kind {
	case "patch":
		rq.Body = `{"note":"pwn"}`
	case "patchabs":
		rq.Body = `{"columns":[{"name":"note"}],"rows":[["pwn"]]}`
	case "tx":
		op := defs.TXOperation{Table: "t1", Filters: filters}
		op.Opcode = []string{"select", "readrows", "delete", "update"}[r.Intn(4)]

		if op.Opcode == "update" {
			op.Data = map[string]any{"note": "pwn"}
		}

		rq.Ops = []defs.TXOperation{op}

		return rq
	}

	rq.Query["filter"] = filters

	return rq
}

func c14TableName(r *rand.Rand) string {
	switch r.Intn(8) {
	case 0:
		return c14Hostile(r)
	case 1:
		return "\"t1\""
	case 3:
		return c14Wrapped(r, c14Delimited(r, "table"))
	case 2:
		return []string{"t1 union select * from canary --", "canary --", "t1\"", "\"t1", "t1;", "t1'", "t1 --", "main.t1", "a.b.c", "\"a\".\"b\"", "t1\" WHERE 1=1 --"}[r.Intn(11)]
	}

	return "t1"
}

func c14Columns(r *rand.Rand) string {
	n := r.Intn(4)
	parts := make([]string, n)

	for i := range parts {
		switch r.Intn(5) {
		case 0:
			parts[i] = c14Hostile(r)
		case 2:
			parts[i] = c14Delimited(r, "column")
		case 1:
			parts[i] = []string{"count(*)", "count(*) as count", " count(*) ", "count(*) from canary --", "COUNT(*)", "count(*) as c", "count(secret) from canary", ""}[r.Intn(8)]
		default:
			parts[i] = []string{"id", "name", " age", "note ", defs.RowIDName}[r.Intn(5)]
		}
	}

	return strings.Join(parts, ",")
}

func c14Sort(r *rand.Rand) []string {
	n := 1 + r.Intn(2)
	v := make([]string, n)

	for i := range v {
		switch r.Intn(5) {
		case 0:
			v[i] = c14Hostile(r)
		case 2:
			v[i] = []string{"", "~", "id,", " "}[r.Intn(4)] + c14Delimited(r, "sort")
		case 1:
			v[i] = []string{"name,(select secret from canary)", "(select 1);delete from canary;--", "~name", "id, age", "~", "", " ", "a,,b", "1", "name desc", "na me", "_x9", "9x"}[r.Intn(13)]
		default:
			v[i] = []string{"id", "~id", "name,id", "age"}[r.Intn(4)]
		}
	}

	return v
}

func c14Number(r *rand.Rand) string {
	switch r.Intn(6) {
	case 0:
		return c14Hostile(r)
	case 1:
		return []string{"0", "-1", "-7", "1; drop table canary", "0x10", "'a'", " 5 ", "1e3", "99999999999999999999"}[r.Intn(9)]
	}

	return strconv.Itoa(1 + r.Intn(6))
}

// ---------------------------------------------------------------- stream "req": requests

func (e *c14Env) genRequest(r *rand.Rand) *c14Req {
	rq := &c14Req{Table: "t1", Query: map[string][]string{}}
	kinds := []string{"get", "get", "getabs", "delete", "patch", "patchabs", "put", "putabs", "tx", "tx"}
	rq.Kind = kinds[r.Intn(len(kinds))]

	mode := r.Intn(10) // 0-4 meaning, 5-9 hostile
	filters := []string{}

	switch {
	case mode < 5:
		if r.Intn(5) > 0 {
			rq.expr = c14GenExpr(r, 3)
			filters = append(filters, rq.expr.render(r))
		}
	default:
		rq.hostile = true

		nf := 1 + r.Intn(2)
		for i := 0; i < nf; i++ {
			switch r.Intn(4) {
			case 0:
				filters = append(filters, c14RawFilter(r))
			case 1:
				filters = append(filters, c14Mutate(r, c14GenExpr(r, 2).render(r)))
			default:
				filters = append(filters, []string{
					`EQ(name,"a'")`, `EQ(note," ) OR 1=1 --")`, `EQ(id,-"1 OR 1=1")`, `EQ(id,-"1) OR 1=1 --")`, `OR(EQ(id,-424242),EQ(name,"a'"))`,
					`EQ(note," ) OR 1=1 OR (''='")`, `EQ(name,"bo'b")`, `EQ(id,1) OR 1=1`, `EQ(id,1 OR 1=1)`, `EQ(id,1))OR((1=1`,
					`EQ(id,-"1) UNION SELECT secret,n,n,n,n FROM canary --")`, `NOT(EQ(id,--))`, `EQ(name,'x') --`, `EQ(name,"\x27 OR 1=1 --")`,
					`EQ(name,"a\\")`, `EQ(name, "a'"),EQ(note, " ) OR 1=1 --")`, `OR(EQ(name,"a'"),EQ(note," ) OR 1=1 --"))`,
				}[r.Intn(17)])
			}
		}

		guard := "EQ(id,-424242)"
		if r.Intn(2) == 0 {
			filters = append([]string{guard}, filters...)
		} else {
			filters = append(filters, guard)
		}

		if r.Intn(3) == 0 {
			filters = append([]string{guard}, filters...)
		}
	}

	if r.Intn(12) == 0 {
		rq.Table = c14TableName(r)
		if strings.ContainsAny(rq.Table, "/?#%") {
			rq.Table = "t1"
		}

		if rq.Table != "t1" {
			rq.expr = nil
			rq.hostile = true
		}
	}

	if rq.hostile && rq.Table == "t1" && r.Intn(8) == 0 {
		if t := c14Wrapped(r, c14Delimited(r, "table")); !strings.ContainsAny(t, "/?#%") && utf8.ValidString(t) {
			rq.Table = t
			rq.expr = nil
		}
	}

	note := c14Hostile(r)
	if !utf8.ValidString(note) {
		note = "x"
	}

	// a hostile name for a JSON row key / payload column
	hostileKey := func() string {
		if r.Intn(2) == 0 {
			return c14Delimited(r, "key")
		}

		return strings.ToValidUTF8(c14Hostile(r), "?")
	}

	switch rq.Kind {
	case "get", "getabs":
		rq.Query["filter"] = filters

		if rq.hostile {
			if r.Intn(2) == 0 {
				rq.Query["sort"] = c14Sort(r)
			}

			if r.Intn(2) == 0 {
				rq.Query["columns"] = []string{c14Columns(r)}
			}

			if r.Intn(3) == 0 {
				rq.Query["limit"] = []string{c14Number(r)}
			}

			if r.Intn(3) == 0 {
				rq.Query["start"] = []string{c14Number(r)}
			}
		} else {
			switch r.Intn(4) {
			case 0:
				rq.sortIDs = true
				rq.Query["sort"] = []string{[]string{"id", "~id"}[r.Intn(2)]}

				if r.Intn(2) == 0 {
					rq.Query["limit"] = []string{strconv.Itoa(r.Intn(6))}
				}

				if r.Intn(2) == 0 {
					rq.Query["start"] = []string{strconv.Itoa(r.Intn(6))}
				}
			case 1:
				rq.Query["sort"] = []string{[]string{"name", "age,id", "~note"}[r.Intn(3)]}
			case 2:
				rq.Query["columns"] = []string{[]string{"id,name", "id", "note, id"}[r.Intn(3)]}
			}
		}
	case "delete":
		rq.Query["filter"] = filters
	case "patch":
		rq.Query["filter"] = filters
		b, _ := json.Marshal(map[string]any{"note": note})
		rq.Body = string(b)

		if rq.hostile && r.Intn(4) == 0 {
			b, _ := json.Marshal(map[string]any{hostileKey(): note})
			rq.Body = strings.ToValidUTF8(string(b), "?")
		}
	case "patchabs":
		rq.Query["filter"] = filters
		col := "note"

		if rq.hostile && r.Intn(4) == 0 {
			col = hostileKey()
		}

		b, _ := json.Marshal(map[string]any{"columns": []map[string]any{{"name": col}}, "rows": [][]any{{note}}})
		rq.Body = string(b)
	case "put", "putabs":
		rq.hostile = true
		rq.expr = nil
		row := map[string]any{"id": 100 + r.Intn(100), "name": strings.ToValidUTF8(c14Hostile(r), "?"), "age": r.Intn(90), "note": note}

		if k := hostileKey(); r.Intn(5) == 0 {
			if _, standard := row[k]; !standard && k != defs.RowIDName {
				row[k] = "x"
			}
		}

		if rq.Kind == "putabs" {
			row[defs.RowIDName] = "" // InsertAbstractRows indexes the row by the row-id column position
		} else if r.Intn(4) == 0 {
			rq.Query["upsert"] = []string{[]string{"name", "id", "name,note", ""}[r.Intn(4)]}
		}

		b, _ := json.Marshal(row)
		rq.Body = string(b)
	case "tx":
		op := defs.TXOperation{Table: rq.Table, Filters: filters}
		op.Opcode = []string{"select", "readrows", "delete", "update", "insert", "select", "readrows", "delete", "update", "insert", "drop"}[r.Intn(11)]

		switch op.Opcode {
		case "drop":
			// only names that are not a table of the database when taken as ONE identifier: nothing may be dropped
			op.Filters = nil
			op.Table = c14Delimited(r, "table")

			if r.Intn(3) == 0 {
				op.Table = strings.ToValidUTF8(c14Hostile(r), "?")
			}

			if op.Table == "t1" || op.Table == "canary" || op.Table == "" {
				op.Table = `"t1"`
			}

			rq.hostile, rq.expr = true, nil
		case "update":
			op.Data = map[string]any{"note": note}

			if rq.hostile && r.Intn(4) == 0 {
				op.Data = map[string]any{hostileKey(): note}
			}
		case "insert":
			op.Filters = nil
			op.Data = map[string]any{"id": 100 + r.Intn(100), "name": strings.ToValidUTF8(c14Hostile(r), "?"), "age": r.Intn(90), "note": note}
			rq.hostile, rq.expr = true, nil
		case "select", "readrows":
			if rq.hostile && r.Intn(2) == 0 {
				op.Columns = strings.Split(c14Columns(r), ",")
			}

			if op.Opcode == "select" {
				rq.expr = nil // one row only: no exact meaning to compare
				if !rq.hostile {
					rq.hostile = true
					op.Filters = append(op.Filters, "EQ(id,-424242)")
				}
			}
		}

		rq.Ops = []defs.TXOperation{op}
	}

	if rq.hostile && r.Intn(4) == 0 {
		c14PlantDelimited(r, rq)
	}

	return rq
}

// c14PlantDelimited turns a hostile request into one whose only hostile part is an already-delimited name in ONE
// identifier position the request kind has; the filter is the guard alone, so that the request is not refused for
// its filter before the name reaches a statement.
func c14PlantDelimited(r *rand.Rand, rq *c14Req) {
	const guard = "EQ(id,-424242)"

	table := func() string {
		for {
			if t := c14Wrapped(r, c14Delimited(r, "table")); !strings.ContainsAny(t, "/?#%") && utf8.ValidString(t) {
				return t
			}
		}
	}

	key := func() string { return strings.ToValidUTF8(c14Delimited(r, "key"), "?") }
	rq.expr, rq.sortIDs = nil, false

	if rq.Kind == "tx" {
		op := &rq.Ops[0]

		if len(op.Filters) > 0 {
			op.Filters = []string{guard}
		}

		switch pos := r.Intn(3); {
		case op.Opcode == "drop":
		case pos == 0 && (op.Opcode == "select" || op.Opcode == "readrows"):
			op.Columns = []string{strings.ToValidUTF8(c14Delimited(r, "column"), "?")}
		case pos == 0 && (op.Opcode == "update" || op.Opcode == "insert"):
			op.Data[key()] = "pwn"
		default:
			op.Table = table()
		}

		return
	}

	if _, ok := rq.Query["filter"]; ok {
		rq.Query["filter"] = []string{guard}
	}

	switch pos := r.Intn(3); {
	case pos == 0 && (rq.Kind == "get" || rq.Kind == "getabs"):
		rq.Query["columns"] = []string{strings.ToValidUTF8(c14Delimited(r, "column"), "?")}
	case pos == 1 && (rq.Kind == "get" || rq.Kind == "getabs"):
		rq.Query["sort"] = []string{[]string{"", "~"}[r.Intn(2)] + strings.ToValidUTF8(c14Delimited(r, "sort"), "?")}
	case pos == 0 && rq.Kind == "patch":
		b, _ := json.Marshal(map[string]any{key(): "pwn"})
		rq.Body = string(b)
	case pos == 0 && rq.Kind == "patchabs":
		b, _ := json.Marshal(map[string]any{"columns": []map[string]any{{"name": key()}}, "rows": [][]any{{"pwn"}}})
		rq.Body = string(b)
	default:
		rq.Table = table()
	}
}

// insertOracle: hostile row values are stored verbatim
func (e *c14Env) insertOracle(rq *c14Req, status int) {
	if status != http.StatusOK || rq.Table != "t1" {
		return
	}

	if _, upsert := rq.Query["upsert"]; upsert {
		e.stats.Inc("upsert_not_checked") // an upsert may turn into an update: no insert to check

		return
	}

	var row map[string]any

	switch rq.Kind {
	case "put", "putabs":
		_ = json.Unmarshal([]byte(rq.Body), &row)
	case "tx":
		if rq.Ops[0].Opcode != "insert" {
			return
		}

		row = rq.Ops[0].Data
	default:
		return
	}

	var name, note sql.NullString

	id, _ := strconv.ParseInt(fmt.Sprint(row["id"]), 10, 64)

	err := e.h.QueryRow(`SELECT name, note FROM t1 WHERE id = ?`, id).Scan(&name, &note)
	if err != nil || name.String != fmt.Sprint(row["name"]) || note.String != fmt.Sprint(row["note"]) {
		e.fail("row-value-not-verbatim", "an inserted row does not hold the values of the payload", rq.String(),
			fmt.Sprintf("%v %q %q", err, name.String, note.String), fmt.Sprintf("%q %q", row["name"], row["note"]))
	}

	if n := len(e.current()); n != len(e.rows)+1 {
		e.fail("insert-row-count", "an insert request changed other rows", rq.String(), strconv.Itoa(n), strconv.Itoa(len(e.rows)+1))
	}
}

func TestVerifC14(t *testing.T) {
	c14SQLDrivers["sqlite"] = &c14Driver{c14SQLDrivers["sqlite"]}

	// a memory-backed directory when there is one: every request commits, and fsync dominates otherwise
	dir, err := os.MkdirTemp("/dev/shm", "verif-c14-")
	if err != nil {
		dir = t.TempDir()
	} else {
		defer os.RemoveAll(dir)
	}

	dataFile := filepath.Join(dir, "data.db")

	h, err := sql.Open("sqlite", dataFile)
	if err != nil {
		t.Fatal(err)
	}
	defer h.Close()

	e := &c14Env{t: t, h: h, cases: verifh.Out("c14_cases.jsonl"), fails: verifh.Out("c14_failures.jsonl"),
		stmts: verifh.Out("c14_stmts.jsonl"), stats: verifh.NewStats(), seen: map[string]bool{}}
	defer e.cases.Close()
	defer e.fails.Close()
	defer e.stmts.Close()

	e.exec(c14CreateT1)
	e.exec(c14CreateCanary)
	e.seedCanary()
	e.canary = e.dump(`SELECT * FROM canary ORDER BY n`)
	e.schema = e.dump(`SELECT type,name,tbl_name,sql FROM sqlite_master ORDER BY name`)

	svc, err := dsns.NewFileService("memory")
	if err != nil {
		t.Fatal(err)
	}

	dsns.DSNService = svc

	if err := svc.WriteDSN(1, "admin", defs.DSN{Name: "d1", Provider: defs.SqliteProvider, Database: dataFile, RowId: true}); err != nil {
		t.Fatal(err)
	}

	settings.Set(defs.LogonUserdataSetting, "sqlite://"+filepath.Join(dir, "perms.db"))
	settings.Set(defs.TablesServerEmptyFilterError, "false")
	settings.Set(defs.TablesServerEmptyRowsetError, "false")
	settings.Set(defs.TableServerPartialInsertError, "false")

	// fixed corpus first
	r := verifh.Rand(14)
	abs := func(kind string, q map[string][]string, body string) *c14Req {
		return &c14Req{Kind: kind, Table: "t1", Query: q, Body: body, hostile: true}
	}
	guard := "EQ(id,-424242)"
	corpus := []*c14Req{
		abs("get", map[string][]string{"sort": {"name,(select secret from canary)"}}, ""),
		abs("get", map[string][]string{"sort": {"(select 1);delete from canary;--"}}, ""),
		abs("getabs", map[string][]string{"columns": {"count(*) from canary --"}}, ""),
		abs("getabs", map[string][]string{"columns": {"count(*),secret from canary --"}}, ""),
		abs("get", map[string][]string{"filter": {guard, `EQ(name,"a'")`, `EQ(note," ) OR 1=1 --")`}}, ""),
		abs("get", map[string][]string{"filter": {guard, `EQ(name,"a'")`, `EQ(note," ) UNION SELECT secret,n,n,n,n FROM canary --")`}}, ""),
		abs("get", map[string][]string{"filter": {guard, `EQ(id,-"1 OR 1=1")`}}, ""),
		abs("get", map[string][]string{"filter": {guard, `EQ(id,-"1) UNION SELECT secret,n,n,n,n FROM canary --")`}}, ""),
		abs("delete", map[string][]string{"filter": {guard, `EQ(id,-"1 OR 1=1")`}}, ""),
		abs("delete", map[string][]string{"filter": {`EQ(name,"a'")`, `EQ(note," ) OR 1=1 --")`, guard}}, ""),
		abs("patch", map[string][]string{"filter": {guard, `EQ(id,-"1 OR 1=1")`}}, `{"note":"pwn"}`),
		abs("patchabs", map[string][]string{"filter": {guard, `EQ(id,-"1 OR 1=1")`}}, `{"columns":[{"name":"note"}],"rows":[["pwn"]]}`),
		abs("patchabs", map[string][]string{"filter": {guard}}, `{"columns":[{"name":"note\"=(select secret from canary) --"}],"rows":[["x"]]}`),
		abs("get", map[string][]string{"filter": {`EQ(id,1) garbage`, guard}}, ""),
		abs("get", map[string][]string{"limit": {"1; drop table canary"}, "filter": {guard}}, ""),
		{Kind: "get", Table: "t1 union select * from canary --", Query: map[string][]string{}, hostile: true},
		{Kind: "get", Table: "canary --", Query: map[string][]string{}, hostile: true},
		{Kind: "tx", Table: "t1", hostile: true, Ops: []defs.TXOperation{{Opcode: "readrows", Table: "t1", Filters: []string{guard}, Columns: []string{"count(*) from canary --"}}}},
		{Kind: "tx", Table: "t1", hostile: true, Ops: []defs.TXOperation{{Opcode: "update", Table: "t1 set note=(select secret from canary) --", Filters: []string{guard}, Data: map[string]any{"note": "z"}}}},
		{Kind: "tx", Table: "t1", hostile: true, Ops: []defs.TXOperation{{Opcode: "delete", Table: "t1", Filters: []string{guard, `EQ(id,-"1 OR 1=1")`}}}},
		{Kind: "tx", Table: "t1", hostile: true, Ops: []defs.TXOperation{{Opcode: "update", Table: "t1", Filters: []string{guard, `EQ(id,-"1 OR 1=1")`}, Data: map[string]any{"note": "z"}}}},
	}

	// names that already look delimited (begin and end with a double quote around live SQL), one per identifier
	// position and handler; a table name travels with the extra outer pair that FullName takes off again
	tx := func(op defs.TXOperation) *c14Req {
		return &c14Req{Kind: "tx", Table: "t1", hostile: true, Ops: []defs.TXOperation{op}}
	}

	for _, table := range []string{`""canary" --""`, `""canary""`, `""t1" WHERE 1=1 --""`, `""t1","canary""`, `"canary" --"`, `""t1""`} {
		for _, kind := range []string{"get", "getabs", "delete"} {
			corpus = append(corpus, &c14Req{Kind: kind, Table: table, Query: map[string][]string{"filter": {guard}}, hostile: true})
		}

		corpus = append(corpus,
			&c14Req{Kind: "patch", Table: table, Query: map[string][]string{"filter": {guard}}, Body: `{"note":"pwn"}`, hostile: true},
			&c14Req{Kind: "put", Table: table, Query: map[string][]string{}, Body: `{"id":100,"name":"n","age":1,"note":"pwn"}`, hostile: true},
			tx(defs.TXOperation{Opcode: "select", Table: table, Filters: []string{guard}}),
			tx(defs.TXOperation{Opcode: "readrows", Table: table, Filters: []string{guard}}),
			tx(defs.TXOperation{Opcode: "delete", Table: table, Filters: []string{guard}}),
			tx(defs.TXOperation{Opcode: "update", Table: table, Filters: []string{guard}, Data: map[string]any{"note": "z"}}),
			tx(defs.TXOperation{Opcode: "insert", Table: table, Data: map[string]any{"id": 100, "name": "n", "age": 1, "note": "pwn"}}),
			tx(defs.TXOperation{Opcode: "drop", Table: table}),
		)
	}

	for _, cols := range []string{`"secret" FROM "canary" --"`, `"id"||(SELECT "secret" FROM "canary") AS "id"`, `"id" FROM "t1" --"`, `id,"secret" AS "name" FROM "canary" --"`} {
		corpus = append(corpus,
			abs("get", map[string][]string{"columns": {cols}, "filter": {guard}}, ""),
			abs("getabs", map[string][]string{"columns": {cols}, "filter": {guard}}, ""),
			tx(defs.TXOperation{Opcode: "select", Table: "t1", Filters: []string{guard}, Columns: strings.Split(cols, ",")}),
			tx(defs.TXOperation{Opcode: "readrows", Table: "t1", Filters: []string{guard}, Columns: strings.Split(cols, ",")}),
		)
	}

	for _, srt := range []string{`"age"*(SELECT CASE WHEN "secret" LIKE 'C%' THEN 1 ELSE -1 END FROM "canary") --"`,
		`"id" IN (SELECT "n" FROM "canary") COLLATE "binary"`, `~"id";DELETE FROM "canary";--"`, `id,"id" LIMIT 0 --"`} {
		corpus = append(corpus,
			abs("get", map[string][]string{"sort": {srt}}, ""),
			abs("getabs", map[string][]string{"sort": {srt}, "filter": {guard}}, ""),
		)
	}

	for _, key := range []string{`"note"=(SELECT "secret" FROM "canary") --"`, `"note"=(SELECT "secret" FROM "canary"),"name"`, `"note"=$1 WHERE 1=1 --"`} {
		kb, _ := json.Marshal(key)
		corpus = append(corpus,
			abs("patch", map[string][]string{"filter": {guard}}, `{`+string(kb)+`:"pwn"}`),
			abs("patchabs", map[string][]string{"filter": {guard}}, `{"columns":[{"name":`+string(kb)+`}],"rows":[["pwn"]]}`),
			abs("put", map[string][]string{}, `{"id":100,"name":"n","age":1,"note":"x",`+string(kb)+`:"pwn"}`),
			tx(defs.TXOperation{Opcode: "update", Table: "t1", Filters: []string{guard}, Data: map[string]any{key: "pwn"}}),
			tx(defs.TXOperation{Opcode: "insert", Table: "t1", Data: map[string]any{"id": 100, "name": "n", "age": 1, "note": "x", key: "pwn"}}),
		)
	}

	// filters with a structural defect: a defective operand before, between and after well-formed ones, for every
	// handler that takes a filter; two begin with a quoted term that holds a backslash-quote
	for fi, f := range [][2]string{
		{"not-extra", `OR(EQ(id,1),NOT(EQ(id,2),EQ(id,3)),EQ(id,4))`}, {"not-extra", `AND(NOT(EQ(id,2),EQ(id,3)),EQ(id,4))`},
		{"not-extra+no-close", `'a\' OR 1=1) OR 1=1 /*', OR(EQ(id,-1),NOT(EQ(id,-1),EQ(id,-1))`}, {"not-extra+no-close", `AND(EQ(id,1),NOT(EQ(id,2),EQ(id,3),EQ(id,4))`},
		{"signed-term", `AND(EQ(id,1),-name,EQ(id,2))`}, {"special-term", `OR(EQ(id,1),@,EQ(id,2))`}, {"cmp-one", `AND(EQ(id),EQ(id,2),EQ(id,3))`},
		{"cmp-three", `OR(EQ(id,1),EQ(id,2,3),EQ(id,4))`}, {"list-one", `AND(EQ(id,1),OR(EQ(id,2)),EQ(id,3))`}, {"no-close", `AND(EQ(id,1),EQ(id,2),EQ(id,3)`},
		{"extra-close", `AND(EQ(id,1)),EQ(id,2),EQ(id,3))`}, {"comma-trail", `AND(EQ(id,1),EQ(id,2),)`}, {"comma-double", `OR(EQ(id,1),,EQ(id,2))`},
		{"not-extra+no-close", `'x\'); DELETE FROM canary /*', OR(EQ(id,1),NOT(EQ(id,2),EQ(id,3)),EQ(id,4)`}, {"has-nocomma", `AND(EQ(id,1),HAS(name,"a" "b"),EQ(id,2))`}, {"bad-op", `AND(EQ(id,1),FAUX(id,2),EQ(id,3))`},
	} {
		// the filters with two defects and a quoted first term go to every handler; the others to two handlers each
		// (taken in turn), with the guard filter before or after
		var batch []*c14Req

		fs := [][]string{{guard, f[1]}, {f[1], guard}}[fi%2]

		for _, kind := range []string{"get", "getabs", "delete"} {
			batch = append(batch, &c14Req{Kind: kind, Table: "t1", Query: map[string][]string{"filter": fs}, hostile: true, Defect: f[0]})
		}

		batch = append(batch,
			&c14Req{Kind: "patch", Table: "t1", Query: map[string][]string{"filter": fs}, Body: `{"note":"pwn"}`, hostile: true, Defect: f[0]},
			&c14Req{Kind: "patchabs", Table: "t1", Query: map[string][]string{"filter": fs}, Body: `{"columns":[{"name":"note"}],"rows":[["pwn"]]}`, hostile: true, Defect: f[0]})

		for _, opcode := range []string{"readrows", "delete", "update"} {
			rq := tx(defs.TXOperation{Opcode: opcode, Table: "t1", Filters: fs})
			rq.Defect = f[0]

			if opcode == "update" {
				rq.Ops[0].Data = map[string]any{"note": "pwn"}
			}

			batch = append(batch, rq)
		}

		if strings.HasPrefix(f[1], "'") {
			corpus = append(corpus, batch...)
		} else {
			corpus = append(corpus, batch[(3*fi)%len(batch)], batch[(3*fi+4)%len(batch)])
		}
	}

	for _, rq := range corpus {
		e.reset(r)
		e.run(rq)
	}

	e.genStream(verifh.Rand(141), verifh.N(1500, 12000))
	e.malformedGen(verifh.Rand(143), verifh.N(2500, 20000))

	rm := verifh.Rand(144)

	for i, n := 0, verifh.N(80, 1500); i < n; i++ {
		e.reset(rm)
		e.run(e.malformedRequest(rm))
	}

	rr := verifh.Rand(142)
	n := verifh.N(1200, 9000)

	for i := 0; i < n; i++ {
		e.reset(rr)

		rq := e.genRequest(rr)
		e.run(rq)
	}

	for _, f := range c14Contract {
		e.fail("tokenizer-contract", "a numeric or boolean token is not spelled as the theorems assume (TokOK)", f, "", "")
	}

	e.stats.Save("c14_stats.json")
}
