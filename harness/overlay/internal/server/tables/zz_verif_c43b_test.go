//go:build verif

package tables

import (
	"bytes"
	"database/sql"
	"encoding/json"
	"fmt"
	"net/http"
	"net/http/httptest"
	"net/url"
	"reflect"
	"strings"
	"testing"

	"github.com/tucats/ego/internal/router"
	"github.com/tucats/ego/internal/verifh"
)

type c43Env struct {
	t        *testing.T
	o        *c43Oracle
	cases    *verifh.Writer
	fails    *verifh.Writer
	stats    *verifh.Stats
	dataFile string
	hist     []string // protocol lines of the current history (the replayable input of a failure)
	seen     map[string]bool
	nfail    int

	// the database DSN service variant (zz_verif_c43f_test.go)
	db      bool   // the current history runs against dsns.NewDatabaseService
	useDB   func() // installs the run's database service as dsns.DSNService
	closeDB func()
	dsnRaw  *sql.DB // raw connection to the DSN store (tables dsns, dsns_auth)
}

func (e *c43Env) emit(in, impl string) {
	e.cases.Write(verifh.Case{In: in, Impl: impl})
	e.hist = append(e.hist, in)
	e.stats.Inc("lines")
}

func (e *c43Env) fail(class, what, got, want string) {
	e.stats.Inc("fail_" + class)

	if e.nfail++; e.nfail > 40 {
		return
	}

	e.fails.Write(verifh.Failure{Class: class, What: what, Input: strings.Join(e.hist, "\n"), Got: got, Want: want})
}

func (e *c43Env) admin(dsn, table string, params map[string][]string) *router.Session {
	return &router.Session{ID: 1, User: "root", Admin: true,
		URLParts: map[string]any{"dsn": dsn, "table": table}, Parameters: params}
}

// after an operation on table_perms: the harness's own record of the grants must equal the raw store content.
// `exact` is false for operations whose documented effect the harness does not predict (names rewritten by
// SQLEscape, malformed permission lists); the harness then adopts the raw store content.
func (e *c43Env) syncStore(exact bool, what string) {
	raw := c43Dump(e.t)

	if exact {
		if got, want := c43DigestOf(raw), e.o.digest(); got != want {
			e.fail("store-diverged", "table_perms differs from the grants the harness recorded after "+what, got, want)
		}
	}

	e.o.grants = raw
}

// ---------------------------------------------------------------- operations on table_perms

func (e *c43Env) opGrant(u, d, t string, keys []string) {
	body, _ := json.Marshal(keys)
	req, _ := http.NewRequest(http.MethodPut, "/dsns/x/tables/y/permissions", bytes.NewReader(body))
	rr := httptest.NewRecorder()
	status := GrantPermissions(e.admin(d, t, map[string][]string{"user": {u}}), rr, req)

	impl := fmt.Sprintf("err%d", status)

	switch status {
	case http.StatusOK:
		impl = "ok"
	case http.StatusBadRequest:
		impl = "bad"
	case http.StatusNotFound:
		impl = "dup"
	}

	e.emit(fmt.Sprintf("G %s %s %s %s", verifh.Hex(u), verifh.Hex(d), verifh.Hex(t), c43HexList(keys)), impl)

	// oracle: a clean list (canonical names, optional sign, each permission at most once) sets/clears flags
	k := c43Key{u, d, t}
	clean := true
	used := map[string]bool{}
	cur := c43Set{}

	if len(e.o.grants[k]) == 1 {
		cur = e.o.grants[k][0]
	}

	for _, key := range keys {
		set := true
		name := key

		if strings.HasPrefix(name, "-") {
			set, name = false, name[1:]
		} else if strings.HasPrefix(name, "+") {
			name = name[1:]
		}

		name = strings.ToLower(name)
		if used[name] {
			clean = false
		}

		used[name] = true

		switch name {
		case "ego.table.read":
			cur.read = set
		case "ego.table.write":
			cur.write = set
		case "ego.table.update":
			cur.update = set
		case "ego.table.delete":
			cur.delete = set
		case "ego.table.admin":
			cur.admin = set
		default:
			clean = false
		}
	}

	switch {
	case len(e.o.grants[k]) >= 2:
		// duplicate records: the endpoint must refuse and change nothing
		if status == http.StatusOK {
			e.fail("grant-on-duplicates", "GrantPermissions succeeded although two records exist", impl, "dup")
		}

		e.syncStore(true, "grant on duplicated key")
	case clean:
		if status != http.StatusOK {
			e.fail("grant-refused", "a well-formed grant by an administrator was refused", impl, "ok")
		}

		e.o.grants[k] = []c43Set{cur}
		e.syncStore(true, "grant")
	default:
		e.stats.Inc("unclean_grants")
		e.syncStore(false, "")
	}
}

func (e *c43Env) opRevoke(d, t, u string) {
	q := url.Values{}
	if u != "" {
		q.Set("user", u)
	}

	req, _ := http.NewRequest(http.MethodDelete, "/dsns/x/tables/y/permissions?"+q.Encode(), nil)
	rr := httptest.NewRecorder()
	status := DeletePermissions(e.admin(d, t, nil), rr, req)

	impl := fmt.Sprintf("err%d", status)

	switch status {
	case http.StatusOK:
		impl = "ok"
	case http.StatusBadRequest:
		impl = "bad"
	}

	e.emit(fmt.Sprintf("R %s %s %s", verifh.Hex(d), verifh.Hex(t), verifh.Hex(u)), impl)

	if c43Plain(d) && c43Plain(u) {
		for k := range e.o.grants {
			if (d == "" || k.d == d) && (t == "" || k.t == t) && (u == "" || k.u == u) {
				delete(e.o.grants, k)
			}
		}

		if status != http.StatusOK {
			e.fail("revoke-refused", "a revoke with plain names was refused", impl, "ok")
		}

		e.syncStore(true, "revoke")
	} else {
		e.stats.Inc("quoted_revokes")
		e.syncStore(false, "")
	}
}

func (e *c43Env) opCreate(u, d, t string) {
	ok := createTablePermissions(e.admin(d, t, nil), u, d, t)
	e.emit(fmt.Sprintf("C %s %s %s", verifh.Hex(u), verifh.Hex(d), verifh.Hex(t)), map[bool]string{true: "ok", false: "err"}[ok])

	k := c43Key{u, d, t}
	e.o.grants[k] = append(e.o.grants[k], c43Set{true, true, true, true, true})
	e.syncStore(true, "createTablePermissions")
}

func (e *c43Env) opRemoveTable(d, t string) {
	ok := removeTablePermissions(e.admin(d, t, nil), t)
	e.emit(fmt.Sprintf("X %s %s", verifh.Hex(d), verifh.Hex(t)), c43B(ok))

	if c43Plain(d) {
		for k := range e.o.grants {
			if (d == "" || k.d == d) && (t == "" || k.t == t) {
				delete(e.o.grants, k)
			}
		}

		e.syncStore(true, "removeTablePermissions")
	} else {
		e.syncStore(false, "")
	}
}

func (e *c43Env) opDeleteByDSN(d string) {
	n, err := DeletePermissionsByDSN(1, d)
	impl := fmt.Sprint(n)

	if err != nil {
		impl = "err"
	}

	e.emit("B "+verifh.Hex(d), impl)

	for k := range e.o.grants {
		if k.d == d {
			delete(e.o.grants, k)
		}
	}

	e.syncStore(true, "DeletePermissionsByDSN")
}

// ---------------------------------------------------------------- the real Authorized, old or new signature

// Authorized(session, user, dsn+"."+table, ops...) before fixes/C43.patch,
// Authorized(session, user, dsn, table, ops...) after it; reflection lets one harness drive both.
func c43Authorized(s *router.Session, user, dsn, table string, ops []string) bool {
	f := reflect.ValueOf(Authorized)
	args := []reflect.Value{reflect.ValueOf(s), reflect.ValueOf(user)}

	if f.Type().NumIn() == 5 {
		args = append(args, reflect.ValueOf(dsn), reflect.ValueOf(table))
	} else {
		args = append(args, reflect.ValueOf(dsn+"."+table))
	}

	args = append(args, reflect.ValueOf(ops))

	return f.CallSlice(args)[0].Bool()
}
