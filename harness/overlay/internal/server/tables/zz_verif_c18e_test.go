//go:build verif

package tables

// C18 harness, part 5: the test entry point.

import (
	"encoding/json"
	"fmt"
	"math/rand"
	"strings"
	"testing"
	"time"

	"github.com/tucats/ego/internal/defs"
	"github.com/tucats/ego/internal/server/tables/database"
	"github.com/tucats/ego/internal/server/tables/parsing"
	"github.com/tucats/ego/internal/util"
	"github.com/tucats/ego/internal/verifh"
)

// non-trivial = not one of the values the repository's own row tests use (small integers,
// short ASCII words, whole-second UTC timestamps, true/false/null).
func c18Nontrivial(c c18Case) bool {
	v, err := c18Decode(c.lit)
	if err != nil {
		return false
	}

	switch x := v.(type) {
	case json.Number:
		s := strings.TrimLeft(string(x), "-")

		return len(s) > 5 || strings.ContainsAny(s, ".eE")
	case string:
		if c18IsTime(c.typ) {
			t, ok := c18ParseTime(x)

			return ok && (t.Nanosecond() != 0 || !strings.HasSuffix(x, "Z"))
		}

		for _, r := range x {
			if !(r >= 'a' && r <= 'z' || r >= 'A' && r <= 'Z' || r >= '0' && r <= '9' || r == ' ') {
				return true
			}
		}
	}

	return false
}

func c18Natural(typ string, r *rand.Rand) string {
	switch {
	case typ == "bool":
		return []string{"true", "false"}[r.Intn(2)]
	case typ == "string":
		return c18Q(c18GenString(r))
	case c18IsTime(typ):
		return c18Q(c18GenTime(r))
	case c18IsFloat(typ):
		return c18GenFloat(r)
	}

	if lo, hi := c18IntRange(typ); lo != nil && hi.BitLen() < 40 && r.Intn(3) != 0 {
		span := hi.Int64() - lo.Int64() + 1

		return fmt.Sprint(lo.Int64() + r.Int63n(span))
	}

	return c18GenInt(r)
}

func c18Hostile(r *rand.Rand) string {
	switch r.Intn(8) {
	case 0:
		return c18GenInt(r)
	case 1:
		return c18GenFloat(r)
	case 2:
		return c18Q(c18GenString(r))
	case 3:
		return c18Q(c18GenTime(r))
	case 4:
		return []string{"true", "false", "null", `{"a":1}`, `[1,2]`, `[]`, `{}`}[r.Intn(7)]
	case 5:
		return c18Q(c18GenInt(r))
	case 6:
		return c18Q(c18StringCorpus[r.Intn(len(c18StringCorpus))])
	}

	return c18Q(c18TimeCorpus[r.Intn(len(c18TimeCorpus))])
}

func TestVerifC18(t *testing.T) {
	e := c18Setup(t)
	defer e.cases.Close()
	defer e.fails.Close()

	// --- the normalized type name of every column, as the handlers see it
	db, err := database.Open(c18Session(), "c18", 0)
	if err != nil || db == nil {
		t.Fatalf("open: %v", err)
	}

	cols, err := getColumnInfo(db, `"c18"`, false)
	db.Close()

	if err != nil {
		t.Fatalf("getColumnInfo: %v", err)
	}

	for _, c := range cols {
		if strings.HasPrefix(c.Name, "c_") {
			e.cases.Write(map[string]string{"in": "norm " + strings.TrimPrefix(c.Name, "c_"), "impl": verifh.Hex(c.Type),
				"desc": c.Type})
		}
	}

	// --- stated hypotheses about the time primitives, checked on the real functions:
	// StrictParseTimestamp (bindTimeValue t) = t for every instant of years 0000..9999
	rl := verifh.Rand(181)
	for i := 0; i < verifh.N(3000, 60000); i++ {
		s := c18GenTime(rl)

		want, ok := c18ParseTime(s)
		if !ok {
			continue
		}

		e.stats.Inc("law_time_checks")

		got, err := parsing.CoerceToColumnType("c", s, []defs.DBColumn{{Name: "c", Type: "timestamp"}})
		if gt, isT := got.(time.Time); err != nil || !isT || !gt.Equal(want) {
			e.oracleFail("law-parse", "CoerceToColumnType reads an RFC 3339 text as a different instant than time.Parse", s, fmt.Sprint(got, err), want.String())

			continue
		}

		if y := want.UTC().Year(); y < 0 || y > 9999 {
			continue
		}

		txt, isS := c18Bind(got).(string)
		back, err := util.StrictParseTimestamp(txt)

		if !isS || err != nil || !back.Equal(want) {
			cl := "law-format-parse"
			if want.Nanosecond() != 0 {
				cl = "ts-subsecond"
			}

			e.oracleFail(cl, "the text bound for a timestamp does not parse back to the instant written", "bind "+s, txt, want.UTC().Format(time.RFC3339Nano))
		}
	}

	// --- 1. fixed corpus, every type x every corpus value, PUT and PATCH
	var corpus []c18Case

	for _, ty := range c18Types {
		lits := []string{"null", "true", "false"}
		lits = append(lits, c18IntCorpus...)
		lits = append(lits, c18FloatCorpus...)

		if ty == "string" || c18IsTime(ty) || ty == "byte" || ty == "float64" || ty == "int8" || ty == "float32" {
			for _, s := range c18StringCorpus {
				lits = append(lits, c18Q(s))
			}
		} else {
			for _, s := range c18StringCorpus[:12] {
				lits = append(lits, c18Q(s))
			}
		}

		if c18IsFloat(ty) || ty == "int" {
			lits = append(lits, `"Inf"`, `"NaN"`, `"-Infinity"`, `"+inf"`, `"1e999"`, `"0x1p-2"`, `"1_000"`, `"12"`, `"-7.5"`)
		}

		if c18IsTime(ty) || ty == "string" {
			for _, s := range c18TimeCorpus {
				lits = append(lits, c18Q(s))
			}
		}

		for _, l := range lits {
			corpus = append(corpus, c18Case{ty, l})
		}
	}

	e.runAll(corpus, "put", 40)

	rp := verifh.Rand(182)

	var patch []c18Case

	for _, c := range corpus {
		if in, _, _ := c18Dom(c.typ, c.lit); in && rp.Intn(3) == 0 {
			patch = append(patch, c)
		}
	}

	e.runAll(patch, "patch", 25)

	// --- 2. natural values of each type (inside or near the documented domain)
	rn := verifh.Rand(183)
	n := verifh.N(1500, 40000)

	var nat []c18Case

	for i := 0; i < n; i++ {
		ty := c18Types[rn.Intn(len(c18Types))]
		nat = append(nat, c18Case{ty, c18Natural(ty, rn)})
	}

	e.runAll(nat, "put", 100)

	var natPatch []c18Case

	for i := 0; i < n/40+60; i++ {
		ty := c18Types[rn.Intn(len(c18Types))]
		natPatch = append(natPatch, c18Case{ty, c18Natural(ty, rn)})
	}

	e.runAll(natPatch, "patch", 25)

	// --- 3. hostile cross-type stream: any literal into any column
	rh := verifh.Rand(184)

	var hostile []c18Case

	for i := 0; i < n/10+150; i++ {
		hostile = append(hostile, c18Case{c18Types[rh.Intn(len(c18Types))], c18Hostile(rh)})
	}

	e.runAll(hostile, "put", 8)

	e.stats.Save("c18_stats.json")
}

// c18Bind is bindTimeValue for the SQLite provider.
func c18Bind(v any) any { return parsing.VerifBindTimeValue(v, defs.SqliteProvider) }
