//go:build verif

package tables

import (
	"fmt"
	"net/http"
	"net/http/httptest"
	"net/url"
	"strings"

	"github.com/tucats/ego/internal/defs"
	"github.com/tucats/ego/internal/dsns"
	"github.com/tucats/ego/internal/router"
	"github.com/tucats/ego/internal/verifh"
)

// ---------------------------------------------------------------- operations on the DSN service

func (e *c43Env) opWriteDSN(name string, restricted bool) {
	err := dsns.DSNService.WriteDSN(1, "root", defs.DSN{Name: name, Provider: defs.SqliteProvider,
		Database: e.dataFile, Restricted: restricted})
	e.emit(fmt.Sprintf("W %s %s", verifh.Hex(name), c43B(restricted)), map[bool]string{true: "ok", false: "err"}[err == nil])
	e.o.dsnR[name] = restricted
	e.syncDSN("WriteDSN")
}

func (e *c43Env) opDeleteDSN(name string) {
	_ = dsns.DSNService.DeleteDSN(1, "root", name)
	e.emit("D "+verifh.Hex(name), "ok")

	if _, ok := e.o.dsnR[name]; ok {
		delete(e.o.dsnR, name)

		for p := range e.o.dsnA {
			if p.d == name {
				delete(e.o.dsnA, p)
			}
		}
	}

	e.syncDSN("DeleteDSN")
}

func (e *c43Env) opRevokeAllDSN(name string) {
	_ = dsns.DSNService.RevokeAllDSN(1, name)
	e.emit("V "+verifh.Hex(name), "ok")

	for p := range e.o.dsnA {
		if p.d == name {
			delete(e.o.dsnA, p)
		}
	}

	e.syncDSN("RevokeAllDSN")
}

func (e *c43Env) opGrantDSN(u, name string, mask int, grant bool) {
	err := dsns.DSNService.GrantDSN(1, u, name, dsns.DSNAction(mask), grant)
	impl := "ok"

	if err != nil {
		impl = "nodsn"
	}

	e.emit(fmt.Sprintf("g %s %s %d %s", verifh.Hex(u), verifh.Hex(name), mask, c43B(grant)), impl)

	_, exists := e.o.dsnR[name]
	if exists != (err == nil) {
		e.fail("grantdsn-status", "GrantDSN success must coincide with the DSN existing", impl, c43B(exists))
	}

	if exists {
		p := c43Pair{u, name}
		if grant {
			e.o.dsnA[p] |= mask
		} else {
			e.o.dsnA[p] &^= mask
		}

		e.o.dsnR[name] = true
	}

	e.syncDSN("GrantDSN")
}

// ---------------------------------------------------------------- queries

// more than one '|' in "user|dsn": the class in which the file service's joined key is ambiguous
func c43PipeClass(u, d string) bool { return strings.Count(u+"|"+d, "|") > 1 }

func (e *c43Env) wantTable(u, d, t string, ops []string) (want bool, strict bool) {
	recs := e.o.grants[c43Key{u, d, t}]
	if len(recs) == 1 {
		want = true

		for _, op := range ops {
			want = want && recs[0].has(op)
		}

		return want, true
	}

	// no record: never authorized.  Duplicated records: only "some record carries it" is required of an allow.
	for _, r := range recs {
		all := true
		for _, op := range ops {
			all = all && r.has(op)
		}

		want = want || all
	}

	return want, len(recs) == 0
}

func (e *c43Env) note(in string, nontrivial bool) {
	if !nontrivial {
		return
	}

	key := in + "\x00" + e.o.digest()
	if !e.seen[key] {
		e.seen[key] = true
		e.stats.Inc("distinct_nontrivial")
		e.stats.Sample(map[string]any{"query": in, "history_lines": len(e.hist)})
	}
}

// qAuth calls Authorized directly.
func (e *c43Env) qAuth(su string, sadmin bool, u, d, t string, ops []string) {
	s := &router.Session{ID: 2, User: su, Admin: sadmin, Permissions: []string{"ego.logon"}}
	got := c43Authorized(s, u, d, t, ops)
	in := fmt.Sprintf("A %s %s %s %s %s %s", verifh.Hex(su), c43B(sadmin), verifh.Hex(u), verifh.Hex(d), verifh.Hex(t), c43HexList(ops))
	e.emit(in, c43B(got))

	restricted, exists := e.o.dsnR[d]
	e.note(in, exists && restricted && !(sadmin && u == su) && len(e.o.grants) > 0)

	var want, strict bool

	switch {
	case sadmin && u == su:
		want, strict = true, true
	case !exists:
		want, strict = false, true
	case !restricted:
		want, strict = true, true
	default:
		want, strict = e.wantTable(u, d, t, ops)
	}

	if got != want && (strict || got) {
		class := "authorized"
		if strings.Contains(d, ".") {
			class = "authorized-dsn-dot"
		} else if d == "" {
			class = "authorized-empty-dsn"
		}

		e.fail(class, fmt.Sprintf("Authorized(user=%q, dsn=%q, table=%q, ops=%v) by session %q admin=%v disagrees with the recorded grants",
			u, d, t, ops, su, sadmin), c43B(got), c43B(want))
	}
}

// qAuthDSN calls the DSN service's AuthDSN.
func (e *c43Env) qAuthDSN(u, name string, mask int) {
	got := dsns.DSNService.AuthDSN(2, u, name, dsns.DSNAction(mask))
	in := fmt.Sprintf("a %s %s %d", verifh.Hex(u), verifh.Hex(name), mask)
	e.emit(in, c43B(got))

	restricted, exists := e.o.dsnR[name]
	e.note(in, exists && restricted && len(e.o.dsnA) > 0)

	want := exists && (!restricted || e.o.dsnA[c43Pair{u, name}]&mask != 0)
	if got != want {
		class := "authdsn"
		if e.pipeClass(u, name) {
			class = "dsn-key-pipe"
		}

		e.fail(class, fmt.Sprintf("AuthDSN(user=%q, dsn=%q, action=%d) disagrees with the recorded DSN grants (a DSN recorded as restricted admits exactly the users granted the action)", u, name, mask), c43B(got), c43B(want))
	}
}

// the way a row request arrives over HTTP: the row format and the route's ?user= parameter
type c43Form struct {
	format   byte   // 'n' default rows, 'p' ?abstract=<value>, 'h' Accept header
	abstract string // 'p': the value of ?abstract ("" = bare parameter); 'h': the Accept header value
	hasUser  bool   // ?user= is present
	userKey  string // its spelling (RequestForUser matches the name case-insensitively)
	quser    string
}

func (f c43Form) plain() bool { return f.format == 'n' && !f.hasUser }

// rowCall sends one request through the real row handler, as the router delivers it (the query parameters are
// in the URL and in session.Parameters), and classifies the outcome: pass | 403 | nodsn.
func (e *c43Env) rowCall(u string, admin bool, idmask int, op byte, d, t string, f c43Form) (impl string, status, action int, perm string, abstract bool) {
	perms := []string{"ego.logon"}
	if idmask&1 != 0 {
		perms = append(perms, "ego.dsn.read")
	}

	if idmask&2 != 0 {
		perms = append(perms, "EGO.DSN.WRITE")
	}

	if idmask&8 != 0 {
		perms = append(perms, "ego.dsn.admin")
	}

	query := []string{}

	switch op {
	case 'u':
		query = append(query, "filter=EQ(id,1)")
	case 'd':
		query = append(query, "filter=EQ(id,99)")
	}

	if f.format == 'p' {
		if f.abstract == "" {
			query = append(query, "abstract")
		} else {
			query = append(query, "abstract="+url.QueryEscape(f.abstract))
		}
	}

	if f.hasUser {
		query = append(query, f.userKey+"="+url.QueryEscape(f.quser))
	}

	target := "/dsns/x/tables/y/rows"
	if len(query) > 0 {
		target += "?" + strings.Join(query, "&")
	}

	var (
		req     *http.Request
		handler func(*router.Session, http.ResponseWriter, *http.Request) int
	)

	switch op {
	case 'r':
		req, _ = http.NewRequest(http.MethodGet, target, nil)
		handler, action, perm = ReadRows, 1, "ego.table.read"
	case 'i':
		req, _ = http.NewRequest(http.MethodPut, target, strings.NewReader(`{"id": 1, "v": "x"}`))
		handler, action, perm = InsertRows, 2, "ego.table.write"
	case 'u':
		req, _ = http.NewRequest(http.MethodPatch, target, strings.NewReader(`{"v": "y"}`))
		handler, action, perm = UpdateRows, 2, "ego.table.update"
	default:
		req, _ = http.NewRequest(http.MethodDelete, target, nil)
		handler, action, perm = DeleteRows, 2, "ego.table.delete"
	}

	if f.format == 'h' {
		req.Header["Accept"] = []string{f.abstract}
	}

	params := map[string][]string{}

	if !f.plain() {
		for k, v := range req.URL.Query() {
			params[k] = v
		}
	}

	s := &router.Session{ID: 3, User: u, Admin: admin, Permissions: perms,
		URLParts: map[string]any{"dsn": d, "table": t}, Parameters: params}

	abstract = useAbstract(req) // only labels the case (which handler family served it); no oracle depends on it
	status = handler(s, httptest.NewRecorder(), req)

	_, dsnErr := dsns.DSNService.ReadDSN(3, u, d, true)
	impl = "pass"

	switch {
	case status == http.StatusForbidden:
		impl = "403"
	case status == http.StatusNotFound && dsnErr != nil:
		impl = "nodsn"
	}

	e.stats.Inc("row_requests")

	return impl, status, action, perm, abstract
}

// rowWant: what the harness's own record of the grants says about a row request by (u, admin, identity mask).
// The record is consulted for the CALLER u only: nothing in the request names anybody else's grants.
func (e *c43Env) rowWant(u string, admin bool, idmask, action int, perm, d, t string) (want string, strict bool) {
	restricted, exists := e.o.dsnR[d]
	want, strict = "pass", true

	switch {
	case !exists:
		want = "nodsn"
	case admin:
	default:
		idOK := idmask&8 != 0 || idmask&action != 0
		dsnOK := !restricted || e.o.dsnA[c43Pair{u, d}]&action != 0

		if !idOK && !dsnOK {
			want = "403"
		} else if restricted {
			ok, st := e.wantTable(u, d, t, []string{perm})
			strict = st

			if !ok {
				want = "403"
			}
		}
	}

	return want, strict
}

// qRow sends a request through the real row handler (default row format, no ?user=).
func (e *c43Env) qRow(u string, admin bool, idmask int, op byte, d, t string) string {
	impl, status, action, perm, _ := e.rowCall(u, admin, idmask, op, d, t, c43Form{format: 'n'})

	in := fmt.Sprintf("Q %s %s %d %c %s %s", verifh.Hex(u), c43B(admin), idmask, op, verifh.Hex(d), verifh.Hex(t))
	e.emit(in, impl)

	restricted, exists := e.o.dsnR[d]
	e.note(in, exists && restricted && !admin)

	want, strict := e.rowWant(u, admin, idmask, action, perm, d, t)

	if impl != want && (strict || impl == "pass") {
		// the DSN-level key of (user, dsn) is ambiguous (file service): that class first, whatever else the names hold
		class := "row"
		if e.pipeClass(u, d) {
			class = "dsn-key-pipe"
		} else if strings.Contains(d, ".") {
			class = "authorized-dsn-dot"
		}

		e.fail(class, fmt.Sprintf("%c rows of dsn=%q table=%q by user=%q admin=%v identity-mask=%d: HTTP %d", op, d, t, u, admin, idmask, status), impl, want)
	}

	return impl
}
