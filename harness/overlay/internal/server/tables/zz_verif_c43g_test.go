//go:build verif

package tables

// C43 — the row handlers as they are reached over HTTP: both row formats (default rows, and the abstract form chosen
// by ?abstract=… or by Accept: application/vnd.ego.rows.abstract+json), with and without the route's ?user=
// parameter, for administrators and non-administrators, for read / insert / update / delete.
//
// Direct oracle (no model): the authorization decision for a row request is made for the CALLER.  (1) It equals
// what the harness's own record of the grants says for (caller, dsn, table) — a ?user= that names somebody else
// never widens what a non-administrator may do; (2) it equals the decision on the same request sent in the default
// format without ?user= (the row format and ?user= are not inputs of the decision).

import (
	"fmt"
	"math/rand"
	"sort"
	"strings"

	"github.com/tucats/ego/internal/defs"
	"github.com/tucats/ego/internal/verifh"
)

var c43AbstractValues = []string{"true", "", "1", "TRUE", "true", "false"}
var c43AcceptValues = []string{defs.AbstractRowSetMediaType, strings.ToUpper(defs.AbstractRowSetMediaType), " " + defs.AbstractRowSetMediaType + " "}
var c43UserKeys = []string{"user", "user", "User", "USER"}

func (f c43Form) String() string {
	s := "default rows"

	switch f.format {
	case 'p':
		s = fmt.Sprintf("?abstract=%s", f.abstract)
	case 'h':
		s = fmt.Sprintf("Accept: %q", f.abstract)
	}

	if f.hasUser {
		s += fmt.Sprintf(" ?%s=%q", f.userKey, f.quser)
	}

	return s
}

// qRowForm sends the request in the default format without ?user= (a Q line), then in the given form (a q line).
func (e *c43Env) qRowForm(u string, admin bool, idmask int, op byte, d, t string, f c43Form) {
	base := e.qRow(u, admin, idmask, op, d, t)

	impl, status, action, perm, abstract := e.rowCall(u, admin, idmask, op, d, t, f)

	format := f.format
	if !abstract {
		format = 'n' // ?abstract=false and the like: served by the default handlers
	}

	qu := "_"
	if f.hasUser {
		qu = verifh.Hex(f.quser)
	}

	in := fmt.Sprintf("q %s %s %d %c %s %s %c %s", verifh.Hex(u), c43B(admin), idmask, op, verifh.Hex(d), verifh.Hex(t), format, qu)
	e.emit(in, impl)
	e.stats.Inc("row_form_requests")

	if format != 'n' {
		e.stats.Inc("row_abstract_requests")
	}

	restricted, exists := e.o.dsnR[d]
	other := f.hasUser && f.quser != u

	// non-trivial: a non-administrator on a restricted DSN names another user who holds a record for the table
	e.note(in+" "+f.String(), exists && restricted && !admin && other && len(e.o.grants[c43Key{f.quser, d, t}]) > 0)

	what := fmt.Sprintf("%c rows of dsn=%q table=%q by user=%q admin=%v identity-mask=%d, sent as [%s]: HTTP %d",
		op, d, t, u, admin, idmask, f, status)
	want, strict := e.rowWant(u, admin, idmask, action, perm, d, t)

	// (2) the row format and ?user= are not inputs of the decision.  (Both requests come from the same caller on
	// the same DSN, so no ambiguity of the DSN-level keys can explain a difference: the class is the form's.)
	if impl != base {
		class := "row-form"

		switch {
		case other && !admin:
			class = "row-user-param"
		case format != 'n':
			class = "row-abstract"
		}

		what += fmt.Sprintf("; the same request in the default format without ?user= was decided %q, and the caller's own recorded grants say %q",
			base, want)

		if other {
			what += fmt.Sprintf(" (records of the named user %q for this table: %d)", f.quser, len(e.o.grants[c43Key{f.quser, d, t}]))
		}

		e.fail(class, what, impl, base)

		return
	}

	// (1) the recorded grants of the caller decide
	if impl != want && (strict || impl == "pass") {
		// the DSN-level key of (user, dsn) is ambiguous (file service): that class first, whatever else the names hold
		class := "row"
		if e.pipeClass(u, d) {
			class = "dsn-key-pipe"
		} else if strings.Contains(d, ".") {
			class = "authorized-dsn-dot"
		}

		e.fail(class, what, impl, want)
	}
}

// a random way of sending the request; biased towards the abstract forms and towards ?user=
func c43RandomForm(r *rand.Rand, quser string) c43Form {
	f := c43Form{format: 'n'}

	switch r.Intn(5) {
	case 0:
	case 1, 2:
		f.format, f.abstract = 'p', c43Pick(r, c43AbstractValues)
	default:
		f.format, f.abstract = 'h', c43Pick(r, c43AcceptValues)
	}

	if r.Intn(6) != 0 {
		f.hasUser, f.userKey, f.quser = true, c43Pick(r, c43UserKeys), quser
	}

	return f
}

// randomRowForm: a row request by a caller who can open the DSN, about a table somebody (else) holds a grant for,
// naming that somebody in ?user= — and the neighbours of that shape.
func (e *c43Env) randomRowForm(r *rand.Rand) {
	u, d, t := c43Name(r, c43Users, false), c43Name(r, c43DSNs, false), c43Name(r, c43Tables, true)
	quser := c43Name(r, c43Users, true)
	op := "riud"[r.Intn(4)]

	// a granted key on an existing DSN: its holder is the user ?user= names
	keys := []c43Key{}

	for _, k := range e.sortedKeys() {
		if _, ok := e.o.dsnR[k.d]; ok && k.d != "" && k.d != defs.NilTypeString {
			keys = append(keys, k)
		}
	}

	if len(keys) > 0 && r.Intn(6) != 0 {
		k := keys[r.Intn(len(keys))]
		d, t, quser = k.d, k.t, k.u

		// mostly an operation the holder's record carries
		if recs := e.o.grants[k]; len(recs) > 0 && r.Intn(4) != 0 {
			held := []byte{}

			for i, p := range []string{"ego.table.read", "ego.table.write", "ego.table.update", "ego.table.delete"} {
				if recs[0].has(p) {
					held = append(held, "riud"[i])
				}
			}

			if len(held) > 0 {
				op = held[r.Intn(len(held))]
			}
		}

		// the caller: somebody with a DSN-level entry for this DSN, or anybody, or the holder
		switch x := r.Intn(10); {
		case x < 4:
			with := []string{}

			for p := range e.o.dsnA {
				if p.d == d {
					with = append(with, p.u)
				}
			}

			sort.Strings(with)

			if len(with) > 0 {
				u = with[r.Intn(len(with))]
			}
		case x < 5:
			u = k.u
		}

		switch r.Intn(10) {
		case 0:
			quser = c43Pick(r, c43Users)
		case 1:
			quser = u
		}
	}

	if d == "" || d == defs.NilTypeString || u == "" {
		return
	}

	e.qRowForm(u, r.Intn(8) == 0, []int{0, 0, 1, 2, 3, 3, 8}[r.Intn(7)], op, d, t, c43RandomForm(r, quser))
}

// the fixed corpus of the HTTP forms: alice holds the table grant, bob can open the DSN and holds none
func (e *c43Env) corpusForms() {
	e.reset()
	e.opWriteDSN("d1", true)
	e.opGrantDSN("alice", "d1", 3, true)
	e.opGrantDSN("bob", "d1", 3, true)
	e.opGrant("alice", "d1", "t", []string{"ego.table.read", "ego.table.write", "ego.table.update", "ego.table.delete"})
	e.opGrant("carol", "d1", "t", []string{"ego.table.admin"})

	media := defs.AbstractRowSetMediaType

	forms := []c43Form{
		{format: 'n'},
		{format: 'p', abstract: "true"},
		{format: 'h', abstract: media},
		{format: 'n', hasUser: true, userKey: "user", quser: "alice"},
		{format: 'p', abstract: "true", hasUser: true, userKey: "user", quser: "alice"},
		{format: 'p', abstract: "", hasUser: true, userKey: "USER", quser: "alice"},
		{format: 'h', abstract: media, hasUser: true, userKey: "user", quser: "alice"},
		{format: 'h', abstract: strings.ToUpper(media), hasUser: true, userKey: "User", quser: "carol"},
		{format: 'p', abstract: "true", hasUser: true, userKey: "user", quser: "bob"},
		{format: 'p', abstract: "true", hasUser: true, userKey: "user", quser: "root"},
		{format: 'p', abstract: "false", hasUser: true, userKey: "user", quser: "alice"},
	}

	for _, op := range []byte("riud") {
		for _, f := range forms {
			e.qRowForm("bob", false, 0, op, "d1", "t", f) // DSN-level grant, no table grant
		}

		for _, i := range []int{1, 4, 7} {
			e.qRowForm("alice", false, 0, op, "d1", "t", forms[i]) // the holder
		}

		// identity permissions open the DSN, the table grant is still the caller's own
		e.qRowForm("dave", false, 3, op, "d1", "t", forms[4])
		e.qRowForm("dave", false, 8, op, "d1", "t", forms[6])
		// no DSN-level access at all
		e.qRowForm("erin", false, 0, op, "d1", "t", forms[4])
		// an administrator, naming a user with and without a grant
		e.qRowForm("root", true, 0, op, "d1", "t", forms[4])
		e.qRowForm("root", true, 0, op, "d1", "t", forms[8])
		// a DSN that does not exist
		e.qRowForm("bob", false, 0, op, "nope", "t", forms[4])
	}

	// bob gets his own read grant: only read opens, whoever he names
	e.opGrant("bob", "d1", "t", []string{"ego.table.read"})

	for _, op := range []byte("riud") {
		e.qRowForm("bob", false, 0, op, "d1", "t", forms[4])
		e.qRowForm("bob", false, 0, op, "d1", "t", forms[7])
	}

	// alice loses hers: naming her own name (or nobody) does not bring it back
	e.opRevoke("d1", "t", "alice")

	for _, op := range []byte("riud") {
		e.qRowForm("alice", false, 0, op, "d1", "t", forms[4])
		e.qRowForm("alice", false, 0, op, "d1", "t", forms[7])
	}

	// an unrestricted DSN: everybody passes in every form
	e.opWriteDSN("d1", false)
	e.qRowForm("erin", false, 0, 'r', "d1", "t", forms[4])
	e.qRowForm("erin", false, 0, 'i', "d1", "t", forms[6])
}
