//go:build verif

package tables

// C43 — row endpoints enforce table grants.  Correspondence + oracle harness.
//
// Runs the REAL permission store (resources on SQLite), the REAL file DSN service and the REAL database DSN service
// (dsns.NewDatabaseService on SQLite, with its DSN cache; zz_verif_c43f_test.go), the REAL
// Authorized / GrantPermissions / DeletePermissions / createTablePermissions / removeTablePermissions /
// DeletePermissionsByDSN functions and the REAL row handlers (ReadRows, InsertRows, UpdateRows, DeleteRows)
// on generated histories.  Every step is written as a protocol line for the Lean model (c43_cases.jsonl);
// the oracle is the harness's own bookkeeping of who was granted what (maps keyed by STRUCTS, never by joined
// strings), cross-checked against a raw SQL dump of table_perms.

import (
	"fmt"
	"sort"
	"strings"
	"testing"

	"github.com/tucats/ego/internal/verifh"

	_ "modernc.org/sqlite"
)

// ---------------------------------------------------------------- oracle state (independent of the model)

type c43Key struct{ u, d, t string }

type c43Pair struct{ u, d string }

type c43Set struct{ admin, read, write, update, delete bool }

func (p c43Set) has(op string) bool {
	switch strings.ToLower(op) {
	case "ego.table.read":
		return p.read || p.admin
	case "ego.table.write":
		return p.write || p.admin
	case "ego.table.update":
		return p.update || p.admin
	case "ego.table.delete":
		return p.delete || p.admin
	case "ego.table.admin":
		return p.admin
	}

	return false
}

func (p c43Set) flags() string {
	b := func(x bool) string {
		if x {
			return "1"
		}

		return "0"
	}

	return b(p.admin) + b(p.read) + b(p.write) + b(p.update) + b(p.delete)
}

type c43Oracle struct {
	grants map[c43Key][]c43Set // every record the harness asked the store to hold
	dsnR   map[string]bool     // existing DSNs -> restricted
	dsnA   map[c43Pair]int     // DSN-level grants (mask 1|2|8)
}

func newC43Oracle() *c43Oracle {
	return &c43Oracle{grants: map[c43Key][]c43Set{}, dsnR: map[string]bool{}, dsnA: map[c43Pair]int{}}
}

// digest of the table grants: sorted "u|d|t|flags" lines (hex-free, only compared with another digest)
func (o *c43Oracle) digest() string {
	lines := []string{}

	for k, l := range o.grants {
		for _, p := range l {
			lines = append(lines, fmt.Sprintf("%q %q %q %s", k.u, k.d, k.t, p.flags()))
		}
	}

	sort.Strings(lines)

	return strings.Join(lines, "\n")
}

// ---------------------------------------------------------------- raw view of the real store

func c43Truth(v any) bool {
	switch x := v.(type) {
	case bool:
		return x
	case int64:
		return x != 0
	case []byte:
		return string(x) == "1" || strings.EqualFold(string(x), "true")
	case string:
		return x == "1" || strings.EqualFold(x, "true")
	}

	return false
}

// c43Dump reads table_perms with plain SQL (not through resources filters).
func c43Dump(t *testing.T) map[c43Key][]c43Set {
	rows, err := pHandle.Database.Query(`SELECT "user","dsn","table","admin","read","write","update","delete" FROM table_perms`)
	if err != nil {
		t.Fatalf("raw dump: %v", err)
	}
	defer rows.Close()

	res := map[c43Key][]c43Set{}

	for rows.Next() {
		var (
			u, d, tb      string
			a, r, w, up, de any
		)

		if err := rows.Scan(&u, &d, &tb, &a, &r, &w, &up, &de); err != nil {
			t.Fatalf("raw scan: %v", err)
		}

		k := c43Key{u, d, tb}
		res[k] = append(res[k], c43Set{c43Truth(a), c43Truth(r), c43Truth(w), c43Truth(up), c43Truth(de)})
	}

	return res
}

func c43DigestOf(m map[c43Key][]c43Set) string {
	o := &c43Oracle{grants: m}

	return o.digest()
}

// ---------------------------------------------------------------- name universes

var c43Users = []string{"alice", "bob", "Alice", "a", "a|b", "al.ice", "'bob'", "bob;", "ann e", "ünï", "admin", "a|", "''", "\""}
var c43DSNs = []string{"d1", "D1", "a", "a.b", "a.b.c", "c", "b|c", "|c", "x.y", "'d1'", "d 1", "d;1", "dé", "'", "\"\""}
var c43Tables = []string{"t", "T", "c", "b.c", "b.c.d", "c.d", "d", "y", "'t'", "t;x", "t u", "b"}

// tables that exist in the data database (all of the above)
var c43Ops = []string{"ego.table.read", "ego.table.write", "ego.table.update", "ego.table.delete", "ego.table.admin"}

func c43Pick(r interface{ Intn(int) int }, l []string) string { return l[r.Intn(len(l))] }

// a random hostile name, sometimes outside the fixed universe
func c43Name(r interface{ Intn(int) int }, l []string, allowEmpty bool) string {
	switch x := r.Intn(20); {
	case x == 0 && allowEmpty:
		return ""
	case x == 1:
		alpha := []string{"a", "b", "c", ".", "|", "d", "A", "'", " ", "é"}
		n := 1 + r.Intn(4)
		s := ""

		for i := 0; i < n; i++ {
			s += alpha[r.Intn(len(alpha))]
		}

		if strings.TrimSpace(s) == "" {
			return "a"
		}

		return s
	}

	return c43Pick(r, l)
}

func c43HexList(l []string) string {
	if len(l) == 0 {
		return "_"
	}

	h := make([]string, len(l))
	for i, s := range l {
		h[i] = verifh.Hex(s)
	}

	return strings.Join(h, ",")
}

func c43B(b bool) string {
	if b {
		return "1"
	}

	return "0"
}

// SQLEscape leaves a name alone when it has no leading quote, no ';' and no interior quote.
func c43Plain(s string) bool {
	return !strings.ContainsAny(s, "'\";") && s != "@all"
}
