//go:build verif

package tables

// C18 correspondence harness and direct oracle: row values survive a REST round trip.
//
// A table with one column per supported column type (plus an integer key `k`) is created
// through the real TableCreate handler on a real SQLite file.  Every case is one
// (column type, JSON literal) pair: the literal is PUT through InsertRows as the value of
// that column (the PATCH stream goes through UpdateRows), read back through ReadRows, and
// the storage class SQLite chose is observed through a separate connection (typeof()).
//
//   * correspondence: `rt <type> <kind> <payload>` -> `<storage class> <value read back>` or
//     `reject`, compared with the Lean model of the pipeline (decode -> CoerceToColumnType ->
//     bindTimeValue -> SQLite affinity -> driver scan -> CoerceToColumnType -> JSON encode);
//     `norm <type>` -> the normalized type name getColumnInfo reports for the column.
//   * direct oracle (no model): a value inside the documented domain of the column type
//     must be accepted and must read back as the same value -- integers compared exactly
//     as decimal strings (json.Number / big.Int), floats by IEEE value, strings byte for
//     byte, timestamps as instants parsed by Go's time.Parse (not by ego's parser).

import (
	"bytes"
	"database/sql"
	"encoding/json"
	"fmt"
	"math"
	"net/http"
	"net/http/httptest"
	"os"
	"path/filepath"
	"regexp"
	"strconv"
	"strings"
	"testing"

	"github.com/tucats/ego/internal/defs"
	"github.com/tucats/ego/internal/dsns"
	"github.com/tucats/ego/internal/router"
	"github.com/tucats/ego/internal/verifh"

	_ "modernc.org/sqlite"
)

var c18Types = []string{"byte", "int", "int8", "int16", "int32", "int64", "string", "float", "double",
	"float32", "float64", "time", "timestamp", "date", "bool"}

// c18Case is one (column type, JSON literal) pair.
type c18Case struct {
	typ string
	lit string // JSON literal text sent as the column value
}

type c18Env struct {
	t      *testing.T
	file   string
	ref    *sql.DB // observer connection (typeof)
	cases  *verifh.Writer
	fails  *verifh.Writer
	stats  *verifh.Stats
	seen   map[string]bool
	nontr  map[string]bool
	nextK  int
	failed map[string]int
}

func c18Session() *router.Session {
	return &router.Session{ID: 1, User: "admin", Admin: true, URLParts: map[string]any{"dsn": "c18", "table": "c18"}}
}

func (e *c18Env) call(h func(*router.Session, http.ResponseWriter, *http.Request) int, method, url, body string) (int, string) {
	req, err := http.NewRequest(method, url, bytes.NewReader([]byte(body)))
	if err != nil {
		e.t.Fatalf("request: %v", err)
	}

	rr := httptest.NewRecorder()
	status := h(c18Session(), rr, req)

	return status, rr.Body.String()
}

func c18Setup(t *testing.T) *c18Env {
	dir := "/dev/shm"
	if st, err := os.Stat(dir); err != nil || !st.IsDir() {
		dir = os.TempDir()
	}

	file := filepath.Join(dir, fmt.Sprintf("verif-c18-%d.db", os.Getpid()))
	for _, sfx := range []string{"", "-wal", "-shm", "-journal"} {
		_ = os.Remove(file + sfx)
	}

	t.Cleanup(func() {
		for _, sfx := range []string{"", "-wal", "-shm", "-journal"} {
			_ = os.Remove(file + sfx)
		}
	})

	svc, err := dsns.NewFileService("memory")
	if err != nil {
		t.Fatalf("dsn service: %v", err)
	}

	dsns.DSNService = svc
	if err := dsns.DSNService.WriteDSN(1, "admin", defs.DSN{Name: "c18", Provider: defs.SqliteProvider, Database: file}); err != nil {
		t.Fatalf("write dsn: %v", err)
	}

	e := &c18Env{t: t, file: file, cases: verifh.Out("c18_cases.jsonl"), fails: verifh.Out("c18_failures.jsonl"),
		stats: verifh.NewStats(), seen: map[string]bool{}, nontr: map[string]bool{}, failed: map[string]int{}}

	// the table, through the real create handler: k int + one column per type
	cols := []map[string]string{{"name": "k", "type": "int"}}
	for _, ty := range c18Types {
		cols = append(cols, map[string]string{"name": "c_" + ty, "type": ty})
	}

	b, _ := json.Marshal(cols)
	if st, body := e.call(TableCreate, http.MethodPut, "/dsns/c18/tables/c18", string(b)); st != http.StatusCreated {
		t.Fatalf("TableCreate: %d %s", st, body)
	}

	// "uuid" and "json" are not column types of this server: the create handler refuses them
	for _, ty := range []string{"uuid", "json"} {
		st, _ := e.call(TableCreate, http.MethodPut, "/dsns/c18/tables/c18x", `[{"name":"v","type":"`+ty+`"}]`)
		if st == http.StatusCreated {
			e.stats.Inc("create_accepts_" + ty)
		} else {
			e.stats.Inc("create_refuses_" + ty)
		}
	}

	e.ref, err = sql.Open("sqlite", file)
	if err != nil {
		t.Fatalf("observer: %v", err)
	}

	e.ref.SetMaxOpenConns(1)
	t.Cleanup(func() { e.ref.Close() })

	return e
}

func (e *c18Env) oracleFail(class, what, input, got, want string) {
	e.failed[class]++
	if e.failed[class] <= 5 {
		e.fails.Write(verifh.Failure{Class: class, What: what, Input: input, Got: got, Want: want})
	}
}

// ---------------------------------------------------------------------------------------
// canonical forms

var c18IntLit = regexp.MustCompile(`^-?(0|[1-9][0-9]*)$`)

// c18Num canonicalises a JSON number literal: an integer literal that fits int64 is
// `i<decimal>`, anything else is `f<IEEE bits of its float64 value>` (never float text).
func c18Num(lit string) string {
	if c18IntLit.MatchString(lit) {
		if n, err := strconv.ParseInt(lit, 10, 64); err == nil {
			return "i" + strconv.FormatInt(n, 10)
		}
	}

	return c18Bits(lit)
}

// c18Bits is the IEEE bit pattern of the float64 a number literal denotes.
func c18Bits(lit string) string {
	f, err := strconv.ParseFloat(lit, 64)
	if err != nil || math.IsInf(f, 0) {
		return "badnum"
	}

	return fmt.Sprintf("f%016x", math.Float64bits(f))
}

// c18Canon canonicalises a decoded (UseNumber) JSON value read back from a column whose
// stored value has storage class sto.  A number that was stored as a REAL is a float64 and
// is compared by bit pattern (Go prints its shortest digits, which need not be the exact
// integer); a number stored as an INTEGER is compared digit for digit.
func c18Canon(v any, sto string) string {
	if n, ok := v.(json.Number); ok && sto == "real" {
		return c18Bits(string(n))
	}

	switch x := v.(type) {
	case nil:
		return "null"
	case bool:
		if x {
			return "b1"
		}

		return "b0"
	case json.Number:
		return c18Num(string(x))
	case string:
		return "s" + verifh.Hex(x)
	}

	return "other"
}

func c18Decode(lit string) (any, error) {
	d := json.NewDecoder(strings.NewReader(lit))
	d.UseNumber()

	var v any

	err := d.Decode(&v)

	return v, err
}

// protocol input `<kind> <payload>` of a literal; ok=false for literals the protocol does
// not carry (arrays, objects).
func c18Proto(lit string) (string, bool) {
	v, err := c18Decode(lit)
	if err != nil {
		return "", false
	}

	switch x := v.(type) {
	case nil:
		return "n -", true
	case bool:
		if x {
			return "b 1", true
		}

		return "b 0", true
	case json.Number:
		c := c18Num(string(x))
		if c == "badnum" {
			return "", false
		}

		return c[:1] + " " + c[1:], true
	case string:
		return "s " + verifh.Hex(x), true
	}

	return "", false
}
