//go:build verif

package parsing

// VerifBindTimeValue exposes bindTimeValue to the C18 harness (package tables).
func VerifBindTimeValue(v any, provider string) any { return bindTimeValue(v, provider) }
