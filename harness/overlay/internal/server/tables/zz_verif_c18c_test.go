//go:build verif

package tables

// C18 harness, part 3: the batch runner (PUT / PATCH -> GET -> typeof) and result recording.

import (
	"database/sql"
	"encoding/json"
	"fmt"
	"math"
	"net/http"
	"regexp"
	"strconv"
	"strings"
)

type c18Result struct {
	rejected bool   // the write was refused (4xx) -- nothing stored
	status   int    // status of the refused write
	getFail  int    // != 0: the write was accepted but the read-back failed with this status
	value    any    // value read back (UseNumber)
	sto      string // typeof() of the stored value
	raw      string // the stored value as text, when the read-back failed
}

// rawText is the stored value of the only row, as SQLite renders it to text.
func (e *c18Env) rawText(typ string) string {
	var s sql.NullString

	_ = e.ref.QueryRow(`SELECT CAST("c_` + typ + `" AS TEXT) FROM "c18"`).Scan(&s)

	return s.String
}

var c18BadYear = regexp.MustCompile(`^(-[0-9]|[0-9]{5,}-)`)

// c18UnreadableClass names the class of "accepted, then the table cannot be read" for a value
// outside the documented domain, by a predicate on the literal and on the text SQLite holds.
func c18UnreadableClass(typ string, v any, raw string) string {
	if s, ok := v.(string); ok && !c18IsTime(typ) {
		// "Inf" through data.Float64 (float, double), or an overflowing numeric text such as
		// "1e999" that SQLite's REAL affinity converts itself (float32, float64)
		f, _ := strconv.ParseFloat(strings.TrimSpace(s), 64)
		if math.IsInf(f, 0) && (raw == "Inf" || raw == "-Inf") {
			return "float-inf-text-unreadable"
		}
	}

	if c18IsTime(typ) && c18BadYear.MatchString(raw) {
		return "ts-utc-year-outside-0000-9999"
	}

	return "unreadable-" + typ
}

func (e *c18Env) clear() {
	if _, err := e.ref.Exec(`DELETE FROM "c18"`); err != nil {
		e.t.Fatalf("clear: %v", err)
	}
}

// write sends the batch; via = "put" (InsertRows, one array payload) or "patch" (insert the
// key only, then UpdateRows the value with a filter on the key).
func (e *c18Env) write(ks []int, cs []c18Case, via string) (int, string) {
	if via == "put" {
		var b strings.Builder

		b.WriteByte('[')

		for i, c := range cs {
			if i > 0 {
				b.WriteByte(',')
			}

			fmt.Fprintf(&b, `{"k":%d,"c_%s":%s}`, ks[i], c.typ, c.lit)
		}

		b.WriteByte(']')

		return e.call(InsertRows, http.MethodPut, "/dsns/c18/tables/c18/rows", b.String())
	}

	for i, c := range cs {
		if st, body := e.call(InsertRows, http.MethodPut, "/dsns/c18/tables/c18/rows", fmt.Sprintf(`{"k":%d}`, ks[i])); st != http.StatusOK {
			return st, body
		}

		st, body := e.call(UpdateRows, http.MethodPatch, "/dsns/c18/tables/c18/rows"+c18Filter(ks[i]),
			fmt.Sprintf(`{"c_%s":%s}`, c.typ, c.lit))
		if st != http.StatusOK {
			return st, body
		}
	}

	return http.StatusOK, ""
}

// run executes a batch and returns one result per case.  A batch whose write or read fails
// as a whole is re-run case by case so the failing value is isolated.
func (e *c18Env) run(cs []c18Case, via string) []c18Result {
	res := make([]c18Result, len(cs))
	if len(cs) == 0 {
		return res
	}

	e.clear()

	ks := make([]int, len(cs))
	for i := range cs {
		e.nextK++
		ks[i] = e.nextK
	}

	split := func() []c18Result {
		for i := range cs {
			res[i] = e.run(cs[i:i+1], via)[0]
		}

		return res
	}

	st, body := e.write(ks, cs, via)
	if st >= 500 {
		e.stats.Inc("write_5xx")
	}

	if st != http.StatusOK {
		if len(cs) > 1 {
			return split()
		}

		_ = body
		res[0] = c18Result{rejected: true, status: st}

		return res
	}

	st, body = e.call(ReadRows, http.MethodGet, "/dsns/c18/tables/c18/rows?limit=100000", "")
	if st != http.StatusOK {
		if len(cs) > 1 {
			return split()
		}

		res[0] = c18Result{getFail: st, raw: e.rawText(cs[0].typ)}

		return res
	}

	var rs struct {
		Rows []map[string]any `json:"rows"`
	}

	d := json.NewDecoder(strings.NewReader(body))
	d.UseNumber()

	if err := d.Decode(&rs); err != nil {
		// status 200 with a body that is not JSON (json.Marshal failed on a stored value)
		if len(cs) > 1 {
			return split()
		}

		res[0] = c18Result{getFail: -2, raw: e.rawText(cs[0].typ)}

		return res
	}

	byK := map[string]map[string]any{}
	for _, r := range rs.Rows {
		byK[fmt.Sprint(r["k"])] = r
	}

	// storage classes through the observer connection
	var q strings.Builder

	q.WriteString(`SELECT k`)

	for _, ty := range c18Types {
		fmt.Fprintf(&q, `, typeof("c_%s")`, ty)
	}

	q.WriteString(` FROM "c18"`)

	stoByK := map[string]map[string]string{}

	rows, err := e.ref.Query(q.String())
	if err != nil {
		e.t.Fatalf("typeof query: %v", err)
	}

	for rows.Next() {
		var k int64

		vals := make([]string, len(c18Types))
		ptrs := []any{&k}

		for i := range vals {
			ptrs = append(ptrs, &vals[i])
		}

		if err := rows.Scan(ptrs...); err != nil {
			e.t.Fatalf("typeof scan: %v", err)
		}

		m := map[string]string{}
		for i, ty := range c18Types {
			m[ty] = vals[i]
		}

		stoByK[fmt.Sprint(k)] = m
	}

	rows.Close()

	for i, c := range cs {
		key := fmt.Sprint(ks[i])

		r, ok := byK[key]
		if !ok {
			res[i] = c18Result{getFail: -1}

			continue
		}

		res[i] = c18Result{value: r["c_"+c.typ], sto: stoByK[key][c.typ]}
	}

	return res
}

// record writes the correspondence line and applies the direct oracle for one case.
func (e *c18Env) record(c c18Case, r c18Result, via string) {
	e.stats.Inc("evaluations")
	e.stats.Inc("via_" + via)

	id := c.typ + " " + c.lit
	if !e.seen[id] {
		e.seen[id] = true
		e.stats.Inc("distinct")

		if c18Nontrivial(c) {
			e.nontr[id] = true
			e.stats.Inc("distinct_nontrivial")
			e.stats.Sample(map[string]string{"type": c.typ, "literal": c18Short(c.lit)})
		}
	}

	impl := ""

	switch {
	case r.rejected:
		impl = "reject"
		e.stats.Inc("rejected")
	case r.getFail != 0:
		impl = "unreadable"
		e.stats.Inc("unreadable")
	default:
		impl = r.sto + " " + c18Canon(r.value, r.sto)
	}

	v, derr := c18Decode(c.lit)
	if proto, ok := c18Proto(c.lit); ok && derr == nil && c18Modelled(c.typ, v) {
		e.cases.Write(map[string]string{"in": "rt " + c.typ + " " + proto, "impl": impl, "desc": via + " " + c18Short(c.lit)})
		e.stats.Inc("corresponded")
	}

	// a scalar must never make the server fail (5xx); nested values are refused by the driver
	if r.rejected && r.status >= 500 && derr == nil {
		switch v.(type) {
		case map[string]any, []any:
		default:
			e.oracleFail("server-error-"+c.typ, "a scalar value made the write fail with a 5xx status", via+" "+id, fmt.Sprint(r.status), "2xx or 4xx")
		}
	}

	in, same, class := c18Dom(c.typ, c.lit)
	if !in {
		// outside the documented domain a refusal is fine, but an accepted write must not
		// leave the table unreadable
		if r.getFail != 0 && derr == nil {
			e.oracleFail(c18UnreadableClass(c.typ, v, r.raw), "a value is accepted by the write, after which the table can no longer be read",
				via+" "+id, fmt.Sprintf("GET status %d, stored %q", r.getFail, c18Short(r.raw)), "the write is refused, or the table stays readable")
		}

		return
	}

	e.stats.Inc("in_domain")
	e.stats.Inc("in_domain_" + c.typ)

	switch {
	case r.rejected:
		e.oracleFail(class, "a value of the column's documented type is refused by the write", via+" "+id, fmt.Sprint(r.status), "200")
	case r.getFail != 0:
		e.oracleFail(class, "a value of the column's documented type is accepted, after which the table can no longer be read", via+" "+id, fmt.Sprint(r.getFail), "200")
	default:
		if why := same(r.value); why != "" {
			e.oracleFail(class, "the value read back differs from the value written ("+why+")", via+" "+id, c18Short(fmt.Sprint(r.value)), c18Short(c.lit))
		}
	}
}

func c18Short(s string) string {
	if len(s) > 120 {
		return s[:120] + fmt.Sprintf("...(%d bytes)", len(s))
	}

	return s
}

// runAll executes the cases in batches of `size` and records every result.
func (e *c18Env) runAll(all []c18Case, via string, size int) {
	// values of the documented domain are expected to be accepted and travel in large
	// batches; the others are often refused (which fails the whole batch) and travel in small ones
	var dom, rest []c18Case

	for _, c := range all {
		if in, _, _ := c18Dom(c.typ, c.lit); in {
			dom = append(dom, c)
		} else {
			rest = append(rest, c)
		}
	}

	e.runBatches(dom, via, size)

	if size > 5 {
		size = 5
	}

	e.runBatches(rest, via, size)
}

func (e *c18Env) runBatches(cs []c18Case, via string, size int) {
	for len(cs) > 0 {
		n := size
		if n > len(cs) {
			n = len(cs)
		}

		rs := e.run(cs[:n], via)
		for i := range rs {
			e.record(cs[i], rs[i], via)
		}

		cs = cs[n:]
	}
}
