//go:build verif

package tables

// C43, sections T and O.
//
// T: row requests that carry ?transaction=<id> (transactions.go GetDatabase hands out the stored handle of the
//    transaction). Every DSN of this section has its OWN data file, so the database a request acted on is observed
//    (which file's content came back / changed), not inferred. Oracle (no model): whatever database a request by a
//    non-administrator read or changed, if the DSN that owns it is restricted, the harness's record holds the
//    caller's grant for (caller, that DSN, table, operation).
// O: two overlapping GrantPermissions requests for one record; the overlap is produced with a request body that
//    arrives after the other request has completed (GrantPermissions reads the record before it decodes the body).
//    Oracle: the stored record equals the result of one of the two sequential orders.

import (
	"database/sql"
	"encoding/json"
	"fmt"
	"io"
	"math/rand"
	"net/http"
	"net/http/httptest"
	"path/filepath"
	"reflect"
	"strings"

	"github.com/tucats/ego/internal/defs"
	"github.com/tucats/ego/internal/dsns"
	"github.com/tucats/ego/internal/router"
	"github.com/tucats/ego/internal/verifh"
)

var (
	c43TxDSNs   = []string{"ta", "tb", "tc"}
	c43TxUsers  = []string{"alice", "bob", "carol"}
	c43TxTables = []string{"t", "c"}
)

type c43TxCase struct {
	beginner, txDSN string // who begins the transaction, on which DSN
	caller          string
	admin           bool
	op              byte
	urlDSN, table   string
}

// class id of a failing transaction case: a deterministic predicate on the input
func (c c43TxCase) class() string {
	if c.urlDSN != c.txDSN {
		return "tx-foreign-dsn"
	}

	return "tx-row"
}

type c43TxEnv struct {
	e    *c43Env
	raw  map[string]*sql.DB
	file map[string]string
}

func (e *c43Env) newTxEnv() *c43TxEnv {
	x := &c43TxEnv{e: e, raw: map[string]*sql.DB{}, file: map[string]string{}}

	for _, d := range c43TxDSNs {
		x.file[d] = filepath.Join(filepath.Dir(e.dataFile), "tx-"+d+".db")

		db, err := sql.Open("sqlite", x.file[d])
		if err != nil {
			e.t.Fatal(err)
		}

		for _, tb := range c43TxTables {
			if _, err := db.Exec(`CREATE TABLE "` + tb + `" (id integer, v text)`); err != nil {
				e.t.Fatal(err)
			}
		}

		x.raw[d] = db
		e.t.Cleanup(func() { db.Close() })
	}

	return x
}

func c43Marker(d, tb string) string { return "row-of-" + d + "-" + tb }

// restore puts the one marked row back into every table of every data file.
func (x *c43TxEnv) restore() {
	for _, d := range c43TxDSNs {
		for _, tb := range c43TxTables {
			if _, err := x.raw[d].Exec(`DELETE FROM "` + tb + `"`); err != nil {
				x.e.t.Fatalf("restore %s.%s: %v", d, tb, err)
			}

			_, _ = x.raw[d].Exec(`INSERT INTO "`+tb+`" (id, v) VALUES (1, ?)`, c43Marker(d, tb))
		}
	}
}

func (x *c43TxEnv) dump(d string) string {
	out := []string{}

	for _, tb := range c43TxTables {
		rows, err := x.raw[d].Query(`SELECT id, v FROM "` + tb + `" ORDER BY id, v`)
		if err != nil {
			x.e.t.Fatalf("dump %s.%s: %v", d, tb, err)
		}

		for rows.Next() {
			var (
				id int
				v  string
			)

			_ = rows.Scan(&id, &v)
			out = append(out, fmt.Sprintf("%s:%d:%s", tb, id, v))
		}

		rows.Close()
	}

	return strings.Join(out, ",")
}

// start a history of section T: the three DSNs with their own files, restricted as told
func (x *c43TxEnv) start(restricted map[string]bool) {
	e := x.e
	e.reset()
	x.restore()

	for _, d := range c43TxDSNs {
		err := dsns.DSNService.WriteDSN(1, "root", defs.DSN{Name: d, Provider: defs.SqliteProvider,
			Database: x.file[d], Restricted: restricted[d]})
		e.emit(fmt.Sprintf("W %s %s", verifh.Hex(d), c43B(restricted[d])), map[bool]string{true: "ok", false: "err"}[err == nil])
		e.o.dsnR[d] = restricted[d]
	}
}

func (x *c43TxEnv) end(id string, commit bool) {
	s := &router.Session{ID: 4, User: "root", Admin: true, URLParts: map[string]any{},
		Parameters: map[string][]string{defs.TransactionIDParameterName: {id}}}
	req, _ := http.NewRequest(http.MethodPost, "/tables/@transaction", nil)

	if commit {
		CommitHandler(s, httptest.NewRecorder(), req)
		// CommitHandler leaves the handle of the transaction open; close it here (handle lifetime is C09's subject)
	} else {
		RollbackHandler(s, httptest.NewRecorder(), req)
	}
}

// one case: beginner begins on txDSN; caller sends a row request naming urlDSN with the transaction's id.
func (x *c43TxEnv) run(c c43TxCase) {
	e := x.e

	// the beginner holds what BeginHandler asks for (DSN-level read+write on a restricted DSN)
	if e.o.dsnR[c.txDSN] && e.o.dsnA[c43Pair{c.beginner, c.txDSN}]&3 != 3 {
		e.opGrantDSN(c.beginner, c.txDSN, 3, true)
	}

	rr := httptest.NewRecorder()
	breq, _ := http.NewRequest(http.MethodPost, "/dsns/x/@begin", nil)
	bs := &router.Session{ID: 2, User: c.beginner, Permissions: []string{"ego.logon"},
		URLParts: map[string]any{"dsn": c.txDSN}, Parameters: map[string][]string{}}

	if st := BeginHandler(bs, rr, breq); st != http.StatusOK {
		e.stats.Inc("tx_begin_refused")

		return
	}

	var resp defs.TransactionResponse

	_ = json.Unmarshal(rr.Body.Bytes(), &resp)

	before := map[string]string{}
	for _, d := range c43TxDSNs {
		before[d] = x.dump(d)
	}

	target := "/dsns/x/tables/y/rows?" + defs.TransactionIDParameterName + "=" + resp.ID

	var (
		req     *http.Request
		handler func(*router.Session, http.ResponseWriter, *http.Request) int
		perm    string
	)

	switch c.op {
	case 'r':
		req, _ = http.NewRequest(http.MethodGet, target, nil)
		handler, perm = ReadRows, "ego.table.read"
	case 'i':
		req, _ = http.NewRequest(http.MethodPut, target, strings.NewReader(`{"id": 7, "v": "inserted"}`))
		handler, perm = InsertRows, "ego.table.write"
	case 'u':
		req, _ = http.NewRequest(http.MethodPatch, target+"&filter=EQ(id,1)", strings.NewReader(`{"v": "updated"}`))
		handler, perm = UpdateRows, "ego.table.update"
	default:
		req, _ = http.NewRequest(http.MethodDelete, target+"&filter=EQ(id,1)", nil)
		handler, perm = DeleteRows, "ego.table.delete"
	}

	params := map[string][]string{}
	for k, v := range req.URL.Query() {
		params[k] = v
	}

	s := &router.Session{ID: 3, User: c.caller, Admin: c.admin, Permissions: []string{"ego.logon"},
		URLParts: map[string]any{"dsn": c.urlDSN, "table": c.table}, Parameters: params}
	out := httptest.NewRecorder()
	status := handler(s, out, req)

	x.end(resp.ID, c.op != 'r')

	impl := "pass"
	if status == http.StatusForbidden {
		impl = "403"
	}

	in := fmt.Sprintf("X %s %s %c %s %s %s", verifh.Hex(c.caller), c43B(c.admin), c.op, c43B(e.o.dsnR[c.txDSN]),
		verifh.Hex(c.urlDSN), verifh.Hex(c.table))
	e.emit(in, impl)
	e.hist[len(e.hist)-1] = in + fmt.Sprintf("   # transaction begun by %s on DSN %s; request by %s names DSN %s",
		c.beginner, c.txDSN, c.caller, c.urlDSN)
	e.stats.Inc("tx_requests")
	e.stats.Inc("tx_" + c.class() + "_" + impl)

	// which databases did the request read or change?
	touched := []string{}

	for _, d := range c43TxDSNs {
		served := c.op == 'r' && status == http.StatusOK && strings.Contains(out.Body.String(), c43Marker(d, c.table))
		if served || x.dump(d) != before[d] {
			touched = append(touched, d)
		}
	}

	for _, d := range touched {
		if !e.o.dsnR[d] || c.admin {
			continue
		}

		e.note(in+" "+d, true)
		e.stats.Inc("tx_acted_on_restricted")

		if ok, _ := e.wantTable(c.caller, d, c.table, []string{perm}); !ok {
			e.fail(c.class(), fmt.Sprintf("%c rows of table %q: the request by user=%q (no %s grant for DSN %q) named DSN %q and transaction %s/%s; "+
				"it acted on the database of restricted DSN %q: HTTP %d", c.op, c.table, c.caller, perm, d, c.urlDSN, c.beginner, c.txDSN, d, status),
				"acted on "+d, "403")
		}
	}

	if len(touched) > 0 && c.op != 'r' {
		x.restore()
	}
}

func (x *c43TxEnv) corpus() {
	// alice: DSN-level access to ta and the read grant for ta.t only; her own transaction on ta, the URL names tb
	x.start(map[string]bool{"ta": true, "tb": false, "tc": true})
	x.e.opGrant("alice", "ta", "t", []string{"ego.table.read"})
	x.run(c43TxCase{"alice", "ta", "alice", false, 'r', "ta", "c"})
	x.run(c43TxCase{"alice", "ta", "alice", false, 'r', "ta", "t"})
	x.run(c43TxCase{"alice", "ta", "alice", false, 'r', "tb", "c"})
	// carol holds nothing; alice's transaction, the URL names tb / tc / ta
	x.run(c43TxCase{"alice", "ta", "carol", false, 'd', "tb", "t"})
	x.run(c43TxCase{"alice", "ta", "carol", false, 'r', "tc", "t"})
	x.run(c43TxCase{"alice", "ta", "carol", false, 'r', "ta", "t"})
	// a grant on tc (another restricted DSN) used for ta's table
	x.e.opGrant("bob", "tc", "t", []string{"ego.table.update"})
	x.run(c43TxCase{"alice", "ta", "bob", false, 'u', "tc", "t"})
	x.run(c43TxCase{"alice", "ta", "root", true, 'i', "tb", "t"})
}

func (x *c43TxEnv) random(r *rand.Rand) {
	restricted := map[string]bool{}
	for _, d := range c43TxDSNs {
		restricted[d] = r.Intn(3) != 0
	}

	x.start(restricted)

	for i, n := 0, 2+r.Intn(5); i < n; i++ {
		x.e.opGrant(c43Pick(r, c43TxUsers), c43Pick(r, c43TxDSNs), c43Pick(r, c43TxTables), x.e.keys(r))
	}

	for i, n := 0, 2+r.Intn(4); i < n; i++ {
		c := c43TxCase{beginner: c43Pick(r, c43TxUsers), txDSN: c43Pick(r, c43TxDSNs), caller: c43Pick(r, c43TxUsers),
			admin: r.Intn(10) == 0, op: "riud"[r.Intn(4)], urlDSN: c43Pick(r, c43TxDSNs), table: c43Pick(r, c43TxTables)}

		switch r.Intn(4) {
		case 0:
			c.urlDSN = c.txDSN
		case 1:
			c.caller = c.beginner
		}

		x.run(c)
	}
}

// ---------------------------------------------------------------- section O: overlapping grants

type c43GatedBody struct {
	data    io.Reader
	reached chan struct{}
	release chan struct{}
	once    bool
}

func (b *c43GatedBody) Read(p []byte) (int, error) {
	if !b.once {
		b.once = true
		close(b.reached)
		<-b.release
	}

	return b.data.Read(p)
}

var c43PermNames = []string{"ego.table.admin", "ego.table.read", "ego.table.write", "ego.table.update", "ego.table.delete"}

// clean signed keys over distinct permissions
func c43CleanKeys(r *rand.Rand) []string {
	keys := []string{}

	for _, i := range r.Perm(5)[:1+r.Intn(2)] {
		keys = append(keys, []string{"", "+", "-", "-"}[r.Intn(4)]+c43PermNames[i])
	}

	return keys
}

func c43Apply(s c43Set, keys []string) c43Set {
	for _, k := range keys {
		set := !strings.HasPrefix(k, "-")

		switch strings.TrimLeft(k, "+-") {
		case "ego.table.admin":
			s.admin = set
		case "ego.table.read":
			s.read = set
		case "ego.table.write":
			s.write = set
		case "ego.table.update":
			s.update = set
		case "ego.table.delete":
			s.delete = set
		}
	}

	return s
}

// overlap: the record of (u, d, t) exists; request 1 (keys1) reads it, request 2 (keys2) runs completely, then the
// body of request 1 arrives.
func (e *c43Env) overlap(u, d, t string, initial, keys1, keys2 []string) {
	e.reset()
	e.opWriteDSN(d, true)
	e.opGrant(u, d, t, initial)

	k := c43Key{u, d, t}
	if len(e.o.grants[k]) != 1 {
		return
	}

	start := e.o.grants[k][0]
	b1, _ := json.Marshal(keys1)
	body := &c43GatedBody{data: strings.NewReader(string(b1)), reached: make(chan struct{}), release: make(chan struct{})}
	done := make(chan int, 1)

	go func() {
		req, _ := http.NewRequest(http.MethodPut, "/dsns/x/tables/y/permissions", body)
		done <- GrantPermissions(e.admin(d, t, map[string][]string{"user": {u}}), httptest.NewRecorder(), req)
	}()

	<-body.reached
	e.opGrant(u, d, t, keys2)
	close(body.release)

	st1 := <-done
	line := fmt.Sprintf("O %s %s %s %s   # overlaps the preceding G: it read the record before that G, its body (%s) arrived after; HTTP %d",
		verifh.Hex(u), verifh.Hex(d), verifh.Hex(t), c43HexList(keys1), strings.Join(keys1, " "), st1)
	e.hist = append(e.hist, line)
	e.stats.Inc("overlapped_grants")

	got := c43Dump(e.t)[k]
	seq12 := c43Apply(c43Apply(start, keys1), keys2)
	seq21 := c43Apply(c43Apply(start, keys2), keys1)
	e.note(line, true)

	if st1 == http.StatusOK && !reflect.DeepEqual(got, []c43Set{seq12}) && !reflect.DeepEqual(got, []c43Set{seq21}) {
		flags := []string{}
		for _, g := range got {
			flags = append(flags, g.flags())
		}

		e.fail("grant-overlap-lost-update", fmt.Sprintf("both grants for (%q, %q, %q) answered 200 (%v overlapping %v, record before: %s); the stored "+
			"record (admin,read,write,update,delete) is the result of neither order", u, d, t, keys1, keys2, start.flags()),
			strings.Join(flags, ","), seq12.flags()+" or "+seq21.flags())
	}
}

func (e *c43Env) sectionTO() {
	wasDB := e.db
	e.db = false

	defer func() { e.db = wasDB }()

	x := e.newTxEnv()
	x.corpus()

	r := verifh.Rand(43043)
	for h, n := 0, verifh.N(12, 150); h < n; h++ {
		x.random(r)
	}

	// w holds read+write; "-write" completes while "+update" waits for its body
	e.overlap("w", "ta", "t", []string{"ego.table.read", "ego.table.write"}, []string{"ego.table.update"}, []string{"-ego.table.write"})

	ro := verifh.Rand(43044)
	for h, n := 0, verifh.N(8, 80); h < n; h++ {
		e.overlap(c43Pick(ro, c43TxUsers), c43Pick(ro, c43TxDSNs), c43Pick(ro, c43TxTables), c43CleanKeys(ro), c43CleanKeys(ro), c43CleanKeys(ro))
	}
}
