//go:build verif

package tables

import (
	"database/sql"
	"math/rand"
	"os"
	"path/filepath"
	"sort"
	"testing"

	"github.com/tucats/ego/internal/caches"
	"github.com/tucats/ego/internal/cli/settings"
	"github.com/tucats/ego/internal/defs"
	"github.com/tucats/ego/internal/dsns"
	"github.com/tucats/ego/internal/verifh"
)

// start a new history: empty DSN service (the file service, or for e.db the database service), empty table_perms
func (e *c43Env) reset() {
	if e.db {
		e.resetDB()
	} else {
		svc, err := dsns.NewFileService("memory")
		if err != nil {
			e.t.Fatalf("file service: %v", err)
		}

		dsns.DSNService = svc
	}

	if !initPermissions() {
		e.t.Fatalf("permission store not available")
	}

	if _, err := pHandle.Database.Exec(`DELETE FROM table_perms`); err != nil {
		e.t.Fatalf("clear table_perms: %v", err)
	}

	e.o = newC43Oracle()
	e.hist = nil

	if e.db {
		e.emit("Zd", "ok")
		e.stats.Inc("db_histories")
	} else {
		e.emit("Z", "ok")
	}

	e.stats.Inc("histories")
}

func (e *c43Env) keys(r *rand.Rand) []string {
	n := 1 + r.Intn(3)
	keys := []string{}

	for i := 0; i < n; i++ {
		k := c43Pick(r, c43Ops)

		switch r.Intn(12) {
		case 0:
			k = "-" + k
		case 1:
			k = "+" + k
		case 2:
			k = "-" + k
		case 3:
			k = "EGO.Table." + map[bool]string{true: "READ", false: "Admin"}[r.Intn(2) == 0]
		case 4:
			k = c43Pick(r, []string{" " + k, k + " ", "read", "ego.table.", " ", "-", "+", "ego.dsn.admin", "-EGO.TABLE.WRITE", "ego.table.read,ego.table.write"})
		}

		keys = append(keys, k)
	}

	return keys
}

func (e *c43Env) randomOp(r *rand.Rand) {
	u, d, t := c43Name(r, c43Users, true), c43Name(r, c43DSNs, true), c43Name(r, c43Tables, true)

	// database service: now and then the DSN cache loses an entry (or everything) between two operations
	if e.db {
		switch r.Intn(12) {
		case 0:
			e.opEvict(d)
		case 1:
			for _, name := range e.sortedDSNs() {
				e.opEvict(name)
			}
		}
	}

	switch x := r.Intn(100); {
	case x < 34:
		e.opGrant(u, d, t, e.keys(r))
	case x < 42:
		// revoke: any subset of the three filters
		if r.Intn(3) == 0 {
			u = ""
		}

		if r.Intn(5) == 0 {
			t = ""
		}

		if r.Intn(8) == 0 {
			d = c43Pick(r, []string{"", "@all"})
		}

		e.opRevoke(d, t, u)
	case x < 48:
		e.opCreate(u, d, t)
	case x < 51:
		e.opRemoveTable(d, t)
	case x < 53:
		e.opDeleteByDSN(d)
	case x < 70:
		if d != "" {
			e.opWriteDSN(d, r.Intn(5) != 0)
		}
	case x < 74:
		e.opDeleteDSN(d)
	case x < 76:
		e.opRevokeAllDSN(d)
	default:
		e.opGrantDSN(u, d, []int{1, 2, 3, 8, 9, 10, 11, 0}[r.Intn(8)], r.Intn(4) != 0)
	}
}

func (e *c43Env) randomQuery(r *rand.Rand, rows bool) {
	u, d, t := c43Name(r, c43Users, true), c43Name(r, c43DSNs, true), c43Name(r, c43Tables, true)

	// bias towards keys that were granted, and towards their "dot twins" and "pipe twins"
	if len(e.o.grants) > 0 && r.Intn(3) > 0 {
		k := e.sortedKeys()[r.Intn(len(e.o.grants))]
		u, d, t = k.u, k.d, k.t

		switch r.Intn(8) {
		case 0:
			u = c43Pick(r, c43Users)
		case 1:
			d = c43Pick(r, c43DSNs)
		case 2:
			t = c43Pick(r, c43Tables)
		case 3: // move the first dot: (a, b.c) <-> (a.b, c)
			if a, b, ok := cut(t, "."); ok {
				d, t = d+"."+a, b
			} else if a, b, ok := cut(d, "."); ok {
				d, t = a, b+"."+t
			}
		}
	}

	ops := []string{c43Pick(r, c43Ops)}

	switch r.Intn(10) {
	case 0:
		ops = append(ops, c43Pick(r, c43Ops))
	case 1:
		ops = []string{c43Pick(r, []string{"EGO.TABLE.READ", "Ego.Table.Admin", "read", "", "ego.table.readx"})}
	case 2:
		ops = []string{}
	}

	switch x := r.Intn(10); {
	case rows && x < 3 && d != "" && d != defs.NilTypeString:
		// half of the row requests come from a user that holds some DSN-level entry
		if len(e.o.dsnA) > 0 && r.Intn(2) == 0 {
			if pu, pd := e.pickPair(r); pd != "" {
				u, d = pu, pd

				for _, k := range e.sortedKeys() {
					if k.u == u && k.d == d && r.Intn(2) == 0 {
						t = k.t

						break
					}
				}
			}
		}

		e.qRow(u, r.Intn(8) == 0, []int{0, 0, 0, 1, 2, 3, 8}[r.Intn(7)], "riud"[r.Intn(4)], d, t)
	case x < 7:
		su, sadmin := u, r.Intn(8) == 0
		if r.Intn(6) == 0 {
			su = c43Pick(r, c43Users)
		}

		e.qAuth(su, sadmin, u, d, t, ops)
	case x < 9:
		// bias towards (user, dsn) pairs that hold a DSN-level entry, and towards their neighbours
		if len(e.o.dsnA) > 0 && r.Intn(4) > 0 {
			u, d = e.pickPair(r)

			switch r.Intn(6) {
			case 0:
				u = c43Pick(r, c43Users)
			case 1:
				d = c43Pick(r, c43DSNs)
			}
		}

		e.qAuthDSN(u, d, []int{1, 2, 3, 8, 9, 11, 10}[r.Intn(7)])
	default:
		// the stored rows for the key, through the real filters
		e.qLookup(u, d, t)
	}
}

// the granted keys in a map-order independent order (a run is a function of VERIF_SEED only)
func (e *c43Env) sortedKeys() []c43Key {
	keys := make([]c43Key, 0, len(e.o.grants))
	for k := range e.o.grants {
		keys = append(keys, k)
	}

	sort.Slice(keys, func(i, j int) bool {
		a, b := keys[i], keys[j]
		if a.u != b.u {
			return a.u < b.u
		}

		if a.d != b.d {
			return a.d < b.d
		}

		return a.t < b.t
	})

	return keys
}

// a (user, dsn) pair with a DSN-level entry, chosen in a map-order independent way
func (e *c43Env) pickPair(r *rand.Rand) (string, string) {
	pairs := make([]c43Pair, 0, len(e.o.dsnA))
	for p := range e.o.dsnA {
		pairs = append(pairs, p)
	}

	sort.Slice(pairs, func(i, j int) bool {
		if pairs[i].u != pairs[j].u {
			return pairs[i].u < pairs[j].u
		}

		return pairs[i].d < pairs[j].d
	})

	p := pairs[r.Intn(len(pairs))]

	return p.u, p.d
}

func (e *c43Env) sortedDSNs() []string {
	names := make([]string, 0, len(e.o.dsnR))
	for name := range e.o.dsnR {
		names = append(names, name)
	}

	sort.Strings(names)

	return names
}

func cut(s, sep string) (string, string, bool) {
	for i := 0; i+len(sep) <= len(s); i++ {
		if s[i:i+len(sep)] == sep {
			return s[:i], s[i+len(sep):], true
		}
	}

	return s, "", false
}

func TestVerifC43(t *testing.T) {
	dir := t.TempDir()
	if st, err := os.Stat("/dev/shm"); err == nil && st.IsDir() {
		if d, err := os.MkdirTemp("/dev/shm", "verif-c43-"); err == nil {
			dir = d

			t.Cleanup(func() { _ = os.RemoveAll(d) })
		}
	}

	// the permission store, as the package's own tests set it up
	original := settings.Get(defs.LogonUserdataSetting)
	settings.Set(defs.LogonUserdataSetting, "sqlite://"+filepath.Join(dir, "perms.db"))
	pValid, pHandle = false, nil

	t.Cleanup(func() { settings.Set(defs.LogonUserdataSetting, original); pValid, pHandle = false, nil })

	// the data database every DSN points at
	dataFile := filepath.Join(dir, "data.db")

	db, err := sql.Open("sqlite", dataFile)
	if err != nil {
		t.Fatal(err)
	}

	for _, name := range []string{"t", "c", "d", "y", "b", "b.c", "c.d"} {
		if _, err := db.Exec(`CREATE TABLE "` + name + `" (id integer, v text)`); err != nil {
			t.Fatal(err)
		}

		_, _ = db.Exec(`INSERT INTO "` + name + `" (id, v) VALUES (1, 'one')`)
	}

	db.Close()

	e := &c43Env{t: t, cases: verifh.Out("c43_cases.jsonl"), fails: verifh.Out("c43_failures.jsonl"),
		stats: verifh.NewStats(), dataFile: dataFile, seen: map[string]bool{}}
	defer func() { e.cases.Close(); e.fails.Close(); e.stats.Save("c43_stats.json") }()

	savedService := dsns.DSNService

	e.openDBService(filepath.Join(dir, "dsns.db"))
	t.Cleanup(func() {
		dsns.DSNService = savedService

		e.dsnRaw.Close()
		e.closeDB()
		caches.Purge(caches.DSNCache)
	})

	// the fixed corpus against both DSN services
	e.corpus()

	e.corpusForms()

	// row requests inside client transactions; overlapping grants (zz_verif_c43h_test.go)
	e.sectionTO()

	e.db = true
	e.corpus()
	e.corpusForms()

	// random histories: the file service, then (fewer: each DSN operation is several SQL statements) the
	// database service with its own stream
	for _, mode := range []struct {
		db        bool
		salt      int64
		histories int
	}{{false, 43, verifh.N(100, 1500)}, {true, 4343, verifh.N(35, 500)}} {
		e.db = mode.db
		r := verifh.Rand(mode.salt)
		rf := verifh.Rand(mode.salt + 7000) // the HTTP forms of row requests draw from their own stream

		for h := 0; h < mode.histories; h++ {
			e.reset()

			// a few DSNs to start with, mostly restricted
			for i, n := 0, 2+r.Intn(4); i < n; i++ {
				e.opWriteDSN(c43Pick(r, c43DSNs), r.Intn(6) != 0)
			}

			for i, n := 0, 8+r.Intn(30); i < n; i++ {
				// a DSN that starts unrestricted and is restricted by its first DSN-level grant
				if r.Intn(25) == 0 || (i == 0 && r.Intn(3) == 0) {
					e.restrictByGrant(r)
				}

				e.randomOp(r)

				for q, nq := 0, 1+r.Intn(3); q < nq; q++ {
					e.randomQuery(r, true)
				}

				// row requests in both row formats, with and without ?user= (zz_verif_c43g_test.go)
				if rf.Intn(verifh.N(12, 3)) == 0 {
					e.randomRowForm(rf)
				}
			}
		}
	}
}
