//go:build verif

package scripting

import (
	"github.com/tucats/ego/internal/server/tables/database"
	"github.com/tucats/ego/internal/sqlparse"
)

// VerifC15Authorize exposes authorizeAndClassifySQL (the @transaction "sql" task's gate) to the
// C15 harness, which lives in package tables (tables imports scripting, not the other way round).
func VerifC15Authorize(db *database.Database, sqlText string) (sqlparse.StatementKind, bool, int, error) {
	return authorizeAndClassifySQL(db, sqlText)
}
