//go:build verif

package scripting

// C17 — correspondence harness (T2) and direct oracle for the @transaction handler.
//
// Every case is a generated transaction script posted to the REAL scripting.Handler against
// a fresh copy of a seeded SQLite file (DSN with foreign keys enforced, so that a deferred
// foreign-key violation makes the final COMMIT itself fail).  A reference result is obtained
// WITHOUT the handler and without the Lean model: the harness' own plain SQL for every
// operation, run in one transaction on a second copy of the file (the "shadow").
//
// Direct oracle (model free), per request:
//   * status 2xx  ⇒ every table equals the shadow's (all applied), and no operation was meant to fail
//   * status not 2xx ⇒ every table equals its content before the request (nothing applied)
//   * no operation/condition/commit failure intended ⇒ status 2xx (and conversely)
//   * afterwards an independent connection can take the write lock at once (BEGIN IMMEDIATE,
//     busy_timeout 0) and this process holds no file descriptor on the database any more
// Correspondence: the request is abstracted to the model's alphabet (operation ok/err, writes,
// per-condition outcome, commit outcome, pre-check) together with the source facts extracted by
// zz_verif_c17_extract_test.go, and the observed (status class, applied, lock, handle) tuple is
// compared with the Lean model's answer.

import (
	"bytes"
	"context"
	"database/sql"
	"database/sql/driver"
	"encoding/json"
	"fmt"
	"math/rand"
	"net/http"
	"net/http/httptest"
	"os"
	"path/filepath"
	"sort"
	"strings"
	"sync"
	"syscall"
	"testing"

	"github.com/tucats/ego/internal/defs"
	"github.com/tucats/ego/internal/dsns"
	"github.com/tucats/ego/internal/language/data"
	"github.com/tucats/ego/internal/language/expressions"
	"github.com/tucats/ego/internal/language/symbols"
	"github.com/tucats/ego/internal/router"
	"github.com/tucats/ego/internal/server/tables/parsing"
	"github.com/tucats/ego/internal/verifh"

	"modernc.org/sqlite"
)

// ---------------------------------------------------------------- database plumbing

var c17Schema = []string{
	`CREATE TABLE p (id INTEGER PRIMARY KEY)`,
	`CREATE TABLE t (id INTEGER PRIMARY KEY, v TEXT, n INTEGER NOT NULL DEFAULT 0,
	                 pid INTEGER REFERENCES p(id) DEFERRABLE INITIALLY DEFERRED)`,
	`CREATE TABLE u (k TEXT UNIQUE, w INTEGER CHECK (w >= 0))`,
	`CREATE TABLE s1 (x INTEGER)`, `CREATE TABLE s2 (x INTEGER)`, `CREATE TABLE s3 (x INTEGER)`,
	`CREATE TABLE verif_probe (x INTEGER)`,
	`INSERT INTO p VALUES (1),(2),(3)`,
	`INSERT INTO s1 VALUES (1)`, `INSERT INTO s2 VALUES (2)`, `INSERT INTO s3 VALUES (3)`,
}

const c17SeedRows = 8 // t has ids 1..8, u has keys k1..k8

func c17MakeTemplate(t *testing.T, dir string) []byte {
	path := filepath.Join(dir, "template.db")

	h, err := sql.Open("sqlite", path)
	if err != nil {
		t.Fatal(err)
	}

	for _, q := range c17Schema {
		if _, err := h.Exec(q); err != nil {
			t.Fatalf("template: %s: %v", q, err)
		}
	}

	for i := 1; i <= c17SeedRows; i++ {
		if _, err := h.Exec(`INSERT INTO t (id, v, n, pid) VALUES (?, ?, ?, ?)`, i, fmt.Sprintf("seed%d", i), i*10, 1+i%3); err != nil {
			t.Fatal(err)
		}

		if _, err := h.Exec(`INSERT INTO u (k, w) VALUES (?, ?)`, fmt.Sprintf("k%d", i), i); err != nil {
			t.Fatal(err)
		}
	}

	_ = h.Close()

	b, err := os.ReadFile(path)
	if err != nil {
		t.Fatal(err)
	}

	return b
}

type c17Querier interface {
	Query(query string, args ...any) (*sql.Rows, error)
}

// c17Snapshot dumps every user table (sorted rows) as seen by the given connection.
func c17Snapshot(h c17Querier) string {
	rows, err := h.Query(`SELECT name FROM sqlite_master WHERE type = 'table' AND name NOT LIKE 'sqlite_%' AND name <> 'verif_probe' ORDER BY name`)
	if err != nil {
		return "master-error " + err.Error()
	}

	names := []string{}

	for rows.Next() {
		var n string

		_ = rows.Scan(&n)
		names = append(names, n)
	}

	_ = rows.Close()

	var out strings.Builder

	for _, n := range names {
		out.WriteString("[" + n + "]")

		rs, err := h.Query(`SELECT * FROM "` + n + `"`)
		if err != nil {
			out.WriteString("error " + err.Error())

			continue
		}

		cols, _ := rs.Columns()
		lines := []string{}

		for rs.Next() {
			vals := make([]any, len(cols))
			ptrs := make([]any, len(cols))

			for i := range vals {
				ptrs[i] = &vals[i]
			}

			_ = rs.Scan(ptrs...)

			for i, v := range vals {
				if b, ok := v.([]byte); ok {
					vals[i] = string(b)
				}
			}

			lines = append(lines, fmt.Sprintf("%#v", vals))
		}

		_ = rs.Close()

		sort.Strings(lines)
		out.WriteString(strings.Join(lines, ";"))
	}

	return out.String()
}

// c17Observe opens ONE independent connection after the request: can it take the write lock
// immediately (busy_timeout 0) and commit a write?  what do the tables contain now?
func c17Observe(path string) (free bool, lockMsg string, snapshot string) {
	h, err := sql.Open("sqlite", path)
	if err != nil {
		return false, err.Error(), "open-error"
	}

	defer h.Close()

	h.SetMaxOpenConns(1)

	free = true

	for _, q := range []string{`PRAGMA busy_timeout=0`, `BEGIN IMMEDIATE`, `INSERT INTO verif_probe VALUES (1)`, `COMMIT`} {
		if _, err := h.Exec(q); err != nil {
			free, lockMsg = false, q+": "+err.Error()

			break
		}
	}

	return free, lockMsg, c17Snapshot(h)
}

func c17OpenFDs(prefix string) int {
	ents, _ := os.ReadDir("/proc/self/fd")
	n := 0

	for _, e := range ents {
		if l, err := os.Readlink("/proc/self/fd/" + e.Name()); err == nil && strings.HasPrefix(l, prefix) {
			n++
		}
	}

	return n
}

// ---------------------------------------------------------------- generated request

type c17Cond struct {
	text   string
	letter byte // e m v t f
	status int
}

type c17Task struct {
	op     defs.TXOperation
	kind   byte     // p plain, c raw COMMIT, r raw ROLLBACK, b raw BEGIN
	ok     bool     // the operation is meant to succeed
	writes bool     // … and to change the database
	locks  bool     // a write statement reaches the engine (takes the write lock), even if no row changes or a constraint fails
	shadow []string // the harness' own SQL for it (only when ok)
	args   [][]any
	conds  []c17Cond
	what   string
}

type c17Case struct {
	pre      string // fine decode opcode perm open
	tasks    []c17Task
	body     []byte
	session  *router.Session
	dsn      string
	trip     string // first intended failure: "" | opErr | malformed | evalErr | condTrue | commitErr | pre kinds
	txctl    bool
	commitOK bool
	// the request's context: "" never cancelled | "pre" cancelled before the handler is called |
	// "poll" reported cancelled from its (ctxK+1)-th observation (Err / Done) on | "sql" cancelled
	// from inside the engine while operation ctxK (a statement calling verif_c17_hangup()) runs
	ctxMode string
	ctxK    int
}

// ---------------------------------------------------------------- request contexts

// c17PollCtx is a context that is alive for its first `left` observations and cancelled from
// the next one on: whatever place of the handler looks at the request's context, and however
// often, some k makes the cancellation become visible exactly there.
type c17PollCtx struct {
	context.Context
	mu    sync.Mutex
	left  int
	fired bool
	seen  int
	done  chan struct{}
}

func c17NewPollCtx(k int) *c17PollCtx {
	return &c17PollCtx{Context: context.Background(), left: k, done: make(chan struct{})}
}

func (c *c17PollCtx) observe() bool {
	c.mu.Lock()
	defer c.mu.Unlock()

	c.seen++

	if !c.fired {
		if c.left > 0 {
			c.left--
		} else {
			c.fired = true

			close(c.done)
		}
	}

	return c.fired
}

func (c *c17PollCtx) Done() <-chan struct{} { c.observe(); return c.done }

func (c *c17PollCtx) Err() error {
	if c.observe() {
		return context.Canceled
	}

	return nil
}

// verif_c17_hangup() is an SQL function: a statement that evaluates it makes the client of the
// request being served go away (cancels the request's context) at that very point of the script.
var (
	c17HangUpOnce sync.Once
	c17HangUpLock sync.Mutex
	c17HangUp     func()
)

func c17RegisterHangUp() {
	c17HangUpOnce.Do(func() {
		sqlite.MustRegisterScalarFunction("verif_c17_hangup", 0, func(_ *sqlite.FunctionContext, _ []driver.Value) (driver.Value, error) {
			c17HangUpLock.Lock()
			defer c17HangUpLock.Unlock()

			if c17HangUp != nil {
				c17HangUp()
			}

			return int64(1), nil
		})
	})
}

// c17Context builds the context the request is posted with; `finish` releases it afterwards and
// tells whether it was cancelled while (or before) the handler ran.
func c17Context(c *c17Case) (ctx context.Context, finish func() bool) {
	switch c.ctxMode {
	case "pre":
		cctx, cancel := context.WithCancel(context.Background())
		cancel()

		return cctx, func() bool { return true }
	case "poll":
		p := c17NewPollCtx(c.ctxK)

		return p, func() bool { p.mu.Lock(); defer p.mu.Unlock(); return p.fired }
	case "sql":
		cctx, cancel := context.WithCancel(context.Background())

		c17HangUpLock.Lock()
		c17HangUp = cancel
		c17HangUpLock.Unlock()

		return cctx, func() bool {
			c17HangUpLock.Lock()
			c17HangUp = nil
			c17HangUpLock.Unlock()

			fired := cctx.Err() != nil

			cancel()

			return fired
		}
	}

	return context.Background(), func() bool { return false }
}

// c17CancelToken: the index of the operation before which the cancellation is (first) visible.
func (c *c17Case) cancelToken() string {
	switch c.ctxMode {
	case "pre":
		return " x0"
	case "poll":
		return fmt.Sprintf(" x%d", c.ctxK)
	case "sql":
		return fmt.Sprintf(" x%d", c.ctxK+1)
	}

	return ""
}

type c17Gen struct {
	r       *rand.Rand
	fresh   int
	usedT   map[int]bool
	usedU   map[int]bool
	dropped map[int]bool
	insT    []int          // ids inserted into t earlier in this request
	dict    map[string]any // the request's symbol table as the reference sees it
	fkBad   bool           // a deferred foreign-key violation has been planted
	txctl   bool           // the request contains raw transaction control: keep operations independent
	big     bool
	readOps bool // only the "reading" opcodes select / readrows / symbols (whose statements may write all the same)
}

func (g *c17Gen) nextFresh() int { g.fresh++; return 1000 + g.fresh }

func (g *c17Gen) pick(used map[int]bool) (int, bool) {
	free := []int{}

	for i := 1; i <= c17SeedRows; i++ {
		if !used[i] {
			free = append(free, i)
		}
	}

	if len(free) == 0 {
		return 0, false
	}

	k := free[g.r.Intn(len(free))]
	used[k] = true

	return k, true
}

func c17Filter(r *rand.Rand, id int) []string {
	switch r.Intn(4) {
	case 0:
		return []string{fmt.Sprintf("EQ(id,%d)", id)}
	case 1:
		return []string{fmt.Sprintf("AND(EQ(id,%d),GE(n,0))", id)}
	case 2:
		return []string{fmt.Sprintf("EQ(id,%d)", id), "GE(id,0)"}
	default:
		return []string{fmt.Sprintf(" EQ( id , %d ) ", id)}
	}
}

// okTask: an operation that succeeds whatever else the request did to OTHER rows.
func (g *c17Gen) okTask() c17Task {
	r := g.r

	for {
		k := r.Intn(20)
		if g.readOps {
			k = []int{10, 11, 12, 17, 17, 18}[r.Intn(6)]
		}

		switch k {
		case 0, 1, 2: // insert a fresh row into t
			id := g.nextFresh()
			v := fmt.Sprintf("v%d", id)
			pid := 1 + r.Intn(3)

			what := "insert t"

			if !g.txctl && !g.fkBad && r.Intn(14) == 0 {
				pid = 99 // no such parent: the deferred constraint fails at COMMIT
				g.fkBad = true
				what = "insert t (deferred FK violation)"
			}

			d := map[string]any{"id": id, "v": v, "n": id % 7, "pid": pid}
			val := any(v)

			if s, ok := g.dict["word"]; ok && r.Intn(2) == 0 {
				d["v"] = "{{word}}"
				val = s
			}

			g.insT = append(g.insT, id)

			return c17Task{op: defs.TXOperation{Opcode: "insert", Table: "t", Data: d}, kind: 'p', ok: true, writes: true, locks: true, what: what,
				shadow: []string{`INSERT INTO t (id, v, n, pid) VALUES (?, ?, ?, ?)`}, args: [][]any{{id, val, id % 7, pid}}}
		case 3: // insert into u
			id := g.nextFresh()
			k := fmt.Sprintf("key%d", id)

			return c17Task{op: defs.TXOperation{Opcode: "INSERT", Table: "u", Data: map[string]any{"k": k, "w": id}}, kind: 'p', ok: true, writes: true, locks: true, what: "insert u",
				shadow: []string{`INSERT INTO u (k, w) VALUES (?, ?)`}, args: [][]any{{k, id}}}
		case 4, 5: // update one seeded row of t
			id, ok := g.pick(g.usedT)
			if !ok {
				continue
			}

			v := fmt.Sprintf("upd%d", g.nextFresh())
			op := defs.TXOperation{Opcode: "update", Table: "t", Filters: c17Filter(r, id), Data: map[string]any{"v": v}, EmptyError: r.Intn(2) == 0}

			if r.Intn(4) == 0 {
				op.Columns = []string{"v"}
				op.Data["n"] = 12345 // thinned out by the columns list
			}

			return c17Task{op: op, kind: 'p', ok: true, writes: true, locks: true, what: "update t",
				shadow: []string{`UPDATE t SET v = ? WHERE id = ?`}, args: [][]any{{v, id}}}
		case 6: // update a row inserted earlier in this request
			if g.txctl || len(g.insT) == 0 {
				continue
			}

			id := g.insT[r.Intn(len(g.insT))]
			v := fmt.Sprintf("again%d", g.nextFresh())

			return c17Task{op: defs.TXOperation{Opcode: "update", Table: "t", Filters: c17Filter(r, id), Data: map[string]any{"v": v}, EmptyError: true}, kind: 'p', ok: true, writes: true, locks: true, what: "update own insert",
				shadow: []string{`UPDATE t SET v = ? WHERE id = ?`}, args: [][]any{{v, id}}}
		case 7: // delete one seeded row
			id, ok := g.pick(g.usedT)
			if !ok {
				continue
			}

			return c17Task{op: defs.TXOperation{Opcode: "delete", Table: "t", Filters: c17Filter(r, id), EmptyError: r.Intn(2) == 0}, kind: 'p', ok: true, writes: true, locks: true, what: "delete t",
				shadow: []string{`DELETE FROM t WHERE id = ?`}, args: [][]any{{id}}}
		case 8: // drop a scratch table
			free := []int{}

			for i := 1; i <= 3; i++ {
				if !g.dropped[i] {
					free = append(free, i)
				}
			}

			if len(free) == 0 {
				continue
			}

			i := free[r.Intn(len(free))]
			g.dropped[i] = true

			return c17Task{op: defs.TXOperation{Opcode: "drop", Table: fmt.Sprintf("s%d", i)}, kind: 'p', ok: true, writes: true, locks: true, what: "drop",
				shadow: []string{fmt.Sprintf(`DROP TABLE s%d`, i)}, args: [][]any{nil}}
		case 9: // raw SQL that writes
			switch r.Intn(4) {
			case 0:
				id := g.nextFresh()
				q := fmt.Sprintf(`INSERT INTO t (id, v, n, pid) VALUES (%d, 'raw', 1, 2)`, id)
				g.insT = append(g.insT, id)

				return c17Task{op: defs.TXOperation{Opcode: "sql", SQL: q}, kind: 'p', ok: true, writes: true, locks: true, what: "sql insert", shadow: []string{q}, args: [][]any{nil}}
			case 1:
				k, ok := g.pick(g.usedU)
				if !ok {
					continue
				}

				q := fmt.Sprintf(`UPDATE u SET w = w + 100 WHERE k = 'k%d'`, k)

				return c17Task{op: defs.TXOperation{SQL: q, EmptyError: true}, kind: 'p', ok: true, writes: true, locks: true, what: "sql update (no opcode)", shadow: []string{q}, args: [][]any{nil}}
			case 2:
				k, ok := g.pick(g.usedU)
				if !ok {
					continue
				}

				q := fmt.Sprintf(`DELETE FROM u WHERE k = 'k%d'`, k)

				return c17Task{op: defs.TXOperation{Opcode: "SQL", SQL: q}, kind: 'p', ok: true, writes: true, locks: true, what: "sql delete", shadow: []string{q}, args: [][]any{nil}}
			default:
				q := fmt.Sprintf(`CREATE TABLE c%d (z INTEGER)`, g.nextFresh())

				return c17Task{op: defs.TXOperation{Opcode: "sql", SQL: q}, kind: 'p', ok: true, writes: true, locks: true, what: "sql create table", shadow: []string{q}, args: [][]any{nil}}
			}
		case 10: // symbols
			w := fmt.Sprintf("w%d", g.nextFresh())
			g.dict["word"] = w
			g.dict["flag"] = "on"

			return c17Task{op: defs.TXOperation{Opcode: "symbols", Data: map[string]any{"word": w, "flag": "on"}}, kind: 'p', ok: true, what: "symbols"}
		case 11: // select (one row, or none without emptyError)
			if r.Intn(3) == 0 {
				return c17Task{op: defs.TXOperation{Opcode: "select", Table: "t", Filters: []string{"EQ(id,987654)"}}, kind: 'p', ok: true, what: "select none"}
			}

			return c17Task{op: defs.TXOperation{Opcode: "select", Table: "p", Filters: []string{fmt.Sprintf("EQ(id,%d)", 1+r.Intn(3))}, Columns: []string{"id"}, EmptyError: true}, kind: 'p', ok: true, what: "select p"}
		case 12: // readrows
			op := defs.TXOperation{Opcode: "readrows", Table: "p"}
			if r.Intn(2) == 0 {
				op = defs.TXOperation{Opcode: "readrows", Table: "u", Filters: []string{"GE(w,3)"}, Columns: []string{"k"}}
			}

			return c17Task{op: op, kind: 'p', ok: true, what: "readrows"}
		case 13: // raw select
			return c17Task{op: defs.TXOperation{Opcode: "sql", SQL: "select count(*) as c from p"}, kind: 'p', ok: true, what: "sql select"}
		case 14: // update / delete that match nothing, without emptyError
			if r.Intn(2) == 0 {
				return c17Task{op: defs.TXOperation{Opcode: "update", Table: "t", Filters: []string{"EQ(id,987654)"}, Data: map[string]any{"v": "nobody"}}, kind: 'p', ok: true, locks: true, what: "update none"}
			}

			return c17Task{op: defs.TXOperation{Opcode: "delete", Table: "u", Filters: []string{`EQ(k,"nokey")`}}, kind: 'p', ok: true, locks: true, what: "delete none"}
		case 17, 18: // a data-modifying statement that returns rows, sent through the READING opcode
			if t, ok := g.returningTask("readrows"); ok {
				return t
			}
		case 19: // … and through the sql opcode
			if t, ok := g.returningTask([]string{"sql", ""}[r.Intn(2)]); ok {
				return t
			}
		default: // two statements in one sql operation
			a, b := g.nextFresh(), g.nextFresh()
			q := fmt.Sprintf(`INSERT INTO u (k, w) VALUES ('m%d', 1); INSERT INTO u (k, w) VALUES ('m%d', 2)`, a, b)

			return c17Task{op: defs.TXOperation{Opcode: "sql", SQL: q}, kind: 'p', ok: true, writes: true, locks: true, what: "sql two statements", shadow: []string{q}, args: [][]any{nil}}
		}
	}
}

// returningTask: INSERT / UPDATE / DELETE … RETURNING.  `readrows` (and `sql`) take raw SQL text; a
// statement that returns rows is not necessarily a SELECT.  The reference runs the same statement
// without its RETURNING clause.
func (g *c17Gen) returningTask(opcode string) (c17Task, bool) {
	r := g.r
	mk := func(what, base, shadow, ret string, writes bool) (c17Task, bool) {
		op := defs.TXOperation{Opcode: opcode, SQL: base + " " + ret, EmptyError: writes && r.Intn(2) == 0}
		t := c17Task{op: op, kind: 'p', ok: true, writes: writes, locks: true, what: opcode + " " + what}

		if writes {
			t.shadow, t.args = []string{shadow}, [][]any{nil}
		}

		return t, true
	}

	switch r.Intn(8) {
	case 0, 1:
		id := g.nextFresh()
		pid := 1 + r.Intn(3)
		what := "INSERT t RETURNING"

		if !g.txctl && !g.fkBad && r.Intn(14) == 0 {
			pid = 99 // the deferred constraint fails at COMMIT
			g.fkBad = true
			what = "INSERT t RETURNING (deferred FK violation)"
		}

		g.insT = append(g.insT, id)
		q := fmt.Sprintf(`INSERT INTO t (id, v, n, pid) VALUES (%d, 'ret', 1, %d)`, id, pid)

		return mk(what, q, q, []string{"RETURNING id", "returning id, v, n", "RETURNING *"}[r.Intn(3)], true)
	case 2:
		k, ok := g.pick(g.usedU)
		if !ok {
			return c17Task{}, false
		}

		q := fmt.Sprintf(`UPDATE u SET w = w + 100 WHERE k = 'k%d'`, k)

		return mk("UPDATE u RETURNING", q, q, "RETURNING k, w", true)
	case 3:
		k, ok := g.pick(g.usedU)
		if !ok {
			return c17Task{}, false
		}

		q := fmt.Sprintf(`DELETE FROM u WHERE k = 'k%d'`, k)

		return mk("DELETE u RETURNING", q, q, "RETURNING k", true)
	case 4:
		id, ok := g.pick(g.usedT)
		if !ok {
			return c17Task{}, false
		}

		q := fmt.Sprintf(`DELETE FROM t WHERE id = %d`, id)

		return mk("DELETE t RETURNING", q, q, "RETURNING id, v", true)
	case 5: // symbol substitution inside the statement
		id := g.nextFresh()
		w, ok := g.dict["word"]

		if !ok {
			q := fmt.Sprintf(`INSERT INTO u (k, w) VALUES ('r%d', 7)`, id)

			return mk("INSERT u RETURNING", q, q, "RETURNING k", true)
		}

		return mk("INSERT u RETURNING ({{word}})", fmt.Sprintf(`INSERT INTO u (k, w) VALUES ('{{word}}-%d', 7)`, id),
			fmt.Sprintf(`INSERT INTO u (k, w) VALUES ('%v-%d', 7)`, w, id), "RETURNING k", true)
	case 6: // several rows written and returned by one statement
		a, b := g.nextFresh(), g.nextFresh()
		q := fmt.Sprintf(`INSERT INTO u (k, w) VALUES ('m%d', 1), ('m%d', 2)`, a, b)

		return mk("INSERT u two rows RETURNING", q, q, "RETURNING k, w", true)
	default: // matches nothing: no row written, none returned
		return mk("UPDATE none RETURNING", `UPDATE t SET v = 'nobody' WHERE id = 987654`, "", "RETURNING id", false)
	}
}

// hangUpTask: an operation during which the client goes away (see verif_c17_hangup).
func (g *c17Gen) hangUpTask() c17Task {
	switch g.r.Intn(4) {
	case 0:
		return c17Task{op: defs.TXOperation{Opcode: "sql", SQL: "select verif_c17_hangup() as gone"}, kind: 'p', ok: true, what: "hang-up in sql select"}
	case 1:
		return c17Task{op: defs.TXOperation{Opcode: "readrows", SQL: "select verif_c17_hangup() as gone, id from p"}, kind: 'p', ok: true, what: "hang-up in readrows"}
	case 2:
		id := g.nextFresh()

		return c17Task{op: defs.TXOperation{Opcode: "sql", SQL: fmt.Sprintf(`INSERT INTO u (k, w) VALUES ('hang%d', verif_c17_hangup())`, id)}, kind: 'p', ok: true, writes: true, locks: true, what: "hang-up in sql insert",
			shadow: []string{fmt.Sprintf(`INSERT INTO u (k, w) VALUES ('hang%d', 1)`, id)}, args: [][]any{nil}}
	default:
		id := g.nextFresh()

		return c17Task{op: defs.TXOperation{Opcode: "readrows", SQL: fmt.Sprintf(`INSERT INTO u (k, w) VALUES ('hang%d', verif_c17_hangup()) RETURNING k`, id)}, kind: 'p', ok: true, writes: true, locks: true, what: "hang-up in readrows insert",
			shadow: []string{fmt.Sprintf(`INSERT INTO u (k, w) VALUES ('hang%d', 1)`, id)}, args: [][]any{nil}}
	}
}

// errTask: an operation that fails whatever the rest of the request did.
func (g *c17Gen) errTask() c17Task {
	r := g.r
	// failures raised by the engine while executing a write statement happen with the write lock
	// already taken; validation / prepare failures (missing table, syntax) happen before
	engine := map[string]bool{"insert duplicate key": true, "insert duplicate of own insert": true, "insert CHECK violation": true,
		"insert UNIQUE violation": true, "insert NOT NULL violation": true, "update none with emptyError": true,
		"delete none with emptyError": true, "sql multi-row insert, second row duplicate": true, "sql two statements, second fails": true,
		"readrows INSERT RETURNING duplicate key": true, "readrows UPDATE RETURNING none with emptyError": true, "readrows INSERT RETURNING CHECK violation": true,
		"readrows multi-row INSERT RETURNING, second row duplicate": true}
	mk := func(what string, op defs.TXOperation) c17Task {
		return c17Task{op: op, kind: 'p', ok: false, locks: engine[what], what: what}
	}

	for {
		k := r.Intn(29)
		if g.readOps {
			k = []int{14, 15, 16, 23, 24, 25, 26, 27, 28}[r.Intn(9)]
		}

		switch k {
		case 0:
			id := 1 + r.Intn(c17SeedRows)
			if g.usedT[id] {
				continue
			}

			g.usedT[id] = true // keep the row as it is, so that the duplicate stays a duplicate

			return mk("insert duplicate key", defs.TXOperation{Opcode: "insert", Table: "t", Data: map[string]any{"id": id, "v": "dup", "n": 0, "pid": 1}})
		case 1:
			if g.txctl || len(g.insT) == 0 {
				continue
			}

			return mk("insert duplicate of own insert", defs.TXOperation{Opcode: "insert", Table: "t", Data: map[string]any{"id": g.insT[r.Intn(len(g.insT))], "v": "dup2", "n": 0, "pid": 1}})
		case 2:
			return mk("insert missing table", defs.TXOperation{Opcode: "insert", Table: "nosuch", Data: map[string]any{"a": 1}})
		case 3:
			return mk("insert CHECK violation", defs.TXOperation{Opcode: "insert", Table: "u", Data: map[string]any{"k": fmt.Sprintf("neg%d", g.nextFresh()), "w": -1}})
		case 4:
			k := 1 + r.Intn(c17SeedRows)
			if g.usedU[k] {
				continue
			}

			g.usedU[k] = true

			return mk("insert UNIQUE violation", defs.TXOperation{Opcode: "insert", Table: "u", Data: map[string]any{"k": fmt.Sprintf("k%d", k), "w": 1}})
		case 5:
			return mk("insert NOT NULL violation", defs.TXOperation{Opcode: "insert", Table: "t", Data: map[string]any{"id": g.nextFresh(), "v": "x", "n": nil, "pid": 1}})
		case 6:
			return mk("insert with filters", defs.TXOperation{Opcode: "insert", Table: "t", Filters: []string{"EQ(id,1)"}, Data: map[string]any{"id": g.nextFresh(), "v": "x", "n": 1, "pid": 1}})
		case 7:
			return mk("update unknown column", defs.TXOperation{Opcode: "update", Table: "t", Filters: []string{"EQ(id,1)"}, Data: map[string]any{"nocolumn": 1}})
		case 8:
			return mk("update none with emptyError", defs.TXOperation{Opcode: "update", Table: "t", Filters: []string{"EQ(id,987654)"}, Data: map[string]any{"v": "z"}, EmptyError: true})
		case 9:
			return mk("update malformed filter", defs.TXOperation{Opcode: "update", Table: "t", Filters: []string{"EQ(id"}, Data: map[string]any{"v": "z"}})
		case 10:
			return mk("update missing table", defs.TXOperation{Opcode: "update", Table: "nosuch", Filters: []string{"EQ(id,1)"}, Data: map[string]any{"v": "z"}})
		case 11:
			return mk("delete none with emptyError", defs.TXOperation{Opcode: "delete", Table: "t", Filters: []string{"EQ(id,987654)"}, EmptyError: true})
		case 12:
			return mk("delete with columns", defs.TXOperation{Opcode: "delete", Table: "t", Filters: []string{"EQ(id,987654)"}, Columns: []string{"v"}})
		case 13:
			return mk("delete missing table", defs.TXOperation{Opcode: "delete", Table: "nosuch", Filters: []string{"EQ(id,1)"}})
		case 14:
			return mk("select none with emptyError", defs.TXOperation{Opcode: "select", Table: "t", Filters: []string{"EQ(id,987654)"}, EmptyError: true})
		case 15:
			return mk("select missing table", defs.TXOperation{Opcode: "select", Table: "nosuch"})
		case 16:
			return mk("readrows missing table", defs.TXOperation{Opcode: "readrows", Table: "nosuch"})
		case 17:
			return mk("drop missing table", defs.TXOperation{Opcode: "drop", Table: "nosuch"})
		case 18:
			return mk("drop with filters", defs.TXOperation{Opcode: "drop", Table: "s1", Filters: []string{"EQ(x,1)"}})
		case 19:
			return mk("sql syntax error", defs.TXOperation{Opcode: "sql", SQL: "UPDATE t SET WHERE"})
		case 20:
			return mk("sql missing table", defs.TXOperation{Opcode: "sql", SQL: "DELETE FROM nosuch"})
		case 21:
			// the first row would be accepted, the second violates the primary key: the
			// statement as a whole must leave nothing behind
			return mk("sql multi-row insert, second row duplicate", defs.TXOperation{Opcode: "sql", SQL: fmt.Sprintf(`INSERT INTO p (id) VALUES (%d), (1)`, g.nextFresh())})
		case 22:
			// first statement succeeds, second fails
			return mk("sql two statements, second fails", defs.TXOperation{Opcode: "sql", SQL: fmt.Sprintf(`INSERT INTO p (id) VALUES (%d); INSERT INTO p (id) VALUES (1)`, g.nextFresh())})
		case 24:
			return mk("readrows INSERT RETURNING duplicate key", defs.TXOperation{Opcode: "readrows", SQL: `INSERT INTO p (id) VALUES (1) RETURNING id`})
		case 25:
			return mk("readrows UPDATE RETURNING none with emptyError", defs.TXOperation{Opcode: "readrows", SQL: `UPDATE t SET v = 'z' WHERE id = 987654 RETURNING id`, EmptyError: true})
		case 26:
			return mk("readrows DELETE RETURNING missing table", defs.TXOperation{Opcode: "readrows", SQL: `DELETE FROM nosuch RETURNING x`})
		case 27:
			return mk("readrows INSERT RETURNING CHECK violation", defs.TXOperation{Opcode: "readrows", SQL: fmt.Sprintf(`INSERT INTO u (k, w) VALUES ('neg%d', -1) RETURNING k`, g.nextFresh())})
		case 28:
			return mk("readrows multi-row INSERT RETURNING, second row duplicate", defs.TXOperation{Opcode: "readrows", SQL: fmt.Sprintf(`INSERT INTO p (id) VALUES (%d), (1) RETURNING id`, g.nextFresh())})
		default:
			if r.Intn(2) == 0 || g.readOps {
				return mk("symbols with table", defs.TXOperation{Opcode: "symbols", Table: "t", Data: map[string]any{"a": "b"}})
			}

			return mk("undefined symbol in table name", defs.TXOperation{Opcode: "delete", Table: "{{undefined_zz}}", Filters: []string{"EQ(id,1)"}})
		}
	}
}

var c17Malformed = []string{"EQ(", "EQ(1", "EQ(1,", "BOGUS(1,2)", "EQ(1,2", "AND(EQ(1,1)"}
var c17EvalErr = []string{")", "EQ(nosuchsymbol, 1)", "EQ(_rows_, undefined_thing)", "GT(zzz_undefined,0)", "EQ(1,1),EQ(nosuchsymbol,2)"}
var c17True = []string{"EQ(1,1)", "GE(_rows_,0)", "GE(_all_rows_,0)", `EQ("a","a")`, "EQ(1,1),GE(_rows_,0)", "NOT(EQ(1,2))"}
var c17False = []string{"EQ(1,2)", "LT(_rows_,0)", "LT(_all_rows_,0)", `EQ("a","b")`, "EQ(1,1),EQ(1,2)", "GT(_all_rows_,100000)"}
var c17Empty = []string{"", " ", "\t "}
var c17Statuses = []int{0, 0, 400, 404, 409, 418, 500, 503}

func (g *c17Gen) cond(letter byte) c17Cond {
	r := g.r
	c := c17Cond{letter: letter, status: c17Statuses[r.Intn(len(c17Statuses))]}

	switch letter {
	case 'e':
		c.text = c17Empty[r.Intn(len(c17Empty))]
	case 'm':
		c.text = c17Malformed[r.Intn(len(c17Malformed))]
	case 'v':
		c.text = c17EvalErr[r.Intn(len(c17EvalErr))]
		// a symbol that no earlier operation defined cannot be evaluated either
		if _, ok := g.dict["flag"]; !ok && r.Intn(3) == 0 {
			c.text = `EQ(flag,"on")`
		}
	case 't':
		c.text = c17True[r.Intn(len(c17True))]
		if _, ok := g.dict["flag"]; ok && r.Intn(3) == 0 {
			c.text = `EQ(flag,"on")`
		}
	default:
		c.text = c17False[r.Intn(len(c17False))]
		if _, ok := g.dict["flag"]; ok && r.Intn(3) == 0 {
			c.text = `EQ(flag,"off")`
		}
	}

	return c
}

// passing conditions only (blank / false)
func (g *c17Gen) quietConds() []c17Cond {
	cs := []c17Cond{}

	for g.r.Intn(3) == 0 {
		if g.r.Intn(4) == 0 {
			cs = append(cs, g.cond('e'))
		} else {
			cs = append(cs, g.cond('f'))
		}
	}

	return cs
}

var c17RawTx = map[byte][]string{
	'c': {"COMMIT", "commit;", "END", " Commit ", "END TRANSACTION"},
	'r': {"ROLLBACK", "rollback;", " Rollback "},
	'b': {"BEGIN", "begin;", "BEGIN IMMEDIATE"},
}

func (g *c17Gen) rawTx(kind byte) c17Task {
	l := c17RawTx[kind]

	return c17Task{op: defs.TXOperation{Opcode: "sql", SQL: l[g.r.Intn(len(l))]}, kind: kind, ok: true, what: "raw transaction control"}
}

// mode: "" the general stream | "cancel" the request's context is cancelled at some operation
// boundary | "readops" a script made only of select / readrows / symbols operations, at least
// one of which carries a statement that writes
func c17Generate(r *rand.Rand, big bool, mode string) *c17Case {
	g := &c17Gen{r: r, usedT: map[int]bool{}, usedU: map[int]bool{}, dropped: map[int]bool{}, dict: map[string]any{}, big: big, readOps: mode == "readops"}
	c := &c17Case{pre: "fine", commitOK: true, dsn: "d1",
		session: &router.Session{ID: 1, User: "admin", Admin: true, URLParts: map[string]any{"dsn": "d1"}}}

	maxTasks := 5
	if big {
		maxTasks = 10
	}

	n := 1 + r.Intn(maxTasks)
	plan := r.Intn(100)

	// the two scenario families: no raw transaction control (its failures are a known class) and
	// no pre-check failures; 4 in 7 requests are meant to succeed
	forced := -1

	if mode != "" {
		plan = r.Intn(70)
		forced = r.Intn(n)
	}

	g.txctl = plan >= 90 && plan < 96
	c.txctl = g.txctl

	// where the first intended failure sits, and of which kind
	failAt, failKind := -1, ""

	if plan >= 40 && plan < 90 {
		failAt = r.Intn(n)
		failKind = []string{"opErr", "malformed", "evalErr", "condTrue"}[r.Intn(4)]
	}

	for i := 0; i < n; i++ {
		var t c17Task

		tripped := failAt >= 0 && i > failAt

		switch {
		case i == failAt && failKind == "opErr":
			t = g.errTask()
			t.conds = g.noise()
		case i == failAt:
			t = g.okTask()
			t.conds = g.quietConds()
			t.conds = append(t.conds, g.cond(map[string]byte{"malformed": 'm', "evalErr": 'v', "condTrue": 't'}[failKind]))
			t.conds = append(t.conds, g.noise()...)
		case tripped && r.Intn(3) == 0:
			t = g.errTask()
			t.conds = g.noise()
		case tripped:
			t = g.okTask()
			t.conds = g.noise()
		case g.txctl && i > 0 && r.Intn(3) == 0:
			t = g.rawTx([]byte{'c', 'r', 'r', 'b'}[r.Intn(4)])
		case g.readOps && i == forced:
			for ok := false; !ok || !t.writes; {
				t, ok = g.returningTask("readrows")
			}

			t.conds = g.quietConds()
		default:
			t = g.okTask()
			t.conds = g.quietConds()
		}

		c.tasks = append(c.tasks, t)
	}

	if g.txctl {
		has := false

		for _, t := range c.tasks {
			if t.kind != 'p' {
				has = true
			}
		}

		if !has {
			c.tasks = append(c.tasks, g.rawTx([]byte{'c', 'r'}[r.Intn(2)]), g.okTask())
		}
	}

	c.trip = failKind

	switch {
	case mode != "cancel":
	case r.Intn(8) == 0:
		c.ctxMode = "pre"
	case r.Intn(2) == 0:
		// the k-th look at the context is the first one to see it cancelled
		c.ctxMode, c.ctxK = "poll", r.Intn(len(c.tasks)+2)
	default:
		// the client goes away while operation k runs
		c.ctxMode, c.ctxK = "sql", r.Intn(len(c.tasks)+1)
		h := g.hangUpTask()
		saved := g.dict
		g.dict = map[string]any{} // the symbols of later operations are not defined at position k
		h.conds = g.quietConds()
		g.dict = saved
		c.tasks = append(c.tasks[:c.ctxK], append([]c17Task{h}, c.tasks[c.ctxK:]...)...)
	}

	ops := make([]defs.TXOperation, len(c.tasks))

	for i, t := range c.tasks {
		for _, cd := range t.conds {
			t.op.Errors = append(t.op.Errors, defs.TXError{Condition: cd.text, Status: cd.status, Message: []string{"", "custom message"}[r.Intn(2)]})
		}

		ops[i] = t.op
	}

	c.body, _ = json.Marshal(ops)

	// failures of the checks that precede db.Begin()
	if plan >= 96 {
		switch r.Intn(5) {
		case 0:
			c.pre, c.trip = "decode", "decode"
			c.body = [][]byte{[]byte(`{"operation":"insert"}`), []byte(`[{"operation":`), []byte(`not json`), c.body[:len(c.body)/2]}[r.Intn(4)]
		case 1:
			c.tasks, c.body, c.trip = nil, []byte(`[]`), ""
		case 2:
			c.pre, c.trip = "opcode", "opcode"
			ops[r.Intn(len(ops))].Opcode = []string{"upsert", "", "truncate", "insert "}[r.Intn(4)]
			for i := range ops { // an empty opcode with SQL text is legal
				if ops[i].Opcode == "" && ops[i].SQL != "" {
					ops[i].Opcode = "merge"
				}
			}

			c.body, _ = json.Marshal(ops)
		case 3:
			c.pre, c.trip = "perm", "perm"
			ops[r.Intn(len(ops))].SQL = "DELETE FROM t"
			c.body, _ = json.Marshal(ops)
			c.session = &router.Session{ID: 2, User: "bob", Permissions: []string{defs.LogonPermission}, URLParts: map[string]any{"dsn": "d1"}}
		default:
			c.pre, c.trip = "open", "open"
			c.dsn = "nosuchdsn"
			c.session.URLParts["dsn"] = "nosuchdsn"
		}
	}

	return c
}

// noise: arbitrary conditions for tasks at or after the first failure point
func (g *c17Gen) noise() []c17Cond {
	cs := []c17Cond{}

	for g.r.Intn(2) == 0 {
		cs = append(cs, g.cond("emvtf"[g.r.Intn(5)]))
	}

	return cs
}

// ---------------------------------------------------------------- the run

func c17ClassifyCond(text string, rows int) byte {
	if strings.TrimSpace(text) == "" {
		return 'e'
	}

	cond, err := parsing.FormCondition(text)
	if err != nil {
		return 'm'
	}

	st := symbols.NewRootSymbolTable("c17 self test")
	st.SetAlways("_rows_", rows)
	st.SetAlways("_all_rows_", rows)

	v, err := expressions.New().WithText(cond).Eval(st)
	if err != nil {
		return 'v'
	}

	if data.BoolOrFalse(v) {
		return 't'
	}

	return 'f'
}

func TestVerifC17(t *testing.T) {
	// a leaked handle keeps three descriptors; do not let an unfixed tree starve the run
	var lim syscall.Rlimit
	if syscall.Getrlimit(syscall.RLIMIT_NOFILE, &lim) == nil {
		lim.Cur = lim.Max
		_ = syscall.Setrlimit(syscall.RLIMIT_NOFILE, &lim)
	}

	cases := verifh.Out("c17_cases.jsonl")
	fails := verifh.Out("c17_failures.jsonl")
	factsOut := verifh.Out("c17_facts.jsonl")
	stats := verifh.NewStats()

	defer func() {
		cases.Close()
		fails.Close()
		stats.Save("c17_stats.json")
	}()

	// T1
	facts := c17Extract()
	factsOut.Write(facts)
	factsOut.Close()

	if len(facts.Cfg) != 7 {
		t.Fatalf("extraction failed: %+v", facts)
	}

	// the condition menus mean what the generator thinks they mean (real FormCondition / Eval)
	for letter, menu := range map[byte][]string{'m': c17Malformed, 'v': c17EvalErr, 't': c17True, 'f': c17False, 'e': c17Empty} {
		for _, s := range menu {
			for _, rows := range []int{0, 1, 3} {
				if got := c17ClassifyCond(s, rows); got != letter {
					t.Errorf("condition %q classified %c, generator assumes %c", s, got, letter)
				}
			}
		}
	}

	if t.Failed() {
		t.FailNow()
	}

	// case databases live on tmpfs when there is one (every commit is an fsync otherwise)
	base := os.Getenv("VERIF_C17_TMP")
	if base == "" {
		base = os.TempDir()
	}

	_ = os.MkdirAll(base, 0o700)

	dir, err := os.MkdirTemp(base, "verif-c17-")
	if err != nil {
		t.Fatal(err)
	}

	defer os.RemoveAll(dir)

	template := c17MakeTemplate(t, dir)

	// the reference ("shadow") database: one connection for the whole run; every case runs its
	// own SQL inside a transaction that is rolled back after the state has been read
	shadowPath := filepath.Join(dir, "shadow.db")
	if err := os.WriteFile(shadowPath, template, 0o600); err != nil {
		t.Fatal(err)
	}

	sh, err := sql.Open("sqlite", shadowPath+"?_pragma=foreign_keys(1)")
	if err != nil {
		t.Fatal(err)
	}

	defer sh.Close()

	sh.SetMaxOpenConns(1)

	before := c17Snapshot(sh) // every case starts from the template

	svc, err := dsns.NewFileService("memory")
	if err != nil {
		t.Fatal(err)
	}

	dsns.DSNService = svc

	c17RegisterHangUp()

	r := verifh.Rand(17)
	rCancel, rRead := verifh.Rand(1701), verifh.Rand(1702) // the two scenario families have their own streams
	n := verifh.N(700, 3000)
	nCancel, nRead := verifh.N(70, 500), verifh.N(40, 250)
	distinct := map[string]bool{}
	failures := 0
	hangUpsExpected, hangUpsFired := 0, 0

	for i := 0; i < n+nCancel+nRead; i++ {
		var c *c17Case

		switch {
		case i < len(c17Corpus):
			c = c17Corpus[i]()
		case i < n:
			c = c17Generate(r, verifh.Thorough() && i%3 == 0, "")
		case i < n+nCancel:
			c = c17Generate(rCancel, verifh.Thorough() && i%3 == 0, "cancel")
		default:
			c = c17Generate(rRead, verifh.Thorough() && i%3 == 0, "readops")
		}

		cdir := filepath.Join(dir, fmt.Sprintf("c%d", i))
		_ = os.Mkdir(cdir, 0o700)
		file := filepath.Join(cdir, "data.db")

		if os.WriteFile(file, template, 0o600) != nil {
			t.Fatal("cannot write case database")
		}

		if err := svc.WriteDSN(1, "admin", defs.DSN{Name: "d1", Provider: defs.SqliteProvider, Database: file + "?_pragma=foreign_keys(1)"}); err != nil {
			t.Fatal(err)
		}

		// ---- reference: the harness' own SQL on the shadow, in one transaction
		intendedFail := c.pre != "fine"
		expectedAll := before
		lastRun := -1 // index of the last operation the reference executed

		if c.pre == "fine" && len(c.tasks) > 0 {
			tx, err := sh.Begin()
			if err != nil {
				t.Fatal(err)
			}

			for ti := range c.tasks {
				tk := &c.tasks[ti]

				if tk.kind != 'p' {
					continue
				}

				tripHere := !tk.ok
				lastRun = ti

				if tk.ok {
					for k, q := range tk.shadow {
						if _, err := tx.Exec(q, tk.args[k]...); err != nil {
							t.Fatalf("harness: reference statement failed: %s: %v (case %d %s)", q, err, i, c.body)
						}
					}

					for _, cd := range tk.conds {
						if cd.letter == 'm' || cd.letter == 'v' || cd.letter == 't' {
							tripHere = true

							break
						}
					}
				}

				if tripHere {
					intendedFail = true

					break
				}
			}

			// "all applied" = the state the reference transaction has reached (when a failure is
			// intended: the operations that precede it, which matters only for telling `all` from
			// `partial` once raw transaction control has made part of the work durable)
			expectedAll = c17Snapshot(tx)

			if !intendedFail {
				// would COMMIT succeed?  a deferred foreign-key violation makes it fail
				viol, err := tx.Query(`PRAGMA foreign_key_check`)
				if err != nil {
					t.Fatal(err)
				}

				if viol.Next() {
					c.commitOK = false
					intendedFail = true

					if !c.txctl {
						c.trip = "commitErr"
					}
				}

				_ = viol.Close()
			}

			_ = tx.Rollback()
		}

		// ---- the real handler
		ctx, finish := c17Context(c)
		req, _ := http.NewRequestWithContext(ctx, http.MethodPost, "/dsns/"+c.dsn+"/@transaction", bytes.NewReader(c.body))
		rr := httptest.NewRecorder()
		status := Handler(c.session, rr, req)
		cancelled := finish()

		fds := c17OpenFDs(file)
		free, lockMsg, after := c17Observe(file)

		ok2xx := status >= 200 && status < 300
		applied := "partial"

		switch {
		case after == before:
			applied = "none"
		case after == expectedAll:
			applied = "all"
		}

		// ---- correspondence line
		var in strings.Builder

		in.WriteString("h " + facts.Cfg + " " + c.pre + " ")

		if c.commitOK {
			in.WriteString("1")
		} else {
			in.WriteString("0")
		}

		seenFail := false
		nWrites := 0

		for _, tk := range c.tasks {
			b := func(x bool) byte {
				if x {
					return '1'
				}

				return '0'
			}

			w := tk.writes && tk.ok && !seenFail
			if w {
				nWrites++
			}

			in.WriteString(" " + string([]byte{tk.kind, b(tk.ok), b(w), b(tk.locks && tk.kind == 'p'), ':'}))

			if len(tk.conds) == 0 {
				in.WriteString("-")
			}

			for _, cd := range tk.conds {
				in.WriteByte(cd.letter)

				if tk.ok && tk.kind == 'p' && (cd.letter == 'm' || cd.letter == 'v' || cd.letter == 't') {
					seenFail = true
				}
			}

			if !tk.ok {
				seenFail = true
			}
		}

		in.WriteString(c.cancelToken())

		impl := fmt.Sprintf("%s %s %s %s", map[bool]string{true: "ok", false: "fail"}[ok2xx], applied,
			map[bool]string{true: "free", false: "locked"}[free], map[bool]string{true: "closed", false: "leaked"}[fds == 0])
		cases.Write(verifh.Case{In: in.String(), Impl: impl, Desc: string(c.body)})

		stats.Inc("requests")
		stats.Inc("trip_" + map[bool]string{true: "none", false: c.trip}[c.trip == ""])
		stats.Add("tasks", len(c.tasks))

		if c.txctl {
			stats.Inc("with_raw_tx_control")
		}

		if c.ctxMode != "" {
			stats.Inc("ctx_" + c.ctxMode)

			if cancelled {
				stats.Inc("ctx_cancelled_during_request")
			}

			if c.ctxMode == "sql" && lastRun >= c.ctxK {
				hangUpsExpected++
			}

			if c.ctxMode == "sql" && cancelled {
				hangUpsFired++
			}

			if nWrites >= 1 && !intendedFail && (c.ctxMode == "pre" || c.ctxK > 0) {
				stats.Inc("ctx_cancel_in_request_that_writes_and_should_commit")
			}
		}

		readOnlyOpcodes, returningWrites := len(c.tasks) > 0, 0

		for _, tk := range c.tasks {
			oc := strings.ToLower(tk.op.Opcode)
			if oc != "select" && oc != "readrows" && oc != "symbols" {
				readOnlyOpcodes = false
			}

			if oc == "readrows" && tk.writes {
				returningWrites++
			}
		}

		if returningWrites > 0 {
			stats.Inc("with_readrows_statement_that_writes")

			if readOnlyOpcodes {
				stats.Inc("reading_opcodes_only_but_writes")
			}
		}

		if ok2xx {
			stats.Inc("status_2xx")
		} else {
			stats.Inc(fmt.Sprintf("status_%dxx", status/100))
		}

		if len(c.tasks) >= 2 && nWrites >= 1 && !distinct[in.String()] {
			distinct[in.String()] = true

			stats.Inc("distinct_nontrivial")
			stats.Sample(map[string]string{"in": in.String(), "impl": impl, "body": string(c.body)})
		}

		// ---- direct oracle
		class := "other"

		switch {
		case c.txctl:
			class = "sql-txcontrol"
		case c.trip == "evalErr":
			class = "evalerr-exit"
		case c.trip == "commitErr":
			class = "commit-exit"
		case c.ctxMode != "":
			class = "ctx-cancel"
		case readOnlyOpcodes && returningWrites > 0:
			class = "readops-write"
		}

		ctxDesc := ""

		switch c.ctxMode {
		case "pre":
			ctxDesc = " ctx=cancelled-before-the-request"
		case "poll":
			ctxDesc = fmt.Sprintf(" ctx=reported-cancelled-from-observation-%d-on(observed %s)", c.ctxK+1, map[bool]string{true: "cancelled", false: "alive only"}[cancelled])
		case "sql":
			ctxDesc = fmt.Sprintf(" ctx=cancelled-by-verif_c17_hangup()-during-operation-%d", c.ctxK+1)
		}

		report := func(what, got, want string) {
			failures++

			if failures <= 200 {
				fails.Write(verifh.Failure{Class: class, What: what, Input: fmt.Sprintf("POST /dsns/%s/@transaction admin=%v%s body=%s", c.dsn, c.session.Admin, ctxDesc, c.body), Got: got, Want: want})
			}

			stats.Inc("oracle_fail_" + class)
		}

		if rr.Code != status {
			report("response code differs from the handler's return value", fmt.Sprint(rr.Code), fmt.Sprint(status))
		}

		// (with raw transaction control in the script only atomicity and release are judged:
		// whether such a request "should" succeed is not defined by the reference)
		switch {
		case ok2xx && intendedFail && !c.txctl:
			report("request reports success although it cannot have applied every operation (first intended failure: "+c.trip+")",
				fmt.Sprintf("status %d body %.200s", status, rr.Body.String()), "a failure status")
		case ok2xx && after != expectedAll:
			report("request reports success but the tables differ from the reference result of applying every operation", after, expectedAll)
		case !ok2xx && after != before:
			report(fmt.Sprintf("request reports failure (status %d) but the tables changed", status), after, before)
		case !ok2xx && !intendedFail && !c.txctl && c.ctxMode != "":
			// a request whose context is cancelled may give up — all or nothing still holds (checked
			// above: failure reported and nothing changed; below: nothing stays open)
			stats.Inc("ctx_cancel_honoured")
		case !ok2xx && !intendedFail && !c.txctl:
			report("request fails although every operation, condition and the commit are meant to succeed",
				fmt.Sprintf("status %d body %.300s", status, rr.Body.String()), "2xx")
		}

		if !free {
			report(fmt.Sprintf("after the request (status %d) an independent writer cannot lock the database", status), lockMsg, "write lock available")
		}

		if fds != 0 {
			report(fmt.Sprintf("after the request (status %d) the process still holds descriptors on the database file (handle not closed)", status),
				fmt.Sprintf("%d open descriptors", fds), "0")
		}

		_ = os.RemoveAll(cdir)
	}

	stats.Add("oracle_failures", failures)
	stats.Add("hangups_expected", hangUpsExpected)
	stats.Add("hangups_fired", hangUpsFired)

	if hangUpsExpected > 0 && hangUpsFired == 0 {
		t.Errorf("harness: verif_c17_hangup() never fired in %d requests that reach it", hangUpsExpected)
	}
}

// ---------------------------------------------------------------- fixed corpus (runs first)

func c17Fixed(txctl bool, trip string, tasks ...c17Task) func() *c17Case {
	return func() *c17Case {
		c := &c17Case{pre: "fine", commitOK: true, dsn: "d1", txctl: txctl, trip: trip, tasks: tasks,
			session: &router.Session{ID: 1, User: "admin", Admin: true, URLParts: map[string]any{"dsn": "d1"}}}
		ops := []defs.TXOperation{}

		for _, t := range tasks {
			op := t.op
			op.Errors = nil

			for _, cd := range t.conds {
				op.Errors = append(op.Errors, defs.TXError{Condition: cd.text, Status: cd.status})
			}

			ops = append(ops, op)
		}

		c.body, _ = json.Marshal(ops)

		return c
	}
}

func c17Ins(id int, pid int, conds ...c17Cond) c17Task {
	return c17Task{op: defs.TXOperation{Opcode: "insert", Table: "t", Data: map[string]any{"id": id, "v": "fixed", "n": 1, "pid": pid}}, kind: 'p', ok: true, writes: true, locks: true,
		shadow: []string{`INSERT INTO t (id, v, n, pid) VALUES (?, 'fixed', 1, ?)`}, args: [][]any{{id, pid}}, conds: conds}
}

func c17Raw(kind byte, q string) c17Task {
	return c17Task{op: defs.TXOperation{Opcode: "sql", SQL: q}, kind: kind, ok: true}
}

var c17Corpus = []func() *c17Case{
	// the design round's witness: one insert whose error condition cannot be evaluated
	c17Fixed(false, "evalErr", c17Ins(2001, 1, c17Cond{text: "EQ(nosuchsymbol, 1)", letter: 'v'})),
	// all operations succeed, the COMMIT fails (deferred foreign key)
	c17Fixed(false, "", c17Ins(2002, 99)),
	c17Fixed(false, "", c17Ins(2003, 1), c17Ins(2004, 99), c17Ins(2005, 2)),
	// the covered exits
	c17Fixed(false, "malformed", c17Ins(2006, 1, c17Cond{text: "EQ(", letter: 'm'})),
	c17Fixed(false, "condTrue", c17Ins(2007, 1, c17Cond{text: "EQ(_rows_,1)", letter: 't', status: 418})),
	c17Fixed(false, "opErr", c17Ins(2008, 1), c17Task{op: defs.TXOperation{Opcode: "insert", Table: "t", Data: map[string]any{"id": 1, "v": "dup", "n": 0, "pid": 1}}, kind: 'p', locks: true}),
	c17Fixed(false, "", c17Ins(2009, 1, c17Cond{text: "EQ(_rows_,7)", letter: 'f'}, c17Cond{text: "", letter: 'e'}), c17Ins(2010, 2)),
	// read-only transaction that leaves by the un-evaluable-condition exit (no lock, but a handle)
	c17Fixed(false, "evalErr", c17Task{op: defs.TXOperation{Opcode: "readrows", Table: "p"}, kind: 'p', ok: true, conds: []c17Cond{{text: "GT(zzz_undefined,0)", letter: 'v'}}}),
	// raw transaction control through the sql opcode
	c17Fixed(true, "", c17Ins(2011, 1), c17Raw('r', "ROLLBACK"), c17Ins(2012, 1)),
	c17Fixed(true, "", c17Ins(2013, 1), c17Raw('c', "COMMIT"), c17Ins(2014, 1)),
	c17Fixed(true, "", c17Ins(2015, 1), c17Raw('c', "COMMIT"), c17Raw('b', "BEGIN"), c17Ins(2016, 1)),
	c17Fixed(true, "opErr", c17Raw('r', "ROLLBACK"), c17Task{op: defs.TXOperation{Opcode: "drop", Table: "nosuch"}, kind: 'p'}),
	c17Fixed(true, "", c17Ins(2017, 1), c17Raw('b', "BEGIN")),
	// the client is gone before / between / during the operations of a request that writes
	c17Ctx("pre", 0, c17Fixed(false, "", c17Ins(2018, 1), c17Ins(2019, 2))),
	c17Ctx("poll", 0, c17Fixed(false, "", c17Ins(2020, 1))),
	c17Ctx("poll", 1, c17Fixed(false, "", c17Ins(2021, 1), c17Ins(2022, 2))),
	c17Ctx("poll", 2, c17Fixed(false, "", c17Ins(2023, 1), c17Ins(2024, 2), c17Ins(2025, 3))),
	c17Ctx("sql", 1, c17Fixed(false, "", c17Ins(2026, 1), c17Task{op: defs.TXOperation{Opcode: "sql", SQL: "select verif_c17_hangup() as gone"}, kind: 'p', ok: true}, c17Ins(2027, 2))),
	c17Ctx("sql", 0, c17Fixed(false, "opErr", c17Task{op: defs.TXOperation{Opcode: "sql", SQL: "INSERT INTO u (k, w) VALUES ('hang', verif_c17_hangup())"}, kind: 'p', ok: true, writes: true, locks: true,
		shadow: []string{"INSERT INTO u (k, w) VALUES ('hang', 1)"}, args: [][]any{nil}}, c17Task{op: defs.TXOperation{Opcode: "drop", Table: "nosuch"}, kind: 'p'})),
	// scripts made of reading opcodes only, whose readrows statement writes
	c17Fixed(false, "", c17Returning(`INSERT INTO t (id, v, n, pid) VALUES (2030, 'ret', 1, 1)`, "RETURNING id")),
	c17Fixed(false, "", c17Task{op: defs.TXOperation{Opcode: "symbols", Data: map[string]any{"who": "k3"}}, kind: 'p', ok: true},
		c17Task{op: defs.TXOperation{Opcode: "select", Table: "p", Filters: []string{"EQ(id,2)"}, Columns: []string{"id"}}, kind: 'p', ok: true},
		c17Task{op: defs.TXOperation{Opcode: "readrows", SQL: `DELETE FROM u WHERE k = '{{who}}' RETURNING k, w`}, kind: 'p', ok: true, writes: true, locks: true,
			shadow: []string{`DELETE FROM u WHERE k = 'k3'`}, args: [][]any{nil}}),
	c17Fixed(false, "", c17Returning(`UPDATE t SET n = n + 1 WHERE id <= 3`, "RETURNING id, n"), c17Task{op: defs.TXOperation{Opcode: "readrows", Table: "p"}, kind: 'p', ok: true}),
	c17Fixed(false, "", c17Returning(`INSERT INTO t (id, v, n, pid) VALUES (2031, 'ret', 1, 99)`, "RETURNING id")), // COMMIT fails
	c17Fixed(false, "condTrue", c17Returning(`DELETE FROM t WHERE id = 5`, "RETURNING id", c17Cond{text: "EQ(_rows_,1)", letter: 't', status: 409})),
}

func c17Returning(base, ret string, conds ...c17Cond) c17Task {
	return c17Task{op: defs.TXOperation{Opcode: "readrows", SQL: base + " " + ret}, kind: 'p', ok: true, writes: true, locks: true,
		shadow: []string{base}, args: [][]any{nil}, conds: conds}
}

func c17Ctx(mode string, k int, f func() *c17Case) func() *c17Case {
	return func() *c17Case {
		c := f()
		c.ctxMode, c.ctxK = mode, k

		return c
	}
}
