//go:build verif

package scripting

// C17 — T1: source facts of the transaction handler, re-extracted from the CURRENT source
// with go/ast on every run.
//
//   handler.go Handler: every `return` after `db.Begin()` is classified by the `if` that
//   guards it (Begin error, FormCondition error, Eval error, condition true, operation error,
//   Commit error, success) and it is recorded whether a `db.Rollback()` call precedes it in
//   its own block, and what status expression the exit reports.
//   ../database/transaction.go Commit / Rollback: is `d.Transaction = nil` executed before
//   the error return that follows the driver call?
//
// The facts become the `Cfg` of the Lean model (so the model mirrors the code that exists)
// and a generated Lean obligation demands that every exit is covered.  Anything the pass does
// not recognise is reported in `Unknown` and fails the check (fail closed).

import (
	"bytes"
	"go/ast"
	"go/parser"
	"go/printer"
	"go/token"
	"os"
	"regexp"
	"strings"
)

type c17Exit struct {
	Kind     string `json:"kind"`
	Line     int    `json:"line"`
	Rollback bool   `json:"rollback"`
	Status   string `json:"status"`
}

type c17Facts struct {
	Cfg     string    `json:"cfg"` // rbMalformed rbEvalErr rbCondTrue rbOpErr commitErrFail clearOnCommitErr clearOnRollbackErr
	Exits   []c17Exit `json:"exits"`
	Unknown []string  `json:"unknown"`
	Defer   string    `json:"defer"`
}

func c17Src(fset *token.FileSet, n ast.Node) string {
	var b bytes.Buffer

	_ = printer.Fprint(&b, fset, n)

	return strings.Join(strings.Fields(b.String()), " ")
}

func c17IsRollback(fset *token.FileSet, s ast.Stmt) bool {
	var call ast.Expr

	switch v := s.(type) {
	case *ast.ExprStmt:
		call = v.X
	case *ast.AssignStmt:
		if len(v.Rhs) == 1 {
			call = v.Rhs[0]
		}
	}

	if call == nil {
		return false
	}

	return c17Src(fset, call) == "db.Rollback()"
}

var c17FailStatus = regexp.MustCompile(`^(dberrors\.(ExecStatus|PayloadStatus)\(err\)|http\.Status(BadRequest|InternalServerError|Conflict|NotFound|Forbidden|ServiceUnavailable|UnprocessableEntity))$`)

// c17ExtractHandler walks Handler with an explicit stack of enclosing blocks.
func c17ExtractHandler(path string, facts *c17Facts) map[string]c17Exit {
	fset := token.NewFileSet()

	f, err := parser.ParseFile(fset, path, nil, 0)
	if err != nil {
		facts.Unknown = append(facts.Unknown, "parse "+path+": "+err.Error())

		return nil
	}

	var fn *ast.FuncDecl

	for _, d := range f.Decls {
		if fd, ok := d.(*ast.FuncDecl); ok && fd.Name.Name == "Handler" && fd.Recv == nil {
			fn = fd
		}
	}

	if fn == nil {
		facts.Unknown = append(facts.Unknown, "func Handler not found")

		return nil
	}

	// position of `err = db.Begin()`, and the defer that closes the handle
	var beginPos token.Pos

	ast.Inspect(fn.Body, func(n ast.Node) bool {
		switch v := n.(type) {
		case *ast.AssignStmt:
			if len(v.Rhs) == 1 && c17Src(fset, v.Rhs[0]) == "db.Begin()" {
				beginPos = v.Pos()
			}
		case *ast.DeferStmt:
			facts.Defer = c17Src(fset, v.Call)
		}

		return true
	})

	if beginPos == token.NoPos {
		facts.Unknown = append(facts.Unknown, "db.Begin() call not found")

		return nil
	}

	if facts.Defer != "db.Close()" {
		facts.Unknown = append(facts.Unknown, "deferred call is not db.Close(): "+facts.Defer)
	}

	// the top-level `if err == nil && db != nil { … }` that contains Begin: returns after it
	// belong to the "database could not be opened" path, where no transaction exists
	var openIfEnd token.Pos

	for _, s := range fn.Body.List {
		if s.Pos() <= beginPos && beginPos < s.End() {
			if is, ok := s.(*ast.IfStmt); ok && c17Src(fset, is.Cond) == "err == nil && db != nil" && is.Else == nil {
				openIfEnd = s.End()
			}
		}
	}

	if openIfEnd == token.NoPos {
		facts.Unknown = append(facts.Unknown, "db.Begin() is not inside a top-level `if err == nil && db != nil` block")

		return nil
	}

	byKind := map[string]c17Exit{}

	// visit(block): statements in order; `guard` is the if statement whose body is this block,
	// `prev` the statement preceding that if in ITS block.
	var visit func(list []ast.Stmt, guard *ast.IfStmt, prev ast.Stmt)

	visit = func(list []ast.Stmt, guard *ast.IfStmt, prev ast.Stmt) {
		for i, s := range list {
			var before ast.Stmt
			if i > 0 {
				before = list[i-1]
			}

			switch v := s.(type) {
			case *ast.ReturnStmt:
				if v.Pos() < beginPos {
					continue
				}

				ex := c17Exit{Line: fset.Position(v.Pos()).Line}

				for _, p := range list[:i] {
					if c17IsRollback(fset, p) {
						ex.Rollback = true
					}
				}

				if len(v.Results) != 1 {
					facts.Unknown = append(facts.Unknown, "return with !=1 results at line "+itoa(ex.Line))

					continue
				}

				res := c17Src(fset, v.Results[0])
				if call, ok := v.Results[0].(*ast.CallExpr); ok && c17Src(fset, call.Fun) == "util.ErrorResponse" && len(call.Args) == 4 {
					ex.Status = c17Src(fset, call.Args[3])
				} else if res == "http.StatusOK" {
					ex.Status = "ok"
				} else {
					facts.Unknown = append(facts.Unknown, "unrecognised return value at line "+itoa(ex.Line)+": "+res)

					continue
				}

				cond, init, prevSrc := "", "", ""
				if guard != nil {
					cond = c17Src(fset, guard.Cond)

					if guard.Init != nil {
						init = c17Src(fset, guard.Init)
					}
				}

				if prev != nil {
					prevSrc = c17Src(fset, prev)
				}

				switch {
				case v.Pos() > openIfEnd:
					ex.Kind = "openErr"
				case ex.Status == "ok":
					ex.Kind = "done"
				case strings.Contains(init, "db.Commit()") && cond == "err != nil":
					ex.Kind = "commitErr"
				case cond == "err != nil" && strings.Contains(prevSrc, "db.Begin()"):
					ex.Kind = "beginErr"
				case cond == "err != nil" && strings.Contains(prevSrc, "parsing.FormCondition("):
					ex.Kind = "malformed"
				case cond == "err != nil" && strings.Contains(prevSrc, ".Eval(evalSymbols)"):
					ex.Kind = "evalErr"
				case cond == "data.BoolOrFalse(result)":
					ex.Kind = "condTrue"
				case cond == "operationErr != nil":
					ex.Kind = "opErr"
				default:
					ex.Kind = "unknown"
					facts.Unknown = append(facts.Unknown, "unclassified exit at line "+itoa(ex.Line)+" guarded by `"+init+"; "+cond+"`")
				}

				facts.Exits = append(facts.Exits, ex)

				if ex.Kind != "done" && ex.Kind != "unknown" && ex.Kind != "openErr" {
					if _, dup := byKind[ex.Kind]; dup {
						facts.Unknown = append(facts.Unknown, "two exits of kind "+ex.Kind)
					}

					byKind[ex.Kind] = ex
				}

			case *ast.IfStmt:
				visit(v.Body.List, v, before)

				switch e := v.Else.(type) {
				case *ast.BlockStmt:
					visit(e.List, nil, before)
				case *ast.IfStmt:
					visit([]ast.Stmt{e}, nil, before)
				}
			case *ast.ForStmt:
				visit(v.Body.List, nil, nil)
			case *ast.RangeStmt:
				visit(v.Body.List, nil, nil)
			case *ast.BlockStmt:
				visit(v.List, nil, nil)
			case *ast.SwitchStmt:
				for _, c := range v.Body.List {
					visit(c.(*ast.CaseClause).Body, nil, nil)
				}
			case *ast.TypeSwitchStmt, *ast.SelectStmt, *ast.GoStmt, *ast.LabeledStmt:
				if s.End() > beginPos {
					facts.Unknown = append(facts.Unknown, "unsupported statement at line "+itoa(fset.Position(s.Pos()).Line))
				}
			}
		}
	}

	visit(fn.Body.List, nil, nil)

	// the model (handlerCtx) says the run does not depend on the request's context: true only
	// as long as Handler never looks at it
	ast.Inspect(fn.Body, func(n ast.Node) bool {
		if se, ok := n.(*ast.SelectorExpr); ok && (se.Sel.Name == "Context" || se.Sel.Name == "WithContext") {
			if id, ok := se.X.(*ast.Ident); ok && id.Name == "r" {
				facts.Unknown = append(facts.Unknown, "Handler reads the request's context at line "+itoa(fset.Position(se.Pos()).Line)+" (the model takes the run to be independent of it)")
			}
		}

		return true
	})

	// a return hidden in a function literal after Begin would escape the walk above
	ast.Inspect(fn.Body, func(n ast.Node) bool {
		if fl, ok := n.(*ast.FuncLit); ok && fl.Pos() > beginPos {
			facts.Unknown = append(facts.Unknown, "function literal after db.Begin() at line "+itoa(fset.Position(fl.Pos()).Line))
		}

		return true
	})

	// the walk must have seen every return statement that follows Begin
	total := 0

	ast.Inspect(fn.Body, func(n ast.Node) bool {
		if r, ok := n.(*ast.ReturnStmt); ok && r.Pos() > beginPos {
			total++
		}

		return true
	})

	if total != len(facts.Exits) {
		facts.Unknown = append(facts.Unknown, "walk saw "+itoa(len(facts.Exits))+" of "+itoa(total)+" return statements")
	}

	for _, k := range []string{"beginErr", "malformed", "evalErr", "condTrue", "opErr", "commitErr"} {
		if _, ok := byKind[k]; !ok {
			facts.Unknown = append(facts.Unknown, "no exit of kind "+k)
		}
	}

	return byKind
}

// c17ClearsOnError: in method `name` of transaction.go, after `err := d.Transaction.<name>()`,
// is `d.Transaction = nil` reached before the first `if err != nil { return … }`?
func c17ClearsOnError(path, name string, facts *c17Facts) bool {
	fset := token.NewFileSet()

	f, err := parser.ParseFile(fset, path, nil, 0)
	if err != nil {
		facts.Unknown = append(facts.Unknown, "parse "+path+": "+err.Error())

		return false
	}

	for _, d := range f.Decls {
		fd, ok := d.(*ast.FuncDecl)
		if !ok || fd.Name.Name != name || fd.Recv == nil {
			continue
		}

		seenCall := false

		for _, s := range fd.Body.List {
			src := c17Src(fset, s)

			if !seenCall {
				if strings.Contains(src, "d.Transaction."+name+"()") {
					if src != "err := d.Transaction."+name+"()" {
						break
					}

					seenCall = true
				}

				continue
			}

			if src == "d.Transaction = nil" {
				return true
			}

			if is, ok := s.(*ast.IfStmt); ok && c17Src(fset, is.Cond) == "err != nil" {
				return false
			}

			if _, ok := s.(*ast.ReturnStmt); ok {
				return false
			}
		}

		facts.Unknown = append(facts.Unknown, "transaction.go "+name+": shape not recognised")

		return false
	}

	facts.Unknown = append(facts.Unknown, "transaction.go "+name+": method not found")

	return false
}

func itoa(n int) string {
	if n == 0 {
		return "0"
	}

	s := ""
	for n > 0 {
		s = string(rune('0'+n%10)) + s
		n /= 10
	}

	return s
}

// c17Extract runs in the package directory (go test's working directory).
func c17Extract() c17Facts {
	facts := c17Facts{Unknown: []string{}}

	if _, err := os.Stat("handler.go"); err != nil {
		facts.Unknown = append(facts.Unknown, "handler.go not found in working directory")
	}

	by := c17ExtractHandler("handler.go", &facts)
	bit := func(b bool) string {
		if b {
			return "1"
		}

		return "0"
	}

	commitFail := false

	if ex, ok := by["commitErr"]; ok {
		switch {
		case c17FailStatus.MatchString(ex.Status):
			commitFail = true
		case ex.Status == "httpStatus":
			commitFail = false // the status of the last operation, which succeeded: 200
		default:
			facts.Unknown = append(facts.Unknown, "commit-error exit reports unrecognised status expression "+ex.Status)
		}
	}

	facts.Cfg = bit(by["malformed"].Rollback) + bit(by["evalErr"].Rollback) + bit(by["condTrue"].Rollback) +
		bit(by["opErr"].Rollback) + bit(commitFail) +
		bit(c17ClearsOnError("../database/transaction.go", "Commit", &facts)) +
		bit(c17ClearsOnError("../database/transaction.go", "Rollback", &facts))

	return facts
}
