//go:build verif

package tables

// C18 harness, part 4: generators (fixed nasty corpus first, then structured random values
// per column type, then a hostile cross-type stream) and the test entry point.

import (
	"encoding/json"
	"fmt"
	"math"
	"math/rand"
	"strconv"
	"strings"
	"time"

)

func c18Q(s string) string {
	b, _ := json.Marshal(s)

	return string(b)
}

var c18IntCorpus = []string{"0", "1", "-1", "127", "128", "-128", "-129", "255", "256", "32767", "32768", "-32768", "-32769",
	"2147483647", "2147483648", "-2147483648", "-2147483649", "4294967296", "9007199254740991", "9007199254740992",
	"9007199254740993", "-9007199254740993", "9223372036854775807", "-9223372036854775808", "9223372036854775806",
	"-9223372036854775807", "9223372036854775808", "-9223372036854775809", "18446744073709551615", "1000000000000000000000",
	"4611686018427387905", "72057594037927937", "2251799813685248", "2251799813685247", "-2251799813685248", "-2251799813685249"}

var c18FloatCorpus = []string{"0.0", "-0.0", "-0", "1.0", "1e3", "1.5", "-1.5", "0.1", "0.5", "1e-7", "5e-324", "2.2250738585072014e-308",
	"1.7976931348623157e308", "-1.7976931348623157e308", "3.4028234663852886e38", "3.4028235e38", "3.4e39", "16777217.0", "16777217",
	"1e15", "1e16", "1e20", "1e21", "1e22", "123456789012345678", "0.30000000000000004", "9007199254740993.0", "9.223372036854775807e18",
	"9223372036854775808.0", "-9223372036854775808.0", "1E400", "2251799813685248.0", "4503599627370496.5", "1e300", "1.0000000000000002"}

var c18StringCorpus = []string{"", " ", "abc", "it's", `say "hi"`, `back\slash`, `\\`, `\"`, "'", "''", `';DROP TABLE "c18";--`, "a\x00b", "\x00",
	"tab\there", "line\nfeed\r\n", "é", "世界", "𝄞 clef", "e\u0301", "\u202eRTL", "\ufeffbom", "\u2028 ", "\ufffd", "\x7f\x1f\x01",
	"12", "-7", " 7 ", "1e3", "1.0", "0x10", "+5", ".5", "5.", "1e", "1e999", " -1e999", "NaN", "Inf", "null", "NULL", "true", "false", "$1", "?", "%s%d",
	"2024-06-15T12:00:00Z", "550e8400-e29b-41d4-a716-446655440000", `{"a":[1,2,{"b":"c"}],"d":null}`, `[1,"two",3.0]`,
	"<script>&amp;</script>", strings.Repeat("x", 5000), strings.Repeat("'\"\\", 300), strings.Repeat("世", 2000)}

var c18TimeCorpus = []string{"2024-06-15T12:00:00Z", "2024-06-15T12:00:00-05:00", "2024-06-15T12:00:00+05:30", "2024-06-15",
	"2024-06-15T12:00:00.5Z", "2024-06-15T12:00:00.123456789Z", "2024-06-15T12:00:00.123456789+05:30", "2024-06-15T12:00:00.000000001Z",
	"2024-06-15T12:00:00.120Z", "2024-06-15T12:00:00.999999999-14:00", "1969-12-31T23:59:59.999Z", "1970-01-01T00:00:00Z",
	"0001-01-01T00:00:00Z", "0001-01-01T00:00:00.000000001Z", "0000-01-01T00:00:00Z", "0000-06-15T12:00:00Z", "0000-01-01T00:00:00+05:00",
	"9999-12-31T23:59:59Z", "9999-12-31T23:59:59.999999999Z", "9999-12-31T23:59:59-01:00", "2000-02-29T00:00:00Z", "1900-02-28T23:59:59Z",
	"2100-03-01T00:00:00+14:00", "2024-12-31T23:59:60Z", "2023-02-29T00:00:00Z", "2024-06-15T24:00:00Z", "2024-06-15T12:00:00", "2024-06-15 12:00:00",
	"2024-06-15T12:00:00z", "2024-06-15t12:00:00Z", "2024-06-15T12:00:00+0530", "2024-06-15T12:00Z", "1718452800", "20240615", "June 15, 2024 12:00pm",
	"December 7, 1959 10:35am EST", "", " ", "abc", "T", "Z", "--", "2024-06-15T12:00:00.1234567891Z", "2038-01-19T03:14:08Z", "1582-10-10T00:00:00Z"}

func c18GenInt(r *rand.Rand) string {
	switch r.Intn(6) {
	case 0:
		return strconv.FormatInt(int64(r.Uint64()), 10)
	case 1: // near a power of two
		p := uint(r.Intn(64))
		v := int64(1)<<p + int64(r.Intn(5)-2)

		if r.Intn(2) == 0 {
			v = -v
		}

		return strconv.FormatInt(v, 10)
	case 2:
		return strconv.Itoa(r.Intn(70000) - 35000)
	case 3: // just beyond 2^53: odd numbers are not float64 values
		return strconv.FormatInt((int64(1)<<53+int64(r.Int63n(1<<40))*2+1)*int64(1-2*r.Intn(2)), 10)
	case 4:
		return strconv.FormatInt(r.Int63n(1<<33)-(1<<32), 10)
	}

	return strconv.Itoa(r.Intn(600) - 300)
}

func c18GenFloat(r *rand.Rand) string {
	switch r.Intn(6) {
	case 0: // any finite bit pattern
		for {
			f := math.Float64frombits(r.Uint64())
			if !math.IsNaN(f) && !math.IsInf(f, 0) {
				return strconv.FormatFloat(f, 'g', -1, 64)
			}
		}
	case 1: // a float32 value
		for {
			f := math.Float32frombits(r.Uint32())
			if !math.IsNaN(float64(f)) && !math.IsInf(float64(f), 0) {
				return strconv.FormatFloat(float64(f), 'g', -1, 64)
			}
		}
	case 2:
		return strconv.FormatFloat(r.NormFloat64()*math.Pow(10, float64(r.Intn(40)-20)), 'e', -1, 64)
	case 3: // integral float near 2^51..2^63 (SQLite's real->integer boundary)
		return strconv.FormatFloat(math.Ldexp(1, 50+r.Intn(15))+float64(r.Intn(5)-2), 'f', 1, 64)
	case 4:
		return fmt.Sprintf("%d.%d", r.Intn(2000)-1000, r.Intn(1000))
	}

	return c18GenInt(r)
}

var c18Alphabet = []string{"'", `"`, `\`, ";", "--", " ", "\t", "\n", "\x00", "a", "Z", "0", "9", "-", "+", ".", "e", "é", "ß", "世", "𝄞",
	"\u0301", "\u202e", "\ufffd", "%", "$1", "?", "NULL", "T", ":", "{", "}", "[", "]", ",", "/*", "*/", "\x7f", "\u2028"}

func c18GenString(r *rand.Rand) string {
	var b strings.Builder

	n := r.Intn(12)
	if r.Intn(20) == 0 {
		n = 200 + r.Intn(2000)
	}

	for i := 0; i < n; i++ {
		b.WriteString(c18Alphabet[r.Intn(len(c18Alphabet))])
	}

	return b.String()
}

func c18GenTime(r *rand.Rand) string {
	// seconds of years 0000..9999 in UTC, biased to the edges and to the epoch
	const lo, hi = int64(-62167219200), int64(253402300799)

	var sec int64

	switch r.Intn(5) {
	case 0:
		sec = lo + r.Int63n(90000)
	case 1:
		sec = hi - r.Int63n(90000)
	case 2:
		sec = r.Int63n(200000) - 100000
	default:
		sec = lo + r.Int63n(hi-lo+1)
	}

	nanos := []int64{0, 0, 1, 999999999, 500000000, 120000000, r.Int63n(1000000000), r.Int63n(1000) * 1000000}[r.Intn(8)]
	t := time.Unix(sec, nanos).UTC()

	if r.Intn(8) == 0 && nanos == 0 && sec%86400 == 0 {
		return t.Format("2006-01-02")
	}

	if r.Intn(3) != 0 {
		off := (r.Intn(29) - 14) * 3600
		if r.Intn(3) == 0 {
			off += []int{900, 1800, 2700}[r.Intn(3)] * (1 - 2*r.Intn(2))
		}

		t = t.In(time.FixedZone("", off))
	}

	if y := t.Year(); y < 0 || y > 9999 {
		t = t.UTC() // the written text itself must be RFC 3339
	}

	layout := time.RFC3339Nano
	if r.Intn(4) == 0 {
		layout = "2006-01-02T15:04:05.000000000Z07:00" // padded fraction
	}

	return t.Format(layout)
}
