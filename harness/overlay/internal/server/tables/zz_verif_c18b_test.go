//go:build verif

package tables

// C18 harness, part 2: documented domains, the direct oracle and the batch runner.

import (
	"encoding/json"
	"fmt"
	"math"
	"math/big"
	"net/http"
	"net/url"
	"strconv"
	"strings"
	"time"
	"unicode/utf8"

	"github.com/tucats/ego/internal/verifh"
)

func c18IsTime(typ string) bool { return typ == "time" || typ == "timestamp" || typ == "date" }

func c18IsFloat(typ string) bool {
	return typ == "float" || typ == "double" || typ == "float32" || typ == "float64"
}

// integer range of the documented type (nil for a non-integer type)
func c18IntRange(typ string) (lo, hi *big.Int) {
	bits := map[string]uint{"int": 64, "int64": 64, "int32": 32, "int16": 16, "int8": 8}
	if typ == "byte" {
		return big.NewInt(0), big.NewInt(255)
	}

	if b, ok := bits[typ]; ok {
		hi = new(big.Int).Lsh(big.NewInt(1), b-1)
		lo = new(big.Int).Neg(hi)
		hi = new(big.Int).Sub(hi, big.NewInt(1))

		return lo, hi
	}

	return nil, nil
}

// c18ParseTime is the reference reading of a timestamp literal: Go's own RFC 3339 parser,
// or a bare date read as midnight UTC (docs/TABLES.md).  It does not use ego's parser.
func c18ParseTime(s string) (time.Time, bool) {
	if t, err := time.Parse(time.RFC3339Nano, s); err == nil {
		return t, true
	}

	if t, err := time.Parse("2006-01-02", s); err == nil {
		return t, true
	}

	return time.Time{}, false
}

// c18Dom decides whether (typ, literal) is a value of the documented domain of the column
// type, and if so returns the comparison of the value read back with the value written
// ("" = same value) and the failure class a mismatch belongs to.
func c18Dom(typ, lit string) (in bool, same func(got any) string, class string) {
	v, err := c18Decode(lit)
	if err != nil {
		return false, nil, ""
	}

	class = "roundtrip-" + typ

	switch x := v.(type) {
	case json.Number:
		if lo, hi := c18IntRange(typ); lo != nil {
			if !c18IntLit.MatchString(string(x)) {
				return false, nil, ""
			}

			n, _ := new(big.Int).SetString(string(x), 10)
			if n.Cmp(lo) < 0 || n.Cmp(hi) > 0 {
				return false, nil, ""
			}

			if new(big.Int).Abs(n).Cmp(new(big.Int).Lsh(big.NewInt(1), 53)) > 0 {
				class = "int-beyond-2^53"
			}

			return true, func(got any) string {
				g, ok := got.(json.Number)
				if !ok {
					return "not a number"
				}

				m, ok := new(big.Int).SetString(string(g), 10)
				if !ok || m.Cmp(n) != 0 {
					return "different integer"
				}

				return ""
			}, class
		}

		if c18IsFloat(typ) {
			f, err := strconv.ParseFloat(string(x), 64)
			if err != nil || math.IsInf(f, 0) {
				return false, nil, ""
			}

			if (typ == "float32") && float64(float32(f)) != f {
				return false, nil, ""
			}

			return true, func(got any) string {
				g, ok := got.(json.Number)
				if !ok {
					return "not a number"
				}

				h, err := strconv.ParseFloat(string(g), 64)
				if err != nil || h != f {
					return "different float"
				}

				return ""
			}, class
		}

	case bool:
		if typ == "bool" {
			return true, func(got any) string {
				if g, ok := got.(bool); !ok || g != x {
					return "different bool"
				}

				return ""
			}, class
		}

	case string:
		if typ == "string" {
			return true, func(got any) string {
				if g, ok := got.(string); !ok || g != x {
					return "different string"
				}

				return ""
			}, class
		}

		if c18IsTime(typ) {
			t, ok := c18ParseTime(x)
			if !ok {
				return false, nil, ""
			}

			if y := t.UTC().Year(); y < 0 || y > 9999 {
				class = "ts-utc-year-outside-0000-9999"
			} else if t.Nanosecond() != 0 {
				class = "ts-subsecond"
			}

			return true, func(got any) string {
				g, ok := got.(string)
				if !ok {
					return "not a string"
				}

				u, err := time.Parse(time.RFC3339Nano, g)
				if err != nil {
					return "not RFC 3339"
				}

				if !u.Equal(t) {
					return "different instant"
				}

				return ""
			}, class
		}
	}

	return false, nil, ""
}

// SQLite's "looks like a number" test for text stored into a column with INTEGER, REAL or
// NUMERIC affinity (sqlite3AtoF: spaces, sign, digits, fraction, exponent, spaces).
func c18NumericLit(s string) bool {
	isSp := func(c byte) bool { return c == ' ' || (c >= 9 && c <= 13) }
	i, n := 0, len(s)

	for i < n && isSp(s[i]) {
		i++
	}

	if i < n && (s[i] == '+' || s[i] == '-') {
		i++
	}

	d := 0
	for i < n && s[i] >= '0' && s[i] <= '9' {
		i++
		d++
	}

	if i < n && s[i] == '.' {
		i++
		for i < n && s[i] >= '0' && s[i] <= '9' {
			i++
			d++
		}
	}

	if d == 0 {
		return false
	}

	if i < n && (s[i] == 'e' || s[i] == 'E') {
		j := i + 1
		if j < n && (s[j] == '+' || s[j] == '-') {
			j++
		}

		e := 0
		for j < n && s[j] >= '0' && s[j] <= '9' {
			j++
			e++
		}

		if e == 0 {
			return false
		}

		i = j
	}

	for i < n && isSp(s[i]) {
		i++
	}

	return i == n
}

// c18Modelled is the set of (type, value) pairs the Lean model covers; everything else is
// run through the handlers too (no panic, no 5xx on scalars) but not compared with it.
func c18Modelled(typ string, v any) bool {
	switch x := v.(type) {
	case nil, bool:
		return !c18IsTime(typ) || v == nil
	case json.Number:
		if c18IsTime(typ) {
			return false
		}

		if typ == "string" && c18Num(string(x))[0] == 'f' {
			return false // SQLite's own float-to-text rendering is not modelled
		}

		return true
	case string:
		if !utf8.ValidString(x) {
			return false
		}

		switch typ {
		case "string":
			return true
		case "byte", "int8", "float32", "float64":
			return !c18NumericLit(x) && !strings.ContainsRune(x, 0)
		case "time", "timestamp", "date":
			// only texts Go's RFC 3339 reader accepts: what dateparse makes of anything
			// else (it reads "ßß,*/\nZ;;Z世" as year 0000) is not modelled
			_, ok := c18ParseTime(x)

			return ok
		}
	}

	return false
}

func c18Filter(k int) string {
	return "?filter=" + url.QueryEscape(fmt.Sprintf("EQ(k,%d)", k))
}

var _ = verifh.Hex
var _ = http.StatusOK
