//go:build verif

package tables

// C15 — SQL endpoints authorize every table the statement touches.
//
// What runs (all REAL code, in-process):
//   sqlparse.New / StatementKind / Tables / Format / Statement            (the extractor)
//   tables.authorizeAndFormatStatements → authorizeStatement → Authorized (the @sql gate, real table_perms store)
//   scripting.authorizeAndClassifySQL                                     (the @transaction "sql" task gate)
// on generated statements of every kind (subqueries in every expression position, CTEs, joins,
// views, index DDL, both dialects), a fixed corpus of nasty cases first.
//
// Correspondence lines (model = Lean `tablesModel` / `authorize` run on a REFLECTION DUMP of the real AST):
//   T <tree>                 impl: StatementKind + Tables()           (B, C, W refer to the last T's tree)
//   W                        impl: wt=1 + the harness's own reflection walk of table refs
//   B sql <adm> <grants>     impl: allow | deny <the check named in the 403 message>
//   C tx <adm> <grants>      impl: allow/deny + the recorded sequence of AuthorizedFunc calls
//   M <k> <tree>*k           impl: StatementKind + Tables() of each statement of a multi-statement @sql request
//   D <adm> <grants>         impl: allow/deny of the WHOLE request (authorizeAndFormatStatements on the k
//                            statements of the last M), the check named in the 403, and the number of
//                            table-permission lookups made                 (model = Lean `authorizeBatch`)
//
// Direct oracle (no model): an independent reflection walk over the real AST (every field, not
// Children()) + a hand-written target table per statement struct + SQLite EXPLAIN of the raw and the
// formatted text give the tables the statement touches; for each of them exactly the matching
// permission is withheld (everything else granted) and the real gate must answer 403; and every
// table SQLite opens must appear in the recorded checks of the fully-granted run.
//
// Deep and wide statements (deepStatements): one protected table under 50 … 1000 levels of each nesting
// construct of the grammar, or at the end of an equally long sibling list, in every statement position —
// the same correspondence lines and the same oracle (by construction the statement reads that table, at a
// depth the reflection walk measures; EXPLAIN confirms it where SQLite compiles the text), both gates,
// and a part end to end.  An authorization walk with a depth / node budget fails here.
//
// Multi-statement @sql requests (2–4 statements: same and different tables, mixed kinds; a fixed corpus
// first): for each (table, permission) that ANY statement of the request needs — the permission being
// the one that statement's own kind calls for — exactly that one is withheld and the whole request must
// be refused with nothing handed on for execution; under random grants, allowed ⇒ every need of every
// statement was held.  A part of the batches is also POSTed to the real SQLTransaction handler on a real
// SQLite database: a withheld permission must give 403 and leave every table as it was.

import (
	"database/sql"
	"encoding/json"
	"fmt"
	"math/rand"
	"net/http"
	"net/http/httptest"
	"os"
	"path/filepath"
	"reflect"
	"sort"
	"strconv"
	"strings"
	"testing"

	"github.com/tucats/ego/internal/cli/ui"
	"github.com/tucats/ego/internal/defs"
	"github.com/tucats/ego/internal/dsns"
	"github.com/tucats/ego/internal/i18n"
	"github.com/tucats/ego/internal/resources"
	"github.com/tucats/ego/internal/router"
	"github.com/tucats/ego/internal/server/tables/database"
	"github.com/tucats/ego/internal/server/tables/scripting"
	"github.com/tucats/ego/internal/sqlparse"
	"github.com/tucats/ego/internal/sqlparse/ast"
	"github.com/tucats/ego/internal/verifh"

	_ "modernc.org/sqlite"
)

// ------------------------------------------------------------------ reflection dump + independent walk

var c15NodeIface = reflect.TypeOf((*ast.Node)(nil)).Elem()

// c15ElemOf: can a value of static type t hold AST nodes?  returns the element type name
// ("Node" for the interface, the struct name for *T) and the slice nesting depth.
func c15ElemOf(t reflect.Type) (string, int, bool) {
	depth := 0
	for t.Kind() == reflect.Slice {
		t = t.Elem()
		depth++
	}

	switch {
	case t.Kind() == reflect.Interface && t.Implements(c15NodeIface):
		return "Node", depth, true
	case t.Kind() == reflect.Ptr && t.Elem().Kind() == reflect.Struct && t.Implements(c15NodeIface):
		return t.Elem().Name(), depth, true
	}

	return "", 0, false
}

type c15Field struct {
	name  string
	index []int
	elem  string
	depth int
	isStr bool
}

var c15FieldCache = map[reflect.Type][]c15Field{}

// c15Fields lists, by reflection only, the string fields and the node-holding fields of a node
// struct (embedded structs flattened).  Any other field must be unable to hold a node.
func c15Fields(t reflect.Type) []c15Field {
	if f, ok := c15FieldCache[t]; ok {
		return f
	}

	var out []c15Field

	var rec func(t reflect.Type, prefix []int)

	rec = func(t reflect.Type, prefix []int) {
		for i := 0; i < t.NumField(); i++ {
			sf := t.Field(i)
			idx := append(append([]int{}, prefix...), i)

			if sf.Anonymous && sf.Type.Kind() == reflect.Struct {
				rec(sf.Type, idx)

				continue
			}

			if el, d, ok := c15ElemOf(sf.Type); ok {
				out = append(out, c15Field{name: sf.Name, index: idx, elem: el, depth: d})
			} else if sf.Type.Kind() == reflect.String {
				out = append(out, c15Field{name: sf.Name, index: idx, isStr: true})
			}
		}
	}
	rec(t, nil)

	c15FieldCache[t] = out

	return out
}

// c15Kids returns the non-nil nodes stored in a field value (slices flattened).
func c15Kids(v reflect.Value, out *[]reflect.Value) {
	switch v.Kind() {
	case reflect.Slice:
		for i := 0; i < v.Len(); i++ {
			c15Kids(v.Index(i), out)
		}
	case reflect.Interface:
		if !v.IsNil() {
			c15Kids(v.Elem(), out)
		}
	case reflect.Ptr:
		if !v.IsNil() {
			*out = append(*out, v)
		}
	}
}

// c15Dump renders the real AST below v (a non-nil pointer to a node struct) in the driver's format.
func c15Dump(v reflect.Value, b *strings.Builder, types map[reflect.Type]bool) {
	t := v.Elem().Type()
	types[t] = true
	fs := c15Fields(t)

	nstr, nnode := 0, 0

	for _, f := range fs {
		if f.isStr {
			nstr++
		} else {
			nnode++
		}
	}

	b.WriteString(t.Name())
	b.WriteByte(' ')
	b.WriteString(strconv.Itoa(nstr))

	for _, f := range fs {
		if f.isStr {
			b.WriteByte(' ')
			b.WriteString(f.name)
			b.WriteByte(' ')
			b.WriteString(verifh.Hex(v.Elem().FieldByIndex(f.index).String()))
		}
	}

	b.WriteByte(' ')
	b.WriteString(strconv.Itoa(nnode))

	for _, f := range fs {
		if f.isStr {
			continue
		}

		var kids []reflect.Value

		c15Kids(v.Elem().FieldByIndex(f.index), &kids)
		b.WriteByte(' ')
		b.WriteString(f.name)
		b.WriteByte(' ')
		b.WriteString(strconv.Itoa(len(kids)))

		for _, k := range kids {
			b.WriteByte(' ')
			c15Dump(k, b, types)
		}
	}
}

type c15Ref struct {
	name string // as Tables() is specified to report it: schema-qualified when the source was
	top  string // the statement-level field under which the reference sits ("" = the statement)
	lvl  int    // number of AST levels between the statement node and the reference
}

func c15QualName(schema, name string) string {
	if schema != "" {
		return schema + "." + name
	}

	return name
}

// c15Walk collects every *ast.TableRef reachable from v through ANY field (not via Children()).
func c15Walk(v reflect.Value, top string, skip *ast.TableRef, lvl int, out *[]c15Ref) {
	if tr, ok := v.Interface().(*ast.TableRef); ok {
		if tr != skip {
			*out = append(*out, c15Ref{name: c15QualName(tr.Schema, tr.Name), top: top, lvl: lvl})
		}

		return
	}

	for _, f := range c15Fields(v.Elem().Type()) {
		if f.isStr {
			continue
		}

		var kids []reflect.Value

		c15Kids(v.Elem().FieldByIndex(f.index), &kids)

		t := top
		if t == "" {
			t = f.name
		}

		for _, k := range kids {
			c15Walk(k, t, skip, lvl+1, out)
		}
	}
}

// ------------------------------------------------------------------ the oracle's statement spec (hand written)

type c15Need struct {
	table string // base table name the permission record is keyed by
	mode  string // r | w | a
	class string // failure class if this need is not enforced
	lvl   int    // AST level of the reference (0 = the statement's own target)
}

func c15Base(name string) string {
	if i := strings.LastIndex(name, "."); i >= 0 {
		return name[i+1:]
	}

	return name
}

// c15Needs: what must be held to run stmt, from the AST alone.  writeKind is "w" for statements that
// modify rows; the permission it maps to depends on the statement struct (insert/update/delete).
func c15Needs(stmt ast.Statement) (needs []c15Need, writePerm string, ddl bool) {
	var (
		target *ast.TableRef
		refs   []c15Ref
	)

	tname := reflect.TypeOf(stmt).Elem().Name()
	lvl := 0
	add := func(name, mode, class string) {
		needs = append(needs, c15Need{table: c15Base(name), mode: mode, class: class, lvl: lvl})
	}
	tclass := "uncovered:" + tname + ".target"

	switch s := stmt.(type) {
	case *ast.InsertStmt:
		target, writePerm = s.Table, defs.TableWritePermission
	case *ast.UpdateStmt:
		target, writePerm = s.Table, defs.TableUpdatePermission
	case *ast.DeleteStmt:
		target, writePerm = s.Table, defs.TableDeletePermission
	case *ast.CreateTableStmt:
		target, ddl = s.Table, true
	case *ast.DropTableStmt:
		target, ddl = s.Table, true
	case *ast.AlterTableStmt:
		target, ddl = s.Table, true
	case *ast.CreateIndexStmt:
		ddl = true
		add(s.Table, "a", tclass)
	case *ast.DropIndexStmt:
		ddl = true
		add(c15QualName(s.Schema, s.Name), "a", tclass)
	case *ast.CreateViewStmt:
		ddl = true
		add(s.Name, "a", tclass)
	case *ast.DropViewStmt:
		ddl = true
		add(s.Name, "a", tclass)
	}

	if target != nil {
		mode := "w"
		if ddl {
			mode = "a"
		}

		cls := tclass
		if target.Name == "" {
			cls = "uncovered:empty-name-target"
		}

		add(c15QualName(target.Schema, target.Name), mode, cls)
	}

	c15Walk(reflect.ValueOf(stmt), "", target, 0, &refs)

	for _, r := range refs {
		lvl = r.lvl
		add(r.name, "r", "uncovered:"+tname+"."+r.top)
	}

	return needs, writePerm, ddl
}

// ------------------------------------------------------------------ permission plumbing

var c15PermName = map[string]string{
	defs.TableReadPermission:   "TableReadPermission",
	defs.TableWritePermission:  "TableWritePermission",
	defs.TableUpdatePermission: "TableUpdatePermission",
	defs.TableDeletePermission: "TableDeletePermission",
	defs.TableAdminPermission:  "TableAdminPermission",
	defs.DSNAdminPermission:    "DSNAdminPermission",
}

var c15TablePerms = []string{defs.TableReadPermission, defs.TableWritePermission, defs.TableUpdatePermission, defs.TableDeletePermission}

type c15Grant struct{ table, perm string }

type c15Profile struct {
	grants   map[c15Grant]bool
	dsnAdmin bool
	viaDSN   bool // DSN-admin comes from a dsns_auth record (AuthDSN) rather than the identity permission
}

func (p *c15Profile) key() string {
	var ks []string
	for g := range p.grants {
		ks = append(ks, g.table+"\x00"+g.perm)
	}

	sort.Strings(ks)

	return fmt.Sprintf("%v|%v|%s", p.dsnAdmin, p.viaDSN, strings.Join(ks, "\x01"))
}

func (p *c15Profile) protocol() string {
	var ks []string
	for g := range p.grants {
		ks = append(ks, verifh.Hex(g.table)+" "+c15PermName[g.perm])
	}

	sort.Strings(ks)

	adm := "0"
	if p.dsnAdmin {
		adm = "1"
	}

	s := adm + " " + strconv.Itoa(len(ks))
	if len(ks) > 0 {
		s += " " + strings.Join(ks, " ")
	}

	return s
}

// the DSN service seen by Authorized / authorizeStatement / authorizedForDDL: every DSN exists and is
// Restricted; AuthDSN answers from the profile of the calling user and is recorded.
type c15DSNIface interface {
	AuthDSN(session int, user, dsn string, action dsns.DSNAction) bool
	ReadDSN(session int, user, name string, doNotLog bool) (defs.DSN, error)
	WriteDSN(session int, user string, dataSourceName defs.DSN) error
	DeleteDSN(session int, user, name string) error
	ListDSNS(session int, user string) (map[string]defs.DSN, error)
	GrantDSN(session int, user, name string, action dsns.DSNAction, grant bool) error
	Permissions(session int, user, name string) (map[string]dsns.DSNAction, error)
	RevokeAllDSN(session int, name string) error
	Flush() error
	Close() error
}

type c15DSN struct {
	c15DSNIface
	admin  map[string]bool
	trace  *[]string
	e2e    bool   // end-to-end leg: every user may open the DSN for reading and writing (database.Open)
	dbfile string // … and the DSN names this SQLite file
}

func (s *c15DSN) AuthDSN(session int, user, dsn string, action dsns.DSNAction) bool {
	if action == dsns.DSNAdminAction {
		*s.trace = append(*s.trace, "A")
	} else if s.e2e {
		return true
	}

	return s.admin[user]
}

func (s *c15DSN) ReadDSN(session int, user, name string, doNotLog bool) (defs.DSN, error) {
	*s.trace = append(*s.trace, "R")

	return defs.DSN{Name: name, Provider: defs.SqliteProvider, Restricted: true, Database: s.dbfile}, nil
}

// ------------------------------------------------------------------ SQL generator

// The generator follows the grammar of internal/sqlparse (select.go, dml.go, ddl.go, expr.go) and keeps
// the statements mostly valid against the fixed SQLite schema below (aliases are scoped, scalar
// subqueries have one column) so that SQLite EXPLAIN accepts a good share of them.
type c15Gen struct {
	r      *rand.Rand
	pg     bool
	budget int
	alias  int
	scope  [][]string // visible table aliases, innermost last
	ctes   []string
}

var (
	c15Tables  = []string{"t0", "t1", "t2", "t3", "secret", `"Mixed Case"`, "main.t1", "main.secret", "T2", "audit_log"}
	c15NewObjs = []string{"n0", "n1", "main.n2", `"New Tab"`}
	c15Cols    = []string{"id", "a", "b", "c", "x", "y"}
	c15Idx     = []string{"idx0", "idx1", "idxs", "main.idx0", "nidx", "nidx2"}
	c15Views   = []string{"v0", "nv1"}
	c15Types   = []string{"INTEGER", "TEXT", "VARCHAR(20)", "NUMERIC(10,2)", "REAL", "BLOB"}
)

func (g *c15Gen) pick(l []string) string { return l[g.r.Intn(len(l))] }
func (g *c15Gen) p(n int) bool           { return g.r.Intn(100) < n }

func (g *c15Gen) table() string {
	if g.p(1) {
		return `""`
	}

	if len(g.ctes) > 0 && g.p(35) {
		return g.pick(g.ctes)
	}

	return g.pick(c15Tables)
}

func (g *c15Gen) col() string {
	c := g.pick(c15Cols)

	if n := len(g.scope); n > 0 {
		sc := g.scope[n-1]
		if n > 1 && g.p(12) {
			sc = g.scope[n-2] // correlated reference to the enclosing query
		}

		if len(sc) > 0 && (len(sc) > 1 || g.p(40)) {
			return g.pick(sc) + "." + c
		}
	}

	return c
}

func (g *c15Gen) lit() string {
	switch g.r.Intn(16) {
	case 0:
		return "NULL"
	case 1, 2:
		return "'s" + strconv.Itoa(g.r.Intn(9)) + "'"
	case 3:
		return "'it''s'"
	case 4:
		return strconv.Itoa(g.r.Intn(100)) + "." + strconv.Itoa(g.r.Intn(10))
	case 5:
		if g.p(25) {
			return "?" + strconv.Itoa(1+g.r.Intn(3))
		}

		return "TRUE"
	case 6:
		return "x'0A'"
	default:
		return strconv.Itoa(g.r.Intn(1000))
	}
}

// sub is a parenthesised subquery with ncols result columns (0 = any).
func (g *c15Gen) sub(d, ncols int) string {
	g.budget -= 3

	return "(" + g.sel(d+1, ncols) + ")"
}

func (g *c15Gen) wantSub(d int) bool { return g.budget > 0 && d < 5 && g.p(22) }

func (g *c15Gen) expr(d int) string {
	if g.budget <= 0 || d > 5 {
		if g.p(60) {
			return g.col()
		}

		return g.lit()
	}

	g.budget--

	if g.wantSub(d) {
		switch g.r.Intn(4) {
		case 0:
			return g.sub(d, 1)
		case 1:
			return "EXISTS " + g.sub(d, 0)
		case 2:
			return g.expr(d+1) + g.pick([]string{" IN ", " NOT IN "}) + g.sub(d, 1)
		default:
			return "NOT EXISTS " + g.sub(d, 0)
		}
	}

	switch g.r.Intn(22) {
	case 0, 1, 2:
		return g.col()
	case 3, 4:
		return g.lit()
	case 5:
		return g.expr(d+1) + " " + g.pick([]string{"+", "-", "*", "/", "%", "||", "&", "|"}) + " " + g.expr(d+1)
	case 6:
		return g.expr(d+1) + " " + g.pick([]string{"=", "<>", "<", "<=", ">", ">=", "==", "!="}) + " " + g.expr(d+1)
	case 7:
		return g.expr(d+1) + " " + g.pick([]string{"AND", "OR"}) + " " + g.expr(d+1)
	case 8:
		return g.pick([]string{"NOT ", "-", "+", "~"}) + g.expr(d+1)
	case 9:
		return g.expr(d+1) + g.pick([]string{" BETWEEN ", " NOT BETWEEN "}) + g.expr(d+1) + " AND " + g.expr(d+1)
	case 10:
		return g.expr(d+1) + g.pick([]string{" IN (", " NOT IN ("}) + g.expr(d+1) + ", " + g.expr(d+1) + ")"
	case 11:
		s := g.expr(d+1) + g.pick([]string{" LIKE ", " NOT LIKE ", " GLOB "}) + g.expr(d+1)
		if g.p(30) {
			s += " ESCAPE " + g.pick([]string{"'!'", g.expr(d + 1)})
		}

		return s
	case 12:
		return g.expr(d+1) + g.pick([]string{" IS NULL", " IS NOT NULL", " ISNULL", " NOTNULL"})
	case 13:
		return g.expr(d+1) + g.pick([]string{" IS ", " IS NOT "}) + g.expr(d+1)
	case 14:
		return g.expr(d+1) + " COLLATE NOCASE"
	case 15:
		switch g.r.Intn(5) {
		case 0:
			return g.pick([]string{"abs", "length", "lower", "upper", "typeof"}) + "(" + g.expr(d+1) + ")"
		case 1:
			return g.pick([]string{"coalesce", "ifnull", "max", "min", "nullif"}) + "(" + g.expr(d+1) + ", " + g.expr(d+1) + ")"
		case 2:
			return "count(" + g.pick([]string{"*", "DISTINCT " + g.col()}) + ")"
		case 3:
			return g.pick([]string{"sum", "max", "count"}) + "(" + g.col() + ") FILTER (WHERE " + g.expr(d+1) + ")"
		default:
			return g.pick([]string{"sum", "min", "avg"}) + "(" + g.col() + ")"
		}
	case 16:
		return "CAST(" + g.expr(d+1) + " AS " + g.pick(c15Types) + ")"
	case 17:
		s := "CASE "
		if g.p(40) {
			s += g.expr(d+1) + " "
		}

		for i := 0; i <= g.r.Intn(2); i++ {
			s += "WHEN " + g.expr(d+1) + " THEN " + g.expr(d+1) + " "
		}

		if g.p(60) {
			s += "ELSE " + g.expr(d+1) + " "
		}

		return s + "END"
	case 18:
		return "(" + g.expr(d+1) + ")"
	case 19:
		return "(" + g.expr(d+1) + ", " + g.expr(d+1) + ") = (" + g.expr(d+1) + ", " + g.expr(d+1) + ")"
	default:
		return g.col()
	}
}

// register makes an alias visible in the innermost scope.
func (g *c15Gen) register(a string) {
	if n := len(g.scope); n > 0 {
		g.scope[n-1] = append(g.scope[n-1], a)
	}
}

func (g *c15Gen) newAlias() string {
	g.alias++

	return "q" + strconv.Itoa(g.alias-1)
}

func (g *c15Gen) fromItem(d int) string {
	if g.budget > 0 && d < 4 && g.p(18) {
		// a FROM subquery sees neither its siblings nor the enclosing query
		saved := g.scope
		g.scope = nil
		s := g.sub(d, 6)
		g.scope = saved
		a := g.newAlias()
		g.register(a)

		return s + g.pick([]string{" AS ", " "}) + a
	}

	s := g.table()
	if !g.p(25) || strings.ContainsAny(s, `". `) || strings.ToLower(s) != s {
		a := g.newAlias()
		g.register(a)
		s += g.pick([]string{" AS ", " "}) + a
	} else {
		g.register(s)
	}

	if !g.pg && g.p(3) {
		s += " NOT INDEXED"
	}

	return s
}

func (g *c15Gen) from(d int) string {
	s := g.fromItem(d)
	for g.budget > 0 && g.p(30) {
		g.budget--

		switch g.r.Intn(6) {
		case 0:
			s += ", " + g.fromItem(d)
		case 1:
			s += " " + g.pick([]string{"NATURAL JOIN", "CROSS JOIN", "NATURAL LEFT JOIN"}) + " " + g.fromItem(d)
		case 2:
			s += " JOIN " + g.fromItem(d) + " USING (" + g.pick(c15Cols) + ")"
		case 3:
			s = "(" + s + " " + g.pick([]string{"JOIN", "LEFT JOIN", "INNER JOIN", "LEFT OUTER JOIN"}) + " " + g.fromItem(d) + " ON " + g.expr(d+1) + ")"
		default:
			s += " " + g.pick([]string{"JOIN", "LEFT JOIN", "INNER JOIN", "FULL OUTER JOIN", "RIGHT JOIN"}) + " " + g.fromItem(d) + " ON " + g.expr(d+1)
		}
	}

	return s
}

// core: one SELECT core with ncols result columns (0 = generator's choice, may use *).
func (g *c15Gen) core(d, ncols int) string {
	g.scope = append(g.scope, nil)
	defer func() { g.scope = g.scope[:len(g.scope)-1] }()

	from := ""
	if ncols == 6 || g.p(94) {
		from = " FROM " + g.from(d)
	}

	s := "SELECT "
	if g.p(10) {
		s += g.pick([]string{"DISTINCT ", "ALL "})
	}

	switch {
	case ncols == 6 && from != "" && len(g.scope[len(g.scope)-1]) == 1 && g.p(70):
		s += "*"
	case ncols == 6:
		for i, c := range c15Cols {
			if i > 0 {
				s += ", "
			}

			if g.p(25) {
				s += g.expr(d+2) + " AS " + c
			} else {
				s += g.col() + " AS " + c
			}
		}
	default:
		n := ncols
		if n == 0 {
			n = 1 + g.r.Intn(2)
		}

		for i := 0; i < n; i++ {
			if i > 0 {
				s += ", "
			}

			switch {
			case ncols == 0 && from != "" && g.p(15):
				s += "*"
			case ncols == 0 && from != "" && g.p(6) && len(g.scope[len(g.scope)-1]) > 0:
				s += g.pick(g.scope[len(g.scope)-1]) + ".*"
			default:
				s += g.expr(d + 1)
				if g.p(25) {
					s += " AS r" + strconv.Itoa(i)
				}
			}
		}
	}

	s += from

	if g.p(55) {
		s += " WHERE " + g.expr(d+1)
	}

	if g.p(15) {
		s += " GROUP BY " + g.expr(d+1)
		if g.p(50) {
			s += " HAVING " + g.expr(d+1)
		}
	}

	return s
}

func (g *c15Gen) with(d int) string {
	if g.budget <= 0 || d > 3 || !g.p(14) {
		return ""
	}

	g.budget -= 2
	s := "WITH "

	if g.p(25) {
		s += "RECURSIVE "
	}

	n := 1 + g.r.Intn(2)
	names := []string{}

	for i := 0; i < n; i++ {
		if i > 0 {
			s += ", "
		}

		name := "cte" + strconv.Itoa(d) + strconv.Itoa(i)
		s += name

		if g.p(30) {
			s += " (id, a, b, c, x, y)"
		}

		saved := g.scope
		g.scope = nil
		s += " AS (" + g.sel(d+1, 6) + ")"
		g.scope = saved
		names = append(names, name)
	}

	g.ctes = append(g.ctes, names...)

	return s + " "
}

func (g *c15Gen) sel(d, ncols int) string {
	nctes := len(g.ctes)
	defer func() { g.ctes = g.ctes[:nctes] }()

	s := g.with(d) + g.core(d, ncols)
	compound := false

	for g.budget > 0 && g.p(12) {
		g.budget -= 2
		compound = true
		nc := ncols

		if nc == 0 {
			nc = 6
		}

		s += " " + g.pick([]string{"UNION", "UNION ALL", "INTERSECT", "EXCEPT"}) + " " + g.core(d, nc)
	}

	if g.p(20) {
		if compound {
			s += " ORDER BY 1"
		} else {
			s += " ORDER BY " + g.pick(c15Cols)
		}

		if g.p(40) {
			s += g.pick([]string{" ASC", " DESC", " COLLATE NOCASE", " DESC NULLS LAST"})
		}

		if g.p(25) {
			s += ", " + g.pick([]string{"2", g.sub(d, 1)})
		}
	}

	if g.p(15) {
		s += " LIMIT " + g.pick([]string{"5", g.lit(), g.sub(d, 1)})
		if g.p(40) {
			s += g.pick([]string{" OFFSET ", ", "}) + g.pick([]string{"1", g.sub(d, 1)})
		}
	}

	return s
}

func (g *c15Gen) returning() string {
	if !g.p(20) {
		return ""
	}

	return " RETURNING " + g.pick([]string{"*", g.expr(1), g.expr(1) + " AS r"})
}

func (g *c15Gen) setList() string {
	n := 1 + g.r.Intn(2)
	s := ""

	for i := 0; i < n; i++ {
		if i > 0 {
			s += ", "
		}

		if g.p(15) {
			s += "(a, b) = (" + g.expr(1) + ", " + g.expr(1) + ")"
		} else {
			s += g.pick(c15Cols[1:]) + " = " + g.expr(1)
		}
	}

	return s
}

func (g *c15Gen) colDef(i int) string {
	s := c15Cols[i%len(c15Cols)]
	if g.p(85) {
		s += " " + g.pick(c15Types)
	}

	for g.p(40) {
		switch g.r.Intn(8) {
		case 0:
			s += " PRIMARY KEY"
		case 1:
			s += " NOT NULL"
		case 2:
			s += " UNIQUE"
		case 3:
			s += " CHECK (" + g.expr(1) + ")"
		case 4:
			s += " DEFAULT " + g.pick([]string{"0", "'x'", "-1", "(" + g.expr(2) + ")"})
		case 5:
			s += " REFERENCES " + g.pick([]string{"t0", "secret"}) + " (id)"
			if g.p(40) {
				s += " ON DELETE CASCADE"
			}
		case 6:
			s += " COLLATE NOCASE"
		default:
			s += " GENERATED ALWAYS AS (" + g.expr(2) + ")" + g.pick([]string{"", " STORED", " VIRTUAL"})
		}
	}

	return s
}

// target registers the DML target so that column references resolve.
func (g *c15Gen) target(allowAlias bool) string {
	t := g.table()
	g.scope = [][]string{nil}

	if allowAlias && (g.p(20) || strings.ContainsAny(t, `". `) || strings.ToLower(t) != t) {
		a := g.newAlias()
		g.register(a)

		return t + " AS " + a
	}

	if !strings.ContainsAny(t, `". `) {
		g.register(t)
	}

	return t
}

func (g *c15Gen) stmt() string {
	g.budget = 4 + g.r.Intn(14)
	g.alias = 0
	g.scope = nil
	g.ctes = nil

	switch k := g.r.Intn(100); {
	case k < 26:
		return g.sel(0, 0)
	case k < 40:
		s := g.with(0) + "INSERT "
		if !g.pg && g.p(15) {
			s += "OR " + g.pick([]string{"REPLACE", "IGNORE", "ABORT"}) + " "
		}

		s += "INTO " + g.pick(append(c15Tables, `""`))
		withCols := g.p(50)

		if withCols {
			s += " (a, b)"
		}

		n := 6
		if withCols {
			n = 2
		}

		switch g.r.Intn(5) {
		case 0:
			s += " DEFAULT VALUES"
		case 1, 2:
			s += " " + g.sel(1, n)
		default:
			rows := 1 + g.r.Intn(2)
			s += " VALUES "

			for r := 0; r < rows; r++ {
				if r > 0 {
					s += ", "
				}

				s += "("

				for i := 0; i < n; i++ {
					if i > 0 {
						s += ", "
					}

					s += g.pick([]string{g.lit(), g.lit(), g.expr(2)})
				}

				s += ")"
			}
		}

		g.scope = [][]string{{"excluded"}}

		if g.p(30) {
			s += " ON CONFLICT"
			if g.p(60) {
				s += " (id)"
				if g.p(30) {
					s += " WHERE " + g.expr(1)
				}
			}

			if g.p(35) {
				s += " DO NOTHING"
			} else {
				s += " DO UPDATE SET " + g.setList()
				if g.p(40) {
					s += " WHERE " + g.expr(1)
				}
			}
		}

		g.scope = nil

		return s + g.returning()
	case k < 54:
		s := g.with(0) + "UPDATE "
		if !g.pg && g.p(10) {
			s += "OR IGNORE "
		}

		s += g.target(true)
		set := " SET " + g.setList()
		from := ""

		if g.p(25) {
			from = " FROM " + g.from(1)
		}

		s += set + from
		if g.p(70) {
			s += " WHERE " + g.expr(1)
		}

		return s + g.returning()
	case k < 64:
		s := g.with(0) + "DELETE FROM " + g.target(false)
		if g.pg && g.p(35) {
			s += " USING " + g.from(1)
		}

		if g.p(75) {
			s += " WHERE " + g.expr(1)
		}

		return s + g.returning()
	case k < 72:
		s := "CREATE "
		if g.p(15) {
			s += g.pick([]string{"TEMP ", "TEMPORARY "})
		}

		s += "TABLE "
		if g.p(25) {
			s += "IF NOT EXISTS "
		}

		s += g.pick(append(c15NewObjs, "n0", "n1", "t0", `""`))
		if g.p(25) {
			return s + " AS " + g.sel(1, 0)
		}

		s += " (" + g.colDef(0)
		for i := 1; g.p(60) && i < 6; i++ {
			s += ", " + g.colDef(i)
		}

		for g.p(30) {
			switch g.r.Intn(4) {
			case 0:
				s += ", PRIMARY KEY (id)"
			case 1:
				s += ", UNIQUE (id)"
			case 2:
				s += ", CHECK (" + g.pick([]string{"id > 0", g.expr(1)}) + ")"
			default:
				s += ", FOREIGN KEY (id) REFERENCES secret (id) ON DELETE CASCADE"
			}
		}

		s += ")"
		if !g.pg && g.p(6) {
			s += " WITHOUT ROWID"
		}

		return s
	case k < 76:
		s := "DROP TABLE "
		if g.p(30) {
			s += "IF EXISTS "
		}

		s += g.pick(append(c15Tables, `""`))
		if g.pg && g.p(20) {
			s += g.pick([]string{" CASCADE", " RESTRICT"})
		}

		return s
	case k < 82:
		s := "ALTER TABLE " + g.pick(append(c15Tables, `""`)) + " "

		switch g.r.Intn(4) {
		case 0:
			return s + "ADD COLUMN z" + strings.TrimPrefix(g.colDef(g.r.Intn(6)), c15Cols[0])
		case 1:
			return s + "DROP COLUMN " + g.pick(c15Cols[1:])
		case 2:
			return s + "RENAME COLUMN a TO a2"
		default:
			return s + "RENAME TO " + g.pick(c15NewObjs)
		}
	case k < 88:
		s := "CREATE "
		if g.p(25) {
			s += "UNIQUE "
		}

		s += "INDEX "
		if g.p(25) {
			s += "IF NOT EXISTS "
		}

		s += g.pick(c15Idx) + " ON " + g.pick([]string{"t0", "t1", "secret", `"Mixed Case"`, `""`, "t3"}) + " ("
		if g.p(40) {
			s += "(" + g.expr(1) + ")"
		} else {
			s += g.pick(c15Cols) + g.pick([]string{"", " DESC", " COLLATE NOCASE"})
		}

		if g.p(30) {
			s += ", " + g.pick(c15Cols)
		}

		s += ")"
		if g.p(35) {
			s += " WHERE " + g.expr(1)
		}

		return s
	case k < 92:
		s := "DROP INDEX "
		if g.p(30) {
			s += "IF EXISTS "
		}

		return s + g.pick(append(c15Idx, `""`))
	case k < 96:
		s := "CREATE "
		if g.pg && g.p(20) {
			s += "OR REPLACE "
		}

		if g.p(15) {
			s += "TEMP "
		}

		s += "VIEW "
		if g.p(20) {
			s += "IF NOT EXISTS "
		}

		s += g.pick(append(c15Views, `""`, "nv2", "nv3"))
		if g.p(20) {
			return s + " (id, a) AS " + g.sel(1, 2)
		}

		return s + " AS " + g.sel(1, 0)
	case k < 98:
		s := "DROP VIEW "
		if g.p(30) {
			s += "IF EXISTS "
		}

		return s + g.pick(append(c15Views, `""`))
	default:
		return g.pick([]string{"BEGIN", "BEGIN IMMEDIATE", "COMMIT", "END", "ROLLBACK", "ROLLBACK TO sp1", "SAVEPOINT sp1", "RELEASE sp1", "BEGIN TRANSACTION"})
	}
}

// malformed: hostile texts aimed at the parser (must be rejected for a non-admin, or, if they parse,
// obey the same oracle).
func (g *c15Gen) hostile() string {
	base := g.stmt()

	switch g.r.Intn(8) {
	case 0:
		return base + "; DROP TABLE secret"
	case 1:
		return base + " -- ; DELETE FROM secret"
	case 2:
		return base + " /* x */ ; "
	case 3:
		return "EXPLAIN " + base
	case 4:
		return strings.Replace(base, " ", " /*c*/ ", 2)
	case 5:
		return "PRAGMA table_info(secret)"
	case 6:
		return strings.ToLower(base)
	default:
		return base + ";"
	}
}

var c15Corpus = []string{
	`UPDATE t0 SET a = (SELECT max(x) FROM secret) WHERE id = 1`,
	`UPDATE t0 SET (a, b) = ((SELECT x FROM secret), 2)`,
	`UPDATE t0 SET a = CASE WHEN EXISTS (SELECT 1 FROM secret WHERE x = t0.a) THEN 1 ELSE 0 END`,
	`DROP INDEX idx1`,
	`DROP INDEX IF EXISTS main.idx0`,
	`INSERT INTO t0 (a) VALUES (1) ON CONFLICT (id) DO UPDATE SET a = (SELECT y FROM secret)`,
	`DELETE FROM ""`,
	`INSERT INTO "" VALUES (1, 2)`,
	`DROP TABLE ""`,
	`CREATE TABLE "" (a INTEGER)`,
	`CREATE VIEW "" AS SELECT 1`,
	`ALTER TABLE "" RENAME TO n0`,
	`CREATE INDEX nidx ON "" (a)`,
	`CREATE TABLE n0 (a INTEGER CHECK (a IN (SELECT x FROM secret)))`,
	`CREATE TABLE n0 (a INTEGER DEFAULT ((SELECT max(x) FROM secret)), CHECK (a > (SELECT min(y) FROM secret)))`,
	`CREATE TABLE n0 (a INTEGER, b INTEGER GENERATED ALWAYS AS ((SELECT x FROM secret)) STORED)`,
	`ALTER TABLE t0 ADD COLUMN z INTEGER DEFAULT ((SELECT 1 FROM secret))`,
	`CREATE INDEX nidx ON t0 ((SELECT 1 FROM secret))`,
	`CREATE INDEX nidx ON t0 (a) WHERE a IN (SELECT x FROM secret)`,
	`CREATE TABLE n0 AS SELECT * FROM secret`,
	`CREATE VIEW nv1 AS SELECT * FROM secret`,
	`WITH c AS (SELECT * FROM secret) SELECT * FROM c`,
	`WITH RECURSIVE c(id) AS (SELECT 1 UNION ALL SELECT id + 1 FROM c, secret) DELETE FROM t0 WHERE id IN (SELECT id FROM c)`,
	`SELECT * FROM t0 WHERE a = (SELECT x FROM (SELECT x FROM secret) AS q0)`,
	`SELECT (SELECT (SELECT (SELECT max(x) FROM secret)))`,
	`SELECT * FROM t0 ORDER BY (SELECT x FROM secret) LIMIT (SELECT 1 FROM secret) OFFSET (SELECT 2 FROM t1)`,
	`SELECT * FROM t0 GROUP BY a HAVING a > (SELECT x FROM secret)`,
	`SELECT * FROM t0 JOIN t1 ON t0.id = (SELECT max(id) FROM secret)`,
	`SELECT sum(a) FILTER (WHERE a IN (SELECT x FROM secret)) FROM t0`,
	`SELECT CAST((SELECT x FROM secret) AS TEXT), a LIKE (SELECT b FROM secret) ESCAPE (SELECT c FROM t1) FROM t0`,
	`SELECT a BETWEEN (SELECT 1 FROM secret) AND (SELECT 2 FROM t1), a IS (SELECT x FROM t2) FROM t0`,
	`SELECT * FROM t0 UNION SELECT * FROM secret EXCEPT SELECT * FROM t1`,
	`INSERT INTO t0 SELECT * FROM secret RETURNING (SELECT x FROM t1)`,
	`INSERT INTO t0 (a) VALUES ((SELECT x FROM secret)), (2)`,
	`DELETE FROM t0 WHERE EXISTS (SELECT 1 FROM secret) RETURNING (SELECT 1 FROM t2)`,
	`DELETE FROM main.secret`,
	`SELECT * FROM main.secret, "Mixed Case"`,
	`SELECT * FROM SECRET`,
	`SELECT * FROM sqlite_master`,
	`SELECT * FROM t0 INDEXED BY idx0 WHERE a = 1`,
	`SELECT * FROM t0; DROP TABLE secret`,
	`select * from t0 where a in (select x from secret) -- trailing`,
	`SELECT * FROM (t0 JOIN (secret JOIN t1 USING (id)) USING (id))`,
	`BEGIN`, `COMMIT`, `ROLLBACK TO sp1`, `SAVEPOINT sp1`, `RELEASE sp1`,
	`PG:UPDATE t0 SET a = t1.a FROM t1, (SELECT x FROM secret) AS q0 WHERE t0.id = t1.id`,
	`PG:DELETE FROM t0 USING secret AS q0 WHERE t0.id = q0.id`,
	`PG:DELETE FROM t0 USING t0 AS q0 WHERE t0.id = q0.id`,
	`PG:CREATE OR REPLACE VIEW nv1 AS SELECT * FROM secret`,
	`PG:DROP TABLE t0 CASCADE`,
}

// ------------------------------------------------------------------ deep and wide statements

// The grammar-driven generator above stops at six expression levels.  A walk that gives up below
// some depth, or after some number of nodes or siblings, only lets a reference through past that
// bound, so this stream puts one protected table at the far end of 50 … 1000 levels of every
// nesting construct of the grammar (and at the end of equally long sibling lists).
var c15DeepLevels = []int{50, 150, 200, 250, 400, 1000}

// shapes that wrap an expression, level by level
var c15DeepExprShapes = []string{"lchain", "rchain", "unary", "paren", "func", "func2", "cast", "case-else", "case-when",
	"case-operand", "collate", "mixed", "subquery", "exists", "in-select"}

// shapes that are a statement of their own / sibling lists with the reference in last position
var c15DeepStmtShapes = []string{"from-subquery", "join", "join-paren", "compound", "compound-paren", "cte-nested", "cte-wide",
	"wide-columns", "wide-in", "wide-args", "wide-values", "wide-case", "wide-orderby"}

// one self-delimiting level for the "mixed" shape: prefix, suffix
var c15DeepMixed = [][2]string{
	{"(", ")"}, {"abs(", ")"}, {"(", " + 1)"}, {"(1 - ", ")"}, {"CAST(", " AS TEXT)"},
	{"CASE WHEN a = 1 THEN 1 ELSE ", " END"}, {"CASE WHEN ", " THEN 1 END"}, {"CASE ", " WHEN 1 THEN 1 ELSE 0 END"},
	{"(NOT ", ")"}, {"(", " IS NULL)"}, {"(", " BETWEEN 0 AND 9)"}, {"(5 BETWEEN ", " AND 9)"}, {"(5 BETWEEN 0 AND ", ")"},
	{"(", " IN (1, 2))"}, {"(1 IN (2, ", "))"}, {"(", " LIKE 'a')"}, {"('a' LIKE ", ")"}, {"coalesce(1, ", ")"},
	{"(SELECT ", ")"}, {"EXISTS (SELECT 1 WHERE ", ")"}, {"(", " COLLATE NOCASE)"}, {"(- ", ")"}, {"(", " IS NOT 3)"},
	{"(", " AND 1)"}, {"(0 OR ", ")"}, {"(", " || 's')"}, {"max(1, ", ")"}, {"(SELECT 1 ORDER BY ", ")"},
	{"(SELECT 1 LIMIT ", ")"}, {"(1 IN (SELECT ", "))"}, {"(SELECT count(*) FILTER (WHERE ", "))"},
}

// deepInner: the innermost expression — the only place the protected table tb is named.
func (g *c15Gen) deepInner(tb string) string {
	switch g.r.Intn(4) {
	case 0:
		return "(SELECT max(x) FROM " + tb + ")"
	case 1:
		return "EXISTS (SELECT 1 FROM " + tb + ")"
	case 2:
		return "1 IN (SELECT x FROM " + tb + ")"
	default:
		return "(SELECT x FROM " + tb + " LIMIT 1)"
	}
}

// deepExpr puts x under n levels of one expression shape.
func (g *c15Gen) deepExpr(shape string, n int, x string) string {
	pre := make([]string, n)
	suf := make([]string, n)

	lit := g.pick([]string{"''", "1", "0", "'s'"})
	op := g.pick([]string{"||", "+", "-", "*", "AND", "OR", "=", "<", "|"})

	var one [2]string

	switch shape {
	case "lchain":
		one = [2]string{"", " " + op + " " + lit}
	case "rchain":
		one = [2]string{lit + " " + op + " (", ")"}
	case "unary":
		one = [2]string{g.pick([]string{"NOT ", "- ", "+ ", "~ "}), ""}
	case "paren":
		one = [2]string{"(", ")"}
	case "func":
		one = [2]string{g.pick([]string{"abs", "lower", "length", "typeof"}) + "(", ")"}
	case "func2":
		one = [2]string{"coalesce(", ", " + lit + ")"}
		if g.p(50) {
			one = [2]string{"ifnull(" + lit + ", ", ")"}
		}
	case "cast":
		one = [2]string{"CAST(", " AS " + g.pick([]string{"TEXT", "INTEGER"}) + ")"}
	case "case-else":
		one = [2]string{"CASE WHEN a = 1 THEN 1 ELSE ", " END"}
	case "case-when":
		one = [2]string{"CASE WHEN ", " THEN 1 ELSE 0 END"}
		if g.p(50) {
			one = [2]string{"CASE WHEN a = 1 THEN ", " END"}
		}
	case "case-operand":
		one = [2]string{"CASE ", " WHEN 1 THEN 1 END"}
	case "collate":
		one = [2]string{"", " COLLATE NOCASE"}
	case "subquery":
		one = [2]string{"(SELECT ", ")"}
	case "exists":
		one = [2]string{"EXISTS (SELECT 1 WHERE ", ")"}
	case "in-select":
		one = [2]string{"1 IN (SELECT 1 WHERE ", ")"}
	}

	for i := 0; i < n; i++ {
		if shape == "mixed" {
			one = c15DeepMixed[g.r.Intn(len(c15DeepMixed))]
		}

		pre[i], suf[n-1-i] = one[0], one[1]
	}

	return strings.Join(pre, "") + x + strings.Join(suf, "")
}

// deepCarry puts the expression e into a statement position.
func (g *c15Gen) deepCarry(which int, e string) string {
	o := g.pick([]string{"t0", "t1", "t2"})

	switch which % 14 {
	case 0:
		return "SELECT " + e + " AS v"
	case 1:
		return "SELECT a FROM " + o + " WHERE " + e
	case 2:
		return "DELETE FROM " + o + " WHERE " + e
	case 3:
		return "UPDATE " + o + " SET a = " + e + " WHERE id = 1"
	case 4:
		return "INSERT INTO " + o + " (a) VALUES (" + e + ")"
	case 5:
		return "SELECT a FROM " + o + " ORDER BY " + e
	case 6:
		return "SELECT q0.a FROM " + o + " AS q0 JOIN t3 AS q1 ON " + e
	case 7:
		return "SELECT a FROM " + o + " GROUP BY a HAVING " + e
	case 8:
		return "INSERT INTO " + o + " (a) SELECT " + e
	case 9:
		return "UPDATE " + o + " SET a = 1 WHERE " + e
	case 10:
		return "DELETE FROM " + o + " WHERE id = 1 RETURNING " + e
	case 11:
		return "SELECT a FROM " + o + " LIMIT " + e
	case 12:
		return "INSERT INTO " + o + " (id, a) VALUES (1, 1) ON CONFLICT (id) DO UPDATE SET a = " + e
	default:
		return "WITH c AS (SELECT " + e + " AS v) SELECT v FROM c"
	}
}

// deepStmt: statement-level nesting (FROM subqueries, joins, compound selects, CTEs) and sibling lists
// of n entries with the protected reference last.
func (g *c15Gen) deepStmt(shape string, n int, tb string) string {
	var b strings.Builder

	x := g.deepInner(tb)
	num := func(i int) string { return strconv.Itoa(i) }

	switch shape {
	case "from-subquery":
		b.WriteString("SELECT * FROM ")
		b.WriteString(strings.Repeat("(SELECT * FROM ", n))
		b.WriteString(tb)

		for i := 0; i < n; i++ {
			b.WriteString(") AS q" + num(i))
		}
	case "join":
		// left-deep: the first item of the FROM clause is the deepest
		j := g.pick([]string{" JOIN t0 AS q%d ON q%d.id = 1", " CROSS JOIN t1 AS q%d", " LEFT JOIN t2 AS q%d USING (id)", " NATURAL JOIN t3 AS q%d"})
		b.WriteString("SELECT 1 FROM " + tb + " AS p0")

		for i := 0; i < n; i++ {
			if strings.Count(j, "%d") == 2 {
				fmt.Fprintf(&b, j, i, i)
			} else {
				fmt.Fprintf(&b, j, i)
			}
		}
	case "join-paren":
		b.WriteString("SELECT 1 FROM ")

		for i := 0; i < n; i++ {
			b.WriteString("(t0 AS q" + num(i) + " JOIN ")
		}

		b.WriteString(tb + " AS p0")
		b.WriteString(strings.Repeat(" ON 1 = 1)", n))
	case "compound":
		op := g.pick([]string{" UNION ALL ", " UNION ", " EXCEPT ", " INTERSECT "})
		b.WriteString("SELECT x FROM " + tb)
		b.WriteString(strings.Repeat(op+"SELECT 1", n))
	case "compound-paren":
		// each arm is a FROM subquery holding the rest of the chain
		b.WriteString(strings.Repeat("SELECT 1 UNION ALL SELECT * FROM (", n))
		b.WriteString("SELECT x FROM " + tb)

		for i := 0; i < n; i++ {
			b.WriteString(") AS q" + num(i))
		}
	case "cte-nested":
		b.WriteString(strings.Repeat("WITH c AS (", n))
		b.WriteString("SELECT x FROM " + tb)
		b.WriteString(strings.Repeat(") SELECT * FROM c", n))
	case "cte-wide":
		b.WriteString("WITH ")

		for i := 0; i < n; i++ {
			b.WriteString("c" + num(i) + " AS (SELECT " + num(i) + " AS x), ")
		}

		b.WriteString("clast AS (SELECT x FROM " + tb + ") SELECT x FROM clast")
	case "wide-columns":
		b.WriteString("SELECT " + strings.Repeat("1, ", n) + x + " AS v FROM t0")
	case "wide-in":
		b.WriteString("SELECT a FROM t0 WHERE a IN (" + strings.Repeat("1, ", n) + x + ")")
	case "wide-args":
		b.WriteString("SELECT coalesce(" + strings.Repeat("NULL, ", n) + x + ")")
	case "wide-values":
		b.WriteString("INSERT INTO t0 (a) VALUES " + strings.Repeat("(1), ", n) + "(" + x + ")")
	case "wide-case":
		b.WriteString("SELECT CASE")

		for i := 0; i < n; i++ {
			b.WriteString(" WHEN a = " + num(i) + " THEN " + num(i))
		}

		b.WriteString(" WHEN " + x + " THEN 1 END FROM t0")
	case "wide-orderby":
		b.WriteString("SELECT a FROM t0 ORDER BY " + strings.Repeat("a, ", n) + x)
	}

	return b.String()
}

// deepStatements: per (shape, level) `per` statements; the first of an expression shape sits in a
// plain SELECT (list or WHERE), the others in a position drawn at random.  The quick tier takes the
// 1000-level statements of every third shape only (which third depends on VERIF_SEED): the real code
// needs a good part of a second for one of them (Format indents quadratically).
func (g *c15Gen) deepStatements(per int) []string {
	var out []string

	seq := 0
	rot := g.r.Intn(3)
	skip := func(n, i int) bool { return !verifh.Thorough() && n >= 1000 && i%3 != rot }

	for _, n := range c15DeepLevels {
		for si, shape := range c15DeepExprShapes {
			if skip(n, si) {
				continue
			}

			for k := 0; k < per; k++ {
				tb := "secret"
				if k > 0 && g.p(40) {
					tb = g.pick(c15PlainTables)
				}

				which := seq % 2
				if k > 0 {
					which = g.r.Intn(14)
				}

				seq++
				out = append(out, g.deepCarry(which, g.deepExpr(shape, n, g.deepInner(tb))))
			}
		}

		for si, shape := range c15DeepStmtShapes {
			if skip(n, si) {
				continue
			}

			for k := 0; k < per; k++ {
				tb := "secret"
				if k > 0 && g.p(40) {
					tb = g.pick(c15PlainTables)
				}

				out = append(out, g.deepStmt(shape, n, tb))
			}
		}
	}

	return out
}

// ------------------------------------------------------------------ multi-statement @sql requests

var c15PlainTables = []string{"t0", "t1", "t2", "secret"}

// simple: one small DML / SELECT statement on table tb (valid against the fixed schema, so the
// end-to-end leg can really execute it), sometimes reading a second table.
func (g *c15Gen) simple(tb string) string {
	other := g.pick(c15PlainTables)
	n := strconv.Itoa(1 + g.r.Intn(5))

	where := ""
	if g.p(60) {
		where = " WHERE id " + g.pick([]string{"=", "<", ">=", "<>"}) + " " + n
	}

	switch g.r.Intn(11) {
	case 0, 1:
		return "INSERT INTO " + tb + " (a, b) VALUES (" + n + ", 's" + n + "')"
	case 2:
		return "INSERT INTO " + tb + " (a, b) SELECT a, b FROM " + other + where
	case 3, 4:
		return "UPDATE " + tb + " SET a = " + n + where
	case 5:
		return "UPDATE " + tb + " SET b = (SELECT max(x) FROM " + other + ")" + where
	case 6, 7:
		return "DELETE FROM " + tb + where
	case 8:
		return "DELETE FROM " + tb + " WHERE a IN (SELECT a FROM " + other + ")"
	case 9:
		return "SELECT a, b FROM " + tb + where
	default:
		return "SELECT count(*) FROM " + tb + " WHERE a IN (SELECT a FROM " + other + ")"
	}
}

// batchTexts: the 2–4 statements of one @sql request.  Most statements work on one focus table (so
// that the same table is inserted into, updated, deleted from and read by different statements of the
// request); the rest use other tables or come from the full statement generator (DDL included).
// executable = only plain statements on the plain tables, a SELECT only in last position.
func (g *c15Gen) batchTexts(executable bool) []string {
	k := 2 + g.r.Intn(3)
	tabs := c15PlainTables

	if !executable && g.p(30) {
		tabs = c15Tables
	}

	focus := g.pick(tabs)
	out := make([]string, 0, k)

	for len(out) < k {
		var s string

		switch r := g.r.Intn(100); {
		case r < 60:
			s = g.simple(focus)
		case r < 82 || executable:
			s = g.simple(g.pick(tabs))
		default:
			s = g.stmt()
		}

		if executable && len(out) < k-1 && strings.HasPrefix(s, "SELECT") {
			continue
		}

		out = append(out, s)
	}

	return out
}

// requests that run first: every ordered pair of write kinds on one table, the same table under two
// spellings, reads mixed in, DDL next to DML, three and four statements.
var c15BatchCorpus = [][]string{
	{`INSERT INTO t0 (a) VALUES (1)`, `DELETE FROM t0`},
	{`INSERT INTO t0 (a) VALUES (1)`, `UPDATE t0 SET a = 2`},
	{`UPDATE t0 SET a = 2`, `INSERT INTO t0 (a) VALUES (1)`},
	{`UPDATE t0 SET a = 2`, `DELETE FROM t0 WHERE id = 1`},
	{`DELETE FROM t0 WHERE id = 1`, `INSERT INTO t0 (a) VALUES (1)`},
	{`DELETE FROM t0 WHERE id = 1`, `UPDATE t0 SET a = 2`},
	{`INSERT INTO main.t1 (a) VALUES (1)`, `DELETE FROM t1`},
	{`INSERT INTO "Mixed Case" (a) VALUES (1)`, `UPDATE "Mixed Case" SET a = 2`, `DELETE FROM "Mixed Case"`},
	{`SELECT a FROM secret`, `SELECT a FROM secret WHERE id = 1`},
	{`INSERT INTO t0 (a) SELECT a FROM secret`, `DELETE FROM secret`},
	{`DELETE FROM t0 WHERE a IN (SELECT a FROM secret)`, `UPDATE secret SET a = 1`, `SELECT a FROM t0`},
	{`INSERT INTO t0 (a) VALUES (1)`, `INSERT INTO t1 (a) VALUES (1)`, `UPDATE t1 SET a = 2`, `DELETE FROM t0`},
	{`CREATE TABLE n0 (a INTEGER)`, `INSERT INTO n0 (a) VALUES (1)`, `DROP TABLE t0`},
	{`DROP INDEX idx0`, `DELETE FROM t0`},
	{`INSERT INTO t0 (a) VALUES (1)`, `SELECT * FROM t0; DROP TABLE secret`},
	{`BEGIN`, `INSERT INTO t0 (a) VALUES (1)`, `UPDATE t0 SET a = 3`, `COMMIT`},
	{`UPDATE t0 SET a = (SELECT max(x) FROM secret)`, `UPDATE secret SET a = (SELECT max(x) FROM t0)`},
}

// ------------------------------------------------------------------ SQLite EXPLAIN evidence

type c15Explain struct {
	db    *sql.DB
	roots map[int]string // root page → table name (indexes map to their table), main database
}

func c15OpenExplain(t *testing.T) *c15Explain {
	db, err := sql.Open("sqlite", ":memory:")
	if err != nil {
		t.Fatalf("open sqlite: %v", err)
	}

	db.SetMaxOpenConns(1)

	ddl := []string{}
	for _, tb := range []string{"t0", "t1", "t2", "t3", "secret", `"Mixed Case"`, "audit_log", `""`} {
		ddl = append(ddl, "CREATE TABLE "+tb+" (id INTEGER PRIMARY KEY, a, b, c, x, y)")
	}

	ddl = append(ddl, "CREATE INDEX idx0 ON t0 (a)", "CREATE INDEX idx1 ON t1 (b)", "CREATE INDEX idxs ON secret (x)",
		"CREATE VIEW v0 AS SELECT 1 AS id, 2 AS a, 3 AS b, 4 AS c, 5 AS x, 6 AS y")

	for _, q := range ddl {
		if _, err := db.Exec(q); err != nil {
			t.Fatalf("schema %q: %v", q, err)
		}
	}

	e := &c15Explain{db: db, roots: map[int]string{}}

	rows, err := db.Query("SELECT tbl_name, rootpage FROM sqlite_master WHERE rootpage > 0")
	if err != nil {
		t.Fatalf("sqlite_master: %v", err)
	}
	defer rows.Close()

	for rows.Next() {
		var (
			name string
			root int
		)

		if err := rows.Scan(&name, &root); err != nil {
			t.Fatal(err)
		}

		e.roots[root] = name
	}

	return e
}

// explain returns the tables the statement opens (lower-cased name → "r"/"w") and whether it writes
// the schema table; ok=false when SQLite does not compile the statement against the fixed schema.
func (e *c15Explain) explain(text string) (opened map[string]string, schemaWrite bool, ok bool) {
	rows, err := e.db.Query("EXPLAIN " + text)
	if err != nil {
		return nil, false, false
	}
	defer rows.Close()

	opened = map[string]string{}

	for rows.Next() {
		var (
			addr, p1, p2, p3 int
			opcode           string
			p4, p5, comment  sql.NullString
		)

		if err := rows.Scan(&addr, &opcode, &p1, &p2, &p3, &p4, &p5, &comment); err != nil {
			return nil, false, false
		}

		switch opcode {
		case "OpenRead", "OpenWrite":
			if flags, _ := strconv.Atoi(p5.String); flags&0x10 != 0 {
				continue // OPFLAG_P2ISREG: the root page is computed at run time (a table created by this statement)
			}

			if p2 == 1 {
				// root page 1 = sqlite_master / sqlite_temp_master
				if opcode == "OpenWrite" {
					schemaWrite = true
				}

				continue
			}

			if p3 != 0 {
				continue // temp database
			}

			if name, found := e.roots[p2]; found {
				name = strings.ToLower(name)
				if opcode == "OpenWrite" {
					opened[name] = "w"
				} else if opened[name] == "" {
					opened[name] = "r"
				}
			}
		case "Destroy", "DropTable", "DropIndex", "ParseSchema", "CreateBtree":
			schemaWrite = true
		}
	}

	if rows.Err() != nil {
		return nil, false, false
	}

	return opened, schemaWrite, true
}

// ------------------------------------------------------------------ the test

func TestVerifC15(t *testing.T) {
	cases := verifh.Out("c15_cases.jsonl")
	fails := verifh.Out("c15_failures.jsonl")
	stats := verifh.NewStats()

	defer func() {
		cases.Close()
		fails.Close()
		stats.Save("c15_stats.json")
	}()

	// ---- permission store (real table_perms resource on a scratch SQLite file)
	outDir := os.Getenv("VERIF_OUT")
	if outDir == "" {
		outDir = t.TempDir()
	}

	permsFile := filepath.Join(outDir, "c15_perms.db")
	for _, sfx := range []string{"", "-wal", "-shm"} {
		_ = os.Remove(permsFile + sfx)
	}

	h, err := resources.Open(PermissionsObject{}, "table_perms", "sqlite://"+permsFile)
	if err != nil {
		t.Fatalf("open perms: %v", err)
	}

	if err := h.CreateIf(); err != nil {
		t.Fatalf("create perms: %v", err)
	}

	_, _ = h.Database.Exec("PRAGMA synchronous=OFF")

	pHandle, pValid = h, true

	defer func() {
		pValid, pHandle = false, nil
		_ = h.Close()

		for _, sfx := range []string{"", "-wal", "-shm"} {
			_ = os.Remove(permsFile + sfx)
		}
	}()

	// ---- DSN service stub + interposed scripting.AuthorizedFunc
	realSvc, err := dsns.NewFileService("memory")
	if err != nil {
		t.Fatalf("dsn service: %v", err)
	}

	var trace []string

	stub := &c15DSN{c15DSNIface: realSvc, admin: map[string]bool{}, trace: &trace}
	oldSvc := dsns.DSNService
	dsns.DSNService = stub

	defer func() { dsns.DSNService = oldSvc }()

	var (
		txChecks  []string
		txProfile *c15Profile
	)

	oldAuth := scripting.AuthorizedFunc
	scripting.AuthorizedFunc = func(session *router.Session, user string, dsn string, table string, operations ...string) bool {
		tb := table
		ok := true

		for _, op := range operations {
			txChecks = append(txChecks, "T:"+verifh.Hex(tb)+":"+c15PermName[op])
			if !txProfile.grants[c15Grant{tb, op}] {
				ok = false
			}
		}

		return ok
	}

	defer func() { scripting.AuthorizedFunc = oldAuth }()

	// a profile is materialised once as a user with rows in the real table_perms store
	users := map[string]string{}
	userFor := func(p *c15Profile) string {
		k := p.key()
		if u, ok := users[k]; ok {
			return u
		}

		u := "u" + strconv.Itoa(c15UserSeq+len(users))
		users[k] = u

		byTable := map[string]*PermissionsObject{}

		for g := range p.grants {
			o := byTable[g.table]
			if o == nil {
				o = &PermissionsObject{ID: u + "-" + strconv.Itoa(len(byTable)), User: u, DSN: "d1", Table: g.table}
				byTable[g.table] = o
			}

			switch g.perm {
			case defs.TableReadPermission:
				o.Read = true
			case defs.TableWritePermission:
				o.Write = true
			case defs.TableUpdatePermission:
				o.Update = true
			case defs.TableDeletePermission:
				o.Delete = true
			}
		}

		for _, o := range byTable {
			if err := pHandle.Insert(o); err != nil {
				t.Fatalf("insert perms: %v", err)
			}
		}

		stub.admin[u] = p.dsnAdmin && p.viaDSN

		return u
	}

	session := func(p *c15Profile) *router.Session {
		perms := []string{defs.LogonPermission, defs.SQLPermission}
		if p.dsnAdmin && !p.viaDSN {
			perms = append(perms, defs.DSNAdminPermission)
		}

		return &router.Session{ID: 7, User: userFor(p), Admin: false, Permissions: perms, Language: "en",
			URLParts: map[string]any{"dsn": "d1"}}
	}

	ex := c15OpenExplain(t)
	defer ex.db.Close()

	reflTypes := map[reflect.Type]bool{}
	seen := map[string]bool{}
	deepRefs := map[string]bool{} // statements with a table reference more than 200 AST levels down
	maxRefLevel := 0
	explainMax := 0 // > 0: no EXPLAIN of texts longer than this (SQLite needs seconds to compile the longest deep statements)
	nontrivial := map[string]bool{}

	// deny messages of the @sql gate, to recover which check failed there
	denyMsg := func(table, perm string) string {
		return i18n.Text("en", "error.sql.perm.table", ui.A{"table": table, "permission": perm})
	}

	// whichCheck recovers, from the 403 body of the @sql gate, the check that failed
	whichCheck := func(rr *httptest.ResponseRecorder, cands []string) string {
		var resp defs.RestStatusResponse

		_ = json.Unmarshal(rr.Body.Bytes(), &resp)

		if resp.Message == denyMsg("", defs.DSNAdminPermission) {
			return "A"
		}

		for _, c := range cands {
			for _, pm := range append(append([]string{}, c15TablePerms...), defs.DSNAdminPermission) {
				if resp.Message == denyMsg(c, pm) {
					if pm == defs.DSNAdminPermission {
						return "A"
					}

					return "T:" + verifh.Hex(c) + ":" + c15PermName[pm]
				}
			}
		}

		return "?"
	}

	// runSQL: the real @sql gate.  Returns allow, the failing check ("" if none) and the trace shape.
	runSQL := func(p *c15Profile, dialect int, text string, cands []string) (bool, string, int) {
		trace = trace[:0]
		provider := defs.SqliteProvider

		if dialect == sqlparse.PostgreSQL {
			provider = defs.PostgresProvider
		}

		rr := httptest.NewRecorder()
		_, _, status := authorizeAndFormatStatements(session(p), &database.Database{DSN: "d1", Provider: provider}, []string{text}, rr)

		if status <= http.StatusOK {
			return true, "", status
		}

		return false, whichCheck(rr, cands), status
	}

	// runTx: the real @transaction "sql" gate; the exact sequence of checks is recorded.
	runTx := func(p *c15Profile, dialect int, text string) (bool, []string, int) {
		txChecks = txChecks[:0]
		txProfile = p
		provider := defs.SqliteProvider

		if dialect == sqlparse.PostgreSQL {
			provider = defs.PostgresProvider
		}

		s := session(p)
		_, _, status, err := scripting.VerifC15Authorize(&database.Database{DSN: "d1", Provider: provider, Session: s}, text)

		return err == nil && status <= http.StatusOK, append([]string{}, txChecks...), status
	}

	fullProfile := func(tables map[string]bool) *c15Profile {
		p := &c15Profile{grants: map[c15Grant]bool{}, dsnAdmin: true}
		for tb := range tables {
			for _, pm := range c15TablePerms {
				p.grants[c15Grant{tb, pm}] = true
			}
		}

		return p
	}

	// keep the real store small: the profiles of a statement / request are not needed again
	trimUsers := func() {
		if len(users) > 200 {
			if _, err := pHandle.Database.Exec("DELETE FROM table_perms"); err != nil {
				t.Fatalf("reset perms: %v", err)
			}

			for k := range users {
				delete(users, k)
			}

			for k := range stub.admin {
				delete(stub.admin, k)
			}

			c15UserSeq += 1000
		}
	}

	one := func(dialect int, text string) {
		key := strconv.Itoa(dialect) + "|" + text
		if seen[key] {
			stats.Inc("duplicate")

			return
		}

		seen[key] = true
		stats.Inc("statements")

		p, err := sqlparse.New(text, dialect)
		if err != nil {
			stats.Inc("parse_error")

			// a non-admin must be refused outright by both gates
			prof := fullProfile(map[string]bool{"t0": true, "secret": true})
			if ok, _, _ := runSQL(prof, dialect, text, nil); ok {
				fails.Write(verifh.Failure{Class: "unparsed-allowed", What: "@sql gate allowed a statement that does not parse", Input: key})
			}

			if ok, _, _ := runTx(prof, dialect, text); ok {
				fails.Write(verifh.Failure{Class: "unparsed-allowed", What: "@transaction gate allowed a statement that does not parse", Input: key})
			}

			return
		}

		stats.Inc("parsed")

		stmt := p.Statement()
		tname := reflect.TypeOf(stmt).Elem().Name()
		stats.Inc("kind:" + p.StatementKind().String())

		// ---- correspondence T: Tables() / StatementKind() vs the model on the reflection dump
		var b strings.Builder

		c15Dump(reflect.ValueOf(stmt), &b, reflTypes)
		tree := b.String()

		usages := p.Tables()
		us := make([]string, len(usages))
		modeCh := map[sqlparse.UsageMode]string{sqlparse.UsageRead: "r", sqlparse.UsageWrite: "w", sqlparse.UsageAdmin: "a"}

		for i, u := range usages {
			us[i] = verifh.Hex(u.Name) + ":" + modeCh[u.Usage]
		}

		ustr := "-"
		if len(us) > 0 {
			ustr = strings.Join(us, ",")
		}

		kindName := c15KindName[p.StatementKind()]

		cases.Write(verifh.Case{In: "T " + tree, Impl: kindName + " " + ustr, Desc: key})

		// ---- the oracle's needs (independent of Tables and of Children)
		needs, writePerm, ddl := c15Needs(stmt)

		var allRefs []c15Ref

		c15Walk(reflect.ValueOf(stmt), "", nil, 0, &allRefs)

		for _, r := range allRefs {
			if r.lvl > maxRefLevel {
				maxRefLevel = r.lvl
			}

			if r.lvl > 200 {
				deepRefs[key] = true
			}
		}

		rs := make([]string, len(allRefs))
		for i, r := range allRefs {
			rs[i] = verifh.Hex(r.name)
		}

		rstr := "-"
		if len(rs) > 0 {
			rstr = strings.Join(rs, ",")
		}

		cases.Write(verifh.Case{In: "W", Impl: "wt=1 refs=" + rstr})

		nested := false

		for _, r := range allRefs {
			if r.top != "Table" && r.top != "" && !(tname == "SelectStmt" && len(allRefs) == 1) {
				nested = true
			}
		}

		if nested || ddl {
			nontrivial[key] = true
		}

		// (a) Tables() must report every need with at least its mode
		rank := map[string]int{"r": 0, "w": 1, "a": 2}

		for _, n := range needs {
			found := false

			for _, u := range usages {
				if c15Base(u.Name) == n.table && rank[modeCh[u.Usage]] >= rank[n.mode] {
					found = true
				}
			}

			if !found {
				stats.Inc("fail:" + n.class)
				fails.Write(verifh.Failure{Class: n.class, What: "Tables() does not report a table the statement touches",
					Input: key, Got: ustr + " = " + fmt.Sprint(usages),
					Want: n.table + ":" + n.mode + " (the reference is " + strconv.Itoa(n.lvl) + " AST levels below the statement)"})
			}
		}

		// ---- SQLite EXPLAIN evidence (raw text is what @transaction executes, formatted what @sql executes)
		type evidence struct {
			opened map[string]string
			schema bool
		}

		var evs []evidence

		if dialect == sqlparse.SQLite {
			for _, txt := range []string{text, p.Format()} {
				if explainMax > 0 && len(txt) > explainMax {
					stats.Inc("explain_skipped_long")

					continue
				}

				if opened, sw, ok := ex.explain(txt); ok {
					evs = append(evs, evidence{opened, sw})
					stats.Inc("explained")
				} else {
					stats.Inc("explain_rejected")
				}
			}
		}

		// ---- grant profiles
		pool := map[string]bool{}
		for _, n := range needs {
			pool[n.table] = true
		}

		for _, u := range usages {
			pool[c15Base(u.Name)] = true
		}

		for _, ev := range evs {
			for tb := range ev.opened {
				pool[tb] = true
			}
		}

		var cands []string
		for tb := range pool {
			cands = append(cands, tb)
		}

		sort.Strings(cands)

		permFor := func(n c15Need) string {
			switch n.mode {
			case "r":
				return defs.TableReadPermission
			case "w":
				return writePerm
			}

			return ""
		}

		type run struct {
			prof     *c15Profile
			withheld *c15Need
		}

		runs := []run{{prof: fullProfile(pool)}}

		// withhold exactly one needed permission at a time
		done := map[string]bool{}

		for i := range needs {
			n := needs[i]
			k := n.table + "\x00" + n.mode

			if done[k] || len(runs) > 8 {
				continue
			}

			done[k] = true
			pr := fullProfile(pool)

			if n.mode == "a" {
				pr.dsnAdmin = false
			} else {
				delete(pr.grants, c15Grant{n.table, permFor(n)})
			}

			runs = append(runs, run{prof: pr, withheld: &needs[i]})
		}

		// one random profile
		rp := &c15Profile{grants: map[c15Grant]bool{}, dsnAdmin: c15Rng.Intn(3) > 0, viaDSN: c15Rng.Intn(2) == 0}

		for tb := range pool {
			for _, pm := range c15TablePerms {
				if c15Rng.Intn(100) < 80 {
					rp.grants[c15Grant{tb, pm}] = true
				}
			}
		}

		runs = append(runs, run{prof: rp})

		for ri, r := range runs {
			if ri == 0 {
				r.prof.viaDSN = c15Rng.Intn(2) == 0
			}

			for _, variant := range []string{"sql", "tx"} {
				stats.Inc("authz_runs")

				var (
					allowed bool
					impl    string
					checks  []string
				)

				if variant == "sql" {
					ok, failing, _ := runSQL(r.prof, dialect, text, cands)
					allowed = ok
					// shape: the ReadDSN / AuthDSN calls the real Authorized / authorizeStatement made
					impl = "allow"
					if !ok {
						impl = "deny " + failing
					}

					cases.Write(verifh.Case{In: "B sql " + r.prof.protocol(), Impl: impl})
				} else {
					ok, seq, _ := runTx(r.prof, dialect, text)
					allowed, checks = ok, seq
					impl = "allow"

					if !ok {
						impl = "deny"
					}

					s := "-"
					if len(seq) > 0 {
						s = strings.Join(seq, ",")
					}

					cases.Write(verifh.Case{In: "C tx " + r.prof.protocol(), Impl: impl + " " + s})
				}

				// (b) withheld permission ⇒ must be refused
				if r.withheld != nil && allowed {
					stats.Inc("fail:" + r.withheld.class)
					fails.Write(verifh.Failure{Class: r.withheld.class,
						What:  "statement allowed by the " + variant + " gate although a permission it needs was withheld",
						Input: key, Got: "allowed; Tables()=" + fmt.Sprint(usages),
						Want: "403 without " + r.withheld.mode + " on " + r.withheld.table +
							" (referenced " + strconv.Itoa(r.withheld.lvl) + " AST levels below the statement)"})
				}

				// (c) allowed ⇒ every need is held (random and full profiles)
				if allowed {
					for _, n := range needs {
						held := r.prof.dsnAdmin
						if n.mode != "a" {
							held = r.prof.grants[c15Grant{n.table, permFor(n)}]
						}

						if !held && r.withheld == nil {
							stats.Inc("fail:" + n.class)
							fails.Write(verifh.Failure{Class: n.class,
								What:  "statement allowed by the " + variant + " gate without a permission it needs",
								Input: key, Got: "allowed under " + r.prof.protocol(), Want: n.mode + " on " + n.table})
						}
					}
				}

				// (d) fully granted run of the tx gate: every table SQLite opens is among the recorded checks
				if ri == 0 && variant == "tx" && allowed {
					for _, ev := range evs {
						for tb, m := range ev.opened {
							found := false

							for _, c := range checks {
								parts := strings.Split(c, ":")
								if len(parts) == 3 && strings.EqualFold(verifh.UnHex(parts[1]), tb) {
									if m == "r" || parts[2] != "TableReadPermission" {
										found = true
									}
								}
							}
							// a DDL statement's own table is covered by the DSN-admin check
							if !found && ddl {
								for _, n := range needs {
									if n.mode == "a" && strings.EqualFold(n.table, tb) {
										found = true
									}
								}
							}

							if !found {
								stats.Inc("fail:explain-uncovered")
								fails.Write(verifh.Failure{Class: "explain-uncovered:" + tname,
									What:  "SQLite opens a table for which no permission check was made",
									Input: key, Got: strings.Join(checks, ","), Want: m + " on " + tb})
							}
						}

						if ev.schema && !ddl {
							fails.Write(verifh.Failure{Class: "explain-schema-write:" + tname,
								What: "SQLite writes the schema for a statement the oracle does not class as DDL", Input: key})
						}
					}
				}

				if ri == 0 && !allowed {
					stats.Inc("full_grant_denied")
				}
			}
		}

		if nested {
			stats.Sample(map[string]any{"sql": text, "tables": fmt.Sprint(usages)})
		}

		trimUsers()
	}

	// ------------------------------------------------------------ multi-statement @sql requests
	type c15Parsed struct {
		p         *sqlparse.Sqlparse
		needs     []c15Need
		writePerm string
	}

	// a requirement of a request: (table, permission) — perm "" = DSN-admin — with the first statement
	// that needs it
	type c15Req struct {
		table, perm string
		stmt        int
		need        c15Need
	}

	bModeCh := map[sqlparse.UsageMode]string{sqlparse.UsageRead: "r", sqlparse.UsageWrite: "w", sqlparse.UsageAdmin: "a"}

	usageStr := func(usages []sqlparse.TableUsage) string {
		if len(usages) == 0 {
			return "-"
		}

		us := make([]string, len(usages))
		for i, u := range usages {
			us[i] = verifh.Hex(u.Name) + ":" + bModeCh[u.Usage]
		}

		return strings.Join(us, ",")
	}

	permOf := func(ps c15Parsed, n c15Need) string {
		switch n.mode {
		case "r":
			return defs.TableReadPermission
		case "w":
			return ps.writePerm
		}

		return ""
	}

	// parseBatch: every statement parsed with its needs, or ok=false
	parseBatch := func(dialect int, texts []string) (out []c15Parsed, reqs []c15Req, pool map[string]bool, ok bool) {
		pool = map[string]bool{}
		have := map[string]bool{}

		for i, tx := range texts {
			p, err := sqlparse.New(tx, dialect)
			if err != nil {
				return nil, nil, nil, false
			}

			needs, writePerm, _ := c15Needs(p.Statement())
			ps := c15Parsed{p: p, needs: needs, writePerm: writePerm}
			out = append(out, ps)

			for _, n := range needs {
				pool[n.table] = true
				r := c15Req{table: n.table, perm: permOf(ps, n), stmt: i, need: n}

				if r.perm == "" {
					r.table = ""
				}

				if k := r.table + "\x00" + r.perm; !have[k] {
					have[k] = true
					reqs = append(reqs, r)
				}
			}

			for _, u := range p.Tables() {
				pool[c15Base(u.Name)] = true
			}
		}

		return out, reqs, pool, true
	}

	without := func(pool map[string]bool, r c15Req) *c15Profile {
		pr := fullProfile(pool)
		pr.viaDSN = c15Rng.Intn(2) == 0

		if r.perm == "" {
			pr.dsnAdmin = false
		} else {
			delete(pr.grants, c15Grant{r.table, r.perm})
		}

		return pr
	}

	reqText := func(r c15Req) string {
		if r.perm == "" {
			return "DSN-admin"
		}

		return c15PermName[r.perm] + " on " + r.table
	}

	// runBatch: the real @sql gate on the whole request.  Returns allow, the failing check, the number
	// of table-permission lookups (Authorized() reads the DSN exactly once per call) and whether a
	// refused request still returned statements to execute.
	runBatch := func(p *c15Profile, dialect int, texts []string, cands []string) (bool, string, int, bool) {
		provider := defs.SqliteProvider

		if dialect == sqlparse.PostgreSQL {
			provider = defs.PostgresProvider
		}

		s := session(p)
		rr := httptest.NewRecorder()
		trace = trace[:0]
		formatted, kinds, status := authorizeAndFormatStatements(s, &database.Database{DSN: "d1", Provider: provider},
			append([]string{}, texts...), rr)

		lookups := 0

		for _, e := range trace {
			if e == "R" {
				lookups++
			}
		}

		if status <= http.StatusOK {
			return true, "", lookups, false
		}

		return false, whichCheck(rr, cands), lookups, formatted != nil || kinds != nil
	}

	batchKey := func(dialect int, texts []string) string {
		js, _ := json.Marshal(texts)

		return "batch " + strconv.Itoa(dialect) + " " + string(js)
	}

	nontrivialBatch := map[string]bool{}

	var batchSamples []any // the 8 slots of stats.Sample are taken by single statements

	batch := func(dialect int, texts []string) {
		key := batchKey(dialect, texts)
		if seen[key] {
			stats.Inc("batch_duplicate")

			return
		}

		seen[key] = true
		stats.Inc("batches")

		parsed, reqs, pool, ok := parseBatch(dialect, texts)
		if !ok {
			stats.Inc("batch_parse_error")

			// one statement does not parse: a non-admin's request must be refused as a whole
			prof := fullProfile(map[string]bool{"t0": true, "t1": true, "t2": true, "secret": true})
			if allowed, _, _, _ := runBatch(prof, dialect, texts, nil); allowed {
				fails.Write(verifh.Failure{Class: "unparsed-allowed",
					What: "@sql gate allowed a multi-statement request one statement of which does not parse", Input: key})
			}

			return
		}

		// ---- correspondence M: kind + Tables() of every statement vs the model on the reflection dumps
		var (
			b     strings.Builder
			impls []string
		)

		b.WriteString("M " + strconv.Itoa(len(parsed)))

		for _, ps := range parsed {
			b.WriteByte(' ')
			c15Dump(reflect.ValueOf(ps.p.Statement()), &b, reflTypes)
			impls = append(impls, c15KindName[ps.p.StatementKind()]+" "+usageStr(ps.p.Tables()))
		}

		cases.Write(verifh.Case{In: b.String(), Impl: strings.Join(impls, "|"), Desc: key})

		// non-trivial: some table is needed under two different permissions by the statements of the request
		permsOf := map[string]map[string]bool{}

		for _, r := range reqs {
			if permsOf[r.table] == nil {
				permsOf[r.table] = map[string]bool{}
			}

			permsOf[r.table][r.perm] = true
		}

		for _, m := range permsOf {
			if len(m) > 1 {
				nontrivialBatch[key] = true
			}
		}

		var cands []string
		for tb := range pool {
			cands = append(cands, tb)
		}

		sort.Strings(cands)

		type run struct {
			prof     *c15Profile
			withheld *c15Req
		}

		full := fullProfile(pool)
		full.viaDSN = c15Rng.Intn(2) == 0
		runs := []run{{prof: full}}

		// withhold exactly one (table, permission) that some statement of the request needs
		for i := range reqs {
			if len(runs) > 12 {
				break
			}

			runs = append(runs, run{prof: without(pool, reqs[i]), withheld: &reqs[i]})
		}

		// two random grant sets
		for _, pct := range []int{80, 94} {
			rp := &c15Profile{grants: map[c15Grant]bool{}, dsnAdmin: c15Rng.Intn(4) > 0, viaDSN: c15Rng.Intn(2) == 0}

			for _, tb := range cands {
				for _, pm := range c15TablePerms {
					if c15Rng.Intn(100) < pct {
						rp.grants[c15Grant{tb, pm}] = true
					}
				}
			}

			runs = append(runs, run{prof: rp})
		}

		for ri, r := range runs {
			stats.Inc("batch_authz_runs")

			allowed, failing, lookups, leaked := runBatch(r.prof, dialect, texts, cands)
			impl := "allow " + strconv.Itoa(lookups)

			if !allowed {
				impl = "deny " + failing + " " + strconv.Itoa(lookups)
			}

			cases.Write(verifh.Case{In: "D " + r.prof.protocol(), Impl: impl})

			if allowed {
				stats.Inc("batch_allowed")
			}

			if leaked {
				fails.Write(verifh.Failure{Class: "batch-refused-but-returned",
					What: "the @sql gate refused the request but returned statements to execute", Input: key,
					Got: "under " + r.prof.protocol()})
			}

			// (b) one needed permission withheld ⇒ the whole request must be refused
			if r.withheld != nil && allowed {
				w := r.withheld
				stats.Inc("fail:batch:" + w.need.class)
				fails.Write(verifh.Failure{Class: "batch:" + w.need.class,
					What:  "multi-statement @sql request allowed although a permission one of its statements needs was withheld",
					Input: key,
					Got:   "allowed (every other permission on " + strings.Join(cands, ",") + " granted)",
					Want:  "403 without " + reqText(*w) + ", needed by statement #" + strconv.Itoa(w.stmt) + ": " + texts[w.stmt]})
			}

			// (c) allowed ⇒ every need of every statement is held (full and random grant sets)
			if allowed && r.withheld == nil {
				for si, ps := range parsed {
					for _, n := range ps.needs {
						held := r.prof.dsnAdmin
						if n.mode != "a" {
							held = r.prof.grants[c15Grant{n.table, permOf(ps, n)}]
						}

						if !held {
							stats.Inc("fail:batch:" + n.class)
							fails.Write(verifh.Failure{Class: "batch:" + n.class,
								What:  "multi-statement @sql request allowed without a permission one of its statements needs",
								Input: key, Got: "allowed under " + r.prof.protocol(),
								Want: reqText(c15Req{table: n.table, perm: permOf(ps, n)}) + " for statement #" + strconv.Itoa(si) + ": " + texts[si]})
						}
					}
				}
			}

			if ri == 0 && !allowed {
				stats.Inc("batch_full_grant_denied")
			}
		}

		if nontrivialBatch[key] && len(nontrivialBatch)%40 == 1 && len(batchSamples) < 4 {
			batchSamples = append(batchSamples, map[string]any{"batch": texts, "dialect": dialect})
		}

		trimUsers()
	}

	// ---- end to end: the same oracle through the real SQLTransaction handler on a real SQLite database
	shm := outDir
	if st, err := os.Stat("/dev/shm"); err == nil && st.IsDir() {
		if d, err := os.MkdirTemp("/dev/shm", "verif-c15-"); err == nil {
			shm = d

			defer os.RemoveAll(d)
		}
	}

	dataFile := filepath.Join(shm, "c15_data.db")
	for _, sfx := range []string{"", "-wal", "-shm"} {
		_ = os.Remove(dataFile + sfx)
	}

	obs, err := sql.Open("sqlite", dataFile)
	if err != nil {
		t.Fatalf("open data db: %v", err)
	}

	obs.SetMaxOpenConns(1)

	defer func() {
		_ = obs.Close()

		for _, sfx := range []string{"", "-wal", "-shm"} {
			_ = os.Remove(dataFile + sfx)
		}
	}()

	for _, q := range []string{"PRAGMA journal_mode=WAL", "PRAGMA synchronous=OFF", "PRAGMA busy_timeout=5000"} {
		if _, err := obs.Exec(q); err != nil {
			t.Fatalf("data db %q: %v", q, err)
		}
	}

	for _, tb := range c15PlainTables {
		if _, err := obs.Exec("CREATE TABLE " + tb + " (id INTEGER PRIMARY KEY, a, b, c, x, y)"); err != nil {
			t.Fatalf("data db create %s: %v", tb, err)
		}
	}

	resetData := func() {
		tx, err := obs.Begin()
		if err != nil {
			t.Fatalf("data db begin: %v", err)
		}

		for _, tb := range c15PlainTables {
			if _, err := tx.Exec("DELETE FROM " + tb); err != nil {
				t.Fatalf("data db reset %s: %v", tb, err)
			}

			if _, err := tx.Exec("INSERT INTO " + tb + " (id, a, b, c, x, y) VALUES (1, 1, 's1', 0, 10, 0), (2, 2, 's2', 0, 20, 0), (3, 3, 's3', 0, 30, 0)"); err != nil {
				t.Fatalf("data db fill %s: %v", tb, err)
			}
		}

		if err := tx.Commit(); err != nil {
			t.Fatalf("data db commit: %v", err)
		}
	}

	snapshot := func() string {
		var b strings.Builder

		for _, q := range append([]string{"SELECT name, 0, 0, 0, 0, 0 FROM sqlite_master ORDER BY name"}, c15PlainTables...) {
			if !strings.HasPrefix(q, "SELECT") {
				b.WriteString("[" + q + "]")
				q = "SELECT id, a, b, c, x, y FROM " + q + " ORDER BY id"
			}

			rows, err := obs.Query(q)
			if err != nil {
				t.Fatalf("data db snapshot %q: %v", q, err)
			}

			for rows.Next() {
				var v [6]sql.NullString

				if err := rows.Scan(&v[0], &v[1], &v[2], &v[3], &v[4], &v[5]); err != nil {
					t.Fatalf("data db scan: %v", err)
				}

				for _, x := range v {
					b.WriteString(x.String + ",")
				}

				b.WriteByte(';')
			}

			_ = rows.Close()
		}

		return b.String()
	}

	post := func(p *c15Profile, texts []string, asText bool) int {
		var body []byte

		if asText {
			body, _ = json.Marshal(strings.Join(texts, ";\n"))
		} else {
			body, _ = json.Marshal(texts)
		}

		req := httptest.NewRequest(http.MethodPost, "/dsns/d1/tables/@sql", strings.NewReader(string(body)))
		rr := httptest.NewRecorder()

		return SQLTransaction(session(p), rr, req)
	}

	e2e := func(texts []string, asText bool) {
		key := batchKey(sqlparse.SQLite, texts)

		_, reqs, pool, ok := parseBatch(sqlparse.SQLite, texts)
		if !ok {
			return
		}

		stats.Inc("e2e_batches")

		stub.e2e, stub.dbfile = true, dataFile

		defer func() { stub.e2e, stub.dbfile = false, "" }()

		for i := range reqs {
			if i >= 6 {
				break
			}

			resetData()

			before := snapshot()
			status := post(without(pool, reqs[i]), texts, asText)
			after := snapshot()

			stats.Inc("e2e_withheld_runs")

			if status != http.StatusForbidden || before != after {
				w := reqs[i]
				got := "status " + strconv.Itoa(status)

				if before != after {
					got += "; the tables changed: before " + before + " after " + after
				}

				stats.Inc("fail:batch-e2e:" + w.need.class)
				fails.Write(verifh.Failure{Class: "batch-e2e:" + w.need.class,
					What:  "POST @sql (SQLTransaction) with several statements was not refused, or executed something, although a permission one statement needs was withheld",
					Input: key, Got: got,
					Want: "403 and no change without " + reqText(w) + ", needed by statement #" + strconv.Itoa(w.stmt) + ": " + texts[w.stmt]})
			}
		}

		// with everything granted the request really runs (the refusals above are not vacuous)
		resetData()

		before := snapshot()
		status := post(fullProfile(pool), texts, asText)

		if status == http.StatusOK {
			stats.Inc("e2e_executed")

			if snapshot() != before {
				stats.Inc("e2e_executed_changed_data")
			}
		} else {
			stats.Inc("e2e_full_grant_status_" + strconv.Itoa(status))
		}

		trimUsers()
	}

	// ---- replay, corpus, generated, hostile
	if rp := verifh.ReplayInput(); len(rp) > 0 {
		var v struct {
			Failures []struct {
				Input string `json:"input"`
			} `json:"failures"`
		}

		if json.Unmarshal(rp, &v) == nil {
			for _, f := range v.Failures {
				if rest, ok := strings.CutPrefix(f.Input, "batch "); ok {
					var texts []string

					if i := strings.Index(rest, " "); i > 0 && json.Unmarshal([]byte(rest[i+1:]), &texts) == nil {
						d, _ := strconv.Atoi(rest[:i])
						batch(d, texts)
					}

					continue
				}

				if i := strings.Index(f.Input, "|"); i > 0 {
					d, _ := strconv.Atoi(f.Input[:i])
					one(d, f.Input[i+1:])
				}
			}
		}
	}

	for _, q := range c15Corpus {
		if strings.HasPrefix(q, "PG:") {
			one(sqlparse.PostgreSQL, q[3:])

			continue
		}

		one(sqlparse.SQLite, q)
		one(sqlparse.PostgreSQL, q)
	}

	// ---- deep and wide statements: both gates on every one; a part end to end below
	gd := &c15Gen{r: verifh.Rand(1517)}
	explainMax = verifh.N(2500, 12000)

	var deepE2E []string

	for i, q := range gd.deepStatements(verifh.N(1, 3)) {
		before := stats.M["parsed"]
		dialect := sqlparse.SQLite

		if i%5 == 4 {
			dialect = sqlparse.PostgreSQL
		}

		stats.Inc("deep_statements")
		one(dialect, q)

		if stats.M["parsed"] > before {
			stats.Inc("deep_parsed")

			if dialect == sqlparse.SQLite && strings.HasPrefix(q, "SELECT") && len(deepE2E) < verifh.N(6, 40) && i%7 == 0 {
				deepE2E = append(deepE2E, q)
			}
		}
	}

	explainMax = 0

	n := verifh.N(3000, 24000)
	g := &c15Gen{r: verifh.Rand(15)}

	for i := 0; i < n; i++ {
		g.pg = g.r.Intn(3) == 0
		dialect := sqlparse.SQLite

		if g.pg {
			dialect = sqlparse.PostgreSQL
		}

		if i%12 == 11 {
			one(dialect, g.hostile())
		} else {
			one(dialect, g.stmt())
		}
	}

	// ---- multi-statement requests: fixed corpus, generated (both dialects), end to end
	for _, texts := range c15BatchCorpus {
		batch(sqlparse.SQLite, texts)
		batch(sqlparse.PostgreSQL, texts)
	}

	gb := &c15Gen{r: verifh.Rand(1516)}

	for i, nb := 0, verifh.N(400, 4000); i < nb; i++ {
		gb.pg = gb.r.Intn(3) == 0
		dialect := sqlparse.SQLite

		if gb.pg {
			dialect = sqlparse.PostgreSQL
		}

		batch(dialect, gb.batchTexts(false))
	}

	for i, ne := 0, verifh.N(30, 250); i < ne; i++ {
		gb.pg = false

		e2e(gb.batchTexts(true), i%2 == 1)
	}

	for i, q := range deepE2E {
		stats.Inc("deep_e2e")
		e2e([]string{q}, i%2 == 1)
	}

	stats.Add("batch_distinct_nontrivial", len(nontrivialBatch))

	bw := verifh.Out("c15_batch_samples.json")
	bw.Write(batchSamples)
	bw.Close()

	// ---- the reflection-derived schema, for the cross-check against the translator
	type rf struct {
		Name string `json:"name"`
		Elem string `json:"elem"`
	}

	type rs struct {
		Ty         string   `json:"ty"`
		NodeFields []rf     `json:"nodeFields"`
		StrFields  []string `json:"strFields"`
	}

	var schema []rs

	for ty := range reflTypes {
		e := rs{Ty: ty.Name(), NodeFields: []rf{}, StrFields: []string{}}

		for _, f := range c15Fields(ty) {
			if f.isStr {
				e.StrFields = append(e.StrFields, f.name)
			} else {
				e.NodeFields = append(e.NodeFields, rf{f.name, f.elem})
			}
		}

		schema = append(schema, e)
	}

	sort.Slice(schema, func(i, j int) bool { return schema[i].Ty < schema[j].Ty })

	w := verifh.Out("c15_reflect_schema.json")
	w.Write(schema)
	w.Close()

	stats.Add("distinct_nontrivial", len(nontrivial))
	stats.Add("deep_distinct_over_200_levels", len(deepRefs))
	stats.Add("max_reference_level", maxRefLevel)
	stats.Add("node_types_seen", len(reflTypes))
}

var c15Rng = verifh.Rand(1515)

var c15UserSeq int

var c15KindName = map[sqlparse.StatementKind]string{
	sqlparse.StmtUnknown: "StmtUnknown", sqlparse.StmtSelect: "StmtSelect", sqlparse.StmtInsert: "StmtInsert",
	sqlparse.StmtUpdate: "StmtUpdate", sqlparse.StmtDelete: "StmtDelete", sqlparse.StmtCreateTable: "StmtCreateTable",
	sqlparse.StmtDropTable: "StmtDropTable", sqlparse.StmtAlterTable: "StmtAlterTable",
	sqlparse.StmtCreateIndex: "StmtCreateIndex", sqlparse.StmtDropIndex: "StmtDropIndex",
	sqlparse.StmtCreateView: "StmtCreateView", sqlparse.StmtDropView: "StmtDropView", sqlparse.StmtBegin: "StmtBegin",
	sqlparse.StmtCommit: "StmtCommit", sqlparse.StmtRollback: "StmtRollback", sqlparse.StmtSavepoint: "StmtSavepoint",
	sqlparse.StmtRelease: "StmtRelease",
}
