//go:build verif

package tables

import (
	"fmt"
	"sort"
	"strings"

	"github.com/tucats/ego/internal/verifh"
)

// qLookup reads the records of one key through the real resources filters (as Authorized does) and compares
// them with the raw dump restricted to exactly that key.
func (e *c43Env) qLookup(u, d, t string) {
	items, err := pHandle.Read(pHandle.Equals("dsn", d), pHandle.Equals("table", t), pHandle.Equals("user", u))
	impl := "err"

	if err == nil {
		fl := []string{}

		for _, it := range items {
			p := it.(*PermissionsObject)
			fl = append(fl, c43Set{p.Admin, p.Read, p.Write, p.Update, p.Delete}.flags())

			if p.User != u || p.DSN != d || p.Table != t {
				e.fail("filter-cross", fmt.Sprintf("filters (user=%q, dsn=%q, table=%q) returned the record of (%q, %q, %q)",
					u, d, t, p.User, p.DSN, p.Table), "", "")
			}
		}

		sort.Strings(fl)
		impl = fmt.Sprintf("%d:%s", len(items), strings.Join(fl, ","))
	}

	in := fmt.Sprintf("L %s %s %s", verifh.Hex(u), verifh.Hex(d), verifh.Hex(t))
	e.emit(in, impl)

	want := []string{}
	for _, p := range c43Dump(e.t)[c43Key{u, d, t}] {
		want = append(want, p.flags())
	}

	sort.Strings(want)

	if w := fmt.Sprintf("%d:%s", len(want), strings.Join(want, ",")); w != impl {
		e.fail("filter-read", fmt.Sprintf("filtered read of (user=%q, dsn=%q, table=%q) differs from the raw table content", u, d, t), impl, w)
	}
}

// corpus: fixed nasty histories that run first
func (e *c43Env) corpus() {
	rd, wr, ad := []string{"ego.table.read"}, []string{"ego.table.write"}, []string{"ego.table.admin"}

	// 1. the dot twins: a grant on (dsn a, table b.c) against a request for (dsn a.b, table c) and back
	e.reset()
	e.opWriteDSN("a", true)
	e.opWriteDSN("a.b", true)
	e.opGrant("alice", "a", "b.c", rd)
	e.qAuth("alice", false, "alice", "a.b", "c", rd)
	e.qAuth("alice", false, "alice", "a", "b.c", rd)
	e.opGrantDSN("alice", "a.b", 1, true)
	e.qRow("alice", false, 0, 'r', "a.b", "c")
	e.opGrant("bob", "a.b", "c", []string{"ego.table.read", "ego.table.delete"})
	e.qAuth("bob", false, "bob", "a.b", "c", rd)
	e.qAuth("bob", false, "bob", "a", "b.c", rd)
	e.opGrantDSN("bob", "a.b", 3, true)
	e.qRow("bob", false, 0, 'r', "a.b", "c")
	e.qRow("bob", false, 0, 'd', "a.b", "c")
	e.qRow("bob", false, 0, 'u', "a.b", "c")

	// 2. an unrestricted DSN "a" must not open the restricted DSN "a.b"
	e.reset()
	e.opWriteDSN("a", false)
	e.opWriteDSN("a.b", true)
	e.qAuth("bob", false, "bob", "a.b", "c", rd)
	e.opGrantDSN("bob", "a.b", 3, true)
	e.qRow("bob", false, 0, 'r', "a.b", "c")
	e.qRow("bob", false, 0, 'i', "a.b", "c")

	// 3. the pipe twins in the file DSN service: user "a|b" on "c" against user "a" on "b|c"
	e.reset()
	e.opWriteDSN("c", true)
	e.opWriteDSN("b|c", true)
	e.opGrantDSN("a|b", "c", 3, true)
	e.qAuthDSN("a|b", "c", 1)
	e.qAuthDSN("a", "b|c", 1)
	e.qAuthDSN("a", "c", 1)

	// 4. DSN-level grants are dropped with the DSN
	e.reset()
	e.opWriteDSN("c", true)
	e.opGrantDSN("a|b", "c", 3, true)
	e.opGrantDSN("bob", "c", 3, true)
	e.qAuthDSN("bob", "c", 8)
	e.qAuthDSN("bob", "c", 2)
	e.opGrantDSN("bob", "c", 2, false)
	e.qAuthDSN("bob", "c", 2)
	e.qAuthDSN("bob", "c", 1)
	e.qAuthDSN("bob", "c", 3)
	e.qAuthDSN("Bob", "c", 1)
	e.qAuthDSN("bob", "C", 1)
	e.qRow("bob", false, 0, 'r', "c", "t")
	e.qRow("bob", false, 0, 'i', "c", "t")
	e.opGrant("bob", "c", "t", []string{"ego.table.read", "ego.table.write"})
	e.qRow("bob", false, 0, 'r', "c", "t")
	e.qRow("bob", false, 0, 'i', "c", "t")
	e.qRow("bob", false, 2, 'i', "c", "t")
	e.qRow("bob", true, 0, 'd', "c", "t")
	e.qRow("bob", false, 8, 'd', "c", "t")
	e.opDeleteDSN("c")
	e.opWriteDSN("c", true)
	e.qAuthDSN("bob", "c", 1)
	e.qAuthDSN("a|b", "c", 1)

	// 5. duplicated records (table created for a key that already has a grant)
	e.reset()
	e.opWriteDSN("d1", true)
	e.opGrant("alice", "d1", "t", rd)
	e.opCreate("alice", "d1", "t")
	e.qAuth("alice", false, "alice", "d1", "t", rd)
	e.opGrant("alice", "d1", "t", wr)
	e.qLookup("alice", "d1", "t")
	e.opRevoke("d1", "t", "alice")
	e.qAuth("alice", false, "alice", "d1", "t", rd)

	// 6. case variants, operations, admin sessions, acting for another user
	e.reset()
	e.opWriteDSN("d1", true)
	e.opWriteDSN("D1", true)
	e.opGrant("alice", "d1", "t", []string{"ego.table.read", "+EGO.TABLE.UPDATE"})

	for _, q := range [][3]string{{"alice", "d1", "t"}, {"Alice", "d1", "t"}, {"alice", "D1", "t"}, {"alice", "d1", "T"}, {"alice", "d1", ""}, {"", "d1", "t"}, {"alice", "", "t"}} {
		e.qAuth(q[0], false, q[0], q[1], q[2], rd)
		e.qAuth(q[0], false, q[0], q[1], q[2], []string{"EGO.TABLE.UPDATE"})
		e.qAuth(q[0], false, q[0], q[1], q[2], wr)
	}

	e.qAuth("bob", true, "bob", "d1", "t", wr)
	e.qAuth("bob", true, "alice", "d1", "t", wr)
	e.qAuth("bob", true, "alice", "d1", "t", rd)
	e.qAuth("alice", false, "alice", "d1", "t", []string{"ego.table.read", "ego.table.write"})
	e.qAuth("alice", false, "alice", "d1", "t", []string{})
	e.qAuth("alice", false, "alice", "d1", "t", []string{"bogus"})
	e.opGrant("alice", "d1", "t", []string{"-ego.table.read", "ego.table.admin"})
	e.qAuth("alice", false, "alice", "d1", "t", rd)
	e.opGrant("alice", "d1", "t", []string{"-ego.table.admin"})
	e.qAuth("alice", false, "alice", "d1", "t", rd)
	e.qAuth("alice", false, "alice", "d1", "t", ad)

	// 7. revokes: by user, by table, everything; quoted names
	e.reset()
	e.opWriteDSN("d1", true)
	e.opWriteDSN("'d1'", true)
	e.opGrant("alice", "d1", "t", rd)
	e.opGrant("bob", "d1", "t", rd)
	e.opGrant("alice", "'d1'", "t", rd)
	e.opGrant("'bob'", "d1", "t", rd)
	e.opRevoke("'d1'", "t", "alice")
	e.qAuth("alice", false, "alice", "d1", "t", rd)
	e.qAuth("alice", false, "alice", "'d1'", "t", rd)
	e.opRevoke("d1", "t", "'bob'")
	e.qAuth("bob", false, "bob", "d1", "t", rd)
	e.qAuth("'bob'", false, "'bob'", "d1", "t", rd)
	e.opRevoke("d;1", "t", "")
	// a name that SQLEscape reduces to "" still filters (on the empty string), it does not drop the filter
	e.opGrant("alice", "", "t", rd)
	e.opGrant("", "d1", "t", rd)
	e.opRevoke("'", "t", "")
	e.qLookup("alice", "", "t")
	e.qLookup("bob", "d1", "t")
	e.opRevoke("d1", "t", "''")
	e.qLookup("", "d1", "t")
	e.qLookup("bob", "d1", "t")
	e.opGrant("alice", "", "t", rd)
	e.opRemoveTable("\"\"", "t")
	e.qLookup("alice", "", "t")
	e.qLookup("bob", "d1", "t")
	e.opRevoke("@all", "", "")
	e.qLookup("'bob'", "d1", "t")

	// 8. malformed permission lists leave an empty record behind
	e.reset()
	e.opWriteDSN("d1", true)
	e.opGrant("alice", "d1", "t", []string{"read"})
	e.qLookup("alice", "d1", "t")
	e.opGrant("alice", "d1", "t", []string{" ego.table.read"})
	e.opGrant("alice", "d1", "t", []string{"ego.table.read", "-ego.table.read"})
	e.qAuth("alice", false, "alice", "d1", "t", rd)
	e.opGrant("alice", "d1", "t", []string{"+ego.table.read", "-ego.table.read"})
	e.qAuth("alice", false, "alice", "d1", "t", rd)
	e.opRemoveTable("d1", "t")
	e.opRemoveTable("d1", "t")
	e.opCreate("alice", "d1", "t")
	e.opDeleteByDSN("d1")
	e.qAuth("alice", false, "alice", "d1", "t", rd)

	// 9. a DSN created unrestricted, used (so every reader has seen the unrestricted record), then restricted
	//    implicitly by its first DSN-level grant: from then on DSN-level and table grants are enforced
	e.reset()
	e.opWriteDSN("d1", false)
	e.qRow("bob", false, 0, 'r', "d1", "t")
	e.qAuthDSN("carol", "d1", 1)
	e.qAuth("carol", false, "carol", "d1", "t", rd)
	e.opGrantDSN("bob", "d1", 3, true)
	e.qAuthDSN("bob", "d1", 1)
	e.qAuthDSN("carol", "d1", 1)
	e.qAuth("bob", false, "bob", "d1", "t", rd)
	e.qRow("bob", false, 0, 'r', "d1", "t")
	e.qRow("carol", false, 0, 'r', "d1", "t")
	e.qRow("carol", false, 3, 'r', "d1", "t")
	e.opGrantDSN("carol", "d1", 3, true)
	e.opGrant("bob", "d1", "t", rd)
	e.qRow("bob", false, 0, 'r', "d1", "t")
	e.qRow("bob", false, 0, 'i', "d1", "t")
	e.qRow("carol", false, 0, 'r', "d1", "t")
	e.qRow("carol", false, 0, 'd', "d1", "t")
	e.qRow("dave", false, 8, 'u', "d1", "t")
	e.qRow("dave", true, 0, 'u', "d1", "t")

	// 10. restricted -> unrestricted by an explicit write, and back by a grant; a deleted and re-created DSN
	e.reset()
	e.opWriteDSN("d1", true)
	e.qRow("bob", false, 0, 'r', "d1", "t")
	e.opWriteDSN("d1", false)
	e.qRow("bob", false, 0, 'r', "d1", "t")
	e.opGrantDSN("bob", "d1", 1, false)
	e.qRow("bob", false, 0, 'r', "d1", "t")
	e.qRow("bob", false, 1, 'r', "d1", "t")
	e.opDeleteDSN("d1")
	e.qRow("bob", false, 1, 'r', "d1", "t")
	e.opWriteDSN("d1", false)
	e.qRow("bob", false, 0, 'r', "d1", "t")
	e.qAuthDSN("bob", "d1", 1)
	e.opGrantDSN("alice", "d1", 3, true)
	e.qAuthDSN("bob", "d1", 1)
	e.qRow("bob", false, 0, 'r', "d1", "t")
}
