//go:build verif

package tables

// C43 — the same histories against the DATABASE-backed DSN service (internal/dsns/dsn_sqldb.go) on SQLite.
//
// The database service keeps the DSN records in table "dsns", the DSN-level grants in table "dsns_auth", and
// serves every ReadDSN (database.Open, AuthDSN, GrantDSN, tables.Authorized) through caches.DSNCache.  The oracle
// does not know about the cache: it is the harness's own record of the DSNs it wrote and the grants it made,
// cross-checked after every DSN operation with a raw SQL dump of the two tables (so "restricted" in the oracle IS
// what the store records), plus the rule that a DSN the store records as restricted enforces DSN-level and table
// grants for non-administrators.

import (
	"database/sql"
	"fmt"
	"math/rand"
	"sort"
	"strings"

	"github.com/tucats/ego/internal/caches"
	"github.com/tucats/ego/internal/dsns"
	"github.com/tucats/ego/internal/verifh"
)

// openDBService creates the database DSN service once per run; histories share it (a SQLite open costs more
// than a history) and start from empty tables and an empty DSN cache.
func (e *c43Env) openDBService(file string) {
	svc, err := dsns.NewDatabaseService("sqlite://" + file)
	if err != nil {
		e.t.Fatalf("database DSN service: %v", err)
	}

	e.useDB = func() { dsns.DSNService = svc }
	e.closeDB = func() { _ = svc.Close() }

	raw, err := sql.Open("sqlite", file)
	if err != nil {
		e.t.Fatalf("raw connection to the DSN store: %v", err)
	}

	_, _ = raw.Exec("PRAGMA busy_timeout=5000;")
	e.dsnRaw = raw
}

func (e *c43Env) resetDB() {
	e.useDB()

	for _, table := range []string{"dsns", "dsns_auth"} {
		if _, err := e.dsnRaw.Exec(`DELETE FROM "` + table + `"`); err != nil {
			e.t.Fatalf("clear %s: %v", table, err)
		}
	}

	caches.Purge(caches.DSNCache)
}

// syncDSN: after an operation on the DSN service, the raw content of the DSN store must be what the harness
// asked it to hold (database service only; the file service has no store to look at besides its own maps).
func (e *c43Env) syncDSN(what string) {
	if !e.db {
		return
	}

	rows, err := e.dsnRaw.Query(`SELECT "name","restricted" FROM "dsns"`)
	if err != nil {
		e.t.Fatalf("raw dump of dsns: %v", err)
	}

	got := []string{}

	for rows.Next() {
		var (
			name string
			r    any
		)

		if err := rows.Scan(&name, &r); err != nil {
			e.t.Fatalf("raw scan of dsns: %v", err)
		}

		got = append(got, fmt.Sprintf("%q %s", name, c43B(c43Truth(r))))
	}

	rows.Close()

	want := []string{}
	for name, r := range e.o.dsnR {
		want = append(want, fmt.Sprintf("%q %s", name, c43B(r)))
	}

	sort.Strings(got)
	sort.Strings(want)

	if g, w := strings.Join(got, "\n"), strings.Join(want, "\n"); g != w {
		e.fail("dsn-store-diverged", "table dsns (name, restricted) differs from the DSNs the harness recorded after "+what, g, w)
	}

	rows, err = e.dsnRaw.Query(`SELECT "user","dsn","action" FROM "dsns_auth"`)
	if err != nil {
		e.t.Fatalf("raw dump of dsns_auth: %v", err)
	}

	seen := map[c43Pair]bool{}
	got = got[:0]

	for rows.Next() {
		var (
			u, d   string
			action int
		)

		if err := rows.Scan(&u, &d, &action); err != nil {
			e.t.Fatalf("raw scan of dsns_auth: %v", err)
		}

		p := c43Pair{u, d}
		if seen[p] {
			e.fail("dsnauth-duplicate", fmt.Sprintf("two dsns_auth rows for user=%q dsn=%q after %s", u, d, what), "", "")
		}

		seen[p] = true

		if action != 0 {
			got = append(got, fmt.Sprintf("%q %q %d", u, d, action))
		}
	}

	rows.Close()

	want = want[:0]

	for p, mask := range e.o.dsnA {
		if mask != 0 {
			want = append(want, fmt.Sprintf("%q %q %d", p.u, p.d, mask))
		}
	}

	sort.Strings(got)
	sort.Strings(want)

	if g, w := strings.Join(got, "\n"), strings.Join(want, "\n"); g != w {
		e.fail("dsnauth-store-diverged", "table dsns_auth differs from the DSN-level grants the harness recorded after "+what, g, w)
	}
}

// opEvict: the DSN cache drops an entry on its own (expiry, a full cache, an administrator's purge).  Nothing
// observable may change.
func (e *c43Env) opEvict(name string) {
	caches.Delete(caches.DSNCache, name)
	e.emit("E "+verifh.Hex(name), "ok")
}

// the joined-key ambiguity is a property of the FILE service only
func (e *c43Env) pipeClass(u, d string) bool { return !e.db && c43PipeClass(u, d) }

// restrictByGrant: a DSN is created (or rewritten) unrestricted, is optionally used while unrestricted, and
// becomes restricted implicitly by its first DSN-level grant; then users with and without DSN-level / table
// grants ask for its rows.
func (e *c43Env) restrictByGrant(r *rand.Rand) {
	d := c43Pick(r, c43DSNs)
	t := c43Pick(r, []string{"t", "c", "d", "y", "b", "b.c", "c.d"})
	granted, other := c43Pick(r, c43Users), c43Pick(r, c43Users)
	op := "riud"[r.Intn(4)]

	e.stats.Inc("restrict_by_grant_shapes")
	e.opWriteDSN(d, false)

	switch r.Intn(5) {
	case 0:
		e.qRow(other, false, 0, op, d, t)
	case 1:
		e.qAuthDSN(other, d, 1)
	case 2:
		e.qAuth(other, false, other, d, t, []string{"ego.table.read"})
	case 3:
		e.qRow(granted, false, 0, 'r', d, t)
		e.qRow(other, false, 3, op, d, t)
	}

	e.opGrantDSN(granted, d, []int{1, 2, 3, 3, 11}[r.Intn(5)], r.Intn(6) != 0)

	if r.Intn(3) == 0 {
		e.opGrantDSN(other, d, 3, true)
	}

	if r.Intn(2) == 0 {
		e.opGrant(granted, d, t, []string{c43Pick(r, c43Ops)})
	}

	e.qRow(other, false, []int{0, 0, 3, 8}[r.Intn(4)], op, d, t)
	e.qRow(granted, false, 0, op, d, t)
	e.qAuthDSN(other, d, []int{1, 2, 3}[r.Intn(3)])
	e.qAuth(other, false, other, d, t, []string{c43Pick(r, c43Ops)})
	e.qRow(granted, false, 0, "riud"[r.Intn(4)], d, t)
}
