//go:build verif

package authserver

// C22, end-to-end leg: Ego's own Authorization Server issues the tokens, POST /oauth2/revoke
// (RevokeHandler) revokes them, and the Resource Server side (oauth.Initialize over real HTTP discovery +
// JWKS, then oauth.ValidateJWT) must reject a revoked token on EVERY later presentation — first-ever
// presentation included — while tokens that were not (successfully) revoked stay accepted.
//
// Oracle (model-free): after a revocation request R for access token T (jti J),
//   J is blacklisted  ⇔  R authenticated a registered client ∧ R carried the genuine, untampered T
//   ValidateJWT(T) fails ⇔ J is blacklisted ;  UserinfoHandler(T) is 401 ⇔ J is blacklisted.
// A forged token that merely copies J (signed by another key) must not revoke T.
//
// Write faults: in one round out of three the credentials database refuses WRITES from the moment the revocation
// request has been served until the presentations are over — every UPDATE of the blacklist table fails (trigger),
// the store is reopened read-only (sqlite mode=ro), or a second connection holds the SQLite write lock past the
// busy timeout. Reads keep working, so the revoked row is found and only the "last used" audit UPDATE of
// tokens.IsIDBlacklisted fails: the oracle above must hold unchanged. The first caller after the request (the one
// whose lookup is not served from the BlacklistCache) is UserinfoHandler in half of the rounds, ValidateJWT in
// the others.

import (
	"context"
	"crypto/ecdsa"
	"crypto/elliptic"
	crand "crypto/rand"
	"database/sql"
	"encoding/json"
	"fmt"
	"net/http"
	"net/http/httptest"
	"net/url"
	"os"
	"path/filepath"
	"strings"
	"testing"
	"time"

	"github.com/golang-jwt/jwt/v5"
	"github.com/tucats/ego/internal/caches"
	"github.com/tucats/ego/internal/cli/settings"
	"github.com/tucats/ego/internal/defs"
	"github.com/tucats/ego/internal/language/tokens"
	"github.com/tucats/ego/internal/router"
	"github.com/tucats/ego/internal/server/oauth"
	"github.com/tucats/ego/internal/verifh"
)

func TestVerifC22Revoke(t *testing.T) {
	fails := verifh.Out("c22_revoke_failures.jsonl")
	stats := verifh.NewStats()

	defer func() {
		fails.Close()
		stats.Save("c22_revoke_stats.json")
	}()

	dir := os.Getenv("VERIF_OUT")
	if dir == "" {
		dir = t.TempDir()
	}

	// ---- Authorization Server
	key, err := ecdsa.GenerateKey(elliptic.P256(), crand.Reader)
	if err != nil {
		t.Fatal(err)
	}

	evil, _ := ecdsa.GenerateKey(elliptic.P256(), crand.Reader)
	signingKey = key

	if err := buildJWKS(); err != nil {
		t.Fatal(err)
	}

	sess := &router.Session{ID: 1}
	mux := http.NewServeMux()
	mux.HandleFunc(defs.OAuthDiscoveryPath, func(w http.ResponseWriter, r *http.Request) { DiscoveryHandler(sess, w, r) })
	mux.HandleFunc(defs.OAuthJWKSPath, func(w http.ResponseWriter, r *http.Request) { JWKSHandler(sess, w, r) })

	srv := httptest.NewServer(mux)
	defer srv.Close()

	if err := buildDiscoveryDoc(srv.URL); err != nil {
		t.Fatal(err)
	}

	cfg := asConfig{Enabled: true, Issuer: srv.URL, TokenExpiration: time.Hour}

	clientFile := filepath.Join(dir, "c22_clients.json")
	data, _ := json.Marshal([]map[string]any{{
		"client_id": "verif-client", "client_secret": "s3cret", "redirect_uris": []string{"https://example.com/cb"},
		"grant_types": []string{"authorization_code", "client_credentials"}, "scopes": []string{"openid"},
	}})

	if err := os.WriteFile(clientFile, data, 0600); err != nil {
		t.Fatal(err)
	}

	if err := loadClients(clientFile); err != nil {
		t.Fatal(err)
	}

	db := filepath.Join(dir, "c22_as_blacklist.db")
	_ = os.Remove(db)

	if err := tokens.SetDatabasePath("sqlite3://" + db); err != nil {
		t.Fatalf("blacklist database: %v", err)
	}

	defer func() {
		tokens.Close()
		_ = tokens.SetDatabasePath("")
		clients = nil
	}()

	// the other user of the credentials database: installs and lifts the write faults
	other, err := sql.Open("sqlite", db)
	if err != nil {
		t.Fatalf("second connection: %v", err)
	}

	defer other.Close()

	side, err := other.Conn(context.Background())
	if err != nil {
		t.Fatalf("second connection: %v", err)
	}

	defer side.Close()

	sideExec := func(q string) {
		if _, err := side.ExecContext(context.Background(), q); err != nil {
			t.Fatalf("second connection: %s: %v", q, err)
		}
	}

	setFault := func(kind string, on bool) {
		switch {
		case kind == "trigger" && on:
			sideExec(`CREATE TRIGGER IF NOT EXISTS verif_refuse_update BEFORE UPDATE ON blacklist BEGIN SELECT RAISE(FAIL, 'verif: injected write failure'); END`)
		case kind == "trigger":
			sideExec(`DROP TRIGGER IF EXISTS verif_refuse_update`)
		case kind == "lock" && on:
			sideExec(`BEGIN IMMEDIATE`)
		case kind == "lock":
			sideExec(`ROLLBACK`)
		case kind == "readonly":
			// this server instance now has the credentials database open read-only (read-only remount / replica);
			// a reopened instance starts with a cold lookup cache
			tokens.Close()

			dsn := "sqlite3://" + db
			if on {
				dsn = "sqlite3://file:" + db + "?mode=ro"
			}

			if err := tokens.SetDatabasePath(dsn); err != nil {
				t.Fatalf("reopening the blacklist database (%s): %v", dsn, err)
			}

			caches.Purge(caches.BlacklistCache)
		}
	}

	// ---- Resource Server: the real Initialize (discovery + JWKS over HTTP)
	settings.Set(defs.OAuthProviderSetting, srv.URL)
	settings.Set(defs.OAuthAudienceSetting, "ego-api")
	settings.Set(defs.OAuthModeSetting, oauth.ModeResourceServer)

	if err := oauth.Initialize(); err != nil {
		t.Fatalf("oauth.Initialize: %v", err)
	}

	if !oauth.IsEnabled() {
		t.Fatal("resource-server role not enabled")
	}

	nfail := 0
	fail := func(class, what, input, got, want string) {
		nfail++
		if nfail <= 20 {
			fails.Write(verifh.Failure{Class: class, What: what, Input: input, Got: got, Want: want})
		}
	}

	post := func(form url.Values, basic [2]string) int {
		req := httptest.NewRequest(http.MethodPost, defs.OAuthRevokePath, strings.NewReader(form.Encode()))
		req.Header.Set("Content-Type", "application/x-www-form-urlencoded")

		if basic[0] != "" {
			req.SetBasicAuth(basic[0], basic[1])
		}

		return RevokeHandler(sess, httptest.NewRecorder(), req)
	}

	userinfo := func(tok string) int {
		req := httptest.NewRequest(http.MethodGet, defs.OAuthUserinfoPath, nil)
		req.Header.Set("Authorization", "Bearer "+tok)

		return UserinfoHandler(sess, httptest.NewRecorder(), req)
	}

	r := verifh.Rand(2207)
	actions := []string{"good-form", "good-basic", "good-form", "bad-secret", "unknown-client", "no-client", "forged-jti", "tampered", "none", "refresh-like"}
	n := verifh.N(150, 800)

	// rounds in which the write lock is held: each costs the store's 5 s busy timeout in real time
	lockRounds := map[int]bool{}
	for k := 0; k < verifh.N(1, 4); k++ {
		lockRounds[5+11*k] = true
	}

	for i := 0; i < n; i++ {
		sub := []string{"alice", "bob", "carol"}[r.Intn(3)]

		tok, jti, err := createAccessToken(cfg, "verif-client", sub, "ego-api", "openid ego:read")
		if err != nil {
			t.Fatal(err)
		}

		seenBefore := r.Intn(2) == 0
		action := actions[r.Intn(len(actions))]

		fault := ""
		if r.Intn(3) == 0 {
			fault = []string{"trigger", "trigger", "trigger", "trigger", "readonly"}[r.Intn(5)]
		}

		userinfoFirst := r.Intn(2) == 0

		if lockRounds[i] {
			action, fault, userinfoFirst = "good-form", "lock", (i/11)%2 == 0
		}

		first := "ValidateJWT"
		if userinfoFirst {
			first = "UserinfoHandler"
		}

		input := fmt.Sprintf("round %d: AS-issued token sub=%s jti=%s; presented before the revocation request=%v; request=%s", i, sub, jti, seenBefore, action)
		if fault != "" {
			input += fmt.Sprintf("; WRITE FAULT on the credentials database after the request (%s: %s); first caller after the request=%s", fault,
				map[string]string{"trigger": "every UPDATE of the blacklist table fails", "readonly": "store reopened with sqlite mode=ro",
					"lock": "a second connection holds the write lock (BEGIN IMMEDIATE)"}[fault], first)
		} else {
			input += "; first caller after the request=" + first
		}

		if seenBefore {
			if u, _, err := oauth.ValidateJWT(1, tok); err != nil || u != sub {
				fail("e2e-reject-valid", "a fresh AS-issued token was not accepted by the resource server", input, fmt.Sprint(u, err), sub)
			}
		}

		form := url.Values{"token": {tok}}
		basic := [2]string{}
		want := false

		switch action {
		case "good-form":
			form.Set("client_id", "verif-client")
			form.Set("client_secret", "s3cret")

			want = true
		case "good-basic":
			basic = [2]string{"verif-client", "s3cret"}
			want = true
		case "bad-secret":
			form.Set("client_id", "verif-client")
			form.Set("client_secret", "wrong")
		case "unknown-client":
			basic = [2]string{"nobody", "s3cret"}
		case "no-client":
		case "forged-jti":
			// somebody who knows the jti but does not hold the token
			forged := jwt.NewWithClaims(jwt.SigningMethodES256, egoClaims{RegisteredClaims: jwt.RegisteredClaims{
				Issuer: srv.URL, Subject: sub, Audience: jwt.ClaimStrings{"ego-api"}, ID: jti,
				ExpiresAt: jwt.NewNumericDate(time.Now().Add(time.Hour))}, ClientID: "verif-client"})
			fs, _ := forged.SignedString(evil)
			form.Set("token", fs)
			form.Set("client_id", "verif-client")
			form.Set("client_secret", "s3cret")
		case "tampered":
			parts := strings.Split(tok, ".")
			b := []byte(parts[2])
			if b[5] == 'A' {
				b[5] = 'B'
			} else {
				b[5] = 'A'
			}

			form.Set("token", parts[0]+"."+parts[1]+"."+string(b))
			form.Set("client_id", "verif-client")
			form.Set("client_secret", "s3cret")
		case "refresh-like":
			form.Set("token", strings.ReplaceAll(jti, "-", ""))
			form.Set("client_id", "verif-client")
			form.Set("client_secret", "s3cret")
		case "none":
			form = nil
		}

		if form != nil {
			status := post(form, basic)
			stats.Inc(fmt.Sprintf("revoke.%s.%d", action, status))
		}

		if fault != "" {
			setFault(fault, true)
		}

		checkUserinfo := func() {
			if st := userinfo(tok); (st == http.StatusUnauthorized) != want {
				fail("userinfo-revoked", "UserinfoHandler 401 ⇔ revoked does not hold", input, fmt.Sprint(st), fmt.Sprint(want))
			}
		}

		if userinfoFirst {
			checkUserinfo()
		}

		for pass := 1; pass <= 2; pass++ {
			u, _, err := oauth.ValidateJWT(1, tok)
			if want && err == nil {
				class := "e2e-accept-revoked-first-seen"
				if seenBefore || pass == 2 {
					class = "e2e-accept-revoked-seen-before"
				}

				fail(class, "the resource server accepted an AS token after POST /oauth2/revoke succeeded for it", input+fmt.Sprintf("; presentation %d after the request", pass), "ok "+u, "rejected")
			}

			if !want && (err != nil || u != sub) {
				fail("e2e-reject-unrevoked", "a token that was not revoked (request unauthenticated / not the genuine token) is rejected", input, fmt.Sprint(u, err), "ok "+sub)
			}
		}

		if !userinfoFirst {
			checkUserinfo()
		}

		if fault != "" {
			setFault(fault, false)
		}

		bl, blErr := tokens.IsIDBlacklisted(jti)
		if blErr != nil || bl != want {
			fail("revoke-handler-blacklist", "RevokeHandler blacklisted ⇔ (client authenticated ∧ genuine token) does not hold", input, fmt.Sprint(bl, blErr), fmt.Sprint(want))
		}

		stats.Inc("rounds")

		if want {
			stats.Inc("rounds.revoked")

			if fault != "" {
				stats.Inc("rounds.revoked.write-fault")
				stats.Inc("rounds.revoked.write-fault." + fault)
				stats.Inc("rounds.revoked.write-fault.first-caller-" + first)
			}
		}
	}

	t.Logf("rounds=%d failures=%d", n, nfail)
}
