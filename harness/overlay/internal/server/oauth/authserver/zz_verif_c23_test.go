//go:build verif

package authserver

// C23 correspondence harness and direct oracle: OAuth authorization codes and refresh
// tokens are single-use under concurrency; PKCE.
//
// Streams (all drive the REAL consumeCode / consumeRefreshToken / verifyPKCE / TokenHandler):
//
//   - "forced" (needs the verifPoint hook, see zz_verif_c23_hook_test.go): N requests run
//     as goroutines, a controller lets exactly one of them advance by one atomic cache step
//     at a time, following a generated schedule (request steps, re-issues, foreign removals).
//     Per-request outcomes are compared with the Lean model run on the same schedule; the
//     model-free oracle counts successful redemptions per key (<= issues of that key).
//   - "burst": N goroutines released together redeem one code / token, free running, with
//     GOMAXPROCS varied (and, when the hook is there, a Gosched at the yield point in every
//     other block); successes must be exactly one.
//   - "pkce": verifyPKCE on every challenge / method / verifier shape, against an
//     independent SHA-256 + base64url computation.
//   - "seq": random sequences of token requests through TokenHandler (clients public /
//     confidential / wrong secret / unknown / grant not allowed, redirect right / wrong,
//     verifier shapes, replayed / unknown / re-issued codes and refresh tokens) against the
//     sequential Lean model; oracle: 200 at most once per issue, and only with the matching
//     verifier and the owning client.

import (
	"crypto/sha256"
	"encoding/base64"
	"encoding/hex"
	"encoding/json"
	"fmt"
	"math/rand"
	"net/http"
	"net/http/httptest"
	"net/url"
	"path/filepath"
	"runtime"
	"sort"
	"strconv"
	"strings"
	"sync"
	"sync/atomic"
	"testing"
	"time"

	"github.com/tucats/ego/internal/caches"
	"github.com/tucats/ego/internal/errors"
	"github.com/tucats/ego/internal/router"
	"github.com/tucats/ego/internal/verifh"
	"golang.org/x/crypto/bcrypt"
)

const (
	c23Redirect = "https://app.example.com/cb"
	c23Verifier = "c23-verifier-0123456789-abcdefghijklmnopqrstuvwxyz"
	c23Secret   = "s3cret"
)

// c23S256 is the reference BASE64URL(SHA256(v)), written independently of codes.go.
func c23S256(v string) string {
	h := sha256.New()
	h.Write([]byte(v))

	return strings.TrimRight(base64.URLEncoding.EncodeToString(h.Sum(nil)), "=")
}

func c23Setup(t *testing.T) {
	t.Helper()

	if err := loadOrGenerateKey(filepath.Join(t.TempDir(), "c23.pem")); err != nil {
		t.Fatalf("key setup: %v", err)
	}

	asGlobalConfig = asConfig{Issuer: "https://ego.test", TokenExpiration: time.Hour}

	hash, err := bcrypt.GenerateFromPassword([]byte(c23Secret), bcrypt.MinCost)
	if err != nil {
		t.Fatal(err)
	}

	clients = []OAuthClient{
		{ClientID: "pub", RedirectURIs: []string{c23Redirect}, GrantTypes: []string{"authorization_code", "refresh_token"}, Scopes: []string{"openid"}},
		{ClientID: "conf", ClientSecretHash: string(hash), RedirectURIs: []string{c23Redirect}, GrantTypes: []string{"authorization_code", "refresh_token"}, Scopes: []string{"openid"}},
		{ClientID: "pub2", RedirectURIs: []string{c23Redirect}, GrantTypes: []string{"authorization_code", "refresh_token"}, Scopes: []string{"openid"}},
		{ClientID: "nogrant", RedirectURIs: []string{c23Redirect}, GrantTypes: []string{"client_credentials"}, Scopes: []string{"openid"}},
		{ClientID: "norefresh", RedirectURIs: []string{c23Redirect}, GrantTypes: []string{"authorization_code"}, Scopes: []string{"openid"}},
	}

	t.Cleanup(func() {
		clients = nil
		asGlobalConfig = asConfig{}
	})
}

// ---------------------------------------------------------------- the four ways to redeem

type c23Kind struct {
	refresh bool // refresh token (else authorization code)
	handler bool // through TokenHandler (else consumeCode / consumeRefreshToken directly)
}

var c23Kinds = []c23Kind{{false, false}, {true, false}, {false, true}, {true, true}}

func (k c23Kind) String() string {
	s := "code"
	if k.refresh {
		s = "refresh"
	}

	if k.handler {
		return s + "/handler"
	}

	return s + "/consume"
}

func (k c23Kind) class() string {
	if k.refresh {
		return "refresh-redeemed-twice"
	}

	return "code-redeemed-twice"
}

// issue stores key with a record identifying value v (storeCode / what generateRefreshToken does).
func (k c23Kind) issue(key string, v int) {
	user := "u" + strconv.Itoa(v)

	if k.refresh {
		caches.Add(caches.OAuthRefreshCache, key, RefreshTokenData{ClientID: "pub", Username: user, Scopes: []string{"openid"}, IssuedAt: time.Now()})

		return
	}

	storeCode(key, PendingAuthorization{
		ClientID: "pub", RedirectURI: c23Redirect, Scopes: []string{"openid"}, Username: user,
		CodeChallenge: c23S256(c23Verifier), CodeChallengeMethod: "S256", IssuedAt: time.Now(),
	})
}

func (k c23Kind) remove(key string) {
	if k.refresh {
		caches.Delete(caches.OAuthRefreshCache, key)
	} else {
		caches.Delete(caches.OAuthCodeCache, key)
	}
}

// c23Post drives one request through the real TokenHandler.
func c23Post(form url.Values, basicUser, basicPass string) (int, map[string]any) {
	req := httptest.NewRequest(http.MethodPost, "/oauth2/token", strings.NewReader(form.Encode()))
	req.Header.Set("Content-Type", "application/x-www-form-urlencoded")

	if basicUser != "" {
		req.SetBasicAuth(basicUser, basicPass)
	}

	w := httptest.NewRecorder()
	status := TokenHandler(&router.Session{ID: 23}, w, req)

	body := map[string]any{}
	_ = json.Unmarshal(w.Body.Bytes(), &body)

	if status != w.Code {
		body["error"] = fmt.Sprintf("status-mismatch-%d-%d", status, w.Code)
	}

	return status, body
}

// c23Answer canonicalises a token response: "ok" or the RFC 6749 error code.
func c23Answer(status int, body map[string]any) string {
	if status == http.StatusOK {
		if s, _ := body["access_token"].(string); s != "" {
			return "ok"
		}

		return "ok-without-token"
	}

	e, _ := body["error"].(string)
	if e == "" {
		return "status-" + strconv.Itoa(status)
	}

	return e
}

// redeem presents key once; "ok<v>" = tokens / record for value v, "fail" = refused.
func (k c23Kind) redeem(key string) string {
	if !k.handler {
		if k.refresh {
			d, ok := consumeRefreshToken(key)
			if !ok {
				return "fail"
			}

			return "ok" + strings.TrimPrefix(d.Username, "u")
		}

		p, ok := consumeCode(key)
		if !ok {
			return "fail"
		}

		return "ok" + strings.TrimPrefix(p.Username, "u")
	}

	form := url.Values{}
	form.Set("client_id", "pub")

	if k.refresh {
		form.Set("grant_type", "refresh_token")
		form.Set("refresh_token", key)
	} else {
		form.Set("grant_type", "authorization_code")
		form.Set("code", key)
		form.Set("redirect_uri", c23Redirect)
		form.Set("code_verifier", c23Verifier)
	}

	status, body := c23Post(form, "", "")
	ans := c23Answer(status, body)

	// the rotated refresh token is of no further use here; keep the cache small
	if rt, _ := body["refresh_token"].(string); rt != "" {
		caches.Delete(caches.OAuthRefreshCache, rt)
	}

	switch ans {
	case "ok":
		claims, err := parseToken(body["access_token"].(string))
		if err != nil {
			return "ok-bad-token"
		}

		return "ok" + strings.TrimPrefix(claims.Subject, "u")
	case "invalid_grant":
		return "fail"
	default:
		return "err-" + ans
	}
}

// ---------------------------------------------------------------- forced schedules

type c23Ev struct {
	op   byte // 's' request step, 'i' issue, 'x' foreign removal
	a, b int
}

func (e c23Ev) String() string {
	switch e.op {
	case 's':
		return "s" + strconv.Itoa(e.a)
	case 'x':
		return "x" + strconv.Itoa(e.a)
	default:
		return fmt.Sprintf("i%d:%d", e.a, e.b)
	}
}

type c23Sched struct {
	n    int
	keys []int       // request -> key index
	init map[int]int // key index -> value present at the start
	evs  []c23Ev
}

func (s c23Sched) line() string {
	ks := make([]string, len(s.keys))
	for i, k := range s.keys {
		ks[i] = strconv.Itoa(k)
	}

	var in []string

	var idx []int
	for k := range s.init {
		idx = append(idx, k)
	}

	sort.Ints(idx)

	for _, k := range idx {
		in = append(in, fmt.Sprintf("%d:%d", k, s.init[k]))
	}

	es := make([]string, len(s.evs))
	for i, e := range s.evs {
		es[i] = e.String()
	}

	dash := func(l []string, sep string) string {
		if len(l) == 0 {
			return "-"
		}

		return strings.Join(l, sep)
	}

	return fmt.Sprintf("sched dd %d %s %s %s", s.n, dash(ks, ","), dash(in, ";"), dash(es, ","))
}

// interleaved: two requests presenting the same key overlap (the second one's first step
// falls between the first one's two steps) — the schedules that matter.
func (s c23Sched) interleaved() bool {
	first := map[int]int{}
	second := map[int]int{}

	for pos, e := range s.evs {
		if e.op != 's' {
			continue
		}

		if _, ok := first[e.a]; !ok {
			first[e.a] = pos
		} else if _, ok := second[e.a]; !ok {
			second[e.a] = pos
		}
	}

	for i, fi := range first {
		si, ok := second[i]
		if !ok {
			continue
		}

		for j, fj := range first {
			if i != j && s.keys[i] == s.keys[j] && fi < fj && fj < si {
				return true
			}
		}
	}

	return false
}

type c23Req struct {
	paused, resume    chan struct{}
	done              chan string
	started, finished bool
	result            string
}

// c23Cur is the one request allowed to run right now; the hook parks it at the yield point.
var c23Cur atomic.Pointer[c23Req]

// c23Yield makes free-running requests yield the processor at the yield point.
var c23Yield atomic.Bool

func c23Hook(string) {
	if r := c23Cur.Load(); r != nil {
		r.paused <- struct{}{}
		<-r.resume

		return
	}

	if c23Yield.Load() {
		runtime.Gosched()
	}
}

// c23RunForced executes the schedule on the real code; it appends the steps needed to let
// every started request finish and returns the per-request results.
func c23RunForced(t *testing.T, kind c23Kind, s *c23Sched, round int) []string {
	keyName := func(k int) string { return fmt.Sprintf("c23f-%d-%d", round, k) }
	reqs := make([]*c23Req, s.n)

	for i := range reqs {
		reqs[i] = &c23Req{paused: make(chan struct{}), resume: make(chan struct{}), done: make(chan string, 1)}
	}

	for k, v := range s.init {
		kind.issue(keyName(k), v)
	}

	step := func(i int) {
		r := reqs[i]
		if r.finished {
			return
		}

		c23Cur.Store(r)

		if !r.started {
			r.started = true
			key := keyName(s.keys[i])

			go func() { r.done <- kind.redeem(key) }()
		} else {
			r.resume <- struct{}{}
		}

		select {
		case <-r.paused:
		case res := <-r.done:
			r.finished = true
			r.result = res
		case <-time.After(20 * time.Second):
			t.Fatalf("C23: request %d stuck in schedule %s", i, s.line())
		}

		c23Cur.Store(nil)
	}

	maxKey := 0

	for _, e := range s.evs {
		switch e.op {
		case 's':
			step(e.a)
		case 'i':
			kind.issue(keyName(e.a), e.b)
		case 'x':
			kind.remove(keyName(e.a))
		}
	}

	for i, r := range reqs {
		if r.started && !r.finished {
			s.evs = append(s.evs, c23Ev{op: 's', a: i})
			step(i)
		}
	}

	res := make([]string, s.n)

	for i, r := range reqs {
		res[i] = "idle"
		if r.finished {
			res[i] = r.result
		}

		if s.keys[i] > maxKey {
			maxKey = s.keys[i]
		}
	}

	for _, e := range s.evs {
		if e.op != 's' && e.a > maxKey {
			maxKey = e.a
		}
	}

	for k := range s.init {
		if k > maxKey {
			maxKey = k
		}
	}

	for k := 0; k <= maxKey; k++ {
		kind.remove(keyName(k))
	}

	return res
}

func c23Shuffle(r *rand.Rand, l []int) {
	r.Shuffle(len(l), func(i, j int) { l[i], l[j] = l[j], l[i] })
}

func c23GenSched(r *rand.Rand, val *int) c23Sched {
	n := 1 + r.Intn(6)
	nk := 1 + r.Intn(3)
	s := c23Sched{n: n, keys: make([]int, n), init: map[int]int{}}

	for i := range s.keys {
		if r.Intn(5) < 2 {
			s.keys[i] = r.Intn(nk)
		}
	}

	for k := 0; k < nk; k++ {
		if r.Intn(6) != 0 {
			*val++
			s.init[k] = *val
		}
	}

	ids := make([]int, n)
	for i := range ids {
		ids[i] = i
	}

	var order []int

	switch r.Intn(5) {
	case 0: // every request does Find, then every request does Delete: the worst case
		c23Shuffle(r, ids)
		order = append(order, ids...)
		c23Shuffle(r, ids)
		order = append(order, ids...)
	case 1: // arbitrary interleaving of the 2n steps
		order = append(append(order, ids...), ids...)
		c23Shuffle(r, order)
	case 2: // one after the other
		c23Shuffle(r, ids)

		for _, i := range ids {
			order = append(order, i, i)
		}
	case 3: // with replacement: some requests never start, some get extra (no-op) steps
		for j := r.Intn(3*n + 1); j > 0; j-- {
			order = append(order, r.Intn(n))
		}
	default: // two groups racing: group A finds, group B runs completely, group A deletes
		c23Shuffle(r, ids)
		cut := r.Intn(n + 1)
		order = append(order, ids[:cut]...)

		for _, i := range ids[cut:] {
			order = append(order, i, i)
		}

		order = append(order, ids[:cut]...)
	}

	for _, i := range order {
		s.evs = append(s.evs, c23Ev{op: 's', a: i})
	}

	// re-issues and foreign removals dropped in between
	if r.Intn(4) == 0 {
		for j := 1 + r.Intn(3); j > 0; j-- {
			var e c23Ev
			if r.Intn(2) == 0 {
				*val++
				e = c23Ev{op: 'i', a: r.Intn(nk), b: *val}
			} else {
				e = c23Ev{op: 'x', a: r.Intn(nk)}
			}

			pos := r.Intn(len(s.evs) + 1)
			s.evs = append(s.evs[:pos], append([]c23Ev{e}, s.evs[pos:]...)...)
		}
	}

	return s
}

func c23Steps(ids ...int) []c23Ev {
	var l []c23Ev
	for _, i := range ids {
		l = append(l, c23Ev{op: 's', a: i})
	}

	return l
}

// the fixed corpus that runs first: the witness of the Lean counterexample and its relatives
func c23Corpus() []c23Sched {
	return []c23Sched{
		{n: 2, keys: []int{0, 0}, init: map[int]int{0: 7}, evs: c23Steps(0, 1, 0, 1)},
		{n: 2, keys: []int{0, 0}, init: map[int]int{0: 7}, evs: c23Steps(0, 1, 1, 0)},
		{n: 3, keys: []int{0, 0, 0}, init: map[int]int{0: 8}, evs: c23Steps(0, 1, 2, 2, 1, 0)},
		{n: 6, keys: []int{0, 0, 0, 0, 0, 0}, init: map[int]int{0: 9}, evs: c23Steps(0, 1, 2, 3, 4, 5, 0, 1, 2, 3, 4, 5)},
		{n: 2, keys: []int{0, 0}, init: map[int]int{0: 1}, evs: c23Steps(0, 0, 1, 1)},
		{n: 2, keys: []int{0, 0}, init: map[int]int{}, evs: c23Steps(0, 1, 0, 1)},
		{n: 3, keys: []int{0, 1, 0}, init: map[int]int{0: 2, 1: 3}, evs: c23Steps(0, 1, 2, 1, 2, 0)},
		{n: 2, keys: []int{0, 0}, init: map[int]int{0: 4}, evs: []c23Ev{{'s', 0, 0}, {'x', 0, 0}, {'s', 0, 0}, {'s', 1, 0}}},
		{n: 2, keys: []int{0, 0}, init: map[int]int{0: 5}, evs: []c23Ev{{'s', 0, 0}, {'i', 0, 6}, {'s', 1, 0}, {'s', 0, 0}, {'s', 1, 0}}},
		{n: 2, keys: []int{0, 0}, init: map[int]int{0: 5}, evs: []c23Ev{{'s', 0, 0}, {'s', 0, 0}, {'i', 0, 6}, {'s', 1, 0}, {'s', 1, 0}}},
	}
}

// c23ParseSched reads a "sched dd …" protocol line back (used to replay a reported failing input).
func c23ParseSched(line string) (c23Sched, bool) {
	f := strings.Fields(line)
	if len(f) != 6 || f[0] != "sched" {
		return c23Sched{}, false
	}

	n, err := strconv.Atoi(f[2])
	if err != nil || n < 1 || n > 64 {
		return c23Sched{}, false
	}

	s := c23Sched{n: n, init: map[int]int{}}

	for _, k := range strings.Split(f[3], ",") {
		v, err := strconv.Atoi(k)
		if err != nil {
			return c23Sched{}, false
		}

		s.keys = append(s.keys, v)
	}

	if len(s.keys) != n {
		return c23Sched{}, false
	}

	if f[4] != "-" {
		for _, kv := range strings.Split(f[4], ";") {
			var k, v int
			if _, err := fmt.Sscanf(kv, "%d:%d", &k, &v); err != nil {
				return c23Sched{}, false
			}

			s.init[k] = v
		}
	}

	if f[5] != "-" {
		for _, e := range strings.Split(f[5], ",") {
			var ev c23Ev

			switch {
			case strings.HasPrefix(e, "i"):
				ev.op = 'i'
				if _, err := fmt.Sscanf(e[1:], "%d:%d", &ev.a, &ev.b); err != nil {
					return c23Sched{}, false
				}
			case strings.HasPrefix(e, "s"), strings.HasPrefix(e, "x"):
				ev.op = e[0]
				if ev.a, err = strconv.Atoi(e[1:]); err != nil {
					return c23Sched{}, false
				}
			default:
				return c23Sched{}, false
			}

			if ev.op == 's' && (ev.a < 0 || ev.a >= n) {
				return c23Sched{}, false
			}

			s.evs = append(s.evs, ev)
		}
	}

	return s, true
}

// c23Replayed returns the schedules named as failing inputs in the replay file (./check --replay).
func c23Replayed() []c23Sched {
	var doc struct {
		Failures []struct {
			Input string `json:"input"`
		} `json:"failures"`
		Disagreements []struct {
			In string `json:"in"`
		} `json:"disagreements"`
	}

	if json.Unmarshal(verifh.ReplayInput(), &doc) != nil {
		return nil
	}

	var l []c23Sched

	seen := map[string]bool{}
	add := func(line string) {
		if s, ok := c23ParseSched(line); ok && !seen[line] {
			seen[line] = true
			l = append(l, s)
		}
	}

	for _, f := range doc.Failures {
		add(f.Input)
	}

	for _, d := range doc.Disagreements {
		add(d.In)
	}

	return l
}

// ---------------------------------------------------------------- PKCE shapes

var c23Methods = []string{"S256", "S256", "S256", "S256", "S256", "S256", "S256", "S256", "S256", "S256", "S256", "S256", "plain", "", "s256", "S256 ", " S256", "S512", "sha256", "PLAIN", "S256\x00"}

func c23GenVerifier(r *rand.Rand) string {
	alphabet := "abcXYZ019-._~"

	switch r.Intn(8) {
	case 0:
		return ""
	case 1:
		return c23Verifier
	case 2:
		return strings.Repeat("v", 43+r.Intn(86))
	case 3:
		return "é世\x00\n " + strconv.Itoa(r.Intn(1000))
	case 4:
		return strings.Repeat("long", 1+r.Intn(3000))
	default:
		n := 1 + r.Intn(50)
		b := make([]byte, n)

		for i := range b {
			b[i] = alphabet[r.Intn(len(alphabet))]
		}

		return string(b)
	}
}

// c23GenChallenge derives a stored challenge from the verifier the honest client holds.
func c23GenChallenge(r *rand.Rand, right string) string {
	sum := sha256.Sum256([]byte(right))

	switch r.Intn(12) {
	case 0:
		return ""
	case 1:
		return right // what a "plain" client would have sent
	case 2:
		return base64.URLEncoding.EncodeToString(sum[:]) // padded
	case 3:
		return base64.StdEncoding.EncodeToString(sum[:])
	case 4:
		return hex.EncodeToString(sum[:])
	case 5:
		return strings.ToUpper(c23S256(right))
	case 6:
		return c23S256(right) + "A"
	case 7:
		return "wrongchallenge"
	default:
		return c23S256(right)
	}
}

// c23GenAttempt derives the verifier a request presents from the right one and the challenge.
func c23GenAttempt(r *rand.Rand, right, challenge string) string {
	switch r.Intn(12) {
	case 0:
		return ""
	case 1:
		return challenge // presenting the challenge itself (a "plain" style replay)
	case 2:
		return right + "x"
	case 3:
		if len(right) > 0 {
			return right[:len(right)-1]
		}

		return "x"
	case 4:
		return strings.ToUpper(right)
	case 5:
		return " " + right
	case 6:
		return right + "\x00"
	case 7:
		return c23GenVerifier(r)
	case 8:
		return c23S256(right)
	default:
		return right
	}
}

func c23PkceName(err error) string {
	switch {
	case err == nil:
		return "ok"
	case errors.Equals(err, errors.ErrOAuthPKCEMethod):
		return "badmethod"
	case errors.Equals(err, errors.ErrOAuthPKCEFailed):
		return "mismatch"
	default:
		return "other-error"
	}
}

// ---------------------------------------------------------------- the test

func TestVerifC23(t *testing.T) {
	cases := verifh.Out("c23_cases.jsonl")
	fails := verifh.Out("c23_failures.jsonl")
	stats := verifh.NewStats()

	defer func() {
		cases.Close()
		fails.Close()
		stats.Save("c23_stats.json")
	}()

	c23Setup(t)

	hooked := c23InstallHook(c23Hook)
	if hooked {
		stats.Inc("hook.present")
	} else {
		stats.Inc("hook.absent")
	}

	// make sure both caches exist and are empty of our keys
	caches.Add(caches.OAuthCodeCache, "c23-warm", 0)
	caches.Delete(caches.OAuthCodeCache, "c23-warm")
	caches.Add(caches.OAuthRefreshCache, "c23-warm", 0)
	caches.Delete(caches.OAuthRefreshCache, "c23-warm")

	t0 := time.Now()
	lap := func(name string) {
		stats.Add("ms."+name, int(time.Since(t0).Milliseconds()))
		t0 = time.Now()
	}

	// ------------------------------------------------------------ forced schedules
	if hooked {
		r := verifh.Rand(23)
		val := 100
		seen := map[string]bool{}
		round := 0

		runOne := func(kind c23Kind, s c23Sched, desc string) {
			round++

			res := c23RunForced(t, kind, &s, round)
			line := s.line()
			cases.Write(verifh.Case{In: line, Impl: strings.Join(res, ","), Desc: desc + " " + kind.String()})
			stats.Inc("forced")
			stats.Inc("forced." + kind.String())

			if s.interleaved() {
				stats.Inc("forced.interleaved")

				if !seen[line] {
					seen[line] = true

					stats.Inc("distinct_nontrivial")
				}
			}

			// model-free oracle: per key, successes <= issues (initial + re-issues), and a
			// success carries a value that was issued for that key
			issued := map[int]map[string]bool{}
			count := map[int]int{}
			add := func(k, v int) {
				if issued[k] == nil {
					issued[k] = map[string]bool{}
				}

				issued[k]["ok"+strconv.Itoa(v)] = true
				count[k]++
			}

			for k, v := range s.init {
				add(k, v)
			}

			for _, e := range s.evs {
				if e.op == 'i' {
					add(e.a, e.b)
				}
			}

			succ := map[int]int{}

			for i, x := range res {
				if strings.HasPrefix(x, "ok") {
					k := s.keys[i]
					succ[k]++

					if !issued[k][x] {
						fails.Write(verifh.Failure{Class: "redeemed-foreign-value", What: "a redemption returned a record that was never stored under the presented " + kind.String() + " key", Input: line, Got: strings.Join(res, ",")})
					}
				} else if x != "fail" && x != "idle" {
					fails.Write(verifh.Failure{Class: "unexpected-response", What: "token request ended with neither tokens nor invalid_grant (" + kind.String() + ")", Input: line, Got: x})
				}
			}

			for k, n := range succ {
				if n > count[k] {
					fails.Write(verifh.Failure{
						Class: kind.class(),
						What:  fmt.Sprintf("%s: key %d was stored %d time(s) but redeemed successfully %d times under a forced interleaving of Find/Delete", kind, k, count[k], n),
						Input: line, Got: strings.Join(res, ","), Want: fmt.Sprintf("at most %d success(es) for key %d", count[k], k),
					})
				}
			}

			if stats.M["forced"] <= 4 {
				stats.Sample(map[string]string{"kind": kind.String(), "schedule": line, "results": strings.Join(res, ",")})
			}
		}

		for _, s := range c23Replayed() {
			for _, kind := range c23Kinds {
				c := s
				c.evs = append([]c23Ev(nil), s.evs...)
				runOne(kind, c, "replay")
				stats.Inc("forced.replayed")
			}
		}

		for _, s := range c23Corpus() {
			for _, kind := range c23Kinds {
				c := s
				c.evs = append([]c23Ev(nil), s.evs...)
				runOne(kind, c, "corpus")
			}
		}

		nf := verifh.N(10000, 80000)
		for i := 0; i < nf; i++ {
			kind := c23Kinds[r.Intn(len(c23Kinds))]
			if kind.handler && r.Intn(3) != 0 {
				kind.handler = false // handler rounds sign tokens; keep them a third of the mix
			}

			runOne(kind, c23GenSched(r, &val), "gen")
		}
	}

	lap("forced")

	// ------------------------------------------------------------ free-running bursts
	{
		r := verifh.Rand(2323)
		nb := verifh.N(10000, 120000)
		if !hooked {
			nb = verifh.N(24000, 400000) // the race window is tiny without the yield point: try harder
		}
		procs := []int{runtime.NumCPU(), 2, 4, 1, 8, 3}
		old := runtime.GOMAXPROCS(0)
		block := nb / (2 * len(procs))

		if block == 0 {
			block = 1
		}

		for i := 0; i < nb; i++ {
			if i%block == 0 {
				b := i / block
				runtime.GOMAXPROCS(procs[b%len(procs)])
				c23Yield.Store(hooked && (b/len(procs))%2 == 1)
			}

			kind := c23Kinds[r.Intn(len(c23Kinds))]
			n := 2 + r.Intn(15)
			present := r.Intn(12) != 0
			key := fmt.Sprintf("c23b-%d", i)

			if present {
				kind.issue(key, i)
			}

			var (
				wg      sync.WaitGroup
				ready   sync.WaitGroup
				succ    atomic.Int32
				other   atomic.Int32
				release = make(chan struct{})
			)

			for g := 0; g < n; g++ {
				wg.Add(1)
				ready.Add(1)

				go func() {
					defer wg.Done()

					ready.Done()
					<-release

					switch x := kind.redeem(key); {
					case x == "ok"+strconv.Itoa(i):
						succ.Add(1)
					case x != "fail":
						other.Add(1)
					}
				}()
			}

			ready.Wait()
			close(release)
			wg.Wait()
			kind.remove(key)

			p := "0"
			if present {
				p = "1"
			}

			in := fmt.Sprintf("burst dd %d %s", n, p)
			cases.Write(verifh.Case{In: in, Impl: strconv.Itoa(int(succ.Load())), Desc: fmt.Sprintf("%s GOMAXPROCS=%d yield=%v", kind, runtime.GOMAXPROCS(0), c23Yield.Load())})
			stats.Inc("burst")
			stats.Inc("burst." + kind.String())

			input := fmt.Sprintf("%s: %d goroutines present one %s at once (GOMAXPROCS=%d, yield=%v, stored=%v)", in, n, kind, runtime.GOMAXPROCS(0), c23Yield.Load(), present)

			switch {
			case other.Load() != 0:
				fails.Write(verifh.Failure{Class: "unexpected-response", What: "burst: a request ended with neither its tokens nor invalid_grant", Input: input})
			case succ.Load() > 1 || (!present && succ.Load() > 0):
				stats.Inc("burst.double")
				fails.Write(verifh.Failure{Class: kind.class(), What: fmt.Sprintf("%s redeemed successfully %d times by concurrent free-running requests", kind, succ.Load()), Input: input, Got: strconv.Itoa(int(succ.Load())), Want: "at most 1"})
			case present && succ.Load() == 0:
				fails.Write(verifh.Failure{Class: "valid-grant-refused", What: "a stored " + kind.String() + " was refused to every one of the concurrent requests", Input: input, Got: "0", Want: "1"})
			}
		}

		runtime.GOMAXPROCS(old)
		c23Yield.Store(false)
	}

	lap("burst")

	// ------------------------------------------------------------ verifyPKCE, every shape
	{
		r := verifh.Rand(232323)
		seen := map[string]bool{}
		np := verifh.N(10000, 150000)

		check := func(challenge, method, verifier string) {
			got := c23PkceName(verifyPKCE(PendingAuthorization{CodeChallenge: challenge, CodeChallengeMethod: method}, verifier))
			in := "pkce " + verifh.Hex(challenge) + " " + verifh.Hex(method) + " " + verifh.Hex(c23S256(verifier))
			cases.Write(verifh.Case{In: in, Impl: got})
			stats.Inc("pkce")
			stats.Inc("pkce." + got)

			want := challenge == "" || (method == "S256" && c23S256(verifier) == challenge)
			if (got == "ok") != want {
				fails.Write(verifh.Failure{
					Class: "pkce-wrong-verdict", What: "verifyPKCE accepts a verifier that does not hash (S256) to the stored challenge, or rejects the matching one",
					Input: fmt.Sprintf("challenge=%q method=%q verifier=%q", challenge, method, verifier), Got: got, Want: fmt.Sprintf("ok=%v", want),
				})
			}

			if challenge != "" && !seen[in] {
				seen[in] = true

				stats.Inc("pkce.distinct_with_challenge")
			}
		}

		// corpus: RFC 7636 appendix B, plain-style, empty, case, padding
		rfcV := "dBjftJeZ4CVP-mB92K27uhbUJU1p1r_wW1gFWFOEjXk"
		rfcC := "E9Melhoa2OwvFrEMTJguCHaoeK1t8URWbuGJSstw-cM"

		for _, c := range [][3]string{
			{rfcC, "S256", rfcV}, {rfcC, "S256", ""}, {rfcC, "S256", rfcC}, {rfcC, "plain", rfcC}, {rfcV, "plain", rfcV},
			{rfcC, "", rfcV}, {rfcC, "s256", rfcV}, {"", "", ""}, {"", "S256", "x"}, {"", "plain", "x"}, {rfcC + "=", "S256", rfcV},
			{c23S256(""), "S256", ""}, {rfcC, "S256", rfcV + " "}, {strings.ToLower(rfcC), "S256", rfcV},
		} {
			check(c[0], c[1], c[2])
		}

		for i := 0; i < np; i++ {
			right := c23GenVerifier(r)
			challenge := c23GenChallenge(r, right)
			check(challenge, c23Methods[r.Intn(len(c23Methods))], c23GenAttempt(r, right, challenge))
		}
	}

	lap("pkce")

	// ------------------------------------------------------------ sequential token requests
	c23Seq(t, cases, fails, stats)
	lap("seq")
}

type c23Code struct {
	owner, redirect, challenge, method, right string
	issues, oks                               int
}

func c23Seq(t *testing.T, cases, fails *verifh.Writer, stats *verifh.Stats) {
	r := verifh.Rand(23232323)
	ns := verifh.N(5000, 40000)

	codes := map[string]*c23Code{}
	var codeNames []string

	refresh := map[string]*c23Code{} // owner, issues, oks used
	var refreshNames []string

	reset := func() {
		for k := range codes {
			caches.Delete(caches.OAuthCodeCache, k)
		}

		for k := range refresh {
			caches.Delete(caches.OAuthRefreshCache, k)
		}

		codes, refresh = map[string]*c23Code{}, map[string]*c23Code{}
		codeNames, refreshNames = nil, nil

		cases.Write(verifh.Case{In: "reset", Impl: "ok"})
	}

	reset()

	b := func(v bool) string {
		if v {
			return "1"
		}

		return "0"
	}

	// who presents the request: registered client id, secret sent, and what that amounts to
	type cred struct {
		id, secret                string
		ok, public                bool
		allowsCode, allowsRefresh bool
	}

	creds := []cred{
		{"pub", "", true, true, true, true}, {"pub", "", true, true, true, true}, {"pub", "anything", true, true, true, true},
		{"conf", c23Secret, true, false, true, true}, {"conf", c23Secret, true, false, true, true},
		{"conf", "wrong", false, false, true, true}, {"conf", "", false, false, true, true},
		{"pub2", "", true, true, true, true}, {"ghost", "", false, true, false, false},
		{"nogrant", "", true, true, false, false}, {"norefresh", "", true, true, true, false},
	}
	owners := []string{"pub", "pub", "conf", "conf", "pub2", "norefresh", "elsewhere"}
	seq := 0

	for i := 0; i < ns; i++ {
		if i%300 == 299 {
			reset()
		}

		switch op := r.Intn(10); {
		case op < 3 || len(codeNames) == 0: // issue (sometimes re-issue) a code
			var name string
			if len(codeNames) > 0 && r.Intn(8) == 0 {
				name = codeNames[r.Intn(len(codeNames))]
			} else {
				seq++
				name = fmt.Sprintf("c23s-%d-%s", seq, []string{"a", "é", "+/=", " "}[r.Intn(4)])
			}

			right := c23GenVerifier(r)
			c := &c23Code{owner: owners[r.Intn(len(owners))], redirect: c23Redirect, right: right}
			c.challenge = c23GenChallenge(r, right)
			c.method = c23Methods[r.Intn(len(c23Methods))]

			if r.Intn(10) == 0 {
				c.redirect = "https://other.example.com/cb"
			}

			if r.Intn(2) == 0 { // an honest authorization: registered owner, proper S256 challenge
				c.owner = owners[r.Intn(6)]
				c.challenge, c.method, c.redirect = c23S256(right), "S256", c23Redirect
			}

			if old, ok := codes[name]; ok {
				c.issues, c.oks = old.issues, old.oks
			} else {
				codeNames = append(codeNames, name)
			}

			c.issues++
			codes[name] = c

			storeCode(name, PendingAuthorization{ClientID: c.owner, RedirectURI: c.redirect, Scopes: []string{"openid"}, Username: "alice",
				CodeChallenge: c.challenge, CodeChallengeMethod: c.method, IssuedAt: time.Now()})
			cases.Write(verifh.Case{In: "issue " + verifh.Hex(name) + " " + verifh.Hex(c.owner) + " " + verifh.Hex(c.redirect) + " " + verifh.Hex(c.challenge) + " " + verifh.Hex(c.method), Impl: "ok"})
			stats.Inc("seq.issue")

		case op < 8 || len(refreshNames) == 0: // authorization_code request
			name := "c23s-unknown"
			c := &c23Code{}

			if r.Intn(12) != 0 {
				name = codeNames[r.Intn(len(codeNames))]
				c = codes[name]
			}

			cr := creds[r.Intn(len(creds))]
			if r.Intn(3) != 0 { // mostly the owner, so that requests get past the binding check
				for _, x := range creds {
					if x.id == c.owner && x.ok {
						cr = x

						break
					}
				}
			}

			redirect := c.redirect
			if r.Intn(10) == 0 {
				redirect = "https://evil.example.com/cb"
			}

			verifier := c23GenAttempt(r, c.right, c.challenge)

			if r.Intn(2) == 0 { // an honest request: the owner, its redirect URI, the right verifier
				verifier, redirect = c.right, c.redirect

				for _, x := range creds {
					if x.id == c.owner && x.ok {
						cr = x

						break
					}
				}
			}

			form := url.Values{}
			form.Set("grant_type", "authorization_code")
			form.Set("code", name)
			form.Set("redirect_uri", redirect)

			if verifier != "" || r.Intn(2) == 0 {
				form.Set("code_verifier", verifier)
			}

			var status int

			var body map[string]any

			if r.Intn(4) == 0 {
				status, body = c23Post(form, cr.id, cr.secret)
			} else {
				form.Set("client_id", cr.id)

				if cr.secret != "" {
					form.Set("client_secret", cr.secret)
				}

				status, body = c23Post(form, "", "")
			}

			ans := c23Answer(status, body)
			in := fmt.Sprintf("token %s %s %s %s %s %s %s", b(cr.ok), b(cr.allowsCode), b(cr.public), verifh.Hex(cr.id), verifh.Hex(redirect), verifh.Hex(name), verifh.Hex(c23S256(verifier)))
			cases.Write(verifh.Case{In: in, Impl: ans})
			stats.Inc("seq.token")
			stats.Inc("seq.token." + ans)

			desc := fmt.Sprintf("code=%q issued to client=%q challenge=%q method=%q; request by client=%q (authenticated=%v) redirect=%q verifier=%q", name, c.owner, c.challenge, c.method, cr.id, cr.ok, redirect, verifier)

			if ans == "ok" {
				c.oks++

				switch {
				case c.issues == 0 || c.oks > c.issues:
					fails.Write(verifh.Failure{Class: "code-redeemed-twice", What: "an authorization code yielded tokens more often than it was issued (sequential replay)", Input: desc, Got: fmt.Sprintf("%d successes", c.oks), Want: fmt.Sprintf("at most %d", c.issues)})
				case c.challenge != "" && !(c.method == "S256" && c23S256(verifier) == c.challenge):
					fails.Write(verifh.Failure{Class: "pkce-bypass", What: "tokens issued for a code with a PKCE challenge to a request whose verifier does not match (S256)", Input: desc})
				case c.challenge == "" && cr.public:
					fails.Write(verifh.Failure{Class: "pkce-bypass", What: "tokens issued to a public client for a code without a PKCE challenge", Input: desc})
				case !cr.ok || c.owner != cr.id || c.redirect != redirect:
					fails.Write(verifh.Failure{Class: "binding-bypass", What: "tokens issued to a request from another client / redirect URI / failed client authentication", Input: desc})
				}

				if rt, _ := body["refresh_token"].(string); rt != "" {
					refresh[rt] = &c23Code{owner: cr.id, issues: 1}
					refreshNames = append(refreshNames, rt)
					cases.Write(verifh.Case{In: "rissue " + verifh.Hex(rt) + " " + verifh.Hex(cr.id), Impl: "ok"})
				}
			}

		default: // refresh_token request
			name := "c23s-unknown-refresh"
			c := &c23Code{}

			if r.Intn(12) != 0 {
				name = refreshNames[r.Intn(len(refreshNames))]
				c = refresh[name]
			}

			cr := creds[r.Intn(len(creds))]
			if r.Intn(3) != 0 {
				for _, x := range creds {
					if x.id == c.owner && x.ok {
						cr = x

						break
					}
				}
			}

			form := url.Values{}
			form.Set("grant_type", "refresh_token")
			form.Set("refresh_token", name)
			form.Set("client_id", cr.id)

			if cr.secret != "" {
				form.Set("client_secret", cr.secret)
			}

			status, body := c23Post(form, "", "")
			ans := c23Answer(status, body)
			cases.Write(verifh.Case{In: fmt.Sprintf("rtoken %s %s %s %s", b(cr.ok), b(cr.allowsRefresh), verifh.Hex(cr.id), verifh.Hex(name)), Impl: ans})
			stats.Inc("seq.rtoken")
			stats.Inc("seq.rtoken." + ans)

			if ans == "ok" {
				c.oks++
				desc := fmt.Sprintf("refresh token %q of client %q presented by client %q (authenticated=%v)", name, c.owner, cr.id, cr.ok)

				switch {
				case c.oks > c.issues:
					fails.Write(verifh.Failure{Class: "refresh-redeemed-twice", What: "a refresh token was exchanged more than once (sequential replay)", Input: desc})
				case !cr.ok || c.owner != cr.id:
					fails.Write(verifh.Failure{Class: "binding-bypass", What: "refresh token exchanged by another client", Input: desc})
				}

				if rt, _ := body["refresh_token"].(string); rt != "" {
					refresh[rt] = &c23Code{owner: cr.id, issues: 1}
					refreshNames = append(refreshNames, rt)
					cases.Write(verifh.Case{In: "rissue " + verifh.Hex(rt) + " " + verifh.Hex(cr.id), Impl: "ok"})
				}
			}
		}
	}

	reset()
}
