//go:build verif && verifhook

package authserver

// Built when the tree under test has the verifPoint yield hook (fixes/C23-hook.patch:
// verif_on.go declares verifHook, consumeCode / consumeRefreshToken call
// verifPoint("consume.afterFind") between caches.Find and caches.Delete).

func c23InstallHook(f func(string)) bool {
	verifHook = f

	return true
}
