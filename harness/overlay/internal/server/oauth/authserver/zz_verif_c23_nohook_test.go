//go:build verif && !verifhook

package authserver

// Built when the tree under test has no yield hook: only the free-running streams run.

func c23InstallHook(func(string)) bool { return false }
