//go:build verif

package oauth

// C22 correspondence harness and direct oracle.
//
// Every history runs the REAL ValidateJWT / tokens.Blacklist / tokens.Delete / tokens.Flush /
// caches.Purge inside a testing/synctest bubble (virtual clock, real cache sweepers), against
//   * a JWKS document served from memory through idpClient (real refreshJWKS / keyByID parse it),
//   * a real SQLite blacklist table,
//   * tokens assembled by hand (header JSON, claims JSON, Method.Sign from golang-jwt) from a recipe
//     that fixes every attribute independently: signing key (published / unpublished / published for
//     encryption only / shadowed by a duplicate kid), signing method vs. header alg (RS*, ES*, PS*, HS*
//     keyed with a public key, none, EdDSA, mismatches), kid (right, wrong, unknown, absent, numeric),
//     tampering, iss, aud, exp, nbf, jti, user claims, malformed encodings.
//
// The identity provider is NOT static: a history may replace the JWKS document it serves (publish, withdraw,
// rotate under the same kid, reorder, serve a document without any usable key) and lets the virtual clock run
// past the configured JWKS cache TTL, so that the real jwksCache / keyByID TTL refresh and the unknown-kid
// cooldown decide which key set a token is verified against.
//
// Oracle (model-free, computed from the recipe and the harness's own clock/revocation/provider bookkeeping):
//   accepted ⇒ well-formed ∧ alg ∈ {RS*,ES*} ∧ signature made, untampered, by a key the provider has published
//              for signatures ∧ iss ∧ aud ∧ nbf ≤ now < exp ∧ jti not revoked now
//            ∧ the verifying key is TRUSTWORTHY NOW: it is in the provider's current document, or it was withdrawn
//              less than one JWKS TTL ago (the staleness keyByID allows: a cached key set is used while
//              age < ttl, so a key withdrawn at w can be honoured only while now − w < ttl), or this very token
//              string still has a live entry in the JWT result cache (it was accepted before and no eviction /
//              purge of that entry has been observed since — cache hits are not re-verified, by design)
//   all of that with the kid selecting the signer in every document served during the last TTL ∧ a user claim
//              ⇒ accepted with that user.
// Correspondence: the same history as protocol lines for `egodriver C22` (key-set changes as `keys` lines, the
// observed evictions of the JWT result cache as `evict` lines).

import (
	"bytes"
	"context"
	"crypto"
	"crypto/ecdsa"
	"crypto/ed25519"
	"crypto/elliptic"
	crand "crypto/rand"
	"crypto/rsa"
	"crypto/x509"
	"database/sql"
	"encoding/base64"
	"encoding/json"
	"fmt"
	"io"
	"math/big"
	"math/rand"
	"net/http"
	"os"
	"path/filepath"
	"sort"
	"strings"
	"sync"
	"testing"
	"testing/synctest"
	"time"

	"github.com/golang-jwt/jwt/v5"
	"github.com/tucats/ego/internal/caches"
	"github.com/tucats/ego/internal/errors"
	"github.com/tucats/ego/internal/language/tokens"
	"github.com/tucats/ego/internal/verifh"
)

const (
	c22Provider = "https://idp.verif.test"
	c22JWKSURL  = "https://idp.verif.test/jwks"
	c22Audience = "ego-api"
)

type c22Key struct {
	name string
	mat  int    // identity of the key material (≥ 1)
	kind string // rsa | p256 | p384 | p521 | ed
	priv crypto.Signer
}

type c22Jwk struct {
	key    *c22Key
	kid    string
	use    string
	broken string // "" | oct | crv | offcurve | b64
}

func (j c22Jwk) usable() bool {
	return (j.use == "" || j.use == "sig") && j.broken == "" && j.key.kind != "ed"
}

var c22Keys []*c22Key

func c22MakeKeys(t *testing.T) {
	mk := func(name, kind string) {
		var (
			p   crypto.Signer
			err error
		)

		switch kind {
		case "rsa":
			p, err = rsa.GenerateKey(crand.Reader, 2048)
		case "p256":
			p, err = ecdsa.GenerateKey(elliptic.P256(), crand.Reader)
		case "p384":
			p, err = ecdsa.GenerateKey(elliptic.P384(), crand.Reader)
		case "p521":
			p, err = ecdsa.GenerateKey(elliptic.P521(), crand.Reader)
		case "ed":
			_, p, err = ed25519.GenerateKey(crand.Reader)
		}

		if err != nil {
			t.Fatal(err)
		}

		c22Keys = append(c22Keys, &c22Key{name: name, mat: len(c22Keys) + 1, kind: kind, priv: p})
	}

	mk("rsaA", "rsa")
	mk("rsaB", "rsa")
	mk("ecA", "p256")
	mk("ecB", "p256")
	mk("ec384", "p384")
	mk("ec521", "p521")
	mk("rsaEvil", "rsa") // never published
	mk("ecEvil", "p256") // never published
	mk("edEvil", "ed")   // never publishable
}

func c22Key4(name string) *c22Key {
	for _, k := range c22Keys {
		if k.name == name {
			return k
		}
	}

	panic(name)
}

func b64(b []byte) string { return base64.RawURLEncoding.EncodeToString(b) }

// the JWKS document for a layout
func c22JWKSDoc(layout []c22Jwk) []byte {
	keys := []map[string]any{}

	for _, j := range layout {
		m := map[string]any{"kid": j.kid}
		if j.use != "" {
			m["use"] = j.use
		}

		switch pk := j.key.priv.Public().(type) {
		case *rsa.PublicKey:
			m["kty"] = "RSA"
			m["n"] = b64(pk.N.Bytes())
			m["e"] = b64(big.NewInt(int64(pk.E)).Bytes())

			if j.broken == "b64" {
				m["n"] = "!!!" + m["n"].(string)
			}
		case *ecdsa.PublicKey:
			m["kty"] = "EC"
			m["crv"] = pk.Curve.Params().Name
			size := (pk.Curve.Params().BitSize + 7) / 8
			x := pk.X.FillBytes(make([]byte, size))
			y := pk.Y.FillBytes(make([]byte, size))

			if j.broken == "crv" {
				m["crv"] = "P-999"
			}

			if j.broken == "offcurve" {
				y[len(y)-1] ^= 1
			}

			m["x"] = b64(x)
			m["y"] = b64(y)
		case ed25519.PublicKey:
			m["kty"] = "OKP"
			m["crv"] = "Ed25519"
			m["x"] = b64(pk)
		}

		if j.broken == "oct" {
			m["kty"] = "oct"
			m["k"] = b64([]byte("secret"))
		}

		keys = append(keys, m)
	}

	b, _ := json.Marshal(map[string]any{"keys": keys})

	return b
}

type c22RT struct{ body func() []byte }

func (r c22RT) RoundTrip(req *http.Request) (*http.Response, error) {
	if req.URL.String() != c22JWKSURL {
		return &http.Response{StatusCode: 404, Body: io.NopCloser(bytes.NewReader(nil)), Header: http.Header{}}, nil
	}

	return &http.Response{StatusCode: 200, Body: io.NopCloser(bytes.NewReader(r.body())), Header: http.Header{}}, nil
}

// ---------------------------------------------------------------- token recipes

type c22Recipe struct {
	signer   string // key name, "" = no signature material
	method   string // RS256.. ES256.. PS256.. HS256.. none EdDSA
	hdrAlg   string // header "alg" ("" = method)
	kid      any    // string | float64 | nil (absent)
	tamper   string // "" | payload | sig | trunc
	malform  string // "" | 2seg | 4seg | hdrb64 | hdrjson | noalg | claimsjson | expstring | unkalg | emptysig
	iss      any    // string or nil
	aud      any    // string, []string or nil
	exp      int64  // offset from T0; c22Absent = no claim
	nbf      int64
	iat      int64
	jti      string
	sub      string
	email    string
	pref     string
	clientID string
}

const c22Absent = int64(-1 << 40)

type c22Tok struct {
	id  int
	raw string
	rc  c22Recipe
	// ground truth, by construction
	parseOK  bool
	fam      string
	kidStr   string
	sigMat   int // material under which the signature verifies with the header's alg; 0 = none
	exp, nbf int64
	issOK    bool
	audOK    bool
}

func c22Method(name string) jwt.SigningMethod {
	if name == "none" {
		return jwt.SigningMethodNone
	}

	return jwt.GetSigningMethod(name)
}

func c22Fam(alg string) string {
	switch alg {
	case "RS256", "RS384", "RS512":
		return "r"
	case "ES256", "ES384", "ES512":
		return "e"
	}

	return "o"
}

func c22NaturalMethod(r *rand.Rand, kind string) string {
	switch kind {
	case "rsa":
		return []string{"RS256", "RS256", "RS384", "RS512"}[r.Intn(4)]
	case "p256":
		return "ES256"
	case "p384":
		return "ES384"
	case "p521":
		return "ES512"
	}

	return "EdDSA"
}

func c22Build(id int, rc c22Recipe, t0 int64, cfgAud string, layout []c22Jwk) *c22Tok {
	tk := &c22Tok{id: id, rc: rc, parseOK: true}
	hdrAlg := rc.hdrAlg

	if hdrAlg == "" {
		hdrAlg = rc.method
	}

	hdr := map[string]any{"typ": "JWT", "alg": hdrAlg}
	if rc.kid != nil {
		hdr["kid"] = rc.kid
	}

	if s, ok := rc.kid.(string); ok {
		tk.kidStr = s
	}

	if rc.malform == "noalg" {
		delete(hdr, "alg")
	}

	claims := map[string]any{}
	if rc.iss != nil {
		claims["iss"] = rc.iss
	}

	if rc.aud != nil {
		claims["aud"] = rc.aud
	}

	if rc.exp != c22Absent {
		claims["exp"] = t0 + rc.exp
		tk.exp = t0 + rc.exp
	}

	if rc.nbf != c22Absent {
		claims["nbf"] = t0 + rc.nbf
		tk.nbf = t0 + rc.nbf
	}

	if rc.iat != c22Absent {
		claims["iat"] = t0 + rc.iat
	}

	if rc.malform == "expstring" {
		claims["exp"] = "tomorrow" // (a quoted NUMBER is accepted by json.Number, so it would not be malformed)
	}

	for k, v := range map[string]string{"jti": rc.jti, "sub": rc.sub, "email": rc.email, "preferred_username": rc.pref, "client_id": rc.clientID} {
		if v != "" {
			claims[k] = v
		}
	}

	claims["scope"] = "openid ego:read"

	if s, ok := rc.iss.(string); ok && s == c22Provider {
		tk.issOK = true
	}

	if cfgAud != "" {
		switch a := rc.aud.(type) {
		case string:
			tk.audOK = a == cfgAud
		case []string:
			for _, x := range a {
				if x == cfgAud {
					tk.audOK = true
				}
			}
		}
	}

	hb, _ := json.Marshal(hdr)
	cb, _ := json.Marshal(claims)
	h, c := b64(hb), b64(cb)

	switch rc.malform {
	case "hdrb64":
		h = "%%%" + h
	case "hdrjson":
		h = b64([]byte("{not json"))
	case "claimsjson":
		c = b64([]byte(`{"sub":"alice",`))
	}

	signing := h + "." + c

	var sig []byte

	signed := false
	m := c22Method(rc.method)

	switch {
	case rc.method == "none":
		sig, _ = m.Sign(signing, jwt.UnsafeAllowNoneSignatureType)
	case strings.HasPrefix(rc.method, "HS"):
		// the classic confusion attack: HMAC keyed with the DER of a published public key
		der, _ := x509.MarshalPKIXPublicKey(c22Key4(rc.signer).priv.Public())
		sig, _ = m.Sign(signing, der)
	case rc.signer != "":
		var err error

		sig, err = m.Sign(signing, c22Key4(rc.signer).priv)
		if err != nil {
			panic(fmt.Sprintf("sign %s with %s: %v", rc.method, rc.signer, err))
		}

		signed = true
	default:
		sig = []byte("no signature at all")
	}

	if len(sig) == 0 && (rc.tamper == "sig" || rc.tamper == "trunc") {
		rc.tamper = ""
		tk.rc = rc
	}

	switch rc.tamper {
	case "payload":
		// re-encode different claims under the old signature: an escalation attempt
		claims["sub"] = "alice"
		claims["exp"] = t0 + 100000
		tk.exp = t0 + 100000
		rc.sub = "alice"
		tk.rc = rc
		cb, _ = json.Marshal(claims)
		c = b64(cb)
		signed = false
	case "sig":
		sig[len(sig)/2] ^= 0x40
		signed = false
	case "trunc":
		sig = sig[:len(sig)-1]
		signed = false
	}

	if rc.malform == "emptysig" {
		sig = nil
		signed = false
	}

	if signed && hdrAlg == rc.method {
		tk.sigMat = c22Key4(rc.signer).mat
	}

	tk.fam = c22Fam(hdrAlg)
	tk.raw = h + "." + c + "." + b64(sig)

	switch rc.malform {
	case "2seg":
		tk.raw = h + "." + c
	case "4seg":
		tk.raw += "." + b64(sig)
	}

	if rc.malform != "" && rc.malform != "emptysig" {
		tk.parseOK = false
	}

	if rc.malform == "unkalg" {
		tk.parseOK = false
	}

	if jwt.GetSigningMethod(hdrAlg) == nil && hdrAlg != "none" {
		tk.parseOK = false // "signing method (alg) is unavailable"
	}

	_ = layout

	return tk
}

// ---------------------------------------------------------------- generators

func c22GenLayout(r *rand.Rand) []c22Jwk {
	pub := []string{"rsaA", "rsaB", "ecA", "ecB", "ec384", "ec521"}

	for {
		n := 1 + r.Intn(6)
		lay := []c22Jwk{}

		for i := 0; i < n; i++ {
			j := c22Jwk{key: c22Key4(pub[r.Intn(len(pub))]), kid: fmt.Sprintf("k%d", i+1)}

			switch x := r.Intn(20); {
			case x < 2 && i > 0:
				j.kid = lay[r.Intn(i)].kid // duplicate kid: the first entry shadows this one
			case x == 2:
				j.kid = ""
			}

			switch x := r.Intn(20); {
			case x < 2:
				j.use = "enc"
			case x < 8:
				j.use = "sig"
			}

			switch x := r.Intn(24); {
			case x == 0:
				j.broken = "oct"
			case x == 1 && j.key.kind != "rsa":
				j.broken = "crv"
			case x == 2 && j.key.kind != "rsa":
				j.broken = "offcurve"
			case x == 3 && j.key.kind == "rsa":
				j.broken = "b64"
			}

			lay = append(lay, j)
		}

		if r.Intn(10) == 0 {
			lay = append(lay, c22Jwk{key: c22Key4("edEvil"), kid: "ed"})
		}

		for _, j := range lay {
			if j.usable() {
				return lay
			}
		}
	}
}

func c22Usable(layout []c22Jwk) bool {
	for _, j := range layout {
		if j.usable() {
			return true
		}
	}

	return false
}

// c22MutateLayout: the next document the provider serves, derived from the documents served so far.
func c22MutateLayout(r *rand.Rand, all [][]c22Jwk) []c22Jwk {
	pub := []string{"rsaA", "rsaB", "ecA", "ecB", "ec384", "ec521"}
	lay := append([]c22Jwk{}, all[len(all)-1]...)

	switch x := r.Intn(24); {
	case x < 9 && len(lay) > 0: // withdraw one key
		i := r.Intn(len(lay))
		lay = append(lay[:i:i], lay[i+1:]...)
	case x < 12: // publish one more key under a new kid, first or last in the document
		j := c22Jwk{key: c22Key4(pub[r.Intn(len(pub))]), kid: fmt.Sprintf("n%d", len(all))}
		if r.Intn(2) == 0 {
			lay = append([]c22Jwk{j}, lay...)
		} else {
			lay = append(lay, j)
		}
	case x < 16 && len(lay) > 0: // rotate: other key material under the same kid
		i := r.Intn(len(lay))
		lay[i].key = c22Key4(pub[r.Intn(len(pub))])
		lay[i].broken = ""
	case x < 18 && len(lay) > 1: // the same keys in another order (the first one serves tokens without kid)
		i := 1 + r.Intn(len(lay)-1)
		lay[0], lay[i] = lay[i], lay[0]
	case x < 20 && len(all) > 1: // an earlier document comes back
		lay = append([]c22Jwk{}, all[r.Intn(len(all)-1)]...)
	case x < 22: // a wholly different document
		lay = c22GenLayout(r)
	case x < 23: // a document without any usable signature key (refreshJWKS: ErrJWKSNoKeys)
		lay = []c22Jwk{{key: c22Key4("rsaB"), kid: "enc-only", use: "enc"}}
	default: // {"keys":[]}
		lay = []c22Jwk{}
	}

	return lay
}

var (
	c22JTIs  = []string{"", "jti-1", "jti-2", "jti-3", "jti-4"}
	c22Exps  = []int64{-3600, -1, 0, 1, 7, 30, 59, 61, 100, 100, 250, 250, 900, 900, 4000}
	c22Nbfs  = []int64{-5, 0, 1, 10, 45, 120}
	c22Steps = []int{1, 1, 2, 5, 29, 30, 31, 59, 60, 61, 90, 119, 121, 300}
)

func c22GenRecipe(r *rand.Rand, layout []c22Jwk, cfgAud string) c22Recipe {
	rc := c22Recipe{exp: c22Exps[r.Intn(len(c22Exps))], nbf: c22Absent, iat: c22Absent}

	usable := []c22Jwk{}
	for _, j := range layout {
		if j.usable() {
			usable = append(usable, j)
		}
	}

	// signer
	var signerEntry *c22Jwk

	switch x := r.Intn(20); {
	case x < 14:
		j := usable[r.Intn(len(usable))]
		signerEntry = &j
		rc.signer = j.key.name
	case x < 16:
		j := layout[r.Intn(len(layout))] // possibly enc-only / broken / shadowed
		signerEntry = &j
		rc.signer = j.key.name
	case x < 18:
		rc.signer = []string{"rsaEvil", "ecEvil"}[r.Intn(2)]
	case x < 19:
		rc.signer = "edEvil"
	default:
		rc.signer = c22Keys[r.Intn(6)].name // a genuine key that this layout may not publish
	}

	kind := c22Key4(rc.signer).kind
	rc.method = c22NaturalMethod(r, kind)

	switch x := r.Intn(40); {
	case x < 3 && kind == "rsa":
		rc.method = []string{"PS256", "PS384", "PS512"}[r.Intn(3)]
	case x == 3 && kind != "ed":
		rc.method = []string{"HS256", "HS384", "HS512"}[r.Intn(3)]
	case x == 4:
		rc.method = "none"
	case x == 5 && kind == "rsa":
		rc.hdrAlg = []string{"RS256", "RS384", "RS512", "PS256"}[r.Intn(4)] // may differ from the method used
	case x == 6:
		rc.hdrAlg = []string{"none", "rs256", "XS256", "HS256", "ES256", "RS256"}[r.Intn(6)]
	}

	// kid
	switch x := r.Intn(20); {
	case x < 13 && signerEntry != nil:
		rc.kid = signerEntry.kid
	case x < 15:
		rc.kid = nil
	case x < 17:
		rc.kid = layout[r.Intn(len(layout))].kid
	case x < 18:
		rc.kid = fmt.Sprintf("unknown-%d", r.Intn(3))
	case x < 19:
		rc.kid = float64(7)
	default:
		rc.kid = ""
	}

	if s, ok := rc.kid.(string); ok && s == "" && r.Intn(2) == 0 {
		rc.kid = nil
	}

	switch x := r.Intn(30); {
	case x == 0:
		rc.tamper = "payload"
	case x == 1:
		rc.tamper = "sig"
	case x == 2:
		rc.tamper = "trunc"
	}

	if r.Intn(25) == 0 {
		rc.malform = []string{"2seg", "4seg", "hdrb64", "hdrjson", "noalg", "claimsjson", "expstring", "emptysig"}[r.Intn(8)]
	}

	switch x := r.Intn(20); {
	case x < 15:
		rc.iss = c22Provider
	case x == 15:
		rc.iss = c22Provider + "/"
	case x == 16:
		rc.iss = "https://evil.test"
	case x == 17:
		rc.iss = ""
	case x == 18:
		rc.iss = strings.ToUpper(c22Provider)
	}

	switch x := r.Intn(20); {
	case x < 9:
		rc.aud = []string{c22Audience}
	case x < 12:
		rc.aud = c22Audience
	case x < 14:
		rc.aud = []string{"other", c22Audience}
	case x == 14:
		rc.aud = []string{"other"}
	case x == 15:
		rc.aud = "other"
	case x == 16:
		rc.aud = ""
	case x == 17:
		rc.aud = []string{""}
	case x == 18:
		rc.aud = []string{c22Audience + "x", "x" + c22Audience}
	}

	if r.Intn(25) == 0 {
		rc.exp = c22Absent
	}

	if r.Intn(4) == 0 {
		rc.nbf = c22Nbfs[r.Intn(len(c22Nbfs))]
	}

	if r.Intn(6) == 0 {
		rc.iat = []int64{-10, 5000}[r.Intn(2)]
	}

	rc.jti = c22JTIs[r.Intn(len(c22JTIs))]
	rc.sub = []string{"alice", "alice", "bob", "bob", ""}[r.Intn(5)]
	rc.email = []string{"", "", "a@verif.test"}[r.Intn(3)]
	rc.pref = []string{"", "", "al"}[r.Intn(3)]
	rc.clientID = []string{"", "", "svc"}[r.Intn(3)]
	_ = cfgAud

	return rc
}

// c22CleanRecipe: a token that meets every acceptance condition at T0 (for the configured audience too).
func c22CleanRecipe(r *rand.Rand, layout []c22Jwk) c22Recipe {
	// the entry a kid selects is the FIRST usable entry with that kid; with an empty kid, the first usable entry
	var cands []c22Jwk

	seen := map[string]bool{}
	first := true

	for _, j := range layout {
		if !j.usable() {
			continue
		}

		if (j.kid != "" && !seen[j.kid]) || (j.kid == "" && first) {
			cands = append(cands, j)
		}

		seen[j.kid] = true
		first = false
	}

	j := cands[r.Intn(len(cands))]
	rc := c22Recipe{signer: j.key.name, method: c22NaturalMethod(r, j.key.kind), kid: j.kid, iss: c22Provider,
		aud: []any{[]string{c22Audience}, c22Audience, []string{"other", c22Audience}}[r.Intn(3)],
		exp: []int64{30, 59, 61, 100, 250, 900, 4000}[r.Intn(7)], nbf: c22Absent, iat: c22Absent,
		jti: c22JTIs[r.Intn(len(c22JTIs))], sub: []string{"alice", "bob"}[r.Intn(2)],
		email: []string{"", "a@verif.test"}[r.Intn(2)], pref: []string{"", "al"}[r.Intn(2)]}

	if j.kid == "" {
		rc.kid = nil
	}

	if r.Intn(8) == 0 {
		rc.nbf = -5
	}

	return rc
}

// ---------------------------------------------------------------- histories

type c22Op struct {
	kind string // p rev unrev flush adv advto purge keys wf
	tok  int
	jti  string // rev/unrev: the jti; wf: the write fault that holds from now on ("trigger", "lock", "off")
	dt   int
	lay  int // keys: index into c22History.layouts of the document the provider serves from now on
}

type c22History struct {
	name      string
	layout    []c22Jwk   // the document served when the server starts (= layouts[0] when layouts is set)
	layouts   [][]c22Jwk // every document the provider serves in this history
	cfgAud    string
	userClaim string
	jwtTTL    int
	jwksTTL   int
	recipes   []c22Recipe
	ops       []c22Op

	// "" = the server owns the revocation store read-write; "ro" = this server instance has the credentials
	// database open READ-ONLY (read-only mount / replica): rows are written by another instance (the harness's
	// second connection), every audit UPDATE of IsIDBlacklisted fails with SQLITE_READONLY
	store string
}

func c22GenHistory(r *rand.Rand, name string) c22History {
	h := c22History{name: name, layout: c22GenLayout(r), cfgAud: c22Audience, userClaim: "sub"}

	if r.Intn(4) == 0 {
		h.cfgAud = ""
	}

	h.userClaim = []string{"sub", "sub", "email", "preferred_username", "nickname"}[r.Intn(5)]
	h.jwtTTL = []int{20, 90, 90, 3600}[r.Intn(4)]
	h.jwksTTL = []int{45, 120, 3600}[r.Intn(3)]
	h.layouts = [][]c22Jwk{h.layout}

	// two histories in five: the provider changes its document one to three times
	rot := r.Intn(5) < 2
	if rot {
		h.jwksTTL = []int{45, 45, 120, 120, 3600}[r.Intn(5)]

		for k := 1 + r.Intn(3); k > 0; k-- {
			h.layouts = append(h.layouts, c22MutateLayout(r, h.layouts))
		}
	}

	// tokens are made for any of the documents (a key not yet published, a key withdrawn later, …)
	var made [][]c22Jwk

	for _, l := range h.layouts {
		if c22Usable(l) {
			made = append(made, l)
		}
	}

	nt := 3 + r.Intn(6)
	recipeLayout := make([][]c22Jwk, nt)

	for i := 0; i < nt; i++ {
		recipeLayout[i] = made[r.Intn(len(made))]
		h.recipes = append(h.recipes, c22GenRecipe(r, recipeLayout[i], h.cfgAud))
	}

	// mostly-valid bias: half of the tokens are clean (usable signer, matching kid, natural method, good
	// claims); half of those then get exactly ONE attribute group of a hostile recipe (single-fault tokens)
	for i := range h.recipes {
		if r.Intn(2) == 0 {
			continue
		}

		hr := h.recipes[i]
		rc := c22CleanRecipe(r, recipeLayout[i])

		if r.Intn(2) == 0 {
			switch r.Intn(11) {
			case 0:
				rc.signer, rc.method, rc.hdrAlg, rc.kid = hr.signer, hr.method, hr.hdrAlg, hr.kid
			case 1:
				rc.kid = hr.kid
			case 2:
				rc.tamper = []string{"payload", "sig", "trunc"}[r.Intn(3)]
			case 3:
				rc.malform = hr.malform
			case 4:
				rc.iss = hr.iss
			case 5:
				rc.aud = hr.aud
			case 6:
				rc.exp = hr.exp
			case 7:
				rc.nbf = hr.nbf
			case 8:
				rc.sub, rc.email, rc.pref, rc.clientID = hr.sub, hr.email, hr.pref, hr.clientID
			case 9:
				if c22Key4(rc.signer).kind == "rsa" {
					rc.method = []string{"PS256", "PS384", "PS512", "HS256", "none"}[r.Intn(5)]
				} else {
					rc.method = []string{"HS256", "none"}[r.Intn(2)]
				}
			case 10:
				if c22Key4(rc.signer).kind == "rsa" {
					rc.hdrAlg = []string{"RS256", "RS384", "RS512", "PS256", "none"}[r.Intn(5)]
				} else {
					rc.hdrAlg = []string{"ES256", "ES384", "ES512", "none", "es256"}[r.Intn(5)]
				}
			}
		}

		h.recipes[i] = rc
	}

	steps := c22Steps
	if rot {
		steps = append(append([]int{}, c22Steps...), h.jwksTTL-1, h.jwksTTL, h.jwksTTL+1, h.jwksTTL+1, h.jwksTTL-29, h.jwksTTL/2)
	}

	n := 12 + r.Intn(30)

	// the document changes happen in order, at random places of the history
	keysAt := map[int]int{}
	for k := 1; k < len(h.layouts); k++ {
		keysAt[(k*n)/len(h.layouts)-r.Intn(1+n/(2*len(h.layouts)))] = k
	}

	for i := 0; i < n; i++ {
		if k, ok := keysAt[i]; ok {
			h.ops = append(h.ops, c22Op{kind: "keys", lay: k})
		}

		switch x := r.Intn(100); {
		case x < 58:
			h.ops = append(h.ops, c22Op{kind: "p", tok: r.Intn(nt)})
		case x < 70:
			j := c22JTIs[1+r.Intn(len(c22JTIs)-1)]
			if r.Intn(3) > 0 {
				if jj := h.recipes[r.Intn(nt)].jti; jj != "" {
					j = jj
				}
			}

			h.ops = append(h.ops, c22Op{kind: "rev", jti: j})
		case x < 75:
			h.ops = append(h.ops, c22Op{kind: "unrev", jti: c22JTIs[1+r.Intn(len(c22JTIs)-1)]})
		case x < 77:
			h.ops = append(h.ops, c22Op{kind: "flush"})
		case x < 88:
			h.ops = append(h.ops, c22Op{kind: "adv", dt: steps[r.Intn(len(steps))]})
		case x < 94:
			h.ops = append(h.ops, c22Op{kind: "advto", tok: r.Intn(nt), dt: r.Intn(3) - 1}) // to exp-1 / exp / exp+1 (or nbf)
		default:
			h.ops = append(h.ops, c22Op{kind: "purge"})
		}
	}

	// one history in four: the audit write of the revocation lookup (the "last used" UPDATE of
	// tokens.IsIDBlacklisted) fails during one or two stretches of the history — half of them from the very
	// first operation on. Reads of the revocation list keep working.
	if r.Intn(4) == 0 {
		var at []int
		if r.Intn(2) == 0 {
			at = append(at, 0)
		}

		for k := 1 + r.Intn(3); k > 0; k-- {
			at = append(at, r.Intn(len(h.ops)+1))
		}

		sort.Ints(at)

		var ops []c22Op

		on, next := false, 0

		for i := 0; i <= len(h.ops); i++ {
			for next < len(at) && at[next] == i {
				on = !on
				ops = append(ops, c22Op{kind: "wf", jti: map[bool]string{true: "trigger", false: "off"}[on]})
				next++
			}

			if i < len(h.ops) {
				ops = append(ops, h.ops[i])
			}
		}

		h.ops = ops
	}

	return h
}

func c22Corpus() []c22History {
	lay := []c22Jwk{
		{key: c22Key4("ecA"), kid: "e1"}, {key: c22Key4("rsaA"), kid: "r1", use: "sig"},
		{key: c22Key4("rsaB"), kid: "enc1", use: "enc"}, {key: c22Key4("ecB"), kid: "e1"}, // shadowed by the first e1
		{key: c22Key4("ec384"), kid: "e3"}, {key: c22Key4("ec521"), kid: "bad", broken: "crv"},
	}
	good := func(signer, method, kid, jti string) c22Recipe {
		return c22Recipe{signer: signer, method: method, kid: kid, iss: c22Provider, aud: []string{c22Audience},
			exp: 300, nbf: c22Absent, iat: c22Absent, jti: jti, sub: "alice"}
	}
	with := func(rc c22Recipe, f func(*c22Recipe)) c22Recipe { f(&rc); return rc }
	p := func(i int) c22Op { return c22Op{kind: "p", tok: i} }
	adv := func(d int) c22Op { return c22Op{kind: "adv", dt: d} }
	rev := func(j string) c22Op { return c22Op{kind: "rev", jti: j} }
	base := c22History{layout: lay, cfgAud: c22Audience, userClaim: "sub", jwtTTL: 90, jwksTTL: 120}
	mk := func(name string, rcs []c22Recipe, ops ...c22Op) c22History {
		h := base
		h.name, h.recipes, h.ops = name, rcs, ops

		return h
	}

	// ---- the provider changes its document (jwksTTL 120 s, JWT result cache 90 s)
	ec := func(name, kid string) c22Jwk { return c22Jwk{key: c22Key4(name), kid: kid} }
	docA := []c22Jwk{ec("ecA", "a1"), ec("rsaA", "r1")}
	docB := []c22Jwk{ec("rsaA", "r1"), ec("ecB", "b1")}          // a1 withdrawn, b1 published
	docA2 := []c22Jwk{ec("ec384", "a1"), ec("rsaA", "r1")}       // a1 rotated to other key material
	docNone := []c22Jwk{{key: c22Key4("rsaB"), kid: "enc1", use: "enc"}}
	long := func(rc c22Recipe) c22Recipe { rc.exp = 4000; return rc }
	keys := func(i int) c22Op { return c22Op{kind: "keys", lay: i} }
	mkr := func(name string, docs [][]c22Jwk, rcs []c22Recipe, ops ...c22Op) c22History {
		h := base
		h.name, h.layout, h.layouts, h.recipes, h.ops = name, docs[0], docs, rcs, ops

		return h
	}
	nokid := func(rc c22Recipe) c22Recipe { rc.kid = nil; return rc }

	rotation := []c22History{
		// a key is withdrawn; tokens made with it stay acceptable for less than one JWKS TTL, then never again
		mkr("withdrawn-key-jwks-ttl", [][]c22Jwk{docA, docB}, []c22Recipe{
			long(good("ecA", "ES256", "a1", "jti-1")), long(good("ecA", "ES256", "a1", "jti-2")),
			long(good("ecA", "ES256", "a1", "jti-3")), long(good("rsaA", "RS256", "r1", "jti-4")),
		}, p(0), keys(1), adv(119), p(1), adv(1), p(2), p(3), adv(200), p(0), p(1), p(2), p(3)),
		mkr("withdrawn-key-never-seen-token", [][]c22Jwk{docA, docB}, []c22Recipe{
			long(good("ecA", "ES256", "a1", "jti-1")), long(good("ecA", "ES256", "a1", "")), long(good("rsaA", "RS256", "r1", "")),
		}, p(0), p(2), keys(1), adv(60), p(2), adv(60), p(2), adv(1), p(1), p(2), p(0)),
		// a new kid appears: one refresh, then the cooldown, then the TTL
		mkr("published-key-unknown-kid", [][]c22Jwk{docA, docB, docA}, []c22Recipe{
			long(good("ecB", "ES256", "b1", "jti-1")), long(good("ecA", "ES256", "a1", "jti-2")), long(good("ecB", "ES256", "b1", "jti-3")),
		}, p(0), keys(1), p(0), p(1), keys(2), p(1), adv(29), p(1), adv(2), p(1), p(2), adv(120), p(2), p(0)),
		// other key material under the same kid
		mkr("rotated-under-same-kid", [][]c22Jwk{docA, docA2}, []c22Recipe{
			long(good("ecA", "ES256", "a1", "jti-1")), long(good("ec384", "ES384", "a1", "jti-2")), long(good("ecA", "ES256", "a1", "jti-3")),
		}, p(0), p(1), keys(1), p(1), adv(119), p(1), p(2), adv(1), p(1), p(2), p(0)),
		// the provider serves a document without usable keys: the refresh fails, nothing with a kid verifies after the TTL
		mkr("document-without-keys", [][]c22Jwk{docA, docNone, docB}, []c22Recipe{
			long(good("ecA", "ES256", "a1", "jti-1")), long(good("rsaA", "RS256", "r1", "jti-2")), long(good("ecB", "ES256", "b1", "jti-3")),
		}, p(0), keys(1), adv(121), p(0), p(1), keys(2), p(1), p(2), p(0)),
		// tokens WITHOUT kid are verified with the first cached key whatever the age of the cache
		mkr("withdrawn-key-token-without-kid", [][]c22Jwk{docA, docB}, []c22Recipe{
			long(nokid(good("ecA", "ES256", "", "jti-1"))), long(nokid(good("ecA", "ES256", "", "jti-2"))), long(nokid(good("rsaA", "RS256", "", "jti-3"))),
		}, p(0), keys(1), adv(121), p(1), p(2), adv(200), p(0)),
	}

	// ---- the audit write of the revocation lookup fails (tokens.IsIDBlacklisted stamps "last used" on the row
	// it found): UPDATE refused by a trigger (stands for disk full / constraint / I/O error), credentials
	// database opened read-only, write lock held by another connection past the busy timeout. The row was READ:
	// the token is revoked and must be rejected whatever the write says, on both lookups of ValidateJWT
	// (result-cache hit, step 5b) and with a cold BlacklistCache (right after the revocation, after its entry aged out).
	wf := func(k string) c22Op { return c22Op{kind: "wf", jti: k} }
	purge := c22Op{kind: "purge"}
	unrev := func(j string) c22Op { return c22Op{kind: "unrev", jti: j} }

	var faults []c22History

	for _, k := range []string{"trigger", "ro", "lock"} {
		hs := []c22History{
			mk("audit-write-fails-"+k+"-never-seen", []c22Recipe{good("ecA", "ES256", "e1", "jti-1")},
				rev("jti-1"), wf(k), p(0), wf("off"), p(0)),
			mk("audit-write-fails-"+k+"-result-cache-hit", []c22Recipe{good("rsaA", "RS256", "r1", "jti-1")},
				p(0), rev("jti-1"), wf(k), p(0), p(0), wf("off"), p(0)),
			mk("audit-write-fails-"+k+"-after-purge", []c22Recipe{good("ecA", "ES256", "e1", "jti-2")},
				p(0), purge, rev("jti-2"), wf(k), p(0), p(0)),
			mk("audit-write-fails-"+k+"-blacklist-cache-aged-out", []c22Recipe{long(good("ecA", "ES256", "e1", "jti-2")), long(good("rsaA", "RS256", "r1", "jti-2"))},
				p(0), rev("jti-2"), p(0), adv(200), wf(k), p(1), p(0), p(1)),
			mk("audit-write-fails-"+k+"-shared-jti", []c22Recipe{good("ecA", "ES256", "e1", "jti-3"), good("rsaA", "RS384", "r1", "jti-3"), good("rsaA", "RS256", "r1", "jti-4")},
				p(0), rev("jti-3"), wf(k), p(1), p(0), p(2)),
		}

		switch k {
		case "lock":
			// every cold lookup of a revoked jti waits out the store's 5 s busy timeout (real time)
			hs = hs[:verifh.N(1, len(hs))]
		default:
			hs = append(hs, mk("audit-write-fails-"+k+"-unrevoked-again", []c22Recipe{good("rsaA", "RS256", "r1", "jti-1"), good("ecA", "ES256", "e1", "jti-4")},
				p(0), wf(k), rev("jti-1"), p(0), p(1), unrev("jti-1"), p(0), rev("jti-4"), p(1), p(0)))
		}

		for i := range hs {
			if k == "ro" {
				hs[i].store = "ro"
			}
		}

		faults = append(faults, hs...)
	}

	return append(append(rotation, faults...),
		// the defect of the design round: revoked before it was ever presented
		mk("revoked-before-first-seen", []c22Recipe{good("ecA", "ES256", "e1", "jti-1")}, rev("jti-1"), p(0), p(0)),
		mk("revoke-then-unrevoke", []c22Recipe{good("rsaA", "RS256", "r1", "jti-1")}, p(0), rev("jti-1"), p(0), p(0),
			c22Op{kind: "unrev", jti: "jti-1"}, p(0), rev("jti-1"), c22Op{kind: "flush"}, p(0)),
		mk("revoked-after-purge", []c22Recipe{good("ecA", "ES256", "e1", "jti-2")}, p(0), c22Op{kind: "purge"}, rev("jti-2"), p(0), p(0)),
		mk("revoked-after-cache-expiry", []c22Recipe{with(good("ecA", "ES256", "e1", "jti-2"), func(r *c22Recipe) { r.exp = 4000 })},
			p(0), rev("jti-2"), adv(200), p(0), adv(200), p(0)),
		mk("shared-jti", []c22Recipe{good("ecA", "ES256", "e1", "jti-3"), good("rsaA", "RS384", "r1", "jti-3"), good("rsaA", "RS256", "r1", "jti-4")},
			p(0), rev("jti-3"), p(1), p(0), p(2)),
		mk("exp-boundary", []c22Recipe{with(good("ecA", "ES256", "e1", "jti-1"), func(r *c22Recipe) { r.exp = 50 })},
			adv(49), p(0), adv(1), p(0), adv(1), p(0)),
		mk("exp-boundary-cached-long-ttl", []c22Recipe{with(good("ecA", "ES256", "e1", ""), func(r *c22Recipe) { r.exp = 50 })},
			p(0), adv(49), p(0), adv(1), p(0), p(0)),
		mk("nbf", []c22Recipe{with(good("ecA", "ES256", "e1", "jti-1"), func(r *c22Recipe) { r.nbf = 40 })},
			p(0), adv(39), p(0), adv(1), p(0)),
		mk("algs", []c22Recipe{
			with(good("rsaA", "none", "r1", "jti-1"), func(r *c22Recipe) {}),
			with(good("rsaA", "HS256", "r1", "jti-1"), func(r *c22Recipe) {}),
			with(good("rsaA", "PS256", "r1", "jti-1"), func(r *c22Recipe) {}),
			with(good("rsaA", "PS512", "r1", "jti-1"), func(r *c22Recipe) {}),
			with(good("rsaA", "RS512", "r1", "jti-1"), func(r *c22Recipe) { r.hdrAlg = "RS256" }),
			with(good("edEvil", "EdDSA", "r1", "jti-1"), func(r *c22Recipe) {}),
			with(good("rsaA", "RS256", "r1", "jti-1"), func(r *c22Recipe) { r.hdrAlg = "none" }),
			good("rsaA", "RS512", "r1", "jti-1"),
		}, p(0), p(1), p(2), p(3), p(4), p(5), p(6), p(7), p(2)),
		mk("kids", []c22Recipe{
			good("ecB", "ES256", "e1", "jti-1"),    // signed by the shadowed duplicate
			good("rsaB", "RS256", "enc1", "jti-1"), // published for encryption only
			good("rsaA", "RS256", "e1", "jti-1"),   // kid of another key
			good("rsaA", "RS256", "nope", "jti-1"), // unknown kid (refresh, cooldown)
			with(good("ecA", "ES256", "", "jti-1"), func(r *c22Recipe) { r.kid = nil }),
			with(good("rsaA", "RS256", "", "jti-1"), func(r *c22Recipe) { r.kid = nil }),
			with(good("ecA", "ES256", "", "jti-1"), func(r *c22Recipe) { r.kid = float64(3) }),
			good("rsaEvil", "RS256", "r1", "jti-1"),
			good("ec521", "ES512", "bad", "jti-1"),
			good("ec384", "ES384", "e3", "jti-1"),
		}, p(0), p(1), p(2), p(3), p(3), adv(31), p(3), p(4), p(5), p(6), p(7), p(8), p(9), adv(130), p(9), p(3), p(0)),
		mk("claims", []c22Recipe{
			with(good("ecA", "ES256", "e1", ""), func(r *c22Recipe) { r.iss = c22Provider + "/" }),
			with(good("ecA", "ES256", "e1", ""), func(r *c22Recipe) { r.iss = nil }),
			with(good("ecA", "ES256", "e1", ""), func(r *c22Recipe) { r.aud = []string{"other"} }),
			with(good("ecA", "ES256", "e1", ""), func(r *c22Recipe) { r.aud = nil }),
			with(good("ecA", "ES256", "e1", ""), func(r *c22Recipe) { r.exp = c22Absent }),
			with(good("ecA", "ES256", "e1", ""), func(r *c22Recipe) { r.sub = ""; r.clientID = "svc" }),
			with(good("ecA", "ES256", "e1", ""), func(r *c22Recipe) { r.sub = "" }),
			with(good("ecA", "ES256", "e1", ""), func(r *c22Recipe) { r.tamper = "payload"; r.sub = "bob" }),
			with(good("ecA", "ES256", "e1", ""), func(r *c22Recipe) { r.iat = 5000 }),
		}, p(0), p(1), p(2), p(3), p(4), p(5), p(6), p(7), p(8), p(5)),
	)
}

// ---------------------------------------------------------------- running a history

type c22Run struct {
	cases *verifh.Writer
	fails *verifh.Writer
	stats *verifh.Stats
	ids   map[string]int
	seen  map[string]bool
	nfail int

	// evictions of JWT result cache entries reported by the real cache (caches.SetOnEvict): expiry sweeps
	// and Delete calls
	evMu    sync.Mutex
	evicted []string

	// fault injection into the revocation store: a second connection to the same SQLite file (another server
	// instance / administrator / backup); `fault` is the write fault in force ("", "trigger", "lock")
	side  *sql.Conn
	fault string
}

// c22RefuseUpdates makes every UPDATE of the blacklist table fail (INSERT, DELETE and SELECT keep working).
const c22RefuseUpdates = `CREATE TRIGGER IF NOT EXISTS verif_refuse_update BEFORE UPDATE ON blacklist BEGIN SELECT RAISE(FAIL, 'verif: injected write failure'); END`

func (x *c22Run) sideExec(q string, args ...any) (int64, error) {
	res, err := x.side.ExecContext(context.Background(), q, args...)
	if err != nil {
		return 0, err
	}

	n, _ := res.RowsAffected()

	return n, nil
}

// setFault installs the write fault `kind` ("trigger", "lock") or lifts the one in force ("off").
func (x *c22Run) setFault(t *testing.T, kind string) {
	var err error

	switch x.fault {
	case "trigger":
		_, err = x.sideExec("DROP TRIGGER IF EXISTS verif_refuse_update")
	case "lock":
		_, err = x.sideExec("ROLLBACK")
	}

	if err != nil {
		t.Fatalf("lifting the write fault %q: %v", x.fault, err)
	}

	x.fault = ""

	switch kind {
	case "trigger":
		_, err = x.sideExec(c22RefuseUpdates)
	case "lock":
		_, err = x.sideExec("BEGIN IMMEDIATE")
	default:
		return
	}

	if err != nil {
		t.Fatalf("installing the write fault %q: %v", kind, err)
	}

	x.fault = kind
}

// The three writes to the revocation list. A server that owns its store goes through the real tokens.Blacklist /
// Delete / Flush; for a server whose store is read-only the rows are written by "the other instance" (the second
// connection) and this instance's lookup caches are dropped the way the real calls drop them, so that the next
// lookup is a cold one.
func (x *c22Run) storeRevoke(ro bool, jti string) error {
	if !ro {
		return tokens.Blacklist(jti)
	}

	_, err := x.sideExec(`INSERT INTO blacklist ("id","user","last","created","expiration","active") VALUES (?, '', '', ?, '', 1)`,
		jti, time.Now().Format(time.RFC822Z))
	if err == nil {
		caches.Purge(caches.BlacklistCache)
		caches.Purge(caches.AuthCache)
		caches.Purge(caches.TokenCache)
	}

	return err
}

func (x *c22Run) storeUnrevoke(ro bool, jti string) {
	if !ro {
		_ = tokens.Delete(jti)

		return
	}

	if n, err := x.sideExec(`DELETE FROM blacklist WHERE "id" = ?`, jti); err == nil && n > 0 {
		caches.Delete(caches.BlacklistCache, jti)
	}
}

func (x *c22Run) storeFlush(ro bool) error {
	if !ro {
		_, err := tokens.Flush()

		return err
	}

	caches.Purge(caches.BlacklistCache)

	_, err := x.sideExec(`DELETE FROM blacklist`)

	return err
}

func (x *c22Run) onEvict(id int, key any, _ any) {
	if id != caches.OAuthJWTCache {
		return
	}

	if s, ok := key.(string); ok {
		x.evMu.Lock()
		x.evicted = append(x.evicted, s)
		x.evMu.Unlock()
	}
}

func (x *c22Run) takeEvicted() []string {
	x.evMu.Lock()
	defer x.evMu.Unlock()

	e := x.evicted
	x.evicted = nil

	return e
}

func (x *c22Run) intern(s string) int {
	if s == "" {
		return 0
	}

	if v, ok := x.ids[s]; ok {
		return v
	}

	x.ids[s] = len(x.ids) + 1

	return x.ids[s]
}

func c22B(b bool) string {
	if b {
		return "1"
	}

	return "0"
}

func c22ErrEnum(err error) string {
	switch {
	case errors.Equal(err, errors.ErrJWTRevoked):
		return "revoked"
	case errors.Equal(err, errors.ErrJWTValidation), errors.Equal(err, errors.ErrJWTInvalid):
		return "invalid"
	case errors.Equal(err, errors.ErrJWTExpired):
		return "expired"
	case errors.Equal(err, errors.ErrJWTMissingClaim):
		return "noclaim"
	}

	return "other-error"
}

func c22ExpectedUser(claim string, rc c22Recipe) string {
	u := rc.sub

	switch claim {
	case "email":
		if rc.email != "" {
			u = rc.email
		}
	case "preferred_username":
		if rc.pref != "" {
			u = rc.pref
		}
	}

	if u == "" && rc.clientID != "" {
		u = "client:" + rc.clientID
	}

	return u
}

func (x *c22Run) history(t *testing.T, h c22History, db string) {
	defer c22Drain()

	if h.layouts == nil {
		h.layouts = [][]c22Jwk{h.layout}
	}

	// the identity provider: serves the current document from memory
	curLayout := h.layouts[0]
	doc := c22JWKSDoc(curLayout)
	idpClient = &http.Client{Transport: c22RT{body: func() []byte { return doc }}}

	// a clean server: what Initialize() sets up, minus the network discovery
	resetJWKSCache()
	resetMissRefresh()

	ro := h.store == "ro"

	x.setFault(t, "off")
	defer x.setFault(t, "off")

	if err := x.storeFlush(ro); err != nil {
		t.Fatalf("flush: %v", err)
	}

	globalConfigMu.Lock()
	globalConfig = rsConfig{Provider: c22Provider, Audience: h.cfgAud, UserClaim: h.userClaim, PermissionClaim: "scope",
		Mode: ModeResourceServer, JWKSCacheTTL: time.Duration(h.jwksTTL) * time.Second}
	jwksURL = c22JWKSURL
	globalConfigMu.Unlock()
	setJWKSCacheTTL(time.Duration(h.jwksTTL) * time.Second)

	if err := refreshJWKS(c22JWKSURL); err != nil {
		t.Fatalf("refreshJWKS: %v", err)
	}

	_ = caches.SetExpiration(caches.OAuthJWTCache, fmt.Sprintf("%ds", h.jwtTTL))
	x.takeEvicted()

	t0 := time.Now().Unix()
	toks := make([]*c22Tok, len(h.recipes))
	tokOf := map[string]*c22Tok{}

	for i, rc := range h.recipes {
		toks[i] = c22Build(i+1, rc, t0, h.cfgAud, h.layout)
		tokOf[toks[i].raw] = toks[i]
	}

	// model line: init
	claimCode := map[string]string{"sub": "s", "email": "e", "preferred_username": "p"}[h.userClaim]
	if claimCode == "" {
		claimCode = "o"
	}

	keyFields := func(layout []c22Jwk) string {
		var f []string
		for _, j := range layout {
			f = append(f, fmt.Sprintf("%d:%s:%s:%d", x.intern(j.kid), c22B(j.use == "" || j.use == "sig"),
				c22B(j.broken == "" && j.key.kind != "ed"), j.key.mat))
		}

		return strings.Join(f, " ")
	}

	fixed := "1" // the model of the code with fixes/C22.patch

	x.cases.Write(verifh.Case{In: strings.TrimSpace(fmt.Sprintf("init %d %s %s %s %d %s", t0, c22B(h.cfgAud != ""), claimCode, fixed, h.jwksTTL,
		keyFields(curLayout))), Impl: "-", Desc: h.name})

	// ---------------- the provider's publication record (ground truth of the harness, per key material)
	pubNow := map[int]bool{}       // published for signatures in the document served now
	everPub := map[int]bool{}      // … in some document served so far
	withdrawnAt := map[int]int64{} // instant of the document change that withdrew it (while !pubNow)
	rotated := false

	type served struct {
		from   int64
		layout []c22Jwk
	}

	docs := []served{{t0, curLayout}}

	for _, j := range curLayout {
		if j.usable() {
			pubNow[j.key.mat], everPub[j.key.mat] = true, true
		}
	}

	// does the kid of the token select its signer in this document (first usable entry with that kid; without
	// a kid the first usable entry)?
	picks := func(layout []c22Jwk, tk *c22Tok) bool {
		for _, j := range layout {
			if j.usable() && (tk.kidStr == "" || j.kid == tk.kidStr) {
				return tk.sigMat != 0 && j.key.mat == tk.sigMat
			}
		}

		return false
	}

	inCache := map[int]bool{} // the token string was accepted and no eviction/purge of its result-cache entry was seen since

	// the evictions the real cache reported since the last call: tell the model, forget the entries
	flushEvictions := func() {
		for _, raw := range x.takeEvicted() {
			if tk := tokOf[raw]; tk != nil {
				inCache[tk.id] = false
				x.cases.Write(verifh.Case{In: fmt.Sprintf("evict %d", tk.id), Impl: "-"})
				x.stats.Inc("op.evicted")
			}
		}
	}

	revoked := map[string]bool{}
	accepted := map[int]bool{} // token accepted at least once before in this history
	var trace []string

	showLayout := func(layout []c22Jwk) string {
		var ks []string
		for _, j := range layout {
			ks = append(ks, fmt.Sprintf("%s(kid=%q use=%q %s)", j.key.name, j.kid, j.use, j.broken))
		}

		return "[" + strings.Join(ks, " ") + "]"
	}
	describe := func() string {
		store := ""
		if ro {
			store = " revocation-store=READ-ONLY(sqlite mode=ro; rows written by a second connection)"
		}

		return fmt.Sprintf("history %s aud=%q userClaim=%s jwtTTL=%ds jwksTTL=%ds%s jwks=%s ops: %s", h.name, h.cfgAud, h.userClaim,
			h.jwtTTL, h.jwksTTL, store, showLayout(h.layouts[0]), strings.Join(trace, "; "))
	}

	// the write fault in force for the audit UPDATE of a revocation lookup, and whether a lookup of this jti would
	// be a cold one (no presentation that could have filled the BlacklistCache since the last revocation / flush)
	writeFault := func() string {
		if ro {
			return "readonly"
		}

		return x.fault
	}
	faultSeen := map[string]bool{}
	fail := func(class, what, got, want string) {
		x.nfail++
		if x.nfail <= 40 {
			x.fails.Write(verifh.Failure{Class: class, What: what, Input: describe(), Got: got, Want: want})
		}
	}

	for _, op := range h.ops {
		// the harness's own writes to the revocation list need the write lock
		if x.fault == "lock" && (op.kind == "rev" || op.kind == "unrev" || op.kind == "flush") {
			trace = append(trace, "write-lock-released")
			x.setFault(t, "off")
		}

		switch op.kind {
		case "wf":
			if ro {
				continue
			}

			switch op.jti {
			case "trigger":
				trace = append(trace, "FAULT:every-UPDATE-of-the-blacklist-table-fails(trigger RAISE(FAIL))")
			case "lock":
				trace = append(trace, "FAULT:second-connection-holds-the-sqlite-write-lock(BEGIN IMMEDIATE)")
			default:
				trace = append(trace, "fault-lifted")
			}

			x.setFault(t, op.jti)
			x.stats.Inc("op.write-fault." + op.jti)
		case "rev":
			trace = append(trace, "revoke "+op.jti)
			faultSeen = map[string]bool{}

			// the id column is UNIQUE: revoking twice is an error and changes nothing
			if err := x.storeRevoke(ro, op.jti); (err != nil) != revoked[op.jti] {
				t.Errorf("Blacklist(%q) err=%v, already revoked=%v", op.jti, err, revoked[op.jti])
			}

			revoked[op.jti] = true
			x.cases.Write(verifh.Case{In: fmt.Sprintf("rev %d", x.intern(op.jti)), Impl: "-"})
			x.stats.Inc("op.revoke")
		case "unrev":
			trace = append(trace, "unrevoke "+op.jti)
			x.storeUnrevoke(ro, op.jti)
			revoked[op.jti] = false
			x.cases.Write(verifh.Case{In: fmt.Sprintf("unrev %d", x.intern(op.jti)), Impl: "-"})
			x.stats.Inc("op.unrevoke")
		case "flush":
			trace = append(trace, "flush")
			faultSeen = map[string]bool{}

			if err := x.storeFlush(ro); err != nil {
				t.Fatalf("flush: %v", err)
			}

			revoked = map[string]bool{}
			x.cases.Write(verifh.Case{In: "flush", Impl: "-"})
			x.stats.Inc("op.flush")
		case "adv", "advto":
			dt := op.dt

			if op.kind == "advto" {
				tk := toks[op.tok]
				target := tk.exp + int64(op.dt)

				if tk.nbf > time.Now().Unix() {
					target = tk.nbf + int64(op.dt)
				}

				dt = int(target - time.Now().Unix())
				if dt <= 0 || dt > 5000 {
					continue
				}
			}

			trace = append(trace, fmt.Sprintf("advance %ds", dt))
			time.Sleep(time.Duration(dt) * time.Second)
			synctest.Wait()
			x.cases.Write(verifh.Case{In: fmt.Sprintf("adv %d", dt), Impl: "-"})
			x.stats.Inc("op.advance")
			flushEvictions() // what the expiry sweeps removed while the clock ran
		case "keys":
			now := time.Now().Unix()
			curLayout = h.layouts[op.lay]
			doc = c22JWKSDoc(curLayout)
			rotated = true
			docs = append(docs, served{now, curLayout})
			trace = append(trace, fmt.Sprintf("provider-serves@+%ds %s", now-t0, showLayout(curLayout)))

			was := pubNow
			pubNow = map[int]bool{}

			for _, j := range curLayout {
				if j.usable() {
					pubNow[j.key.mat], everPub[j.key.mat] = true, true
				}
			}

			for m := range was {
				if !pubNow[m] {
					withdrawnAt[m] = now
				}
			}

			x.cases.Write(verifh.Case{In: strings.TrimSpace("keys " + keyFields(curLayout)), Impl: "-"})
			x.stats.Inc("op.keys")
		case "purge":
			trace = append(trace, "purge-jwt-cache")
			caches.Purge(caches.OAuthJWTCache)
			x.takeEvicted()

			inCache = map[int]bool{}
			x.cases.Write(verifh.Case{In: "purge", Impl: "-"})
			x.stats.Inc("op.purge")
		case "p":
			tk := toks[op.tok]
			rc := tk.rc
			now := time.Now().Unix()

			wfault := writeFault()
			wasCached := inCache[tk.id]

			user, _, err := ValidateJWT(1, tk.raw)

			var impl string

			switch {
			case err != nil:
				impl = c22ErrEnum(err)
			case strings.HasPrefix(user, "client:"):
				impl = fmt.Sprintf("ok c%d", x.intern(strings.TrimPrefix(user, "client:")))
			default:
				impl = fmt.Sprintf("ok u%d", x.intern(user))
			}

			trace = append(trace, fmt.Sprintf("present#%d@+%ds{signer=%s method=%s hdrAlg=%q kid=%v tamper=%q malform=%q iss=%v aud=%v exp=+%d nbf=%d jti=%q sub=%q}→%s",
				tk.id, now-t0, rc.signer, rc.method, rc.hdrAlg, rc.kid, rc.tamper, rc.malform, rc.iss, rc.aud, tk.exp-t0, tk.nbf, rc.jti, rc.sub, impl))

			x.cases.Write(verifh.Case{In: fmt.Sprintf("p %d %s %s %d %d %d %d %s %s %d %d %d %d %d", tk.id, c22B(tk.parseOK), tk.fam,
				x.intern(tk.kidStr), tk.sigMat, tk.exp, tk.nbf, c22B(tk.issOK), c22B(tk.audOK), x.intern(rc.jti),
				x.intern(rc.sub), x.intern(rc.email), x.intern(rc.pref), x.intern(rc.clientID)), Impl: impl})
			x.stats.Inc("op.present")

			// the entry ValidateJWT itself deleted (expired / revoked) is gone, whatever follows
			for _, raw := range x.takeEvicted() {
				if e := tokOf[raw]; e != nil {
					inCache[e.id] = false
				}
			}

			// ---------------- direct oracle (property level; no model)
			// the signature was made by key material the provider has published for signature use at some moment
			publishedForSig := tk.sigMat != 0 && everPub[tk.sigMat]

			// …and that key is trustworthy NOW: in the document served now, or withdrawn less than one JWKS TTL
			// ago (keyByID uses a cached key set only while age < ttl, and the set was fetched before the
			// withdrawal), or this token string still has its entry in the JWT result cache
			keyCurrent := publishedForSig && (pubNow[tk.sigMat] || now-withdrawnAt[tk.sigMat] < int64(h.jwksTTL))
			keyTrusted := keyCurrent || inCache[tk.id]

			// the header's kid selects exactly the signer in every document a conforming server may be using:
			// those served during the last TTL (tokens without kid: the code never re-fetches for them, so
			// every document served so far)
			kidPicksSigner := true

			for i, d := range docs {
				until := now
				if i+1 < len(docs) {
					until = docs[i+1].from
				}

				if (tk.kidStr == "" || until >= now-int64(h.jwksTTL)) && !picks(d.layout, tk) {
					kidPicksSigner = false
				}
			}

			isRevoked := rc.jti != "" && revoked[rc.jti]
			conds := []struct {
				ok    bool
				class string
				what  string
			}{
				{tk.parseOK, "accept-malformed", "a malformed token was accepted"},
				{tk.fam != "o", "accept-alg", "a token whose header alg is not RS*/ES* was accepted"},
				{publishedForSig, "accept-bad-signature", "a token whose signature was not made (intact, with the header's alg) by a key published for signatures was accepted"},
				{!publishedForSig || keyTrusted, "accept-withdrawn-key", "a token was accepted (not from the JWT result cache) on the signature of a key the provider withdrew at least one JWKS cache TTL ago"},
				{tk.issOK, "accept-iss", "a token with the wrong issuer was accepted"},
				{h.cfgAud == "" || tk.audOK, "accept-aud", "a token without the configured audience was accepted"},
				{now < tk.exp, "accept-expired", "an expired token (or one without exp) was accepted"},
				{tk.nbf <= now, "accept-before-nbf", "a token was accepted before its nbf"},
				{!isRevoked, "accept-revoked", "a token whose jti is revoked was accepted"},
			}
			bad := 0

			for _, c := range conds {
				if !c.ok {
					bad++
				}
			}

			if err == nil {
				for _, c := range conds {
					if !c.ok {
						class := c.class
						if class == "accept-withdrawn-key" && tk.kidStr == "" {
							class = "accept-withdrawn-key-token-without-kid"
						}

						if class == "accept-revoked" {
							if accepted[tk.id] {
								class = "accept-revoked-seen-before"
							} else {
								class = "accept-revoked-first-seen"
							}
						}

						fail(class, c.what, impl, "rejected")

						break
					}
				}
			}

			want := c22ExpectedUser(h.userClaim, rc)
			if bad == 0 && kidPicksSigner && want != "" {
				if err != nil {
					fail("reject-valid", "a token meeting every condition was rejected", impl, "ok "+want)
				} else if user != want {
					fail("wrong-user", "accepted under the wrong identity", user, want)
				}

				x.stats.Inc("present.valid")
			}

			// the situation the write faults are injected for: the jti is revoked, nothing else is wrong with the
			// token, and no such presentation has warmed the BlacklistCache since the revocation
			if wfault != "" && isRevoked && bad == 1 && !faultSeen[rc.jti] {
				faultSeen[rc.jti] = true
				x.stats.Inc("present.revoked-cold-lookup-under-write-fault")
				x.stats.Inc("present.revoked-cold-lookup-under-write-fault." + wfault)

				if wasCached {
					x.stats.Inc("present.revoked-cold-lookup-under-write-fault.result-cache-hit-path")
				} else {
					x.stats.Inc("present.revoked-cold-lookup-under-write-fault.step-5b-path")
				}
			}

			if err == nil {
				accepted[tk.id] = true
				inCache[tk.id] = true
				x.stats.Inc("present.accepted")

				if rotated {
					x.stats.Inc("present.accepted-after-document-change")

					if !pubNow[tk.sigMat] {
						x.stats.Inc("present.accepted-withdrawn-key-within-allowance")
					}
				}
			} else {
				x.stats.Inc("present." + impl)
			}

			// coverage: a situation is non-trivial when at most one condition fails
			if bad <= 1 {
				failing := "none"

				for _, c := range conds {
					if !c.ok {
						failing = c.class
					}
				}

				keyState := "never"
				switch {
				case !publishedForSig:
				case pubNow[tk.sigMat]:
					keyState = "current"
				case keyCurrent:
					keyState = "withdrawn<ttl"
				default:
					keyState = "withdrawn>=ttl"
				}

				key := fmt.Sprintf("%s|fam=%s|kid=%v|pick=%v|seen=%v|boundary=%v|nbf=%v|aud=%v|claim=%s|user=%v|key=%s|rot=%v", failing, tk.fam, tk.kidStr != "",
					kidPicksSigner, accepted[tk.id], now == tk.exp || now == tk.exp-1, tk.nbf != 0, h.cfgAud != "", h.userClaim, want != "", keyState, rotated)
				if wfault != "" {
					key += "|auditwrite=" + wfault
				}

				if !x.seen[key] {
					x.seen[key] = true
					x.stats.Inc("distinct_nontrivial")

					if len(x.seen)%7 == 1 {
						x.stats.Sample(map[string]string{"situation": key, "op": trace[len(trace)-1]})
					}
				}
			}
		}
	}

	_ = db
}

// c22OpenStore (re)opens the server's revocation store on the file db: read-write, or read-only through an
// SQLite URI (mode=ro). tokens.SetDatabasePath starts database/sql goroutines: never call it inside a bubble.
func c22OpenStore(t *testing.T, db string, ro bool) {
	tokens.Close()

	dsn := "sqlite3://" + db
	if ro {
		dsn = "sqlite3://file:" + db + "?mode=ro"
	}

	if err := tokens.SetDatabasePath(dsn); err != nil {
		t.Fatalf("blacklist database (%s): %v", dsn, err)
	}
}

// c22Drain lets every sweeper goroutine started in this bubble find its cache gone and exit.
func c22Drain() {
	for _, id := range []int{caches.OAuthJWTCache, caches.BlacklistCache, caches.AuthCache, caches.TokenCache} {
		caches.Purge(id)
	}

	time.Sleep(125 * time.Second)
	synctest.Wait()
}

func TestVerifC22(t *testing.T) {
	x := &c22Run{cases: verifh.Out("c22_cases.jsonl"), fails: verifh.Out("c22_failures.jsonl"), stats: verifh.NewStats(),
		ids: map[string]int{}, seen: map[string]bool{}}

	defer func() {
		x.cases.Close()
		x.fails.Close()
		x.stats.Save("c22_stats.json")
	}()

	c22MakeKeys(t)

	dir := os.Getenv("VERIF_OUT")
	if dir == "" {
		dir = t.TempDir()
	}

	db := filepath.Join(dir, "c22_blacklist.db")
	_ = os.Remove(db)

	c22OpenStore(t, db, false)

	// the other user of the credentials database
	other, err := sql.Open("sqlite", db)
	if err != nil {
		t.Fatalf("second connection: %v", err)
	}

	defer other.Close()

	if x.side, err = other.Conn(context.Background()); err != nil {
		t.Fatalf("second connection: %v", err)
	}

	defer x.side.Close()

	savedClient := idpClient

	caches.SetOnEvict(x.onEvict)

	defer func() {
		caches.SetOnEvict(nil)

		idpClient = savedClient
		tokens.Close()
		_ = tokens.SetDatabasePath("")
		_ = os.Remove(db)
	}()

	hs := c22Corpus()
	r := verifh.Rand(22)
	n := verifh.N(400, 6000)

	for i := 0; i < n; i++ {
		h := c22GenHistory(r, fmt.Sprintf("rand-%d", i))

		// the last sixteenth of the random histories: a server instance with a read-only credentials database
		if i >= n-n/16 {
			h.store = "ro"
			h.name += "-readonly-store"
		}

		hs = append(hs, h)
	}

	roNow := false

	for _, h := range hs {
		if ro := h.store == "ro"; ro != roNow {
			c22OpenStore(t, db, ro)
			roNow = ro
		}

		synctest.Test(t, func(t *testing.T) { x.history(t, h, db) })
		x.stats.Inc("histories")

		if h.store == "ro" {
			x.stats.Inc("histories.readonly-store")
		}

		if t.Failed() {
			return
		}
	}

	keys := make([]string, 0, len(x.seen))
	for k := range x.seen {
		keys = append(keys, k)
	}

	sort.Strings(keys)
	t.Logf("histories=%d distinct situations=%d failures=%d", len(hs), len(keys), x.nfail)
}
