//go:build verif

package assets

// C39 correspondence harness and direct oracle.
//
//   - stream "pint": hostile number spellings through strconv.ParseInt(s, 10, 64) (the primitive
//     the Range parser relies on) against the Lean model's parseInt.
//   - stream "norm": hostile asset roots x paths through the real normalizeAssetPath against the
//     model's normalize; oracle: the result is lexically inside the root (filepath.Rel).
//   - stream "req": requests (path spelling x Range header x GET/HEAD x cache state x minify
//     setting) through the real AssetsHandler on a temporary asset root with files, directories,
//     symlinks and "secret" files outside the root.  Every response is compared with the Lean
//     model's `handle` and checked by a model-free oracle: no panic; a 200 carries exactly the
//     representation of the file the path names under the root; a 206 carries a well-formed
//     Content-Range `bytes s-e/T` with body = R[s..e], T = len(R) for R the raw file or its full
//     representation, and s/e are the requested ones when the header is a well-formed single range;
//     nothing from outside the root is ever returned; HEAD = GET without the body.
//     The root also holds a few LARGE assets whose sizes sit on the handler's own size constants
//     (MaxAssetSize - 1, MaxAssetSize, MaxAssetSize + 1, 1.5 x MaxAssetSize, maxAssetCacheSize/2 + 1).
//     Their content is a formula of the offset (c39GenByte), so they travel to the Lean driver as
//     `gen:N:K` and large bodies are compared by length + FNV-1a; a fixed set of requests and a thin
//     share of the random stream ask them for ranges wider than / exactly / just under MaxAssetSize,
//     open-ended from small offsets, ending beyond EOF, and around the cache limit.

import (
	"bytes"
	"fmt"
	"hash/fnv"
	"math/rand"
	"net/http"
	"net/http/httptest"
	"net/url"
	"os"
	"path/filepath"
	"regexp"
	"sort"
	"strconv"
	"strings"
	"testing"

	"github.com/tucats/ego/internal/cli/settings"
	"github.com/tucats/ego/internal/defs"
	"github.com/tucats/ego/internal/router"
	"github.com/tucats/ego/internal/util/javascript"
	"github.com/tucats/ego/internal/verifh"
)

const c39Secret = "C39-SECRET-OUTSIDE-THE-ROOT"

type c39Env struct {
	base, root string
	files      []string          // request paths of existing regular files (with leading slash)
	bigFiles   []string          // request paths of the large generated assets
	bigSalt    map[string]uint64 // absolute file name of a large generated asset -> its salt
	r          *rand.Rand
}

// c39BigBody is the body length above which a body is compared by length and FNV-1a 64 instead
// of byte-for-byte hex (the Lean driver's `bigBody`).
const c39BigBody = 4096

// c39GenByte is byte i of the generated asset with salt k (the Lean driver's `genByte`).  It mixes
// high bits of the offset in, so a slice taken at a wrong offset differs even when the offsets
// agree modulo 256 or 65536.
func c39GenByte(k uint64, i int) byte {
	x := uint64(i)*2654435761 + k

	return byte((x >> 24) ^ (x >> 9) ^ x)
}

func c39Gen(n int, k uint64) []byte {
	b := make([]byte, n)
	for i := range b {
		b[i] = c39GenByte(k, i)
	}

	return b
}

func c39IsGen(b []byte, k uint64) bool {
	for i, c := range b {
		if c != c39GenByte(k, i) {
			return false
		}
	}

	return true
}

func c39FNV(b []byte) uint64 {
	h := fnv.New64a()
	_, _ = h.Write(b)

	return h.Sum64()
}

// c39Show renders a body for a failure record; large bodies are summarised.
func c39Show(b []byte) string {
	if len(b) <= 256 {
		return fmt.Sprintf("%q", b)
	}

	return fmt.Sprintf("len=%d fnv64a=%d first=%x last=%x", len(b), c39FNV(b), b[:8], b[len(b)-8:])
}

func c39Write(t *testing.T, p string, data []byte) {
	t.Helper()

	if err := os.MkdirAll(filepath.Dir(p), 0o755); err != nil {
		t.Fatal(err)
	}

	if err := os.WriteFile(p, data, 0o644); err != nil {
		t.Fatal(err)
	}
}

func c39Setup(t *testing.T, r *rand.Rand) *c39Env {
	base, err := os.MkdirTemp("", "verif-c39-*")
	if err != nil {
		t.Fatal(err)
	}

	base, _ = filepath.EvalSymlinks(base)
	e := &c39Env{base: base, root: filepath.Join(base, "root"), r: r}

	big := make([]byte, 700)
	for i := range big {
		big[i] = byte(r.Intn(256))
	}

	in := map[string][]byte{
		"f.txt":            []byte("0123456789"),
		"e.txt":            {},
		"one.bin":          {0xff},
		"two.bin":          {0x00, 0x0a},
		"big.bin":          big,
		"page.md":          []byte("# Head\n\nsome **bold** text\n\n* a\n* b\n"),
		"sub/page.md":      []byte("plain *em* [l](http://x)\n"),
		"s.js":             []byte("// comment\nfunction  add ( first , second ) {\n  return first +  second ;\n}\n"),
		"c.css":            []byte("/* c */\nbody  {  color : red ;  }\n\n.a { margin : 0 }\n"),
		"index.html":       []byte("<html><body>hello</body></html>"),
		"sub/deep/x.txt":   []byte("deep file"),
		"sp ace.txt":       []byte("space"),
		"..hidden":         []byte("dotdot-prefixed name"),
		"a..b.txt":         []byte("inner dots"),
		"...":              []byte("three dots"),
		"assets/x.css":     []byte("a{b:c}"),
		"%2e%2e":           []byte("literal percent name"),
		"dir.d/inner.json": []byte(`{"k":1}`),
		"uni/é世.txt":       []byte("unicode name"),
	}
	names := make([]string, 0, len(in))
	for name := range in {
		names = append(names, name)
	}

	sort.Strings(names) // map order must not leak into the seeded generators

	for _, name := range names {
		c39Write(t, filepath.Join(e.root, name), in[name])
		e.files = append(e.files, "/"+name)
	}

	// outside the root: a secret next to it, one in a sibling whose name has the root as prefix
	c39Write(t, filepath.Join(base, "secret.txt"), []byte(c39Secret+" 1"))
	c39Write(t, filepath.Join(base, "root2", "secret.txt"), []byte(c39Secret+" 2"))
	c39Write(t, filepath.Join(base, "root__invalid__"), []byte(c39Secret+" 3"))
	c39Write(t, filepath.Join(base, "linked-out", "pub.txt"), []byte("published through a link"))

	// symbolic links placed inside the root by the administrator
	_ = os.Symlink("f.txt", filepath.Join(e.root, "lnk.txt"))
	_ = os.Symlink("sub", filepath.Join(e.root, "ldir"))
	_ = os.Symlink(filepath.Join(base, "linked-out", "pub.txt"), filepath.Join(e.root, "out.txt"))
	_ = os.Symlink("nowhere", filepath.Join(e.root, "dangling.txt"))
	_ = os.Symlink("loop.txt", filepath.Join(e.root, "loop.txt"))
	e.files = append(e.files, "/lnk.txt", "/ldir/page.md", "/ldir/deep/x.txt", "/out.txt")

	// large assets, sized by the handler's own constants; content by formula (nothing is kept in memory)
	e.bigSalt = map[string]uint64{}

	for i, b := range []struct {
		name string
		size int
	}{
		{"big/under.bin", MaxAssetSize - 1},
		{"big/exact.bin", MaxAssetSize},
		{"big/over.txt", MaxAssetSize + 1},
		{"big/video.mp4", MaxAssetSize + MaxAssetSize/2},
		{"big/huge.bin", maxAssetCacheSize/2 + 1},
	} {
		k := uint64(r.Int63()) + uint64(i)
		fn := filepath.Join(e.root, b.name)
		c39Write(t, fn, c39Gen(b.size, k))
		e.bigSalt[fn] = k
		e.bigFiles = append(e.bigFiles, "/"+b.name)
	}

	return e
}

// ---------------------------------------------------------------- generators

func c39Pick(r *rand.Rand, xs ...string) string { return xs[r.Intn(len(xs))] }

// c39Num spells a number around the interesting boundaries for a file of length n.
func c39Num(r *rand.Rand, n int) (string, bool) {
	var v string

	switch r.Intn(16) {
	case 0:
		v = "0"
	case 1:
		v = strconv.Itoa(n - 1)
	case 2:
		v = strconv.Itoa(n)
	case 3:
		v = strconv.Itoa(n + 1)
	case 4:
		v = strconv.Itoa(n / 2)
	case 5:
		v = c39Pick(r, "2147483647", "2147483648", "4294967296", "281474976710656", "281474976710657")
	case 6:
		v = c39Pick(r, "9223372036854775806", "9223372036854775807", "9223372036854775808", "18446744073709551615",
			"18446744073709551616", "99999999999999999999999999", "4096", "4095")
	default:
		v = strconv.Itoa(r.Intn(n + 3))
	}

	plain := true

	switch r.Intn(60) {
	case 0:
		v, plain = "+"+v, false
	case 1:
		v, plain = "-"+v, false
	case 2:
		v, plain = "00"+v, true
	case 3:
		v, plain = " "+v, false
	case 4:
		v, plain = v+" ", false
	case 5:
		v, plain = "0x"+v, false
	case 6:
		v, plain = v+"_0", false
	case 7:
		v, plain = "", false
	case 8:
		v, plain = c39Pick(r, "٣", "1e2", "1.0", "x", "+", "٠", "１"), false
	}

	if v == "-1" {
		plain = false
	}

	return v, plain
}

// c39Range returns a Range header value; wf reports that it is a syntactically well-formed
// single range in the RFC grammar (bytes=DIGITS-DIGITS or bytes=DIGITS-).
func c39Range(r *rand.Rand, n int) string {
	a, _ := c39Num(r, n)
	b, _ := c39Num(r, n)
	c, _ := c39Num(r, n)

	switch r.Intn(40) {
	case 0:
		return "bytes=" + a // no dash
	case 1:
		return "bytes=" + a + "-"
	case 2:
		return "bytes=-" + b
	case 3:
		return c39Pick(r, "", "bytes=", "-", "bytes=-", "bytes", "=", "--", "bytes=--")
	case 4:
		return a + "-" + b // no unit
	case 5:
		return "bytes=" + a + "-" + b + "," + c + "-"
	case 6:
		return "bytes=" + a + "-" + b + "-" + c
	case 7:
		return "bytes=" + a + "--" + b
	case 8:
		return "bytes=bytes=" + a + "-" + b
	case 9:
		return "bybytes=tes=" + a + "-" + b
	case 10:
		return c39Pick(r, "items=", "BYTES=", "Bytes=", "bytes =", "bytes:", " bytes=") + a + "-" + b
	case 11:
		return "bytes=" + a + "–" + b // en dash
	case 12:
		return a + "bytes=" + b + "-" + c
	case 13:
		return "bytes=" + a + "-" + b + "bytes="
	case 14:
		alphabet := "bytes=0123456789-+, \x00\xff"
		k := r.Intn(14)
		s := make([]byte, k)

		for i := range s {
			s[i] = alphabet[r.Intn(len(alphabet))]
		}

		return string(s)
	case 15, 16, 17:
		return "bytes=" + a + "-"
	default:
		return "bytes=" + a + "-" + b
	}
}

// c39BigRange is a Range header for a large asset of n bytes: starts and spans sit on the
// handler's size constants and on the file's ends; most values are well-formed single ranges.
func c39BigRange(r *rand.Rand, n int) string {
	if r.Intn(8) == 0 {
		return c39Range(r, n)
	}

	marks := []int{MaxAssetSize, maxAssetCacheSize / 2, n, n - MaxAssetSize, n / 2}
	start := 0

	switch r.Intn(6) {
	case 0:
	case 1:
		start = 1 + r.Intn(1000)
	case 2:
		start = r.Intn(n)
	default:
		start = marks[r.Intn(len(marks))] + r.Intn(5) - 2
	}

	if start < 0 {
		start = 0
	}

	span := 0

	switch r.Intn(8) {
	case 0:
		return fmt.Sprintf("bytes=%d-", start) // open-ended
	case 1:
		return fmt.Sprintf("bytes=%d-%s", start, c39Pick(r, "99999999", "9223372036854775807", strconv.Itoa(n), strconv.Itoa(n+MaxAssetSize)))
	case 2:
		span = 1 + r.Intn(n)
	case 3:
		span = 1 + r.Intn(3)
	default:
		span = marks[r.Intn(len(marks))] + r.Intn(5) - 2
	}

	if span < 1 {
		span = 1
	}

	return fmt.Sprintf("bytes=%d-%d", start, start+span-1)
}

var c39Segs = []string{"..", ".", "", "sub", "deep", "assets", "dir.d", "ldir", "nope", "...", "..hidden", "root2", "root",
	"secret.txt", "%2e%2e", "uni", "....", ".. ", " ..", "..\x00", "linked-out"}

// c39Path produces a request path (what the router leaves in r.URL.Path).
func c39Path(e *c39Env) string {
	r := e.r
	f := e.files[r.Intn(len(e.files))]

	switch r.Intn(20) {
	case 0, 1, 2, 3, 4, 5, 6:
		return f
	case 7:
		return strings.TrimPrefix(f, "/") // relative spelling
	case 8:
		return strings.ReplaceAll(f, "/", c39Pick(r, "//", "/./", "///", "/.//"))
	case 9:
		// climb out and back in by name
		up := strings.Repeat("/..", 1+r.Intn(4))
		return up + c39Pick(r, "/root", "/root2", "", "/"+filepath.Base(e.base)+"/root") + f
	case 10:
		return f + c39Pick(r, "/", "/.", "/..", "/../", "/x", "/../f.txt", "/..//f.txt")
	case 11:
		return c39Pick(r, "/..", "..", "/../secret.txt", "/..//secret.txt", "../secret.txt", "/sub/../../secret.txt",
			"/sub/..//../secret.txt", "/../root2/secret.txt", "/..//root2/secret.txt", "/../root__invalid__", "/..//root__invalid__",
			"/__invalid__", "/.", "/", "", "/sub/..", "/sub/..//f.txt", "//..//..//secret.txt", e.base+"/secret.txt",
			"/"+e.base+"/secret.txt", "/etc/passwd", "/..\\secret.txt", "/sub\\..\\f.txt",
			"../root/f.txt", "../root/..hidden", "../root2/secret.txt", "../root/../secret.txt", "sub/../../root/f.txt")
	case 12:
		// percent-encoded spelling decoded the way net/http does
		raw := c39Pick(r, "/%2e%2e/secret.txt", "/%2e%2e%2fsecret.txt", "/sub/%2E%2E/%2E%2E/secret.txt", "/%252e%252e/secret.txt",
			"/..%2fsecret.txt", "/%2e%2e", "/f.txt%00", "/f%2etxt", "/sub%2fdeep%2fx.txt", "/%2e/f.txt", "/sp%20ace.txt",
			"/.%2e/root2/secret.txt", "/uni/%C3%A9%E4%B8%96.txt", "/%2e%2e%2f%2e%2e%2fetc/passwd")
		if u, err := url.ParseRequestURI(raw); err == nil {
			return u.Path
		}

		return raw
	case 13:
		return c39Pick(r, "/dir.d", "/sub", "/sub/deep", "/ldir", "/dangling.txt", "/loop.txt", "/nope.txt", "/nope.md", "/assets")
	default:
		k := 1 + r.Intn(5)

		var b strings.Builder

		if r.Intn(5) != 0 {
			b.WriteByte('/')
		}

		for i := 0; i < k; i++ {
			if i > 0 {
				b.WriteByte('/')
			}

			b.WriteString(c39Segs[r.Intn(len(c39Segs))])
		}

		if r.Intn(3) == 0 {
			b.WriteString(f)
		}

		return b.String()
	}
}

// ---------------------------------------------------------------- oracle helpers

// c39Resolve is the oracle's own reading of a request path: the components of the absolute name
// root+"/"+path are walked with a stack (".." pops, and stays at "/"); the request names an asset
// only if what is left has the root's components as a proper prefix.  Independent of filepath.Clean.
func c39Resolve(root, path string) (target string, inside bool) {
	var stack []string

	for _, c := range strings.Split(root+"/"+path, "/") {
		switch c {
		case "", ".":
		case "..":
			if len(stack) > 0 {
				stack = stack[:len(stack)-1]
			}
		default:
			stack = append(stack, c)
		}
	}

	var rootc []string

	for _, c := range strings.Split(root, "/") {
		if c != "" {
			rootc = append(rootc, c)
		}
	}

	if len(stack) <= len(rootc) {
		return root, false // above the root, or the root itself (not an asset)
	}

	for i, c := range rootc {
		if stack[i] != c {
			return "", false
		}
	}

	return "/" + strings.Join(stack, "/"), true
}

var c39CR = regexp.MustCompile(`^bytes ([0-9]+)-([0-9]+)/([0-9]+)$`)
var c39WF = regexp.MustCompile(`^bytes=([0-9]{1,18})-([0-9]{0,18})$`)

type c39Result struct {
	panicked string
	status   int
	code     int
	cr, cl   string
	hasCL    bool
	body     []byte
}

func c39Do(path string, hdr []string, method string) (res c39Result) {
	defer func() {
		if r := recover(); r != nil {
			res.panicked = fmt.Sprint(r)
		}
	}()

	req := httptest.NewRequest(method, "/", nil)
	req.URL.Path = path

	if hdr != nil {
		req.Header["Range"] = hdr
	}

	w := httptest.NewRecorder()
	res.status = AssetsHandler(&router.Session{ID: 1}, w, req)
	res.code = w.Code
	res.cr = w.Header().Get("Content-Range")
	_, res.hasCL = w.Header()["Content-Length"]
	res.cl = w.Header().Get("Content-Length")
	res.body = w.Body.Bytes()

	return res
}

func (x c39Result) impl() string {
	if x.panicked != "" {
		return "panic"
	}

	clen := strconv.Itoa(len(x.body))
	if x.hasCL {
		clen = x.cl
	}

	body := ""
	if len(x.body) > c39BigBody {
		body = fmt.Sprintf("#%d:%d", len(x.body), c39FNV(x.body))
	} else {
		body = verifh.Hex(string(x.body))
	}

	switch x.status {
	case 200:
		return "200 " + clen + " " + body
	case 206:
		return "206 " + verifh.Hex(x.cr) + " " + clen + " " + body
	case 416:
		return "416 " + verifh.Hex(x.cr)
	default:
		return strconv.Itoa(x.status)
	}
}

func c39Xform(path string, raw []byte) []byte {
	if strings.HasSuffix(path, ".js") && settings.GetBool(defs.JSMinifySetting) {
		return javascript.Minify(raw, settings.GetBool(defs.JSShortVarNamesSetting))
	}

	if strings.HasSuffix(path, ".css") && settings.GetBool(defs.JSMinifySetting) {
		return javascript.MinifyCSS(raw)
	}

	return raw
}

// c39Want206 says what a 206 with `Content-Range: bytes s-e/T` had to carry.
func c39Want206(s, e, T int64, raw, full []byte) string {
	for _, R := range [][]byte{raw, full} {
		if T == int64(len(R)) && s <= e && e < T {
			return fmt.Sprintf("Content-Length=%d body=%s (bytes %d..%d of the %d-byte asset)", e-s+1, c39Show(R[s:e+1]), s, e, T)
		}
	}

	return fmt.Sprintf("s <= e < T = %d or %d, body = asset[s..e]", len(raw), len(full))
}

func c39Cached(path string) ([]byte, bool) {
	AssetMux.Lock()
	defer AssetMux.Unlock()

	a, ok := AssetCache[normalizeCachePath(path)]

	return a.Data, ok
}

// ---------------------------------------------------------------- the test

func TestVerifC39(t *testing.T) {
	if !smartRangeLoading {
		t.Fatalf("smartRangeLoading is false: the C39 model covers only smartRangeLoading = true")
	}

	cases := verifh.Out("c39_cases.jsonl")
	fails := verifh.Out("c39_failures.jsonl")
	stats := verifh.NewStats()

	defer func() {
		cases.Close()
		fails.Close()
		stats.Save("c39_stats.json")
	}()

	nfail := 0
	fail := func(class, what, input, got, want string) {
		stats.Inc("fail_" + class)

		if nfail < 200 {
			fails.Write(verifh.Failure{Class: class, What: what, Input: input, Got: got, Want: want})
		}

		nfail++
	}

	// ------------------------------------------------------------ pint
	rp := verifh.Rand(3901)
	pintCorpus := []string{"", "0", "-0", "+0", "+", "-", "9223372036854775807", "9223372036854775808", "-9223372036854775808",
		"-9223372036854775809", "18446744073709551615", "18446744073709551616", "00000000000000000000000000000000007", "1_0", "0x10",
		" 1", "1 ", "١", "１", "1e3", "+-1", "--1", "1-", "\x0012", "12\x00", "/", ":", "99999999999999999999999999999999999999"}

	for i := 0; i < verifh.N(1500, 30000); i++ {
		var s string
		if i < len(pintCorpus) {
			s = pintCorpus[i]
		} else {
			s, _ = c39Num(rp, rp.Intn(1000))
			if rp.Intn(4) == 0 {
				s = s + c39Pick(rp, "0", "9", "a", "+", "-", "\xff") + s
			}
		}

		impl := "err"
		if v, err := strconv.ParseInt(s, 10, 64); err == nil {
			impl = strconv.FormatInt(v, 10)
		}

		cases.Write(verifh.Case{In: "pint " + verifh.Hex(s), Impl: impl})
		stats.Inc("pint")
	}

	// ------------------------------------------------------------ norm
	rn := verifh.Rand(3902)
	roots := []string{"/srv/ego/lib", "/srv/ego/lib/", "/srv//ego/lib", "/srv/ego/./lib", "/srv/ego/x/../lib", "/", "lib", "./lib", "../lib",
		"..", ".", "/srv/ego/lib/..", "/a", "/a b/é", "//", "/srv/ego/lib//"}
	egos := []string{"", "/opt/ego", "/opt/ego/", "rel/ego", "/", "..", "/opt/../ego"}
	oldLib, oldEgo := settings.Get(defs.EgoLibPathSetting), settings.Get(defs.EgoPathSetting)
	envN := &c39Env{base: "/srv/ego", root: "/srv/ego/lib", r: rn, files: []string{"/f.txt", "/sub/deep/x.txt", "/assets/x.css", "/a..b", "/..hidden", "/.../y"}}

	for i := 0; i < verifh.N(3000, 60000); i++ {
		lib := roots[rn.Intn(len(roots))]
		ego := egos[rn.Intn(len(egos))]

		if rn.Intn(4) == 0 {
			lib = ""
		}

		p := c39Path(envN)
		if rn.Intn(6) == 0 {
			p = c39Pick(rn, "", "/", "..", "/..", "../..", "/../..", "/lib", "../lib/x", "/../lib/x", "/x/../../lib/y", "__invalid__", "/__invalid__/../..")
		}

		settings.SetDefault(defs.EgoLibPathSetting, lib)
		settings.SetDefault(defs.EgoPathSetting, ego)

		out := normalizeAssetPath(p)

		cases.Write(verifh.Case{In: "norm " + verifh.Hex(lib) + " " + verifh.Hex(ego) + " " + verifh.Hex(p), Impl: verifh.Hex(out)})
		stats.Inc("norm")

		// oracle: for an absolute, clean root the result is lexically inside the root
		root := lib
		if root == "" {
			root = filepath.Join(ego, defs.LibPathName)
		}

		if strings.HasPrefix(root, "/") {
			rel, err := filepath.Rel(filepath.Clean(root), out)
			if err != nil || rel == ".." || strings.HasPrefix(rel, "../") || rel == "." {
				fail("escape", "normalizeAssetPath result is not inside the asset root", fmt.Sprintf("root=%q path=%q", root, p), out, "a path below "+root)
			}

			stats.Inc("norm_oracle")
		}
	}

	settings.SetDefault(defs.EgoLibPathSetting, oldLib)
	settings.SetDefault(defs.EgoPathSetting, oldEgo)

	// ------------------------------------------------------------ req
	rr := verifh.Rand(3903)
	e := c39Setup(t, rr)

	defer os.RemoveAll(e.base)

	settings.SetDefault(defs.EgoLibPathSetting, e.root)
	settings.SetDefault(defs.EgoPathSetting, "")

	defer func() {
		settings.SetDefault(defs.EgoLibPathSetting, oldLib)
		settings.SetDefault(defs.EgoPathSetting, oldEgo)
		settings.SetDefault(defs.JSMinifySetting, "")
		FlushAssetCache()
	}()

	FlushAssetCache()

	type fixed struct {
		path string
		hdr  []string
	}

	corpus := []fixed{}

	for _, h := range []string{"bytes=5", "bytes=20-", "bytes=2-5", "bytes=8-100", "bytes=-3", "bytes=0-", "bytes=0-", "bytes=10-", "bytes=10-12",
		"bytes=9-", "bytes=9-9", "bytes=0-0", "bytes=5-2", "bytes=0-1-2", "bytes=+2-+5", "5bytes=-6", "", "bytes=3-9223372036854775807",
		"bytes=3-9223372036854775806", "bytes=9223372036854775807-", "bytes=9223372036854775808-", "bytes=0-1,3-4", "bytes=1", "1", "bytes=",
		"bytes=-", "bytes=1-2-", "bytes=0-9", "bytes=0-10"} {
		corpus = append(corpus, fixed{"/f.txt", []string{h}})
	}

	for _, p := range []string{"/e.txt", "/page.md", "/s.js", "/c.css", "/dir.d", "/one.bin", "/nope", "/lnk.txt", "/out.txt"} {
		for _, h := range []string{"bytes=0-", "bytes=0-0", "bytes=1-", "bytes=2-12", "bytes=4096-", "bytes=4095-", "bytes=7"} {
			corpus = append(corpus, fixed{p, []string{h}}, fixed{p, nil}, fixed{p, []string{h}})
		}
	}

	for _, p := range []string{"/..", "/a/..", "/../f.txt", "f.txt", "..", "//f.txt", "/./f.txt", "/x/../f.txt", "/f.txt/.", "/.", "", "/", "/sub/",
		"/../secret.txt", "/..//secret.txt", "/sub/..//..//secret.txt", "/../root2/secret.txt", "/..//root__invalid__", "/__invalid__"} {
		corpus = append(corpus, fixed{p, nil}, fixed{p, []string{"bytes=0-3"}})
	}

	// large assets: spans wider than, equal to and just under MaxAssetSize; open-ended from a small
	// offset; ends beyond EOF; whole-file ranges of files of MaxAssetSize-1 / MaxAssetSize / MaxAssetSize+1
	// bytes; the cached and the too-large-to-cache full load.
	const mx = MaxAssetSize

	huge := maxAssetCacheSize/2 + 1
	rg := func(a, b int) []string { return []string{fmt.Sprintf("bytes=%d-%d", a, b)} }
	op := func(a int) []string { return []string{fmt.Sprintf("bytes=%d-", a)} }

	corpus = append(corpus,
		fixed{"/big/video.mp4", op(1)},
		fixed{"/big/video.mp4", rg(0, mx)},
		fixed{"/big/video.mp4", rg(0, mx-1)},
		fixed{"/big/video.mp4", rg(mx/2-1, 99999999)},
		fixed{"/big/video.mp4", nil},
		fixed{"/big/video.mp4", rg(mx/2, mx+mx/2-1)},
		fixed{"/big/over.txt", op(0)},
		fixed{"/big/over.txt", rg(0, mx)},
		fixed{"/big/over.txt", rg(1, mx)},
		fixed{"/big/exact.bin", rg(0, mx)},
		fixed{"/big/under.bin", rg(0, 9999999)},
		fixed{"/big/huge.bin", nil},
		fixed{"/big/huge.bin", op(huge - mx - 1)},
		fixed{"/big/huge.bin", rg(huge-1, huge)},
	)

	seen := map[string]bool{}
	n := verifh.N(6000, 120000)

	for i := 0; i < n; i++ {
		var (
			path string
			hdr  []string
		)

		if i < len(corpus) {
			path, hdr = corpus[i].path, corpus[i].hdr
		} else if rr.Intn(verifh.N(1000, 2000)) == 0 {
			// a thin share of the stream goes to the large assets (each costs the model ~100 MB of list cells)
			path = e.bigFiles[rr.Intn(len(e.bigFiles))]
			if st, err := os.Stat(filepath.Join(e.root, path)); err == nil {
				hdr = []string{c39BigRange(rr, int(st.Size()))}
			}
		} else {
			path = c39Path(e)

			// housekeeping between requests: flush, toggle minification
			switch rr.Intn(12) {
			case 0:
				FlushAssetCache()
			case 1:
				settings.SetDefault(defs.JSMinifySetting, c39Pick(rr, "true", "false", "true"))
				// javascript.Minify with shortenNames picks names in map order (its output varies from call to
				// call), so the reference representation would not be a function of the file: keep it off.
				settings.SetDefault(defs.JSShortVarNamesSetting, "false")
				FlushAssetCache()
			}

			target, inside := c39Resolve(e.root, path)
			flen := 10

			if inside {
				if st, err := os.Stat(target); err == nil {
					flen = int(st.Size())
				}
			}

			switch k := rr.Intn(10); {
			case k < 3:
				hdr = nil
			case k == 3:
				hdr = []string{c39Range(rr, flen), c39Range(rr, flen)}
			case k == 4 && rr.Intn(4) == 0:
				hdr = []string{}
			default:
				hdr = []string{c39Range(rr, flen)}
			}
		}

		method := http.MethodGet
		if rr.Intn(5) == 0 {
			method = http.MethodHead
		}

		// ---- what the model needs to know about the world (read before the request)
		fn := normalizeAssetPath(path)
		node := "missing"

		var raw []byte

		big := false

		if st, err := os.Stat(fn); err == nil {
			if st.IsDir() {
				node = "dir:" + strconv.FormatInt(st.Size(), 10)
			} else if b, err := os.ReadFile(fn); err == nil {
				raw = b

				// a large generated asset is named by its formula, after checking that the file IS the formula
				if k, isBig := e.bigSalt[fn]; isBig && c39IsGen(b, k) {
					node = fmt.Sprintf("file:gen:%d:%d", len(b), k)
					big = true
				} else {
					node = "file:" + verifh.Hex(string(b))
				}
			}
		}

		cacheS := "none"
		cached, hit := c39Cached(path)

		if hit {
			if big && bytes.Equal(cached, raw) {
				cacheS = "hit:="
			} else {
				cacheS = "hit:" + verifh.Hex(string(cached))
			}
		}

		xf := c39Xform(path, raw)
		xfS := "="

		if !big || !bytes.Equal(xf, raw) {
			xfS = verifh.Hex(string(xf))
		}
		md := []byte{}

		if strings.HasSuffix(path, ".md") {
			if hit {
				md = mdToHTML(cached)
			} else {
				md = mdToHTML(xf)
			}
		}

		rangeS := "none"
		if len(hdr) > 0 {
			rangeS = verifh.Hex(hdr[0])
		}

		m := "G"
		if method == http.MethodHead {
			m = "H"
		}

		// ---- the real handler
		res := c39Do(path, hdr, method)
		input := fmt.Sprintf("%s path=%q Range=%q cache=%v minify=%v", method, path, hdr, hit, settings.GetBool(defs.JSMinifySetting))

		cases.Write(verifh.Case{
			In:   strings.Join([]string{"req", verifh.Hex(path), rangeS, m, node, cacheS, xfS, verifh.Hex(string(md))}, " "),
			Impl: res.impl(),
			Desc: input,
		})
		stats.Inc("req")

		// ---- coverage accounting
		key := path + "\x00" + strings.Join(hdr, "\x01") + "\x00" + m
		wf := len(hdr) > 0 && c39WF.MatchString(hdr[0])
		nontrivial := (len(hdr) > 0 && !wf) || strings.Contains(path, "..") || strings.Contains(path, "//") || strings.Contains(path, "/./")

		if wf {
			mm := c39WF.FindStringSubmatch(hdr[0])
			a, _ := strconv.ParseInt(mm[1], 10, 64)

			if a >= int64(len(raw)) || (mm[2] != "" && mm[2] < mm[1] && len(mm[2]) <= len(mm[1])) {
				nontrivial = true
			}
		}

		if !seen[key] {
			seen[key] = true

			stats.Inc("distinct")

			if nontrivial {
				stats.Inc("distinct_nontrivial")

				if rr.Intn(40) == 0 {
					stats.Sample(map[string]any{"input": input, "impl": res.impl()})
				}
			}
		}

		stats.Inc(fmt.Sprintf("status_%d", res.status))

		if big {
			stats.Inc("big_req")
			stats.Inc(fmt.Sprintf("big_status_%d", res.status))
		}

		// ---- direct oracle (no model)
		if res.panicked != "" {
			stats.Inc("status_panic")
			fail("panic", "the handler panicked", input, "panic: "+res.panicked, "an error status or the requested bytes")

			continue
		}

		if res.status != res.code {
			fail("status-mismatch", "returned status differs from the status written", input, fmt.Sprint(res.status, "/", res.code), "equal")
		}

		if bytes.Contains(res.body, []byte(c39Secret)) {
			fail("escape", "content from outside the asset root was returned", input, c39Show(res.body), "nothing from outside "+e.root)
		}

		target, inside := c39Resolve(e.root, path)

		var (
			wantRaw  []byte
			wantFull []byte
			exists   bool
		)

		if inside {
			if b, err := os.ReadFile(target); err == nil {
				exists = true
				wantRaw = b
				wantFull = c39Xform(path, b)

				if strings.HasSuffix(path, ".md") {
					wantFull = mdToHTML(wantFull)
				}

				if strings.Contains(target, "/ldir/") || strings.HasSuffix(target, "/lnk.txt") || strings.HasSuffix(target, "/out.txt") {
					stats.Inc("via_symlink")
				}
			}
		}

		switch res.status {
		case 400, 403, 404, 416:
			stats.Inc("oracle_error")

			if res.status == 416 && (!exists || res.cr != fmt.Sprintf("bytes */%d", len(wantRaw)) && res.cr != fmt.Sprintf("bytes */%d", len(wantFull))) {
				if exists {
					fail("bad-content-range", "416 with a wrong Content-Range", input, res.cr, fmt.Sprintf("bytes */%d", len(wantRaw)))
				}
			}

			if wf && exists && res.status != 416 && !strings.HasSuffix(path, "/") && !strings.Contains(path, "/../") {
				mm := c39WF.FindStringSubmatch(hdr[0])
				a, _ := strconv.ParseInt(mm[1], 10, 64)
				inverted := false

				if mm[2] != "" {
					b, _ := strconv.ParseInt(mm[2], 10, 64)
					inverted = b < a
				}

				if a < int64(len(wantRaw)) && !inverted {
					// allowed by the property (an error status), but worth counting: a satisfiable range was refused
					stats.Inc("satisfiable_refused")
				}
			}
		case 200:
			stats.Inc("oracle_200")

			if !exists {
				fail("phantom", "200 for a path that names no regular file under the asset root", input, c39Show(res.body), "an error status")

				break
			}

			if method == http.MethodHead {
				if len(res.body) != 0 || res.cl != strconv.Itoa(len(wantFull)) {
					fail("head", "HEAD response has a body or a wrong Content-Length", input, fmt.Sprintf("len(body)=%d Content-Length=%q", len(res.body), res.cl), strconv.Itoa(len(wantFull)))
				}
			} else if !bytes.Equal(res.body, wantFull) {
				fail("wrong-bytes", "200 body differs from the named file's representation", input, c39Show(res.body), c39Show(wantFull))
			}
		case 206:
			stats.Inc("oracle_206")

			if !exists {
				fail("phantom", "206 for a path that names no regular file under the asset root", input, c39Show(res.body), "an error status")

				break
			}

			mm := c39CR.FindStringSubmatch(res.cr)
			if mm == nil {
				fail("bad-content-range", "206 with a malformed Content-Range", input, res.cr, "bytes s-e/T")

				break
			}

			s, _ := strconv.ParseInt(mm[1], 10, 64)
			en, _ := strconv.ParseInt(mm[2], 10, 64)
			T, _ := strconv.ParseInt(mm[3], 10, 64)

			ok := false

			for _, R := range [][]byte{wantRaw, wantFull} {
				if T == int64(len(R)) && s <= en && en < T {
					want := R[s : en+1]
					if method == http.MethodHead {
						ok = ok || (len(res.body) == 0 && res.cl == strconv.Itoa(len(want)))
					} else {
						ok = ok || (bytes.Equal(res.body, want) && res.cl == strconv.Itoa(len(want)))
					}
				}
			}

			if en-s+1 > MaxAssetSize {
				stats.Inc("oracle_206_span_gt_max")
			} else if en-s+1 >= MaxAssetSize-1 {
				stats.Inc("oracle_206_span_at_max")
			}

			if !ok {
				fail("bad-content-range", "206 body / Content-Range / Content-Length do not describe a slice of the named file", input,
					fmt.Sprintf("Content-Range=%q Content-Length=%q body=%s", res.cr, res.cl, c39Show(res.body)), c39Want206(s, en, T, wantRaw, wantFull))

				break
			}

			if wf {
				w := c39WF.FindStringSubmatch(hdr[0])
				a, _ := strconv.ParseInt(w[1], 10, 64)
				wantEnd := T - 1

				if w[2] != "" {
					if b, _ := strconv.ParseInt(w[2], 10, 64); b < wantEnd {
						wantEnd = b
					}
				}

				if s != a || en != wantEnd {
					fail("wrong-range", "206 answers a different range than the one requested", input, res.cr, fmt.Sprintf("bytes %d-%d/%d", a, wantEnd, T))
				}

				stats.Inc("oracle_206_wellformed")
			}
		default:
			fail("bad-status", "unexpected status", input, strconv.Itoa(res.status), "200, 206, 400, 403, 404 or 416")
		}

		// HEAD must be GET without the body
		if method == http.MethodHead {
			g := c39Do(path, hdr, http.MethodGet)
			if g.panicked == "" && (g.status != res.status || g.cr != res.cr || (res.status < 300 && strconv.Itoa(len(g.body)) != res.cl)) {
				fail("head", "HEAD and GET disagree", input, res.impl(), g.impl())
			}

			stats.Inc("head_vs_get")
		}
	}
}
