//go:build verif

package router

import (
	"fmt"
	"net/http"
	"net/http/httptest"
	"strings"
	"time"

	"github.com/tucats/ego/internal/util/validate"
	"github.com/tucats/ego/internal/verifh"
)

// c20Call is one builder call of a generated declaration.
type c20Call struct {
	kind  byte // A L C R P D K(Credentials) O(other)
	flag  bool
	perms []string
	other int
}

func (c c20Call) token() string {
	switch c.kind {
	case 'P':
		return "P:" + c20List(c.perms)
	case 'K', 'O':
		return "O"
	default:
		return string(c.kind) + c20Bit(c.flag)
	}
}

// text is the call as it would be written in a route declaration (for failure reports).
func (c c20Call) text() string {
	switch c.kind {
	case 'A':
		return fmt.Sprintf("Authentication(%v)", c.flag)
	case 'L':
		return fmt.Sprintf("LightWeight(%v)", c.flag)
	case 'C':
		return fmt.Sprintf("CanAuthenticate(%v)", c.flag)
	case 'R':
		return fmt.Sprintf("AllowRedirects(%v)", c.flag)
	case 'P':
		return fmt.Sprintf("Permissions(%q)", c.perms)
	case 'D':
		return fmt.Sprintf("Redirect(nonempty=%v)", c.flag)
	case 'K':
		return "Credentials(true)"
	default:
		return []string{"Class(AdminRequestCounter)", `Parameter("limit","int")`, `AcceptMedia("application/json")`,
			`Filename("verif.ego")`, "LargeResponse()"}[c.other%5]
	}
}

// apply performs the REAL builder call on the route.
func (c c20Call) apply(r *Route) {
	switch c.kind {
	case 'A':
		r.Authentication(c.flag)
	case 'L':
		r.LightWeight(c.flag)
	case 'C':
		r.CanAuthenticate(c.flag)
	case 'R':
		r.AllowRedirects(c.flag)
	case 'P':
		r.Permissions(c.perms...)
	case 'D':
		if c.flag {
			r.Redirect("/verif/elsewhere")
		} else {
			r.Redirect("")
		}
	case 'K':
		r.Credentials(true)
	default:
		switch c.other % 5 {
		case 0:
			r.Class(AdminRequestCounter)
		case 1:
			r.Parameter("limit", "int")
		case 2:
			r.AcceptMedia("application/json")
		case 3:
			r.Filename("verif.ego")
		default:
			r.LargeResponse()
		}
	}
}

// The declaration's meaning, written independently of router.go and of the Lean model:
// authentication is required when Permissions() is called or the last Authentication() says so;
// the required permissions are all those named.
func c20Declared(calls []c20Call) (needAuth bool, perms []string, anyPerms bool) {
	last := false

	for _, c := range calls {
		switch c.kind {
		case 'A':
			last = c.flag
		case 'P':
			anyPerms = true
			perms = append(perms, c.perms...)
		}
	}

	return anyPerms || last, perms, anyPerms
}

func c20HasCI(list []string, p string) bool {
	for _, q := range list {
		if strings.EqualFold(p, q) {
			return true
		}
	}

	return false
}

// c20Probe is what the substituted handler saw.
type c20Probe struct {
	invoked bool
	route   *Route
	user    string
	authed  bool
}

type c20Target struct {
	m      *Router
	rt     *Route
	method string
	path   string
	calls  []c20Call // nil for a route of the real table
	label  string
	probe  *c20Probe
}

func (p *c20Probe) handler() HandlerFunc {
	return func(s *Session, w http.ResponseWriter, r *http.Request) int {
		p.invoked, p.route, p.user, p.authed = true, s.Route, s.User, s.Authenticated

		w.WriteHeader(http.StatusOK)

		return http.StatusOK
	}
}

func c20Flags(rt *Route) (string, string) {
	p := "nil"
	if rt.requiredPermissions != nil {
		p = c20List(rt.requiredPermissions)
	}

	return c20Bit(rt.mustAuthenticate) + c20Bit(rt.canAuthenticate) + c20Bit(rt.lightweight) +
		c20Bit(rt.redirect != "") + c20Bit(rt.handler != nil), p
}

// one runs one request against the target and records the correspondence line and the oracle.
func (e *VerifC20Engine) one(t *c20Target, cred c20Cred, variant string) {
	rt := t.rt
	c20ResetAuthState()

	if cred.prep != nil {
		cred.prep()
	}

	url := t.path
	if variant == "param" {
		url += "?zzverifbad=1"
	}

	body := ""
	if cred.payload != "" {
		body = cred.payload
	} else if t.method == "POST" || t.method == "PUT" || t.method == "PATCH" {
		body = "{}"
	}

	req := httptest.NewRequest(t.method, url, strings.NewReader(body))
	req.Header.Set("Content-Type", "application/json")

	if variant == "media" {
		req.Header.Set("Accept", "image/png")
	} else {
		req.Header.Set("Accept", "application/json")
	}

	if cred.header != "" {
		req.Header["Authorization"] = []string{cred.header}
	}

	*t.probe = c20Probe{}
	rec := httptest.NewRecorder()
	began := time.Now()
	t.m.ServeHTTP(rec, req)
	e.stats.Add("us:"+cred.form, int(time.Since(began).Microseconds()))

	// request checks that do not depend on the credential, known by construction
	mediaBad := variant == "media" && rt.acceptMediaTypes != nil
	paramBad := variant == "param"
	effective := body

	if rt.checkCredentials && cred.header == "" && (t.method == "POST" || t.method == "PUT") {
		effective = "" // Authenticate consumed the body looking for credentials
	}

	validationBad := false

	if len(rt.validations) > 0 {
		validationBad = true

		for _, v := range rt.validations {
			if validate.Validate([]byte(effective), v) == nil {
				validationBad = false
			}
		}
	}

	f, p := c20Flags(rt)
	in := fmt.Sprintf("serve f=%s p=%s q=%s%s%s %s %s", f, p, c20Bit(mediaBad), c20Bit(paramBad), c20Bit(validationBad),
		cred.model, e.dbField())
	impl := c20Bit(t.probe.invoked) + " " + fmt.Sprint(rec.Code)
	e.cases.Write(verifh.Case{In: in, Impl: impl, Desc: t.label + " " + cred.form + " " + variant})
	e.stats.Inc("serve_cases")
	e.stats.Inc("form:" + cred.form)

	// ---- direct oracle: handler ran ⇒ declared requirements held (no model involved)
	needAuth := rt.mustAuthenticate || rt.requiredPermissions != nil
	want := rt.requiredPermissions
	anyPerms := rt.requiredPermissions != nil

	if t.calls != nil {
		needAuth, want, anyPerms = c20Declared(t.calls)
	}

	if needAuth {
		e.distinct[in] = true

		if len(e.stats.S) < 8 && cred.authentic && t.probe.invoked && len(want) > 0 {
			e.stats.Sample(map[string]string{"in": in, "impl": impl, "desc": t.label + " " + cred.form})
		}
	}

	held := true

	for _, w := range want {
		if !c20HasCI(cred.perms, w) {
			held = false
		}
	}

	permsOK := !anyPerms || (cred.authentic && (held || c20HasCI(cred.perms, "ego.root")))
	input := fmt.Sprintf("%s | %s %s | credential=%s | db=%v | variant=%s", t.label, t.method, t.path, cred.form, e.db, variant)
	if len(e.history) > 0 {
		// a request of a SEQUENCE: the failing input is the whole history up to this request
		input += " | history: " + strings.Join(e.history, "; ")
	}
	fail := func(class, what, got, wantS string) {
		e.nfail++
		e.perClass[class]++

		if e.perClass[class] <= 25 {
			e.fails.Write(verifh.Failure{Class: class, What: what, Input: input, Got: got, Want: wantS})
		}
	}

	switch {
	case t.probe.invoked && t.probe.route != rt:
		fail("wrong-route-invoked", "the handler of another route ran", t.probe.route.endpoint, rt.endpoint)
	case t.probe.invoked && needAuth && !cred.authentic:
		class := "unauthenticated-invoked"

		switch {
		case rt.lightweight:
			class = "lightweight-route-skips-authentication"
		case anyPerms && !rt.mustAuthenticate:
			class = "permissions-without-mustauthenticate"
		case !rt.mustAuthenticate && rt.requiredPermissions == nil:
			class = "builder-dropped-requirement"
		}

		fail(class, "handler invoked for a request that proves no identity on a route that requires authentication",
			impl, "not invoked")
	case t.probe.invoked && !permsOK:
		fail("permission-missing-invoked", "handler invoked although the identity lacks a required permission and is not root",
			fmt.Sprintf("%s identity=%q holds %v", impl, cred.user, cred.perms), fmt.Sprintf("requires %v", want))
	case t.probe.invoked && cred.authentic && (t.probe.user != cred.user || !t.probe.authed) && (needAuth || !rt.lightweight):
		fail("session-identity-mismatch", "the session handed to the handler is not the proven identity",
			fmt.Sprintf("user=%q authenticated=%v", t.probe.user, t.probe.authed), cred.user)
	case t.probe.invoked && !cred.authentic && t.probe.authed:
		fail("session-authenticated-without-identity", "session.Authenticated is true for a credential that proves nothing",
			fmt.Sprintf("user=%q", t.probe.user), "unauthenticated session")
	case !t.probe.invoked && variant == "good" && rt.handler != nil && rt.redirect == "" && !validationBad &&
		(!needAuth || cred.authentic) && permsOK && cred.form != "basic-locked-out":
		fail("authorized-refused", "a request that satisfies every declared requirement did not reach the handler", impl, "1 200")
	}
}

// drive runs every credential form against the target with one fresh user database.
func (e *VerifC20Engine) drive(t *c20Target) {
	_, declared, _ := c20Declared(t.calls)
	if t.calls == nil {
		declared = t.rt.requiredPermissions
	}

	e.want = declared
	e.installDB(e.randomDB(declared))

	post := t.method == "POST" || t.method == "PUT"
	forms := e.credForms(t.rt.checkCredentials && post)

	for _, c := range forms {
		e.one(t, c, "good")

		if !c.costly && e.rnd.Intn(10) == 0 {
			e.one(t, c, []string{"media", "param"}[e.rnd.Intn(2)])
		}
	}
}
