//go:build verif

package router

import (
	"crypto/ecdsa"
	"crypto/elliptic"
	crand "crypto/rand"
	"encoding/base64"
	"fmt"
	"net/http"
	"net/http/httptest"
	"strings"
	"time"

	"github.com/golang-jwt/jwt/v5"
	"github.com/tucats/ego/internal/cli/settings"
	"github.com/tucats/ego/internal/defs"
	"github.com/tucats/ego/internal/server/oauth"
	"github.com/tucats/ego/internal/verifh"
)

// c20Scopes is the identity provider's scope → Ego permission table given to the resource
// server (ego.server.oauth.permission.map). Permission pool of the generated declarations plus
// the permissions used by the shipped route table.
var c20Scopes = [][2]string{
	{"s.root", "ego.root"}, {"s.logon", "ego.logon"}, {"s.a", "perm.a"}, {"s.b", "Perm.B"}, {"s.c", "perm.c"},
	{"s.admin", defs.ServerAdminPermission}, {"s.code", defs.CodeRunPermission}, {"s.sql", defs.SQLPermission},
	{"s.dsn", defs.DSNAdminPermission}, {"s.tr", defs.TableReadPermission}, {"s.tw", defs.TableWritePermission},
}

// c20JWT is an in-process identity provider (discovery document + JWKS over loopback HTTP)
// and the signing keys for the JWT credential forms.
type c20JWT struct {
	ok    bool
	why   string
	srv   *httptest.Server
	key   *ecdsa.PrivateKey // published in the JWKS as kid "k1"
	rogue *ecdsa.PrivateKey // never published
}

func c20B64(b []byte) string { return base64.RawURLEncoding.EncodeToString(b) }

func newC20JWT() *c20JWT {
	j := &c20JWT{}
	j.key, _ = ecdsa.GenerateKey(elliptic.P256(), crand.Reader)
	j.rogue, _ = ecdsa.GenerateKey(elliptic.P256(), crand.Reader)

	mux := http.NewServeMux()
	j.srv = httptest.NewServer(mux)
	base := j.srv.URL

	mux.HandleFunc("/.well-known/openid-configuration", func(w http.ResponseWriter, r *http.Request) {
		fmt.Fprintf(w, `{"issuer":%q,"jwks_uri":%q,"token_endpoint":%q,"authorization_endpoint":%q}`,
			base, base+"/jwks", base+"/token", base+"/authorize")
	})
	mux.HandleFunc("/jwks", func(w http.ResponseWriter, r *http.Request) {
		x := j.key.PublicKey.X.FillBytes(make([]byte, 32))
		y := j.key.PublicKey.Y.FillBytes(make([]byte, 32))
		fmt.Fprintf(w, `{"keys":[{"kty":"EC","crv":"P-256","kid":"k1","use":"sig","alg":"ES256","x":%q,"y":%q}]}`, c20B64(x), c20B64(y))
	})

	pairs := make([]string, len(c20Scopes))
	for i, p := range c20Scopes {
		pairs[i] = p[0] + "=" + p[1]
	}

	settings.SetDefault(defs.OAuthProviderSetting, base)
	settings.SetDefault(defs.OAuthPermissionMapSetting, strings.Join(pairs, ","))
	settings.SetDefault(defs.OAuthAudienceSetting, "ego-c20")

	if err := oauth.Initialize(); err != nil {
		j.why = err.Error()
		settings.SetDefault(defs.OAuthProviderSetting, "")

		return j
	}

	j.ok = oauth.IsEnabled()

	return j
}

func (j *c20JWT) close() {
	if j != nil && j.srv != nil {
		j.srv.Close()
	}
}

// sign makes an ES256 JWT. Deviations from a good token are requested by name.
func (j *c20JWT) sign(sub, scope, deviation string) string {
	now := time.Now()
	claims := jwt.MapClaims{"iss": j.srv.URL, "aud": "ego-c20", "sub": sub, "iat": now.Unix(),
		"exp": now.Add(time.Hour).Unix(), "jti": "c20-" + c20HexOf(now.UnixNano())}

	if scope != "" {
		claims["scope"] = scope
	}

	key := j.key

	switch deviation {
	case "expired":
		claims["exp"] = now.Add(-time.Minute).Unix()
	case "no-exp":
		delete(claims, "exp")
	case "issuer":
		claims["iss"] = "https://evil.example"
	case "audience":
		claims["aud"] = "someone-else"
	case "rogue-key":
		key = j.rogue
	}

	t := jwt.NewWithClaims(jwt.SigningMethodES256, claims)
	t.Header["kid"] = "k1"

	s, err := t.SignedString(key)
	if err != nil {
		panic(err)
	}

	switch deviation {
	case "signature":
		i := strings.LastIndex(s, ".")
		sig := []byte(s[i+1:])

		if sig[4] == 'A' {
			sig[4] = 'B'
		} else {
			sig[4] = 'A'
		}

		s = s[:i+1] + string(sig)
	case "alg-none":
		parts := strings.Split(s, ".")
		s = c20B64([]byte(`{"alg":"none","typ":"JWT"}`)) + "." + parts[1] + "." + parts[2]
	case "payload":
		// re-encode the claims with another subject, keep the old signature
		parts := strings.Split(s, ".")
		t2 := jwt.NewWithClaims(jwt.SigningMethodES256, jwt.MapClaims{"iss": j.srv.URL, "aud": "ego-c20", "sub": "bob",
			"exp": now.Add(time.Hour).Unix(), "scope": "s.root"})
		t2.Header["kid"] = "k1"
		s2, _ := t2.SignedString(j.rogue)
		p2 := strings.Split(s2, ".")
		s = parts[0] + "." + p2[1] + "." + parts[2]
	}

	return s
}

// mapped is the identity provider contract as configured: scope tokens → permission names,
// lower-cased, first occurrence kept; a holder of no mapped scope is granted "ego.logon".
func c20Mapped(scope string) []string {
	out := []string{}
	seen := map[string]bool{}

	for _, tok := range strings.Fields(scope) {
		for _, p := range c20Scopes {
			if p[0] == tok {
				l := strings.ToLower(p[1])
				if !seen[l] {
					seen[l] = true
					out = append(out, l)
				}
			}
		}
	}

	if len(out) == 0 {
		out = []string{"ego.logon"}
	}

	return out
}

// forms returns the JWT credential forms; `want` (the route's permissions) steers the scopes.
func (j *c20JWT) forms(e *VerifC20Engine) []c20Cred {
	if j == nil || !j.ok {
		return nil
	}

	r := e.rnd
	scopeFor := func(perms []string, keep func(int) bool) string {
		s := []string{}

		for i, p := range perms {
			for _, m := range c20Scopes {
				if strings.EqualFold(m[1], p) && keep(i) {
					s = append(s, m[0])
				}
			}
		}

		if r.Intn(3) == 0 {
			s = append(s, "unmapped.scope", "s.logon")
		}

		return strings.Join(s, " ")
	}
	good := func(form, sub, scope string) c20Cred {
		perms := c20Mapped(scope)

		return c20Cred{form: form, header: "Bearer " + j.sign(sub, scope, ""),
			model: "cred=jwt:" + verifh.Hex(sub) + ":" + c20List(perms), authentic: true, user: sub, perms: perms}
	}
	bad := func(form, token string) c20Cred {
		return c20Cred{form: form, header: "Bearer " + token, model: "cred=jwtfail"}
	}
	drop := 0
	if len(e.want) > 0 {
		drop = r.Intn(len(e.want))
	}

	all := scopeFor(e.want, func(int) bool { return true })

	return []c20Cred{
		good("jwt-all-scopes", "erin", all),
		good("jwt-missing-one-scope", "erin", scopeFor(e.want, func(i int) bool { return i != drop })),
		good("jwt-admin", "frank", "s.root"),
		// a federated subject that happens to be spelled like a local user holds ONLY its claims
		good("jwt-no-scope-local-name", c20Pool[r.Intn(len(c20Pool))].name, ""),
		bad("jwt-expired", j.sign("erin", all+" s.root", "expired")),
		bad("jwt-no-exp", j.sign("erin", all+" s.root", "no-exp")),
		bad("jwt-wrong-issuer", j.sign("erin", all+" s.root", "issuer")),
		bad("jwt-wrong-audience", j.sign("erin", all+" s.root", "audience")),
		bad("jwt-rogue-key", j.sign("erin", all+" s.root", "rogue-key")),
		bad("jwt-bad-signature", j.sign("erin", all+" s.root", "signature")),
		bad("jwt-alg-none", j.sign("erin", all+" s.root", "alg-none")),
		bad("jwt-swapped-payload", j.sign("erin", all, "payload")),
		bad("jwt-garbage", "aaaa.bbbb.cccc"),
	}
}
