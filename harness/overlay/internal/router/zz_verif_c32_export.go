//go:build verif

package router

// C32 helpers shared by the two harnesses (internal/router: generated tables,
// internal/commands: the server's real table). Only built with -tags verif in the
// scratch copy of the repository; never part of /repo.

import (
	"net/http"
	"sort"
	"strings"

	"github.com/tucats/ego/internal/verifh"
)

// VerifC32Route is one (endpoint, method) entry of a route table. Method is the text
// stored in the route (upper case, "ANY" for all methods) when read from a router, or
// the text to hand to Router.New when building one.
type VerifC32Route struct {
	Endpoint string
	Method   string
}

// VerifC32Table returns the router's table, sorted (the map order carries no information).
func (m *Router) VerifC32Table() []VerifC32Route {
	m.mutex.Lock()
	defer m.mutex.Unlock()

	t := make([]VerifC32Route, 0, len(m.routes))
	for sel, r := range m.routes {
		// the selector and the route must agree; FindRoute reads both
		if sel.endpoint != r.endpoint || sel.method != r.method {
			panic("verif C32: selector and route disagree for " + sel.endpoint)
		}

		t = append(t, VerifC32Route{Endpoint: r.endpoint, Method: r.method})
	}

	sort.Slice(t, func(i, j int) bool {
		if t[i].Endpoint != t[j].Endpoint {
			return t[i].Endpoint < t[j].Endpoint
		}

		return t[i].Method < t[j].Method
	})

	return t
}

// VerifC32Build makes a fresh router (fresh map, fresh hash seed) holding the table,
// registered through Router.New in the order given by `order` (nil = as listed).
func VerifC32Build(table []VerifC32Route, order []int) *Router {
	m := NewRouter("verif-c32")

	if order == nil {
		for _, r := range table {
			m.New(r.Endpoint, nil, r.Method)
		}

		return m
	}

	for _, i := range order {
		m.New(table[i].Endpoint, nil, table[i].Method)
	}

	return m
}

// VerifC32Outcome calls the real FindRoute and renders the answer in the form the Lean
// driver prints: 404 | 405 | nil | ok <hex endpoint> <hex method> (| panic | status-<n>).
func VerifC32Outcome(m *Router, method, path string) (out string) {
	defer func() {
		if r := recover(); r != nil {
			out = "panic"
		}
	}()

	route, status := m.FindRoute(method, path, false)

	switch {
	case route == nil && status == http.StatusNotFound:
		return "404"
	case route == nil && status == http.StatusMethodNotAllowed:
		return "405"
	case route == nil && status == http.StatusOK:
		return "nil"
	case route != nil && status == http.StatusOK:
		return "ok " + verifh.Hex(route.endpoint) + " " + verifh.Hex(route.method)
	}

	return "status-" + http.StatusText(status)
}

// VerifC32Field renders a table for the driver protocol.
func VerifC32Fields(table []VerifC32Route) string {
	var b strings.Builder

	for _, r := range table {
		b.WriteByte(' ')
		b.WriteString(verifh.Hex(r.Endpoint))
		b.WriteByte(':')
		b.WriteString(verifh.Hex(r.Method))
	}

	return b.String()
}

// VerifC32Show renders a table for humans (failure reports).
func VerifC32Show(table []VerifC32Route) string {
	parts := make([]string, 0, len(table))
	for _, r := range table {
		parts = append(parts, r.Method+" "+strconvQuote(r.Endpoint))
	}

	return strings.Join(parts, ", ")
}

func strconvQuote(s string) string {
	if s == "" {
		return `""`
	}

	return s
}

// VerifC32Checker holds the model-free oracles of C32.
type VerifC32Checker struct {
	Fails  *verifh.Writer
	Stats  *verifh.Stats
	single map[string]bool
	alone  map[VerifC32Route]*Router
	seen   map[string]bool
}

func VerifC32NewChecker(fails *verifh.Writer, stats *verifh.Stats) *VerifC32Checker {
	return &VerifC32Checker{Fails: fails, Stats: stats, single: map[string]bool{}, alone: map[VerifC32Route]*Router{}, seen: map[string]bool{}}
}

// matchesAlone asks the implementation itself whether a route, alone in a table, is
// eligible for the request (anything but 404: the catch-all "/" answers 405 on a method
// mismatch when alone, yet it is a candidate in a larger table).
func (c *VerifC32Checker) matchesAlone(r VerifC32Route, method, path string) bool {
	key := r.Endpoint + "\x00" + r.Method + "\x00" + method + "\x00" + path
	if v, ok := c.single[key]; ok {
		return v
	}

	if len(c.single) > 2000000 {
		c.single = map[string]bool{}
	}

	m := c.alone[r]
	if m == nil {
		if len(c.alone) > 200000 {
			c.alone = map[VerifC32Route]*Router{}
		}

		m = VerifC32Build([]VerifC32Route{r}, nil)
		c.alone[r] = m
	}

	v := VerifC32Outcome(m, method, path) != "404"
	c.single[key] = v

	return v
}

// Check runs the oracles for one request against routers that all hold `table`
// (different insertion orders / hash seeds). It returns the first outcome and the number
// of routes that are eligible on their own.
//
//	O1 determinism: every call on every router gives the same outcome.
//	O2 the chosen route is eligible on its own; 404 exactly when no route is.
//	O3 most specific: when the path has no "{{", no eligible route has fewer variables
//	   than the chosen one.
func (c *VerifC32Checker) Check(table []VerifC32Route, routers []*Router, method, path string, calls int) (string, int) {
	input := method + " " + strconvQuote(path) + "  table: " + VerifC32Show(table)
	outcomes := map[string]int{}
	first := ""

	for _, m := range routers {
		for k := 0; k < calls; k++ {
			o := VerifC32Outcome(m, method, path)
			if first == "" {
				first = o
			}

			outcomes[o]++
		}
	}

	if len(outcomes) > 1 {
		keys := make([]string, 0, len(outcomes))
		for k, n := range outcomes {
			keys = append(keys, VerifC32Readable(k)+" x"+itoa(n))
		}

		sort.Strings(keys)
		c.Fails.Write(verifh.Failure{Class: "choice-depends-on-iteration-order",
			What:  "FindRoute answers differently for the same table, method and path (map iteration order decides)",
			Input: input, Got: strings.Join(keys, " | "), Want: "one answer"})
	}

	eligible := []VerifC32Route{}

	for _, r := range table {
		if c.matchesAlone(r, method, path) {
			eligible = append(eligible, r)
		}
	}

	for o := range outcomes {
		switch {
		case o == "404":
			if len(eligible) > 0 {
				c.Fails.Write(verifh.Failure{Class: "eligible-route-not-found", What: "404 although a route of the table matches on its own",
					Input: input, Got: o, Want: eligible[0].Method + " " + eligible[0].Endpoint})
			}
		case strings.HasPrefix(o, "ok "):
			f := strings.Fields(o)
			chosen := VerifC32Route{Endpoint: verifh.UnHex(f[1]), Method: verifh.UnHex(f[2])}

			if !c.matchesAlone(chosen, method, path) {
				c.Fails.Write(verifh.Failure{Class: "chosen-route-not-eligible", What: "the chosen route does not match the request on its own",
					Input: input, Got: VerifC32Readable(o)})
			}

			if !strings.Contains(path, "{{") {
				n := strings.Count(chosen.Endpoint, "{{")
				for _, r := range eligible {
					if strings.Count(r.Endpoint, "{{") < n {
						c.Fails.Write(verifh.Failure{Class: "more-variables-preferred",
							What:  "a route with more path variables was chosen over an eligible route with fewer",
							Input: input, Got: VerifC32Readable(o), Want: r.Method + " " + r.Endpoint})

						break
					}
				}
			}
		case o == "405":
			if len(eligible) != 1 {
				c.Fails.Write(verifh.Failure{Class: "405-with-other-candidates", What: "405 although the number of eligible routes is not one",
					Input: input, Got: o})
			}
		case o == "nil":
			// (nil, 200): only with >= 100 variables in every candidate; counted, the model agrees
			c.Stats.Inc("nil-route-200")
		default:
			c.Fails.Write(verifh.Failure{Class: "unexpected-outcome", What: "FindRoute panicked or returned an unexpected status", Input: input, Got: o})
		}
	}

	// coverage: a case is non-trivial when at least two routes are eligible (a choice is made);
	// it is a tie when, in addition, two eligible routes share the smallest variable count.
	c.Stats.Inc("requests")

	if len(eligible) >= 2 {
		key := input
		if !c.seen[key] {
			if len(c.seen) < 3000000 {
				c.seen[key] = true
			}

			c.Stats.Inc("distinct_nontrivial")

			minN, minHits := 1<<30, 0
			for _, r := range eligible {
				n := strings.Count(r.Endpoint, "{{")
				if n < minN {
					minN, minHits = n, 1
				} else if n == minN {
					minHits++
				}
			}

			if minHits >= 2 {
				c.Stats.Inc("distinct_ties")
			}
		}
	}

	return first, len(eligible)
}

// VerifC32Readable turns "ok <hex> <hex>" into "ok METHOD endpoint".
func VerifC32Readable(o string) string {
	f := strings.Fields(o)
	if len(f) == 3 && f[0] == "ok" {
		return "ok " + verifh.UnHex(f[2]) + " " + strconvQuote(verifh.UnHex(f[1]))
	}

	return o
}

func itoa(n int) string {
	if n == 0 {
		return "0"
	}

	s := ""
	for n > 0 {
		s = string(rune('0'+n%10)) + s
		n /= 10
	}

	return s
}
