//go:build verif

// C20 — request SEQUENCES. A route's requirements must hold AT THE TIME OF THE REQUEST: the
// engine drives histories in which the credential state changes BETWEEN requests (a token is
// revoked after it was used, un-revoked, its user deleted or re-created, a permission removed
// or granted, a password changed, the token cache aged out) through the real Router.ServeHTTP
// with the REAL token / JWT / blacklist caches. Every request of a history is an ordinary
// `serve` case (model correspondence + the model-free oracle of `one`); the verdict of each
// credential is known by construction from the shadow state kept here, never read back.
package router

import (
	"encoding/base64"
	"encoding/json"
	"fmt"
	"sort"
	"strings"

	"github.com/google/uuid"
	"github.com/tucats/ego/internal/caches"
	"github.com/tucats/ego/internal/language/tokens"
	"github.com/tucats/ego/internal/verifh"
	"golang.org/x/crypto/bcrypt"
)

// c20SeqTok is one really issued bearer credential and what the harness did to it.
type c20SeqTok struct {
	kind    string   // "native" (Ego token) or "jwt"
	user    string   // identity it proves
	str     string   // the bearer string
	id      string   // token id / jti: the key of the revocation list
	perms   []string // jwt only: the permissions its claims map to
	revoked bool
	wasRev  bool // has been revoked at some time
	used    int  // accepted presentations so far
	warm    bool // believed to sit in the token cache (budgeting of Argon2 evaluations only)
}

func (k *c20SeqTok) name() string { return k.kind + ":" + k.user }

// c20Seq is one running history.
type c20Seq struct {
	e       *VerifC20Engine
	toks    []*c20SeqTok
	pass    map[string]string // user -> the password that is right NOW
	oldPass map[string]string // user -> a password that used to be right
	targets []*c20Target
	want    []string // every permission some target requires
}

func (q *c20Seq) note(format string, a ...any) {
	q.e.history = append(q.e.history, fmt.Sprintf(format, a...))
}

// ---- state changes (each performed with the repository's own functions) ----

func (q *c20Seq) revoke(k *c20SeqTok) {
	if k.revoked {
		return
	}

	if k.id == "" {
		// first revocation of a native token: its id is in the token cache when it has been presented
		id, err := q.e.learnID(k.str)
		if err != nil {
			q.e.stats.Inc("seq_revoke_errors")

			return
		}

		k.id = id
	}

	if err := tokens.Blacklist(k.id); err != nil {
		q.e.stats.Inc("seq_revoke_errors")

		return
	}

	k.revoked, k.wasRev = true, true

	for _, o := range q.toks {
		o.warm = false // the real Blacklist purges the whole token cache
	}

	q.e.stats.Inc("seq_op:revoke")
	q.note("revoke(%s)", k.name())
}

func (q *c20Seq) unrevoke(k *c20SeqTok) {
	if !k.revoked {
		return
	}

	if err := tokens.Delete(k.id); err != nil {
		q.e.stats.Inc("seq_unrevoke_errors")

		return
	}

	k.revoked = false
	q.e.stats.Inc("seq_op:unrevoke")
	q.note("unrevoke(%s)", k.name())
}

func (q *c20Seq) ageOut() {
	caches.Purge(caches.TokenCache)
	caches.Purge(caches.OAuthJWTCache)

	for _, o := range q.toks {
		o.warm = false
	}

	q.e.stats.Inc("seq_op:token-cache-aged-out")
	q.note("token-cache-aged-out")
}

func (q *c20Seq) copyDB() map[string][]string {
	db := map[string][]string{}
	for u, p := range q.e.db {
		db[u] = append([]string{}, p...)
	}

	return db
}

func (q *c20Seq) deleteUser(u string) {
	if _, ok := q.e.db[u]; !ok {
		return
	}

	db := q.copyDB()
	delete(db, u)
	q.e.installDB(db)
	q.e.stats.Inc("seq_op:delete-user")
	q.note("delete-user(%s)", u)
}

func (q *c20Seq) createUser(u string, perms []string) {
	db := q.copyDB()
	db[u] = append([]string{}, perms...)
	q.e.installDB(db)
	q.e.stats.Inc("seq_op:write-user")
	q.note("write-user(%s,%q)", u, perms)
}

func (q *c20Seq) removePerm(u, p string) {
	old, ok := q.e.db[u]
	if !ok {
		return
	}

	kept := []string{}

	for _, x := range old {
		if !strings.EqualFold(x, p) {
			kept = append(kept, x)
		}
	}

	if len(kept) == len(old) {
		return
	}

	db := q.copyDB()
	db[u] = kept
	q.e.installDB(db)
	q.e.stats.Inc("seq_op:remove-permission")
	q.note("remove-permission(%s,%q)", u, p)
}

func (q *c20Seq) grantPerm(u, p string) {
	old, ok := q.e.db[u]
	if !ok || c20HasCI(old, p) {
		return
	}

	db := q.copyDB()
	db[u] = append(db[u], p)
	q.e.installDB(db)
	q.e.stats.Inc("seq_op:grant-permission")
	q.note("grant-permission(%s,%q)", u, p)
}

func (q *c20Seq) changePassword(u string) {
	np := "pw-" + u + "-" + c20HexOf(q.e.rnd.Int63())[:6]

	h, err := bcrypt.GenerateFromPassword([]byte(np), bcrypt.MinCost)
	if err != nil {
		return
	}

	q.oldPass[u] = q.pass[u]
	q.pass[u] = np
	q.e.hash[u] = string(h)
	q.e.installDB(q.copyDB()) // rewrites every present user with the current hashes
	q.e.stats.Inc("seq_op:change-password")
	q.note("change-password(%s)", u)
}

// ---- credentials, with the verdict the shadow state gives them NOW ----

func (q *c20Seq) bearer(k *c20SeqTok) c20Cred {
	state := "first-use"

	switch {
	case k.revoked && k.used > 0:
		state = "revoked-after-use"
	case k.revoked:
		state = "revoked-before-use"
	case k.wasRev:
		state = "unrevoked"
	case k.used > 0:
		state = "reused"
	}

	c := c20Cred{form: "seq-" + k.kind + "-" + state, header: "Bearer " + k.str}

	switch {
	case k.revoked && k.kind == "jwt":
		c.model = "cred=jwtfail"
	case k.revoked:
		c.model = "cred=tokfail"
	case k.kind == "jwt":
		c.model = "cred=jwt:" + verifh.Hex(k.user) + ":" + c20List(k.perms)
		c.authentic, c.user, c.perms = true, k.user, k.perms
	default:
		// a native token proves its user's name; what that identity holds is the database entry of
		// the moment (nothing when the user is gone)
		c.model = "cred=tok:" + verifh.Hex(k.user)
		c.authentic, c.user, c.perms = true, k.user, q.e.db[k.user]
	}

	return c
}

func (q *c20Seq) basic(i int, which string) c20Cred {
	u := c20Pool[i]
	pw := q.pass[u.name]

	switch which {
	case "old":
		pw = q.oldPass[u.name]
	case "wrong":
		pw = q.pass[u.name] + "x"
	}

	ok := q.e.canLogin(u.name) && pw == q.pass[u.name]
	c := c20Cred{form: "seq-basic-" + which + "-password", header: c20Basic(u.send, pw),
		model: "cred=basic:" + verifh.Hex(u.send) + ":0" + c20Bit(ok)}

	if ok {
		c.authentic, c.user, c.perms = true, u.name, q.e.db[u.name]
	}

	return c
}

// request sends one request of the history.
func (q *c20Seq) request(t *c20Target, c c20Cred, k *c20SeqTok) {
	who := c.user
	if k != nil {
		who = k.name()
	} else if b, err := base64.StdEncoding.DecodeString(strings.TrimPrefix(c.header, "Basic ")); err == nil && c.header != "" {
		who, _, _ = strings.Cut(string(b), ":")
	}

	q.note("%s %s with %s(%s)", t.method, t.path, c.form, who)
	q.e.one(t, c, "good")
	q.e.stats.Inc("seq_requests")

	if k != nil {
		if k.kind == "native" && !k.warm {
			q.e.seqBudget-- // this presentation needed an Argon2 evaluation
		}

		if !k.revoked {
			k.used++
			k.warm = true
		}
	}
}

// ---- set-up ----

// learnID finds the id of a native token: from the token cache when the token has already been
// presented, otherwise through the real unwrap.
func (e *VerifC20Engine) learnID(tok string) (string, error) {
	if v, ok := caches.Find(caches.TokenCache, tok); ok {
		if t, ok := v.(*tokens.Token); ok && t != nil && t.TokenID != uuid.Nil {
			return t.TokenID.String(), nil
		}
	}

	e.seqBudget--

	t, err := tokens.Unwrap(tok, 0)
	if err != nil || t == nil {
		return "", fmt.Errorf("unwrap of a valid token failed: %v", err)
	}

	return t.TokenID.String(), nil
}

func c20JTI(jwtString string) string {
	parts := strings.Split(jwtString, ".")
	if len(parts) != 3 {
		return ""
	}

	b, err := base64.RawURLEncoding.DecodeString(parts[1])
	if err != nil {
		return ""
	}

	var claims struct {
		JTI string `json:"jti"`
	}

	_ = json.Unmarshal(b, &claims)

	return claims.JTI
}

// seqTargets: generated declarations of both requirement kinds, an open route, and real routes
// of the shipped table that declare authentication or permissions.
func (e *VerifC20Engine) seqTargets(table *Router) []*c20Target {
	A := c20Call{kind: 'A', flag: true}
	P := func(p ...string) c20Call { return c20Call{kind: 'P', perms: p} }
	decls := []struct {
		path  string
		calls []c20Call
	}{
		{"/verif/seq/auth", []c20Call{A}},
		{"/verif/seq/perm", []c20Call{P("perm.a")}},
		{"/verif/seq/perm2", []c20Call{P("perm.a", "Perm.B")}},
		{"/verif/seq/both", []c20Call{A, P("perm.c")}},
		{"/verif/seq/open", []c20Call{}},
	}

	m := NewRouter("verif-c20-seq")
	probe := &c20Probe{}
	out := []*c20Target{}

	for _, d := range decls {
		rt := m.New(d.path, probe.handler(), "GET")
		text := []string{}

		for _, c := range d.calls {
			c.apply(rt)
			text = append(text, c.text())
		}

		out = append(out, &c20Target{m: m, rt: rt, method: "GET", path: d.path, calls: d.calls, probe: probe,
			label: "seq decl New()." + strings.Join(text, ".")})
	}

	if table == nil {
		return out
	}

	// real routes: handlers become probes (again: DriveTable used a probe of its own)
	tprobe := &c20Probe{}

	type sel struct{ endpoint, method string }

	keys := []sel{}

	for k, rt := range table.routes {
		if rt.handler != nil {
			rt.handler = tprobe.handler()
		}

		keys = append(keys, sel{k.endpoint, k.method})
	}

	sort.Slice(keys, func(i, j int) bool {
		if keys[i].endpoint != keys[j].endpoint {
			return keys[i].endpoint < keys[j].endpoint
		}

		return keys[i].method < keys[j].method
	})

	withAuth, withPerms := []*c20Target{}, []*c20Target{}

	for _, k := range keys {
		if k.method != "GET" {
			continue
		}

		path := c20ConcretePath(k.endpoint)
		rt, status := table.FindRoute("GET", path, false)

		if rt == nil || status != 200 || rt.handler == nil || rt.redirect != "" || rt.lightweight || len(rt.validations) > 0 {
			continue
		}

		t := &c20Target{m: table, rt: rt, method: "GET", path: path, probe: tprobe,
			label: fmt.Sprintf("seq table route %s %s", rt.method, rt.endpoint)}

		switch {
		case rt.requiredPermissions != nil:
			withPerms = append(withPerms, t)
		case rt.mustAuthenticate:
			withAuth = append(withAuth, t)
		}
	}

	if len(withAuth) > 0 {
		out = append(out, withAuth[e.rnd.Intn(len(withAuth))])
		e.stats.Inc("seq_real_routes")
	}

	if len(withPerms) > 0 {
		out = append(out, withPerms[e.rnd.Intn(len(withPerms))])
		e.stats.Inc("seq_real_routes")
	}

	return out
}

func (e *VerifC20Engine) newSeq(targets []*c20Target) *c20Seq {
	q := &c20Seq{e: e, pass: map[string]string{}, oldPass: map[string]string{}, targets: targets}
	seen := map[string]bool{}

	for _, t := range targets {
		perms := t.rt.requiredPermissions
		if t.calls != nil {
			_, perms, _ = c20Declared(t.calls)
		}

		for _, p := range perms {
			if !seen[strings.ToLower(p)] {
				seen[strings.ToLower(p)] = true
				q.want = append(q.want, p)
			}
		}
	}

	for _, u := range c20Pool {
		q.pass[u.name] = u.pass
		q.oldPass[u.name] = u.pass + "-never"
	}

	e.history = []string{}

	return q
}

// everything: a permission list that satisfies every target.
func (q *c20Seq) everything() []string {
	return append(append([]string{}, q.want...), "ego.logon")
}

// jwtFor issues a JWT whose claims map to every wanted permission that the identity provider
// has a scope for.
func (q *c20Seq) jwtFor(sub string) *c20SeqTok {
	j := q.e.jwt
	if j == nil || !j.ok {
		return nil
	}

	s := []string{}

	for _, p := range q.want {
		for _, m := range c20Scopes {
			if strings.EqualFold(m[1], p) {
				s = append(s, m[0])
			}
		}
	}

	scope := strings.Join(s, " ")
	str := j.sign(sub, scope, "")
	jti := c20JTI(str)

	if jti == "" {
		return nil
	}

	return &c20SeqTok{kind: "jwt", user: sub, str: str, id: jti, perms: c20Mapped(scope)}
}

func (q *c20Seq) finish() {
	// leave no revocation, password or cache state behind for whatever runs next
	for _, k := range q.toks {
		if k.revoked && k.id != "" {
			_ = tokens.Delete(k.id)
			k.revoked = false
		}
	}

	for _, u := range c20Pool {
		if q.pass[u.name] != u.pass {
			if h, err := bcrypt.GenerateFromPassword([]byte(u.pass), bcrypt.MinCost); err == nil {
				q.e.hash[u.name] = string(h)
			}
		}
	}

	q.e.history = nil
	q.e.stats.Inc("sequences")
}

// target picks by path suffix (corpus histories name their routes).
func (q *c20Seq) target(suffix string) *c20Target {
	for _, t := range q.targets {
		if strings.HasSuffix(t.path, suffix) {
			return t
		}
	}

	return q.targets[0]
}

// DriveSequences runs the fixed corpus of histories, then random ones.
func (e *VerifC20Engine) DriveSequences(table *Router) {
	e.seqBudget = verifh.N(16, 80)
	targets := e.seqTargets(table)

	// the engine's really issued token of alice; one object for the whole run, so that its record
	// (presented before, revoked before) carries over from history to history
	alice := &c20SeqTok{kind: "native", user: "alice", str: e.token["alice"]}
	_, alice.warm = caches.Find(caches.TokenCache, alice.str) // Argon2 budgeting only

	e.corpusNative(targets, alice)
	e.corpusJWT(targets)

	for i, n := 0, verifh.N(3, 20); i < n; i++ {
		e.randomSequence(targets, alice, i)
	}

	e.stats.Add("seq_argon2_budget_left", e.seqBudget)
}

// corpusNative: the nasty history of a native token — used, revoked, presented again on both
// requirement kinds, un-revoked, permission removed, user deleted and re-created, password
// changed, revoked again with an aged-out cache.
func (e *VerifC20Engine) corpusNative(targets []*c20Target, k *c20SeqTok) {
	q := e.newSeq(targets)
	q.toks = []*c20SeqTok{k}

	defer q.finish()

	e.installDB(map[string][]string{
		"alice": q.everything(), "bob": {"EGO.ROOT", "ego.logon"}, "carol": {"ego.logon"},
	})
	q.note("database %v", e.db)

	all := func() {
		for _, t := range q.targets {
			q.request(t, q.bearer(k), k)
		}
	}

	all() // valid: every route runs, the token is now cached
	q.revoke(k)

	// revoked after use: nothing with a requirement may run (both requirement kinds, generated and
	// real routes; every refusal of a revoked native token is an Argon2 evaluation, hence not all)
	for _, t := range q.targets {
		if t.calls == nil || len(t.calls) < 2 && !strings.HasSuffix(t.path, "/perm2") {
			q.request(t, q.bearer(k), k)
		}
	}

	q.unrevoke(k)
	q.request(q.target("/perm"), q.bearer(k), k)
	q.request(q.target("/auth"), q.bearer(k), k)
	q.removePerm("alice", "perm.a")
	q.request(q.target("/perm"), q.bearer(k), k)
	q.request(q.target("/perm2"), q.bearer(k), k)
	q.request(q.target("/both"), q.bearer(k), k)
	q.grantPerm("alice", "PERM.A")
	q.request(q.target("/perm2"), q.bearer(k), k)
	q.deleteUser("alice")
	q.request(q.target("/auth"), q.bearer(k), k)
	q.request(q.target("/perm"), q.bearer(k), k)
	q.request(q.target("/auth"), q.basic(0, "current"), nil)
	q.createUser("alice", []string{"ego.root"})
	q.request(q.target("/perm2"), q.bearer(k), k)
	q.request(q.target("/perm"), q.basic(0, "current"), nil)
	q.changePassword("alice")
	q.request(q.target("/auth"), q.basic(0, "old"), nil)
	q.request(q.target("/perm"), q.basic(0, "old"), nil)
	q.request(q.target("/auth"), q.basic(0, "current"), nil)
	q.removePerm("alice", "ego.root")
	q.request(q.target("/perm"), q.basic(0, "current"), nil)
	q.request(q.target("/perm"), q.bearer(k), k)
	q.revoke(k)
	q.ageOut()
	q.request(q.target("/auth"), q.bearer(k), k)
}

// corpusJWT: the same revocation history for an identity-provider token (cheap: no Argon2).
func (e *VerifC20Engine) corpusJWT(targets []*c20Target) {
	q := e.newSeq(targets)

	defer q.finish()

	k := q.jwtFor("erin")
	if k == nil {
		e.stats.Inc("seq_jwt_unavailable")

		return
	}

	q.toks = []*c20SeqTok{k}
	e.installDB(map[string][]string{"alice": {"ego.logon"}})

	all := func() {
		for _, t := range q.targets {
			q.request(t, q.bearer(k), k)
		}
	}

	all()
	q.revoke(k)
	all()
	q.unrevoke(k)
	all()
	q.revoke(k)
	q.ageOut()
	q.request(q.target("/auth"), q.bearer(k), k)
	q.request(q.target("/perm"), q.bearer(k), k)
}

// randomSequence interleaves requests and credential-state changes at random.
func (e *VerifC20Engine) randomSequence(targets []*c20Target, k *c20SeqTok, n int) {
	r := e.rnd
	q := e.newSeq(targets)
	q.toks = []*c20SeqTok{k}

	defer q.finish()

	// a second native token, of another user, while the Argon2 budget allows (issue + first use)
	if e.seqBudget >= 6 && n%2 == 0 {
		u := c20Pool[1+r.Intn(len(c20Pool)-1)].name

		if s, err := tokens.New(u, "", "2h", uuid.NewString(), 0); err == nil {
			e.seqBudget--
			q.toks = append(q.toks, &c20SeqTok{kind: "native", user: u, str: s})
		}
	}

	if j := q.jwtFor([]string{"erin", "frank", "alice"}[r.Intn(3)]); j != nil {
		q.toks = append(q.toks, j)
	}

	db := e.randomDB(q.want)

	for _, t := range q.toks {
		if t.kind == "native" && r.Intn(4) != 0 {
			db[t.user] = q.everything() // mostly: the token's user starts fully entitled
		}
	}

	e.installDB(db)
	q.note("database %v", e.db)

	pickTarget := func() *c20Target { return q.targets[r.Intn(len(q.targets))] }

	for step, steps := 0, 10+r.Intn(10); step < steps; step++ {
		k := q.toks[r.Intn(len(q.toks))]
		u := c20Pool[r.Intn(len(c20Pool))].name

		if r.Intn(2) == 0 {
			u = q.toks[0].user
			if len(q.toks) > 1 && r.Intn(2) == 0 {
				u = q.toks[1].user
			}
		}

		switch r.Intn(20) {
		case 0, 1:
			q.revoke(k)
		case 2:
			q.unrevoke(k)
		case 3:
			q.ageOut()
		case 4:
			if _, ok := e.db[u]; ok {
				q.deleteUser(u)
			} else {
				q.createUser(u, q.everything())
			}
		case 5:
			if len(q.want) > 0 {
				q.removePerm(u, q.want[r.Intn(len(q.want))])
			}
		case 6:
			if len(q.want) > 0 {
				q.grantPerm(u, c20Recase(r, q.want[r.Intn(len(q.want))]))
			}
		case 7:
			q.changePassword(u)
		case 8, 9, 10:
			i := r.Intn(len(c20Pool))
			q.request(pickTarget(), q.basic(i, []string{"current", "old", "wrong"}[r.Intn(3)]), nil)
		case 11:
			q.request(pickTarget(), c20Cred{form: "none", model: "cred=none"}, nil)
		default:
			// a bearer presentation; a cold or revoked native token costs an Argon2 evaluation
			if k.kind == "native" && !k.warm && e.seqBudget <= 0 {
				for _, o := range q.toks {
					if o.kind == "jwt" {
						k = o
					}
				}

				if k.kind == "native" {
					continue
				}
			}

			q.request(pickTarget(), q.bearer(k), k)

			if r.Intn(2) == 0 { // the same credential on a route of the other kind, back to back
				if k.kind != "native" || k.warm || e.seqBudget > 0 {
					q.request(pickTarget(), q.bearer(k), k)
				}
			}
		}
	}
}
