//go:build verif

package router

import (
	"fmt"
	"regexp"
	"sort"
	"strings"

	"github.com/tucats/ego/internal/verifh"
)

var c20Placeholder = regexp.MustCompile(`\{\{[^}]*\}\}`)

// DriveTable drives every route of a REAL route table (built by the repository's own code):
// each route's handler is replaced by a probe, a concrete URL is derived from its endpoint
// pattern, and every credential form is sent through Router.ServeHTTP.
func (e *VerifC20Engine) DriveTable(m *Router, label string) {
	type sel struct{ endpoint, method string }

	keys := []sel{}
	for k := range m.routes {
		keys = append(keys, sel{k.endpoint, k.method})
	}

	sort.Slice(keys, func(i, j int) bool {
		if keys[i].endpoint != keys[j].endpoint {
			return keys[i].endpoint < keys[j].endpoint
		}

		return keys[i].method < keys[j].method
	})

	probe := &c20Probe{}

	for _, rt := range m.routes {
		if rt.handler != nil {
			rt.handler = probe.handler()
		}
	}

	driven := map[*Route]bool{}

	for _, k := range keys {
		rt := m.routes[routeSelector{endpoint: k.endpoint, method: k.method}]
		e.stats.Inc("real_routes")

		if rt.mustAuthenticate || rt.requiredPermissions != nil {
			e.stats.Inc("real_routes_with_requirements")
		}

		if rt.lightweight {
			e.stats.Inc("real_routes_lightweight")
		}

		method := k.method
		if method == AnyMethod {
			method = "GET"
		}

		path := c20ConcretePath(k.endpoint)

		// the router's own resolution decides which route this URL reaches
		got, status := m.FindRoute(method, path, false)
		if got == nil || status != 200 {
			e.stats.Inc("real_routes_unresolved")

			continue
		}

		if got != rt {
			e.stats.Inc("real_routes_shadowed")
		}

		if driven[got] {
			continue
		}

		driven[got] = true
		e.stats.Inc("real_routes_driven")

		reps := 1
		if verifh.Thorough() {
			reps = 3
		}

		for i := 0; i < reps; i++ {
			e.drive(&c20Target{m: m, rt: got, method: method, path: path, probe: probe,
				label: fmt.Sprintf("%s route %s %s", label, got.method, got.endpoint)})
		}
	}
}

// c20ConcretePath derives a concrete URL path from an endpoint pattern.
func c20ConcretePath(endpoint string) string {
	return c20Placeholder.ReplaceAllStringFunc(endpoint, func(s string) string {
		if strings.HasSuffix(s, "...}}") {
			return "v1/v2"
		}

		return "v1"
	})
}

var c20PermPool = []string{"perm.a", "Perm.B", "perm.c", "ego.logon", "ego.root", "PERM.A", ""}

func (e *VerifC20Engine) randomCall() c20Call {
	r := e.rnd

	switch r.Intn(12) {
	case 0, 1:
		return c20Call{kind: 'A', flag: r.Intn(3) != 0}
	case 2, 3:
		return c20Call{kind: 'L', flag: r.Intn(3) != 0}
	case 4:
		return c20Call{kind: 'C', flag: r.Intn(3) != 0}
	case 5:
		return c20Call{kind: 'R', flag: r.Intn(2) == 0}
	case 6, 7, 8:
		n := r.Intn(4)
		ps := []string{}

		for i := 0; i < n; i++ {
			ps = append(ps, c20PermPool[r.Intn(len(c20PermPool))])
		}

		return c20Call{kind: 'P', perms: ps}
	case 9:
		if r.Intn(4) == 0 {
			return c20Call{kind: 'D', flag: r.Intn(3) != 0}
		}

		return c20Call{kind: 'K'}
	default:
		return c20Call{kind: 'O', other: r.Intn(5)}
	}
}

func c20Permutations(calls []c20Call, limit int) [][]c20Call {
	var out [][]c20Call

	var rec func(prefix, rest []c20Call)

	rec = func(prefix, rest []c20Call) {
		if len(out) >= limit {
			return
		}

		if len(rest) == 0 {
			out = append(out, append([]c20Call{}, prefix...))

			return
		}

		for i := range rest {
			next := append(append([]c20Call{}, rest[:i]...), rest[i+1:]...)
			rec(append(prefix, rest[i]), next)
		}
	}

	rec(nil, calls)

	return out
}

// declare builds one route with the REAL builder, records the builder correspondence line, and
// drives it.
func (e *VerifC20Engine) declare(calls []c20Call, nilHandler bool) {
	m := NewRouter("verif-c20")
	probe := &c20Probe{}
	method := "GET"

	for _, c := range calls {
		if c.kind == 'K' {
			method = "POST"
		}
	}

	var h HandlerFunc
	if !nilHandler {
		h = probe.handler()
	}

	rt := m.New("/verif/c20", h, method)
	toks := make([]string, len(calls))
	text := make([]string, len(calls))

	for i, c := range calls {
		c.apply(rt)
		toks[i] = c.token()
		text[i] = c.text()
	}

	_, p := c20Flags(rt)
	in := strings.TrimSpace("build " + strings.Join(toks, " "))
	impl := fmt.Sprintf("m=%s c=%s l=%s r=%s d=%s p=%s", c20Bit(rt.mustAuthenticate), c20Bit(rt.canAuthenticate),
		c20Bit(rt.lightweight), c20Bit(rt.allowRedirects), c20Bit(rt.redirect != ""), p)
	e.cases.Write(verifh.Case{In: in, Impl: impl, Desc: "builder"})
	e.stats.Inc("build_cases")
	e.distinct[in] = true

	// builder oracle, model-free: what the route will enforce is what the declaration asks for
	needAuth, want, anyPerms := c20Declared(calls)
	enforced := rt.mustAuthenticate || rt.requiredPermissions != nil

	if enforced != needAuth || anyPerms != (rt.requiredPermissions != nil) {
		e.nfail++
		e.perClass["builder-dropped-requirement"]++
	}

	if (enforced != needAuth || anyPerms != (rt.requiredPermissions != nil)) && e.perClass["builder-dropped-requirement"] <= 25 {
		e.fails.Write(verifh.Failure{Class: "builder-dropped-requirement",
			What:  "the route built from the declaration does not carry the declared authentication requirement",
			Input: "New()." + strings.Join(text, ".") + " | " + in, Got: impl,
			Want: fmt.Sprintf("authentication required=%v permissions declared=%v", needAuth, anyPerms)})
	}

	for _, w := range want {
		found := false

		for _, q := range rt.requiredPermissions {
			found = found || q == w
		}

		if !found {
			e.nfail++
			e.fails.Write(verifh.Failure{Class: "builder-lost-permission", What: "a declared permission is missing from the route",
				Input: in, Got: impl, Want: w})
		}
	}

	e.drive(&c20Target{m: m, rt: rt, method: method, path: "/verif/c20", calls: calls, probe: probe, label: "decl New()." + strings.Join(text, ".")})
}

// DriveDeclarations: a fixed corpus of nasty declarations in ALL orders of their calls, then
// random multisets of calls in all orders, then longer random call sequences.
func (e *VerifC20Engine) DriveDeclarations() {
	A := func(b bool) c20Call { return c20Call{kind: 'A', flag: b} }
	L := func(b bool) c20Call { return c20Call{kind: 'L', flag: b} }
	C := func(b bool) c20Call { return c20Call{kind: 'C', flag: b} }
	P := func(p ...string) c20Call { return c20Call{kind: 'P', perms: p} }
	D := c20Call{kind: 'D', flag: true}
	K := c20Call{kind: 'K'}
	O := c20Call{kind: 'O', other: 2}

	corpus := [][]c20Call{
		{}, {A(true)}, {L(true)}, {P("perm.a")}, {P()},
		{L(true), A(true)}, {L(true), A(true), C(true)}, {L(false), A(false)},
		{P("perm.a"), L(true)}, {P("perm.a"), L(true), C(true)}, {P("perm.a"), A(false)}, {P("perm.a"), A(false), C(true)},
		{A(true), A(false)}, {A(true), L(false)}, {L(true), L(false), A(true)},
		{P("perm.a", "Perm.B"), P("perm.a", "perm.c")}, {P(), L(true)}, {P(), A(false)},
		{A(true), L(true), P("ego.logon"), C(true)}, {D, A(true)}, {D, P("perm.a")}, {D, L(true), A(true)},
		{K, P("ego.logon")}, {K, A(true), L(true)}, {O, A(true), L(true)}, {P("ego.root"), L(true)}, {P(""), A(false)},
	}

	for _, base := range corpus {
		for _, perm := range c20Permutations(base, 24) {
			e.declare(perm, false)
		}
	}

	for i, n := 0, verifh.N(30, 200); i < n; i++ {
		k := 1 + e.rnd.Intn(4)
		base := make([]c20Call, k)

		for j := range base {
			base[j] = e.randomCall()
		}

		for _, perm := range c20Permutations(base, 24) {
			e.declare(perm, e.rnd.Intn(15) == 0)
		}
	}

	for i, n := 0, verifh.N(80, 800); i < n; i++ {
		k := 1 + e.rnd.Intn(9)
		seq := make([]c20Call, k)

		for j := range seq {
			seq[j] = e.randomCall()
		}

		e.declare(seq, e.rnd.Intn(15) == 0)
	}
}
