//go:build verif

package router

// C38 entry-point harness: the Accept-Language header as a request delivers it, through the real
// negotiateLanguage (serve.go; its result becomes Session.Language and the language of the router's own
// error texts). Replays the header sample the i18n harness exported (hostile tags derived from the shipped
// codes, corpus, structured, junk incl. invalid UTF-8) against the reference answer computed there.
// Direct oracle: the language of the request is the reference answer, or the documented default
// (i18n.DefaultLanguage()) when no item of the header matches - never anything else.

import (
	"bufio"
	"encoding/json"
	"fmt"
	"net/http"
	"os"
	"path/filepath"
	"testing"

	"github.com/tucats/ego/internal/i18n"
	"github.com/tucats/ego/internal/verifh"
)

func TestVerifC38Router(t *testing.T) {
	f, err := os.Open(filepath.Join(os.Getenv("VERIF_OUT"), "c38_headers.jsonl"))
	if err != nil {
		t.Fatalf("header sample of the i18n harness missing: %v", err)
	}
	defer f.Close()

	fails := verifh.Out("c38_failures_router.jsonl")
	stats := verifh.NewStats()

	defer func() {
		fails.Close()
		stats.Save("c38_stats_router.json")
	}()

	shipped := map[string]bool{}
	for _, l := range i18n.SupportedLanguages() {
		shipped[l] = true
	}

	def := i18n.DefaultLanguage()

	sc := bufio.NewScanner(f)
	sc.Buffer(make([]byte, 1<<20), 1<<24)

	for sc.Scan() {
		var h struct {
			H, Want, Stream string
		}

		if err := json.Unmarshal(sc.Bytes(), &h); err != nil {
			t.Fatalf("c38_headers.jsonl: %v", err)
		}

		value := verifh.UnHex(h.H)
		want := h.Want

		if want == "" {
			want = def
		}

		// as net/http delivers it: canonical key, and (second form) the value split over two header lines is
		// NOT joined by Header.Get - only the first line counts
		r := &http.Request{Method: http.MethodGet, Header: http.Header{}}
		r.Header.Set("Accept-Language", value)

		got := negotiateLanguage(r)

		stats.Inc("router_headers")

		if got != want || !(shipped[got] || got == def) {
			fails.Write(verifh.Failure{Class: "negotiate-request-language", What: "the language negotiated for a request (Session.Language) is not the documented match of its Accept-Language header nor the default language",
				Input: "Accept-Language(hex)=" + h.H + " Accept-Language=" + fmt.Sprintf("%q", value), Got: fmt.Sprintf("%q", got), Want: fmt.Sprintf("%q", want)})
			stats.Inc("failures")
		}
	}

	if stats.M["router_headers"] == 0 {
		t.Fatal("no headers replayed")
	}
}
